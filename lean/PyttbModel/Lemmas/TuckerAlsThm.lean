/-
C10 — `tucker_als`: the iteration and the run-level facts.
-/
import PyttbModel.Lemmas.TuckerAls
namespace Pyttb
namespace Tk
open Finset

/-- What is known about one executed iteration. -/
structure RecTA (X : Dense ℝ) (rank : List Nat) (r : IterRec ℝ) : Prop where
  lenF : r.factors.length = X.shape.length
  ortho : ∀ n < X.shape.length, OrthoCols (r.factors.getD n []) (X.shape.getD n 0) (rank.getD n 0)
  core : r.core = ttmFold X (ascList r.factors X.shape.length) true
  nres : r.normresidual = Gen.normresidual realOps (tnorm realOps X) (tnorm realOps r.core)
  fit : r.fit = Gen.fit realOps r.normresidual (tnorm realOps X)

/-- Facts about the list of executed iterations. -/
structure ItersOK (nvecs : Nat → Dense ℝ → Nat → Nat → Mat ℝ) (X : Dense ℝ) (rank : List Nat) (fuel it : Nat)
    (U : List (Mat ℝ)) (recs : List (IterRec ℝ)) : Prop where
  len : recs.length ≤ fuel
  nonempty : 0 < fuel → recs ≠ []
  numbering : ∀ i (h : i < recs.length), recs[i].iteration = it + i
  each : ∀ r ∈ recs, RecTA X rank r
  sorted : NvecsLeading nvecs → KyFan → (recs.map fun r => normSq r.core).Pairwise (· ≤ ·)
  above : MonoHyp nvecs X rank U → ∀ r ∈ recs, energy X U ≤ normSq r.core

theorem iterate_ok {nvecs : Nat → Dense ℝ → Nat → Nat → Mat ℝ} (hC : NvecsContract nvecs) {X : Dense ℝ} (hX : X.WF)
    {rank : List Nat} (hR : ∀ n < X.shape.length, rank.getD n 0 ≤ X.shape.getD n 0) {order : List Nat}
    (hp : isPermOf order X.shape.length = true) (stoptol : ℝ) :
    ∀ (fuel it : Nat) (U : List (Mat ℝ)) (fitold : ℝ) (calls : Nat) (recs : List (IterRec ℝ)),
      U.length = X.shape.length →
      iterate realOps nvecs X (tnorm realOps X) stoptol rank order fuel it U fitold calls = .ok recs →
      ItersOK nvecs X rank fuel it U recs := by
  intro fuel
  induction fuel with
  | zero =>
    intro it U fitold calls recs _ h
    unfold iterate at h
    cases h
    exact ⟨by simp, fun h => by omega, fun i h => by simp at h, fun r h => by simp at h,
      fun _ _ => by simp, fun _ r h => by simp at h⟩
  | succ fuel ih =>
    intro it U fitold calls recs hU h
    unfold iterate at h
    split at h
    · cases h
    rename_i U' core calls' hsw
    obtain ⟨hU', hortho, hcore, hmono⟩ := sweep_ok hC hX hR hp hU hsw
    simp only at h
    have hrec : RecTA X rank ⟨it, U', core, Gen.normresidual realOps (tnorm realOps X) (tnorm realOps core),
        Gen.fit realOps (Gen.normresidual realOps (tnorm realOps X) (tnorm realOps core)) (tnorm realOps X),
        Gen.fitchange realOps fitold
          (Gen.fit realOps (Gen.normresidual realOps (tnorm realOps X) (tnorm realOps core)) (tnorm realOps X))⟩ :=
      ⟨hU', hortho, hcore, rfl, rfl⟩
    split at h
    · cases h
      refine ⟨by simp, fun _ => by simp, ?_, ?_, fun _ _ => by simp, ?_⟩
      · intro i hi
        have : i = 0 := by simpa using hi
        subst this; rfl
      · intro r hr
        rw [List.mem_singleton] at hr
        subst hr; exact hrec
      · intro hM r hr
        rw [List.mem_singleton] at hr
        subst hr
        exact hmono hM
    · split at h
      · cases h
      rename_i rest hrest
      cases h
      have hIH := ih (it + 1) U' _ calls' rest hU' hrest
      refine ⟨by simpa using hIH.len, fun _ => by simp, ?_, ?_, ?_, ?_⟩
      · intro i hi
        cases i with
        | zero => rfl
        | succ i =>
          have := hIH.numbering i (by simpa using hi)
          simp only [List.getElem_cons_succ]
          rw [this]; omega
      · intro r hr
        rcases List.mem_cons.1 hr with h1 | h1
        · subst h1; exact hrec
        · exact hIH.each r h1
      · intro hL hK
        simp only [List.map_cons, List.pairwise_cons]
        refine ⟨?_, hIH.sorted hL hK⟩
        intro x hx
        obtain ⟨r, hr, rfl⟩ := List.mem_map.1 hx
        have := hIH.above ⟨hL, hK, hortho⟩ r hr
        rw [hcore]
        exact this
      · intro hM r hr
        rcases List.mem_cons.1 hr with h1 | h1
        · subst h1; exact hmono hM
        · obtain ⟨hL, hK, _⟩ := hM
          have h2 := hIH.above ⟨hL, hK, hortho⟩ r h1
          have h3 := hmono ⟨hL, hK, by assumption⟩
          rw [hcore] at h3
          exact le_trans h3 h2

/-! ### the initial guess has one entry per mode -/

theorem fillInit_length {svc : Nat → Nat → Nat → Mat ℝ} {rank : List Nat} :
    ∀ (l : List Nat) (st st' : List (Mat ℝ) × Nat), l.foldlM (fillInit svc rank) st = .ok st' →
      st'.1.length = st.1.length := by
  intro l
  induction l with
  | nil => intro st st' h; simp only [List.foldlM_nil] at h; cases h; rfl
  | cons n l ih =>
    intro st st' h
    simp only [List.foldlM_cons] at h
    cases hf : fillInit svc rank st n with
    | error e => rw [hf] at h; cases h
    | ok s1 =>
      rw [hf] at h
      have := ih s1 st' h
      rw [this]
      unfold fillInit at hf
      split at hf
      · cases hf
      · cases hf; simp

theorem initGuess_length {nvecs : Nat → Dense ℝ → Nat → Nat → Mat ℝ} {uniform : Nat → Nat → Nat → Mat ℝ}
    {X : Dense ℝ} {rank order : List Nat} {init : Init ℝ} {Uinit : List (Mat ℝ)} {calls : Nat}
    (h : initGuess nvecs uniform X rank order init = .ok (Uinit, calls)) : Uinit.length = X.shape.length := by
  unfold initGuess at h
  cases init with
  | list Us =>
    simp only at h
    split at h
    · cases h
    · rename_i hl
      split at h
      · cases h
      · cases h
        simpa using hl
  | str s =>
    simp only at h
    split at h
    · split at h
      · cases h
      · rename_i st hst
        cases h
        simpa using fillInit_length _ _ _ hst
    · split at h
      · have := fillInit_length _ _ _ h
        simpa using this
      · cases h

/-- A successful run was given ranks between one and the mode sizes (35fe719), one per mode (11afd42). -/
theorem tuckerAlsRun_ranks {nvecs : Nat → Dense ℝ → Nat → Nat → Mat ℝ} {uniform : Nat → Nat → Nat → Mat ℝ}
    {X : Dense ℝ} {rank : List Nat} {stoptol : ℝ} {maxiters : Int} {dimorder : Option (List Nat)} {init : Init ℝ}
    {out : TaOut ℝ} {recs : List (IterRec ℝ)}
    (h : tuckerAlsRun realOps nvecs uniform X rank stoptol maxiters dimorder init = .ok (out, recs)) :
    (parseRank rank X.shape.length).length = X.shape.length ∧
    (∀ r ∈ parseRank rank X.shape.length, 1 ≤ r) ∧
    ∀ n < X.shape.length, (parseRank rank X.shape.length).getD n 0 ≤ X.shape.getD n 0 := by
  unfold tuckerAlsRun at h
  simp only at h
  split at h
  · cases h
  split at h
  · cases h
  rename_i h1b
  split at h
  · cases h
  rename_i h1c
  simp only [Bool.or_eq_true, not_or, Bool.not_eq_true, List.any_eq_false, decide_eq_true_eq, not_lt] at h1c
  exact ⟨by simpa using h1b, h1c.1, ranksExceed_false.1 h1c.2⟩

/-- Unfolding of a successful run. -/
theorem tuckerAlsRun_ok {nvecs : Nat → Dense ℝ → Nat → Nat → Mat ℝ} {uniform : Nat → Nat → Nat → Mat ℝ}
    {X : Dense ℝ} {rank : List Nat} {stoptol : ℝ} {maxiters : Int} {dimorder : Option (List Nat)} {init : Init ℝ}
    {out : TaOut ℝ} {recs : List (IterRec ℝ)}
    (h : tuckerAlsRun realOps nvecs uniform X rank stoptol maxiters dimorder init = .ok (out, recs)) :
    0 ≤ maxiters ∧ isPermOf (modeOrder dimorder X.shape.length) X.shape.length = true ∧
    ∃ Uinit calls r, initGuess nvecs uniform X (parseRank rank X.shape.length) (modeOrder dimorder X.shape.length) init
        = .ok (Uinit, calls) ∧
      iterate realOps nvecs X (tnorm realOps X) stoptol (parseRank rank X.shape.length)
        (modeOrder dimorder X.shape.length) maxiters.toNat 0 Uinit 0 calls = .ok recs ∧
      recs.getLast? = some r ∧ out.solution = ⟨r.core, r.factors⟩ ∧ out.uinit = Uinit ∧
      out.iters = Gen.itersReported r.iteration ∧ out.normresidual = r.normresidual ∧ out.fit = r.fit := by
  unfold tuckerAlsRun at h
  simp only at h
  split at h
  · cases h
  rename_i h1
  split at h
  · cases h
  rename_i h1b
  split at h
  · cases h
  split at h
  · cases h
  rename_i h2
  split at h
  · cases h
  rename_i Uinit calls hinit
  split at h
  · cases h
  rename_i recs' hit
  split at h
  · cases h
  rename_i r hlast
  split at h
  · cases h
  rename_i T hm
  simp only [Except.ok.injEq, Prod.mk.injEq] at h
  obtain ⟨ho, hr⟩ := h
  subst hr
  subst ho
  refine ⟨by omega, by simpa using h2, Uinit, calls, r, hinit, hit, hlast, ?_, rfl, rfl, rfl, rfl⟩
  unfold mkTtensor at hm
  split at hm
  · cases hm; rfl
  · cases hm

/-! ### reconstruction error of a projected core, scalar formulas over ℝ -/

/-- For orthonormal factors `Us` and the projected core `G = X ×ₙ Usₙᵀ`, the Tucker tensor `(G, Us)`
satisfies `‖X − full‖² = ‖X‖² − ‖G‖²` (and in particular `‖G‖² ≤ ‖X‖²`). -/
theorem tucker_err_eq (X : Dense ℝ) (hX : X.WF) (Us : List (Mat ℝ))
    (hO : ∀ n < X.shape.length, OrthoCols (Us.getD n []) (X.shape.getD n 0) (Us.getD n []).ncols)
    {F E : Dense ℝ} (hF : tfull ⟨ttmFold X (ascList Us X.shape.length) true, Us⟩ = .ok F) (hE : dsub X F = .ok E) :
    normSq E = normSq X - normSq (ttmFold X (ascList Us X.shape.length) true) := by
  have hq : ∀ q ∈ ascList Us X.shape.length, q.1 < X.shape.length ∧ OrthoCols q.2 (X.shape.getD q.1 0) q.2.ncols := by
    intro q hq
    simp only [ascList, List.mem_map, List.mem_range] at hq
    obtain ⟨k, hk, rfl⟩ := hq
    exact ⟨hk, hO k hk⟩
  have hadm : Adm (ascList Us X.shape.length) X.shape := adm_of_ortho _ _ (ascList_fst_nodup _ _) hq
  have hFe : F = recon (ascList Us X.shape.length) (ttmFold X (ascList Us X.shape.length) true) := by
    have := ttmAll_ok hF
    simp only [ttmFold_shape_length] at this
    rw [this, recon_eq_fold]
    apply ttmFold_perm (List.reverse_perm _).symm (ascList_fst_nodup _ _)
  rw [hFe] at hE
  exact fit_identity _ X hX hadm E hE

theorem core_le_norm (X : Dense ℝ) (hX : X.WF) (Us : List (Mat ℝ))
    (hO : ∀ n < X.shape.length, OrthoCols (Us.getD n []) (X.shape.getD n 0) (Us.getD n []).ncols) :
    normSq (ttmFold X (ascList Us X.shape.length) true) ≤ normSq X := by
  have hq : ∀ q ∈ ascList Us X.shape.length, q.1 < X.shape.length ∧ OrthoCols q.2 (X.shape.getD q.1 0) q.2.ncols := by
    intro q hq
    simp only [ascList, List.mem_map, List.mem_range] at hq
    obtain ⟨k, hk, rfl⟩ := hq
    exact ⟨hk, hO k hk⟩
  exact ttmFold_normSq_le _ X hX (adm_of_ortho _ _ (ascList_fst_nodup _ _) hq)

/-- `normresidual` over ℝ. -/
theorem normresidual_eq (nx g : ℝ) (hnx : 0 ≤ nx) (hg : 0 ≤ g) :
    Gen.normresidual realOps (Real.sqrt nx) (Real.sqrt g) = Real.sqrt |nx - g| := by
  simp only [Gen.normresidual, realOps, npow, one_mul]
  rw [Real.mul_self_sqrt hnx, Real.mul_self_sqrt hg]

theorem fit_eq (nr normX : ℝ) : Gen.fit realOps nr normX = 1 - nr / normX := by
  simp [Gen.fit, realOps]

theorem RecTA.ortho' {X : Dense ℝ} {rank : List Nat} {r : IterRec ℝ} (h : RecTA X rank r) :
    ∀ n < X.shape.length, OrthoCols (r.factors.getD n []) (X.shape.getD n 0) (r.factors.getD n []).ncols := by
  intro n hn
  have := h.ortho n hn
  rw [this.ncols]; exact this

/-- The quantities recorded for an iteration, in closed form. -/
theorem RecTA.values {X : Dense ℝ} (hX : X.WF) {rank : List Nat} {r : IterRec ℝ} (h : RecTA X rank r) :
    r.normresidual = Real.sqrt (normSq X - normSq r.core) ∧
    r.fit = 1 - Real.sqrt (normSq X - normSq r.core) / Real.sqrt (normSq X) ∧ normSq r.core ≤ normSq X := by
  have hle : normSq r.core ≤ normSq X := by rw [h.core]; exact core_le_norm X hX _ h.ortho'
  have hcw : r.core.WF := by rw [h.core]; exact ttmFold_WF X hX _ _
  have e1 : r.normresidual = Real.sqrt (normSq X - normSq r.core) := by
    rw [h.nres]
    simp only [tnorm]
    show Gen.normresidual realOps (Real.sqrt (normSq X)) (Real.sqrt (normSq r.core)) = _
    rw [normresidual_eq _ _ (normSq_nonneg X hX) (normSq_nonneg _ hcw), abs_of_nonneg (by linarith)]
  refine ⟨e1, ?_, hle⟩
  rw [h.fit, fit_eq, e1]
  rfl

theorem fit_mono (nx g g' : ℝ) (h1 : g ≤ g') (h2 : g' ≤ nx) :
    1 - Real.sqrt (nx - g) / Real.sqrt nx ≤ 1 - Real.sqrt (nx - g') / Real.sqrt nx := by
  have : Real.sqrt (nx - g') ≤ Real.sqrt (nx - g) := Real.sqrt_le_sqrt (by linarith)
  have := div_le_div_of_nonneg_right this (Real.sqrt_nonneg nx)
  linarith

/-! ### run-level facts -/

theorem tuckerAls_run_of_ok {nvecs : Nat → Dense ℝ → Nat → Nat → Mat ℝ} {uniform : Nat → Nat → Nat → Mat ℝ}
    {X : Dense ℝ} {rank : List Nat} {stoptol : ℝ} {maxiters : Int} {dimorder : Option (List Nat)} {init : Init ℝ}
    {out : TaOut ℝ} (h : tuckerAls realOps nvecs uniform X rank stoptol maxiters dimorder init = .ok out) :
    ∃ recs, tuckerAlsRun realOps nvecs uniform X rank stoptol maxiters dimorder init = .ok (out, recs) := by
  unfold tuckerAls at h
  cases hr : tuckerAlsRun realOps nvecs uniform X rank stoptol maxiters dimorder init with
  | error e => rw [hr] at h; cases h
  | ok p =>
    rw [hr] at h
    obtain ⟨o, recs⟩ := p
    cases h
    exact ⟨recs, rfl⟩

/-- Everything the property theorems need about a successful run of `tucker_als`. -/
structure TaFacts (nvecs : Nat → Dense ℝ → Nat → Nat → Mat ℝ) (X : Dense ℝ) (rank : List Nat) (maxiters : Int)
    (out : TaOut ℝ) (recs : List (IterRec ℝ)) : Prop where
  iters : ∃ Uinit, ItersOK nvecs X (parseRank rank X.shape.length) maxiters.toNat 0 Uinit recs
  pos : 0 ≤ maxiters
  last : ∃ r, recs.getLast? = some r ∧ RecTA X (parseRank rank X.shape.length) r ∧
    out.solution = ⟨r.core, r.factors⟩ ∧ out.iters = Gen.itersReported r.iteration ∧
    out.normresidual = r.normresidual ∧ out.fit = r.fit ∧ r.iteration + 1 = recs.length

theorem tucker_facts {nvecs : Nat → Dense ℝ → Nat → Nat → Mat ℝ} (hC : NvecsContract nvecs)
    {uniform : Nat → Nat → Nat → Mat ℝ} {X : Dense ℝ} (hX : X.WF) {rank : List Nat}
    (hR : ∀ n < X.shape.length, (parseRank rank X.shape.length).getD n 0 ≤ X.shape.getD n 0)
    {stoptol : ℝ} {maxiters : Int} {dimorder : Option (List Nat)} {init : Init ℝ} {out : TaOut ℝ}
    {recs : List (IterRec ℝ)}
    (h : tuckerAlsRun realOps nvecs uniform X rank stoptol maxiters dimorder init = .ok (out, recs)) :
    TaFacts nvecs X rank maxiters out recs := by
  obtain ⟨hpos, hperm, Uinit, calls, r, hinit, hit, hlast, hsol, _, hiters, hnr, hfit⟩ := tuckerAlsRun_ok h
  have hI := iterate_ok hC hX hR hperm stoptol _ _ _ _ _ _ (initGuess_length hinit) hit
  have hmem : r ∈ recs := List.mem_of_getLast? hlast
  refine ⟨⟨Uinit, hI⟩, hpos, r, hlast, hI.each r hmem, hsol, hiters, hnr, hfit, ?_⟩
  have hne : recs ≠ [] := List.ne_nil_of_mem hmem
  have hl : 0 < recs.length := List.length_pos_iff.2 hne
  have hg : recs[recs.length - 1]'(by omega) = r := by
    rw [List.getLast?_eq_getElem?] at hlast
    rw [List.getElem?_eq_getElem (by omega)] at hlast
    exact Option.some.inj hlast
  have := hI.numbering (recs.length - 1) (by omega)
  rw [hg] at this
  omega

end Tk
end Pyttb
