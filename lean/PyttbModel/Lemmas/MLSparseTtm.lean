/-
C02 — sparse `ttm`: sparse matricization (mode `n` as the only column mode), product with the dense
matrix, `sptenmat.from_array`, `to_sptensor`, `to_tensor`.  The result equals what the dense kernel
returns for the expanded tensor, so every dense `ttm` theorem transfers.
-/
import PyttbModel.Lemmas.MLDenseTtmList
import PyttbModel.Lemmas.ConvertSptenmat
import PyttbModel.Lemmas.MLInner
import PyttbModel.Ops.MultilinearSparse
namespace Pyttb
namespace ML

variable {α : Type}

/-- When every entry filed under `i` carries the same value, that is the value read back. -/
theorem kvLast_const [Zero α] (es : List (List Nat × α)) (i : List Nat) (v : α)
    (hall : ∀ e ∈ es, e.1 = i → e.2 = v) (hex : ∃ e ∈ es, e.1 = i) : kvLast es i = v := by
  unfold kvLast
  cases hf : es.reverse.find? (fun e => e.1 == i) with
  | none =>
    obtain ⟨e, he, hei⟩ := hex
    rw [List.find?_eq_none] at hf
    exact absurd (by simp [hei]) (hf e (List.mem_reverse.2 he))
  | some e =>
    have h1 := List.find?_some hf
    have h2 := List.mem_reverse.1 (List.mem_of_find?_eq_some hf)
    simp only [beq_iff_eq] at h1
    exact hall e h2 h1

theorem matSub_unmatSub {s r c : List Nat} (hp : isPermOf (r ++ c) s.length = true) (a b : Nat)
    (ha : a < numel (gather s r)) (hb : b < numel (gather s c)) :
    InBounds s (unmatSub s r c [a, b]) ∧ matSub s r c (unmatSub s r c [a, b]) = [a, b] := by
  obtain ⟨j, hj, hm⟩ := matSub_surj hp a b ha hb
  have : unmatSub s r c [a, b] = j := by rw [← hm]; exact unmatSub_matSub hp hj
  rw [this]; exact ⟨hj, hm⟩

/-- The non-zero cells `from_array` keeps. -/
theorem mem_fromArray_cells [Zero α] [DecidableEq α] (Z : Mat α) (m n : Nat) (e : List Nat × α) :
    e ∈ ((List.range m).flatMap fun a => (List.range n).filterMap fun b =>
        let v := Z.get a b
        if v == 0 then none else some ([a, b], v)) ↔
      ∃ a b, a < m ∧ b < n ∧ Z.get a b ≠ 0 ∧ e = ([a, b], Z.get a b) := by
  simp only [List.mem_flatMap, List.mem_range, List.mem_filterMap]
  constructor
  · rintro ⟨a, ha, b, hb, h⟩
    by_cases hz : Z.get a b = 0
    · simp [hz] at h
    · simp [hz] at h
      exact ⟨a, b, ha, hb, hz, h.symm⟩
  · rintro ⟨a, b, ha, hb, hz, rfl⟩
    exact ⟨a, ha, b, hb, by simp [hz]⟩

/-- `from_array` → `to_sptensor` → `to_tensor` of a dense matrix folds it back: the entry of cell `i`
is the matrix entry at the matrix subscript of `i`. -/
theorem fromArray_full_get [Zero α] [DecidableEq α] (Z : Mat α) (siz r c : List Nat)
    (hp : isPermOf (r ++ c) siz.length = true) (i : List Nat) (hi : InBounds siz i) :
    ((Sptenmat.fromArray Z (numel (gather siz r)) (numel (gather siz c)) r c siz).toSparse.full).get i =
      Z.get (sub2ind (gather siz r) (gather i r)) (sub2ind (gather siz c) (gather i c)) := by
  set rows := numel (gather siz r) with hrows
  set cols := numel (gather siz c) with hcols
  set cells := ((List.range rows).flatMap fun a => (List.range cols).filterMap fun b =>
        let v := Z.get a b
        if v == 0 then none else some ([a, b], v)) with hcells
  have hform : (Sptenmat.fromArray Z rows cols r c siz).toSparse =
      ⟨siz, (cells.map (·.1)).map (unmatSub siz r c), cells.map (·.2)⟩ := rfl
  obtain ⟨hr, hc⟩ := isPermOf_append_lt hp
  set a := sub2ind (gather siz r) (gather i r) with ha
  set b := sub2ind (gather siz c) (gather i c) with hb
  have hal : a < rows := sub2ind_lt (hi.gather hr)
  have hbl : b < cols := sub2ind_lt (hi.gather hc)
  have hmi : matSub siz r c i = [a, b] := rfl
  have hui : unmatSub siz r c [a, b] = i := by rw [← hmi]; exact unmatSub_matSub hp hi
  rw [hform, Sparse.full_eq]
  show (Dense.ofFn siz _).get i = _
  rw [Dense.ofFn_get _ _ hi]
  have hent : (⟨siz, (cells.map (·.1)).map (unmatSub siz r c), cells.map (·.2)⟩ : Sparse α).entries =
      cells.map fun e => (unmatSub siz r c e.1, e.2) := by
    show ((cells.map (·.1)).map (unmatSub siz r c)).zip (cells.map (·.2)) = _
    rw [List.map_map]
    exact zip_map_map cells _ _
  rw [hent]
  -- every entry filed under `i` comes from the cell `[a, b]`
  have hkey : ∀ e ∈ cells.map (fun e => (unmatSub siz r c e.1, e.2)), e.1 = i → e.2 = Z.get a b := by
    intro e he hei
    obtain ⟨e0, he0, rfl⟩ := List.mem_map.1 he
    obtain ⟨a', b', ha', hb', _, rfl⟩ := (mem_fromArray_cells Z rows cols e0).1 he0
    simp only at hei ⊢
    have h2 := (matSub_unmatSub hp a' b' ha' hb').2
    rw [hei, hmi] at h2
    injection h2 with h2a h2b
    injection h2b with h2b _
    rw [h2a, h2b]
  by_cases hz : Z.get a b = 0
  · rw [hz]
    apply kvLast_of_not_mem
    intro hmem
    obtain ⟨e, he, hei⟩ := List.mem_map.1 hmem
    have := hkey e he hei
    obtain ⟨e0, he0, rfl⟩ := List.mem_map.1 he
    obtain ⟨a', b', _, _, hnz, rfl⟩ := (mem_fromArray_cells Z rows cols e0).1 he0
    simp only at this hei
    have h2 := (matSub_unmatSub hp a' b' ‹_› ‹_›).2
    rw [hei, hmi] at h2
    injection h2 with h2a h2b
    injection h2b with h2b _
    apply hnz
    rw [← h2a, ← h2b]; exact hz
  · apply kvLast_const _ _ _ hkey
    refine ⟨(unmatSub siz r c [a, b], Z.get a b), ?_, hui⟩
    exact List.mem_map.2 ⟨([a, b], Z.get a b), (mem_fromArray_cells Z rows cols _).2 ⟨a, b, hal, hbl, hz, rfl⟩, rfl⟩


theorem toSptenmat_mode_t [AddCommMonoid α] [DecidableEq α] (S : Sparse α) (hS : S.WF) (n : Nat)
    (hn : n < S.shape.length) :
    S.toSptenmat (some [n]) none (some .t) = .ok (sptenmatOf S (complDims S.shape.length [n]) [n]) := by
  have hp : isPermOf (complDims S.shape.length [n] ++ [n]) S.shape.length = true :=
    isPermOf_compl_append _ [n] (by simp) (by simpa using hn)
  rw [← toSptenmat_ok S _ [n] hS hp]
  rfl

/-- The fold-back of `Xₙᵀ · Meᵀ` for an effective `pe × sₙ` matrix `Me`. -/
theorem sparse_ttm_fold [CommSemiring α] [DecidableEq α] (S : Sparse α) (hS : S.WF) (Me : Mat α) (pe n : Nat)
    (hn : n < S.shape.length) :
    let rem := complDims S.shape.length [n]
    let sn := S.shape.getD n 0
    let siz := S.shape.set n pe
    let rows := numel (gather S.shape rem)
    let Xd : Mat α := (List.range rows).map fun a => (List.range sn).map fun c =>
      Sparse.get ⟨[rows, sn], (sptenmatOf S rem [n]).subs, (sptenmatOf S rem [n]).vals⟩ [a, c]
    let Y := (Sptenmat.fromArray (Xd.mulD (Me.tr pe sn) rows sn pe) rows pe rem [n] siz).toSparse.full
    Y.WF ∧ Y.shape = siz ∧ ∀ i, InBounds siz i →
      Y.get i = sumRange sn fun c => Me.get (i.getD n 0) c * S.get (i.set n c) := by
  intro rem sn siz rows Xd Y
  have hp : isPermOf (rem ++ [n]) S.shape.length = true :=
    isPermOf_compl_append _ [n] (by simp) (by simpa using hn)
  have hsl : siz.length = S.shape.length := by simp [siz]
  have hp' : isPermOf (rem ++ [n]) siz.length = true := by rw [hsl]; exact hp
  have hgr : gather siz rem = gather S.shape rem := by
    apply gather_congr
    intro k hk
    have : k ≠ n := by
      have := (mem_complDims.1 hk).2
      simpa using this
    exact getD_set_ne' S.shape n k pe (fun h => this h.symm)
  have hgc : gather siz [n] = [pe] := by
    show [siz.getD n 0] = [pe]
    rw [getD_set_eq' S.shape n pe hn]
  have hrows : rows = numel (gather siz rem) := by rw [hgr]
  have hpe : pe = numel (gather siz [n]) := by rw [hgc]; simp
  refine ⟨Dense.ofFn_WF _ _, rfl, ?_⟩
  intro i hi
  have hYform : Y = (Sptenmat.fromArray (Xd.mulD (Me.tr pe sn) rows sn pe) (numel (gather siz rem))
      (numel (gather siz [n])) rem [n] siz).toSparse.full := by
    rw [← hrows, ← hpe]
  rw [hYform, fromArray_full_get _ siz rem [n] hp' i hi, hgr, hgc]
  have hin : i.getD n 0 < pe := by
    have := hi.getD_lt (k := n) (by rw [hsl]; exact hn)
    rwa [getD_set_eq' S.shape n pe hn] at this
  have hb : sub2ind [pe] (gather i [n]) = i.getD n 0 := by
    show i.getD n 0 + pe * 0 = _
    simp
  have hirem : InBounds (gather S.shape rem) (gather i rem) := by
    rw [← hgr]
    exact hi.gather (fun k hk => by rw [hsl]; exact (mem_complDims.1 hk).1)
  have ha : sub2ind (gather S.shape rem) (gather i rem) < rows := sub2ind_lt hirem
  rw [hb, mulD_get _ _ _ _ _ _ _ ha hin]
  apply sumRange_congr
  intro c hc
  rw [tr_get Me pe sn (i.getD n 0) c hin hc, get_tab rows sn _ _ _ ha hc, mul_comm]
  congr 1
  -- the matricized entry is the tensor entry with coordinate `n` replaced
  have hset : InBounds S.shape (i.set n c) := by
    have := inBounds_set hi n sn c hc
    rwa [set_set, set_getD_self] at this
  have hms : matSub S.shape rem [n] (i.set n c) = [sub2ind (gather S.shape rem) (gather i rem), c] := by
    unfold matSub
    have h1 : gather (i.set n c) rem = gather i rem := by
      apply gather_congr
      intro k hk
      have : k ≠ n := by
        have := (mem_complDims.1 hk).2
        simpa using this
      exact getD_set_ne' i n k c (fun h => this h.symm)
    have h2 : gather (i.set n c) [n] = [c] := by
      show [(i.set n c).getD n 0] = [c]
      rw [getD_set_eq' i n c (by rw [hi.length_eq, hsl]; exact hn)]
    rw [h1, h2]
    show [_, c + S.shape.getD n 0 * 0] = _
    simp
  have := mval_matSub S rem [n] hS hp (i.set n c) hset
  rw [hms] at this
  rw [← this, ← sptenmatOf_get S rem [n] hS hp]
  rfl

/-- **Sparse single-mode `ttm`** (plain and transposed): the dense result has the entries
`Σ_k M_eff[i_n, k] · X[i with i_n ↦ k]`. -/
theorem sparse_ttmMode_spec [CommSemiring α] [DecidableEq α] (S : Sparse α) (hS : S.WF) (M : Mat α)
    (p q n : Nat) (tr : Bool) (hn : n < S.shape.length) (hsz : (if tr then p else q) = S.shape.getD n 0) :
    ∃ Y, S.ttmMode M p q n tr = .ok Y ∧ Y.WF ∧ Y.shape = S.shape.set n (if tr then q else p) ∧
      ∀ i, InBounds Y.shape i → Y.get i = sumRange (S.shape.getD n 0) fun k =>
        (if tr then M.get k (i.getD n 0) else M.get (i.getD n 0) k) * S.get (i.set n k) := by
  have hg0 : ¬ (n ≥ S.shape.length) := by omega
  have hts := toSptenmat_mode_t S hS n hn
  cases tr with
  | true =>
    simp only [if_true] at hsz ⊢
    obtain ⟨w, sh, g⟩ := sparse_ttm_fold S hS (M.tr p q) q n hn
    have hgd : (S.shape.getD n 0 != p) = false := by rw [hsz]; exact bne_self_eq_false _
    refine ⟨_, ?_, w, sh, ?_⟩
    · unfold Sparse.ttmMode
      simp only [if_true, hg0, if_false, hgd, Bool.false_eq_true, hts]
      rw [← hsz]
      rfl
    · intro i hi
      rw [g i (sh ▸ hi)]
      apply sumRange_congr
      intro c hc
      rw [tr_get M p q c (i.getD n 0) (by omega) (by
        have := (sh ▸ hi : InBounds (S.shape.set n q) i).getD_lt (k := n) (by simpa using hn)
        rwa [getD_set_eq' S.shape n q hn] at this)]
  | false =>
    simp only [Bool.false_eq_true, if_false] at hsz ⊢
    obtain ⟨w, sh, g⟩ := sparse_ttm_fold S hS M p n hn
    have hgd : (S.shape.getD n 0 != q) = false := by rw [hsz]; exact bne_self_eq_false _
    refine ⟨_, ?_, w, sh, g⟩
    unfold Sparse.ttmMode
    simp only [Bool.false_eq_true, if_false, hg0, hgd, hts]
    rw [← hsz]
    rfl


theorem full_shape [Zero α] (S : Sparse α) : S.full.shape = S.shape := rfl

theorem full_WF [Zero α] (S : Sparse α) : S.full.WF := by rw [Sparse.full_eq]; exact Dense.ofFn_WF _ _

/-- **The sparse kernel agrees with the dense kernel on the expanded tensor** — on success and on
rejection alike. -/
theorem sparse_ttmMode_eq_full [CommSemiring α] [DecidableEq α] (S : Sparse α) (hS : S.WF) (M : Mat α)
    (p q n : Nat) (tr : Bool) : S.ttmMode M p q n tr = S.full.ttmMode M p q n tr := by
  by_cases hn : n < S.shape.length
  · by_cases hsz : (if tr then p else q) = S.shape.getD n 0
    · obtain ⟨Y, e, w, sh, g⟩ := sparse_ttmMode_spec S hS M p q n tr hn hsz
      obtain ⟨Y', e', w', sh', g'⟩ := dense_ttmMode_spec S.full (full_WF S) M p q n tr hn hsz
      rw [e, e']
      congr 1
      apply Dense.ext_get w w' (by rw [sh, sh']; rfl)
      intro i hi
      rw [g i hi, g' i (by rw [sh']; rw [sh] at hi; exact hi)]
      apply sumRange_congr
      intro k hk
      congr 1
      have hset : InBounds S.shape (i.set n k) := by
        have := inBounds_set (sh ▸ hi) n (S.shape.getD n 0) k hk
        rwa [set_set, set_getD_self] at this
      exact ((sp_full_at S hS _ hset).1).symm
    · -- the sizes do not match: both reject
      have hperm := isPermOf_mode_first S.shape.length n hn
      have hpermute : S.full.permute (n :: List.filter (fun x => x != n) (List.range S.shape.length)) =
          .ok (S.full.transpose (n :: others S.shape.length n)) :=
        Dense.permute_ok S.full (full_WF S) _ hperm
      have hg0 : ¬ (n ≥ S.shape.length) := by omega
      have hd : S.full.ttmMode M p q n tr = .error .reject := by
        unfold Dense.ttmMode
        have g1 : ((if tr then p else q) != S.shape.getD n 0) = true := by simpa using hsz
        simp only [full_shape, hg0, if_false]
        rw [hpermute]
        simp only [g1, if_true]
      rw [hd]
      unfold Sparse.ttmMode
      cases tr with
      | true =>
        have g1 : (S.shape.getD n 0 != p) = true := by
          simp only [if_true] at hsz; simpa using fun h => hsz h.symm
        simp only [if_true, hg0, if_false, g1]
      | false =>
        have g1 : (S.shape.getD n 0 != q) = true := by
          simp only [Bool.false_eq_true, if_false] at hsz; simpa using fun h => hsz h.symm
        simp only [Bool.false_eq_true, if_false, hg0, g1, if_true]
  · have hg0 : n ≥ S.shape.length := by omega
    have hd : S.full.ttmMode M p q n tr = .error .reject := by
      unfold Dense.ttmMode; simp only [full_shape, hg0, if_true]
    rw [hd]
    unfold Sparse.ttmMode
    cases tr <;> simp only [hg0, if_true]

/-- The list form: the first product on the sparse tensor, the rest on dense results — the same as
the dense list kernel on the expanded tensor. -/
theorem sparse_ttmList_eq_full [CommSemiring α] [DecidableEq α] (S : Sparse α) (hS : S.WF)
    (p : Nat × Dense.MatArg α) (rest : List (Nat × Dense.MatArg α)) (tr : Bool) :
    S.ttmList (p :: rest) tr = S.full.ttmList (p :: rest) tr := by
  unfold Sparse.ttmList Dense.ttmList
  rw [List.foldlM_cons]
  dsimp only
  rw [sparse_ttmMode_eq_full S hS]
  cases S.full.ttmMode p.2.rows p.2.m p.2.n p.1 tr with
  | error e => rfl
  | ok Y => rfl

/-- `sptensor.ttm(...)` as called = `tensor.ttm(...)` on the expanded tensor. -/
theorem sparse_ttm_eq_full [CommSemiring α] [DecidableEq α] (S : Sparse α) (hS : S.WF)
    (Ms : List (Dense.MatArg α)) (dims excl : Option (List Int)) (tr : Bool) :
    S.ttm Ms dims excl tr = S.full.ttm Ms dims excl tr := by
  unfold Sparse.ttm Dense.ttm
  rw [full_shape]
  cases resolveModes S.shape.length Ms dims excl with
  | error e => rfl
  | ok pairs =>
    cases pairs with
    | nil => rfl
    | cons p rest => exact sparse_ttmList_eq_full S hS p rest tr

/-- The specification only reads the operand inside its shape. -/
theorem spec_ttm_congr [CommSemiring α] (X Y : Den α) (hs : X.shape = Y.shape)
    (hg : ∀ k, InBounds X.shape k → X.get k = Y.get k) (sel : List Nat) (M : Nat → Nat → Nat → α) (i : List Nat) :
    Spec.ttm X sel M i = Spec.ttm Y sel M i := by
  unfold Spec.ttm Spec.sumOver Spec.fiber
  rw [← hs]
  apply sum_congr
  intro k hk
  rw [hg k (mem_allSubs.1 (List.mem_filter.1 hk).1)]

/-- **Sparse `ttm` with a list of matrices** over distinct modes (plain or transposed; the result is
dense whatever its fill): `Y[i] = Σ_{k = i off sel} X[k] · ∏_{d ∈ sel} M_d[i_d, k_d]`. -/
theorem sparse_ttmList_spec [CommSemiring α] [DecidableEq α] (S : Sparse α) (hS : S.WF) (tr : Bool)
    (Mf : Nat → Nat → Nat → α) (pairs : List (Nat × Dense.MatArg α)) (hne : pairs ≠ [])
    (hnd : (pairs.map (·.1)).Nodup) (hlt : ∀ p ∈ pairs, p.1 < S.shape.length)
    (hsz : ∀ p ∈ pairs, (if tr then p.2.m else p.2.n) = S.shape.getD p.1 0)
    (hM : ∀ p ∈ pairs, ∀ a b, Mf p.1 a b = if tr then p.2.rows.get b a else p.2.rows.get a b) :
    ∃ Y, S.ttmList pairs tr = .ok Y ∧ Y.WF ∧ Y.shape.length = S.shape.length ∧
      (∀ d, d ∉ pairs.map (·.1) → Y.shape.getD d 0 = S.shape.getD d 0) ∧
      (∀ p ∈ pairs, Y.shape.getD p.1 0 = if tr then p.2.n else p.2.m) ∧
      ∀ i, InBounds Y.shape i → Y.get i = Spec.ttm S.den (pairs.map (·.1)) Mf i := by
  obtain ⟨Y, e, w, l, k, r, g⟩ := dense_ttmList_spec S.full (full_WF S) tr Mf pairs hnd hlt hsz hM
  cases pairs with
  | nil => exact absurd rfl hne
  | cons p rest =>
    refine ⟨Y, by rw [sparse_ttmList_eq_full S hS]; exact e, w, l, k, r, ?_⟩
    intro i hi
    rw [g i hi]
    exact spec_ttm_congr S.full.den S.den rfl (fun j hj => (sp_full_at S hS j hj).1) _ _ _

end ML
end Pyttb
