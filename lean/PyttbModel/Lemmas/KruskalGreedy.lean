/-
C08 lemmas: the greedy matching loop of `score` always finds an un-blanked entry, so after
`RB` rounds it has matched every component of the reference with a distinct component of the
receiver; the completed index list is a permutation and `arrange` accepts it.
-/
import PyttbModel.Lemmas.KruskalScore
import PyttbModel.Lemmas.KruskalSigns
import Mathlib.Data.List.Nodup
set_option linter.unusedSectionVars false
set_option linter.unusedSimpArgs false
set_option linter.unusedVariables false
namespace Pyttb
namespace Ktensor

variable {α : Type}

/-! ### lists -/

theorem getD_range_flatMap_map {β : Type} (f : Nat → Nat → β) (n m : Nat) (d : β) (idx : Nat)
    (h : idx < n * m) :
    ((List.range n).flatMap fun j => (List.range m).map (f j)).getD idx d = f (idx / m) (idx % m) := by
  induction n with
  | zero => simp at h
  | succ n ih =>
    have hm : 0 < m := by
      rcases Nat.eq_zero_or_pos m with h0 | h0
      · subst h0; simp at h
      · exact h0
    have hlen : ((List.range n).flatMap fun j => (List.range m).map (f j)).length = n * m := by
      clear ih h
      induction n with
      | zero => simp
      | succ n ih2 =>
        rw [List.range_succ, List.flatMap_append, List.length_append, ih2]
        simp [Nat.succ_mul]
    rw [List.range_succ, List.flatMap_append]
    by_cases hlt : idx < n * m
    · rw [List.getD_eq_getElem?_getD, List.getElem?_append_left (by rw [hlen]; exact hlt),
        ← List.getD_eq_getElem?_getD]
      exact ih hlt
    · have hge : n * m ≤ idx := Nat.le_of_not_lt hlt
      rw [List.getD_eq_getElem?_getD, List.getElem?_append_right (by rw [hlen]; exact hge), hlen]
      have h2 : idx - n * m < m := by rw [Nat.succ_mul] at h; omega
      have hdiv : idx / m = n := by
        apply Nat.div_eq_of_lt_le
        · exact hge
        · exact h
      have hmod : idx % m = idx - n * m := by
        have := Nat.div_add_mod idx m
        rw [hdiv, Nat.mul_comm] at this
        omega
      simp [h2, hdiv, hmod]

theorem length_range_flatMap_map {β : Type} (f : Nat → Nat → β) (n m : Nat) :
    ((List.range n).flatMap fun j => (List.range m).map (f j)).length = n * m := by
  induction n with
  | zero => simp
  | succ n ih =>
    rw [List.range_succ, List.flatMap_append, List.length_append, ih]
    simp [Nat.succ_mul]

/-- a list of naturals shorter than `n` misses some number below `n` -/
theorem exists_lt_not_mem (l : List Nat) (n : Nat) (h : l.length < n) : ∃ x, x < n ∧ x ∉ l := by
  by_contra hc
  have hsub : List.range n ⊆ l := by
    intro x hx
    by_contra hx'
    exact hc ⟨x, List.mem_range.1 hx, hx'⟩
  have := (List.subperm_of_subset List.nodup_range hsub).length_le
  simp at this
  omega

/-- a duplicate-free list of numbers below `n`, followed by the numbers below `n` it misses, is a
rearrangement of `0..n-1` -/
theorem append_filter_not_mem_perm (l : List Nat) (n : Nat) (hnd : l.Nodup) (hlt : ∀ x ∈ l, x < n) :
    (List.range n).Perm (l ++ (List.range n).filter fun a => !(l.contains a)) := by
  have h1 : ((List.range n).filter fun a => l.contains a).Perm l := by
    rw [List.perm_ext_iff_of_nodup (List.nodup_range.filter _) hnd]
    intro a
    simp only [List.mem_filter, List.mem_range, List.contains_iff_mem]
    exact ⟨fun h => h.2, fun h => ⟨hlt a h, h⟩⟩
  have h2 := List.filter_append_perm (fun a => l.contains a) (List.range n)
  exact h2.symm.trans (List.Perm.append_right _ h1)

theorem table_get [Zero α] (g : Nat → Nat → α) (RA RB a b : Nat) (ha : a < RA) (hb : b < RB) :
    Mat.get ((List.range RA).map fun a => (List.range RB).map fun b => g a b) a b = g a b := by
  unfold Mat.get
  rw [getD_map_range _ _ _ _ ha, getD_map_range _ _ _ _ hb]

section field
variable [Field α] [LinearOrder α] [IsStrictOrderedRing α]

/-! ### `np.argmax` -/

theorem argmax_fold (ys p : List α) (b : α) (bi : Nat) (hbi : bi < p.length) (hb : p.getD bi 0 = b)
    (hmax : ∀ y ∈ p, y ≤ b) :
    (ys.foldl (fun (st : α × Nat × Nat) y =>
      if st.1 < y then (y, st.2.2, st.2.2 + 1) else (st.1, st.2.1, st.2.2 + 1)) (b, bi, p.length)).2.1
        < (p ++ ys).length ∧
    ∀ y ∈ p ++ ys, y ≤ (p ++ ys).getD (ys.foldl (fun (st : α × Nat × Nat) y =>
      if st.1 < y then (y, st.2.2, st.2.2 + 1) else (st.1, st.2.1, st.2.2 + 1)) (b, bi, p.length)).2.1 0 := by
  induction ys generalizing p b bi with
  | nil =>
    simp only [List.foldl_nil, List.append_nil]
    exact ⟨hbi, fun y hy => by rw [hb]; exact hmax y hy⟩
  | cons y ys ih =>
    simp only [List.foldl_cons]
    have hlen : (p ++ [y]).length = p.length + 1 := by simp
    have happ : p ++ y :: ys = (p ++ [y]) ++ ys := by simp
    by_cases hlt : b < y
    · rw [if_pos hlt, happ, ← hlen]
      apply ih (p ++ [y]) y p.length (by simp)
      · simp [List.getD_eq_getElem?_getD]
      · intro z hz
        rcases List.mem_append.1 hz with hz | hz
        · exact le_trans (hmax z hz) hlt.le
        · simp at hz; rw [hz]
    · rw [if_neg hlt, happ, ← hlen]
      apply ih (p ++ [y]) b bi (by simp; omega)
      · rw [List.getD_eq_getElem?_getD, List.getElem?_append_left hbi, ← List.getD_eq_getElem?_getD]
        exact hb
      · intro z hz
        rcases List.mem_append.1 hz with hz | hz
        · exact hmax z hz
        · simp at hz; rw [hz]; exact not_lt.1 hlt

/-- `np.argmax` returns a position holding a maximum -/
theorem argmaxFirst_spec (l : List α) (hl : l ≠ []) :
    argmaxFirst l < l.length ∧ ∀ k, k < l.length → l.getD k 0 ≤ l.getD (argmaxFirst l) 0 := by
  cases l with
  | nil => exact absurd rfl hl
  | cons x xs =>
    have := argmax_fold xs [x] x 0 (by simp) (by simp) (by simp)
    simp only [List.singleton_append, List.length_singleton] at this
    refine ⟨this.1, ?_⟩
    intro k hk
    apply this.2
    rw [List.getD_eq_getElem?_getD, List.getElem?_eq_getElem hk]
    exact List.getElem_mem hk

/-! ### the greedy loop -/

/-- State of the greedy loop after the reference components `cols` (in this order) have been
matched, `j` with the receiver's component `m j`: the rows `m j` and the columns `j` are blanked,
everything else still holds the congruences `C1`; `best_perm[j] = m j` on `cols` and `-1`
elsewhere; the accumulated score is the sum over the matched pairs; every matched pair was a
largest entry among the rows and columns not used before it. -/
def GreedyInv (RA RB : Nat) (blank : α) (C1 : Nat → Nat → α) (cols : List Nat) (m : Nat → Nat)
    (st : Mat α × α × List Int) : Prop :=
  cols.Nodup ∧ (∀ j ∈ cols, j < RB) ∧ (∀ j ∈ cols, m j < RA) ∧
  (∀ j ∈ cols, ∀ j' ∈ cols, m j = m j' → j = j') ∧
  (∀ a b, a < RA → b < RB →
    (((∃ j ∈ cols, m j = a) ∨ b ∈ cols) → Mat.get st.1 a b = blank) ∧
    ((¬ ∃ j ∈ cols, m j = a) → b ∉ cols → Mat.get st.1 a b = C1 a b)) ∧
  st.2.2.length = RA ∧
  (∀ j, j < RA → (j ∈ cols → st.2.2.getD j (-1) = (m j : Int)) ∧ (j ∉ cols → st.2.2.getD j (-1) = -1)) ∧
  st.2.1 = (cols.map fun j => C1 (m j) j).sum ∧
  (∀ t, t < cols.length → ∀ a b, a < RA → b < RB → (∀ j' ∈ cols.take t, m j' ≠ a) → b ∉ cols.take t →
    C1 a b ≤ C1 (m (cols.getD t 0)) (cols.getD t 0))

theorem greedyInv_init (RA RB : Nat) (blank : α) (C1 : Nat → Nat → α) (m : Nat → Nat) (C : Mat α)
    (hC : ∀ a b, a < RA → b < RB → Mat.get C a b = C1 a b) :
    GreedyInv RA RB blank C1 [] m (C, (0 : α), List.replicate RA (-1 : Int)) := by
  refine ⟨List.nodup_nil, by simp, by simp, by simp, ?_, by simp, ?_, by simp, by simp⟩
  · intro a b ha hb
    exact ⟨by simp, fun _ _ => hC a b ha hb⟩
  · intro j hj
    refine ⟨by simp, fun _ => ?_⟩
    simp [List.getD_eq_getElem?_getD, hj]

theorem greedyStep_inv (RA RB : Nat) (blank : α) (C1 : Nat → Nat → α) (cols : List Nat) (m : Nat → Nat)
    (st : Mat α × α × List Int) (hblank : blank < 0)
    (hC1 : ∀ a b, a < RA → b < RB → 0 ≤ C1 a b) (hk : cols.length < RB) (hR : RB ≤ RA)
    (h : GreedyInv RA RB blank C1 cols m st) :
    ∃ j i, GreedyInv RA RB blank C1 (cols ++ [j]) (fun x => if x = j then i else m x)
      (greedyStep RA RB blank st) := by
  obtain ⟨C, sc, bp⟩ := st
  obtain ⟨hnd, hltB, hltA, hinj, hC, hlen, hbp, hsc, hgr⟩ := h
  simp only at hC hlen hbp hsc
  have hRBpos : 0 < RB := by omega
  have hRApos : 0 < RA := by omega
  obtain ⟨flat, hflat⟩ : ∃ flat, flat = (List.range RB).flatMap fun j => (List.range RA).map fun i => Mat.get C i j :=
    ⟨_, rfl⟩
  have hfl : flat.length = RB * RA := by rw [hflat]; exact length_range_flatMap_map _ _ _
  have hne : flat ≠ [] := by
    intro h0
    rw [h0] at hfl
    have : 0 < RB * RA := Nat.mul_pos hRBpos hRApos
    simp at hfl
    omega
  obtain ⟨hidx, hmax⟩ := argmaxFirst_spec flat hne
  have hget : ∀ k, k < RB * RA → flat.getD k 0 = Mat.get C (k % RA) (k / RA) := by
    intro k hk'
    rw [hflat]
    exact getD_range_flatMap_map (fun j i => Mat.get C i j) RB RA 0 k hk'
  obtain ⟨i, hi⟩ : ∃ i, i = argmaxFirst flat % RA := ⟨_, rfl⟩
  obtain ⟨j, hj⟩ : ∃ j, j = argmaxFirst flat / RA := ⟨_, rfl⟩
  have hiRA : i < RA := by rw [hi]; exact Nat.mod_lt _ hRApos
  have hjRB : j < RB := by
    rw [hj]
    apply Nat.div_lt_of_lt_mul
    rw [Nat.mul_comm, ← hfl]; exact hidx
  have hmaxC : ∀ a b, a < RA → b < RB → Mat.get C a b ≤ Mat.get C i j := by
    intro a b ha hb
    have hk0 : a + RA * b < RB * RA := by
      have : RA * (b + 1) ≤ RA * RB := Nat.mul_le_mul_left _ hb
      rw [Nat.mul_comm RB RA]
      rw [Nat.mul_succ] at this
      omega
    have h1 := hmax (a + RA * b) (by rw [hfl]; exact hk0)
    rw [hget _ hk0, hget _ (by rw [← hfl]; exact hidx), ← hi, ← hj] at h1
    rw [Nat.add_mul_mod_self_left, Nat.mod_eq_of_lt ha, Nat.add_mul_div_left _ _ hRApos,
      Nat.div_eq_of_lt ha, Nat.zero_add] at h1
    exact h1
  -- a row and a column are still free
  obtain ⟨b0, hb0, hb0'⟩ := exists_lt_not_mem cols RB hk
  obtain ⟨a0, ha0, ha0'⟩ := exists_lt_not_mem (cols.map m) RA (by rw [List.length_map]; omega)
  have hfree0 : ¬ ∃ j' ∈ cols, m j' = a0 := fun ⟨j', hj', e⟩ => ha0' (List.mem_map.2 ⟨j', hj', e⟩)
  have hpos : 0 ≤ Mat.get C i j := by
    have := hmaxC a0 b0 ha0 hb0
    rw [(hC a0 b0 ha0 hb0).2 hfree0 hb0'] at this
    exact le_trans (hC1 a0 b0 ha0 hb0) this
  have hfree : (¬ ∃ j' ∈ cols, m j' = i) ∧ j ∉ cols := by
    by_contra hc
    have hused : (∃ j' ∈ cols, m j' = i) ∨ j ∈ cols := by
      by_contra hn
      rw [not_or] at hn
      exact hc hn
    rw [(hC i j hiRA hjRB).1 hused] at hpos
    exact absurd hblank (not_lt.2 hpos)
  have hCij : Mat.get C i j = C1 i j := (hC i j hiRA hjRB).2 hfree.1 hfree.2
  have hbest : ∀ a b, a < RA → b < RB → (¬ ∃ j' ∈ cols, m j' = a) → b ∉ cols → C1 a b ≤ C1 i j := by
    intro a b ha hb h1 h2
    have := hmaxC a b ha hb
    rwa [(hC a b ha hb).2 h1 h2, hCij] at this
  have key : greedyStep RA RB blank (C, sc, bp)
      = ((List.range RA).map (fun a => (List.range RB).map fun b =>
          if a == i || b == j then blank else Mat.get C a b), sc + Mat.get C i j, bp.set j (i : Int)) := by
    rw [hi, hj, hflat]
    rfl
  rw [key]
  have hmj : ∀ x ∈ cols, (if x = j then i else m x) = m x := by
    intro x hx
    rw [if_neg]
    rintro rfl
    exact hfree.2 hx
  refine ⟨j, i, ?_, ?_, ?_, ?_, ?_, ?_, ?_, ?_, ?_⟩
  · rw [List.nodup_append]
    refine ⟨hnd, by simp, ?_⟩
    intro a ha b hb
    rw [List.mem_singleton] at hb
    subst hb
    rintro rfl
    exact hfree.2 ha
  · intro x hx
    rcases List.mem_append.1 hx with hx | hx
    · exact hltB x hx
    · rw [List.mem_singleton.1 hx]; exact hjRB
  · intro x hx
    rcases List.mem_append.1 hx with hx | hx
    · simp only; rw [hmj x hx]; exact hltA x hx
    · rw [List.mem_singleton.1 hx]; simp only [if_true]; exact hiRA
  · intro x hx y hy hxy
    simp only at hxy
    rcases List.mem_append.1 hx with hx1 | hx1 <;> rcases List.mem_append.1 hy with hy1 | hy1
    · rw [hmj x hx1, hmj y hy1] at hxy; exact hinj x hx1 y hy1 hxy
    · have ey : y = j := List.mem_singleton.1 hy1
      rw [hmj x hx1, ey, if_pos rfl] at hxy
      exact absurd ⟨x, hx1, hxy⟩ hfree.1
    · have ex : x = j := List.mem_singleton.1 hx1
      rw [hmj y hy1, ex, if_pos rfl] at hxy
      exact absurd ⟨y, hy1, hxy.symm⟩ hfree.1
    · rw [List.mem_singleton.1 hx1, List.mem_singleton.1 hy1]
  · intro a b ha hb
    simp only
    rw [table_get _ RA RB a b ha hb]
    have hiff : ((∃ x ∈ cols ++ [j], (if x = j then i else m x) = a) ∨ b ∈ cols ++ [j])
        ↔ (((∃ x ∈ cols, m x = a) ∨ b ∈ cols) ∨ (a = i ∨ b = j)) := by
      constructor
      · rintro (⟨x, hx, e⟩ | hb')
        · rcases List.mem_append.1 hx with hx | hx
          · rw [hmj x hx] at e; exact Or.inl (Or.inl ⟨x, hx, e⟩)
          · rw [List.mem_singleton] at hx; subst hx; rw [if_pos rfl] at e; exact Or.inr (Or.inl e.symm)
        · rcases List.mem_append.1 hb' with hb' | hb'
          · exact Or.inl (Or.inr hb')
          · exact Or.inr (Or.inr (List.mem_singleton.1 hb'))
      · rintro ((⟨x, hx, e⟩ | hb') | (rfl | rfl))
        · exact Or.inl ⟨x, List.mem_append_left _ hx, by rw [hmj x hx]; exact e⟩
        · exact Or.inr (List.mem_append_left _ hb')
        · exact Or.inl ⟨j, List.mem_append_right _ (List.mem_singleton_self j), by rw [if_pos rfl]⟩
        · exact Or.inr (List.mem_append_right _ (List.mem_singleton_self b))
    constructor
    · intro hu
      rcases hiff.1 hu with hu | hu
      · by_cases hab : (a == i || b == j) = true
        · rw [if_pos hab]
        · rw [if_neg hab]; exact (hC a b ha hb).1 hu
      · have : (a == i || b == j) = true := by
          rcases hu with rfl | rfl <;> simp
        rw [if_pos this]
    · intro h1 h2
      have hn : ¬ (((∃ x ∈ cols, m x = a) ∨ b ∈ cols) ∨ (a = i ∨ b = j)) := by
        intro hc
        rcases hiff.2 hc with hc | hc
        · exact h1 hc
        · exact h2 hc
      rw [not_or, not_or, not_or] at hn
      have : ¬ (a == i || b == j) = true := by
        simp only [Bool.or_eq_true, beq_iff_eq, not_or]
        exact hn.2
      rw [if_neg this]
      exact (hC a b ha hb).2 hn.1.1 hn.1.2
  · simp only [List.length_set]; exact hlen
  · intro x hx
    simp only
    have hjlen : j < bp.length := by rw [hlen]; omega
    by_cases hxj : x = j
    · subst hxj
      refine ⟨fun _ => ?_, fun hn => absurd (List.mem_append_right _ (List.mem_singleton_self x)) hn⟩
      rw [List.getD_eq_getElem?_getD, List.getElem?_set_self hjlen, if_pos rfl]
      rfl
    · have hset : (bp.set j (i : Int)).getD x (-1) = bp.getD x (-1) := by
        rw [List.getD_eq_getElem?_getD, List.getElem?_set_ne (Ne.symm hxj), ← List.getD_eq_getElem?_getD]
      rw [hset, if_neg hxj]
      constructor
      · intro hmem
        rcases List.mem_append.1 hmem with hmem | hmem
        · exact (hbp x hx).1 hmem
        · exact absurd (List.mem_singleton.1 hmem) hxj
      · intro hmem
        exact (hbp x hx).2 (fun h' => hmem (List.mem_append_left _ h'))
  · simp only
    rw [List.map_append, List.sum_append, hsc, hCij]
    congr 1
    · congr 1
      apply List.map_congr_left
      intro x hx
      rw [hmj x hx]
    · simp
  · intro t ht a b ha hb h1 h2
    simp only [List.length_append, List.length_singleton] at ht
    by_cases htl : t < cols.length
    · have htake : (cols ++ [j]).take t = cols.take t := by
        rw [List.take_append_of_le_length (by omega)]
      have hgetD : (cols ++ [j]).getD t 0 = cols.getD t 0 := by
        rw [List.getD_eq_getElem?_getD, List.getElem?_append_left htl, ← List.getD_eq_getElem?_getD]
      rw [htake] at h1 h2
      have hmem : cols.getD t 0 ∈ cols := by
        rw [List.getD_eq_getElem?_getD, List.getElem?_eq_getElem htl]
        exact List.getElem_mem htl
      rw [hgetD]
      simp only
      rw [hmj _ hmem]
      apply hgr t htl a b ha hb _ h2
      intro j' hj'
      have := h1 j' hj'
      beta_reduce at this
      rwa [hmj j' (List.mem_of_mem_take hj')] at this
    · have htl' : t = cols.length := by omega
      subst htl'
      have htake : (cols ++ [j]).take cols.length = cols := by simp
      have hgetD : (cols ++ [j]).getD cols.length 0 = j := by
        simp [List.getD_eq_getElem?_getD]
      rw [htake] at h1 h2
      rw [hgetD]
      simp only [if_true]
      apply hbest a b ha hb _ h2
      rintro ⟨x, hx, e⟩
      have := h1 x hx
      beta_reduce at this
      rw [hmj x hx] at this
      exact this e

theorem greedy_loop (RA RB : Nat) (blank : α) (C1 : Nat → Nat → α) (hblank : blank < 0)
    (hC1 : ∀ a b, a < RA → b < RB → 0 ≤ C1 a b) (hR : RB ≤ RA) {β : Type} (l : List β)
    (cols : List Nat) (m : Nat → Nat) (st : Mat α × α × List Int)
    (h : GreedyInv RA RB blank C1 cols m st) (hk : cols.length + l.length ≤ RB) :
    ∃ cols' m', GreedyInv RA RB blank C1 cols' m' (l.foldl (fun st _ => greedyStep RA RB blank st) st) ∧
      cols'.length = cols.length + l.length := by
  induction l generalizing cols m st with
  | nil => exact ⟨cols, m, h, rfl⟩
  | cons x l ih =>
    simp only [List.foldl_cons]
    simp only [List.length_cons] at hk
    obtain ⟨j, i, h'⟩ := greedyStep_inv RA RB blank C1 cols m st hblank hC1 (by omega) hR h
    obtain ⟨cols', m', h1, h2⟩ := ih (cols ++ [j]) _ _ h' (by simp; omega)
    refine ⟨cols', m', h1, ?_⟩
    rw [h2]
    simp
    omega

/-- What the loop has produced after `RB` rounds. -/
theorem greedy_final (RA RB : Nat) (blank : α) (C1 : Nat → Nat → α) (hR : RB ≤ RA)
    (cols : List Nat) (m : Nat → Nat) (st : Mat α × α × List Int)
    (h : GreedyInv RA RB blank C1 cols m st) (hk : cols.length = RB) :
    (∀ k ∈ completePerm RA RB st.2.2, 0 ≤ k) ∧
    isPermOf ((completePerm RA RB st.2.2).map Int.toNat) RA = true ∧
    (∀ j, j < RB → (completePerm RA RB st.2.2).getD j 0 = (m j : Int)) ∧
    st.2.1 = ((List.range RB).map fun j => C1 (m j) j).sum ∧
    cols.Perm (List.range RB) := by
  obtain ⟨C, sc, bp⟩ := st
  obtain ⟨hnd, hltB, hltA, hinj, hC, hlen, hbp, hsc, hgr⟩ := h
  simp only at hC hlen hbp hsc ⊢
  have hperm : cols.Perm (List.range RB) :=
    (List.subperm_of_subset hnd (fun x hx => List.mem_range.2 (hltB x hx))).perm_of_length_le
      (by simp; omega)
  have hmem : ∀ j, j < RB → j ∈ cols := fun j hj => hperm.symm.subset (List.mem_range.2 hj)
  have htake : bp.take RB = (List.range RB).map fun j => (m j : Int) := by
    apply List.ext_getElem
    · simp; omega
    · intro k h1 h2
      simp only [List.length_map, List.length_range] at h2
      rw [List.getElem_take, List.getElem_map, List.getElem_range]
      have := (hbp k (by omega)).1 (hmem k h2)
      rw [List.getD_eq_getElem?_getD, List.getElem?_eq_getElem (by omega)] at this
      exact this
  have hrows_nd : ((List.range RB).map m).Nodup := by
    apply List.Nodup.map_on _ List.nodup_range
    intro x hx y hy e
    exact hinj x (hmem x (List.mem_range.1 hx)) y (hmem y (List.mem_range.1 hy)) e
  have hrows_lt : ∀ x ∈ (List.range RB).map m, x < RA := by
    intro x hx
    obtain ⟨j, hj, rfl⟩ := List.mem_map.1 hx
    exact hltA j (hmem j (List.mem_range.1 hj))
  have hfilt : ((List.range RA).filter fun (a : Nat) => !(bp.contains (Int.ofNat a)))
      = (List.range RA).filter fun a => !(((List.range RB).map m).contains a) := by
    apply List.filter_congr
    intro a ha
    congr 1
    rw [Bool.eq_iff_iff, List.contains_iff_mem, List.contains_iff_mem]
    constructor
    · intro hin
      obtain ⟨k, hk', e⟩ := List.getElem_of_mem hin
      have hkRA : k < RA := by omega
      by_cases hkc : k ∈ cols
      · have := (hbp k hkRA).1 hkc
        rw [List.getD_eq_getElem?_getD, List.getElem?_eq_getElem hk', Option.getD_some, e] at this
        have e2 : a = m k := Int.ofNat.inj this
        rw [e2]
        exact List.mem_map.2 ⟨k, List.mem_range.2 (hltB k hkc), rfl⟩
      · have := (hbp k hkRA).2 hkc
        rw [List.getD_eq_getElem?_getD, List.getElem?_eq_getElem hk', Option.getD_some, e] at this
        have : (0 : Int) ≤ Int.ofNat a := Int.natCast_nonneg a
        omega
    · intro hin
      obtain ⟨j, hj, rfl⟩ := List.mem_map.1 hin
      have hjRB := List.mem_range.1 hj
      have := (hbp j (by omega)).1 (hmem j hjRB)
      rw [List.getD_eq_getElem?_getD, List.getElem?_eq_getElem (by omega), Option.getD_some] at this
      have h2 : bp[j]'(by omega) ∈ bp := List.getElem_mem _
      rw [this] at h2
      exact h2
  have hmap : (completePerm RA RB bp).map Int.toNat
      = (List.range RB).map m ++ (List.range RA).filter fun a => !(((List.range RB).map m).contains a) := by
    unfold completePerm
    rw [List.map_append, htake, hfilt, List.map_map, List.map_map]
    congr 1
    conv_rhs => rw [← List.map_id ((List.range RA).filter _)]
    apply List.map_congr_left
    intro a _
    simp
  refine ⟨?_, ?_, ?_, ?_, hperm⟩
  · intro k hk'
    unfold completePerm at hk'
    rcases List.mem_append.1 hk' with hk' | hk'
    · rw [htake] at hk'
      obtain ⟨j, _, rfl⟩ := List.mem_map.1 hk'
      exact Int.natCast_nonneg _
    · obtain ⟨a, _, rfl⟩ := List.mem_map.1 hk'
      exact Int.natCast_nonneg _
  · rw [hmap, isPermOf_iff_perm]
    exact append_filter_not_mem_perm _ RA hrows_nd hrows_lt
  · intro j hj
    unfold completePerm
    rw [htake, List.getD_eq_getElem?_getD, List.getElem?_append_left (by simpa using hj)]
    simp [hj]
  · rw [hsc]
    exact (hperm.map _).sum_eq

/-! ### the matrix of congruences -/

theorem foldl_mul_nonneg (l : List α) (acc : α) (h0 : 0 ≤ acc) (h : ∀ x ∈ l, 0 ≤ x) :
    0 ≤ l.foldl (· * ·) acc := by
  induction l generalizing acc with
  | nil => exact h0
  | cons x l ih =>
    simp only [List.foldl_cons]
    exact ih _ (mul_nonneg h0 (h x (List.mem_cons_self ..))) (fun y hy => h y (List.mem_cons_of_mem _ hy))

/-- the weight penalty `1 - |la - lb| / max(|la|, |lb|)` of two non-negative weights is
non-negative -/
theorem penalty_nonneg (la lb : α) (ha : 0 ≤ la) (hb : 0 ≤ lb) :
    0 ≤ (if (numEq la 0 && numEq lb 0) = true then (1 : α)
      else 1 - absOf (la - lb) / (if absOf la < absOf lb then absOf lb else absOf la)) := by
  split
  · exact zero_le_one
  · rename_i hz
    have hz' : ¬ (la = 0 ∧ lb = 0) := by
      intro ⟨h1, h2⟩
      apply hz
      rw [Bool.and_eq_true, numEq_iff, numEq_iff]
      exact ⟨h1, h2⟩
    rw [absOf_eq_abs, absOf_eq_abs, absOf_eq_abs, abs_of_nonneg ha, abs_of_nonneg hb]
    have hM : (if la < lb then lb else la) = max la lb := by
      rcases lt_or_ge la lb with h | h
      · rw [if_pos h, max_eq_right h.le]
      · rw [if_neg (not_lt.2 h), max_eq_left h]
    rw [hM]
    have hMpos : 0 < max la lb := by
      rcases lt_or_eq_of_le ha with h | h
      · exact lt_of_lt_of_le h (le_max_left _ _)
      · rcases lt_or_eq_of_le hb with h' | h'
        · exact lt_of_lt_of_le h' (le_max_right _ _)
        · exact absurd ⟨h.symm, h'.symm⟩ hz'
    have hle : |la - lb| ≤ max la lb := by
      rw [abs_le]
      constructor
      · have := le_max_right la lb; linarith
      · have := le_max_left la lb; linarith
    have : |la - lb| / max la lb ≤ 1 := (div_le_one hMpos).2 hle
    linarith

theorem getD_nonneg_of_all (w : List α) (r : Nat) (h : ∀ x ∈ w, 0 ≤ x) : 0 ≤ w.getD r 0 := by
  by_cases hr : r < w.length
  · rw [List.getD_eq_getElem?_getD, List.getElem?_eq_getElem hr]
    exact h _ (List.getElem_mem hr)
  · rw [getD_ge _ _ _ (by omega)]

/-- the matrix `C` that `score` builds from the two normalised tensors -/
def congruenceMat (A B : Ktensor α) (wp : Bool) : Mat α :=
  let C0 : Mat α := (List.range A.ncomp).map fun ra => (List.range B.ncomp).map fun rb =>
    ((List.range A.ndims).map fun n =>
      absOf (dot ((A.factors.getD n []).col ra) ((B.factors.getD n []).col rb))).foldl (· * ·) 1
  if wp then
    (List.range A.ncomp).map fun ra => (List.range B.ncomp).map fun rb =>
      let la := A.weights.getD ra 0
      let lb := B.weights.getD rb 0
      let P := if numEq la 0 && numEq lb 0 then 1
        else 1 - absOf (la - lb) / (if absOf la < absOf lb then absOf lb else absOf la)
      P * Mat.get C0 ra rb
  else C0

theorem scoreMatrix_eq (S : Services α) (K other : Ktensor α) (wp : Bool) {A B : Ktensor α}
    (hA : normalize S K none false .two none = .ok A) (hB : normalize S other none false .two none = .ok B) :
    scoreMatrix S K other wp = .ok (A, B, congruenceMat A B wp) := by
  have hK : K.copy = K := rfl
  have hO : other.copy = other := rfl
  unfold scoreMatrix
  rw [hK, hO, hA, hB]
  rfl

/-- every (penalised) congruence of two tensors with non-negative weights is non-negative -/
theorem congruenceMat_nonneg (A B : Ktensor α) (wp : Bool) (hwA : ∀ w ∈ A.weights, 0 ≤ w)
    (hwB : ∀ w ∈ B.weights, 0 ≤ w) :
    ∀ a b, a < A.ncomp → b < B.ncomp → 0 ≤ Mat.get (congruenceMat A B wp) a b := by
  have hC0 : ∀ a b, 0 ≤ ((List.range A.ndims).map fun n =>
      absOf (dot ((A.factors.getD n []).col a) ((B.factors.getD n []).col b))).foldl (· * ·) (1 : α) := by
    intro a b
    apply foldl_mul_nonneg _ _ zero_le_one
    intro x hx
    obtain ⟨n, _, rfl⟩ := List.mem_map.1 hx
    exact absOf_nonneg _
  intro a b ha hb
  unfold congruenceMat
  cases wp with
  | false =>
    simp only [Bool.false_eq_true, if_false]
    rw [table_get _ _ _ a b ha hb]
    exact hC0 a b
  | true =>
    simp only [if_true]
    rw [table_get _ _ _ a b ha hb, table_get _ _ _ a b ha hb]
    exact mul_nonneg (penalty_nonneg _ _ (getD_nonneg_of_all _ _ hwA) (getD_nonneg_of_all _ _ hwB)) (hC0 a b)

/-! ### `score` returns -/

theorem arrange_perm_ok (S : Services α) (A : Ktensor α) (p : List Int) (h1 : ∀ k ∈ p, 0 ≤ k)
    (h2 : isPermOf (p.map Int.toNat) A.ncomp = true) :
    arrange S A none (some p) = .ok (A.permuteComps (p.map Int.toNat)) := by
  unfold arrange
  have : asPerm p A.ncomp = some (p.map Int.toNat) := by
    unfold asPerm
    have hall : (p.all fun k => decide (0 ≤ k)) = true := by
      rw [List.all_eq_true]
      intro k hk
      exact decide_eq_true (h1 k hk)
    rw [hall, h2]
    rfl
  simp only [this]

theorem score_returns {S : Services α} (hS : S.Lawful) (ten : α) (hten : 0 < ten) (thr : Nat → α) (nc : Nat → α)
    (K other : Ktensor α) (wp : Bool) (t : Option α)
    (hshape : K.shape = other.shape) (hN : 0 < K.factors.length)
    (hthr : 0 ≤ t.getD (thr K.ndims) ∧ t.getD (thr K.ndims) ≤ 1)
    (hR : other.ncomp ≤ K.ncomp) (hRB : 0 < other.ncomp) :
    ∃ (A B : Ktensor α) (r : ScoreResult α) (order : List Nat), normalize S K none false .two none = .ok A ∧
      normalize S other none false .two none = .ok B ∧
      score S ten thr nc K other wp t = .ok r ∧
      isPermOf (r.perm.map Int.toNat) K.ncomp = true ∧ (∀ k ∈ r.perm, 0 ≤ k) ∧
      r.A = A.permuteComps (r.perm.map Int.toNat) ∧
      r.score = ((List.range other.ncomp).map fun j =>
        Mat.get (congruenceMat A B wp) (r.perm.getD j 0).toNat j).sum / nc other.ncomp ∧
      r.flag = !(decide (t.getD (thr K.ndims) < r.score)) ∧
      order.Perm (List.range other.ncomp) ∧
      ∀ s, s < other.ncomp → ∀ a b, a < K.ncomp → b < other.ncomp →
        (∀ j' ∈ order.take s, (r.perm.getD j' 0).toNat ≠ a) → b ∉ order.take s →
        Mat.get (congruenceMat A B wp) a b
          ≤ Mat.get (congruenceMat A B wp) (r.perm.getD (order.getD s 0) 0).toNat (order.getD s 0) := by
  have hNo : 0 < other.factors.length := by
    have := congrArg List.length hshape
    simp only [Ktensor.shape, List.length_map] at this
    omega
  obtain ⟨A, hA⟩ := normalize_accepts S K none false .two none hN rfl (fun m hm => by cases hm)
  obtain ⟨B, hB⟩ := normalize_accepts S other none false .two none hNo rfl (fun m hm => by cases hm)
  have rA := normalize_reparam hS K none false .two none hA
  have rB := normalize_reparam hS other none false .two none hB
  have hsm := scoreMatrix_eq S K other wp hA hB
  have hnn := congruenceMat_nonneg A B wp (normalize_nonneg hS K none false .two hA)
    (normalize_nonneg hS other none false .two hB)
  have hRA : A.ncomp = K.ncomp := rA.ncomp
  have hRB' : B.ncomp = other.ncomp := rB.ncomp
  -- the loop
  have hinit := greedyInv_init A.ncomp B.ncomp (-ten) (fun a b => Mat.get (congruenceMat A B wp) a b)
    (fun _ => 0) (congruenceMat A B wp) (fun a b _ _ => rfl)
  obtain ⟨cols, m, hinv, hlen⟩ := greedy_loop A.ncomp B.ncomp (-ten) _ (by linarith) hnn (by omega)
    (List.range B.ncomp) [] _ _ hinit (by simp)
  simp only [List.length_nil, List.length_range, Nat.zero_add] at hlen
  obtain ⟨f1, f2, f3, f4, f5⟩ := greedy_final A.ncomp B.ncomp (-ten) _ (by omega) cols m _ hinv hlen
  obtain ⟨hnd, hltB, hltA, hinj, hC, hbl, hbp, hsc, hgr⟩ := hinv
  generalize hst : (List.range B.ncomp).foldl (fun st _ => greedyStep A.ncomp B.ncomp (-ten) st)
    (congruenceMat A B wp, (0 : α), List.replicate A.ncomp (-1 : Int)) = st at f1 f2 f3 f4 hC hbl hbp hsc
  obtain ⟨C', total, bp⟩ := st
  simp only at f1 f2 f3 f4
  have harr := arrange_perm_ok S A (completePerm A.ncomp B.ncomp bp) f1 f2
  have e1 : (K.shape != other.shape) = false := by simp [hshape]
  have e2 : (decide (t.getD (thr K.ndims) < 0) || decide (1 < t.getD (thr K.ndims))) = false := by
    rw [Bool.or_eq_false_iff, decide_eq_false_iff_not, decide_eq_false_iff_not, not_lt, not_lt]
    exact hthr
  have e3 : decide (K.ncomp < other.ncomp) = false := by
    rw [decide_eq_false_iff_not]; omega
  have e4 : (B.ncomp == 0) = false := by
    rw [beq_eq_false_iff_ne]; omega
  refine ⟨A, B, ⟨total / nc B.ncomp, A.permuteComps ((completePerm A.ncomp B.ncomp bp).map Int.toNat),
    !(decide (t.getD (thr K.ndims) < total / nc B.ncomp)), completePerm A.ncomp B.ncomp bp⟩, cols,
    hA, hB, ?_, ?_, f1, rfl, ?_, rfl, ?_, ?_⟩
  · unfold score
    simp only [e1, Bool.false_eq_true, if_false, e2, e3, hsm, e4, hst, harr]
  · simp only
    rw [← hRA]; exact f2
  · simp only
    rw [f4, ← hRB']
    congr 2
    apply List.map_congr_left
    intro j hj
    rw [f3 j (List.mem_range.1 hj)]
    simp
  · rw [← hRB']; exact f5
  · intro s hs a b ha hb h1 h2
    simp only at h1 ⊢
    have hs' : s < cols.length := by omega
    have hmemt : cols.getD s 0 ∈ cols := by
      rw [List.getD_eq_getElem?_getD, List.getElem?_eq_getElem hs']
      exact List.getElem_mem hs'
    rw [f3 _ (hltB _ hmemt)]
    have := hgr s hs' a b (by omega) (by omega) (fun j' hj' => by
      have := h1 j' hj'
      rw [f3 j' (hltB j' (List.mem_of_mem_take hj'))] at this
      simpa using this) h2
    simpa using this

end field
end Ktensor
end Pyttb
