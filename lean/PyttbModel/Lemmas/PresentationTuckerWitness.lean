/-
A concrete instance for the non-vacuity example of `C18_scale_tucker_run`: a service that satisfies the
contract `NvecsSpec` (it answers `[[1]]` for a `1 × 1` Gram matrix and otherwise picks, by choice, a matrix of
leading eigenvectors whenever one exists), the `1 × 1` array `[[2]]`, ranks `[1, 1]`; for a mode of extent one
the contract has exactly one admissible answer, so the determinacy hypothesis holds, and the run returns.
-/
import PyttbModel.Lemmas.PresentationTucker
import PyttbModel.Lemmas.TuckerFold

set_option linter.unusedSimpArgs false
set_option linter.unusedVariables false
namespace Pyttb
namespace Tk
open Finset

/-- for a `1 × 1` matrix the only matrix of one leading eigenvector with the sign convention is `[[1]]` -/
theorem leadSpec_one (Z : Mat ℝ) : LeadSpec Z 1 1 [[1]] := by
  refine ⟨rfl, by simp, ?_, ⟨fun _ => Z.get 0 0, ?_, ?_, ?_⟩, ?_⟩
  · intro i hi j hj
    have : i = 0 := by omega
    have : j = 0 := by omega
    subst_vars
    simp [Mat.get]
  · intro i hi a ha
    have : i = 0 := by omega
    have : a = 0 := by omega
    subst_vars
    simp [Mat.get]
  · intro i j _ _; exact le_rfl
  · intro v ν ⟨a, ha, hv⟩ hev _ i _
    have ha0 : a = 0 := by omega
    subst ha0
    have := hev 0 (by omega)
    simp only [Finset.sum_range_one] at this
    have h2 : (Z.get 0 0 - ν) * v 0 = 0 := by rw [sub_mul, this, sub_self]
    rcases mul_eq_zero.1 h2 with h | h
    · linarith
    · exact absurd h hv
  · intro i hi
    have : i = 0 := by omega
    subst this
    exact ⟨0, by omega, fun b hb => by have : b = 0 := by omega
                                       subst this; exact le_rfl, by simp [Mat.get]⟩

theorem leadSpec_one_unique {Z : Mat ℝ} {A : Mat ℝ} (h : LeadSpec Z 1 1 A) : A = [[1]] := by
  obtain ⟨hr, hc, ho, _, hs⟩ := h
  match A, hr with
  | [row], _ =>
    have hl := hc row (by simp)
    match row, hl with
    | [x], _ =>
      have h1 := ho 0 (by omega) 0 (by omega)
      simp only [Finset.sum_range_one, Mat.get, List.getD_cons_zero, if_true] at h1
      obtain ⟨a, ha, _, hpos⟩ := hs 0 (by omega)
      have ha0 : a = 0 := by omega
      subst ha0
      simp only [Mat.get, List.getD_cons_zero] at hpos
      have : (x - 1) * (x + 1) = 0 := by ring_nf; nlinarith
      rcases mul_eq_zero.1 this with h | h
      · have : x = 1 := by linarith
        rw [this]
      · exfalso; linarith

theorem leadSpec_one_existsUnique (Z : Mat ℝ) : ∃! A, LeadSpec Z 1 1 A :=
  ⟨[[1]], leadSpec_one Z, fun _ h => leadSpec_one_unique h⟩

open Classical in
/-- a service satisfying the contract: `[[1]]` for a mode of extent one and one requested vector; otherwise
some matrix of leading eigenvectors when there is one -/
noncomputable def svc1 : Nat → Dense ℝ → Nat → Nat → Mat ℝ := fun _ W n r =>
  if W.shape.getD n 0 = 1 ∧ r = 1 then [[1]]
  else if h : ∃ A, LeadSpec (gramMode W n) (W.shape.getD n 0) r A then h.choose else []

theorem svc1_spec : NvecsSpec svc1 := by
  intro k W n r h
  unfold svc1
  by_cases h1 : W.shape.getD n 0 = 1 ∧ r = 1
  · rw [if_pos h1, h1.1, h1.2]; exact leadSpec_one _
  · rw [if_neg h1, dif_pos h]; exact h.choose_spec

/-! ### the products of `tucker_als` keep the extent of the mode they leave out -/

theorem foldlM_ttm_shape_getD (tr : Bool) (n : Nat) :
    ∀ (l : List (Nat × Mat ℝ)) (T Y : Dense ℝ), (∀ q ∈ l, q.1 ≠ n) →
      l.foldlM (fun Y q => ttm Y q.2 q.1 tr) T = .ok Y → Y.shape.getD n 0 = T.shape.getD n 0 := by
  intro l
  induction l with
  | nil => intro T Y _ h; simp only [List.foldlM_nil, pure, Except.pure, Except.ok.injEq] at h; rw [h]
  | cons q l ih =>
    intro T Y hq h
    rw [List.foldlM_cons] at h
    cases hf : ttm T q.2 q.1 tr with
    | error e => rw [hf] at h; cases h
    | ok Y1 =>
      rw [hf] at h
      have := ih Y1 Y (fun q' hq' => hq q' (List.mem_cons_of_mem _ hq')) h
      rw [this, (ttm_ok hf).1]
      have hne := hq q (List.mem_cons_self ..)
      simp [ttmT, Dense.ofFn, List.getD_eq_getElem?_getD, List.getElem?_set, hne]

theorem ttmPairs_fst_mem (Us : List (Mat ℝ)) (dims : List Nat) : ∀ q ∈ ttmPairs Us dims, q.1 ∈ dims := by
  intro q hq
  unfold ttmPairs at hq
  split at hq
  · simp only [List.mem_map] at hq
    obtain ⟨z, hz, rfl⟩ := hq
    exact (List.of_mem_zip hz).1
  · simp only [List.mem_map] at hq
    obtain ⟨k, hk, rfl⟩ := hq
    exact hk

theorem ttmExcl_shape_getD {T Y : Dense ℝ} {Us : List (Mat ℝ)} {n : Nat} {tr : Bool}
    (h : ttmExcl T Us n tr = .ok Y) : Y.shape.getD n 0 = T.shape.getD n 0 := by
  unfold ttmExcl at h
  split at h
  · unfold ttmDims at h
    split at h
    · cases h
    split at h
    · cases h
    split at h
    · cases h
    refine foldlM_ttm_shape_getD tr n _ T Y (fun q hq => ?_) h
    have := ttmPairs_fst_mem Us _ q hq
    simp only [complDims, List.mem_filter, List.mem_range, List.contains_cons, List.contains_nil, Bool.or_false,
      Bool.not_eq_true', beq_eq_false_iff_ne] at this
    exact this.2
  · cases h

/-! ### determinacy for modes of extent one -/

/-- every mode with a rank entry has extent one and rank one -/
def OnesProblem (X : Dense ℝ) (rank : List Nat) : Prop :=
  ∀ n r, rankAt rank n = .ok r → r = 1 ∧ X.shape.getD n 0 = 1

theorem detSweep_ones {nvecs : Nat → Dense ℝ → Nat → Nat → Mat ℝ} {X : Dense ℝ} {rank : List Nat}
    (h : OnesProblem X rank) (order : List Nat) (st : SweepSt ℝ) : DetSweep nvecs X rank order st := by
  induction order generalizing st with
  | nil => trivial
  | cons n rest ih =>
    refine ⟨fun Ut r hU hr => ?_, fun st1 _ => ih st1⟩
    obtain ⟨h1, h2⟩ := h n r hr
    rw [ttmExcl_shape_getD hU, h1, h2]
    exact leadSpec_one_existsUnique _

theorem detIter_ones {nvecs : Nat → Dense ℝ → Nat → Nat → Mat ℝ} {X : Dense ℝ} {rank : List Nat}
    (h : OnesProblem X rank) (order : List Nat) (fuel : Nat) (U : List (Mat ℝ)) (calls : Nat) :
    DetIter nvecs X rank order fuel U calls := by
  induction fuel generalizing U calls with
  | zero => trivial
  | succ fuel ih => exact ⟨detSweep_ones h order _, fun U' _ calls' _ => ih U' calls'⟩

/-- the `1 × 1` array `[[2]]` -/
def X11 : Dense ℝ := ⟨[1, 1], [2]⟩

theorem onesProblem11 : OnesProblem X11 (parseRank [1, 1] X11.shape.length) := by
  intro n r hr
  have hp : parseRank [1, 1] X11.shape.length = [1, 1] := rfl
  rw [hp] at hr
  unfold rankAt at hr
  match n with
  | 0 => simp at hr; exact ⟨hr.symm, rfl⟩
  | 1 => simp at hr; exact ⟨hr.symm, rfl⟩
  | n + 2 => simp at hr

theorem detRun11 (nvecs : Nat → Dense ℝ → Nat → Nat → Mat ℝ) (uniform : Nat → Nat → Nat → Mat ℝ) (maxiters : Int)
    (dimorder : Option (List Nat)) (init : Init ℝ) : DetRun nvecs uniform X11 [1, 1] maxiters dimorder init :=
  fun Uinit calls _ => detIter_ones onesProblem11 _ _ _ _

theorem allSubs11 : allSubs [1, 1] = [[0, 0]] := by decide
theorem complDims20 : complDims 2 [0] = [1] := by decide
theorem complDims21 : complDims 2 [1] = [0] := by decide

/-- the run on `[[2]]` (one pass, second mode first) returns -/
theorem run11_ok : ∃ out, tuckerAlsRun realOps svc1 (fun _ _ _ => []) X11 [1, 1] 0 1 (some [1, 0])
    (.list [[[1]], [[1]]]) = .ok out := by
  cases h : tuckerAlsRun realOps svc1 (fun _ _ _ => []) X11 [1, 1] 0 1 (some [1, 0]) (.list [[[1]], [[1]]]) with
  | ok out => exact ⟨out, rfl⟩
  | error e =>
    exfalso
    simp [tuckerAlsRun, X11, parseRank, ranksExceed, modeOrder, isPermOf, initGuess, checkInitShape, rankAt, Mat.nrows,
      Mat.ncols, iterate, sweep, sweepStep, ttmExcl, complDims20, complDims21, ttmDims, ttmPairs, ttm, ttmT, Dense.ofFn,
      svc1, allSubs11, List.range_succ, Mat.get, Dense.get, sub2ind, mkTtensor, bind, Except.bind, pure, Except.pure,
      List.foldlM] at h

/-! ### determinacy beyond extent one: the Gram matrix of the unfolding of `[[3], [4]]` -/

/-- the Gram matrix of the unfolding of the `2 × 1` array `[[3], [4]]` -/
def Z34 : Mat ℝ := [[9, 12], [12, 16]]

theorem z34_get : Z34.get 0 0 = 9 ∧ Z34.get 0 1 = 12 ∧ Z34.get 1 0 = 12 ∧ Z34.get 1 1 = 16 := by
  simp [Z34, Mat.get]

noncomputable def A34 : Mat ℝ := [[3/5], [4/5]]

theorem a34_get : A34.get 0 0 = 3/5 ∧ A34.get 1 0 = 4/5 := by simp [A34, Mat.get]

theorem leadSpec_34 : LeadSpec Z34 2 1 A34 := by
  obtain ⟨z00, z01, z10, z11⟩ := z34_get
  obtain ⟨a0, a1⟩ := a34_get
  refine ⟨rfl, by simp [A34], ?_, ⟨fun _ => 25, ?_, ?_, ?_⟩, ?_⟩
  · intro i hi j hj
    have : i = 0 := by omega
    have : j = 0 := by omega
    subst_vars
    simp only [Finset.sum_range_succ, Finset.sum_range_zero, a0, a1]
    norm_num
  · intro i hi a ha
    have : i = 0 := by omega
    subst this
    have : a = 0 ∨ a = 1 := by omega
    rcases this with rfl | rfl <;> simp only [Finset.sum_range_succ, Finset.sum_range_zero, z00, z01, z10, z11, a0, a1] <;> norm_num
  · intro i j _ _; exact le_rfl
  · intro v ν hv hev horth i hi
    have h0 := hev 0 (by omega)
    have h1 := hev 1 (by omega)
    have ho := horth 0 (by omega)
    simp only [Finset.sum_range_succ, Finset.sum_range_zero, z00, z01, z10, z11, a0, a1] at h0 h1 ho
    -- 3 v0 + 4 v1 = 0, so Z v = 0 = ν v with v ≠ 0: ν = 0
    have hs : 3 * v 0 + 4 * v 1 = 0 := by linarith
    have e0 : ν * v 0 = 0 := by linarith
    have e1 : ν * v 1 = 0 := by linarith
    obtain ⟨a, ha, hva⟩ := hv
    have : a = 0 ∨ a = 1 := by omega
    have hν : ν = 0 := by
      rcases this with rfl | rfl
      · rcases mul_eq_zero.1 e0 with h | h
        · exact h
        · exact absurd h hva
      · rcases mul_eq_zero.1 e1 with h | h
        · exact h
        · exact absurd h hva
    rw [hν]; norm_num
  · intro i hi
    have : i = 0 := by omega
    subst this
    refine ⟨1, by omega, fun b hb => ?_, by rw [a1]; norm_num⟩
    have : b = 0 ∨ b = 1 := by omega
    rcases this with rfl | rfl
    · rw [a0, a1]; norm_num [abs_of_pos]
    · exact le_rfl

theorem leadSpec_34_unique {A : Mat ℝ} (h : LeadSpec Z34 2 1 A) : A = A34 := by
  obtain ⟨z00, z01, z10, z11⟩ := z34_get
  obtain ⟨hr, hc, ho, ⟨μ, he, _, hdom⟩, hs⟩ := h
  match A, hr with
  | [row0, row1], _ =>
    have hl0 := hc row0 (by simp)
    have hl1 := hc row1 (by simp)
    match row0, hl0, row1, hl1 with
    | [x], _, [y], _ =>
      have g0 : Mat.get [[x], [y]] 0 0 = x := by simp [Mat.get]
      have g1 : Mat.get [[x], [y]] 1 0 = y := by simp [Mat.get]
      have hn := ho 0 (by omega) 0 (by omega)
      have e0 := he 0 (by omega) 0 (by omega)
      have e1 := he 0 (by omega) 1 (by omega)
      simp only [Finset.sum_range_succ, Finset.sum_range_zero, z00, z01, z10, z11, g0, g1, if_true, zero_add] at hn e0 e1
      -- s = 3x + 4y; (μ - 25) s = 0
      have hμs : (μ 0 - 25) * (3 * x + 4 * y) = 0 := by ring_nf; nlinarith
      have hs0 : 3 * x + 4 * y ≠ 0 := by
        intro hs0
        -- then (3, 4) is an eigenvector for 25 orthogonal to the column: 25 ≤ μ 0, but μ 0 · (x, y) = 0
        have hd := hdom (fun a => if a = 0 then 3 else 4) 25 ⟨0, by omega, by norm_num⟩ (by
          intro a ha
          have : a = 0 ∨ a = 1 := by omega
          rcases this with rfl | rfl <;>
            simp only [Finset.sum_range_succ, Finset.sum_range_zero, z00, z01, z10, z11] <;> norm_num) (by
          intro i hi
          have : i = 0 := by omega
          subst this
          simp only [Finset.sum_range_succ, Finset.sum_range_zero, g0, g1]
          norm_num
          linarith) 0 (by omega)
        have hx : μ 0 * x = 0 := by nlinarith
        have hy : μ 0 * y = 0 := by nlinarith
        have hμ : μ 0 ≠ 0 := by linarith
        have hx0 : x = 0 := by rcases mul_eq_zero.1 hx with h | h; exact absurd h hμ; exact h
        have hy0 : y = 0 := by rcases mul_eq_zero.1 hy with h | h; exact absurd h hμ; exact h
        rw [hx0, hy0] at hn
        norm_num at hn
      have hμ : μ 0 = 25 := by
        rcases mul_eq_zero.1 hμs with h | h
        · linarith
        · exact absurd h hs0
      rw [hμ] at e0 e1
      -- 25 x = 9 x + 12 y, 25 y = 12 x + 16 y: y = 4x/3
      have hy : y = 4 / 3 * x := by linarith
      rw [hy] at hn
      have hx2 : x * x = 9 / 25 := by nlinarith
      obtain ⟨a, ha, _, hpos⟩ := hs 0 (by omega)
      have hxpos : 0 < x := by
        have : a = 0 ∨ a = 1 := by omega
        rcases this with rfl | rfl
        · rwa [g0] at hpos
        · rw [g1, hy] at hpos; linarith
      have hx : x = 3 / 5 := by nlinarith
      rw [hy, hx]
      norm_num [A34]

theorem leadSpec_34_existsUnique : ∃! A, LeadSpec Z34 2 1 A := ⟨A34, leadSpec_34, fun _ h => leadSpec_34_unique h⟩

theorem allSubs_11' : allSubs [1, 1] = [[0, 0]] := by decide

/-- `Z34` is the Gram matrix `tucker_als` hands to `nvecs` for mode 0 of the `2 × 1` array `[[3], [4]]` -/
theorem gramMode_34 : gramMode ⟨[2, 1], [3, 4]⟩ 0 = Z34 := by
  simp [gramMode, Z34, allSubs_11', List.range_succ, Dense.get, sub2ind]
  norm_num

end Tk
end Pyttb
