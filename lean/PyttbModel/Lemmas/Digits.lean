/-
Lemmas for `IO/Digits.lean`: 17 significant decimal digits identify a binary64 value.
-/
import PyttbModel.IO.Digits
import Mathlib.Tactic.NormNum
import Mathlib.Tactic.Linarith
import Mathlib.Tactic.Positivity
import Mathlib.Tactic.Ring
import Mathlib.Tactic.FieldSimp
import Mathlib.Algebra.Order.Field.Basic
import Mathlib.Algebra.Order.Archimedean.Basic
import Mathlib.Data.Rat.Floor

namespace Pyttb.Digits

/-! ### the model's helpers in Mathlib terms -/

theorem scale_eq (b : ℕ) (e : ℤ) : scale b e = (b : ℚ) ^ e := by
  unfold scale
  split
  · rename_i h
    obtain ⟨n, rfl⟩ := Int.eq_ofNat_of_zero_le h
    simp
  · rename_i h
    have h' : 0 ≤ -e := by omega
    obtain ⟨n, hn⟩ := Int.eq_ofNat_of_zero_le h'
    have he : e = -(n : ℤ) := by omega
    subst he
    simp

theorem dist_eq (a b : ℚ) : dist a b = |a - b| := by
  unfold dist
  split
  · rename_i h
    rw [abs_of_nonpos (by linarith)]; ring
  · rename_i h
    rw [abs_of_nonneg (by linarith [le_of_not_ge h])]

/-- value of a positive pair -/
def bval (m : ℕ) (e : ℤ) : ℚ := (m : ℚ) * (2 : ℚ) ^ e
def dval (d : ℕ) (k : ℤ) : ℚ := (d : ℚ) * (10 : ℚ) ^ k

theorem B64.toRat_eq (b : B64) : b.toRat = if b.neg then -bval b.m b.e else bval b.m b.e := by
  unfold B64.toRat bval
  rw [scale_eq]; norm_num

theorem Dec.toRat_eq (y : Dec) : y.toRat = if y.neg then -dval y.d y.k else dval y.d y.k := by
  unfold Dec.toRat dval
  rw [scale_eq]; norm_num

/-- the mantissa/exponent constraint -/
def BOK (m : ℕ) (e : ℤ) : Prop :=
  -1074 ≤ e ∧ e ≤ 971 ∧ ((2 ^ 52 ≤ m ∧ m < 2 ^ 53) ∨ (1 ≤ m ∧ m < 2 ^ 52 ∧ e = -1074))

theorem bval_pos {m : ℕ} {e : ℤ} (h : BOK m e) : 0 < bval m e := by
  unfold bval
  have hm : (0 : ℚ) < m := by
    have : 0 < m := by rcases h.2.2 with h | h <;> omega
    exact_mod_cast this
  exact mul_pos hm (zpow_pos (by norm_num) _)

theorem dval_pos {P d : ℕ} {k : ℤ} (h : 10 ^ (P - 1) ≤ d) : 0 < dval d k := by
  unfold dval
  have hm : (0 : ℚ) < d := by
    have : 0 < d := lt_of_lt_of_le (by positivity) h
    exact_mod_cast this
  exact mul_pos hm (zpow_pos (by norm_num) _)

/-! ### the gap between distinct binary64 values, in units of 2^-1074 -/

set_option exponentiation.threshold 2000 in
/-- `bval m e = (m·2^a)·2^-1074` with `a = e + 1074`. -/
theorem bval_units (m : ℕ) (e : ℤ) (a : ℕ) (ha : e = (a : ℤ) - 1074) :
    bval m e = ((m * 2 ^ a : ℕ) : ℚ) * (2 : ℚ) ^ (-1074 : ℤ) := by
  unfold bval
  subst ha
  rw [sub_eq_add_neg, zpow_add₀ (by norm_num : (2 : ℚ) ≠ 0), zpow_natCast]
  push_cast
  ring

/-- Integer form of the gap: `N = m·2^a`, `N' = m'·2^a'` distinct (mantissas below `2^53`,
at least `2^52` unless the exponent is minimal) are further apart than `N / 10^16`. -/
theorem gap_int (m a m' a' : ℕ) (hm : m < 2 ^ 53) (hm' : m' < 2 ^ 53)
    (hn : 2 ^ 52 ≤ m ∨ a = 0) (hn' : 2 ^ 52 ≤ m' ∨ a' = 0)
    (hne : m * 2 ^ a ≠ m' * 2 ^ a') :
    ((m * 2 ^ a : ℕ) : ℤ) < 10 ^ 16 * |((m * 2 ^ a : ℕ) : ℤ) - ((m' * 2 ^ a' : ℕ) : ℤ)| := by
  push_cast
  rcases lt_trichotomy a a' with h | h | h
  · -- the other value lies in a higher binade
    obtain ⟨t, rfl⟩ : ∃ t, a' = a + 1 + t := ⟨a' - a - 1, by omega⟩
    have hm'2 : 2 ^ 52 ≤ m' := by rcases hn' with h | h <;> omega
    have hP : (0 : ℤ) < 2 ^ a := by positivity
    have hT : (1 : ℤ) ≤ 2 ^ t := one_le_pow₀ (by norm_num)
    have e1 : (m' : ℤ) * 2 ^ (a + 1 + t) = (m' * 2 * 2 ^ t) * 2 ^ a := by ring
    have hM : (2 : ℤ) ^ 53 ≤ m' * 2 * 2 ^ t := by
      have : (2 : ℤ) ^ 52 ≤ m' := by exact_mod_cast hm'2
      nlinarith
    have hmZ : (m : ℤ) < 2 ^ 53 := by exact_mod_cast hm
    have hle : (m : ℤ) * 2 ^ a + 2 ^ a ≤ (m' * 2 * 2 ^ t) * 2 ^ a := by
      have : ((m : ℤ) + 1) * 2 ^ a ≤ (m' * 2 * 2 ^ t) * 2 ^ a :=
        mul_le_mul_of_nonneg_right (by linarith) hP.le
      linarith
    rw [e1, abs_of_nonpos (by linarith)]
    have : (m : ℤ) * 2 ^ a < 2 ^ 53 * 2 ^ a := mul_lt_mul_of_pos_right hmZ hP
    nlinarith
  · subst h
    have hmm : m ≠ m' := fun h => hne (by rw [h])
    have hP : (0 : ℤ) < 2 ^ a := by positivity
    have hmZ : (m : ℤ) < 2 ^ 53 := by exact_mod_cast hm
    have e1 : (m : ℤ) * 2 ^ a - m' * 2 ^ a = ((m : ℤ) - m') * 2 ^ a := by ring
    have hab : (1 : ℤ) ≤ |(m : ℤ) - m'| := by
      have : (m : ℤ) - m' ≠ 0 := by
        intro h; apply hmm; have : (m : ℤ) = m' := by linarith
        exact_mod_cast this
      exact Int.one_le_abs this
    rw [e1, abs_mul, abs_of_pos hP]
    have h1 : (m : ℤ) * 2 ^ a < 2 ^ 53 * 2 ^ a := mul_lt_mul_of_pos_right hmZ hP
    have h2 : (1 : ℤ) * 2 ^ a ≤ |(m : ℤ) - m'| * 2 ^ a := mul_le_mul_of_nonneg_right hab hP.le
    nlinarith
  · -- the other value lies in a lower binade: `m` is normal, the margin is `10^16 > 2^53`
    obtain ⟨t, rfl⟩ : ∃ t, a = a' + 1 + t := ⟨a - a' - 1, by omega⟩
    have hm2 : 2 ^ 52 ≤ m := by rcases hn with h | h <;> omega
    have hP : (0 : ℤ) < 2 ^ a' := by positivity
    have hT : (1 : ℤ) ≤ 2 ^ t := one_le_pow₀ (by norm_num)
    have e1 : (m : ℤ) * 2 ^ (a' + 1 + t) = (m * 2 * 2 ^ t) * 2 ^ a' := by ring
    have hM : (2 : ℤ) ^ 53 ≤ m * 2 * 2 ^ t := by
      have : (2 : ℤ) ^ 52 ≤ m := by exact_mod_cast hm2
      nlinarith
    have hm'Z : (m' : ℤ) + 1 ≤ 2 ^ 53 := by exact_mod_cast hm'
    set M : ℤ := m * 2 * 2 ^ t with hMdef
    have hle : (m' : ℤ) * 2 ^ a' ≤ (2 ^ 53 - 1) * 2 ^ a' :=
      mul_le_mul_of_nonneg_right (by linarith) hP.le
    have hpos : 0 ≤ M * 2 ^ a' - m' * 2 ^ a' := by
      have : (2 ^ 53 : ℤ) * 2 ^ a' ≤ M * 2 ^ a' := mul_le_mul_of_nonneg_right hM hP.le
      linarith
    rw [e1, abs_of_nonneg hpos]
    have key : M < 10 ^ 16 * (M - 2 ^ 53 + 1) := by linarith
    have : M * 2 ^ a' < 10 ^ 16 * (M - 2 ^ 53 + 1) * 2 ^ a' := mul_lt_mul_of_pos_right key hP
    nlinarith

theorem BOK.units {m : ℕ} {e : ℤ} (h : BOK m e) :
    ∃ a : ℕ, e = (a : ℤ) - 1074 ∧ m < 2 ^ 53 ∧ (2 ^ 52 ≤ m ∨ a = 0) := by
  obtain ⟨h1, h2, h3⟩ := h
  obtain ⟨a, ha⟩ := Int.eq_ofNat_of_zero_le (show 0 ≤ e + 1074 by omega)
  refine ⟨a, by omega, ?_, ?_⟩
  · rcases h3 with h | h <;> omega
  · rcases h3 with h | h
    · exact Or.inl h.1
    · right; omega

/-- Distinct positive binary64 values `x ≠ x'` are further apart than `x / 10^16`
(the worst case is `x` a power of two and `x'` its lower neighbour: `x / 2^53`). -/
theorem gap_pos {m m' : ℕ} {e e' : ℤ} (h : BOK m e) (h' : BOK m' e') (hne : bval m e ≠ bval m' e') :
    bval m e < 10 ^ 16 * |bval m e - bval m' e'| := by
  obtain ⟨a, ha, hm, hn⟩ := h.units
  obtain ⟨a', ha', hm', hn'⟩ := h'.units
  rw [bval_units m e a ha, bval_units m' e' a' ha'] at hne ⊢
  have hu : (0 : ℚ) < (2 : ℚ) ^ (-1074 : ℤ) := zpow_pos (by norm_num) _
  have hne' : m * 2 ^ a ≠ m' * 2 ^ a' := fun h => hne (by rw [h])
  have hg := gap_int m a m' a' hm hm' hn hn' hne'
  have hq : (((m * 2 ^ a : ℕ) : ℤ) : ℚ) <
      ((10 ^ 16 * |((m * 2 ^ a : ℕ) : ℤ) - ((m' * 2 ^ a' : ℕ) : ℤ)| : ℤ) : ℚ) := by exact_mod_cast hg
  rw [← sub_mul, abs_mul, abs_of_pos hu, ← mul_assoc]
  refine mul_lt_mul_of_pos_right ?_ hu
  push_cast at hq ⊢
  exact hq

/-- A mantissa/exponent pair is determined by its value. -/
theorem bval_inj {m m' : ℕ} {e e' : ℤ} (h : BOK m e) (h' : BOK m' e') (heq : bval m e = bval m' e') :
    m = m' ∧ e = e' := by
  obtain ⟨a, ha, hm, hn⟩ := h.units
  obtain ⟨a', ha', hm', hn'⟩ := h'.units
  rw [bval_units m e a ha, bval_units m' e' a' ha'] at heq
  have hu : (2 : ℚ) ^ (-1074 : ℤ) ≠ 0 := (zpow_pos (by norm_num) _).ne'
  have hN : m * 2 ^ a = m' * 2 ^ a' := by exact_mod_cast mul_right_cancel₀ hu heq
  have hmpos : 0 < m := by rcases h.2.2 with h | h <;> omega
  have hm'pos : 0 < m' := by rcases h'.2.2 with h | h <;> omega
  have key : ∀ (m a m' a' : ℕ), m < 2 ^ 53 → (2 ^ 52 ≤ m' ∨ a' = 0) → a < a' →
      m * 2 ^ a ≠ m' * 2 ^ a' := by
    intro m a m' a' hm hn' hlt heq
    obtain ⟨t, rfl⟩ : ∃ t, a' = a + 1 + t := ⟨a' - a - 1, by omega⟩
    have hm'2 : 2 ^ 52 ≤ m' := by rcases hn' with h | h <;> omega
    have hP : 0 < 2 ^ a := by positivity
    have hT : 1 ≤ 2 ^ t := Nat.one_le_two_pow
    have e1 : m' * 2 ^ (a + 1 + t) = (m' * 2 * 2 ^ t) * 2 ^ a := by ring
    rw [e1] at heq
    have := Nat.eq_of_mul_eq_mul_right hP heq
    nlinarith
  rcases lt_trichotomy a a' with hlt | heq' | hgt
  · exact absurd hN (key m a m' a' hm hn' hlt)
  · subst heq'
    have hP : 0 < 2 ^ a := by positivity
    exact ⟨Nat.eq_of_mul_eq_mul_right hP hN, by omega⟩
  · exact absurd hN.symm (key m' a' m a hm' hn hgt)

/-! ### values -/

/-- `q` is the value of a finite nonzero binary64 number. -/
def B64Val (q : ℚ) : Prop := ∃ b : B64, b.WF ∧ b.toRat = q
/-- `q` is the value of a `P`-digit decimal. -/
def DecVal (P : ℕ) (q : ℚ) : Prop := ∃ y : Dec, y.WF P ∧ y.toRat = q

theorem B64.wf_iff (b : B64) : b.WF ↔ BOK b.m b.e := Iff.rfl

theorem B64Val.neg {q : ℚ} (h : B64Val q) : B64Val (-q) := by
  obtain ⟨b, hb, rfl⟩ := h
  refine ⟨b.negate, hb, ?_⟩
  rw [B64.toRat_eq, B64.toRat_eq]
  cases hn : b.neg <;> simp [B64.negate, hn]

theorem DecVal.neg {P : ℕ} {q : ℚ} (h : DecVal P q) : DecVal P (-q) := by
  obtain ⟨y, hy, rfl⟩ := h
  refine ⟨y.negate, hy, ?_⟩
  rw [Dec.toRat_eq, Dec.toRat_eq]
  cases hn : y.neg <;> simp [Dec.negate, hn]

/-- every other finite binary64 value (zero included) is further from a positive binary64
value `x` than `x / 10^16` -/
theorem gap_all {m : ℕ} {e : ℤ} (h : BOK m e) (z : ℚ) (hz : z = 0 ∨ B64Val z) (hne : z ≠ bval m e) :
    bval m e < 10 ^ 16 * |bval m e - z| := by
  have hx := bval_pos h
  rcases hz with rfl | ⟨b, hb, rfl⟩
  · rw [sub_zero, abs_of_pos hx]; linarith
  · rw [B64.toRat_eq] at hne ⊢
    have hbp := bval_pos ((B64.wf_iff b).1 hb)
    cases hn : b.neg
    · simp only [hn, Bool.false_eq_true, if_false] at hne ⊢
      exact gap_pos h hb (Ne.symm hne)
    · simp only [hn, if_true] at hne ⊢
      rw [sub_neg_eq_add, abs_of_pos (by linarith)]; linarith

/-! ### a 17-digit decimal within half a unit of the 17th digit -/

theorem decVal_of_nat (D : ℕ) (k : ℤ) (h1 : 10 ^ 16 ≤ D) (h2 : D ≤ 10 ^ 17) :
    DecVal 17 ((D : ℚ) * (10 : ℚ) ^ k) := by
  rcases Nat.lt_or_ge D (10 ^ 17) with h | h
  · refine ⟨⟨false, D, k⟩, ⟨by simpa using h1, h⟩, ?_⟩
    rw [Dec.toRat_eq]; simp [dval]
  · have hD : D = 10 ^ 17 := le_antisymm h2 h
    refine ⟨⟨false, 10 ^ 16, k + 1⟩, ⟨by norm_num, by norm_num⟩, ?_⟩
    rw [Dec.toRat_eq]
    simp only [Bool.false_eq_true, if_false, dval]
    rw [zpow_add₀ (by norm_num : (10 : ℚ) ≠ 0), hD]
    push_cast; ring

/-- A nearest 17-digit decimal of a positive `x` is within `x / (2·10^16)` of it. -/
theorem near_dec {x y : ℚ} (hx : 0 < x) (hy : ∀ z, DecVal 17 z → |x - y| ≤ |x - z|) :
    2 * 10 ^ 16 * |x - y| ≤ x := by
  obtain ⟨n, hn1, hn2⟩ := exists_mem_Ico_zpow (y := (10 : ℚ)) hx (by norm_num)
  set k : ℤ := n - 16 with hk
  have hu : (0 : ℚ) < (10 : ℚ) ^ k := zpow_pos (by norm_num) _
  have e1 : (10 : ℚ) ^ n = 10 ^ 16 * (10 : ℚ) ^ k := by
    have : n = k + 16 := by omega
    rw [this, zpow_add₀ (by norm_num : (10 : ℚ) ≠ 0)]; norm_num; ring
  have e2 : (10 : ℚ) ^ (n + 1) = 10 ^ 17 * (10 : ℚ) ^ k := by
    have : n + 1 = k + 17 := by omega
    rw [this, zpow_add₀ (by norm_num : (10 : ℚ) ≠ 0)]; norm_num; ring
  rw [e1] at hn1; rw [e2] at hn2
  set u : ℚ := (10 : ℚ) ^ k with hudef
  set t : ℚ := x / u with ht
  have hxt : x = t * u := by rw [ht]; field_simp
  have ht1 : (10 : ℚ) ^ 16 ≤ t := by rw [ht, le_div_iff₀ hu]; exact hn1
  have ht2 : t < (10 : ℚ) ^ 17 := by rw [ht, div_lt_iff₀ hu]; exact hn2
  have ht0 : (0 : ℚ) ≤ t := le_trans (by positivity) ht1
  set f : ℕ := ⌊t⌋₊ with hf
  have hf1 : (f : ℚ) ≤ t := Nat.floor_le ht0
  have hf2 : t < (f : ℚ) + 1 := Nat.lt_floor_add_one t
  have hf3 : 10 ^ 16 ≤ f := Nat.le_floor (by exact_mod_cast ht1)
  have hf4 : f < 10 ^ 17 := (Nat.floor_lt ht0).2 (by exact_mod_cast ht2)
  have hclose : ∃ z, DecVal 17 z ∧ |x - z| ≤ u / 2 := by
    rcases le_or_gt (t - f) (1 / 2) with h | h
    · refine ⟨(f : ℚ) * u, decVal_of_nat f k hf3 hf4.le, ?_⟩
      rw [hxt, ← sub_mul, abs_mul, abs_of_pos hu, abs_of_nonneg (by linarith)]
      nlinarith
    · refine ⟨((f + 1 : ℕ) : ℚ) * u, decVal_of_nat (f + 1) k (by omega) (by omega), ?_⟩
      rw [hxt, ← sub_mul, abs_mul, abs_of_pos hu]
      push_cast
      rw [abs_of_nonpos (by linarith)]
      nlinarith
  obtain ⟨z, hz, hzc⟩ := hclose
  have := hy z hz
  linarith

/-! ### the round trip at the level of values -/

/-- positive case -/
theorem roundtrip_pos {m : ℕ} {e : ℤ} (h : BOK m e) (y x' : ℚ)
    (hy : ∀ z, DecVal 17 z → |bval m e - y| ≤ |bval m e - z|)
    (hx' : x' = 0 ∨ B64Val x') (hn : |y - x'| ≤ |y - bval m e|) : x' = bval m e := by
  by_contra hne
  have hg := gap_all h x' hx' hne
  have hc := near_dec (bval_pos h) hy
  have htri : |bval m e - x'| ≤ |bval m e - y| + |y - x'| := by
    have := abs_add_le (bval m e - y) (y - x')
    simpa using this
  rw [abs_sub_comm y (bval m e)] at hn
  linarith

/-- Values: if `x` is a finite nonzero binary64 value, `y` is at least as close to `x` as every
17-digit decimal, and `x'` is zero or a binary64 value at least as close to `y` as `x` is, then
`x' = x`. -/
theorem roundtrip_val {x : ℚ} (hx : B64Val x) (y x' : ℚ)
    (hy : ∀ z, DecVal 17 z → |x - y| ≤ |x - z|)
    (hx' : x' = 0 ∨ B64Val x') (hn : |y - x'| ≤ |y - x|) : x' = x := by
  obtain ⟨b, hb, rfl⟩ := hx
  rw [B64.toRat_eq] at hy hn ⊢
  cases hneg : b.neg
  · simp only [hneg, Bool.false_eq_true, if_false] at hy hn ⊢
    exact roundtrip_pos hb y x' hy hx' hn
  · simp only [hneg, if_true] at hy hn ⊢
    have hx'' : -x' = 0 ∨ B64Val (-x') := by
      rcases hx' with h | h
      · left; simp [h]
      · right; exact h.neg
    have := roundtrip_pos hb (-y) (-x') ?_ hx'' ?_
    · linarith
    · intro z hz
      have := hy (-z) hz.neg
      rw [show bval b.m b.e - -y = -(-bval b.m b.e - y) by ring, abs_neg,
        show bval b.m b.e - z = -(-bval b.m b.e - -z) by ring, abs_neg]
      exact this
    · rw [show -y - -x' = -(y - x') by ring, abs_neg,
        show -y - bval b.m b.e = -(y - -bval b.m b.e) by ring, abs_neg]
      exact hn

/-- a well-formed binary64 triple is determined by its value -/
theorem B64.toRat_inj {a b : B64} (ha : a.WF) (hb : b.WF) (h : a.toRat = b.toRat) : a = b := by
  rw [B64.toRat_eq, B64.toRat_eq] at h
  have pa := bval_pos ((B64.wf_iff a).1 ha)
  have pb := bval_pos ((B64.wf_iff b).1 hb)
  obtain ⟨an, am, ae⟩ := a
  obtain ⟨bn, bm, be⟩ := b
  cases an <;> cases bn <;> simp only [Bool.false_eq_true, if_false, if_true] at h
  · obtain ⟨h1, h2⟩ := bval_inj ha hb h; simp only at h1 h2; simp [h1, h2]
  · exfalso; simp only at pa pb; linarith
  · exfalso; simp only at pa pb; linarith
  · obtain ⟨h1, h2⟩ := bval_inj ha hb (neg_injective h); simp only at h1 h2; simp [h1, h2]

/-! ### the decision procedure for "nearest P-digit decimal" is sound -/

theorem abs_far_right {x v U z : ℚ} (h1 : v < U) (h2 : U ≤ z) (h : |x - v| ≤ |x - U|) :
    |x - v| ≤ |x - z| := by
  rcases le_or_gt x U with hxU | hxU
  · calc |x - v| ≤ |x - U| := h
      _ = U - x := by rw [abs_of_nonpos (by linarith)]; ring
      _ ≤ z - x := by linarith
      _ ≤ |x - z| := by rw [abs_sub_comm]; exact le_abs_self _
  · exfalso
    rw [abs_of_pos (by linarith : 0 < x - U), abs_of_pos (by linarith : 0 < x - v)] at h
    linarith

theorem abs_far_left {x v L z : ℚ} (h1 : L < v) (h2 : z ≤ L) (h : |x - v| ≤ |x - L|) :
    |x - v| ≤ |x - z| := by
  rcases le_or_gt L x with hxL | hxL
  · calc |x - v| ≤ |x - L| := h
      _ = x - L := by rw [abs_of_nonneg (by linarith)]
      _ ≤ x - z := by linarith
      _ ≤ |x - z| := le_abs_self _
  · exfalso
    rw [abs_of_neg (by linarith : x - L < 0), abs_of_neg (by linarith : x - v < 0)] at h
    linarith

/-- No `P`-digit decimal lies strictly between `D·10^j` and `(D+1)·10^j` when `D ≥ 10^(P−1)`. -/
theorem no_between (P D : ℕ) (j : ℤ) (hD : 10 ^ (P - 1) ≤ D) (d' : ℕ) (k' : ℤ) (hd' : d' < 10 ^ P)
    (h1 : dval D j < dval d' k') (h2 : dval d' k' < dval (D + 1) j) : False := by
  unfold dval at h1 h2
  have h10 : (10 : ℚ) ≠ 0 := by norm_num
  rcases le_or_gt j k' with hjk | hjk
  · obtain ⟨s, hs⟩ := Int.eq_ofNat_of_zero_le (show 0 ≤ k' - j by omega)
    have hk' : k' = j + s := by omega
    have hu : (0 : ℚ) < (10 : ℚ) ^ j := zpow_pos (by norm_num) _
    rw [hk', zpow_add₀ h10, zpow_natCast] at h1 h2
    have e : (d' : ℚ) * ((10 : ℚ) ^ j * 10 ^ s) = ((d' * 10 ^ s : ℕ) : ℚ) * (10 : ℚ) ^ j := by
      push_cast; ring
    rw [e] at h1 h2
    have a1 := lt_of_mul_lt_mul_right h1 hu.le
    have a2 := lt_of_mul_lt_mul_right h2 hu.le
    have b1 : D < d' * 10 ^ s := by exact_mod_cast a1
    have b2 : d' * 10 ^ s < D + 1 := by exact_mod_cast a2
    omega
  · obtain ⟨s, hs⟩ := Int.eq_ofNat_of_zero_le (show 0 ≤ j - k' - 1 by omega)
    have hj : j = k' + 1 + s := by omega
    have hu : (0 : ℚ) < (10 : ℚ) ^ k' := zpow_pos (by norm_num) _
    rw [hj, zpow_add₀ h10, zpow_add₀ h10, zpow_natCast] at h1
    have e : (D : ℚ) * ((10 : ℚ) ^ k' * 10 ^ (1 : ℤ) * 10 ^ s) = ((D * 10 * 10 ^ s : ℕ) : ℚ) * (10 : ℚ) ^ k' := by
      push_cast; ring
    rw [e] at h1
    have a1 := lt_of_mul_lt_mul_right h1 hu.le
    have b1 : D * 10 * 10 ^ s < d' := by exact_mod_cast a1
    have hs1 : 1 ≤ 10 ^ s := Nat.one_le_pow _ _ (by norm_num)
    cases P with
    | zero => simp at hd'; omega
    | succ p =>
      simp only [Nat.add_sub_cancel] at hD
      have : 10 ^ (p + 1) = 10 ^ p * 10 := pow_succ 10 p
      nlinarith

theorem Dec.up_val (P : ℕ) (y : Dec) (hn : y.neg = false) (h : y.WF P) :
    (y.up P).toRat = dval (y.d + 1) y.k := by
  unfold Dec.up
  split
  · rw [Dec.toRat_eq]; simp [hn]
  · rename_i hlt
    have hd : y.d + 1 = 10 ^ P := by have := h.2; omega
    rw [Dec.toRat_eq]
    simp only [hn, Bool.false_eq_true, if_false, dval, hd]
    cases P with
    | zero => have := h.1; have := h.2; simp at *; omega
    | succ p =>
      simp only [Nat.add_sub_cancel]
      rw [zpow_add₀ (by norm_num : (10 : ℚ) ≠ 0)]
      push_cast; ring

theorem Dec.down_props (P : ℕ) (y : Dec) (hn : y.neg = false) (h : y.WF P) :
    ∃ (D : ℕ) (j : ℤ), (y.down P).toRat = dval D j ∧ dval (D + 1) j = dval y.d y.k ∧ 10 ^ (P - 1) ≤ D := by
  unfold Dec.down
  split
  · rename_i hlt
    refine ⟨y.d - 1, y.k, ?_, ?_, Nat.le_sub_one_of_lt hlt⟩
    · rw [Dec.toRat_eq]; simp [hn]
    · have : y.d - 1 + 1 = y.d := Nat.sub_add_cancel (Nat.one_le_of_lt hlt)
      rw [this]
  · rename_i hlt
    have hd : y.d = 10 ^ (P - 1) := by have := h.1; omega
    cases P with
    | zero => have := h.1; have := h.2; simp at *; omega
    | succ p =>
      simp only [Nat.add_sub_cancel] at hd ⊢
      have hp : 1 ≤ 10 ^ (p + 1) := Nat.one_le_pow _ _ (by norm_num)
      refine ⟨10 ^ (p + 1) - 1, y.k - 1, ?_, ?_, ?_⟩
      · rw [Dec.toRat_eq]; simp [hn]
      · have : 10 ^ (p + 1) - 1 + 1 = 10 ^ (p + 1) := by omega
        rw [this, hd]
        unfold dval
        rw [sub_eq_add_neg, zpow_add₀ (by norm_num : (10 : ℚ) ≠ 0)]
        push_cast
        rw [pow_succ]
        field_simp
      · have : 10 ^ (p + 1) = 10 ^ p * 10 := pow_succ 10 p
        omega

/-- For positive `x`: a positive `P`-digit decimal that is at least as close to `x` as its two
neighbours is a nearest `P`-digit decimal of `x` among all of them. -/
theorem nearestDecB_sound_pos (P : ℕ) (x : ℚ) (hx : 0 < x) (y : Dec) (hn : y.neg = false)
    (h : nearestDecB P x y = true) : IsNearestDec P x y := by
  unfold nearestDecB at h
  simp only [Bool.and_eq_true, decide_eq_true_eq] at h
  obtain ⟨⟨hwf, hup⟩, hdn⟩ := h
  refine ⟨hwf, ?_⟩
  simp only [dist_eq] at hup hdn
  rw [Dec.up_val P y hn hwf] at hup
  obtain ⟨D, j, hD1, hD2, hD3⟩ := Dec.down_props P y hn hwf
  rw [hD1] at hdn
  have hv : y.toRat = dval y.d y.k := by rw [Dec.toRat_eq]; simp [hn]
  rw [hv] at hup hdn
  have hlt1 : dval y.d y.k < dval (y.d + 1) y.k := by
    unfold dval
    have hu : (0 : ℚ) < (10 : ℚ) ^ y.k := zpow_pos (by norm_num) _
    push_cast; nlinarith
  have hlt2 : dval D j < dval y.d y.k := by
    rw [← hD2]; unfold dval
    have hu : (0 : ℚ) < (10 : ℚ) ^ j := zpow_pos (by norm_num) _
    push_cast; nlinarith
  -- positive competitors
  have hposz : ∀ (d' : ℕ) (k' : ℤ), 10 ^ (P - 1) ≤ d' → d' < 10 ^ P →
      |x - dval y.d y.k| ≤ |x - dval d' k'| := by
    intro d' k' _ hd'
    rcases lt_trichotomy (dval d' k') (dval y.d y.k) with hlt | heq | hgt
    · refine abs_far_left hlt2 ?_ hdn
      by_contra hc
      exact no_between P D j hD3 d' k' hd' (not_le.1 hc) (by rw [hD2]; exact hlt)
    · rw [heq]
    · refine abs_far_right hlt1 ?_ hup
      by_contra hc
      exact no_between P y.d y.k hwf.1 d' k' hd' hgt (not_le.1 hc)
  intro z hz
  rw [dist_eq, dist_eq, hv, Dec.toRat_eq]
  cases hzn : z.neg
  · simp only [Bool.false_eq_true, if_false]
    exact hposz z.d z.k hz.1 hz.2
  · simp only [if_true]
    have hw : 0 < dval z.d z.k := dval_pos hz.1
    refine le_trans (hposz z.d z.k hz.1 hz.2) ?_
    rw [sub_neg_eq_add, abs_of_pos (by linarith : 0 < x + dval z.d z.k)]
    exact abs_le.2 ⟨by linarith, by linarith⟩

theorem dist_neg (a b : ℚ) : dist (-a) (-b) = dist a b := by
  rw [dist_eq, dist_eq, show -a - -b = -(a - b) by ring, abs_neg]

theorem Dec.negate_toRat (y : Dec) : y.negate.toRat = -y.toRat := by
  rw [Dec.toRat_eq, Dec.toRat_eq]
  cases hn : y.neg <;> simp [Dec.negate, hn]

theorem Dec.negate_negate (y : Dec) : y.negate.negate = y := by
  cases y; simp [Dec.negate]

theorem IsNearestDec.neg {P : ℕ} {x : ℚ} {y : Dec} (h : IsNearestDec P x y) :
    IsNearestDec P (-x) y.negate := by
  refine ⟨h.1, fun z hz => ?_⟩
  have := h.2 z.negate hz
  rw [Dec.negate_toRat] at this
  rw [Dec.negate_toRat, dist_neg]
  have e := dist_neg x (-z.toRat)
  rw [neg_neg] at e
  rw [e]; exact this

theorem nearestDecB_neg (P : ℕ) (x : ℚ) (y : Dec) :
    nearestDecB P (-x) y.negate = nearestDecB P x y := by
  have hup : (y.negate.up P) = (y.up P).negate := by
    unfold Dec.up Dec.negate; split <;> simp_all
  have hdn : (y.negate.down P) = (y.down P).negate := by
    unfold Dec.down Dec.negate; split <;> simp_all
  have hwf : y.negate.WF P ↔ y.WF P := Iff.rfl
  unfold nearestDecB
  rw [hup, hdn, Dec.negate_toRat, Dec.negate_toRat, Dec.negate_toRat, dist_neg, dist_neg, dist_neg]
  simp [hwf]

/-- The decision procedure is sound whenever `x ≠ 0` and the decimal carries the sign of `x`. -/
theorem nearestDecB_sound (P : ℕ) (x : ℚ) (y : Dec) (hs : (0 < x ∧ y.neg = false) ∨ (x < 0 ∧ y.neg = true))
    (h : nearestDecB P x y = true) : IsNearestDec P x y := by
  rcases hs with ⟨hx, hn⟩ | ⟨hx, hn⟩
  · exact nearestDecB_sound_pos P x hx y hn h
  · have h' : nearestDecB P (-x) y.negate = true := by rw [nearestDecB_neg]; exact h
    have := (nearestDecB_sound_pos P (-x) (by linarith) y.negate (by simp [Dec.negate, hn]) h').neg
    rwa [neg_neg, Dec.negate_negate] at this

/-- and complete: a nearest decimal passes the check (its neighbours are competitors) -/
theorem nearestDecB_complete (P : ℕ) (x : ℚ) (y : Dec) (h : IsNearestDec P x y)
    (hup : (y.up P).WF P) (hdn : (y.down P).WF P) : nearestDecB P x y = true := by
  unfold nearestDecB
  simp only [Bool.and_eq_true, decide_eq_true_eq]
  exact ⟨⟨h.1, h.2 _ hup⟩, h.2 _ hdn⟩

/-! ### the decision procedure for "nearest finite binary64 value" is sound -/

/-- No binary64 value lies strictly between `D·2^j` and `(D+1)·2^j` when `D ≥ 2^52` or `j` is the
minimal exponent. -/
theorem no_between_bin (D : ℕ) (j : ℤ) (hD : 2 ^ 52 ≤ D ∨ j = -1074) (m' : ℕ) (e' : ℤ)
    (hm' : m' < 2 ^ 53) (he' : -1074 ≤ e')
    (h1 : bval D j < bval m' e') (h2 : bval m' e' < bval (D + 1) j) : False := by
  unfold bval at h1 h2
  have h20 : (2 : ℚ) ≠ 0 := by norm_num
  rcases le_or_gt j e' with hjk | hjk
  · obtain ⟨s, hs⟩ := Int.eq_ofNat_of_zero_le (show 0 ≤ e' - j by omega)
    have hk' : e' = j + s := by omega
    have hu : (0 : ℚ) < (2 : ℚ) ^ j := zpow_pos (by norm_num) _
    rw [hk', zpow_add₀ h20, zpow_natCast] at h1 h2
    have e : (m' : ℚ) * ((2 : ℚ) ^ j * 2 ^ s) = ((m' * 2 ^ s : ℕ) : ℚ) * (2 : ℚ) ^ j := by
      push_cast; ring
    rw [e] at h1 h2
    have a1 := lt_of_mul_lt_mul_right h1 hu.le
    have a2 := lt_of_mul_lt_mul_right h2 hu.le
    have b1 : D < m' * 2 ^ s := by exact_mod_cast a1
    have b2 : m' * 2 ^ s < D + 1 := by exact_mod_cast a2
    omega
  · obtain ⟨s, hs⟩ := Int.eq_ofNat_of_zero_le (show 0 ≤ j - e' - 1 by omega)
    have hj : j = e' + 1 + s := by omega
    have hu : (0 : ℚ) < (2 : ℚ) ^ e' := zpow_pos (by norm_num) _
    rw [hj, zpow_add₀ h20, zpow_add₀ h20, zpow_natCast] at h1
    have e : (D : ℚ) * ((2 : ℚ) ^ e' * 2 ^ (1 : ℤ) * 2 ^ s) = ((D * 2 * 2 ^ s : ℕ) : ℚ) * (2 : ℚ) ^ e' := by
      push_cast; ring
    rw [e] at h1
    have a1 := lt_of_mul_lt_mul_right h1 hu.le
    have b1 : D * 2 * 2 ^ s < m' := by exact_mod_cast a1
    have hs1 : 1 ≤ 2 ^ s := Nat.one_le_two_pow
    have hD' : 2 ^ 52 ≤ D := by rcases hD with h | h <;> omega
    nlinarith

theorem bval_lt_succ (D : ℕ) (j : ℤ) : bval D j < bval (D + 1) j := by
  unfold bval
  have hu : (0 : ℚ) < (2 : ℚ) ^ j := zpow_pos (by norm_num) _
  push_cast; nlinarith

theorem bval_le_max {m : ℕ} {e : ℤ} (h : BOK m e) : bval m e ≤ bval (2 ^ 53 - 1) 971 := by
  obtain ⟨h1, h2, h3⟩ := h
  have hmle : (m : ℚ) ≤ ((2 ^ 53 - 1 : ℕ) : ℚ) := by
    have : m ≤ 2 ^ 53 - 1 := by rcases h3 with h | h <;> omega
    exact_mod_cast this
  have hele : (2 : ℚ) ^ e ≤ (2 : ℚ) ^ (971 : ℤ) := zpow_le_zpow_right₀ (by norm_num) h2
  unfold bval
  exact mul_le_mul hmle hele (zpow_pos (by norm_num) _).le (by positivity)

theorem bval_ge_min {m : ℕ} {e : ℤ} (h : BOK m e) : bval 1 (-1074) ≤ bval m e := by
  obtain ⟨h1, h2, h3⟩ := h
  have hmle : ((1 : ℕ) : ℚ) ≤ (m : ℚ) := by
    have : 1 ≤ m := by rcases h3 with h | h <;> omega
    exact_mod_cast this
  have hele : (2 : ℚ) ^ (-1074 : ℤ) ≤ (2 : ℚ) ^ e := zpow_le_zpow_right₀ (by norm_num) h1
  unfold bval
  exact mul_le_mul hmle hele (zpow_pos (by norm_num) _).le (by positivity)

theorem B64.up_props (x : B64) (hn : x.neg = false) (h : x.WF) :
    (∀ u, x.up = some u → u.toRat = bval (x.m + 1) x.e) ∧
    (x.up = none → x.m = 2 ^ 53 - 1 ∧ x.e = 971) := by
  obtain ⟨h1, h2, h3⟩ := h
  unfold B64.up
  split
  · refine ⟨fun u hu => ?_, fun hc => by cases hc⟩
    cases hu
    rw [B64.toRat_eq]; simp [hn]
  · rename_i hlt
    have hm : x.m + 1 = 2 ^ 53 := by rcases h3 with h | h <;> omega
    split
    · refine ⟨fun u hu => ?_, fun hc => by cases hc⟩
      cases hu
      rw [B64.toRat_eq]
      simp only [hn, Bool.false_eq_true, if_false, bval, hm]
      rw [zpow_add₀ (by norm_num : (2 : ℚ) ≠ 0)]
      push_cast; ring
    · rename_i hge
      exact ⟨fun u hu => (by cases hu), fun _ => ⟨by omega, by omega⟩⟩

theorem B64.down_props (x : B64) (hn : x.neg = false) (h : x.WF) :
    (∀ d, x.down = some d → ∃ (D : ℕ) (j : ℤ), d.toRat = bval D j ∧ bval (D + 1) j = bval x.m x.e ∧
        (2 ^ 52 ≤ D ∨ j = -1074) ∧ 0 < bval D j) ∧
    (x.down = none → x.m = 1 ∧ x.e = -1074) := by
  obtain ⟨h1, h2, h3⟩ := h
  have hpos : ∀ (D : ℕ) (j : ℤ), 1 ≤ D → 0 < bval D j := by
    intro D j hD
    unfold bval
    have : (0 : ℚ) < D := by exact_mod_cast hD
    exact mul_pos this (zpow_pos (by norm_num) _)
  unfold B64.down
  split
  · rename_i he
    split
    · rename_i hm
      refine ⟨fun d hd => ?_, fun hc => by cases hc⟩
      cases hd
      refine ⟨x.m - 1, x.e, ?_, ?_, Or.inr he, hpos _ _ (by omega)⟩
      · rw [B64.toRat_eq]; simp [hn]
      · have : x.m - 1 + 1 = x.m := by omega
        rw [this]
    · rename_i hm
      exact ⟨fun d hd => (by cases hd), fun _ => ⟨by rcases h3 with h | h <;> omega, he⟩⟩
  · rename_i he
    have hm2 : 2 ^ 52 ≤ x.m := by rcases h3 with h | h <;> omega
    split
    · rename_i hm
      refine ⟨fun d hd => ?_, fun hc => by cases hc⟩
      cases hd
      refine ⟨x.m - 1, x.e, ?_, ?_, Or.inl (by omega), hpos _ _ (by omega)⟩
      · rw [B64.toRat_eq]; simp [hn]
      · have : x.m - 1 + 1 = x.m := by omega
        rw [this]
    · rename_i hm
      have hm3 : x.m = 2 ^ 52 := by omega
      refine ⟨fun d hd => ?_, fun hc => by cases hc⟩
      cases hd
      refine ⟨2 ^ 53 - 1, x.e - 1, ?_, ?_, Or.inl (by norm_num), hpos _ _ (by norm_num)⟩
      · rw [B64.toRat_eq]; simp [hn]
      · rw [hm3]
        unfold bval
        rw [sub_eq_add_neg, zpow_add₀ (by norm_num : (2 : ℚ) ≠ 0)]
        norm_num
        ring

/-- For positive `y`: a positive binary64 value at least as close to `y` as its two neighbours
(zero below the least subnormal, `2^1024` above the largest finite value) is a nearest finite
binary64 value of `y` among zero and all finite nonzero ones. -/
theorem nearestBinB_sound_pos (y : ℚ) (hy : 0 < y) (x : B64) (hn : x.neg = false)
    (h : nearestBinB y x = true) : IsNearestBin y x := by
  unfold nearestBinB at h
  simp only [Bool.and_eq_true, decide_eq_true_eq] at h
  obtain ⟨⟨hwf, hup⟩, hdn⟩ := h
  obtain ⟨up1, up2⟩ := B64.up_props x hn hwf
  obtain ⟨dn1, dn2⟩ := B64.down_props x hn hwf
  have hv : x.toRat = bval x.m x.e := by rw [B64.toRat_eq]; simp [hn]
  have hvpos : 0 < bval x.m x.e := bval_pos hwf
  -- positive competitors
  have hposz : ∀ (m' : ℕ) (e' : ℤ), BOK m' e' → |y - bval x.m x.e| ≤ |y - bval m' e'| := by
    intro m' e' hz
    have hm' : m' < 2 ^ 53 := by rcases hz.2.2 with h | h <;> omega
    rcases lt_trichotomy (bval m' e') (bval x.m x.e) with hlt | heq | hgt
    · cases hd : x.down with
      | none =>
        obtain ⟨e1, e2⟩ := dn2 hd
        have := bval_ge_min hz
        rw [e1, e2] at hlt
        exact absurd hlt (not_lt.2 this)
      | some d =>
        obtain ⟨D, j, hD1, hD2, hD3, hD4⟩ := dn1 d hd
        rw [hd] at hdn
        simp only [decide_eq_true_eq, dist_eq, hD1, hv] at hdn
        have hlt2 : bval D j < bval x.m x.e := by rw [← hD2]; exact bval_lt_succ D j
        refine abs_far_left hlt2 ?_ hdn
        by_contra hc
        exact no_between_bin D j hD3 m' e' hm' hz.1 (not_le.1 hc) (by rw [hD2]; exact hlt)
    · rw [heq]
    · cases hu : x.up with
      | none =>
        obtain ⟨e1, e2⟩ := up2 hu
        have := bval_le_max hz
        rw [e1, e2] at hgt
        exact absurd hgt (not_lt.2 this)
      | some u =>
        rw [hu] at hup
        simp only [decide_eq_true_eq, dist_eq, up1 u hu, hv] at hup
        refine abs_far_right (bval_lt_succ x.m x.e) ?_ hup
        by_contra hc
        have hD : 2 ^ 52 ≤ x.m ∨ x.e = -1074 := by
          rcases hwf.2.2 with h | h
          · exact Or.inl h.1
          · exact Or.inr h.2.2
        exact no_between_bin x.m x.e hD m' e' hm' hz.1 hgt (not_le.1 hc)
  refine ⟨hwf, ?_, ?_⟩
  · rw [dist_eq, dist_eq, hv]
    cases hd : x.down with
    | none =>
      rw [hd] at hdn
      simpa only [decide_eq_true_eq, dist_eq, hv] using hdn
    | some d =>
      obtain ⟨D, j, hD1, hD2, hD3, hD4⟩ := dn1 d hd
      rw [hd] at hdn
      simp only [decide_eq_true_eq, dist_eq, hD1, hv] at hdn
      have hlt2 : bval D j < bval x.m x.e := by rw [← hD2]; exact bval_lt_succ D j
      exact abs_far_left hlt2 hD4.le hdn
  · intro z hz
    rw [dist_eq, dist_eq, hv, B64.toRat_eq]
    cases hzn : z.neg
    · simp only [Bool.false_eq_true, if_false]
      exact hposz z.m z.e hz
    · simp only [if_true]
      have hw : 0 < bval z.m z.e := bval_pos hz
      refine le_trans (hposz z.m z.e hz) ?_
      rw [sub_neg_eq_add, abs_of_pos (by linarith : 0 < y + bval z.m z.e)]
      exact abs_le.2 ⟨by linarith, by linarith⟩

theorem B64.negate_toRat (x : B64) : x.negate.toRat = -x.toRat := by
  rw [B64.toRat_eq, B64.toRat_eq]
  cases hn : x.neg <;> simp [B64.negate, hn]

theorem B64.negate_negate (x : B64) : x.negate.negate = x := by
  cases x; simp [B64.negate]

theorem IsNearestBin.neg {y : ℚ} {x : B64} (h : IsNearestBin y x) : IsNearestBin (-y) x.negate := by
  refine ⟨h.1, ?_, fun z hz => ?_⟩
  · have := h.2.1
    rw [B64.negate_toRat, dist_neg]
    have e := dist_neg y 0
    rw [neg_zero] at e
    rw [e]; exact this
  · have := h.2.2 z.negate hz
    rw [B64.negate_toRat] at this
    rw [B64.negate_toRat, dist_neg]
    have e := dist_neg y (-z.toRat)
    rw [neg_neg] at e
    rw [e]; exact this

theorem nearestBinB_neg (y : ℚ) (x : B64) : nearestBinB (-y) x.negate = nearestBinB y x := by
  have hup : x.negate.up = x.up.map B64.negate := by
    unfold B64.up B64.negate; split
    · simp
    · split <;> simp
  have hdn : x.negate.down = x.down.map B64.negate := by
    unfold B64.down B64.negate; split
    · split <;> simp
    · split <;> simp
  have hwf : x.negate.WF ↔ x.WF := Iff.rfl
  have hA : ∀ u : B64, dist (-y) x.negate.toRat ≤ dist (-y) u.negate.toRat ↔
      dist y x.toRat ≤ dist y u.toRat := by
    intro u; rw [B64.negate_toRat, B64.negate_toRat, dist_neg, dist_neg]
  have hB : dist (-y) x.negate.toRat ≤ dist (-y) 0 ↔ dist y x.toRat ≤ dist y 0 := by
    have e := dist_neg y 0
    rw [neg_zero] at e
    rw [B64.negate_toRat, dist_neg, e]
  have hC : dist (-y) x.negate.toRat ≤ dist (-y) (if x.negate.neg then -(scale 2 1024) else scale 2 1024) ↔
      dist y x.toRat ≤ dist y (if x.neg then -(scale 2 1024) else scale 2 1024) := by
    rw [B64.negate_toRat, dist_neg]
    have e1 := dist_neg y (scale 2 1024)
    have e2 := dist_neg y (-(scale 2 1024))
    rw [neg_neg] at e2
    cases hxn : x.neg
    · have : x.negate.neg = true := by simp [B64.negate, hxn]
      simp only [this, if_true, Bool.false_eq_true, if_false, e1]
    · have : x.negate.neg = false := by simp [B64.negate, hxn]
      simp only [this, if_true, Bool.false_eq_true, if_false, e2]
  unfold nearestBinB
  rw [hup, hdn]
  cases hu : x.up <;> cases hd : x.down <;>
    simp only [Option.map_some, Option.map_none, hA, hB, hC, hwf]

/-- The decision procedure is sound whenever `y ≠ 0` and the binary64 value carries the sign of `y`. -/
theorem nearestBinB_sound (y : ℚ) (x : B64) (hs : (0 < y ∧ x.neg = false) ∨ (y < 0 ∧ x.neg = true))
    (h : nearestBinB y x = true) : IsNearestBin y x := by
  rcases hs with ⟨hy, hn⟩ | ⟨hy, hn⟩
  · exact nearestBinB_sound_pos y hy x hn h
  · have h' : nearestBinB (-y) x.negate = true := by rw [nearestBinB_neg]; exact h
    have := (nearestBinB_sound_pos (-y) (by linarith) x.negate (by simp [B64.negate, hn]) h').neg
    rwa [neg_neg, B64.negate_negate] at this

/-- a three-valued world `+0.0`, `-0.0`, `0.1` (and its three tokens) for the non-vacuity example of
`C16_digits_discharges_hypothesis` -/
inductive DigitsDemo | pz | nz | tenth
deriving DecidableEq

end Pyttb.Digits
