/-
C10 — `hosvd`: the loop invariant and the run-level facts.
-/
import PyttbModel.Lemmas.Hosvd
namespace Pyttb
namespace Tk
open Finset

theorem getD_set_ne' {β : Type} (l : List β) {k m : Nat} (x d : β) (h : k ≠ m) : (l.set k x).getD m d = l.getD m d := by
  simp [List.getD_eq_getElem?_getD, List.getElem?_set, h]

theorem getD_set_self' {β : Type} (l : List β) {k : Nat} (x d : β) (hk : k < l.length) : (l.set k x).getD k d = x := by
  simp [List.getD_eq_getElem?_getD, hk]

/-- What is known about one record of the trace. -/
structure RecOK (X : Dense ℝ) (req : List Nat) (thresh : ℝ) (seq : Bool) (rec : ModeRec ℝ) : Prop where
  klt : rec.k < X.shape.length
  nonneg : ∀ x ∈ rec.eig, 0 ≤ x
  sorted : rec.eig.Pairwise (fun x y => y ≤ x)
  len : rec.eig.length = X.shape.getD rec.k 0
  auto : req.getD rec.k 0 = 0 → Gen.rankCut realOps (Gen.eigsum rec.eig) thresh = some rec.rank
  given : req.getD rec.k 0 ≠ 0 → rec.rank = req.getD rec.k 0
  ortho : OrthoCols rec.factor (X.shape.getD rec.k 0) (min rec.rank (X.shape.getD rec.k 0))
  eigOf : ∃ D V, EighOK rec.gram (X.shape.getD rec.k 0) D V ∧
    rec.eig = (argsortDesc realOps D).map (fun i => D.getD i 0)
  cur : ∃ Y : Dense ℝ, Y.WF ∧ rec.gram = gramMode Y rec.k ∧ tail rec.eig rec.rank = defect Y rec.factor rec.k ∧
    (seq = false → Y = X)

/-- Loop invariant of `for k in dimorder:` after the modes `done` have been processed. -/
structure HInv (X : Dense ℝ) (req : List Nat) (thresh : ℝ) (seq : Bool) (done : List Nat) (st : HState ℝ) : Prop where
  wf : st.Y.WF
  lenY : st.Y.shape.length = X.shape.length
  lenF : st.factors.length = X.shape.length
  lenR : st.ranks.length = X.shape.length
  untouched : ∀ k, k ∉ done → st.Y.shape.getD k 0 = X.shape.getD k 0 ∧ st.ranks.getD k 0 = req.getD k 0
  traceK : st.trace.map (·.k) = done
  recs : ∀ rec ∈ st.trace, RecOK X req thresh seq rec ∧ st.factors.getD rec.k [] = rec.factor
  yval : st.Y = if seq then ttmFold X (done.map fun k => (k, st.factors.getD k [])) true else X
  energy : seq = true → normSq X - normSq st.Y = (st.trace.map fun r => tail r.eig r.rank).sum

theorem HInv.init (X : Dense ℝ) (hX : X.WF) (req : List Nat) (hreq : req.length = X.shape.length) (thresh : ℝ)
    (seq : Bool) : HInv X req thresh seq [] ⟨X, List.replicate X.shape.length [], req, []⟩ where
  wf := hX
  lenY := rfl
  lenF := by simp
  lenR := hreq
  untouched := fun _ _ => ⟨rfl, rfl⟩
  traceK := rfl
  recs := fun _ h => by simp at h
  yval := by cases seq <;> rfl
  energy := fun _ => by simp

theorem HInv.step {eigh : Nat → Mat ℝ → List ℝ × Mat ℝ} (hE : EighContract eigh) {X : Dense ℝ} {req : List Nat}
    {thresh : ℝ} {seq : Bool} {done : List Nat} {st st' : HState ℝ} {k : Nat}
    (hI : HInv X req thresh seq done st) (hk : k < X.shape.length) (hnd : k ∉ done)
    (h : hosvdStep realOps eigh thresh seq st k = .ok st') : HInv X req thresh seq (done ++ [k]) st' := by
  obtain ⟨r, hr, hF, hR, hT, hseq, hnseq⟩ := hosvdStep_ok eigh h
  have hkY : k < st.Y.shape.length := by rw [hI.lenY]; exact hk
  have hn : st.Y.shape.getD k 0 = X.shape.getD k 0 := (hI.untouched k hnd).1
  have hrk : st.ranks.getD k 0 = req.getD k 0 := (hI.untouched k hnd).2
  have hU := stepU_ortho hE st k r
  have hY' : st'.Y = if seq then ttmT st.Y (stepU eigh st k r) k true else st.Y := by
    cases seq with
    | true =>
      have := (ttm_ok (hseq rfl)).1
      rw [this, ttmT_transpose _ _ _ hU.nrows]; rfl
    | false => simpa using hnseq rfl
  have hne : ∀ k' ∈ done, k ≠ k' := fun k' hk' e => hnd (e ▸ hk')
  have hrec : RecOK X req thresh seq ⟨k, gramMode st.Y k, stepPi eigh st k, stepEig eigh st k, r, stepU eigh st k r⟩ := by
    refine ⟨hk, stepEig_nonneg hE st k hkY, stepEig_sorted st k, by rw [stepEig_length hE, hn], ?_, ?_, ?_, ?_, ?_⟩
    · intro h0
      simp only at h0
      rw [hrk, h0] at hr
      exact chooseRank_auto _ _ hr
    · intro h0
      simp only at h0
      rw [hrk] at hr
      exact chooseRank_given _ _ h0 hr
    · rw [← hn]; exact hU
    · exact ⟨stepD eigh st k, stepV eigh st k, by rw [← hn]; exact step_eigh hE st k, rfl⟩
    · refine ⟨st.Y, hI.wf, rfl, step_tail hE st hI.wf k r hkY, ?_⟩
      intro hs
      subst hs
      simpa using hI.yval
  refine ⟨?_, ?_, ?_, ?_, ?_, ?_, ?_, ?_, ?_⟩
  · rw [hY']; cases seq
    · exact hI.wf
    · exact ttmT_WF _ _ _ _
  · rw [hY']; cases seq
    · exact hI.lenY
    · simpa using hI.lenY
  · rw [hF]; simpa using hI.lenF
  · rw [hR]; simpa using hI.lenR
  · intro k' hk'
    simp only [List.mem_append, List.mem_singleton, not_or] at hk'
    have hne' : k ≠ k' := fun e => hk'.2 e.symm
    have := hI.untouched k' hk'.1
    refine ⟨?_, by rw [hR, getD_set_ne hne']; exact this.2⟩
    rw [hY']; cases seq
    · exact this.1
    · simp only [if_true, ttmT_shape]; rw [getD_set_ne hne']; exact this.1
  · rw [hT]; simp [hI.traceK]
  · intro rec hrec'
    rw [hT] at hrec'
    rcases List.mem_append.1 hrec' with ho | hn'
    · have := hI.recs rec ho
      refine ⟨this.1, ?_⟩
      have hkd : rec.k ∈ done := by rw [← hI.traceK]; exact List.mem_map_of_mem ho
      rw [hF, getD_set_ne' _ _ _ (hne _ hkd)]
      exact this.2
    · have : rec = ⟨k, gramMode st.Y k, stepPi eigh st k, stepEig eigh st k, r, stepU eigh st k r⟩ := by
        simpa using hn'
      subst this
      refine ⟨hrec, ?_⟩
      rw [hF]
      exact getD_set_self' _ _ _ (by rw [hI.lenF]; exact hk)
  · rw [hY']
    cases seq with
    | false => simpa using hI.yval
    | true =>
      simp only [if_true]
      have hy : st.Y = ttmFold X (done.map fun k' => (k', st.factors.getD k' [])) true := by simpa using hI.yval
      rw [List.map_append, ttmFold_append]
      have e1 : (done.map fun k' => (k', st'.factors.getD k' [])) = done.map fun k' => (k', st.factors.getD k' []) := by
        apply List.map_congr_left
        intro k' hk'
        rw [hF, getD_set_ne' _ _ _ (hne _ hk')]
      have e2 : st'.factors.getD k [] = stepU eigh st k r := by
        rw [hF]; exact getD_set_self' _ _ _ (by rw [hI.lenF]; exact hk)
      rw [e1, ← hy]
      simp only [List.map_cons, List.map_nil, ttmFold_cons, ttmFold_nil]
      rw [e2]
  · intro hs
    subst hs
    have hold := hI.energy rfl
    rw [hT, List.map_append, List.sum_append, ← hold]
    simp only [List.map_cons, List.map_nil, List.sum_cons, List.sum_nil, add_zero]
    rw [step_tail hE st hI.wf k r hkY, hY']
    simp only [if_true, defect]
    ring

/-- The invariant at the end of the loop. -/
theorem hosvd_loop {eigh : Nat → Mat ℝ → List ℝ × Mat ℝ} (hE : EighContract eigh) (X : Dense ℝ) (hX : X.WF)
    (req : List Nat) (hreq : req.length = X.shape.length) (thresh : ℝ) (seq : Bool) (order : List Nat)
    (hp : isPermOf order X.shape.length = true) (st : HState ℝ)
    (h : order.foldlM (hosvdStep realOps eigh thresh seq) ⟨X, List.replicate X.shape.length [], req, []⟩ = .ok st) :
    HInv X req thresh seq order st := by
  have := foldlM_inv (hosvdStep realOps eigh thresh seq) (HInv X req thresh seq) order [] _ st
    (HInv.init X hX req hreq thresh seq)
    (by
      intro done' s k s' hex hI hs
      obtain ⟨rest, hrest⟩ := hex
      simp only [List.nil_append] at hrest
      have hkm : k ∈ order := by rw [← hrest]; simp
      have hnd : k ∉ done' := by
        have := isPermOf_nodup' hp
        rw [← hrest] at this
        have := (List.nodup_append.1 this).2.2
        intro hk
        exact this k hk k (by simp) rfl
      exact hI.step hE (isPermOf_lt' hp hkm) hnd hs)
    h
  simpa using this

theorem ranksExceed_false {ranks shape : List Nat} :
    ranksExceed ranks shape = false ↔ ∀ k < shape.length, ranks.getD k 0 ≤ shape.getD k 0 := by
  simp [ranksExceed, List.any_eq_false]

/-- A successful run was given ranks within the mode sizes (b0b6c00). -/
theorem hosvdRun_ranks_le {eigh : Nat → Mat ℝ → List ℝ × Mat ℝ} {X : Dense ℝ} {tol : ℝ} {dimorder : Option (List Nat)}
    {seq : Bool} {ranks : Option (List Nat)} {T : Ttensor ℝ} {tr : List (ModeRec ℝ)}
    (h : hosvdRun realOps eigh X tol dimorder seq ranks = .ok (T, tr)) :
    ∀ k < X.shape.length, (reqRanks ranks X.shape.length).getD k 0 ≤ X.shape.getD k 0 := by
  unfold hosvdRun at h
  simp only at h
  split at h
  · cases h
  split at h
  · cases h
  rename_i h1r
  exact ranksExceed_false.1 (by simpa using h1r)

/-- Unfolding of a successful run. -/
theorem hosvdRun_ok {eigh : Nat → Mat ℝ → List ℝ × Mat ℝ} {X : Dense ℝ} {tol : ℝ} {dimorder : Option (List Nat)}
    {seq : Bool} {ranks : Option (List Nat)} {T : Ttensor ℝ} {tr : List (ModeRec ℝ)}
    (h : hosvdRun realOps eigh X tol dimorder seq ranks = .ok (T, tr)) :
    (reqRanks ranks X.shape.length).length = X.shape.length ∧
    isPermOf (modeOrder dimorder X.shape.length) X.shape.length = true ∧
    ∃ st, (modeOrder dimorder X.shape.length).foldlM
        (hosvdStep realOps eigh (Gen.eigsumthresh realOps tol (normSq X) (realOps.ofNat X.shape.length)) seq)
        ⟨X, List.replicate X.shape.length [], reqRanks ranks X.shape.length, []⟩ = .ok st ∧
      tr = st.trace ∧ T.factors = st.factors ∧
      (seq = true → T.core = st.Y) ∧ (seq = false → ttmAll st.Y st.factors true = .ok T.core) := by
  unfold hosvdRun at h
  simp only at h
  split at h
  · cases h
  rename_i h1
  split at h
  · cases h
  split at h
  · cases h
  rename_i h2
  refine ⟨by simpa using h1, by simpa using h2, ?_⟩
  split at h
  · cases h
  rename_i st hf
  refine ⟨st, hf, ?_⟩
  split at h
  · cases h
  rename_i G hG
  split at h
  · cases h
  rename_i T' hm
  cases h
  unfold mkTtensor at hm
  split at hm
  · cases hm
    refine ⟨rfl, rfl, ?_, ?_⟩
    · intro hs
      subst hs
      simp only [if_true] at hG
      cases hG
      rfl
    · intro hs
      subst hs
      simpa using hG
  · cases hm

end Tk
end Pyttb
