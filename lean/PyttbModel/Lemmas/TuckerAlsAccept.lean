/-
C10 — `tucker_als` accepts every valid request of order ≥ 2 (non-vacuity of the Tucker-ALS
theorems): any of the three initialisations, any mode order, any iteration limit ≥ 1.
-/
import PyttbModel.Lemmas.HosvdAccept
import PyttbModel.Lemmas.TuckerAlsThm
namespace Pyttb
namespace Tk
open Finset

theorem ttmExcl_succeeds (T : Dense ℝ) (Us : List (Mat ℝ)) (n : Nat) (hU : Us.length = T.shape.length)
    (hn : n < T.shape.length) (hN : 2 ≤ T.shape.length)
    (h : ∀ m < T.shape.length, m ≠ n → (Us.getD m []).nrows = T.shape.getD m 0) :
    ttmExcl T Us n true = .ok (ttmFold T (exclList Us T.shape.length n) true) := by
  have hlen := length_complDims T.shape.length n hn
  unfold ttmExcl
  rw [if_pos hn]
  unfold ttmDims
  rw [if_neg (by omega), if_neg (by simp [hU])]
  rw [if_neg (by
    intro hc
    have : (complDims T.shape.length [n]).length = 0 := by simpa using hc
    omega)]
  rw [ttmPairs_by_mode _ _ (by omega)]
  apply foldlM_ttm_succeeds true _ T (exclList_fst_nodup Us _ n)
  intro q hq
  simp only [exclList, List.mem_map] at hq
  obtain ⟨m, hm, rfl⟩ := hq
  obtain ⟨hm1, hm2⟩ := mem_complDims.1 hm
  exact ⟨hm1, by simpa using h m hm1 hm2⟩

theorem rankAt_succeeds {rank : List Nat} {n : Nat} (h : n < rank.length) : rankAt rank n = .ok (rank.getD n 0) := by
  unfold rankAt
  rw [List.getElem?_eq_getElem h]
  simp [List.getD_eq_getElem?_getD, List.getElem?_eq_getElem h]

/-- The sweep succeeds when every factor other than the first processed one has the right
number of rows. -/
theorem sweep_succeeds {nvecs : Nat → Dense ℝ → Nat → Nat → Mat ℝ} (hC : NvecsContract nvecs) {X : Dense ℝ} (hX : X.WF)
    (hN : 2 ≤ X.shape.length) {rank : List Nat} (hRl : X.shape.length ≤ rank.length)
    (hR : ∀ n < X.shape.length, rank.getD n 0 ≤ X.shape.getD n 0) {order : List Nat}
    (hp : isPermOf order X.shape.length = true) {U : List (Mat ℝ)} (hU : U.length = X.shape.length)
    (hrows : ∀ m < X.shape.length, m ≠ order.headD 0 → (U.getD m []).nrows = X.shape.getD m 0) (calls : Nat) :
    ∃ r, sweep nvecs X rank order U calls = .ok r := by
  obtain ⟨st, hfold, hI⟩ := foldlM_progress (sweepStep nvecs X rank) (SInv nvecs X rank U) order []
    ⟨U, none, calls⟩ ⟨hU, fun _ hm => by simp at hm, fun _ _ => rfl, rfl, fun _ => le_refl _⟩
    (by
      intro done' s k hex hI
      obtain ⟨rest, hrest⟩ := hex
      simp only [List.nil_append] at hrest
      have hkm : k ∈ order := by rw [← hrest]; simp
      have hk : k < X.shape.length := isPermOf_lt' hp hkm
      have hnd : k ∉ done' := by
        have := isPermOf_nodup' hp
        rw [← hrest] at this
        have := (List.nodup_append.1 this).2.2
        intro hk'
        exact this k hk' k (by simp) rfl
      have hex' : ttmExcl X s.U k true = .ok (ttmFold X (exclList s.U X.shape.length k) true) := by
        apply ttmExcl_succeeds X s.U k hI.lenU hk hN
        intro m hm hmk
        by_cases hmd : m ∈ done'
        · exact (hI.ortho m hmd).nrows
        · rw [hI.unchanged m hmd]
          apply hrows m hm
          cases done' with
          | nil =>
            simp only [List.nil_append] at hrest
            rw [← hrest]; simpa using hmk
          | cons a done'' =>
            rw [← hrest]
            simp only [List.cons_append, List.headD_cons]
            intro e
            exact hmd (by rw [e]; simp)
      have hs : ∃ s', sweepStep nvecs X rank s k = .ok s' := by
        unfold sweepStep
        rw [hex']
        simp only
        rw [rankAt_succeeds (by omega)]
        exact ⟨_, rfl⟩
      obtain ⟨s', hs'⟩ := hs
      exact ⟨s', hs', hI.step hC hX hR hk hnd hs'⟩)
  simp only [List.nil_append] at hI
  have hne : order ≠ [] := by
    intro e
    have := (isPermOf_perm' hp).length_eq
    rw [e] at this
    simp at this
    omega
  obtain ⟨n, hn⟩ := Option.isSome_iff_exists.1 (List.getLast?_isSome.2 hne)
  have hlast := hI.last
  rw [hn] at hlast
  simp only at hlast
  have hnN : n < X.shape.length := isPermOf_lt' hp (List.mem_of_getLast? hn)
  set Ut := ttmFold X (exclList st.U X.shape.length n) true with hUt
  have hcore : ttmDims Ut st.U [n] true = .ok (ttmT Ut (st.U.getD n []) n true) := by
    have hUtl : Ut.shape.length = X.shape.length := ttmFold_shape_length _ _ _
    have hUtn : Ut.shape.getD n 0 = X.shape.getD n 0 := by
      rw [hUt, ttmFold_shape]
      apply coreShape_getD_notin
      simp only [exclList, List.map_map, Function.comp_def, List.map_id']
      intro hm
      exact (mem_complDims.1 hm).2 rfl
    unfold ttmDims
    rw [if_neg (by rw [hUtl, hI.lenU]; omega), if_neg (by simp [hUtl, hI.lenU]), if_neg (by simp)]
    rw [ttmPairs_single _ _ (by rw [hI.lenU]; exact hnN)]
    simp only [List.foldlM_cons, List.foldlM_nil]
    have hall : n ∈ order := List.mem_of_getLast? hn
    rw [ttm_eq_ok (by rw [hUtl]; exact hnN)
      (by simp only [if_true]; rw [hUtn]; exact (hI.ortho n hall).nrows)]
    rfl
  unfold sweep
  rw [hfold]
  simp only
  rw [hlast]
  simp only
  rw [hcore]
  exact ⟨_, rfl⟩

theorem iterate_succeeds {nvecs : Nat → Dense ℝ → Nat → Nat → Mat ℝ} (hC : NvecsContract nvecs) {X : Dense ℝ} (hX : X.WF)
    (hN : 2 ≤ X.shape.length) {rank : List Nat} (hRl : X.shape.length ≤ rank.length)
    (hR : ∀ n < X.shape.length, rank.getD n 0 ≤ X.shape.getD n 0) {order : List Nat}
    (hp : isPermOf order X.shape.length = true) (stoptol : ℝ) :
    ∀ (fuel it : Nat) (U : List (Mat ℝ)) (fitold : ℝ) (calls : Nat), U.length = X.shape.length →
      (∀ m < X.shape.length, m ≠ order.headD 0 → (U.getD m []).nrows = X.shape.getD m 0) →
      ∃ recs, iterate realOps nvecs X (tnorm realOps X) stoptol rank order fuel it U fitold calls = .ok recs := by
  intro fuel
  induction fuel with
  | zero => intro it U fitold calls _ _; exact ⟨[], rfl⟩
  | succ fuel ih =>
    intro it U fitold calls hU hrows
    obtain ⟨⟨U', core, calls'⟩, hsw⟩ := sweep_succeeds hC hX hN hRl hR hp hU hrows calls
    obtain ⟨hU', hortho, _, _⟩ := sweep_ok hC hX hR hp hU hsw
    unfold iterate
    rw [hsw]
    simp only
    split
    · exact ⟨_, rfl⟩
    · obtain ⟨rest, hrest⟩ := ih (it + 1) U' _ calls' hU' (fun m hm _ => (hortho m hm).nrows)
      rw [hrest]
      exact ⟨_, rfl⟩

/-- Filling the initial guess through a service: the fold succeeds, keeps the length, and every
processed mode holds an output of the service for that mode and its rank. -/
theorem fillInit_fold {svc : Nat → Nat → Nat → Mat ℝ} {rank : List Nat} :
    ∀ (l : List Nat) (st : List (Mat ℝ) × Nat), (∀ n ∈ l, n < rank.length ∧ n < st.1.length) → l.Nodup →
      ∃ st', l.foldlM (fillInit svc rank) st = .ok st' ∧ st'.1.length = st.1.length ∧
        ∀ m ∈ l, ∃ c, st'.1.getD m [] = svc c m (rank.getD m 0) := by
  intro l
  induction l with
  | nil => intro st _ _; exact ⟨st, rfl, rfl, fun _ h => by simp at h⟩
  | cons n l ih =>
    intro st h hnd
    have hn := h n (by simp)
    simp only [List.nodup_cons] at hnd
    have hstep : fillInit svc rank st n = .ok (st.1.set n (svc st.2 n (rank.getD n 0)), st.2 + 1) := by
      unfold fillInit
      rw [rankAt_succeeds hn.1]
    obtain ⟨st', hf, hl, hm⟩ := ih (st.1.set n (svc st.2 n (rank.getD n 0)), st.2 + 1)
      (fun m hm => ⟨(h m (by simp [hm])).1, by simpa using (h m (by simp [hm])).2⟩) hnd.2
    refine ⟨st', by simp only [List.foldlM_cons, hstep]; exact hf, by simpa using hl, ?_⟩
    intro m hm'
    rcases List.mem_cons.1 hm' with e | e
    · subst e
      -- untouched by the rest of the fold
      have : ∀ (l' : List Nat) (s s' : List (Mat ℝ) × Nat), m ∉ l' → l'.foldlM (fillInit svc rank) s = .ok s' →
          s'.1.getD m [] = s.1.getD m [] := by
        intro l'
        induction l' with
        | nil => intro s s' _ hs; simp only [List.foldlM_nil] at hs; cases hs; rfl
        | cons a l' ih' =>
          intro s s' hm hs
          simp only [List.mem_cons, not_or] at hm
          simp only [List.foldlM_cons] at hs
          cases hfa : fillInit svc rank s a with
          | error e => rw [hfa] at hs; cases hs
          | ok s1 =>
            rw [hfa] at hs
            rw [ih' s1 s' hm.2 hs]
            unfold fillInit at hfa
            split at hfa
            · cases hfa
            · cases hfa
              exact getD_set_ne' _ _ _ (Ne.symm hm.1)
      refine ⟨st.2, ?_⟩
      rw [this l _ st' hnd.1 hf]
      exact getD_set_self' _ _ _ hn.2
    · exact hm m e

theorem tuckerAls_accepts_aux {nvecs : Nat → Dense ℝ → Nat → Nat → Mat ℝ} (hC : NvecsContract nvecs)
    {uniform : Nat → Nat → Nat → Mat ℝ} (hUni : ∀ c m p, (uniform c m p).nrows = m) (X : Dense ℝ) (hX : X.WF)
    (hN : 2 ≤ X.shape.length) (rank : List Nat)
    (hRl : X.shape.length ≤ (parseRank rank X.shape.length).length)
    (hR : ∀ n < X.shape.length, (parseRank rank X.shape.length).getD n 0 ≤ X.shape.getD n 0)
    (dimorder : Option (List Nat)) (hp : isPermOf (modeOrder dimorder X.shape.length) X.shape.length = true)
    (init : Init ℝ)
    (hinit : match init with
      | .str s => s.toLower = "random" ∨ s.toLower = "nvecs" ∨ s.toLower = "eigs"
      | .list Us => Us.length = X.shape.length ∧ ∀ n ∈ (modeOrder dimorder X.shape.length).tail,
          (Us.getD n []).nrows = X.shape.getD n 0 ∧
          (Us.getD n []).ncols = (parseRank rank X.shape.length).getD n 0) :
    ∃ Uinit calls, initGuess nvecs uniform X (parseRank rank X.shape.length) (modeOrder dimorder X.shape.length) init
        = .ok (Uinit, calls) ∧ Uinit.length = X.shape.length ∧
      ∀ m < X.shape.length, m ≠ (modeOrder dimorder X.shape.length).headD 0 →
        (Uinit.getD m []).nrows = X.shape.getD m 0 := by
  have htail_mem : ∀ m < X.shape.length, m ≠ (modeOrder dimorder X.shape.length).headD 0 → m ∈ (modeOrder dimorder X.shape.length).tail := by
    intro m hm hne
    have hmo : m ∈ (modeOrder dimorder X.shape.length) := (isPermOf_perm' hp).mem_iff.2 (List.mem_range.2 hm)
    cases ho : (modeOrder dimorder X.shape.length) with
    | nil => rw [ho] at hmo; simp at hmo
    | cons a t =>
      rw [ho] at hmo hne
      simp only [List.headD_cons] at hne
      rcases List.mem_cons.1 hmo with e | e
      · exact absurd e hne
      · simpa using e
  have htail_lt : ∀ n ∈ (modeOrder dimorder X.shape.length).tail, n < X.shape.length := fun n hn => isPermOf_lt' hp (List.mem_of_mem_tail hn)
  have htail_nd : (modeOrder dimorder X.shape.length).tail.Nodup := (isPermOf_nodup' hp).sublist (List.tail_sublist _)
  cases init with
  | list Us =>
    obtain ⟨hl, hsh⟩ := hinit
    refine ⟨Us, 0, ?_, hl, fun m hm hne => (hsh m (htail_mem m hm hne)).1⟩
    unfold initGuess
    simp only
    rw [if_neg (by simp [hl])]
    have : (modeOrder dimorder X.shape.length).tail.mapM (checkInitShape X (parseRank rank X.shape.length) Us) = .ok ((modeOrder dimorder X.shape.length).tail.map fun _ => ()) := by
      have hall : ∀ n ∈ (modeOrder dimorder X.shape.length).tail, checkInitShape X (parseRank rank X.shape.length) Us n = .ok () := by
        intro n hn
        unfold checkInitShape
        rw [rankAt_succeeds (by have := htail_lt n hn; omega)]
        simp only
        have h1 := (hsh n hn).1
        have h2 := (hsh n hn).2
        rw [if_pos (by rw [h1, h2]; simp)]
      generalize (modeOrder dimorder X.shape.length).tail = l at hall
      induction l with
      | nil => rfl
      | cons a l ih =>
        simp only [List.mapM_cons, hall a (by simp)]
        rw [ih (fun n hn => hall n (by simp [hn]))]
        rfl
    rw [this]
  | str s =>
    have hfill : ∀ svc : Nat → Nat → Nat → Mat ℝ, ∃ st', (modeOrder dimorder X.shape.length).tail.foldlM (fillInit svc (parseRank rank X.shape.length)) (List.replicate X.shape.length [], 0) = .ok st' ∧
        st'.1.length = X.shape.length ∧ ∀ m ∈ (modeOrder dimorder X.shape.length).tail, ∃ c, st'.1.getD m [] = svc c m ((parseRank rank X.shape.length).getD m 0) := by
      intro svc
      obtain ⟨st', h1, h2, h3⟩ := fillInit_fold (svc := svc) (rank := (parseRank rank X.shape.length)) (modeOrder dimorder X.shape.length).tail (List.replicate X.shape.length [], 0)
        (fun n hn => ⟨by have := htail_lt n hn; omega, by simpa using htail_lt n hn⟩) htail_nd
      exact ⟨st', h1, by simpa using h2, h3⟩
    unfold initGuess
    simp only
    by_cases hr : s.toLower = "random"
    · obtain ⟨st', h1, h2, h3⟩ := hfill (fun c n r => uniform c (X.shape.getD n 0) r)
      rw [if_pos (by simp [hr]), h1]
      refine ⟨st'.1, 0, rfl, h2, ?_⟩
      intro m hm hne
      obtain ⟨c, hc⟩ := h3 m (htail_mem m hm hne)
      rw [hc]; exact hUni _ _ _
    · have hnv : s.toLower = "nvecs" ∨ s.toLower = "eigs" := by
        rcases hinit with h | h | h
        · exact absurd h hr
        · exact Or.inl h
        · exact Or.inr h
      obtain ⟨st', h1, h2, h3⟩ := hfill (fun c n r => nvecs c X n r)
      rw [if_neg (by simp [hr]), if_pos (by rcases hnv with h | h <;> simp [h]), h1]
      refine ⟨st'.1, st'.2, rfl, h2, ?_⟩
      intro m hm hne
      obtain ⟨c, hc⟩ := h3 m (htail_mem m hm hne)
      rw [hc]
      exact (hC c X m _ hX hm (hR m hm)).nrows

/-- The acceptance theorem behind `C10_tucker_accepts`. -/
theorem tuckerAls_accepts {nvecs : Nat → Dense ℝ → Nat → Nat → Mat ℝ} (hC : NvecsContract nvecs)
    {uniform : Nat → Nat → Nat → Mat ℝ} (hUni : ∀ c m p, (uniform c m p).nrows = m) (X : Dense ℝ) (hX : X.WF)
    (hN : 2 ≤ X.shape.length) (rank : List Nat)
    (hRl : (parseRank rank X.shape.length).length = X.shape.length)
    (hR1 : ∀ r ∈ parseRank rank X.shape.length, 1 ≤ r)
    (hR : ∀ n < X.shape.length, (parseRank rank X.shape.length).getD n 0 ≤ X.shape.getD n 0)
    (stoptol : ℝ) (maxiters : Int) (hmax : 1 ≤ maxiters)
    (dimorder : Option (List Nat)) (hp : isPermOf (modeOrder dimorder X.shape.length) X.shape.length = true)
    (init : Init ℝ)
    (hinit : match init with
      | .str s => s.toLower = "random" ∨ s.toLower = "nvecs" ∨ s.toLower = "eigs"
      | .list Us => Us.length = X.shape.length ∧ ∀ n ∈ (modeOrder dimorder X.shape.length).tail,
          (Us.getD n []).nrows = X.shape.getD n 0 ∧
          (Us.getD n []).ncols = (parseRank rank X.shape.length).getD n 0) :
    ∃ out, tuckerAls realOps nvecs uniform X rank stoptol maxiters dimorder init = .ok out := by
  obtain ⟨Uinit, calls, hig, hUl, hrows⟩ := tuckerAls_accepts_aux hC hUni X hX hN rank (le_of_eq hRl.symm) hR dimorder hp init hinit
  obtain ⟨recs, hit⟩ := iterate_succeeds hC hX hN (le_of_eq hRl.symm) hR hp stoptol maxiters.toNat 0 Uinit 0 calls hUl hrows
  have hI := iterate_ok hC hX hR hp stoptol _ _ _ _ _ _ hUl hit
  have hne : recs ≠ [] := hI.nonempty (by omega)
  obtain ⟨r, hlast⟩ := Option.isSome_iff_exists.1 (List.getLast?_isSome.2 hne)
  have hrec := hI.each r (List.mem_of_getLast? hlast)
  have hmk : mkTtensor r.core r.factors = .ok ⟨r.core, r.factors⟩ := by
    unfold mkTtensor
    rw [if_pos]
    simp only [Bool.and_eq_true, beq_iff_eq, List.all_eq_true, List.mem_range]
    refine ⟨by rw [hrec.core, ttmFold_shape_length, hrec.lenF], ?_⟩
    intro i hi
    rw [hrec.lenF] at hi
    rw [hrec.core, ttmFold_shape]
    rw [coreShape_getD_mem _ _ i (r.factors.getD i []) (ascList_fst_nodup _ _)
      (by simp only [ascList, List.mem_map, List.mem_range]; exact ⟨i, hi, rfl⟩) hi]
  refine ⟨⟨⟨r.core, r.factors⟩, Uinit, Gen.itersReported r.iteration, r.normresidual, r.fit⟩, ?_⟩
  unfold tuckerAls tuckerAlsRun
  simp only
  rw [if_neg (by omega), if_neg (by simpa using hRl),
    if_neg (by
      simp only [Bool.or_eq_true, not_or, Bool.not_eq_true, List.any_eq_false, decide_eq_true_eq, not_lt]
      exact ⟨hR1, ranksExceed_false.2 hR⟩),
    if_neg (by simpa using hp), hig]
  simp only
  rw [hit]
  simp only
  rw [hlast]
  simp only
  rw [hmk]
  rfl

end Tk
end Pyttb
