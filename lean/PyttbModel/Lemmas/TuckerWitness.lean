/-
C10 — the service contracts are satisfiable: an `eigh` built from Mathlib's spectral theorem
satisfies `EighContract`, and the `nvecs` built from it satisfies `NvecsContract` and
`NvecsLeading`.  (Used only for the non-vacuity statements of Props/C10.lean.)
-/
import PyttbModel.Lemmas.TuckerAlsThm
import Mathlib.Analysis.Matrix.Spectrum
namespace Pyttb
namespace Tk
open Finset Matrix

/-- A list matrix as a Mathlib matrix. -/
def toMatrix (Z : Mat ℝ) (n : Nat) : Matrix (Fin n) (Fin n) ℝ := Matrix.of fun i j => Z.get i j

theorem toMatrix_hermitian {Z : Mat ℝ} {n : Nat} (h : IsSymmSq Z n) : (toMatrix Z n).IsHermitian := by
  ext i j
  simp only [toMatrix, Matrix.conjTranspose_apply, Matrix.of_apply, star_trivial]
  exact h.symm j j.2 i i.2

open Classical in
/-- Eigenvalues and eigenvectors from the spectral theorem (for a symmetric square matrix). -/
noncomputable def eighSpec (_c : Nat) (Z : Mat ℝ) : List ℝ × Mat ℝ :=
  if h : IsSymmSq Z Z.length then
    (List.ofFn fun i : Fin Z.length => (toMatrix_hermitian h).eigenvalues i,
     List.ofFn fun a : Fin Z.length => List.ofFn fun c : Fin Z.length =>
       ((toMatrix_hermitian h).eigenvectorUnitary : Matrix (Fin Z.length) (Fin Z.length) ℝ) a c)
  else ([], [])

theorem getD_ofFn {β : Type} {n : Nat} (f : Fin n → β) (d : β) (a : Nat) (ha : a < n) :
    (List.ofFn f).getD a d = f ⟨a, ha⟩ := by
  simp [List.getD_eq_getElem?_getD, List.getElem?_ofFn, ha]

theorem eighSpec_contract : EighContract eighSpec := by
  intro c Z n hZ
  have hn : Z.length = n := hZ.rows
  subst hn
  unfold eighSpec
  rw [dif_pos hZ]
  set hM := toMatrix_hermitian hZ with hMdef
  set U : Matrix (Fin Z.length) (Fin Z.length) ℝ :=
    (hM.eigenvectorUnitary : Matrix (Fin Z.length) (Fin Z.length) ℝ) with hU
  have hget : ∀ a c (ha : a < Z.length) (hc : c < Z.length),
      Mat.get (List.ofFn fun a : Fin Z.length => List.ofFn fun c : Fin Z.length => U a c) a c = U ⟨a, ha⟩ ⟨c, hc⟩ := by
    intro a c ha hc
    simp only [Mat.get]
    rw [getD_ofFn _ _ a ha, getD_ofFn _ _ c hc]
  refine ⟨by simp, ⟨by simp, ?_, ?_⟩, ?_⟩
  · intro row hrow
    simp only [List.mem_ofFn] at hrow
    obtain ⟨a, rfl⟩ := hrow
    simp
  · intro c hc c' hc'
    have h2 : star U * U = 1 := Unitary.coe_star_mul_self _
    have := congrFun (congrFun h2 ⟨c, hc⟩) ⟨c', hc'⟩
    simp only [Matrix.mul_apply, Matrix.star_apply, star_trivial, Matrix.one_apply] at this
    rw [Finset.sum_range]
    rw [Finset.sum_congr rfl (fun (i : Fin Z.length) _ => by rw [hget i c i.2 hc, hget i c' i.2 hc'])]
    simpa [Fin.ext_iff] using this
  · intro a ha c hc
    have h3 := congrFun (hM.mulVec_eigenvectorBasis ⟨c, hc⟩) ⟨a, ha⟩
    simp only [Matrix.mulVec, dotProduct, Pi.smul_apply, smul_eq_mul] at h3
    rw [Finset.sum_range]
    rw [Finset.sum_congr rfl (fun (i : Fin Z.length) _ => by rw [hget i c i.2 hc])]
    rw [getD_ofFn _ _ c hc, hget a c ha hc]
    simpa [toMatrix, hU] using h3

/-- `nvecs` built from the spectral `eigh`: the leading `r` eigenvectors of the Gram matrix. -/
noncomputable def nvecsSpec (c : Nat) (W : Dense ℝ) (n r : Nat) : Mat ℝ :=
  matCols (eighSpec c (gramMode W n)).2 ((argsortDesc realOps (eighSpec c (gramMode W n)).1).take r)

theorem nvecsSpec_contract : NvecsContract nvecsSpec := by
  intro c W n r _ _ hr
  have hE := eighSpec_contract c (gramMode W n) _ (gramMode_symm W n)
  have hlen : (argsortDesc realOps (eighSpec c (gramMode W n)).1).length = W.shape.getD n 0 := by
    rw [argsortDesc_length, hE.len]
  have := hE.ortho.matCols ((argsortDesc realOps (eighSpec c (gramMode W n)).1).take r)
    (fun i hi => by
      have := argsortDesc_lt _ i (List.mem_of_mem_take hi)
      rwa [hE.len] at this)
    ((argsortDesc_nodup _).sublist (List.take_sublist _ _))
  rw [List.length_take, hlen, Nat.min_eq_left hr] at this
  exact this

theorem nvecsSpec_leading : NvecsLeading nvecsSpec := by
  intro c W n r _ _ hr
  have hE := eighSpec_contract c (gramMode W n) _ (gramMode_symm W n)
  have hlen : (argsortDesc realOps (eighSpec c (gramMode W n)).1).length = W.shape.getD n 0 := by
    rw [argsortDesc_length, hE.len]
  refine ⟨_, _, fun _ => 1, hE, fun _ _ => by ring, ?_⟩
  intro a ha i hi
  have hV : a < (eighSpec c (gramMode W n)).2.length := by rw [hE.ortho.rows]; exact ha
  have hi' : i < ((argsortDesc realOps (eighSpec c (gramMode W n)).1).take r).length := by
    rw [List.length_take, hlen]; omega
  rw [nvecsSpec, matCols_get _ _ a i hV hi', take_getD _ _ _ _ hi, one_mul]

end Tk
end Pyttb
