/-
C02 — the fiber of a shape over some coordinates, enumerated through the complementary
coordinates: the common re-indexing step of `ttv`, `collapse`, `scale`, `contract`, `ttt`.
-/
import PyttbModel.Lemmas.MLSums
import PyttbModel.Lemmas.ConvertTenmat
namespace Pyttb
namespace ML

variable {α : Type}

/-- The unselected modes followed by the selected ones are a permutation of all modes. -/
theorem isPermOf_compl_append (N : Nat) (sel : List Nat) (hnd : sel.Nodup) (hlt : ∀ d ∈ sel, d < N) :
    isPermOf (complDims N sel ++ sel) N = true := by
  apply isPermOf_of_perm
  have h1 : (List.range N).Perm ((List.range N).filter (fun k => !sel.contains k) ++
      (List.range N).filter (fun k => !!sel.contains k)) :=
    (List.filter_append_perm (fun k => !sel.contains k) (List.range N)).symm.trans (by
      apply List.Perm.append_left
      exact List.Perm.refl _)
  refine h1.trans (List.Perm.append_left _ ?_)
  rw [List.perm_ext_iff_of_nodup (List.Nodup.filter _ List.nodup_range) hnd]
  intro a
  simp only [Bool.not_not, List.mem_filter, List.mem_range, List.contains_iff_mem]
  exact ⟨fun h => h.2, fun h => ⟨hlt a h, h⟩⟩

theorem mem_complDims {n : Nat} {om : List Nat} {k : Nat} :
    k ∈ complDims n om ↔ k < n ∧ k ∉ om := by
  simp [complDims]

theorem complDims_lt {N : Nat} {sel : List Nat} {k : Nat} (hk : k ∈ complDims N sel) : k < N :=
  (mem_complDims.1 hk).1

theorem fiber_nodup (s rem i : List Nat) : (Spec.fiber s rem i).Nodup :=
  List.Nodup.filter _ (allSubs_nodup s)

theorem mem_fiber {s rem i k : List Nat} : k ∈ Spec.fiber s rem i ↔ InBounds s k ∧ gather k rem = i := by
  simp [Spec.fiber, mem_allSubs]

/-- `k ↦ (k[rem], k[sel])` has the inverse `(i, j) ↦ unperm (i ++ j)`. -/
theorem gather_unperm_left {rem sel i j : List Nat} {n : Nat} (hp : isPermOf (rem ++ sel) n = true)
    (hi : i.length = rem.length) (hj : j.length = sel.length) :
    gather (gather (i ++ j) (invPerm (rem ++ sel))) rem = i ∧
    gather (gather (i ++ j) (invPerm (rem ++ sel))) sel = j := by
  have hl := isPermOf_length_eq hp
  have h := gather_invPerm_gather hp (i := i ++ j) (by simp [hi, hj, ← hl])
  rw [gather_append] at h
  exact List.append_inj h (by simp [hi])

/-- The fiber over `i` is enumerated by the selected coordinates `j`. -/
theorem fiber_perm (s rem sel i : List Nat) (hp : isPermOf (rem ++ sel) s.length = true)
    (hi : InBounds (gather s rem) i) :
    ((allSubs (gather s sel)).map fun j => gather (i ++ j) (invPerm (rem ++ sel))).Perm (Spec.fiber s rem i) := by
  have hil : i.length = rem.length := by rw [hi.length_eq, length_gather]
  apply perm_bij _ _ _ (allSubs_nodup _) (fiber_nodup _ _ _)
  · intro x hx y hy h
    have hxl : x.length = sel.length := by rw [(mem_allSubs.1 hx).length_eq, length_gather]
    have hyl : y.length = sel.length := by rw [(mem_allSubs.1 hy).length_eq, length_gather]
    have h1 := (gather_unperm_left hp hil hxl).2
    have h2 := (gather_unperm_left hp hil hyl).2
    rw [← h1, ← h2, h]
  · intro y
    rw [mem_fiber]
    constructor
    · rintro ⟨hy, hg⟩
      refine ⟨gather y sel, ?_, ?_⟩
      · rw [mem_allSubs]
        exact hy.gather (fun k hk => isPermOf_lt_of_mem hp (List.mem_append_right _ hk))
      · rw [← hg, ← gather_append]
        exact gather_gather_invPerm hp hy.length_eq
    · rintro ⟨x, hx, rfl⟩
      have hxb := mem_allSubs.1 hx
      have hxl : x.length = sel.length := by rw [hxb.length_eq, length_gather]
      refine ⟨?_, (gather_unperm_left hp hil hxl).1⟩
      apply inBounds_unperm hp
      rw [gather_append]
      exact InBounds_append hi hxb

/-- Sum over a fiber = sum over the selected coordinates. -/
theorem fiber_sum [AddCommMonoid α] (s rem sel i : List Nat) (hp : isPermOf (rem ++ sel) s.length = true)
    (hi : InBounds (gather s rem) i) (F : List Nat → α) :
    ((Spec.fiber s rem i).map F).sum =
      ((allSubs (gather s sel)).map fun j => F (gather (i ++ j) (invPerm (rem ++ sel)))).sum := by
  rw [← sum_perm (fiber_perm s rem sel i hp hi) F, List.map_map]
  rfl

/-- `∏_{d ∈ sel} w d k_d` only reads the selected coordinates. -/
theorem selProd_eq_zipWith [Mul α] [One α] (sel : List Nat) (w : Nat → Nat → α) (k : List Nat) :
    Spec.selProd sel w k = (List.zipWith w sel (gather k sel)).prod := by
  unfold Spec.selProd gather
  rw [List.zipWith_map_right]
  congr 1
  induction sel with
  | nil => rfl
  | cons d sel _ => simp

end ML
end Pyttb
