/-
C08 lemmas: `normalize`, `arrange`, `redistribute` preserve the tensor and reach the promised
normal form.  Over a linear ordered field; the column norm, `argsort` and the N-th root are
parameters with laws (`NormLaws`, `Services.Lawful`).
-/
import PyttbModel.Lemmas.KruskalAlgebra
import Mathlib.Algebra.Order.Field.Basic
import Mathlib.Algebra.Order.Ring.Abs
import Mathlib.Tactic.Linarith
import Mathlib.Tactic.FieldSimp
set_option linter.unusedSectionVars false
namespace Pyttb

variable {α : Type}

/-- What is used of a column norm. -/
structure NormLaws [Field α] [LinearOrder α] (nrm : List α → α) : Prop where
  nonneg : ∀ v, 0 ≤ nrm v
  zero_of : ∀ v, nrm v = 0 → ∀ x ∈ v, x = 0
  smul : ∀ (c : α) (v : List α), nrm (v.map (c * ·)) = |c| * nrm v

/-- What is used of the numerical services: every `nrm nt` is a norm, `argsort` returns a
sorting permutation, `root N` is the N-th root on non-negative numbers. -/
structure Services.Lawful [Field α] [LinearOrder α] (S : Services α) : Prop where
  norm : ∀ nt, NormLaws (S.nrm nt)
  argsort_perm : ∀ l : List α, isPermOf (S.argsort l) l.length = true
  argsort_sorted : ∀ l : List α, ((S.argsort l).map fun k => l.getD k 0).Pairwise (· ≤ ·)
  root_pow : ∀ (N : Nat) (x : α), 0 < N → 0 ≤ x → (S.root N x) ^ N = x

/-- A column has unit norm, or is the zero column (which cannot be normalised). -/
def UnitOrZero [Zero α] [One α] (nrm : List α → α) (v : List α) : Prop := nrm v = 1 ∨ ∀ x ∈ v, x = 0

namespace Ktensor

/-- `K'` is a re-parameterisation of `K`: same rank, order and shape, and the same array. -/
structure Reparam [Add α] [Mul α] [One α] [Zero α] (K K' : Ktensor α) : Prop where
  ncomp : K'.ncomp = K.ncomp
  ndims : K'.factors.length = K.factors.length
  shape : K'.shape = K.shape
  get : ∀ i : List Nat, i.length = K.factors.length → K'.get i = K.get i

theorem Reparam.refl [Add α] [Mul α] [One α] [Zero α] (K : Ktensor α) : Reparam K K :=
  ⟨rfl, rfl, rfl, fun _ _ => rfl⟩

theorem Reparam.trans [Add α] [Mul α] [One α] [Zero α] {K K' K'' : Ktensor α}
    (h1 : Reparam K K') (h2 : Reparam K' K'') : Reparam K K'' :=
  ⟨h2.ncomp.trans h1.ncomp, h2.ndims.trans h1.ndims, h2.shape.trans h1.shape,
   fun i hi => (h2.get i (hi.trans h1.ndims.symm)).trans (h1.get i hi)⟩

section field
variable [Field α] [LinearOrder α] [IsStrictOrderedRing α]

theorem getD_eq_zero_of_all_zero (v : List α) (j : Nat) (h : ∀ x ∈ v, x = 0) : v.getD j 0 = 0 := by
  by_cases hj : j < v.length
  · rw [List.getD_eq_getElem?_getD, List.getElem?_eq_getElem hj]
    exact h _ (List.getElem_mem hj)
  · exact getD_ge _ _ _ (by omega)

/-! ### one mode -/

theorem normalizeMode_ncomp (nrm : List α → α) (K : Ktensor α) (n : Nat) :
    (normalizeMode nrm K n).ncomp = K.ncomp := by
  simp [normalizeMode, ncomp]

theorem normalizeMode_ndims (nrm : List α → α) (K : Ktensor α) (n : Nat) :
    (normalizeMode nrm K n).factors.length = K.factors.length := by
  simp [normalizeMode]

theorem normalizeMode_shape (nrm : List α → α) (K : Ktensor α) (n : Nat) :
    (normalizeMode nrm K n).shape = K.shape := by
  unfold normalizeMode Ktensor.shape
  exact shape_set _ _ _ (Mat.length_scaleL _ _)

theorem normalizeMode_other (nrm : List α → α) (K : Ktensor α) (n m : Nat) (h : n ≠ m) :
    (normalizeMode nrm K n).factors.getD m [] = K.factors.getD m [] := by
  simp [normalizeMode, List.getD_eq_getElem?_getD, List.getElem?_set_ne h]

/-- the coefficient applied to column `r` of mode `n` -/
def nmCoef (nrm : List α → α) (K : Ktensor α) (n r : Nat) : α :=
  if 0 < nrm ((K.factors.getD n []).col r) then 1 / nrm ((K.factors.getD n []).col r) else 1

theorem normalizeMode_self (nrm : List α → α) (K : Ktensor α) (n : Nat) (hn : n < K.factors.length)
    (r : Nat) (hr : r < K.ncomp) :
    ((normalizeMode nrm K n).factors.getD n []).col r
      = ((K.factors.getD n []).col r).map (nmCoef nrm K n r * ·) := by
  unfold normalizeMode
  simp only [List.getD_eq_getElem?_getD, List.getElem?_set_self hn, Option.getD_some]
  rw [Mat.col_scaleL]
  congr 2
  rw [← List.getD_eq_getElem?_getD, getD_map_of_lt _ _ _ 0 _ (by simpa using hr), getD_map_range _ _ _ _ hr]
  simp only [nmCoef, List.getD_eq_getElem?_getD]

theorem normalizeMode_weight (nrm : List α → α) (K : Ktensor α) (n r : Nat) (hr : r < K.ncomp) :
    (normalizeMode nrm K n).weights.getD r 0
      = K.weights.getD r 0 * nrm ((K.factors.getD n []).col r) := by
  unfold normalizeMode
  simp only
  rw [getD_zipWith_mul, getD_map_range _ _ _ _ hr]

theorem normalizeMode_comp (nrm : List α → α) (K : Ktensor α) (n r : Nat) (i : List Nat)
    (hn : n < K.factors.length) (hi : i.length = K.factors.length) (hr : r < K.ncomp) :
    (normalizeMode nrm K n).comp r i = K.comp r i * nmCoef nrm K n r := by
  unfold normalizeMode
  apply comp_set K _ n _ r _ i hn hi
  intro j
  rw [Mat.get_scaleL, mul_comm]
  congr 1
  rw [getD_map_of_lt _ _ _ 0 _ (by simpa using hr), getD_map_range _ _ _ _ hr]
  rfl

theorem normalizeMode_reparam {nrm : List α → α} (L : NormLaws nrm) (K : Ktensor α) (n : Nat)
    (hn : n < K.factors.length) : Reparam K (normalizeMode nrm K n) := by
  refine ⟨normalizeMode_ncomp nrm K n, normalizeMode_ndims nrm K n, normalizeMode_shape nrm K n, ?_⟩
  intro i hi
  apply get_congr i (normalizeMode_ncomp nrm K n)
  intro r hr
  rw [normalizeMode_weight nrm K n r hr, normalizeMode_comp nrm K n r i hn hi hr]
  unfold nmCoef
  split
  · rename_i ht
    field_simp
  · rename_i ht
    have h0 : nrm ((K.factors.getD n []).col r) = 0 := le_antisymm (not_lt.1 ht) (L.nonneg _)
    have hc : K.comp r i = 0 := by
      apply comp_eq_zero K n r i hn hi
      rw [Mat.get_eq_col]
      exact getD_eq_zero_of_all_zero _ _ (L.zero_of _ h0)
    rw [h0, hc]
    ring

theorem unitOrZero_map {nrm : List α → α} (L : NormLaws nrm) (v : List α) (s : α) (hs : |s| = 1)
    (h : UnitOrZero nrm v) : UnitOrZero nrm (v.map (s * ·)) := by
  rcases h with h | h
  · left
    rw [L.smul, hs, h, one_mul]
  · right
    intro x hx
    obtain ⟨y, hy, rfl⟩ := List.mem_map.1 hx
    rw [h y hy, mul_zero]

theorem normalizeMode_unit {nrm : List α → α} (L : NormLaws nrm) (K : Ktensor α) (n : Nat)
    (hn : n < K.factors.length) (r : Nat) (hr : r < K.ncomp) :
    UnitOrZero nrm (((normalizeMode nrm K n).factors.getD n []).col r) := by
  rw [normalizeMode_self nrm K n hn r hr]
  unfold nmCoef
  split
  · rename_i ht
    left
    rw [L.smul, abs_of_pos (by positivity)]
    field_simp
  · rename_i ht
    right
    have h0 : nrm ((K.factors.getD n []).col r) = 0 := le_antisymm (not_lt.1 ht) (L.nonneg _)
    intro x hx
    obtain ⟨y, hy, rfl⟩ := List.mem_map.1 hx
    rw [L.zero_of _ h0 y hy, mul_zero]

/-! ### all modes -/

theorem foldl_normalizeMode {nrm : List α → α} (L : NormLaws nrm) (K : Ktensor α) (k : Nat)
    (hk : k ≤ K.factors.length) :
    Reparam K ((List.range k).foldl (normalizeMode nrm) K) ∧
    (∀ m, m < k → ∀ r, r < K.ncomp →
      UnitOrZero nrm ((((List.range k).foldl (normalizeMode nrm) K).factors.getD m []).col r)) := by
  induction k with
  | zero => exact ⟨Reparam.refl K, fun m hm => absurd hm (Nat.not_lt_zero _)⟩
  | succ k ih =>
    obtain ⟨h1, h2⟩ := ih (by omega)
    rw [List.range_succ, List.foldl_append]
    simp only [List.foldl_cons, List.foldl_nil]
    have hk' : k < ((List.range k).foldl (normalizeMode nrm) K).factors.length := by rw [h1.ndims]; omega
    refine ⟨h1.trans (normalizeMode_reparam L _ k hk'), ?_⟩
    intro m hm r hr
    by_cases hmk : m = k
    · subst hmk
      exact normalizeMode_unit L _ m hk' r (by rw [h1.ncomp]; exact hr)
    · rw [normalizeMode_other _ _ _ _ (Ne.symm hmk)]
      exact h2 m (by omega) r hr

theorem normalizeAllModes_spec {nrm : List α → α} (L : NormLaws nrm) (K : Ktensor α) :
    Reparam K (normalizeAllModes nrm K) ∧
    (∀ m, m < K.factors.length → ∀ r, r < K.ncomp →
      UnitOrZero nrm (((normalizeAllModes nrm K).factors.getD m []).col r)) :=
  foldl_normalizeMode L K K.factors.length (le_refl _)

/-! ### sign of the weights -/

theorem flipNegWeights_reparam (K : Ktensor α) (hN : 0 < K.factors.length) : Reparam K (flipNegWeights K) := by
  refine ⟨by simp [flipNegWeights, ncomp], by simp [flipNegWeights], ?_, ?_⟩
  · unfold flipNegWeights Ktensor.shape
    exact shape_set _ _ _ (Mat.length_scaleL _ _)
  · intro i hi
    apply get_congr i (by simp [flipNegWeights, ncomp])
    intro r hr
    have h1 : (flipNegWeights K).weights.getD r 0
        = if K.weights.getD r 0 < 0 then - K.weights.getD r 0 else K.weights.getD r 0 := by
      unfold flipNegWeights
      simp only
      rw [getD_map_of_lt _ _ _ 0 _ hr]
    have h2 : (flipNegWeights K).comp r i
        = K.comp r i * (if K.weights.getD r 0 < 0 then -1 else 1) := by
      unfold flipNegWeights
      apply comp_set K _ 0 _ r _ i hN hi
      intro j
      rw [Mat.get_scaleL, mul_comm, getD_map_of_lt _ _ _ 0 _ hr]
    rw [h1, h2]
    split <;> ring

theorem flipNegWeights_nonneg (K : Ktensor α) : ∀ w ∈ (flipNegWeights K).weights, 0 ≤ w := by
  intro w hw
  simp only [flipNegWeights, List.mem_map] at hw
  obtain ⟨x, _, rfl⟩ := hw
  split
  · rename_i h; linarith
  · rename_i h; exact not_lt.1 h

theorem flipNegWeights_unit {nrm : List α → α} (L : NormLaws nrm) (K : Ktensor α) (m r : Nat) (hr : r < K.ncomp)
    (h : UnitOrZero nrm ((K.factors.getD m []).col r)) :
    UnitOrZero nrm (((flipNegWeights K).factors.getD m []).col r) := by
  by_cases hm : m = 0
  · subst hm
    by_cases hN : 0 < K.factors.length
    · unfold flipNegWeights
      simp only [List.getD_eq_getElem?_getD, List.getElem?_set_self hN, Option.getD_some]
      rw [Mat.col_scaleL]
      apply unitOrZero_map L
      · rw [getD_map_of_lt _ _ _ 0 _ hr]
        split <;> simp
      · simpa [List.getD_eq_getElem?_getD] using h
    · have : K.factors = [] := List.eq_nil_of_length_eq_zero (by omega)
      simpa [flipNegWeights, this] using h
  · have : (flipNegWeights K).factors.getD m [] = K.factors.getD m [] := by
      simp [flipNegWeights, List.getD_eq_getElem?_getD, List.getElem?_set_ne (Ne.symm hm)]
    rw [this]
    exact h

/-! ### absorbing -/

theorem absorbMode_reparam (K : Ktensor α) (n : Nat) (hn : n < K.factors.length) : Reparam K (K.absorbMode n) :=
  ⟨absorbMode_ncomp K n, by simp [absorbMode], absorbMode_shape K n, fun i hi => absorbMode_get K n i hn hi⟩

theorem absorbMode_other (K : Ktensor α) (n m : Nat) (h : n ≠ m) :
    (K.absorbMode n).factors.getD m [] = K.factors.getD m [] := by
  simp [absorbMode, List.getD_eq_getElem?_getD, List.getElem?_set_ne h]

theorem absorbAll_reparam {S : Services α} (hS : S.Lawful) (K : Ktensor α) (hN : 0 < K.factors.length)
    (hw : ∀ w ∈ K.weights, 0 ≤ w) : Reparam K (absorbAll S K) := by
  refine ⟨by simp [absorbAll, ncomp], by simp [absorbAll], ?_, ?_⟩
  · simp [absorbAll, Ktensor.shape, Mat.scaleR, Function.comp_def]
  · intro i hi
    apply get_congr i (by simp [absorbAll, ncomp])
    intro r hr
    have h1 : (absorbAll S K).weights.getD r 0 = 1 := by
      unfold absorbAll
      simp only
      rw [getD_map_of_lt _ _ _ 0 _ hr]
    have h2 : (absorbAll S K).comp r i
        = K.comp r i * (S.root K.ndims (K.weights.getD r 0)) ^ K.factors.length := by
      unfold absorbAll Ktensor.comp
      simp only
      rw [prod_zipWith_map_scale (fun A ik => Mat.get A ik r) (fun A => A.scaleR _)
        (S.root K.ndims (K.weights.getD r 0)) K.factors i]
      · rw [hi, Nat.min_self]
      · intro A j
        rw [Mat.get_scaleR, getD_map_of_lt _ _ _ 0 _ hr]
    have h3 : 0 ≤ K.weights.getD r 0 := by
      rw [List.getD_eq_getElem?_getD, List.getElem?_eq_getElem hr]
      exact hw _ (List.getElem_mem hr)
    rw [h1, h2, ← ndims_eq, hS.root_pow _ _ (by rw [ndims_eq]; exact hN) h3]
    ring

theorem absorbAll_weights (S : Services α) (K : Ktensor α) : ∀ w ∈ (absorbAll S K).weights, w = 1 := by
  intro w hw
  simp only [absorbAll, List.mem_map] at hw
  obtain ⟨_, _, rfl⟩ := hw
  rfl

theorem absorbWeights_reparam {S : Services α} (hS : S.Lawful) (K : Ktensor α) (hN : 0 < K.factors.length)
    (hw : ∀ w ∈ K.weights, 0 ≤ w) (wf : Option WeightFactor) : Reparam K (absorbWeights S K wf) := by
  unfold absorbWeights
  split
  · exact absorbAll_reparam hS K hN hw
  · rename_i k
    split
    · rename_i hk
      exact absorbMode_reparam K _ (inRange_toNat_lt hk)
    · exact Reparam.refl K
  · exact Reparam.refl K

theorem absorbWeights_nonneg (S : Services α) (K : Ktensor α) (hw : ∀ w ∈ K.weights, 0 ≤ w)
    (wf : Option WeightFactor) : ∀ w ∈ (absorbWeights S K wf).weights, 0 ≤ w := by
  unfold absorbWeights
  split
  · intro w h; rw [absorbAll_weights S K w h]; exact zero_le_one
  · split
    · intro w h; rw [absorbMode_weights K _ w h]; exact zero_le_one
    · exact hw
  · exact hw

/-! ### sorting -/

theorem permuteComps_reparam (K : Ktensor α) (p : List Nat) (hp : isPermOf p K.ncomp = true) :
    Reparam K (K.permuteComps p) :=
  ⟨(permuteComps_ncomp K p).trans (isPermOf_length_eq hp), by simp [permuteComps],
   permuteComps_shape K p, fun i _ => permuteComps_get_perm K p i hp⟩

theorem isPermOf_reverse {p : List Nat} {n : Nat} (h : isPermOf p n = true) : isPermOf p.reverse n = true := by
  rw [isPermOf_iff_perm] at h ⊢
  exact h.trans (List.reverse_perm p).symm

theorem mem_gatherD_of_perm (w : List α) (p : List Nat) (hp : isPermOf p w.length = true) :
    ∀ x ∈ gatherD w p 0, x ∈ w := by
  intro x hx
  simp only [gatherD, List.mem_map] at hx
  obtain ⟨k, hk, rfl⟩ := hx
  have hlt : k < w.length := isPermOf_lt_of_mem hp hk
  rw [List.getD_eq_getElem?_getD, List.getElem?_eq_getElem hlt]
  exact List.getElem_mem hlt

theorem sortComps_reparam {S : Services α} (hS : S.Lawful) (K : Ktensor α) (sort : Bool) :
    Reparam K (sortComps S K sort) := by
  unfold sortComps
  split
  · exact permuteComps_reparam K _ (isPermOf_reverse (hS.argsort_perm K.weights))
  · exact Reparam.refl K

theorem sortComps_mem {S : Services α} (hS : S.Lawful) (K : Ktensor α) (sort : Bool) :
    ∀ w ∈ (sortComps S K sort).weights, w ∈ K.weights := by
  unfold sortComps
  split
  · exact mem_gatherD_of_perm _ _ (isPermOf_reverse (hS.argsort_perm K.weights))
  · exact fun w h => h

theorem sortComps_sorted {S : Services α} (hS : S.Lawful) (K : Ktensor α) :
    (sortComps S K true).weights.Pairwise (· ≥ ·) := by
  unfold sortComps
  split
  · simp only [permuteComps, gatherD, List.map_reverse]
    rw [List.pairwise_reverse]
    exact hS.argsort_sorted K.weights
  · rename_i h
    have h' : K.weights.length ≤ 1 := by
      simp [ncomp] at h
      omega
    match K.weights, h' with
    | [], _ => exact List.Pairwise.nil
    | [x], _ => exact List.pairwise_singleton _ _
    | x :: y :: l, h' => simp at h'

theorem sortComps_col {S : Services α} (hS : S.Lawful) (K : Ktensor α) (sort : Bool) (m r : Nat)
    (hr : r < K.ncomp) :
    ∃ r', r' < K.ncomp ∧
      ((sortComps S K sort).factors.getD m []).col r = (K.factors.getD m []).col r' := by
  unfold sortComps
  split
  · have hp := isPermOf_reverse (hS.argsort_perm K.weights)
    have hlen : (S.argsort K.weights).reverse.length = K.weights.length := isPermOf_length_eq hp
    have hr' : r < K.weights.length := hr
    refine ⟨(S.argsort K.weights).reverse.getD r 0, isPermOf_getD_lt hp (by omega), ?_⟩
    simp only [permuteComps]
    by_cases hm : m < K.factors.length
    · rw [List.getD_eq_getElem?_getD, List.getElem?_map, List.getElem?_eq_getElem hm]
      simp only [Option.map_some, Option.getD_some]
      rw [Mat.col_gatherCols _ _ _ (by omega)]
      simp [List.getD_eq_getElem?_getD, List.getElem?_eq_getElem hm]
    · rw [getD_ge _ _ _ (by simp; omega), getD_ge _ _ _ (by omega)]
      simp [Mat.col]
  · exact ⟨r, hr, rfl⟩

/-! ### `normalize` as a whole -/

theorem ndims_pos_of_ne {K : Ktensor α} (h : ¬ (K.ndims == 0) = true) : 0 < K.factors.length := by
  simp [ndims] at h
  exact List.length_pos_iff.2 h

theorem normalize_none_eq (S : Services α) (K : Ktensor α) (wf : Option WeightFactor) (sort : Bool) (nt : NormType)
    {K' : Ktensor α} (h : normalize S K wf sort nt none = .ok K') :
    0 < K.factors.length ∧
    K' = sortComps S (absorbWeights S (flipNegWeights (normalizeAllModes (S.nrm nt) K)) wf) sort := by
  unfold normalize at h
  split at h
  · cases h
  · simp only at h
    split at h
    · cases h
    · rename_i hN
      injection h with h
      exact ⟨ndims_pos_of_ne hN, h.symm⟩

theorem normalize_wfValid (S : Services α) (K : Ktensor α) (wf : Option WeightFactor) (sort : Bool) (nt : NormType)
    (mode : Option Int) {K' : Ktensor α} (h : normalize S K wf sort nt mode = .ok K') :
    wfValid wf K.ndims = true := by
  unfold normalize at h
  split at h
  · cases h
  · rename_i hv
    simpa using hv

theorem normalize_some_eq (S : Services α) (K : Ktensor α) (wf : Option WeightFactor) (sort : Bool) (nt : NormType)
    (m : Int) {K' : Ktensor α} (h : normalize S K wf sort nt (some m) = .ok K') :
    m.toNat < K.factors.length ∧ K' = normalizeMode (S.nrm nt) K m.toNat := by
  unfold normalize at h
  split at h
  · cases h
  · simp only at h
    split at h
    · rename_i hm
      injection h with h
      exact ⟨inRange_toNat_lt hm, h.symm⟩
    · cases h

/-- stage after normalising all modes and fixing the sign of the weights -/
theorem stage2_spec {S : Services α} (hS : S.Lawful) (K : Ktensor α) (nt : NormType) (hN : 0 < K.factors.length) :
    Reparam K (flipNegWeights (normalizeAllModes (S.nrm nt) K)) ∧
    (∀ w ∈ (flipNegWeights (normalizeAllModes (S.nrm nt) K)).weights, 0 ≤ w) ∧
    (∀ m, m < K.factors.length → ∀ r, r < K.ncomp →
      UnitOrZero (S.nrm nt) (((flipNegWeights (normalizeAllModes (S.nrm nt) K)).factors.getD m []).col r)) := by
  obtain ⟨h1, h2⟩ := normalizeAllModes_spec (hS.norm nt) K
  refine ⟨h1.trans (flipNegWeights_reparam _ (by rw [h1.ndims]; exact hN)), flipNegWeights_nonneg _, ?_⟩
  intro m hm r hr
  exact flipNegWeights_unit (hS.norm nt) _ m r (by rw [h1.ncomp]; exact hr) (h2 m hm r hr)

theorem normalize_reparam {S : Services α} (hS : S.Lawful) (K : Ktensor α) (wf : Option WeightFactor) (sort : Bool)
    (nt : NormType) (mode : Option Int) {K' : Ktensor α} (h : normalize S K wf sort nt mode = .ok K') :
    Reparam K K' := by
  cases mode with
  | some m =>
    obtain ⟨hm, rfl⟩ := normalize_some_eq S K wf sort nt m h
    exact normalizeMode_reparam (hS.norm nt) K _ hm
  | none =>
    obtain ⟨hN, rfl⟩ := normalize_none_eq S K wf sort nt h
    obtain ⟨h1, h2, _⟩ := stage2_spec hS K nt hN
    exact (h1.trans (absorbWeights_reparam hS _ (by rw [h1.ndims]; exact hN) h2 wf)).trans
      (sortComps_reparam hS _ sort)

theorem normalize_nonneg {S : Services α} (hS : S.Lawful) (K : Ktensor α) (wf : Option WeightFactor) (sort : Bool)
    (nt : NormType) {K' : Ktensor α} (h : normalize S K wf sort nt none = .ok K') :
    ∀ w ∈ K'.weights, 0 ≤ w := by
  obtain ⟨hN, rfl⟩ := normalize_none_eq S K wf sort nt h
  obtain ⟨_, h2, _⟩ := stage2_spec hS K nt hN
  intro w hw
  exact absorbWeights_nonneg S _ h2 wf w (sortComps_mem hS _ sort w hw)

theorem absorbWeights_other (S : Services α) (K : Ktensor α) (wf : Option WeightFactor) (m : Nat)
    (hall : wf ≠ some .all) (hmk : ∀ k, wf = some (.mode k) → k ≠ (m : Int)) :
    (absorbWeights S K wf).factors.getD m [] = K.factors.getD m [] := by
  unfold absorbWeights
  split
  · exact absurd rfl hall
  · rename_i k
    split
    · rename_i hk
      apply absorbMode_other
      have := hmk k rfl
      obtain ⟨a, _⟩ := (inRange_iff _ _).1 hk
      omega
    · rfl
  · rfl

theorem absorbWeights_ncomp (S : Services α) (K : Ktensor α) (wf : Option WeightFactor) :
    (absorbWeights S K wf).ncomp = K.ncomp := by
  unfold absorbWeights
  split
  · simp [absorbAll, ncomp]
  · split
    · exact absorbMode_ncomp K _
    · rfl
  · rfl

/-- After `normalize` (all modes) every column of a mode that did not absorb the weights has
unit norm, or is a zero column. -/
theorem normalize_unit {S : Services α} (hS : S.Lawful) (K : Ktensor α) (wf : Option WeightFactor) (sort : Bool)
    (nt : NormType) {K' : Ktensor α} (h : normalize S K wf sort nt none = .ok K')
    (hall : wf ≠ some .all) (m : Nat) (hm : m < K.factors.length)
    (hmk : ∀ k, wf = some (.mode k) → k ≠ (m : Int)) (r : Nat) (hr : r < K.ncomp) :
    UnitOrZero (S.nrm nt) ((K'.factors.getD m []).col r) := by
  obtain ⟨hN, rfl⟩ := normalize_none_eq S K wf sort nt h
  obtain ⟨h1, _, h3⟩ := stage2_spec hS K nt hN
  obtain ⟨r', hr', e⟩ := sortComps_col hS (absorbWeights S (flipNegWeights (normalizeAllModes (S.nrm nt) K)) wf)
    sort m r (by rw [absorbWeights_ncomp, h1.ncomp]; exact hr)
  rw [e, absorbWeights_other S _ wf m hall hmk]
  exact h3 m hm r' (by rw [absorbWeights_ncomp, h1.ncomp] at hr'; exact hr')

/-- `normalize(mode=m)`: the columns of mode `m` have unit norm or are zero. -/
theorem normalize_unit_mode {S : Services α} (hS : S.Lawful) (K : Ktensor α) (wf : Option WeightFactor)
    (sort : Bool) (nt : NormType) (m : Int) {K' : Ktensor α}
    (h : normalize S K wf sort nt (some m) = .ok K') (r : Nat) (hr : r < K.ncomp) :
    UnitOrZero (S.nrm nt) ((K'.factors.getD m.toNat []).col r) := by
  obtain ⟨hm, rfl⟩ := normalize_some_eq S K wf sort nt m h
  exact normalizeMode_unit (hS.norm nt) K _ hm r hr

theorem absorbWeights_ones (S : Services α) (K : Ktensor α) (wf : Option WeightFactor)
    (hwf : wf = some .all ∨ ∃ k, wf = some (.mode k) ∧ inRange k K.ndims = true) :
    ∀ w ∈ (absorbWeights S K wf).weights, w = 1 := by
  unfold absorbWeights
  rcases hwf with rfl | ⟨k, rfl, hk⟩
  · exact absorbAll_weights S K
  · simp only [hk, if_true]
    exact absorbMode_weights K _

/-- After absorbing (into all modes or into one mode) all weights are one. -/
theorem normalize_absorb {S : Services α} (hS : S.Lawful) (K : Ktensor α) (wf : Option WeightFactor) (sort : Bool)
    (nt : NormType) {K' : Ktensor α} (h : normalize S K wf sort nt none = .ok K') (hwf : wf ≠ none) :
    ∀ w ∈ K'.weights, w = 1 := by
  have hv := normalize_wfValid S K wf sort nt none h
  obtain ⟨hN, rfl⟩ := normalize_none_eq S K wf sort nt h
  obtain ⟨h1, _, _⟩ := stage2_spec hS K nt hN
  intro w hw
  apply absorbWeights_ones S _ wf _ w (sortComps_mem hS _ sort w hw)
  match wf, hwf, hv with
  | some .all, _, _ => exact Or.inl rfl
  | some (.mode k), _, hv =>
    refine Or.inr ⟨k, rfl, ?_⟩
    rw [ndims_eq, h1.ndims, ← ndims_eq]
    exact hv

theorem normalize_sorted {S : Services α} (hS : S.Lawful) (K : Ktensor α) (wf : Option WeightFactor)
    (nt : NormType) {K' : Ktensor α} (h : normalize S K wf true nt none = .ok K') :
    K'.weights.Pairwise (· ≥ ·) := by
  obtain ⟨_, rfl⟩ := normalize_none_eq S K wf true nt h
  exact sortComps_sorted hS _

theorem normalize_accepts (S : Services α) (K : Ktensor α) (wf : Option WeightFactor) (sort : Bool) (nt : NormType)
    (mode : Option Int) (hN : 0 < K.factors.length) (hwf : wfValid wf K.ndims = true)
    (hm : ∀ m, mode = some m → inRange m K.ndims = true) :
    ∃ K', normalize S K wf sort nt mode = .ok K' := by
  unfold normalize
  cases mode with
  | some m => simp [hm m rfl, hwf]
  | none =>
    have : (K.ndims == 0) = false := by simp [ndims]; exact List.length_pos_iff.1 hN
    simp [this, hwf]

theorem normalize_rejects (S : Services α) (K : Ktensor α) (wf : Option WeightFactor) (sort : Bool) (nt : NormType)
    (mode : Option Int)
    (h : wfValid wf K.ndims = false ∨ ∃ m, mode = some m ∧ inRange m K.ndims = false) :
    normalize S K wf sort nt mode = .error .reject := by
  unfold normalize
  rcases h with h | ⟨m, rfl, hm⟩
  · simp [h]
  · by_cases hv : wfValid wf K.ndims = true <;> simp [hv, hm]

/-! ### `arrange` -/

theorem asPerm_ofNat (p : List Nat) (R : Nat) (hp : isPermOf p R = true) :
    asPerm (p.map Int.ofNat) R = some p := by
  unfold asPerm
  have e : (p.map Int.ofNat).map Int.toNat = p := by
    rw [List.map_map]
    conv_rhs => rw [← List.map_id p]
    apply List.map_congr_left
    intro x _
    simp
  rw [e, hp]
  have : ((p.map Int.ofNat).all fun k => decide (0 ≤ k)) = true := by
    rw [List.all_eq_true]
    intro k hk
    obtain ⟨x, _, rfl⟩ := List.mem_map.1 hk
    simp
  simp [this]

theorem asPerm_some {p : List Int} {R : Nat} {q : List Nat} (h : asPerm p R = some q) :
    isPermOf q R = true := by
  unfold asPerm at h
  split at h
  · rename_i hc
    injection h with h
    subst h
    simp only [Bool.and_eq_true] at hc
    exact hc.2
  · cases h

/-- `arrange(permutation=p)` for a permutation `p` of the components: accepted, reorders. -/
theorem arrange_perm_eq (S : Services α) (K : Ktensor α) (p : List Nat) (hp : isPermOf p K.ncomp = true) :
    arrange S K none (some (p.map Int.ofNat)) = .ok (K.permuteComps p) := by
  unfold arrange
  simp only [asPerm_ofNat p K.ncomp hp]

/-- whatever `arrange(permutation=p)` accepts is a permutation of the components -/
theorem arrange_perm_reparam (S : Services α) (K : Ktensor α) (p : List Int) {K' : Ktensor α}
    (h : arrange S K none (some p) = .ok K') : Reparam K K' := by
  unfold arrange at h
  simp only at h
  split at h
  · rename_i q hq
    injection h with h
    subst h
    exact permuteComps_reparam K q (asPerm_some hq)
  · cases h

theorem arrange_perm_rejects (S : Services α) (K : Ktensor α) (p : List Int)
    (h : isPermOf (p.map Int.toNat) K.ncomp = false ∨ ∃ k ∈ p, k < 0) :
    arrange S K none (some p) = .error .reject := by
  unfold arrange
  have : asPerm p K.ncomp = none := by
    unfold asPerm
    rcases h with h | ⟨k, hk, hneg⟩
    · simp [h]
    · have : (p.all fun k => decide (0 ≤ k)) = false := by
        rw [List.all_eq_false]
        exact ⟨k, hk, by simpa using hneg⟩
      simp [this]
  simp only [this]

theorem arrange_sort_eq (S : Services α) (K : Ktensor α) (wf : Option Int) {K' : Ktensor α}
    (h : arrange S K wf none = .ok K') :
    ∃ K1, normalize S K none false .two none = .ok K1 ∧
      ((wf = none ∧ K' = permuteComps K1 (S.argsort K1.weights).reverse) ∨
       (∃ k, wf = some k ∧ inRange k K.ndims = true ∧
          K' = absorbMode (permuteComps K1 (S.argsort K1.weights).reverse) k.toNat)) := by
  cases wf with
  | none =>
    simp only [arrange, Bool.not_true, Bool.false_eq_true, if_false] at h
    cases h1 : normalize S K none false .two none with
    | error e => rw [h1] at h; cases h
    | ok K1 =>
      rw [h1] at h
      injection h with h
      exact ⟨K1, rfl, Or.inl ⟨rfl, h.symm⟩⟩
  | some k =>
    simp only [arrange] at h
    by_cases hk : inRange k K.ndims = true
    · simp only [hk, Bool.not_true, Bool.false_eq_true, if_false] at h
      cases h1 : normalize S K none false .two none with
      | error e => rw [h1] at h; cases h
      | ok K1 =>
        rw [h1] at h
        injection h with h
        exact ⟨K1, rfl, Or.inr ⟨k, rfl, hk, h.symm⟩⟩
    · simp [hk] at h

theorem arrange_sort_reparam {S : Services α} (hS : S.Lawful) (K : Ktensor α) (wf : Option Int) {K' : Ktensor α}
    (h : arrange S K wf none = .ok K') : Reparam K K' := by
  obtain ⟨K1, h1, h2⟩ := arrange_sort_eq S K wf h
  have r1 := normalize_reparam hS K none false .two none h1
  have r2 := permuteComps_reparam K1 _ (isPermOf_reverse (hS.argsort_perm K1.weights))
  rcases h2 with ⟨_, rfl⟩ | ⟨k, _, hk, rfl⟩
  · exact r1.trans r2
  · exact (r1.trans r2).trans (absorbMode_reparam _ _ (by
      rw [r2.ndims, r1.ndims]; exact inRange_toNat_lt hk))

theorem arrange_sorted {S : Services α} (hS : S.Lawful) (K : Ktensor α) {K' : Ktensor α}
    (h : arrange S K none none = .ok K') : K'.weights.Pairwise (· ≥ ·) ∧ ∀ w ∈ K'.weights, 0 ≤ w := by
  obtain ⟨K1, h1, h2⟩ := arrange_sort_eq S K none h
  rcases h2 with ⟨_, rfl⟩ | ⟨k, hk, _, _⟩
  · constructor
    · simp only [permuteComps, gatherD, List.map_reverse]
      rw [List.pairwise_reverse]
      exact hS.argsort_sorted K1.weights
    · intro w hw
      exact normalize_nonneg hS K none false .two h1 w
        (mem_gatherD_of_perm _ _ (isPermOf_reverse (hS.argsort_perm K1.weights)) w hw)
  · cases hk

theorem arrange_absorb (S : Services α) (K : Ktensor α) (k : Int) {K' : Ktensor α}
    (h : arrange S K (some k) none = .ok K') : ∀ w ∈ K'.weights, w = 1 := by
  obtain ⟨K1, _, h2⟩ := arrange_sort_eq S K (some k) h
  rcases h2 with ⟨hk, _⟩ | ⟨_, _, _, rfl⟩
  · cases hk
  · exact absorbMode_weights _ _

/-- the columns of the modes that did not absorb the weights have unit 2-norm (or are zero) -/
theorem arrange_unit {S : Services α} (hS : S.Lawful) (K : Ktensor α) (wf : Option Int) {K' : Ktensor α}
    (h : arrange S K wf none = .ok K') (m : Nat) (hm : m < K.factors.length) (hmk : wf ≠ some (m : Int))
    (r : Nat) (hr : r < K.ncomp) :
    UnitOrZero (S.nrm .two) ((K'.factors.getD m []).col r) := by
  obtain ⟨K1, h1, h2⟩ := arrange_sort_eq S K wf h
  have r1 := normalize_reparam hS K none false .two none h1
  have hp := isPermOf_reverse (hS.argsort_perm K1.weights)
  have hlen : (S.argsort K1.weights).reverse.length = K1.weights.length := isPermOf_length_eq hp
  have hr1 : r < K1.weights.length := by have := r1.ncomp; simp only [ncomp] at this; rw [this]; exact hr
  have key : UnitOrZero (S.nrm .two)
      (((permuteComps K1 (S.argsort K1.weights).reverse).factors.getD m []).col r) := by
    have hm1 : m < K1.factors.length := by rw [r1.ndims]; exact hm
    simp only [permuteComps]
    rw [List.getD_eq_getElem?_getD, List.getElem?_map, List.getElem?_eq_getElem hm1]
    simp only [Option.map_some, Option.getD_some]
    rw [Mat.col_gatherCols _ _ _ (by omega)]
    have := normalize_unit hS K none false .two h1 (by simp) m hm (by simp)
      ((S.argsort K1.weights).reverse.getD r 0) (by
        have := isPermOf_getD_lt hp (by omega : r < K1.weights.length)
        have e := r1.ncomp; simp only [ncomp] at e ⊢; omega)
    simpa [List.getD_eq_getElem?_getD, List.getElem?_eq_getElem hm1] using this
  rcases h2 with ⟨_, rfl⟩ | ⟨k, rfl, hk, rfl⟩
  · exact key
  · rw [absorbMode_other _ _ _ (by
      intro e
      apply hmk
      obtain ⟨a, _⟩ := (inRange_iff _ _).1 hk
      congr 1
      omega)]
    exact key

theorem arrange_rejects_both (S : Services α) (K : Ktensor α) (k : Int) (p : List Int) :
    arrange S K (some k) (some p) = .error .reject := rfl

theorem arrange_rejects_mode (S : Services α) (K : Ktensor α) (k : Int) (hk : inRange k K.ndims = false) :
    arrange S K (some k) none = .error .reject := by
  unfold arrange
  simp [hk]

/-! ### `redistribute` -/

theorem redistribute_spec (K : Ktensor α) (mode : Int) {K' : Ktensor α} (h : redistribute K mode = .ok K') :
    Reparam K K' ∧ ∀ w ∈ K'.weights, w = 1 := by
  unfold redistribute at h
  split at h
  · rename_i hn
    injection h with h
    subst h
    exact ⟨absorbMode_reparam K _ (inRange_toNat_lt hn), absorbMode_weights K _⟩
  · cases h

theorem redistribute_accepts (K : Ktensor α) (n : Nat) (hn : n < K.factors.length) :
    redistribute K (Int.ofNat n) = .ok (K.absorbMode n) := by
  unfold redistribute
  rw [if_pos ((inRange_iff _ _).2 ⟨by simp, by simpa [ndims] using hn⟩)]
  simp

theorem redistribute_rejects (K : Ktensor α) (mode : Int) (h : mode < 0 ∨ (K.factors.length : Int) ≤ mode) :
    redistribute K mode = .error .reject := by
  unfold redistribute
  rw [if_neg]
  intro hin
  have := (inRange_iff _ _).1 hin
  simp only [ndims] at this
  omega

end field
end Ktensor
end Pyttb
