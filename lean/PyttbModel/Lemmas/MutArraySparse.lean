/-
C04, sparse class: `sptensor.__setitem__` / `sptensor.__getitem__` refine the
mutable-array specification (subscript arrays, linear keys, integer/slice regions with a
scalar) and keep the stored tensor well formed.
-/
import PyttbModel.Lemmas.MutArrayDense
import PyttbModel.Lemmas.Rows
set_option linter.unusedSimpArgs false
set_option linter.unusedVariables false
set_option linter.unusedSectionVars false

namespace Pyttb

variable {α : Type}

/-! ### `tt_ismember_rows` on subscript rows -/

theorem lastIdxOfN_eq_some {src : List (List Nat)} {r : List Nat} {j : Nat} (h : lastIdxOfN src r = some j) :
    j < src.length ∧ src[j]? = some r ∧ ∀ j', j < j' → src[j']? ≠ some r := by
  unfold lastIdxOfN at h
  split at h
  · rename_i k hk
    rw [List.findIdx?_eq_some_iff_getElem] at hk
    obtain ⟨hlt, hp, hmin⟩ := hk
    simp only [List.length_reverse] at hlt
    injection h with h
    subst h
    refine ⟨by omega, ?_, ?_⟩
    · rw [List.getElem_reverse] at hp
      have := eq_of_beq hp
      rw [List.getElem?_eq_getElem (by omega), this]
    · intro j' hj' he
      have hj'l : j' < src.length := by
        rcases Nat.lt_or_ge j' src.length with h | h
        · exact h
        · rw [List.getElem?_eq_none h] at he; cases he
      have hlt2 : src.length - 1 - j' < k := by omega
      have := hmin (src.length - 1 - j') hlt2
      rw [List.getElem_reverse] at this
      apply this
      have e : src.length - 1 - (src.length - 1 - j') = j' := by omega
      rw [List.getElem?_eq_getElem hj'l] at he
      injection he with he
      simp only [e, he, beq_self_eq_true]
  · cases h

theorem lastIdxOfN_eq_none {src : List (List Nat)} {r : List Nat} : lastIdxOfN src r = none ↔ r ∉ src := by
  unfold lastIdxOfN
  constructor
  · intro h
    split at h
    · cases h
    · rename_i hk
      rw [List.findIdx?_eq_none_iff] at hk
      intro hm
      have := hk r (by simpa using hm)
      simp at this
  · intro h
    have : (src.reverse).findIdx? (· == r) = none := by
      rw [List.findIdx?_eq_none_iff]
      intro x hx
      have hx' : x ∈ src := by simpa using hx
      simp only [beq_eq_false_iff_ne, ne_eq]
      rintro rfl; exact h hx'
    rw [this]

theorem getElem?_inj_of_nodup {β : Type} {l : List β} (hn : l.Nodup) {i j : Nat} {x : β}
    (hi : l[i]? = some x) (hj : l[j]? = some x) : i = j := by
  have hil : i < l.length := by
    rcases Nat.lt_or_ge i l.length with h | h
    · exact h
    · rw [List.getElem?_eq_none h] at hi; cases hi
  have hjl : j < l.length := by
    rcases Nat.lt_or_ge j l.length with h | h
    · exact h
    · rw [List.getElem?_eq_none h] at hj; cases hj
  rw [List.getElem?_eq_getElem hil] at hi
  rw [List.getElem?_eq_getElem hjl] at hj
  exact (List.getElem_inj hn).1 (by rw [Option.some.inj hi, Option.some.inj hj])

/-- In a duplicate-free list the location of a row is its only position. -/
theorem lastIdxOfN_of_getElem {src : List (List Nat)} (hn : src.Nodup) {r : List Nat} {k : Nat}
    (hk : src[k]? = some r) : lastIdxOfN src r = some k := by
  cases h : lastIdxOfN src r with
  | none =>
    have := lastIdxOfN_eq_none.1 h
    exact absurd (List.mem_of_getElem? hk) this
  | some j =>
    obtain ⟨_, hj, _⟩ := lastIdxOfN_eq_some h
    rw [getElem?_inj_of_nodup hn hj hk]

/-! ### fancy assignment into a value column -/

theorem scatter1_length (vals : List α) (ps : List (Nat × α)) : (scatter1 vals ps).length = vals.length := by
  unfold scatter1
  induction ps generalizing vals with
  | nil => rfl
  | cons p ps ih => simp only [List.foldl_cons]; rw [ih]; simp

/-- With distinct target positions, position `k` holds the value assigned to it, or its
old value when nothing was assigned. -/
theorem scatter1_getElem? (vals : List α) (ps : List (Nat × α)) (hn : (ps.map (·.1)).Nodup) (k : Nat)
    (hk : k < vals.length) :
    (scatter1 vals ps)[k]? = match ps.find? (fun p => p.1 == k) with
      | some p => some p.2
      | none => vals[k]? := by
  unfold scatter1
  induction ps generalizing vals with
  | nil => simp
  | cons p ps ih =>
    simp only [List.map_cons, List.nodup_cons] at hn
    simp only [List.foldl_cons, List.find?_cons]
    rw [ih (vals.set p.1 p.2) hn.2 (by simpa using hk)]
    by_cases hp : p.1 = k
    · subst hp
      have : ps.find? (fun q => q.1 == p.1) = none := by
        rw [List.find?_eq_none]
        intro q hq hqe
        simp only [beq_iff_eq] at hqe
        exact hn.1 (List.mem_map.2 ⟨q, hq, hqe⟩)
      simp [this, hk]
    · have : (p.1 == k) = false := by simpa using hp
      simp only [this]
      cases ps.find? (fun q => q.1 == k) with
      | some q => rfl
      | none => simp [List.getElem?_set, hp]

/-! ### list helpers -/

theorem zip_eq_map_range {β γ : Type} (l1 : List β) (l2 : List γ) (h : l1.length = l2.length) (d1 : β) (d2 : γ) :
    l1.zip l2 = (List.range l1.length).map fun k => (l1.getD k d1, l2.getD k d2) := by
  apply List.ext_getElem
  · simp [h]
  · intro k h1 h2
    simp only [List.length_zip, h, Nat.min_self] at h1
    simp [List.getD_eq_getElem?_getD, List.getElem?_eq_getElem (h ▸ h1), List.getElem?_eq_getElem h1]

theorem zip_self_eq {β : Type} (l : List β) : l.zip l = l.map fun r => (r, r) := by
  induction l with
  | nil => rfl
  | cons a l ih => simp [List.zip_cons_cons, ih]

theorem zip_fst_snd' {β γ : Type} (l : List (β × γ)) : (l.map (·.1)).zip (l.map (·.2)) = l := by
  induction l with
  | nil => rfl
  | cons a l ih => simp [ih]

theorem idxOf_getElem_of_nodup {β : Type} [BEq β] [LawfulBEq β] {l : List β} (hn : l.Nodup) (k : Nat) (hk : k < l.length) :
    l.idxOf l[k] = k := by
  have hm : l[k] ∈ l := List.getElem_mem hk
  have hlt : l.idxOf l[k] < l.length := List.idxOf_lt_length_iff.2 hm
  exact (List.getElem_inj hn).1 (List.getElem_idxOf hlt)

theorem nodup_filterMap_of_inj {β γ κ κ' : Type} (l : List β) (f : β → Option γ) (key : β → κ) (g : γ → κ')
    (hn : (l.map key).Nodup)
    (hinj : ∀ a ∈ l, ∀ b ∈ l, ∀ c d, f a = some c → f b = some d → g c = g d → key a = key b) :
    ((l.filterMap f).map g).Nodup := by
  induction l with
  | nil => simp
  | cons a l ih =>
    simp only [List.map_cons, List.nodup_cons] at hn
    have ih' := ih hn.2 (fun x hx y hy => hinj x (by simp [hx]) y (by simp [hy]))
    rw [List.filterMap_cons]
    cases hfa : f a with
    | none => exact ih'
    | some c =>
      simp only [List.map_cons, List.nodup_cons]
      refine ⟨?_, ih'⟩
      intro hc
      obtain ⟨d, hd, hgd⟩ := List.mem_map.1 hc
      obtain ⟨b, hb, hfb⟩ := List.mem_filterMap.1 hd
      have := hinj a (by simp) b (by simp [hb]) c d hfa hfb hgd.symm
      exact hn.1 (this ▸ List.mem_map.2 ⟨b, hb, rfl⟩)

section upd
variable [AddMonoid α] [DecidableEq α]

theorem kvSum_append (l1 l2 : List (List Nat × α)) (i : List Nat) :
    kvSum (l1 ++ l2) i = kvSum l1 i + kvSum l2 i := by
  induction l1 with
  | nil => simp [kvSum_nil]
  | cons e l1 ih =>
    rw [List.cons_append]
    by_cases he : e.1 = i
    · obtain ⟨a, b⟩ := e
      simp only at he
      subst he
      rw [kvSum_cons_eq, kvSum_cons_eq, ih, add_assoc]
    · rw [kvSum_cons_ne _ _ _ he, kvSum_cons_ne _ _ _ he, ih]

/-- Sum of the values stored under `i` in a list tabulated over positions of a
duplicate-free subscript list. -/
theorem kvSum_positions (subs1 : List (List Nat)) (hn : subs1.Nodup) (g : Nat → α) (ks : List Nat)
    (hks : ks.Nodup) (hlt : ∀ k ∈ ks, k < subs1.length) (i : List Nat) :
    kvSum (ks.map fun k => (subs1.getD k [], g k)) i =
      if i ∈ subs1 ∧ subs1.idxOf i ∈ ks then g (subs1.idxOf i) else 0 := by
  induction ks with
  | nil => simp [kvSum_nil]
  | cons k ks ih =>
    simp only [List.nodup_cons] at hks
    have hk : k < subs1.length := hlt k (by simp)
    have ih' := ih hks.2 (fun x hx => hlt x (by simp [hx]))
    simp only [List.map_cons]
    have hget : subs1.getD k [] = subs1[k] := by
      simp [List.getD_eq_getElem?_getD, List.getElem?_eq_getElem hk]
    by_cases he : subs1[k] = i
    · have hidx : subs1.idxOf i = k := by rw [← he]; exact idxOf_getElem_of_nodup hn k hk
      have hmem : i ∈ subs1 := he ▸ List.getElem_mem hk
      rw [hget, he, kvSum_cons_eq, ih', hidx]
      simp [hmem, hks.1]
    · rw [hget, kvSum_cons_ne _ _ _ he, ih']
      have hne : subs1.idxOf i ≠ k ∨ i ∉ subs1 := by
        by_cases hm : i ∈ subs1
        · left
          intro hc
          have hlt' : subs1.idxOf i < subs1.length := List.idxOf_lt_length_iff.2 hm
          have := List.getElem_idxOf hlt'
          apply he
          rw [← this]
          congr 1
          exact hc.symm
        · right; exact hm
      rcases hne with h1 | h1
      · simp [h1]
      · simp [h1]

end upd

/-! ### groups A / B / C of `_set_subscripts` -/

theorem nodup_map_on {β γ : Type} {l : List β} (f : β → γ) (hn : l.Nodup)
    (hinj : ∀ x ∈ l, ∀ y ∈ l, f x = f y → x = y) : (l.map f).Nodup := by
  induction l with
  | nil => simp
  | cons a l ih =>
    simp only [List.nodup_cons] at hn
    simp only [List.map_cons, List.nodup_cons]
    refine ⟨?_, ih hn.2 (fun x hx y hy => hinj x (by simp [hx]) y (by simp [hy]))⟩
    intro hc
    obtain ⟨b, hb, hfb⟩ := List.mem_map.1 hc
    have := hinj b (by simp [hb]) a (by simp) hfb
    exact hn.1 (this ▸ hb)

section upd2
variable [AddMonoid α] [DecidableEq α]

/-- group A selector -/
def updA (subs1 : List (List Nat)) (t : List Nat × α) : Option (Nat × α) :=
  match lastIdxOfN subs1 t.1 with
  | some k => if t.2 == 0 then none else some ((k, t.2) : Nat × α)
  | none => none

/-- group B selector -/
def updB (subs1 : List (List Nat)) (t : List Nat × α) : Option Nat :=
  match lastIdxOfN subs1 t.1 with
  | some k => if t.2 == 0 then some k else none
  | none => none

/-- group C selector -/
def updC (subs1 : List (List Nat)) (t : List Nat × α) : Bool :=
  (lastIdxOfN subs1 t.1).isNone && !(t.2 == 0)

theorem updateEntries_eq (subs1 : List (List Nat)) (vals : List α) (upd : List (List Nat × α)) :
    Sparse.updateEntries subs1 vals upd =
      (let valsA := scatter1 vals (upd.filterMap (updA subs1))
       let keep := setdiff1d (List.range subs1.length) (upd.filterMap (updB subs1))
       let add := upd.filter (updC subs1)
       ((keep.map fun k => subs1.getD k []) ++ add.map (·.1), (keep.map fun k => valsA.getD k 0) ++ add.map (·.2))) := rfl

theorem updA_some {subs1 : List (List Nat)} {t : List Nat × α} {p : Nat × α} (h : updA subs1 t = some p) :
    lastIdxOfN subs1 t.1 = some p.1 ∧ t.2 ≠ 0 ∧ p.2 = t.2 := by
  unfold updA at h
  split at h
  · next k hk =>
    split at h
    · cases h
    · next hz => cases h; exact ⟨hk, by simpa using hz, rfl⟩
  · cases h

theorem updB_some {subs1 : List (List Nat)} {t : List Nat × α} {k : Nat} (h : updB subs1 t = some k) :
    lastIdxOfN subs1 t.1 = some k ∧ t.2 = 0 := by
  unfold updB at h
  split at h
  · next k' hk =>
    split at h
    · next hz => cases h; exact ⟨hk, by simpa using hz⟩
    · cases h
  · cases h

theorem getD_eq_getElem_nil (l : List (List Nat)) (k : Nat) (hk : k < l.length) : l.getD k [] = l[k] := by
  simp [List.getD_eq_getElem?_getD, List.getElem?_eq_getElem hk]

theorem kvSum_upd_mem {upd : List (List Nat × α)} (hu : (upd.map (·.1)).Nodup) {r : List Nat} {u : α}
    (h : (r, u) ∈ upd) : kvSum upd r = u := kvSum_of_mem upd r u hu h

theorem upd_mem_of_kvSum_ne {upd : List (List Nat × α)} (hu : (upd.map (·.1)).Nodup) {r : List Nat}
    (h : kvSum upd r ≠ 0) : (r, kvSum upd r) ∈ upd := by
  by_cases hm : r ∈ upd.map (·.1)
  · obtain ⟨e, he, rfl⟩ := List.mem_map.1 hm
    rw [kvSum_of_mem upd e.1 e.2 hu he]; exact he
  · exact absurd (kvSum_of_not_mem upd r hm) h

/-- What group A leaves at a stored position: the new non-zero value of its subscript, else
the old value. -/
theorem valsA_getD (subs1 : List (List Nat)) (vals : List α) (upd : List (List Nat × α))
    (hn : subs1.Nodup) (hl : subs1.length = vals.length) (hu : (upd.map (·.1)).Nodup)
    (k : Nat) (hk : k < subs1.length) :
    (scatter1 vals (upd.filterMap (updA subs1))).getD k 0 =
      if kvSum upd subs1[k] ≠ 0 then kvSum upd subs1[k] else vals.getD k 0 := by
  have hkget : subs1[k]? = some subs1[k] := List.getElem?_eq_getElem hk
  have hpos : ((upd.filterMap (updA subs1)).map (·.1)).Nodup := by
    apply nodup_filterMap_of_inj upd (updA subs1) (·.1) (·.1) hu
    intro a _ b _ c d hc hd hcd
    obtain ⟨h1, _, _⟩ := updA_some hc
    obtain ⟨h2, _, _⟩ := updA_some hd
    have e1 := (lastIdxOfN_eq_some h1).2.1
    have e2 := (lastIdxOfN_eq_some h2).2.1
    rw [hcd] at e1
    rw [e1] at e2
    exact Option.some.inj e2
  have hkey : ∀ p ∈ upd.filterMap (updA subs1), p.1 = k → (subs1[k], p.2) ∈ upd ∧ p.2 ≠ 0 := by
    intro p hp hpk
    obtain ⟨t, ht, hft⟩ := List.mem_filterMap.1 hp
    obtain ⟨h1, h2, h3⟩ := updA_some hft
    have e1 := (lastIdxOfN_eq_some h1).2.1
    rw [hpk, hkget] at e1
    have : t.1 = subs1[k] := (Option.some.inj e1).symm
    rw [h3]
    refine ⟨?_, h2⟩
    rw [← this]; exact ht
  rw [List.getD_eq_getElem?_getD, scatter1_getElem? vals _ hpos k (hl ▸ hk)]
  by_cases hne : kvSum upd subs1[k] ≠ 0
  · rw [if_pos hne]
    have hmem := upd_mem_of_kvSum_ne hu hne
    have hin : (k, kvSum upd subs1[k]) ∈ upd.filterMap (updA subs1) := by
      rw [List.mem_filterMap]
      refine ⟨_, hmem, ?_⟩
      unfold updA
      simp only [lastIdxOfN_of_getElem hn hkget]
      have : (kvSum upd subs1[k] == 0) = false := by simpa using hne
      simp [this]
    cases hf : (upd.filterMap (updA subs1)).find? (fun p => p.1 == k) with
    | none =>
      rw [List.find?_eq_none] at hf
      exact absurd (by simp) (hf _ hin)
    | some p =>
      have hp1 := List.mem_of_find?_eq_some hf
      have hp2 : p.1 = k := by simpa using List.find?_some hf
      obtain ⟨hm, _⟩ := hkey p hp1 hp2
      simp only [Option.getD_some]
      exact nodup_keys_unique hu hm hmem
  · rw [if_neg hne]
    have hz : kvSum upd subs1[k] = 0 := by
      by_cases h0 : kvSum upd subs1[k] = 0
      · exact h0
      · exact absurd h0 hne
    cases hf : (upd.filterMap (updA subs1)).find? (fun p => p.1 == k) with
    | none => simp [List.getD_eq_getElem?_getD]
    | some p =>
      have hp1 := List.mem_of_find?_eq_some hf
      have hp2 : p.1 = k := by simpa using List.find?_some hf
      obtain ⟨hm, hnz⟩ := hkey p hp1 hp2
      rw [kvSum_upd_mem hu hm] at hz
      exact absurd hz hnz

/-- The stored positions that survive group B. -/
theorem mem_keep (subs1 : List (List Nat)) (upd : List (List Nat × α)) (hn : subs1.Nodup) (k : Nat) :
    k ∈ setdiff1d (List.range subs1.length) (upd.filterMap (updB subs1)) ↔
      k < subs1.length ∧ (subs1.getD k [], (0 : α)) ∉ upd := by
  rw [setdiff1d_of_sorted _ _ List.pairwise_lt_range, List.mem_filter, List.mem_range]
  constructor
  · rintro ⟨hk, hnot⟩
    refine ⟨hk, fun hm => ?_⟩
    have hkget : subs1[k]? = some subs1[k] := List.getElem?_eq_getElem hk
    have : k ∈ upd.filterMap (updB subs1) := by
      rw [List.mem_filterMap]
      refine ⟨_, hm, ?_⟩
      unfold updB
      rw [getD_eq_getElem_nil subs1 k hk]
      simp [lastIdxOfN_of_getElem hn hkget]
    simp [this] at hnot
  · rintro ⟨hk, hnot⟩
    refine ⟨hk, ?_⟩
    have : k ∉ upd.filterMap (updB subs1) := by
      intro hc
      obtain ⟨t, ht, hft⟩ := List.mem_filterMap.1 hc
      obtain ⟨h1, h2⟩ := updB_some hft
      have e1 := (lastIdxOfN_eq_some h1).2.1
      rw [List.getElem?_eq_getElem hk] at e1
      apply hnot
      rw [getD_eq_getElem_nil subs1 k hk, Option.some.inj e1, ← h2]
      exact ht
    simpa using this

theorem mem_updC {subs1 : List (List Nat)} {upd : List (List Nat × α)} {t : List Nat × α} :
    t ∈ upd.filter (updC subs1) ↔ t ∈ upd ∧ t.1 ∉ subs1 ∧ t.2 ≠ 0 := by
  rw [List.mem_filter]
  unfold updC
  constructor
  · rintro ⟨h1, h2⟩
    simp only [Bool.and_eq_true, Option.isNone_iff_eq_none, Bool.not_eq_true', beq_eq_false_iff_ne] at h2
    exact ⟨h1, lastIdxOfN_eq_none.1 h2.1, h2.2⟩
  · rintro ⟨h1, h2, h3⟩
    refine ⟨h1, ?_⟩
    simp only [Bool.and_eq_true, Option.isNone_iff_eq_none, Bool.not_eq_true', beq_eq_false_iff_ne]
    exact ⟨lastIdxOfN_eq_none.2 h2, h3⟩

/-- Groups A / B / C together: the stored entries afterwards are duplicate-free, hold no
new zero, and denote the old tensor overwritten by the update list. -/
theorem updateEntries_spec (subs1 : List (List Nat)) (vals : List α) (upd : List (List Nat × α))
    (hn : subs1.Nodup) (hl : subs1.length = vals.length) (hu : (upd.map (·.1)).Nodup) :
    (Sparse.updateEntries subs1 vals upd).1.length = (Sparse.updateEntries subs1 vals upd).2.length ∧
    (Sparse.updateEntries subs1 vals upd).1.Nodup ∧
    (∀ x ∈ (Sparse.updateEntries subs1 vals upd).1, x ∈ subs1 ∨ x ∈ upd.map (·.1)) ∧
    (∀ v ∈ (Sparse.updateEntries subs1 vals upd).2, v ∈ vals ∨ v ≠ 0) ∧
    ∀ i, kvSum ((Sparse.updateEntries subs1 vals upd).1.zip (Sparse.updateEntries subs1 vals upd).2) i =
      if i ∈ upd.map (·.1) then kvSum upd i else kvSum (subs1.zip vals) i := by
  rw [updateEntries_eq]
  simp only
  have hkeep := mem_keep subs1 upd hn
  generalize hK : setdiff1d (List.range subs1.length) (upd.filterMap (updB subs1)) = keep at hkeep
  have hkeep_nodup : keep.Nodup := by
    rw [← hK, setdiff1d_of_sorted _ _ List.pairwise_lt_range]
    exact List.Nodup.sublist List.filter_sublist List.nodup_range
  have hkeep_lt : ∀ k ∈ keep, k < subs1.length := fun k hk => ((hkeep k).1 hk).1
  have hvalsA := valsA_getD subs1 vals upd hn hl hu
  generalize hA : scatter1 vals (upd.filterMap (updA subs1)) = valsA at hvalsA
  have hAlen : valsA.length = vals.length := by rw [← hA]; exact scatter1_length _ _
  have hadd_nodup : ((upd.filter (updC subs1)).map (·.1)).Nodup :=
    List.Nodup.sublist (List.Sublist.map _ List.filter_sublist) hu
  refine ⟨by simp, ?_, ?_, ?_, ?_⟩
  · -- duplicate-free
    rw [List.nodup_append]
    refine ⟨?_, hadd_nodup, ?_⟩
    · apply nodup_map_on _ hkeep_nodup
      intro x hx y hy hxy
      rw [getD_eq_getElem_nil _ _ (hkeep_lt x hx), getD_eq_getElem_nil _ _ (hkeep_lt y hy)] at hxy
      exact (List.getElem_inj hn).1 hxy
    · intro a ha b hb hab
      obtain ⟨k, hk, rfl⟩ := List.mem_map.1 ha
      obtain ⟨t, ht, rfl⟩ := List.mem_map.1 hb
      have h1 := (mem_updC.1 ht).2.1
      apply h1
      rw [← hab, getD_eq_getElem_nil _ _ (hkeep_lt k hk)]
      exact List.getElem_mem _
  · -- where the subscripts come from
    intro x hx
    rcases List.mem_append.1 hx with h | h
    · obtain ⟨k, hk, rfl⟩ := List.mem_map.1 h
      left
      rw [getD_eq_getElem_nil _ _ (hkeep_lt k hk)]
      exact List.getElem_mem _
    · obtain ⟨t, ht, rfl⟩ := List.mem_map.1 h
      right
      exact List.mem_map.2 ⟨t, (mem_updC.1 ht).1, rfl⟩
  · -- no new zero
    intro v hv
    rcases List.mem_append.1 hv with h | h
    · obtain ⟨k, hk, rfl⟩ := List.mem_map.1 h
      have hk' := hkeep_lt k hk
      rw [hvalsA k hk']
      by_cases hne : kvSum upd subs1[k] ≠ 0
      · rw [if_pos hne]; right; exact hne
      · rw [if_neg hne]; left
        rw [List.getD_eq_getElem?_getD, List.getElem?_eq_getElem (hl ▸ hk')]
        exact List.getElem_mem _
    · obtain ⟨t, ht, rfl⟩ := List.mem_map.1 h
      right; exact (mem_updC.1 ht).2.2
  · -- denotation
    intro i
    rw [List.zip_append (by simp), kvSum_append, zip_fst_snd', zip_map_map]
    rw [kvSum_positions subs1 hn (fun k => valsA.getD k 0) keep hkeep_nodup hkeep_lt i]
    have hE1 : kvSum (subs1.zip vals) i =
        if i ∈ subs1 ∧ subs1.idxOf i ∈ List.range subs1.length then vals.getD (subs1.idxOf i) 0 else 0 := by
      rw [zip_eq_map_range subs1 vals hl [] 0]
      exact kvSum_positions subs1 hn (fun k => vals.getD k 0) _ List.nodup_range (by simp) i
    have hLC : kvSum (upd.filter (updC subs1)) i =
        if i ∈ upd.map (·.1) ∧ i ∉ subs1 ∧ kvSum upd i ≠ 0 then kvSum upd i else 0 := by
      by_cases hc : i ∈ upd.map (·.1) ∧ i ∉ subs1 ∧ kvSum upd i ≠ 0
      · rw [if_pos hc]
        have hm := upd_mem_of_kvSum_ne hu hc.2.2
        exact kvSum_of_mem _ _ _ hadd_nodup (mem_updC.2 ⟨hm, hc.2.1, hc.2.2⟩)
      · rw [if_neg hc]
        apply kvSum_of_not_mem
        intro hmem
        obtain ⟨t, ht, rfl⟩ := List.mem_map.1 hmem
        obtain ⟨h1, h2, h3⟩ := mem_updC.1 ht
        apply hc
        refine ⟨List.mem_map.2 ⟨t, h1, rfl⟩, h2, ?_⟩
        rw [kvSum_upd_mem hu (show (t.1, t.2) ∈ upd from h1)]
        exact h3
    rw [hLC, hE1]
    by_cases hs : i ∈ subs1
    · have hk0 : subs1.idxOf i < subs1.length := List.idxOf_lt_length_iff.2 hs
      have hget : subs1[subs1.idxOf i] = i := List.getElem_idxOf hk0
      have hgetD : subs1.getD (subs1.idxOf i) [] = i := by rw [getD_eq_getElem_nil _ _ hk0, hget]
      have hva := hvalsA _ hk0
      rw [hget] at hva
      by_cases hU : i ∈ upd.map (·.1)
      · obtain ⟨t, ht, rfl⟩ := List.mem_map.1 hU
        have hsum : kvSum upd t.1 = t.2 := kvSum_upd_mem hu (show (t.1, t.2) ∈ upd from ht)
        by_cases hz : t.2 = 0
        · have hin : (subs1.getD (subs1.idxOf t.1) [], (0 : α)) ∈ upd := by rw [hgetD, ← hz]; exact ht
          have hnk : subs1.idxOf t.1 ∉ keep := fun hc => ((hkeep _).1 hc).2 hin
          simp [hs, hU, hnk, hsum, hz]
        · have hnin : (subs1.getD (subs1.idxOf t.1) [], (0 : α)) ∉ upd := by
            rw [hgetD]; intro hc
            exact hz (nodup_keys_unique hu (show (t.1, t.2) ∈ upd from ht) hc)
          have hk : subs1.idxOf t.1 ∈ keep := (hkeep _).2 ⟨hk0, hnin⟩
          rw [hsum] at hva
          simp only [List.getD_eq_getElem?_getD, ne_eq, hz, not_false_eq_true, if_true] at hva
          simp [hs, hU, hk, hsum, hz, hva]
      · have hsum : kvSum upd i = 0 := kvSum_of_not_mem upd i hU
        have hnin : (subs1.getD (subs1.idxOf i) [], (0 : α)) ∉ upd := by
          rw [hgetD]; intro hc; exact hU (List.mem_map.2 ⟨_, hc, rfl⟩)
        have hk : subs1.idxOf i ∈ keep := (hkeep _).2 ⟨hk0, hnin⟩
        rw [hsum] at hva
        simp only [List.getD_eq_getElem?_getD, ne_eq, not_true_eq_false, if_false] at hva
        simp [hs, hU, hk, hk0, hva]
    · by_cases hU : i ∈ upd.map (·.1)
      · by_cases hz : kvSum upd i = 0
        · simp [hs, hU, hz]
        · simp [hs, hU, hz]
      · simp [hs, hU]

end upd2

/-! ### the last given value of a repeated subscript -/

theorem lastIdxOfN_cons (a : List Nat) (l : List (List Nat)) (r : List Nat) :
    lastIdxOfN (a :: l) r =
      match lastIdxOfN l r with
      | some k => some (k + 1)
      | none => if a = r then some 0 else none := by
  cases h : lastIdxOfN l r with
  | some k =>
    obtain ⟨hk, hget, hlast⟩ := lastIdxOfN_eq_some h
    have hmem : r ∈ a :: l := List.mem_cons_of_mem _ (List.mem_of_getElem? hget)
    cases h2 : lastIdxOfN (a :: l) r with
    | none => exact absurd hmem (lastIdxOfN_eq_none.1 h2)
    | some j =>
      obtain ⟨hj, hjget, hjlast⟩ := lastIdxOfN_eq_some h2
      simp only
      congr 1
      rcases Nat.lt_trichotomy j (k + 1) with hlt | heq | hgt
      · exact absurd (by simpa using hget) (hjlast (k + 1) hlt)
      · exact heq
      · cases j with
        | zero => omega
        | succ j' =>
          have : l[j']? = some r := by simpa using hjget
          exact absurd this (hlast j' (by omega))
  | none =>
    have hnot := lastIdxOfN_eq_none.1 h
    simp only
    by_cases ha : a = r
    · rw [if_pos ha]
      cases h2 : lastIdxOfN (a :: l) r with
      | none => exact absurd (by simp [ha]) (lastIdxOfN_eq_none.1 h2)
      | some j =>
        obtain ⟨_, hjget, _⟩ := lastIdxOfN_eq_some h2
        cases j with
        | zero => rfl
        | succ j' =>
          have : l[j']? = some r := by simpa using hjget
          exact absurd (List.mem_of_getElem? this) hnot
    · rw [if_neg ha]
      apply lastIdxOfN_eq_none.2
      simp only [List.mem_cons, not_or]
      exact ⟨fun h => ha h.symm, hnot⟩

/-- The value np.unique(...[::-1]) keeps for a subscript is the last one given for it. -/
theorem kvLast_zip_lastIdx [Zero α] (rows : List (List Nat)) (newvals : List α) (h : rows.length = newvals.length)
    (i : List Nat) :
    (match lastIdxOfN rows i with
      | some k => newvals.getD k 0
      | none => 0) = kvLast (rows.zip newvals) i := by
  induction rows generalizing newvals with
  | nil => simp [lastIdxOfN, kvLast]
  | cons a rows ih =>
    cases newvals with
    | nil => simp at h
    | cons v newvals =>
      have h' : rows.length = newvals.length := by simpa using h
      rw [List.zip_cons_cons, kvLast_cons, lastIdxOfN_cons, ← ih newvals h']
      have hkeys : (rows.zip newvals).map (·.1) = rows := List.map_fst_zip (Nat.le_of_eq h')
      rw [hkeys]
      cases hl : lastIdxOfN rows i with
      | some k =>
        have := List.mem_of_getElem? (lastIdxOfN_eq_some hl).2.1
        simp [this]
      | none =>
        have := lastIdxOfN_eq_none.1 hl
        simp only [this, ↓reduceIte]
        by_cases ha : a = i
        · simp [ha]
        · simp [ha]

theorem uniqueRowsSorted_mem (subs : List (List Nat)) (r : List Nat) :
    r ∈ uniqueRowsSorted subs ↔ r ∈ subs := by
  unfold uniqueRowsSorted
  rw [List.mem_eraseDups]
  exact List.mem_mergeSort

theorem eraseDups_nodup {β : Type} [BEq β] [LawfulBEq β] (l : List β) : l.eraseDups.Nodup := by
  generalize hn : l.length = n
  induction n using Nat.strongRecOn generalizing l with
  | _ n ih =>
    cases l with
    | nil => simp
    | cons a as =>
      rw [List.eraseDups_cons]
      have hlen : (as.filter fun b => !b == a).length < n := by
        subst hn
        exact Nat.lt_succ_of_le (List.length_filter_le ..)
      rw [List.nodup_cons]
      refine ⟨?_, ih _ hlen _ rfl⟩
      rw [List.mem_eraseDups, List.mem_filter]
      simp

theorem uniqueRowsSorted_nodup (subs : List (List Nat)) : (uniqueRowsSorted subs).Nodup :=
  eraseDups_nodup _

/-! ### padding the stored subscripts when the order grows -/

theorem all_zero_eq_replicate (l : List Nat) (h : l.all (· == 0) = true) : l = List.replicate l.length 0 := by
  induction l with
  | nil => rfl
  | cons a l ih =>
    simp only [List.all_cons, Bool.and_eq_true, beq_iff_eq] at h
    rw [List.length_cons, List.replicate_succ, ← ih h.2, h.1]

theorem pad_eq_iff (r i : List Nat) (n w : Nat) (hr : r.length = n) (hnw : n ≤ w) :
    r ++ List.replicate (w - n) 0 = i ↔ i.length = w ∧ (i.drop n).all (· == 0) = true ∧ i.take n = r := by
  constructor
  · rintro rfl
    refine ⟨by simp [hr]; omega, ?_, ?_⟩
    · rw [← hr, List.drop_left]; simp
    · rw [← hr, List.take_left]
  · rintro ⟨h1, h2, h3⟩
    have hd : i.drop n = List.replicate (w - n) 0 := by
      have := all_zero_eq_replicate _ h2
      rw [List.length_drop, h1] at this
      exact this
    rw [← h3, ← hd, List.take_append_drop]

theorem padSubs_nodup (subs : List (List Nat)) (n w : Nat) (hlen : ∀ r ∈ subs, r.length = n) (hn : subs.Nodup) :
    (Sparse.padSubs subs w).Nodup := by
  unfold Sparse.padSubs
  apply nodup_map_on _ hn
  intro x hx y hy hxy
  rw [hlen x hx, hlen y hy] at hxy
  have := List.append_inj_left hxy (by rw [hlen x hx, hlen y hy])
  exact this

theorem padSubs_self (subs : List (List Nat)) (n : Nat) (hlen : ∀ r ∈ subs, r.length = n) :
    Sparse.padSubs subs n = subs := by
  unfold Sparse.padSubs
  conv => rhs; rw [← List.map_id subs]
  apply List.map_congr_left
  intro r hr
  simp [hlen r hr]

theorem kvSum_pad [AddMonoid α] (subs : List (List Nat)) (vals : List α) (n w : Nat) (hnw : n ≤ w)
    (hlen : ∀ r ∈ subs, r.length = n) (i : List Nat) :
    kvSum ((Sparse.padSubs subs w).zip vals) i =
      if i.length = w ∧ (i.drop n).all (· == 0) = true then kvSum (subs.zip vals) (i.take n) else 0 := by
  induction subs generalizing vals with
  | nil => simp [Sparse.padSubs, kvSum_nil]
  | cons r subs ih =>
    cases vals with
    | nil => simp [kvSum_nil]
    | cons v vals =>
      have hr : r.length = n := hlen r (by simp)
      have ih' := ih vals (fun x hx => hlen x (by simp [hx]))
      have hpad : Sparse.padSubs (r :: subs) w = (r ++ List.replicate (w - n) 0) :: Sparse.padSubs subs w := by
        simp [Sparse.padSubs, hr]
      rw [hpad, List.zip_cons_cons, List.zip_cons_cons]
      have hiff := pad_eq_iff r i n w hr hnw
      by_cases hC : i.length = w ∧ (i.drop n).all (· == 0) = true
      · rw [if_pos hC] at ih' ⊢
        by_cases hk : r = i.take n
        · have h1 : r ++ List.replicate (w - n) 0 = i := hiff.2 ⟨hC.1, hC.2, hk.symm⟩
          rw [h1, kvSum_cons_eq, ih', hk, kvSum_cons_eq]
        · have h1 : r ++ List.replicate (w - n) 0 ≠ i := fun hc => hk (hiff.1 hc).2.2.symm
          rw [kvSum_cons_ne _ _ _ h1, ih', kvSum_cons_ne _ _ _ hk]
      · rw [if_neg hC] at ih' ⊢
        have h1 : r ++ List.replicate (w - n) 0 ≠ i := fun hc => hC ⟨(hiff.1 hc).1, (hiff.1 hc).2.1⟩
        rw [kvSum_cons_ne _ _ _ h1, ih']

/-! ### the abstraction relation of the sparse class -/

/-- A stored sparse tensor represents the abstract array: well formed, same shape, and
the sum of the values stored under a subscript is the cell. -/
structure SRel [AddMonoid α] [DecidableEq α] (S : Sparse α) (m : MArr α) : Prop where
  wf : S.WF
  shape : S.shape = m.shape
  cell : ∀ i, S.get i = m.get i

/-! ### `_set_subscripts` refines the specification -/

theorem subsValues_eq (rhs : Rhs α) (p : Nat) : Sparse.subsValues rhs p = MArr.listValues rhs p := by
  cases rhs with
  | scalar v => rfl
  | col vs =>
    cases vs with
    | nil => rfl
    | cons a t => cases t <;> rfl
  | arr T => rfl
  | tensor T => rfl

theorem maxNat_le_iff (l : List Nat) (b : Nat) : maxNat l ≤ b ↔ ∀ x ∈ l, x ≤ b := by
  constructor
  · intro h x hx; exact Nat.le_trans (le_maxNat hx) h
  · intro h
    unfold maxNat
    have : ∀ (a : Nat), a ≤ b → l.foldl max a ≤ b := by
      induction l with
      | nil => intro a ha; simpa using ha
      | cons c l ih =>
        intro a ha
        simp only [List.foldl_cons]
        exact ih (fun x hx => h x (by simp [hx])) (max a c) (Nat.max_le.2 ⟨ha, h c (by simp)⟩)
    exact this 0 (Nat.zero_le _)

theorem maxNat_congr {l1 l2 : List Nat} (h : ∀ x, x ∈ l1 ↔ x ∈ l2) : maxNat l1 = maxNat l2 := by
  apply Nat.le_antisymm
  · rw [maxNat_le_iff]; intro x hx; exact le_maxNat ((h x).1 hx)
  · rw [maxNat_le_iff]; intro x hx; exact le_maxNat ((h x).2 hx)

theorem inBounds_pad {shape s' r : List Nat} (hr : InBounds shape r) (w : Nat) (hw : s'.length = w)
    (hnw : shape.length ≤ w)
    (h1 : ∀ k, k < shape.length → shape.getD k 0 ≤ s'.getD k 0)
    (h2 : ∀ k, shape.length ≤ k → k < w → 1 ≤ s'.getD k 0) :
    InBounds s' (r ++ List.replicate (w - shape.length) 0) := by
  have hrl := hr.length_eq
  apply inBounds_of_getD
  · simp [hrl, hw]; omega
  · intro k hk
    rw [hw] at hk
    by_cases hkn : k < shape.length
    · have : (r ++ List.replicate (w - shape.length) 0).getD k 0 = r.getD k 0 := by
        simp [List.getD_eq_getElem?_getD, List.getElem?_append_left (hrl ▸ hkn)]
      rw [this]
      exact Nat.lt_of_lt_of_le (hr.getD_lt' k hkn) (h1 k hkn)
    · have hge : shape.length ≤ k := Nat.le_of_not_lt hkn
      have : (r ++ List.replicate (w - shape.length) 0).getD k 0 = 0 := by
        simp only [List.getD_eq_getElem?_getD]
        rw [List.getElem?_append_right (hrl ▸ hge)]
        simp only [List.getElem?_replicate]
        split <;> rfl
      rw [this]
      exact h2 k hge hk

section ss
variable [AddMonoid α] [DecidableEq α]

/-- Outcome of the same write on the sparse model and on the specification. -/
def RefWS (a : Except Reject (Sparse α)) (b : Except Reject (MArr α)) : Prop :=
  match a, b with
  | .ok S', .ok m' => SRel S' m'
  | .error _, .error _ => True
  | _, _ => False

theorem Sparse.subs_length {S : Sparse α} (hS : S.WF) : ∀ r ∈ S.subs, r.length = S.shape.length :=
  fun r hr => (hS.inb r hr).length_eq

theorem SRel.entries_get {S : Sparse α} {m : MArr α} (h : SRel S m) (i : List Nat) :
    kvSum (S.subs.zip S.vals) i = m.get i := h.cell i

/-- the model's new shape -/
def ssShape2 (shape : List Nat) (w : Nat) (U : List (List Nat)) : List Nat :=
  (List.range (shape ++ List.replicate (w - shape.length) 1).length).map fun k =>
    max ((shape ++ List.replicate (w - shape.length) 1).getD k 0) (maxNat (U.map fun r => r.getD k 0) + 1)

/-- the specification's new shape -/
def ssShapeSpec (shape : List Nat) (w : Nat) (rows : List (List Nat)) : List Nat :=
  (List.range w).map fun k => max (shape.getD k 0) (maxNat (rows.map fun r => r.getD k 0) + 1)

/-- the model's values of the distinct rows -/
def ssUvals (rows : List (List Nat)) (newvals : List α) (U : List (List Nat)) : List α :=
  U.map fun r => match lastIdxOfN rows r with
    | some k => newvals.getD k 0
    | none => 0

theorem Sparse.setSubscripts_cons (S : Sparse α) (r0 : List Nat) (rest : List (List Nat)) (rhs : Rhs α) :
    S.setSubscripts (r0 :: rest) rhs =
      if r0.length = 0 ∨ ((r0 :: rest).any fun r => r.length != r0.length) = true ∨ r0.length < S.shape.length then
        .error .reject
      else
        match MArr.listValues rhs (r0 :: rest).length with
        | .error e => .error e
        | .ok newvals =>
          .ok ⟨ssShape2 S.shape r0.length (uniqueRowsSorted (r0 :: rest)),
            (Sparse.updateEntries (if r0.length > S.shape.length then Sparse.padSubs S.subs r0.length else S.subs) S.vals
              ((uniqueRowsSorted (r0 :: rest)).zip (ssUvals (r0 :: rest) newvals (uniqueRowsSorted (r0 :: rest))))).1,
            (Sparse.updateEntries (if r0.length > S.shape.length then Sparse.padSubs S.subs r0.length else S.subs) S.vals
              ((uniqueRowsSorted (r0 :: rest)).zip (ssUvals (r0 :: rest) newvals (uniqueRowsSorted (r0 :: rest))))).2⟩ := by
  simp only [Sparse.setSubscripts, subsValues_eq]
  rfl

theorem MArr.write_subs_cons (m : MArr α) (r0 : List Nat) (rest : List (List Nat)) (rhs : Rhs α) :
    m.write (.subs (r0 :: rest)) rhs =
      if r0.length = 0 ∨ r0.length < m.shape.length ∨ ((r0 :: rest).any fun r => r.length != r0.length) = true then
        .error .reject
      else
        match MArr.listValues rhs (r0 :: rest).length with
        | .error e => .error e
        | .ok newvals =>
          .ok ((m.grow (ssShapeSpec m.shape r0.length (r0 :: rest))).assignAll ((r0 :: rest).zip newvals)) := by
  simp only [MArr.write, MArr.resolveWrite]
  split
  · rfl
  · cases MArr.listValues rhs (r0 :: rest).length <;> rfl

theorem ssShape_eq (shape : List Nat) (w : Nat) (rows U : List (List Nat)) (hw : shape.length ≤ w)
    (hU : ∀ r, r ∈ U ↔ r ∈ rows) : ssShape2 shape w U = ssShapeSpec shape w rows := by
  unfold ssShape2 ssShapeSpec
  have hl : (shape ++ List.replicate (w - shape.length) 1).length = w := by simp; omega
  rw [hl]
  apply List.map_congr_left
  intro k hk
  simp only [List.mem_range] at hk
  have hm : maxNat (U.map fun r => r.getD k 0) = maxNat (rows.map fun r => r.getD k 0) := by
    apply maxNat_congr
    intro x
    simp only [List.mem_map, hU]
  rw [hm]
  by_cases hkn : k < shape.length
  · have : (shape ++ List.replicate (w - shape.length) 1).getD k 0 = shape.getD k 0 := by
      simp [List.getD_eq_getElem?_getD, List.getElem?_append_left hkn]
    rw [this]
  · have hge : shape.length ≤ k := Nat.le_of_not_lt hkn
    have h1 : (shape ++ List.replicate (w - shape.length) 1).getD k 0 = 1 := by
      simp only [List.getD_eq_getElem?_getD]
      rw [List.getElem?_append_right hge]
      have : k - shape.length < w - shape.length := by omega
      simp [List.getElem?_replicate, this]
    have h2 : shape.getD k 0 = 0 := by
      simp [List.getD_eq_getElem?_getD, List.getElem?_eq_none hge]
    rw [h1, h2]; omega

theorem ssShapeSpec_props (shape : List Nat) (w : Nat) (rows : List (List Nat)) :
    (ssShapeSpec shape w rows).length = w ∧
    (∀ k, k < w → shape.getD k 0 ≤ (ssShapeSpec shape w rows).getD k 0) ∧
    (∀ k, k < w → 1 ≤ (ssShapeSpec shape w rows).getD k 0) ∧
    (∀ r ∈ rows, r.length = w → InBounds (ssShapeSpec shape w rows) r) := by
  have hget : ∀ k, k < w → (ssShapeSpec shape w rows).getD k 0 =
      max (shape.getD k 0) (maxNat (rows.map fun r => r.getD k 0) + 1) := by
    intro k hk
    unfold ssShapeSpec
    simp [List.getD_eq_getElem?_getD, List.getElem?_map, List.getElem?_range hk]
  refine ⟨by simp [ssShapeSpec], ?_, ?_, ?_⟩
  · intro k hk; rw [hget k hk]; exact Nat.le_max_left _ _
  · intro k hk; rw [hget k hk]; omega
  · intro r hr hrl
    apply inBounds_of_getD (by simp [ssShapeSpec, hrl])
    intro k hk
    have hk' : k < w := by simpa [ssShapeSpec] using hk
    rw [hget k hk']
    have : r.getD k 0 ≤ maxNat (rows.map fun r => r.getD k 0) := le_maxNat (List.mem_map.2 ⟨r, hr, rfl⟩)
    omega

/-- The padded old entries denote the enlarged old array. -/
theorem kvSum_pad_eq_grow {S : Sparse α} {m : MArr α} (h : SRel S m) (w : Nat) (s' : List Nat)
    (hnw : S.shape.length ≤ w) (hs'len : s'.length = w)
    (h1 : ∀ k, k < S.shape.length → S.shape.getD k 0 ≤ s'.getD k 0)
    (h2 : ∀ k, S.shape.length ≤ k → k < w → 1 ≤ s'.getD k 0) (i : List Nat) :
    kvSum ((Sparse.padSubs S.subs w).zip S.vals) i = (m.grow s').get i := by
  have hlenS := Sparse.subs_length h.wf
  rw [kvSum_pad S.subs S.vals S.shape.length w hnw hlenS i]
  have hmn : m.shape.length = S.shape.length := by rw [h.shape]
  by_cases hb : InBounds s' i
  · rw [MArr.grow_get m s' i hb, hmn]
    have hil : i.length = w := by rw [hb.length_eq, hs'len]
    by_cases hz : (i.drop S.shape.length).all (· == 0) = true
    · rw [if_pos ⟨hil, hz⟩, if_pos hz]
      exact h.cell _
    · rw [if_neg (fun hc => hz hc.2), if_neg hz]
  · rw [MArr.get_of_not_inBounds (m.grow s') (by exact hb)]
    by_cases hC : i.length = w ∧ (i.drop S.shape.length).all (· == 0) = true
    · rw [if_pos hC]
      by_cases hmem : i.take S.shape.length ∈ S.subs
      · exfalso
        apply hb
        have hin := h.wf.inb _ hmem
        have := inBounds_pad hin w hs'len hnw h1 h2
        have hi : i.take S.shape.length ++ List.replicate (w - S.shape.length) 0 = i :=
          (pad_eq_iff _ i S.shape.length w (hlenS _ hmem) hnw).2 ⟨hC.1, hC.2, rfl⟩
        rw [hi] at this
        exact this
      · exact Sparse.get_of_not_mem S _ hmem
    · rw [if_neg hC]

/-- `_set_subscripts`: the stored tensor afterwards is well formed and denotes the
specification's result (grow, then assign the rows in order, the last value of a repeated
row wins; a zero removes the entry). -/
theorem Sparse.setSubscripts_refines {S : Sparse α} {m : MArr α} (h : SRel S m) (rows : List (List Nat))
    (rhs : Rhs α) : RefWS (S.setSubscripts rows rhs) (m.write (.subs rows) rhs) := by
  cases rows with
  | nil => simp [Sparse.setSubscripts, MArr.write, MArr.resolveWrite, RefWS, bind, Except.bind]
  | cons r0 rest =>
    have hn : m.shape.length = S.shape.length := by rw [h.shape]
    rw [Sparse.setSubscripts_cons, MArr.write_subs_cons, hn]
    by_cases hc : r0.length = 0 ∨ ((r0 :: rest).any fun r => r.length != r0.length) = true ∨ r0.length < S.shape.length
    · have hc' : r0.length = 0 ∨ r0.length < S.shape.length ∨ ((r0 :: rest).any fun r => r.length != r0.length) = true := by
        rcases hc with h1 | h1 | h1
        · exact Or.inl h1
        · exact Or.inr (Or.inr h1)
        · exact Or.inr (Or.inl h1)
      rw [if_pos hc, if_pos hc']
      trivial
    · have hc' : ¬ (r0.length = 0 ∨ r0.length < S.shape.length ∨ ((r0 :: rest).any fun r => r.length != r0.length) = true) := by
        intro h1; apply hc
        rcases h1 with h1 | h1 | h1
        · exact Or.inl h1
        · exact Or.inr (Or.inr h1)
        · exact Or.inr (Or.inl h1)
      rw [if_neg hc, if_neg hc']
      simp only [not_or] at hc
      obtain ⟨hw0, hrag, hwn⟩ := hc
      cases hv : MArr.listValues rhs (r0 :: rest).length with
      | error e => trivial
      | ok newvals =>
        show SRel _ _
        generalize hrows : r0 :: rest = rows at *
        have hraglen : ∀ r ∈ rows, r.length = r0.length := by
          intro r hr
          rw [Bool.not_eq_true, List.any_eq_false] at hrag
          have := hrag r hr
          simpa using this
        have hnw : S.shape.length ≤ r0.length := Nat.le_of_not_lt hwn
        have hvlen : newvals.length = rows.length := listValues_length hv
        have hlenS := Sparse.subs_length h.wf
        have hsubs1 : (if r0.length > S.shape.length then Sparse.padSubs S.subs r0.length else S.subs) =
            Sparse.padSubs S.subs r0.length := by
          split
          · rfl
          · have : r0.length = S.shape.length := by omega
            rw [this, padSubs_self S.subs _ hlenS]
        rw [hsubs1]
        generalize hU : uniqueRowsSorted rows = U
        have hUmem : ∀ r, r ∈ U ↔ r ∈ rows := by intro r; rw [← hU]; exact uniqueRowsSorted_mem rows r
        have hUnodup : U.Nodup := by rw [← hU]; exact uniqueRowsSorted_nodup rows
        rw [ssShape_eq S.shape r0.length rows U hnw hUmem, ← h.shape]
        obtain ⟨hs'len, hs'1, hs'2, hs'in⟩ := ssShapeSpec_props S.shape r0.length rows
        generalize ssShapeSpec S.shape r0.length rows = s' at *
        have hrows_in : ∀ r ∈ rows, InBounds s' r := fun r hr => hs'in r hr (hraglen r hr)
        -- the update list: each distinct row with its last value
        have hupd : U.zip (ssUvals rows newvals U) = U.map fun r => (r, kvLast (rows.zip newvals) r) := by
          unfold ssUvals
          rw [List.zip_map_right]
          rw [zip_self_eq, List.map_map]
          apply List.map_congr_left
          intro r _
          simp only [Function.comp, Prod.map, id]
          rw [kvLast_zip_lastIdx rows newvals hvlen.symm r]
        rw [hupd]
        have hkeys : (U.map fun r => (r, kvLast (rows.zip newvals) r)).map (·.1) = U := by
          rw [List.map_map]; exact List.map_id U
        have hpadlen : (Sparse.padSubs S.subs r0.length).length = S.vals.length := by
          simp [Sparse.padSubs, h.wf.len]
        obtain ⟨e1, e2, e3, e4, e5⟩ := updateEntries_spec (Sparse.padSubs S.subs r0.length) S.vals
          (U.map fun r => (r, kvLast (rows.zip newvals) r))
          (padSubs_nodup S.subs _ _ hlenS h.wf.nodup) hpadlen (by rw [hkeys]; exact hUnodup)
        rw [hkeys] at e3 e5
        generalize Sparse.updateEntries (Sparse.padSubs S.subs r0.length) S.vals
          (U.map fun r => (r, kvLast (rows.zip newvals) r)) = ent at *
        have hzipkeys : (rows.zip newvals).map (·.1) = rows := List.map_fst_zip (Nat.le_of_eq hvlen.symm)
        refine ⟨⟨e1, ?_, e2, ?_⟩, ?_, ?_⟩
        · -- in bounds
          intro x hx
          show InBounds s' x
          rcases e3 x hx with h1 | h1
          · unfold Sparse.padSubs at h1
            obtain ⟨r, hr, rfl⟩ := List.mem_map.1 h1
            rw [hlenS r hr]
            exact inBounds_pad (h.wf.inb r hr) r0.length hs'len hnw
              (fun k hk => hs'1 k (by omega)) (fun k _ hk => hs'2 k hk)
          · exact hrows_in x ((hUmem x).1 h1)
        · -- no stored zero
          intro v hv'
          rcases e4 v hv' with h1 | h1
          · exact h.wf.nz v h1
          · simpa using h1
        · -- shape
          show s' = ((m.grow s').assignAll (rows.zip newvals)).shape
          rw [MArr.assignAll_shape, MArr.grow_shape]
        · -- cells
          intro i
          show kvSum (ent.1.zip ent.2) i = _
          rw [e5 i]
          have hgrow := kvSum_pad_eq_grow h r0.length s' hnw hs'len (fun k hk => hs'1 k (by omega))
            (fun k _ hk => hs'2 k hk) i
          by_cases hb : InBounds s' i
          · rw [MArr.assignAll_get _ _ i (by rw [MArr.grow_shape]; exact hb), hzipkeys]
            by_cases hi : i ∈ rows
            · rw [if_pos ((hUmem i).2 hi), if_pos hi]
              rw [kvSum_map U _ i hUnodup, if_pos ((hUmem i).2 hi)]
            · rw [if_neg (fun hc => hi ((hUmem i).1 hc)), if_neg hi, hgrow]
          · have hi : i ∉ rows := fun hc => hb (hrows_in i hc)
            rw [if_neg (fun hc => hi ((hUmem i).1 hc)), hgrow]
            rw [MArr.get_of_not_inBounds (m.grow s') (by exact hb)]
            rw [MArr.get_of_not_inBounds _ (by rw [MArr.assignAll_shape, MArr.grow_shape]; exact hb)]

/-! ### reads through `extract` -/

theorem extract_lookup {S : Sparse α} (hS : S.WF) (r : List Nat) : S.lookupIx r = S.get r := by
  unfold Sparse.lookupIx
  cases hl : lastIdxOfN S.subs r with
  | none => exact (Sparse.get_of_not_mem S r (lastIdxOfN_eq_none.1 hl)).symm
  | some k =>
    obtain ⟨hk, hget, _⟩ := lastIdxOfN_eq_some hl
    have hk' : k < S.vals.length := hS.len ▸ hk
    have hmem : (r, S.vals.getD k 0) ∈ S.subs.zip S.vals := by
      rw [List.mem_iff_getElem?]
      refine ⟨k, ?_⟩
      rw [List.getElem?_zip_eq_some]
      refine ⟨hget, ?_⟩
      simp [List.getD_eq_getElem?_getD, List.getElem?_eq_getElem hk']
    symm
    apply kvSum_of_mem _ _ _ _ hmem
    rw [List.map_fst_zip (Nat.le_of_eq hS.len)]
    exact hS.nodup

theorem Sparse.extract_eq {S : Sparse α} {m : MArr α} (h : SRel S m) (rows : List (List Nat)) :
    S.extract rows = if rows.any (fun r => !inBounds m.shape r) then .error .reject else .ok (rows.map m.get) := by
  unfold Sparse.extract
  rw [h.shape]
  split
  · rfl
  · congr 1
    apply List.map_congr_left
    intro r _
    rw [extract_lookup h.wf r, h.cell r]

theorem sp_subsubsref_eq (vals : List α) : (Sparse.subsubsref vals).toReadOut = MArr.vecOut vals := by
  cases vals with
  | nil => rfl
  | cons a t => cases t <;> rfl

/-- Reading an array of full subscripts from a sparse tensor. -/
theorem Sparse.getItem_subs {S : Sparse α} {m : MArr α} (h : SRel S m) (rows : List (List Nat)) :
    (S.getItem (.subs rows)).map SpReadOut.toReadOut = m.read (.subs rows) := by
  simp only [Sparse.getItem, MArr.read, Sparse.extract_eq h]
  cases rows with
  | nil => rfl
  | cons r0 rest =>
    simp only [List.isEmpty_cons, Bool.false_eq_true, ↓reduceIte, false_or, bind, Except.bind]
    by_cases hb : ((r0 :: rest).any fun r => !inBounds m.shape r) = true
    · rw [if_pos hb, if_pos hb]; rfl
    · rw [if_neg hb, if_neg hb]
      simp only [Except.map, sp_subsubsref_eq]

/-- Reading through linear indices from a sparse tensor (an integer index must not lie
below `-cells`: the code wraps a negative integer twice). -/
theorem Sparse.getItem_linear {S : Sparse α} {m : MArr α} (h : SRel S m) (hs : S.shape ≠ [])
    (key : Key) (hk : ∀ rows, key ≠ .subs rows) (hk' : ∀ parts, key ≠ .region parts)
    (hlin : ∀ i, key = .lin i → -(numel S.shape : Int) ≤ i) :
    (S.getItem key).map SpReadOut.toReadOut = m.read key := by
  have tail : ∀ idx : List Int,
      ((do let subs ← ttInd2sub S.shape idx
           let vals ← S.extract subs
           Except.ok (Sparse.subsubsref vals) : Except Reject (SpReadOut α)).map SpReadOut.toReadOut) =
      (do let targets ← MArr.linTargets S.shape idx
          Except.ok (MArr.vecOut (targets.map m.get))) := by
    intro idx
    rw [ttInd2sub_eq_linTargets hs]
    cases ht : MArr.linTargets S.shape idx with
    | error e => rfl
    | ok t =>
      simp only [bind, Except.bind, Sparse.extract_eq h]
      have : (t.any fun r => !inBounds m.shape r) = false := by
        rw [List.any_eq_false]
        intro x hx
        have := linTargets_inBounds ht x hx
        rw [h.shape] at this
        simp [(inBounds_iff _ _).2 this]
      simp [this, Except.map, sp_subsubsref_eq]
  cases key with
  | subs rows => exact absurd rfl (hk rows)
  | region parts => exact absurd rfl (hk' parts)
  | lin i =>
    have hi := hlin i rfl
    simp only [Sparse.getItem, MArr.read, MArr.linIdx, ← h.shape, bind, Except.bind, pure, Except.pure]
    have := tail [i]
    simp only [bind, Except.bind] at this
    rw [← this]
    -- the first wrap of the code is the only one
    have hw : ttInd2sub S.shape [if i < 0 then i + (numel S.shape : Int) else i] = ttInd2sub S.shape [i] := by
      unfold ttInd2sub
      by_cases hneg : i < 0
      · have h2 : ¬ (i + (numel S.shape : Int) < 0) := by omega
        simp [hneg, h2]
      · simp [hneg]
    rw [hw]
  | linList is =>
    simp only [Sparse.getItem, MArr.read, MArr.linIdx, ← h.shape, bind, Except.bind, pure, Except.pure]
    have := tail is
    simp only [bind, Except.bind] at this
    exact this
  | linSlice a b c =>
    simp only [Sparse.getItem, MArr.read, MArr.linIdx, ← h.shape, cells_eq_numel hs]
    cases pySlice (numel S.shape) a b c with
    | error e => rfl
    | ok l =>
      have := tail (l.map Int.ofNat)
      simp only [bind, Except.bind] at this ⊢
      exact this

/-! ### linear-index writes on a 1-way sparse tensor -/

/-- On a 1-way array an in-range linear index is the subscript: the two writes of the
specification coincide. -/
theorem MArr.write_lin_eq_subs (m : MArr α) (e : Nat) (hs : m.shape = [e]) (i : Int) (h0 : 0 ≤ i)
    (h1 : i < (e : Int)) (rhs : Rhs α) : m.write (.lin i) rhs = m.write (.subs [[i.toNat]]) rhs := by
  have hcells : MArr.cells [e] = e := by simp [MArr.cells, numel]
  have hneg : ¬ i < 0 := by omega
  have hmod : i.toNat % e = i.toNat := Nat.mod_eq_of_lt (by omega)
  have hmax : max e (maxNat [i.toNat] + 1) = e := by
    have : maxNat [i.toNat] = i.toNat := by simp [maxNat]
    rw [this]; omega
  simp only [MArr.write, MArr.resolveWrite, MArr.linIdx, MArr.linTargets, MArr.linTarget, hs, hcells,
    List.mapM_cons, List.mapM_nil, bind, Except.bind, pure, Except.pure, hneg, if_false, h0, h1, and_self,
    if_true, ind2sub, hmod, List.length_cons, List.length_nil]
  have hc : ¬ ((0 + 1 = 0) ∨ (0 + 1 < 0 + 1) ∨ ([[i.toNat]].any fun r => r.length != 0 + 1) = true) := by simp
  simp only [hc, if_false]
  cases MArr.listValues rhs (0 + 1) with
  | error err => rfl
  | ok vals =>
    simp only [List.range_succ, List.range_zero, List.nil_append, List.map_cons, List.map_nil,
      List.getD_cons_zero, hmax]

theorem Sparse.setItem_subs (S : Sparse α) (rows : List (List Nat)) (rhs : Rhs α)
    (hr : rhs.isEmptyValue = false) : S.setItem (.subs rows) rhs = S.setSubscripts rows rhs := by
  simp only [Sparse.setItem, hr, Bool.and_false, Bool.false_eq_true, ↓reduceIte]

theorem Sparse.setItem_lin (S : Sparse α) (i : Int) (rhs : Rhs α) (hr : rhs.isEmptyValue = false) :
    S.setItem (.lin i) rhs =
      if S.shape.length = 1 ∧ 0 ≤ i then S.setSubscripts [[i.toNat]] rhs else .error .reject := by
  simp only [Sparse.setItem, hr, Bool.and_false, Bool.false_eq_true, ↓reduceIte]

theorem Sparse.setItem_linSlice (S : Sparse α) (a b c : Option Int) (rhs : Rhs α) (hr : rhs.isEmptyValue = false) :
    S.setItem (.linSlice a b c) rhs =
      (if S.shape.length = 1 then
        (pySlice (S.shape.getD 0 0) a b c >>= fun l => S.setSubscripts (l.map fun i => [i]) rhs)
      else .error .reject) := by
  simp only [Sparse.setItem, hr, Bool.and_false, Bool.false_eq_true, ↓reduceIte]

theorem Sparse.setItem_region_scalar (S : Sparse α) (parts : List RPart) (v : α) :
    S.setItem (.region parts) (.scalar v) =
      (Sparse.rewriteNeg S.shape parts >>= fun parts' => Sparse.setSubtensorScalar S parts' v) := by
  simp only [Sparse.setItem, Rhs.isEmptyValue, Bool.and_false, Bool.false_eq_true, ↓reduceIte]

theorem cells_1d (e : Nat) : MArr.cells [e] = e := by simp [MArr.cells, numel]

theorem linTarget_1d (e a : Nat) (ha : a < e) : MArr.linTarget [e] (Int.ofNat a) = .ok [a] := by
  unfold MArr.linTarget
  simp only [cells_1d]
  have h1 : ¬ (Int.ofNat a < 0) := by simp
  rw [if_neg h1]
  have h2 : 0 ≤ Int.ofNat a ∧ Int.ofNat a < (e : Int) := by constructor <;> simp <;> omega
  rw [if_pos h2]
  simp [ind2sub, Nat.mod_eq_of_lt ha]

theorem linTargets_1d (e : Nat) (l : List Nat) (hl : ∀ i ∈ l, i < e) :
    MArr.linTargets [e] (l.map Int.ofNat) = .ok (l.map fun i => [i]) := by
  unfold MArr.linTargets
  induction l with
  | nil => rfl
  | cons a l ih =>
    have ha : a < e := hl a (by simp)
    have ih' := ih (fun i hi => hl i (by simp [hi]))
    rw [List.map_cons, List.mapM_cons, ih', linTarget_1d e a ha]
    rfl

theorem ssShapeSpec_1d (e : Nat) (rows : List (List Nat)) (h : ∀ r ∈ rows, r.getD 0 0 < e) (he : 0 < e) :
    ssShapeSpec [e] 1 rows = [e] := by
  unfold ssShapeSpec
  have : maxNat (rows.map fun r => r.getD 0 0) ≤ e - 1 := by
    rw [maxNat_le_iff]
    intro y hy
    obtain ⟨r, hr, rfl⟩ := List.mem_map.1 hy
    have := h r hr
    omega
  simp only [List.range_succ, List.range_zero, List.nil_append, List.map_cons, List.map_nil, List.getD_cons_zero]
  congr 1
  omega

/-- On a 1-way array a non-empty linear slice is a list of subscripts. -/
theorem MArr.write_linSlice_eq_subs (m : MArr α) (e : Nat) (hs : m.shape = [e]) (a b c : Option Int)
    (l : List Nat) (hl : pySlice e a b c = .ok l) (hne : l ≠ []) (rhs : Rhs α) :
    m.write (.linSlice a b c) rhs = m.write (.subs (l.map fun i => [i])) rhs := by
  have hlt := pySlice_lt hl
  have hL : m.write (.linSlice a b c) rhs =
      (match MArr.listValues rhs l.length with
       | .error err => .error err
       | .ok vals => .ok ((m.grow [e]).assignAll ((l.map fun i => [i]).zip vals))) := by
    simp only [MArr.write, MArr.resolveWrite, MArr.linIdx, hs, cells_1d, hl, bind, Except.bind, pure, Except.pure]
    rw [linTargets_1d e l hlt]
    simp only [List.length_map]
    cases MArr.listValues rhs l.length <;> rfl
  rw [hL]
  cases l with
  | nil => exact absurd rfl hne
  | cons x xs =>
    have hx : x < e := hlt x (by simp)
    rw [List.map_cons, MArr.write_subs_cons, hs]
    have hc : ¬ (([x] : List Nat).length = 0 ∨ ([x] : List Nat).length < [e].length ∨
        (([x] :: xs.map fun i => [i]).any fun r => r.length != ([x] : List Nat).length) = true) := by
      simp
    rw [if_neg hc]
    have hshape : ssShapeSpec [e] ([x] : List Nat).length ([x] :: xs.map fun i => [i]) = [e] := by
      apply ssShapeSpec_1d _ _ _ (by omega)
      intro r hr
      rcases List.mem_cons.1 hr with rfl | hr'
      · simpa using hx
      · obtain ⟨i, hi, rfl⟩ := List.mem_map.1 hr'
        simpa using hlt i (by simp [hi])
    rw [hshape]
    simp only [List.length_cons, List.length_map]

end ss

end Pyttb
