/-
Lemmas for C11 (CP-APR), part 3: every step keeps the rank and the shape of the model.
-/
import PyttbModel.Lemmas.CpAprLoops
set_option linter.unusedSectionVars false
set_option linter.unusedVariables false
namespace Pyttb.CpApr
open Pyttb.CpApr.Gen

variable {α : Type} [Field α] [LinearOrder α] [IsStrictOrderedRing α]

/-- An `I × R` matrix. -/
def IsMat (I R : Nat) (A : Mat α) : Prop := A.length = I ∧ ∀ row ∈ A, row.length = R

theorem isMat_tab (I R : Nat) (f : Nat → Nat → α) : IsMat I R (tab I R f) :=
  ⟨tab_length I R f, tab_row_length⟩

theorem map_length_set {fs : List (Mat α)} {n : Nat} {B : Mat α}
    (h : B.length = (fs.getD n []).length) :
    (fs.set n B).map List.length = fs.map List.length := by
  rw [List.map_set]
  by_cases hn : n < fs.length
  · have e : fs.getD n [] = fs[n] := by
      rw [List.getD_eq_getElem?_getD, List.getElem?_eq_getElem hn]; rfl
    rw [h, e]
    apply List.ext_getElem (by simp)
    intro i h1 h2
    rw [List.getElem_set]
    split
    · next hi => subst hi; simp
    · rfl
  · rw [List.set_eq_of_length_le (by simpa using Nat.le_of_not_lt hn)]

theorem factor_isMat {shape : List Nat} {R : Nat} {K : Ktensor α} (h : ShapeK shape R K) (n : Nat) :
    ∀ row ∈ factor K n, row.length = R := by
  unfold factor
  rw [List.getD_eq_getElem?_getD]
  cases hk : K.factors[n]? with
  | none => intro row hrow; simp at hrow
  | some A => exact h.2.2 A (List.mem_of_getElem? hk)

/-- Replacing factor `n` by a matrix with the same number of rows and `R` columns, and the
weights by `R` numbers, keeps the shape. -/
theorem shapeK_set {shape : List Nat} {R : Nat} {K : Ktensor α} (h : ShapeK shape R K)
    {w : List α} (hw : w.length = R) {n : Nat} {B : Mat α}
    (hB : B.length = (factor K n).length) (hrows : ∀ row ∈ B, row.length = R) :
    ShapeK shape R ⟨w, K.factors.set n B⟩ := by
  refine ⟨hw, ?_, ?_⟩
  · show (K.factors.set n B).map List.length = shape
    rw [map_length_set hB]; exact h.2.1
  · intro A hA
    rcases List.mem_or_eq_of_mem_set hA with h' | h'
    · exact h.2.2 A h'
    · exact h' ▸ hrows

section ktensor
variable (log : α → α)

theorem redistribute_shape {shape : List Nat} {R : Nat} {K : Ktensor α} (h : ShapeK shape R K) (n : Nat) :
    ShapeK shape R (redistribute K n) := by
  unfold redistribute
  exact shapeK_set h (by simp [h.1]) (tab_length _ _ _) (h.1 ▸ tab_row_length)

theorem normalizeMode_shape (o : NumOps α) {shape : List Nat} {R : Nat} {K : Ktensor α}
    (h : ShapeK shape R K) (n : Nat) : ShapeK shape R (normalizeMode o K n) := by
  unfold normalizeMode
  exact shapeK_set h (by simp [h.1]) (tab_length _ _ _) (h.1 ▸ tab_row_length)

theorem normalizeAll_shape (o : NumOps α) {shape : List Nat} {R : Nat} {K : Ktensor α}
    (h : ShapeK shape R K) : ShapeK shape R (normalizeAll o K) := by
  unfold normalizeAll
  exact foldl_inv (ShapeK shape R) _ (fun s n hs => normalizeMode_shape o hs n) _ _ h

theorem flipNeg_shape (o : NumOps α) {shape : List Nat} {R : Nat} {K : Ktensor α}
    (h : ShapeK shape R K) : ShapeK shape R (flipNeg o K) := by
  unfold flipNeg
  exact shapeK_set h (by simp [h.1]) (tab_length _ _ _) (h.1 ▸ tab_row_length)

theorem normalize1_shape (o : NumOps α) {shape : List Nat} {R : Nat} {K : Ktensor α}
    (h : ShapeK shape R K) : ShapeK shape R (normalize1 o K) :=
  flipNeg_shape o (normalizeAll_shape o h)

theorem absorb0_shape {shape : List Nat} {R : Nat} {K : Ktensor α}
    (h : ShapeK shape R K) : ShapeK shape R (absorb0 K) := by
  unfold absorb0
  exact shapeK_set h (by simp [h.1]) (tab_length _ _ _) (h.1 ▸ tab_row_length)

theorem arrange_shape {shape : List Nat} {R : Nat} {K : Ktensor α} (h : ShapeK shape R K)
    (p : List Nat) (hp : p.length = R) : ShapeK shape R (arrange K p) := by
  unfold arrange
  refine ⟨by simp [hp], ?_, ?_⟩
  · show (K.factors.map _).map List.length = shape
    rw [List.map_map, ← h.2.1]
    apply List.map_congr_left
    intro A _
    simp
  · intro A hA row hrow
    simp only [List.mem_map] at hA
    obtain ⟨B, _, rfl⟩ := hA
    simp only [List.mem_map] at hrow
    obtain ⟨row0, _, rfl⟩ := hrow
    simp [hp]

theorem normalizeSort_shape (o : NumOps α) (sortPerm : List α → List Nat)
    (hsp : ∀ w, (sortPerm w).length = w.length) {shape : List Nat} {R : Nat} {K : Ktensor α}
    (h : ShapeK shape R K) : ShapeK shape R (normalizeSort o sortPerm K) := by
  unfold normalizeSort
  have h1 := normalize1_shape o h
  simp only
  split
  · exact arrange_shape h1 _ (by rw [hsp, h1.1])
  · exact h1

theorem normalizeAbsorb0_shape (o : NumOps α) {shape : List Nat} {R : Nat} {K : Ktensor α}
    (h : ShapeK shape R K) : ShapeK shape R (normalizeAbsorb0 o K) :=
  absorb0_shape (normalize1_shape o h)

end ktensor

section mu

theorem muInnerLoop_shape (o : NumOps α) (stoptol : α) (phi : Mat α → Mat α) (I R : Nat) :
    ∀ (fuel : Nat) (s : MuInner α), IsMat I R s.A → IsMat I R (muInnerLoop o stoptol phi I R fuel s).A := by
  intro fuel
  induction fuel with
  | zero => intro s h; exact h
  | succ fuel ih =>
    intro s h
    simp only [muInnerLoop]
    split
    · exact h
    · exact ih _ (isMat_tab I R _)

theorem bump_shape (o : NumOps α) (cfg : Cfg α) (iterPos : Bool) {shape : List Nat} {R : Nat}
    {M : Ktensor α} (h : ShapeK shape R M) (Phin : Mat α) (n : Nat) :
    ShapeK shape R (bump o cfg iterPos M Phin n).1 := by
  unfold bump
  simp only
  split
  · unfold setFactor
    exact shapeK_set h h.1 (tab_length _ _ _) (h.1 ▸ tab_row_length)
  · exact h

theorem muMode_shape (o : NumOps α) (cfg : Cfg α) (X : Data α) (iterPos : Bool) {shape : List Nat}
    {R : Nat} (s : MuIt α) (n : Nat) (s' : MuIt α) (hs : ShapeK shape R s.M)
    (h : muMode o cfg X iterPos s n = .ok s') : ShapeK shape R s'.M := by
  unfold muMode at h
  simp only at h
  split at h
  · cases h
  · next md hmd =>
    cases h
    have hM2 := redistribute_shape (bump_shape o cfg iterPos hs (s.Phi.getD n []) n) n
    apply normalizeMode_shape
    unfold setFactor
    have hl := muInnerLoop_shape o cfg.stoptol
      (fun A => phiOf o cfg.eps md (redistribute (bump o cfg iterPos s.M (s.Phi.getD n []) n).1 n) n A
        (factor (redistribute (bump o cfg iterPos s.M (s.Phi.getD n []) n).1 n) n).length
        (redistribute (bump o cfg iterPos s.M (s.Phi.getD n []) n).1 n).weights.length)
      (factor (redistribute (bump o cfg iterPos s.M (s.Phi.getD n []) n).1 n) n).length
      (redistribute (bump o cfg iterPos s.M (s.Phi.getD n []) n).1 n).weights.length cfg.maxinner
      ⟨factor (redistribute (bump o cfg iterPos s.M (s.Phi.getD n []) n).1 n) n, s.Phi.getD n [],
        vget s.kktMode n, s.conv, 0⟩
      ⟨rfl, hM2.1 ▸ factor_isMat hM2 n⟩
    exact shapeK_set hM2 hM2.1 hl.1 (hM2.1 ▸ hl.2)

theorem muOuter_shape (o : NumOps α) (cfg : Cfg α) (X : Data α) {shape : List Nat} {R : Nat}
    (s s' : MuSt α) (hs : ShapeK shape R s.M) (h : muOuter o cfg X s = .ok s') : ShapeK shape R s'.M := by
  unfold muOuter at h
  split at h
  · cases h; exact hs
  · split at h
    · cases h
    · next it hit =>
      cases h
      exact foldE_inv (fun a : MuIt α => ShapeK shape R a.M) _
        (fun a x a' ha hh => muMode_shape o cfg X _ a x a' ha hh) _ _ _ hs hit

end mu

section newton

/-- Shape part of what the loop over the rows preserves. -/
def RowsShape (I R : Nat) (acc : RowsAcc α) : Prop := IsMat I R acc.A

theorem isMat_set {I R : Nat} {A : Mat α} (h : IsMat I R A) (jj : Nat) {row : List α}
    (hr : jj < A.length → row.length = R) : IsMat I R (A.set jj row) := by
  refine ⟨by simp [h.1], ?_⟩
  by_cases hj : jj < A.length
  · intro x hx
    rcases List.mem_or_eq_of_mem_set hx with h' | h'
    · exact h.2 x h'
    · exact h' ▸ hr hj
  · rw [List.set_eq_of_length_le (Nat.le_of_not_lt hj)]
    exact h.2

variable (log : α → α)

theorem nwRow_shape (c : Consts α) (cfg : Cfg α) (alg : Alg) (dir : Dir α) (md : ModeData α)
    (K : Ktensor α) (iteration n : Nat) (I : Nat) (acc : RowsAcc α) (jj : Nat) (acc' : RowsAcc α)
    (hacc : IsMat I K.weights.length acc.A)
    (h : nwRow (NumOps.ofField log) c cfg alg dir md K iteration n acc jj = .ok acc') :
    IsMat I K.weights.length acc'.A := by
  unfold nwRow at h
  simp only at h
  split at h
  · cases h
    exact isMat_set hacc jj (fun _ => by simp)
  · split at h
    · cases h
    · next r hr =>
      cases h
      apply isMat_set hacc jj
      intro hj
      have hs0 : (acc.A.getD jj []).length = K.weights.length := by
        rw [List.getD_eq_getElem?_getD, List.getElem?_eq_getElem hj]
        exact hacc.2 _ (List.getElem_mem hj)
      cases alg with
      | pqnr => exact pqnrRow_length log c cfg _ _ _ _ _ _ _ _ r hs0 hr
      | mu => exact pdnrRow_length log c cfg _ _ _ _ _ _ _ _ r hs0 hr
      | pdnr => exact pdnrRow_length log c cfg _ _ _ _ _ _ _ _ r hs0 hr

theorem nwMode_shape (c : Consts α) (cfg : Cfg α) (alg : Alg) (dir : Dir α) (X : Data α)
    (iteration : Nat) {shape : List Nat} {R : Nat} (s : NwIt α) (n : Nat) (s' : NwIt α)
    (hs : ShapeK shape R s.M)
    (h : nwMode (NumOps.ofField log) c cfg alg dir X iteration s n = .ok s') : ShapeK shape R s'.M := by
  unfold nwMode at h
  simp only at h
  split at h
  · cases h
  · next md hmd =>
    split at h
    · cases h
    · next r hr =>
      cases h
      have hM1 := redistribute_shape hs n
      have hacc : IsMat (factor (redistribute s.M n) n).length (redistribute s.M n).weights.length r.A :=
        foldE_inv (fun a : RowsAcc α => IsMat (factor (redistribute s.M n) n).length
            (redistribute s.M n).weights.length a.A) _
          (fun a x a' ha hh => nwRow_shape log c cfg alg dir md _ iteration n _ a x a' ha hh)
          _ _ _ ⟨rfl, hM1.1 ▸ factor_isMat hM1 n⟩ hr
      apply normalizeMode_shape
      unfold setFactor
      exact shapeK_set hM1 hM1.1 hacc.1 (hM1.1 ▸ hacc.2)

theorem nwOuter_shape (c : Consts α) (cfg : Cfg α) (alg : Alg) (dir : Dir α) (X : Data α)
    {shape : List Nat} {R : Nat} (s s' : NwSt α) (hs : ShapeK shape R s.M)
    (h : nwOuter (NumOps.ofField log) c cfg alg dir X s = .ok s') : ShapeK shape R s'.M := by
  unfold nwOuter at h
  split at h
  · cases h; exact hs
  · split at h
    · cases h
    · next it hit =>
      cases h
      exact foldE_inv (fun a : NwIt α => ShapeK shape R a.M) _
        (fun a x a' ha hh => nwMode_shape log c cfg alg dir X _ a x a' ha hh) _ _ _ hs hit

theorem zeroRowPatch_shape (o : NumOps α) (c : Consts α) {shape : List Nat} {R : Nat} {K : Ktensor α}
    (h : ShapeK shape R K) : ShapeK shape R (zeroRowPatch o c K) := by
  unfold zeroRowPatch
  refine ⟨h.1, ?_, ?_⟩
  · show (K.factors.map _).map List.length = shape
    rw [List.map_map, ← h.2.1]
    apply List.map_congr_left
    intro A _
    simp
  · intro A hA row hrow
    simp only [List.mem_map] at hA
    obtain ⟨B, hB, rfl⟩ := hA
    simp only [List.mem_map] at hrow
    obtain ⟨row0, hrow0, rfl⟩ := hrow
    split
    · simp [h.2.2 B hB row0 hrow0]
    · exact h.2.2 B hB row0 hrow0

end newton

end Pyttb.CpApr
