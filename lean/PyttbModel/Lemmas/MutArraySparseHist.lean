/-
C04, sparse class: one step and whole histories (assembly of the per-key refinements).
-/
import PyttbModel.Lemmas.MutArraySparseTensor
set_option linter.unusedSimpArgs false
set_option linter.unusedVariables false
set_option linter.unusedSectionVars false

namespace Pyttb

variable {α : Type}

section ss
variable [AddMonoid α] [DecidableEq α]

/-! ### one step and whole histories -/

/-- The operations for which the sparse refinement is proved, at a state of shape `s`.
Writes: subscript arrays; on a 1-way tensor an in-range non-negative linear index and a
non-empty linear slice (the only linear writes the class supports); every right-hand side
except an empty array.  Reads: subscript arrays and linear keys on a tensor of order ≥ 1
(an integer not below `-cells`).  Region keys: writes of a scalar (zero included) through
integers, slices and index lists, where every NEW mode is addressed by an integer, a list
or a slice with stop ≥ 1; writes of a sparse tensor that has exactly the shape of the
region (`spTensorOk`: duplicate-free index lists; a new mode may also be addressed by an open
slice that selects index 0); reads with integers in `-extent .. extent-1`, slices that select
at least one index and index lists that are non-empty, in range and duplicate-free (a
scalar comes back when every key element is an integer, a tensor otherwise). -/
def IdxOp.acceptedAtSparse (s : List Nat) : IdxOp α → Bool
  | .write (.subs _) rhs => !rhs.isEmptyValue
  | .write (.lin i) rhs =>
    !rhs.isEmptyValue && (match s with
      | [e] => decide (0 ≤ i) && decide (i < (e : Int))
      | _ => false)
  | .write (.linSlice a b c) rhs =>
    !rhs.isEmptyValue && (match s with
      | [e] => (match pySlice e a b c with
        | .ok (_ :: _) => true
        | _ => false)
      | _ => false)
  | .write (.region parts) (.scalar _) => !parts.isEmpty && newModesOk s parts
  | .write (.region parts) (.tensor T) => spTensorOk s parts T
  | .write _ _ => false
  | .read (.subs _) => true
  | .read (.lin i) => !s.isEmpty && decide (-(numel s : Int) ≤ i)
  | .read (.linSlice _ _ _) => !s.isEmpty
  | .read (.linList _) => !s.isEmpty
  | .read (.region parts) =>
    !parts.isEmpty && (intsInRange s parts || (readKeyOk s parts && !parts.all RPart.isInt))

/-- former name of `acceptedAtSparse` (kept for the files of other properties) -/
abbrev IdxOp.provedAtSparse (s : List Nat) (op : IdxOp α) : Bool := op.acceptedAtSparse s

def AcceptedHistS : MArr α → List (IdxOp α) → Prop
  | _, [] => True
  | m, op :: ops => op.acceptedAtSparse m.shape = true ∧ AcceptedHistS (m.step op).1 ops

theorem Sparse.setItem_refines {S : Sparse α} {m : MArr α} (h : SRel S m) (key : Key) (rhs : Rhs α)
    (hp : (IdxOp.write key rhs).acceptedAtSparse S.shape = true) : RefWS (S.setItem key rhs) (m.write key rhs) := by
  cases key with
  | subs rows =>
    have hr : rhs.isEmptyValue = false := by simpa [IdxOp.acceptedAtSparse] using hp
    rw [Sparse.setItem_subs S rows rhs hr]
    exact Sparse.setSubscripts_refines h rows rhs
  | lin i =>
    simp only [IdxOp.acceptedAtSparse, Bool.and_eq_true, Bool.not_eq_true'] at hp
    obtain ⟨hr, hs⟩ := hp
    rw [Sparse.setItem_lin S i rhs hr]
    match hsh : S.shape, hs with
    | [e], hs =>
      simp only [Bool.and_eq_true, decide_eq_true_eq] at hs
      have : ([e] : List Nat).length = 1 ∧ 0 ≤ i := ⟨rfl, hs.1⟩
      rw [if_pos this, MArr.write_lin_eq_subs m e (by rw [← h.shape, hsh]) i hs.1 hs.2 rhs]
      exact Sparse.setSubscripts_refines h _ rhs
  | linSlice a b c =>
    simp only [IdxOp.acceptedAtSparse, Bool.and_eq_true, Bool.not_eq_true'] at hp
    obtain ⟨hr, hs⟩ := hp
    rw [Sparse.setItem_linSlice S a b c rhs hr]
    match hsh : S.shape, hs with
    | [e], hs =>
      have hlen : ([e] : List Nat).length = 1 := rfl
      rw [if_pos hlen]
      simp only [List.getD_cons_zero]
      match hl : pySlice e a b c, hs with
      | .ok (x :: xs), _ =>
        simp only [bind, Except.bind]
        rw [MArr.write_linSlice_eq_subs m e (by rw [← h.shape, hsh]) a b c (x :: xs) hl (by simp) rhs]
        exact Sparse.setSubscripts_refines h _ rhs
      | .ok [], hs => exfalso; simp only [hl] at hs; cases hs
      | .error _, hs => exfalso; simp only [hl] at hs; cases hs
  | linList is => simp [IdxOp.acceptedAtSparse] at hp
  | region parts =>
    cases rhs with
    | scalar v =>
      simp only [IdxOp.acceptedAtSparse, Bool.and_eq_true, Bool.not_eq_true', List.isEmpty_eq_false_iff] at hp
      exact Sparse.setRegionScalar_refines h parts v hp.1 hp.2
    | col vs => simp [IdxOp.acceptedAtSparse] at hp
    | arr A => simp [IdxOp.acceptedAtSparse] at hp
    | tensor A => exact Sparse.setRegionTensor_refines h parts A hp

theorem Sparse.getItem_refines {S : Sparse α} {m : MArr α} (h : SRel S m) (key : Key)
    (hp : (IdxOp.read key : IdxOp α).acceptedAtSparse S.shape = true) :
    (S.getItem key).map SpReadOut.toReadOut = m.read key := by
  cases key with
  | subs rows => exact Sparse.getItem_subs h rows
  | region parts =>
    simp only [IdxOp.acceptedAtSparse, Bool.and_eq_true, Bool.not_eq_true', List.isEmpty_eq_false_iff,
      Bool.or_eq_true] at hp
    rcases hp.2 with h1 | h1
    · exact Sparse.getItem_ints h parts hp.1 h1
    · exact Sparse.getItem_tensor h parts hp.1 h1.1 h1.2
  | lin i =>
    simp only [IdxOp.acceptedAtSparse, Bool.and_eq_true, Bool.not_eq_true', List.isEmpty_eq_false_iff,
      decide_eq_true_eq] at hp
    exact Sparse.getItem_linear h hp.1 (.lin i) (by intro r; simp) (by intro r; simp)
      (by intro j hj; cases hj; exact hp.2)
  | linSlice a b c =>
    have hs : S.shape ≠ [] := by simpa [IdxOp.acceptedAtSparse] using hp
    exact Sparse.getItem_linear h hs (.linSlice a b c) (by intro r; simp) (by intro r; simp) (by intro j hj; cases hj)
  | linList is =>
    have hs : S.shape ≠ [] := by simpa [IdxOp.acceptedAtSparse] using hp
    exact Sparse.getItem_linear h hs (.linList is) (by intro r; simp) (by intro r; simp) (by intro j hj; cases hj)

/-- One operation on related states: equal output and related states afterwards (in
particular the sparse tensor stays well formed). -/
theorem Sparse.step_refines {S : Sparse α} {m : MArr α} (h : SRel S m) (op : IdxOp α)
    (hp : op.acceptedAtSparse S.shape = true) :
    SRel (S.step op).1 (m.step op).1 ∧ (S.step op).2 = (m.step op).2 := by
  cases op with
  | write key rhs =>
    have hr := Sparse.setItem_refines h key rhs hp
    simp only [Sparse.step, MArr.step]
    cases h1 : S.setItem key rhs with
    | error e =>
      cases h2 : m.write key rhs with
      | error e' => exact ⟨h, rfl⟩
      | ok m' => rw [h1, h2] at hr; exact absurd hr (by simp [RefWS])
    | ok S' =>
      cases h2 : m.write key rhs with
      | error e' => rw [h1, h2] at hr; exact absurd hr (by simp [RefWS])
      | ok m' => rw [h1, h2] at hr; exact ⟨hr, rfl⟩
  | read key =>
    have hr := Sparse.getItem_refines h key hp
    simp only [Sparse.step, MArr.step]
    cases h1 : S.getItem key with
    | error e =>
      rw [h1] at hr
      cases h2 : m.read key with
      | error e' => exact ⟨h, rfl⟩
      | ok v => rw [h2] at hr; cases hr
    | ok v =>
      rw [h1] at hr
      cases h2 : m.read key with
      | error e' => rw [h2] at hr; cases hr
      | ok v' =>
        rw [h2] at hr
        simp only [Except.map, Except.ok.injEq] at hr
        exact ⟨h, by simp only [hr]⟩

theorem Sparse.run_refines {S : Sparse α} {m : MArr α} (h : SRel S m) (ops : List (IdxOp α))
    (hp : AcceptedHistS m ops) :
    SRel (S.run ops).1 (m.run ops).1 ∧ (S.run ops).2 = (m.run ops).2 := by
  induction ops generalizing S m with
  | nil => exact ⟨h, rfl⟩
  | cons op ops ih =>
    obtain ⟨hp1, hp2⟩ := hp
    have hs := Sparse.step_refines h op (by rw [h.shape]; exact hp1)
    have := ih hs.1 hp2
    simp only [Sparse.run, MArr.run]
    exact ⟨this.1, by rw [hs.2, this.2]⟩

end ss

end Pyttb
