/-
A concrete instance for the non-vacuity example of `C09_fit_monotone`: the `2 × 1` array
`X = [[3], [4]]` (`‖X‖ = 5`), rank one, start `U = ([[1], [1]], [[1]])`, a solver for `1 × 1`
systems.  Pass `0` ends in `U = ([[3/5], [4/5]], [[1]])`, `weights = [5]` (`exSt1`).
-/
import PyttbModel.Lemmas.CpAlsMonotone
import Mathlib.Analysis.Real.Sqrt

set_option linter.unusedSimpArgs false
namespace Pyttb.CpAls
open Pyttb

/-- the data of the example: the `2 × 1` array `[[3], [4]]` -/
noncomputable def exX : List Nat → ℝ := fun i => if i = [0, 0] then 3 else if i = [1, 0] then 4 else 0

noncomputable def exD : Data ℝ :=
  { shape := [2, 1], norm := 5,
    mttkrp := fun U n =>
      if n = 0 then tab 2 ((U.getD 1 []).getD 0 []).length fun i r => (if i = 0 then 3 else 4) * (U.getD 1 []).get 0 r
      else if n = 1 then tab 1 ((U.getD 0 []).getD 0 []).length fun _ r =>
        3 * (U.getD 0 []).get 0 r + 4 * (U.getD 0 []).get 1 r
      else [],
    innerprod := fun K => ip [2, 1] exX K.get,
    nvecs := none }

/-- a solver for `1 × 1` systems -/
noncomputable def exS : Services ℝ :=
  { solve := fun _ Y B =>
      if Y.length = 1 ∧ Y.get 0 0 ≠ 0 then .ok (B.map fun row => row.map fun x => x / Y.get 0 0)
      else .error .reject }

noncomputable def exSt0 : State ℝ := initState exD 1 [0, 1] ⟨[1], [[[1], [1]], [[1]]]⟩

/-- the loop variables after the sweep of pass `0` -/
noncomputable def exSt1 : State ℝ :=
  { U := [[[3 / 5], [4 / 5]], [[1]]], UtU := [[[1]], [[1]]], weights := [5], Umttkrp := [[5]],
    fit := 0, normresidual := 0, fitchange := 0, iteration := 0, stop := false }

theorem allSubs21 : allSubs [2, 1] = [[0, 0], [1, 0]] := by decide

theorem exD_norm : 0 < exD.norm ∧ exD.norm * exD.norm = ip exD.shape exX exX := by
  constructor
  · norm_num [exD]
  · show (5 : ℝ) * 5 = ip [2, 1] exX exX
    norm_num [ip, allSubs21, exX]

theorem exD_laws : DataLaws exD exX := by
  refine ⟨fun K _ => rfl, ?_, ?_⟩
  · intro w U n hn hU
    have hlen : U.length = 2 := hU.1
    match U, hlen with
    | [A, B], _ =>
      have hB : (B.getD 0 []).length = w.length := by
        have := hU.2 1 (by decide)
        have h1 : B.length = 1 := this.1
        match B, h1 with
        | [row], _ => exact this.2 row (by simp)
      have hA : (A.getD 0 []).length = w.length := by
        have := hU.2 0 (by decide)
        have h1 : A.length = 2 := this.1
        match A, h1 with
        | [row, row'], _ => exact this.2 row (by simp)
      simp only [List.getD_eq_getElem?_getD] at hA hB
      show ip [2, 1] exX _ = _
      have hn' : n = 0 ∨ n = 1 := by
        have : n < 2 := hn
        omega
      have hK : ∀ i : Nat, Ktensor.get ⟨w, [A, B]⟩ [i, 0] =
          ∑ r ∈ Finset.range w.length, w.getD r 0 * (A.get i r * B.get 0 r) := by
        intro i
        rw [ktensor_get_eq]
        refine Finset.sum_congr rfl fun r _ => ?_
        simp [compOf]
      rcases hn' with rfl | rfl
      · simp only [ip, allSubs21, List.map_cons, List.map_nil, List.sum_cons, List.sum_nil, hK, exX, exD,
          sumRange_eq]
        norm_num [Finset.sum_range_succ, Finset.mul_sum, ← Finset.sum_add_distrib, hB]
        refine Finset.sum_congr rfl fun r hr => ?_
        rw [get_tab 2 _ _ (by decide : 0 < 2) (Finset.mem_range.1 hr),
          get_tab 2 _ _ (by decide : 1 < 2) (Finset.mem_range.1 hr)]
        norm_num
        ring
      · simp only [ip, allSubs21, List.map_cons, List.map_nil, List.sum_cons, List.sum_nil, hK, exX, exD,
          sumRange_eq]
        norm_num [Finset.sum_range_succ, Finset.mul_sum, ← Finset.sum_add_distrib, hA]
        refine Finset.sum_congr rfl fun r hr => ?_
        rw [get_tab 1 _ _ (by decide : 0 < 1) (Finset.mem_range.1 hr)]
        ring
  · intro U n A
    by_cases h0 : n = 0
    · subst h0; simp [exD, getD_set_ne]
    · by_cases h1 : n = 1
      · subst h1; simp [exD, getD_set_ne]
      · simp [exD, h0, h1]

theorem exS_contract : SolveContract exS := by
  intro n Y B A h R i r hR hr
  unfold exS at h
  dsimp only at h
  split at h
  · rename_i hc
    injection h with h
    subst h
    have hR1 : R = 1 := by rw [← hR]; exact hc.1
    subst hR1
    have hr0 : r = 0 := by omega
    subst hr0
    have hget : Mat.get (B.map fun row => row.map fun x => x / Y.get 0 0) i 0 = B.get i 0 / Y.get 0 0 := by
      unfold Mat.get
      simp only [List.getD_eq_getElem?_getD, List.getElem?_map]
      cases B[i]? with
      | none => simp
      | some row =>
        simp only [Option.map_some, Option.getD_some, List.getElem?_map]
        cases row[0]? with
        | none => simp
        | some x => simp
    rw [sumRange_eq, Finset.sum_range_one, hget, div_mul_cancel₀ _ hc.2]
  · cases h

theorem exSt0_inv : PassInv exD 1 exSt0 := by
  apply passInv_init
  refine ⟨rfl, fun n hn => ?_⟩
  have hn' : n = 0 ∨ n = 1 := by
    have : n < 2 := hn
    omega
  rcases hn' with rfl | rfl <;> simp [IsMat, exD]

theorem ex_range1 : List.range 1 = [0] := rfl
theorem ex_range2 : List.range 2 = [0, 1] := rfl
theorem ex_sqrt25 : Real.sqrt 25 = 5 := by
  rw [show (25 : ℝ) = 5 * 5 by norm_num, Real.sqrt_mul_self (by norm_num)]
theorem ex_sqrt3344 : Real.sqrt (3 * 3 + 4 * 4) = 5 := by
  rw [show (3 * 3 + 4 * 4 : ℝ) = 5 * 5 by norm_num, Real.sqrt_mul_self (by norm_num)]

end Pyttb.CpAls
