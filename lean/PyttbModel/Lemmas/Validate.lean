/-
Proofs for property C19: the validation prefix of every operation (Ops/Validate.lean)
accepts exactly the requests that satisfy the precondition (Spec/Preconditions.lean).
-/
import PyttbModel.Ops.Validate
import PyttbModel.Lemmas.Dims
import PyttbModel.Lemmas.Perm
import PyttbModel.Lemmas.KhatriRao
namespace Pyttb
namespace V19

/-! ### outcomes -/

theorem ok_or_reject (v : Except Reject Unit) : v = .ok () ∨ v = .error .reject := by
  cases v with
  | ok u => left; rfl
  | error e => right; cases e; rfl

theorem reject_of_not_ok {v : Except Reject Unit} (h : v ≠ .ok ()) : v = .error .reject :=
  (ok_or_reject v).resolve_left h

theorem rejects_of_guard {v : Except Reject Unit} {P : Prop} (h : v = .ok () ↔ P) (hn : ¬ P) :
    v = .error .reject := reject_of_not_ok (fun hv => hn (h.1 hv))

@[simp] theorem rejectIf_ok (c : Bool) : rejectIf c = .ok () ↔ c = false := by
  cases c <;> simp [rejectIf]

@[simp] theorem error_ne_ok (e : Reject) : (Except.error e : Except Reject Unit) = .ok () ↔ False := by simp

theorem map_unit_ok {β : Type} (x : Except Reject β) : x.map (fun _ => ()) = .ok () ↔ ∃ b, x = .ok b := by
  cases x <;> simp [Except.map]

/-! ### reflections of the elementary tests -/

theorem hasDupI_false (l : List Int) : hasDupI l = false ↔ l.Nodup := by
  induction l with
  | nil => simp [hasDupI]
  | cons x xs ih => simp [hasDupI, ih, List.nodup_cons]

theorem allInRange_iff (n : Nat) (l : List Int) : allInRange n l = true ↔ ∀ m ∈ l, IsMode n m := by
  simp [allInRange, List.all_eq_true, IsMode]

theorem isPermOfI_iff (p : List Int) (n : Nat) : isPermOfI p n = true ↔ IsPermI p n := by
  simp [isPermOfI, IsPermI, List.all_eq_true]

theorem rowInShape_iff (s : List Nat) (row : List Int) : rowInShape s row = true ↔ RowInShape s row := by
  simp [rowInShape, RowInShape, List.all_eq_true]

theorem nodup_range_ofNat (n : Nat) : ((List.range n).map Int.ofNat).Nodup :=
  List.Pairwise.map Int.ofNat (fun _ _ h e => h (Int.ofNat.inj e)) List.nodup_range

/-- a permutation of the modes is a rearrangement of `0 .. n-1` -/
theorem _root_.Pyttb.IsPermI.perm {p : List Int} {n : Nat} (h : IsPermI p n) : ((List.range n).map Int.ofNat).Perm p := by
  obtain ⟨hl, hm⟩ := h
  have hsub : ((List.range n).map Int.ofNat).Subperm p := by
    apply List.subperm_of_subset (nodup_range_ofNat n)
    intro x hx
    obtain ⟨m, hm', rfl⟩ := List.mem_map.1 hx
    exact hm m (List.mem_range.1 hm')
  exact hsub.perm_of_length_le (by simp [hl])

/-- a permutation of the modes lists modes only, each once -/
theorem _root_.Pyttb.IsPermI.modesOK {p : List Int} {n : Nat} (h : IsPermI p n) : ModesOK n p := by
  have hperm := h.perm
  refine ⟨fun m hmem => ?_, hperm.nodup_iff.1 (nodup_range_ofNat n)⟩
  obtain ⟨k, hk, rfl⟩ := List.mem_map.1 (hperm.mem_iff.2 hmem)
  have := List.mem_range.1 hk
  exact ⟨Int.natCast_nonneg k, Int.ofNat_lt.2 this⟩

/-! ### `tt_dimscheck` -/

theorem any_neg_false_iff (l : List Int) : l.any (· < 0) = false ↔ ∀ x ∈ l, 0 ≤ x := by
  simp [List.any_eq_false]

theorem any_ge_false_iff (N : Nat) (l : List Int) :
    l.any (fun x => decide ((N : Int) ≤ x)) = false ↔ ∀ x ∈ l, x < (N : Int) := by
  simp [List.any_eq_false]

/-- distinct modes of an order-`N` tensor are at most `N` -/
theorem _root_.Pyttb.ModesOK.length_le {N : Nat} {l : List Int} (h : ModesOK N l) : l.length ≤ N := by
  have hsub : l.Subperm ((List.range N).map Int.ofNat) := by
    apply List.subperm_of_subset h.2
    intro x hx
    obtain ⟨h0, h1⟩ := h.1 x hx
    refine List.mem_map.2 ⟨x.toNat, List.mem_range.2 (by omega), ?_⟩
    show Int.ofNat x.toNat = x
    simp [Int.toNat_of_nonneg h0]
  simpa using hsub.length_le

/-- what `dimsTail` answers, and when -/
theorem dimsTail_ok_iff (N : Nat) (M : Option Nat) (arr : List Int) (dupE : Bool) (r : DimsCheck) :
    dimsTail N M arr dupE = .ok r ↔
      ModesOK N arr ∧ dupE = false ∧ optAll M (fun m => m = N ∨ m = arr.length) ∧
      r = ⟨sortedModes arr, M.map (fun m => if arr.length = m then argsortInt arr else sortedModes arr)⟩ := by
  unfold dimsTail
  by_cases h1 : arr.any (· < 0) = true
  · simp only [h1, if_true]
    constructor
    · intro h; cases h
    · rintro ⟨⟨hm, _⟩, _⟩
      have := (any_neg_false_iff arr).2 (fun x hx => (hm x hx).1)
      simp [this] at h1
  have h1' := (any_neg_false_iff arr).1 (by simpa using h1)
  by_cases h2 : arr.any (fun x => decide ((N : Int) ≤ x)) = true
  · simp only [h1, h2, if_true, Bool.false_eq_true, if_false]
    constructor
    · intro h; cases h
    · rintro ⟨⟨hm, _⟩, _⟩
      have := (any_ge_false_iff N arr).2 (fun x hx => (hm x hx).2)
      simp [this] at h2
  have h2' := (any_ge_false_iff N arr).1 (by simpa using h2)
  by_cases h3 : (hasDupI arr || dupE) = true
  · simp only [h1, h2, h3, if_true, Bool.false_eq_true, if_false]
    constructor
    · intro h; cases h
    · rintro ⟨⟨_, hn⟩, hd, _⟩
      have := (hasDupI_false arr).2 hn
      simp [this, hd] at h3
  have h3' : hasDupI arr = false ∧ dupE = false := by simpa using h3
  have hmodes : ModesOK N arr := ⟨fun x hx => ⟨h1' x hx, h2' x hx⟩, (hasDupI_false arr).1 h3'.1⟩
  have hle := hmodes.length_le
  rw [if_neg h1, if_neg h2, if_neg h3]
  have hpre : (ModesOK N arr ∧ dupE = false ∧ optAll M (fun m => m = N ∨ m = arr.length) ∧
      r = ⟨sortedModes arr, M.map (fun m => if arr.length = m then argsortInt arr else sortedModes arr)⟩) ↔
      (optAll M (fun m => m = N ∨ m = arr.length) ∧
      r = ⟨sortedModes arr, M.map (fun m => if arr.length = m then argsortInt arr else sortedModes arr)⟩) :=
    ⟨fun h => h.2.2, fun h => ⟨hmodes, h3'.2, h⟩⟩
  rw [hpre]
  cases M with
  | none =>
    show Except.ok _ = Except.ok r ↔ _
    simp only [optAll, Option.map_none, true_and, sortedModes, Except.ok.injEq]
    exact eq_comm
  | some m =>
    show (if m > N then _ else if m ≠ N ∧ m ≠ arr.length then _ else if arr.length = m then _ else _) = Except.ok r ↔ _
    simp only [optAll, Option.map_some]
    by_cases hm1 : m > N
    · rw [if_pos hm1]
      constructor
      · intro h; cases h
      · rintro ⟨h | h, _⟩ <;> omega
    rw [if_neg hm1]
    by_cases hm2 : m ≠ N ∧ m ≠ arr.length
    · rw [if_pos hm2]
      constructor
      · intro h; cases h
      · rintro ⟨h | h, _⟩ <;> omega
    rw [if_neg hm2]
    have hm2' : m = N ∨ m = arr.length := by omega
    by_cases hm3 : arr.length = m
    · rw [if_pos hm3, if_pos hm3]
      simp only [Except.ok.injEq, sortedModes, hm2', true_and]
      exact eq_comm
    · rw [if_neg hm3, if_neg hm3]
      simp only [Except.ok.injEq, sortedModes, hm2', true_and]
      exact eq_comm

theorem complement_modesOK (N : Nat) (e : List Int) :
    ModesOK N (((List.range N).filter (fun (k : Nat) => !e.contains (Int.ofNat k))).map (fun (k : Nat) => Int.ofNat k)) := by
  constructor
  · intro m hm
    obtain ⟨k, hk, rfl⟩ := List.mem_map.1 hm
    have := List.mem_range.1 (List.mem_filter.1 hk).1
    exact ⟨Int.natCast_nonneg k, Int.ofNat_lt.2 this⟩
  · exact List.Pairwise.map _ (fun a b h e' => h (Int.ofNat.inj e')) (List.nodup_range.filter _)

theorem range_modesOK (N : Nat) : ModesOK N ((List.range N).map (fun (k : Nat) => Int.ofNat k)) := by
  constructor
  · intro m hm
    obtain ⟨k, hk, rfl⟩ := List.mem_map.1 hm
    exact ⟨Int.natCast_nonneg k, Int.ofNat_lt.2 (List.mem_range.1 hk)⟩
  · exact nodup_range_ofNat N

/-- `tt_dimscheck` answers exactly the well-formed requests, with the sorted selection and the
index of the multiplicands -/
theorem dimscheck19_ok_iff (N : Nat) (M : Option Nat) (dims excl : Option (List Int)) (r : DimsCheck) :
    dimscheck19 N M dims excl = .ok r ↔
      Pre_dimscheck N M dims excl ∧
      r = ⟨sortedModes (selModes N dims excl),
           M.map (fun m => if (selModes N dims excl).length = m then argsortInt (selModes N dims excl)
                           else sortedModes (selModes N dims excl))⟩ := by
  cases dims with
  | some d =>
    cases excl with
    | some e => simp [dimscheck19, Pre_dimscheck]
    | none =>
      simp only [dimscheck19, dimsTail_ok_iff, Pre_dimscheck, selModes, optAll, Option.isSome_none, Option.isSome_some]
      constructor
      · rintro ⟨h1, _, h3, h4⟩; exact ⟨⟨by simp, h1, trivial, h3⟩, h4⟩
      · rintro ⟨⟨_, h1, _, h3⟩, h4⟩; exact ⟨h1, trivial, h3, h4⟩
  | none =>
    cases excl with
    | none =>
      simp only [dimscheck19, dimsTail_ok_iff, Pre_dimscheck, selModes, optAll, Option.isSome_none]
      constructor
      · rintro ⟨_, _, h3, h4⟩; exact ⟨⟨by simp, trivial, trivial, h3⟩, h4⟩
      · rintro ⟨⟨_, _, _, h3⟩, h4⟩; exact ⟨range_modesOK N, trivial, h3, h4⟩
    | some e =>
      simp only [dimscheck19, Pre_dimscheck, selModes, optAll, Option.isSome_none, Option.isSome_some]
      by_cases hall : e.all (fun x => decide (0 ≤ x) && decide (x < (N : Int))) = true
      · have hall' : ∀ m ∈ e, IsMode N m := by
          simpa [List.all_eq_true, IsMode] using hall
        simp only [hall, if_true, dimsTail_ok_iff, hasDupI_false]
        constructor
        · rintro ⟨_, h2, h3, h4⟩; exact ⟨⟨by simp, trivial, ⟨hall', h2⟩, h3⟩, h4⟩
        · rintro ⟨⟨_, _, ⟨_, h2⟩, h3⟩, h4⟩; exact ⟨complement_modesOK N e, h2, h3, h4⟩
      · simp only [hall, Bool.false_eq_true, if_false]
        constructor
        · intro h; cases h
        · rintro ⟨⟨_, _, ⟨h2, _⟩, _⟩, _⟩
          exact absurd (by simpa [List.all_eq_true, IsMode] using h2) hall

theorem validate_dimscheck_ok_iff (N : Nat) (M : Option Nat) (dims excl : Option (List Int)) :
    validate_dimscheck N M dims excl = .ok () ↔ Pre_dimscheck N M dims excl := by
  unfold validate_dimscheck
  rw [map_unit_ok]
  constructor
  · rintro ⟨r, hr⟩; exact ((dimscheck19_ok_iff N M dims excl r).1 hr).1
  · intro h; exact ⟨_, (dimscheck19_ok_iff N M dims excl _).2 ⟨h, rfl⟩⟩

/-- when the repaired check answers, the check modelled in Core/Dims (C17) gives the same answer -/
theorem dimsTail_refines (N : Nat) (M : Option Nat) (arr : List Int) (dupE : Bool) (r : DimsCheck)
    (h : dimsTail N M arr dupE = .ok r) :
    (if arr.any (· < 0) then (.error .reject : Except Reject DimsCheck) else
      match M with
      | none => .ok ⟨(argsortInt arr).map (fun k => (arr.getD k 0).toNat), none⟩
      | some m =>
        if m > N then .error .reject
        else if m ≠ N ∧ m ≠ arr.length then .error .reject
        else if arr.length = m then .ok ⟨(argsortInt arr).map (fun k => (arr.getD k 0).toNat), some (argsortInt arr)⟩
        else .ok ⟨(argsortInt arr).map (fun k => (arr.getD k 0).toNat),
                  some ((argsortInt arr).map (fun k => (arr.getD k 0).toNat))⟩) = .ok r := by
  unfold dimsTail at h
  by_cases h1 : arr.any (· < 0) = true
  · rw [if_pos h1] at h; cases h
  rw [if_neg h1] at h
  rw [if_neg h1]
  by_cases h2 : arr.any (fun x => decide ((N : Int) ≤ x)) = true
  · rw [if_pos h2] at h; cases h
  rw [if_neg h2] at h
  by_cases h3 : (hasDupI arr || dupE) = true
  · rw [if_pos h3] at h; cases h
  rw [if_neg h3] at h
  cases M <;> exact h

/-! ### which multiplicand meets which mode -/

theorem zip_map_self {β γ : Type} (l : List β) (f : β → γ) : l.zip (l.map f) = l.map (fun k => (k, f k)) := by
  induction l with
  | nil => rfl
  | cons x xs ih => simp [ih]

theorem zip_self {β : Type} (l : List β) : l.zip l = l.map (fun k => (k, k)) := by
  induction l with
  | nil => rfl
  | cons x xs ih => simp [ih]

/-- the pairs the code loops over are, up to order, the pairs the specification names -/
theorem pairs_perm (sel : List Int) (m : Nat) :
    (DimsCheck.pairs ⟨sortedModes sel, some (if sel.length = m then argsortInt sel else sortedModes sel)⟩).Perm
      (pairing m sel) := by
  unfold DimsCheck.pairs pairing
  by_cases h : sel.length = m
  · simp only [h, if_true, Option.getD_some, sortedModes]
    rw [zip_map_self]
    have := (argsortInt_perm sel).map (fun k => (k, (sel.getD k 0).toNat))
    rw [h] at this
    exact this
  · have h' : ¬ m = sel.length := fun e => h e.symm
    simp only [h, if_false, Option.getD_some]
    rw [if_neg h', zip_self]
    have := (gather_perm sel Int.toNat).map (fun d => (d, d))
    rw [List.map_map, List.map_map] at this
    rw [sortedModes, List.map_map]
    exact this

theorem all_pairs_iff (sel : List Int) (m : Nat) (q : Nat × Nat → Bool) :
    (DimsCheck.pairs ⟨sortedModes sel, some (if sel.length = m then argsortInt sel else sortedModes sel)⟩).all q = true ↔
      ∀ p ∈ pairing m sel, q p = true := by
  rw [List.all_eq_true]
  exact ⟨fun h p hp => h p ((pairs_perm sel m).mem_iff.2 hp), fun h p hp => h p ((pairs_perm sel m).mem_iff.1 hp)⟩

/-! ### ttv -/

theorem validate_ttv_ok_iff (a : TtvArgs) : validate_ttv a = .ok () ↔ Pre_ttv a := by
  unfold validate_ttv Pre_ttv
  cases hd : dimscheck19 a.shape.length (some a.vecs.length) a.dims a.excl with
  | error e =>
    simp only [error_ne_ok, false_iff]
    rintro ⟨hp, _⟩
    have := (dimscheck19_ok_iff _ _ _ _ _).2 ⟨hp, rfl⟩
    rw [hd] at this; cases this
  | ok r =>
    obtain ⟨hp, rfl⟩ := (dimscheck19_ok_iff _ _ _ _ _).1 hd
    simp only [rejectIf_ok, Bool.not_eq_false', Option.map_some, all_pairs_iff, beq_iff_eq, hp, true_and]

/-! ### ttm -/

theorem validate_ttm_tucker_ok_iff (a : TtmArgs) :
    validate_ttm_tucker a = .ok () ↔
      Pre_dimscheck a.shape.length (some a.mats.length) a.dims a.excl ∧
      ∀ p ∈ pairing a.mats.length (selModes a.shape.length a.dims a.excl),
        (a.mats.getD p.1 (0, 0)).inner a.tr = a.shape.getD p.2 0 := by
  unfold validate_ttm_tucker
  cases hd : dimscheck19 a.shape.length (some a.mats.length) a.dims a.excl with
  | error e =>
    simp only [error_ne_ok, false_iff]
    rintro ⟨hp, _⟩
    have := (dimscheck19_ok_iff _ _ _ _ _).2 ⟨hp, rfl⟩
    rw [hd] at this; cases this
  | ok r =>
    obtain ⟨hp, rfl⟩ := (dimscheck19_ok_iff _ _ _ _ _).1 hd
    simp only [rejectIf_ok, Bool.not_eq_false', Option.map_some, all_pairs_iff, beq_iff_eq, hp, true_and]

theorem getD_set_ne (l : List Nat) (i j v : Nat) (h : i ≠ j) : (l.set i v).getD j 0 = l.getD j 0 := by
  simp [List.getD_eq_getElem?_getD, List.getElem?_set_ne h]

theorem ttmStep_ok (tr : Bool) (mats : List MatS) (sh : List Nat) (p : Nat × Nat) (hp : p.2 < sh.length)
    (hfit : (mats.getD p.1 (0, 0)).inner tr = sh.getD p.2 0) :
    ttmStep tr mats sh p = .ok (sh.set p.2 ((mats.getD p.1 (0, 0)).outer tr)) := by
  unfold ttmStep
  rw [if_neg (by omega), if_neg (by rw [bne_iff_ne, ne_eq, not_not]; exact hfit)]

theorem ttmStep_reject (tr : Bool) (mats : List MatS) (sh : List Nat) (p : Nat × Nat) (hp : p.2 < sh.length)
    (hfit : ¬ (mats.getD p.1 (0, 0)).inner tr = sh.getD p.2 0) :
    ttmStep tr mats sh p = .error .reject := by
  unfold ttmStep
  rw [if_neg (by omega), if_pos (by rw [bne_iff_ne]; exact hfit)]

theorem ttmStep_ok_iff (tr : Bool) (mats : List MatS) (sh : List Nat) (p : Nat × Nat) (hp : p.2 < sh.length) :
    (∃ b, ttmStep tr mats sh p = .ok b) ↔ (mats.getD p.1 (0, 0)).inner tr = sh.getD p.2 0 := by
  by_cases hfit : (mats.getD p.1 (0, 0)).inner tr = sh.getD p.2 0
  · rw [ttmStep_ok tr mats sh p hp hfit]; exact ⟨fun _ => hfit, fun _ => ⟨_, rfl⟩⟩
  · rw [ttmStep_reject tr mats sh p hp hfit]
    constructor
    · rintro ⟨_, h⟩; cases h
    · intro h; exact absurd h hfit

/-- applying the matrices one after the other succeeds iff each matrix fits the ORIGINAL
extent of its mode, because no mode is used twice -/
theorem foldlM_ttmStep (tr : Bool) (mats : List MatS) :
    ∀ (L : List (Nat × Nat)) (sh : List Nat), (L.map (·.2)).Nodup → (∀ p ∈ L, p.2 < sh.length) →
      ((∃ s', L.foldlM (ttmStep tr mats) sh = .ok s') ↔
        ∀ p ∈ L, (mats.getD p.1 (0, 0)).inner tr = sh.getD p.2 0) := by
  intro L
  induction L with
  | nil => intro sh _ _; simp [List.foldlM, pure, Except.pure]
  | cons p rest ih =>
    intro sh hnd hlt
    have hp : p.2 < sh.length := hlt p (List.mem_cons_self ..)
    rw [List.map_cons, List.nodup_cons] at hnd
    simp only [List.foldlM_cons, List.mem_cons, forall_eq_or_imp]
    by_cases hfit : (mats.getD p.1 (0, 0)).inner tr = sh.getD p.2 0
    · rw [ttmStep_ok tr mats sh p hp hfit]
      show (∃ s', rest.foldlM (ttmStep tr mats) (sh.set p.2 _) = .ok s') ↔ _
      rw [ih _ hnd.2 (by intro q hq; simpa using hlt q (List.mem_cons_of_mem _ hq))]
      simp only [hfit, true_and]
      constructor
      · intro h q hq
        rw [h q hq, getD_set_ne]
        intro e; exact hnd.1 (List.mem_map.2 ⟨q, hq, e.symm⟩)
      · intro h q hq
        rw [h q hq, getD_set_ne]
        intro e; exact hnd.1 (List.mem_map.2 ⟨q, hq, e.symm⟩)
    · rw [ttmStep_reject tr mats sh p hp hfit]
      constructor
      · rintro ⟨s', h⟩; cases h
      · rintro ⟨h, _⟩; exact absurd h hfit

theorem map_getD_range_int (sel : List Int) :
    (List.range sel.length).map (fun j => (sel.getD j 0).toNat) = sel.map Int.toNat := by
  apply List.ext_getElem
  · simp
  · intro i h1 h2
    simp at h1
    simp [List.getD_eq_getElem?_getD, List.getElem?_eq_getElem h1]

/-- in either convention the modes that are multiplied are the selected ones -/
theorem pairing_modes (m : Nat) (sel : List Int) : (pairing m sel).map (·.2) = sel.map Int.toNat := by
  unfold pairing
  by_cases h : m = sel.length
  · rw [if_pos h, List.map_map, h]
    exact map_getD_range_int sel
  · rw [if_neg h, List.map_map]; rfl

theorem toNat_nodup {N : Nat} {sel : List Int} (h : ModesOK N sel) : (sel.map Int.toNat).Nodup := by
  unfold List.Nodup
  rw [List.pairwise_map]
  refine List.Pairwise.imp_of_mem ?_ h.2
  intro x y hx hy hne e
  have := (h.1 x hx).1
  have := (h.1 y hy).1
  omega

theorem _root_.Pyttb.Pre_dimscheck.sel_modesOK {N : Nat} {M : Option Nat} {dims excl : Option (List Int)}
    (h : Pre_dimscheck N M dims excl) : ModesOK N (selModes N dims excl) := by
  obtain ⟨h0, h1, h2, _⟩ := h
  cases dims with
  | some d => exact h1
  | none =>
    cases excl with
    | some e => exact complement_modesOK N e
    | none => exact range_modesOK N

theorem sortedModes_singleton (sel : List Int) (h : sel.length = 1) :
    sortedModes sel = [(sel.getD 0 0).toNat] := by
  match sel, h with
  | [x], _ =>
    have : argsortInt [x] = List.range 1 := argsortInt_of_sorted [x] (by simp)
    simp [sortedModes, this]

theorem length_sortedModes (sel : List Int) : (sortedModes sel).length = sel.length := by
  simp [sortedModes, (argsortInt_perm sel).length_eq]

theorem validate_ttm_seq_ok_iff (a : TtmArgs) :
    validate_ttm_seq a = .ok () ↔
      (if a.single = true then
        Pre_dimscheck a.shape.length none a.dims a.excl ∧ (selModes a.shape.length a.dims a.excl).length = 1 ∧
          a.mats.length = 1 ∧
          (a.mats.getD 0 (0, 0)).inner a.tr = a.shape.getD ((selModes a.shape.length a.dims a.excl).getD 0 0).toNat 0
       else
        Pre_dimscheck a.shape.length (some a.mats.length) a.dims a.excl ∧
          pairing a.mats.length (selModes a.shape.length a.dims a.excl) ≠ [] ∧
          ∀ p ∈ pairing a.mats.length (selModes a.shape.length a.dims a.excl),
            (a.mats.getD p.1 (0, 0)).inner a.tr = a.shape.getD p.2 0) := by
  unfold validate_ttm_seq
  by_cases hs : a.single = true
  · rw [if_pos hs, if_pos hs]
    cases hd : dimscheck19 a.shape.length none a.dims a.excl with
    | error e =>
      simp only [error_ne_ok, false_iff]
      rintro ⟨hp, _⟩
      have := (dimscheck19_ok_iff _ _ _ _ _).2 ⟨hp, rfl⟩
      rw [hd] at this; cases this
    | ok r =>
      obtain ⟨hp, rfl⟩ := (dimscheck19_ok_iff _ _ _ _ _).1 hd
      simp only [hp, true_and, length_sortedModes]
      by_cases h1 : (selModes a.shape.length a.dims a.excl).length = 1
      · rw [if_neg (by simp [h1])]
        by_cases h2 : a.mats.length = 1
        · rw [if_neg (by simp [h2]), map_unit_ok, sortedModes_singleton _ h1]
          simp only [h1, h2, true_and, List.getD_cons_zero]
          have hm := hp.sel_modesOK
          have hlt : ((selModes a.shape.length a.dims a.excl).getD 0 0).toNat < a.shape.length := by
            have hmem : (selModes a.shape.length a.dims a.excl).getD 0 0 ∈ selModes a.shape.length a.dims a.excl := by
              rw [List.getD_eq_getElem?_getD, List.getElem?_eq_getElem (by omega)]
              exact List.getElem_mem _
            have := hm.1 _ hmem
            unfold IsMode at this
            omega
          exact ttmStep_ok_iff a.tr a.mats a.shape (0, ((selModes a.shape.length a.dims a.excl).getD 0 0).toNat) hlt
        · rw [if_pos (by simp [h2])]
          simp [h2]
      · rw [if_pos (by simp [h1])]
        simp [h1]
  · have hs' : a.single = false := by simpa using hs
    rw [if_neg (by simp [hs']), if_neg hs]
    cases hd : dimscheck19 a.shape.length (some a.mats.length) a.dims a.excl with
    | error e =>
      simp only [error_ne_ok, false_iff]
      rintro ⟨hp, _⟩
      have := (dimscheck19_ok_iff _ _ _ _ _).2 ⟨hp, rfl⟩
      rw [hd] at this; cases this
    | ok r =>
      obtain ⟨hp, rfl⟩ := (dimscheck19_ok_iff _ _ _ _ _).1 hd
      simp only [hp, true_and, Option.map_some]
      have hperm := pairs_perm (selModes a.shape.length a.dims a.excl) a.mats.length
      have hm := hp.sel_modesOK
      have hnd : ((DimsCheck.pairs ⟨sortedModes (selModes a.shape.length a.dims a.excl),
          some (if (selModes a.shape.length a.dims a.excl).length = a.mats.length then argsortInt (selModes a.shape.length a.dims a.excl)
                else sortedModes (selModes a.shape.length a.dims a.excl))⟩).map (·.2)).Nodup := by
        rw [(hperm.map (·.2)).nodup_iff, pairing_modes]
        exact toNat_nodup hm
      have hlt : ∀ p ∈ DimsCheck.pairs ⟨sortedModes (selModes a.shape.length a.dims a.excl),
          some (if (selModes a.shape.length a.dims a.excl).length = a.mats.length then argsortInt (selModes a.shape.length a.dims a.excl)
                else sortedModes (selModes a.shape.length a.dims a.excl))⟩, p.2 < a.shape.length := by
        intro p hp'
        have : p.2 ∈ (pairing a.mats.length (selModes a.shape.length a.dims a.excl)).map (·.2) :=
          List.mem_map.2 ⟨p, hperm.mem_iff.1 hp', rfl⟩
        rw [pairing_modes] at this
        obtain ⟨x, hx, hxe⟩ := List.mem_map.1 this
        have := hm.1 x hx
        unfold IsMode at this
        omega
      have hfold := foldlM_ttmStep a.tr a.mats _ a.shape hnd hlt
      by_cases hempty : (DimsCheck.pairs ⟨sortedModes (selModes a.shape.length a.dims a.excl),
          some (if (selModes a.shape.length a.dims a.excl).length = a.mats.length then argsortInt (selModes a.shape.length a.dims a.excl)
                else sortedModes (selModes a.shape.length a.dims a.excl))⟩) = []
      · have : pairing a.mats.length (selModes a.shape.length a.dims a.excl) = [] := by
          have := hperm.length_eq
          rw [hempty] at this
          exact List.eq_nil_of_length_eq_zero this.symm
        rw [if_pos (by simp [hempty])]
        simp [this]
      · have hne : pairing a.mats.length (selModes a.shape.length a.dims a.excl) ≠ [] := by
          intro e
          have := hperm.length_eq
          rw [e] at this
          exact hempty (List.eq_nil_of_length_eq_zero this)
        rw [if_neg (by simpa using hempty), map_unit_ok, hfold]
        simp only [hne, ne_eq, not_false_eq_true, true_and]
        exact ⟨fun h p hp' => h p (hperm.mem_iff.2 hp'), fun h p hp' => h p (hperm.mem_iff.1 hp')⟩

/-! ### mttkrp -/

theorem usedIdx_all (N : Nat) (n : Int) (q : Nat → Bool) :
    (usedIdx N n).all q = true ↔ ∀ i, i < N → (i : Int) ≠ n → q i = true := by
  unfold usedIdx
  rw [List.all_eq_true]
  constructor
  · intro h i hi hne
    exact h i (List.mem_filter.2 ⟨List.mem_range.2 hi, by simpa using hne⟩)
  · intro h i hi
    obtain ⟨h1, h2⟩ := List.mem_filter.1 hi
    exact h i (List.mem_range.1 h1) (by simpa using h2)

theorem isMode_dec (N : Nat) (n : Int) : (decide (0 ≤ n) && decide (n < (N : Int))) = true ↔ IsMode N n := by
  simp [IsMode]

theorem notMode_dec (N : Nat) (n : Int) : (!(decide (0 ≤ n) && decide (n < (N : Int)))) = true ↔ ¬ IsMode N n := by
  rw [Bool.not_eq_true', ← Bool.not_eq_true, isMode_dec]

theorem not_bnot_true (b : Bool) : ¬ ((!b) = true) ↔ b = true := by cases b <;> simp

theorem bnot_true (b : Bool) : ((!b) = true) ↔ ¬ b = true := by cases b <;> simp

theorem two_le_of_mode {N : Nat} {n : Int} (h : IsMode N n) (h2 : ¬ (if n = 0 then N < 2 else N < 1)) : 2 ≤ N := by
  unfold IsMode at h
  by_cases h0 : n = 0
  · rw [if_pos h0] at h2; omega
  · omega

theorem prod_eq_iff (x : MatS) (a b : Nat) : x = (a, b) ↔ x.1 = a ∧ x.2 = b := by
  cases x; simp

theorem validate_mttkrp_sparse_ok_iff (a : MttkrpArgs) : validate_mttkrp_sparse a = .ok () ↔ Pre_mttkrp a := by
  unfold validate_mttkrp_sparse Pre_mttkrp
  by_cases h1 : IsMode a.shape.length a.n
  · rw [if_neg (by rw [notMode_dec]; exact not_not.2 h1)]
    by_cases h2 : a.U.length = a.shape.length
    · rw [if_neg (by simp [h2])]
      by_cases h3 : (if a.n = 0 then a.shape.length < 2 else a.shape.length < 1)
      · rw [if_pos (by simpa using h3)]
        simp only [error_ne_ok, false_iff]
        rintro ⟨h, _⟩
        unfold IsMode at h1
        by_cases h0 : a.n = 0
        · rw [if_pos h0] at h3; omega
        · rw [if_neg h0] at h3; omega
      · rw [if_neg (by simpa using h3), rejectIf_ok, Bool.not_eq_false', usedIdx_all]
        simp only [beq_iff_eq, h1, h2, two_le_of_mode h1 h3, true_and]
    · rw [if_pos (by simp [h2])]
      simp [h2]
  · rw [if_pos (by rw [notMode_dec]; exact h1)]
    simp [h1]

theorem validate_mttkrp_ktensor_ok_iff (a : MttkrpArgs) : validate_mttkrp_ktensor a = .ok () ↔ Pre_mttkrp a := by
  unfold validate_mttkrp_ktensor Pre_mttkrp
  by_cases h1 : IsMode a.shape.length a.n
  · rw [if_neg (by rw [notMode_dec]; exact not_not.2 h1)]
    by_cases h2 : a.U.length = a.shape.length
    · rw [if_neg (by simp [h2])]
      by_cases h3 : (if a.n = 0 then a.shape.length < 2 else a.shape.length < 1)
      · rw [if_pos (by simpa using h3)]
        simp only [error_ne_ok, false_iff]
        rintro ⟨h, _⟩
        unfold IsMode at h1
        by_cases h0 : a.n = 0
        · rw [if_pos h0] at h3; omega
        · rw [if_neg h0] at h3; omega
      · rw [if_neg (by simpa using h3)]
        by_cases h4 : (usedIdx a.shape.length a.n).all (fun i => (a.U.getD i (0, 0)).2 == usedR a.U a.n) = true
        · rw [if_neg (by rw [not_bnot_true]; exact h4), rejectIf_ok, Bool.not_eq_false', usedIdx_all]
          rw [usedIdx_all] at h4
          simp only [beq_iff_eq, h1, h2, two_le_of_mode h1 h3, true_and, prod_eq_iff] at h4 ⊢
          exact ⟨fun h i hi hne => ⟨h i hi hne, h4 i hi hne⟩, fun h i hi hne => (h i hi hne).1⟩
        · rw [if_pos (by rw [bnot_true]; exact h4)]
          simp only [error_ne_ok, false_iff]
          rintro ⟨_, _, _, h⟩
          apply h4
          rw [usedIdx_all]
          intro i hi hne
          rw [beq_iff_eq]
          exact ((prod_eq_iff _ _ _).1 (h i hi hne)).2
    · rw [if_pos (by simp [h2])]
      simp [h2]
  · rw [if_pos (by rw [notMode_dec]; exact h1)]
    simp [h1]

theorem getD_of_lt {β : Type} (l : List β) (i : Nat) (d : β) (h : i < l.length) : l.getD i d = l[i] := by
  rw [List.getD_eq_getElem?_getD, List.getElem?_eq_getElem h, Option.getD_some]

theorem all_drop {β : Type} (l : List β) (k : Nat) (d : β) (q : β → Bool) :
    (l.drop k).all q = true ↔ ∀ i, k ≤ i → i < l.length → q (l.getD i d) = true := by
  rw [List.all_eq_true]
  constructor
  · intro h i hk hi
    apply h
    rw [getD_of_lt l i d hi, List.mem_iff_getElem?]
    refine ⟨i - k, ?_⟩
    rw [List.getElem?_drop, show k + (i - k) = i by omega, List.getElem?_eq_getElem hi]
  · intro h x hx
    obtain ⟨j, hj⟩ := List.mem_iff_getElem?.1 hx
    rw [List.getElem?_drop] at hj
    obtain ⟨hlt, rfl⟩ := List.getElem?_eq_some_iff.1 hj
    have := h (k + j) (by omega) hlt
    rwa [getD_of_lt l (k + j) d hlt] at this

theorem all_take {β : Type} (l : List β) (k : Nat) (d : β) (q : β → Bool) :
    (l.take k).all q = true ↔ ∀ i, i < k → i < l.length → q (l.getD i d) = true := by
  rw [List.all_eq_true]
  constructor
  · intro h i hk hi
    apply h
    rw [getD_of_lt l i d hi, List.mem_iff_getElem?]
    refine ⟨i, ?_⟩
    rw [List.getElem?_take_of_lt hk, List.getElem?_eq_getElem hi]
  · intro h x hx
    obtain ⟨j, hj⟩ := List.mem_iff_getElem?.1 hx
    obtain ⟨hlt, hx'⟩ := List.getElem?_eq_some_iff.1 hj
    have hlt' : j < k ∧ j < l.length := by
      rw [List.length_take] at hlt; omega
    rw [List.getElem_take] at hx'
    subst hx'
    have := h j hlt'.1 hlt'.2
    rwa [getD_of_lt l j d hlt'.2] at this

/-- `khatrirao` of a non-empty group answers the column count of its first matrix iff all agree -/
theorem krCols_ok_iff (g : List MatS) (c : Nat) :
    krCols g = .ok c ↔ g ≠ [] ∧ c = (g.getD 0 (0, 0)).2 ∧ g.all (fun x => x.2 == (g.getD 0 (0, 0)).2) = true := by
  cases g with
  | nil => simp [krCols]
  | cons m rest =>
    show (if rest.all (fun x => x.2 == m.2) = true then Except.ok m.2 else Except.error Reject.reject) = Except.ok c ↔ _
    by_cases h : rest.all (fun x => x.2 == m.2) = true
    · rw [if_pos h]
      simp only [Except.ok.injEq, ne_eq, reduceCtorEq, not_false_eq_true, List.getD_cons_zero, List.all_cons,
        beq_self_eq_true, Bool.true_and, h, and_true, true_and]
      exact eq_comm
    · rw [if_neg h]
      simp only [reduceCtorEq, ne_eq, not_false_eq_true, List.getD_cons_zero, List.all_cons, beq_self_eq_true,
        Bool.true_and, true_and, false_iff, not_and]
      intro _; exact h

theorem getD_drop_zero {β : Type} (l : List β) (k : Nat) (d : β) : (l.drop k).getD 0 d = l.getD k d := by
  simp [List.getD_eq_getElem?_getD, List.getElem?_drop]

theorem getD_take_zero {β : Type} (l : List β) (k : Nat) (d : β) (hk : 0 < k) : (l.take k).getD 0 d = l.getD 0 d := by
  simp [List.getD_eq_getElem?_getD, List.getElem?_take_of_lt hk]

/-- the three Khatri-Rao branches of the dense `mttkrp` succeed iff all used factors have the
column count of the first used one -/
theorem krTail_ok_iff (U : List MatS) (N n : Nat) (hN : 2 ≤ N) (hn : n < N) (hU : U.length = N) :
    krTail U N n (if n = 0 then (U.getD 1 (0, 0)).2 else (U.getD 0 (0, 0)).2) = Except.ok () ↔
    ∀ i, i < N → i ≠ n → (U.getD i (0, 0)).2 = (if n = 0 then (U.getD 1 (0, 0)).2 else (U.getD 0 (0, 0)).2) := by
  unfold krTail
  by_cases h0 : n = 0
  · subst h0
    rw [if_pos (by simp), map_unit_ok]
    simp only [krCols_ok_iff, getD_drop_zero, all_drop _ 1 (0, 0), beq_iff_eq, if_true]
    have hne : U.drop 1 ≠ [] := by
      intro e
      have : (U.drop 1).length = 0 := by rw [e]; rfl
      rw [List.length_drop] at this; omega
    constructor
    · rintro ⟨c, _, _, h⟩ i hi hne'
      exact h i (by omega) (by omega)
    · intro h
      exact ⟨_, hne, rfl, fun i h1 h2 => h i (by omega) (by omega)⟩
  · rw [if_neg (by simpa using h0), if_neg h0]
    by_cases h1 : n = N - 1
    · rw [if_pos (by simp [h1]), map_unit_ok]
      simp only [krCols_ok_iff, getD_take_zero _ _ _ (show 0 < N - 1 by omega), all_take _ (N - 1) (0, 0), beq_iff_eq]
      have hne : U.take (N - 1) ≠ [] := by
        intro e
        have : (U.take (N - 1)).length = 0 := by rw [e]; rfl
        rw [List.length_take] at this; omega
      constructor
      · rintro ⟨c, _, _, h⟩ i hi hne'
        exact h i (by omega) (by omega)
      · intro h
        exact ⟨_, hne, rfl, fun i h1' h2 => h i (by omega) (by omega)⟩
    · rw [if_neg (by simpa using h1)]
      have hne1 : U.drop (n + 1) ≠ [] := by
        intro e
        have : (U.drop (n + 1)).length = 0 := by rw [e]; rfl
        rw [List.length_drop] at this; omega
      have hne2 : U.take n ≠ [] := by
        intro e
        have : (U.take n).length = 0 := by rw [e]; rfl
        rw [List.length_take] at this; omega
      cases hk1 : krCols (U.drop (n + 1)) with
      | error e =>
        simp only [error_ne_ok, false_iff]
        intro h
        have : krCols (U.drop (n + 1)) = .ok (U.getD (n + 1) (0, 0)).2 := by
          rw [krCols_ok_iff, getD_drop_zero, all_drop _ (n + 1) (0, 0)]
          refine ⟨hne1, rfl, fun i h1' h2 => ?_⟩
          rw [beq_iff_eq, h i (by omega) (by omega), h (n + 1) (by omega) (by omega)]
        rw [hk1] at this; cases this
      | ok c2 =>
        obtain ⟨_, hc2, hall1⟩ := (krCols_ok_iff _ _).1 hk1
        rw [getD_drop_zero] at hc2 hall1
        rw [all_drop _ (n + 1) (0, 0)] at hall1
        cases hk2 : krCols (U.take n) with
        | error e =>
          simp only [error_ne_ok, false_iff]
          intro h
          have : krCols (U.take n) = .ok (U.getD 0 (0, 0)).2 := by
            rw [krCols_ok_iff, getD_take_zero _ _ _ (show 0 < n by omega), all_take _ n (0, 0)]
            refine ⟨hne2, rfl, fun i h1' h2 => ?_⟩
            rw [beq_iff_eq]
            by_cases hi0 : i = 0
            · subst hi0; rfl
            · exact h i (by omega) (by omega)
          rw [hk2] at this; cases this
        | ok c1 =>
          obtain ⟨_, _, hall2⟩ := (krCols_ok_iff _ _).1 hk2
          rw [getD_take_zero _ _ _ (show 0 < n by omega), all_take _ n (0, 0)] at hall2
          simp only [rejectIf_ok, bne_eq_false_iff_eq]
          constructor
          · intro hc i hi hne'
            by_cases hlt : i < n
            · exact beq_iff_eq.1 (hall2 i hlt (by omega))
            · have := beq_iff_eq.1 (hall1 i (by omega) (by omega))
              rw [this, ← hc2, hc]
          · intro h
            rw [hc2, h (n + 1) (by omega) (by omega)]

theorem validate_mttkrp_dense_ok_iff (a : MttkrpArgs) : validate_mttkrp_dense a = .ok () ↔ Pre_mttkrp a := by
  unfold validate_mttkrp_dense Pre_mttkrp
  by_cases h0 : a.shape.length < 2
  · rw [if_pos (by simpa using h0)]
    simp only [error_ne_ok, false_iff]
    rintro ⟨h, _⟩; omega
  rw [if_neg (by simpa using h0)]
  by_cases h1 : IsMode a.shape.length a.n
  · rw [if_neg (by rw [notMode_dec]; exact not_not.2 h1)]
    by_cases h2 : a.U.length = a.shape.length
    · rw [if_neg (by simp [h2])]
      by_cases h4 : (usedIdx a.shape.length a.n).all (fun i => (a.U.getD i (0, 0)).1 == a.shape.getD i 0) = true
      · rw [if_neg (by rw [not_bnot_true]; exact h4)]
        have hn0 : 0 ≤ a.n := h1.1
        have hnN : a.n.toNat < a.shape.length := by have := h1.2; omega
        have hR : usedR a.U a.n = (if a.n.toNat = 0 then (a.U.getD 1 (0, 0)).2 else (a.U.getD 0 (0, 0)).2) := by
          unfold usedR
          by_cases hz : a.n = 0
          · rw [if_pos hz, if_pos (by omega)]
          · rw [if_neg hz, if_neg (by omega)]
        rw [hR]
        have := krTail_ok_iff a.U a.shape.length a.n.toNat (by omega) hnN h2
        rw [this]
        rw [usedIdx_all] at h4
        simp only [h1, h2, true_and, prod_eq_iff, show 2 ≤ a.shape.length by omega, beq_iff_eq] at h4 ⊢
        constructor
        · intro h i hi hne
          exact ⟨h4 i hi hne, h i hi (by omega)⟩
        · intro h i hi hne
          exact (h i hi (by omega)).2
      · rw [if_pos (by rw [bnot_true]; exact h4)]
        simp only [error_ne_ok, false_iff]
        rintro ⟨_, _, _, h⟩
        apply h4
        rw [usedIdx_all]
        intro i hi hne
        rw [beq_iff_eq]
        exact ((prod_eq_iff _ _ _).1 (h i hi hne)).1
    · rw [if_pos (by simp [h2])]
      simp [h2]
  · rw [if_pos (by rw [notMode_dec]; exact h1)]
    simp [h1]

theorem getD_map_range {β : Type} (N : Nat) (f : Nat → β) (i : Nat) (d : β) (h : i < N) :
    ((List.range N).map f).getD i d = f i := by
  rw [getD_of_lt _ _ _ (by simpa using h)]; simp

theorem validate_mttkrp_ttensor_ok_iff (a : MttkrpArgs) (core : List Nat) (hc : core.length = a.shape.length) :
    validate_mttkrp_ttensor a core = .ok () ↔ Pre_mttkrp a := by
  unfold validate_mttkrp_ttensor
  by_cases h2 : a.U.length = a.shape.length
  · rw [if_neg (by simp [h2])]
    by_cases h4 : (usedIdx a.shape.length a.n).all (fun i => (a.U.getD i (0, 0)).1 == a.shape.getD i 0) = true
    · rw [if_neg (by rw [not_bnot_true]; exact h4), validate_mttkrp_dense_ok_iff]
      rw [usedIdx_all] at h4
      unfold Pre_mttkrp
      simp only [hc, List.length_map, List.length_range, h2, true_and]
      constructor
      · rintro ⟨hN, hm, h⟩
        refine ⟨hN, hm, fun i hi hne => ?_⟩
        have hW := h i hi hne
        rw [getD_map_range _ _ _ _ hi, if_neg (show ¬ Int.ofNat i = a.n from hne), prod_eq_iff] at hW
        rw [prod_eq_iff]
        refine ⟨beq_iff_eq.1 (h4 i hi hne), ?_⟩
        rw [hW.2]
        unfold usedR
        by_cases hz : a.n = 0
        · rw [if_pos hz, if_pos hz, getD_map_range _ _ _ _ (by omega : 1 < a.shape.length), if_neg (by rw [hz]; decide)]
        · rw [if_neg hz, if_neg hz, getD_map_range _ _ _ _ (by omega : 0 < a.shape.length),
            if_neg (by intro e; exact hz e.symm)]
      · rintro ⟨hN, hm, h⟩
        refine ⟨hN, hm, fun i hi hne => ?_⟩
        rw [getD_map_range _ _ _ _ hi, if_neg (show ¬ Int.ofNat i = a.n from hne), prod_eq_iff]
        refine ⟨rfl, ?_⟩
        rw [((prod_eq_iff _ _ _).1 (h i hi hne)).2]
        unfold usedR
        by_cases hz : a.n = 0
        · rw [if_pos hz, if_pos hz, getD_map_range _ _ _ _ (by omega : 1 < a.shape.length), if_neg (by rw [hz]; decide)]
        · rw [if_neg hz, if_neg hz, getD_map_range _ _ _ _ (by omega : 0 < a.shape.length),
            if_neg (by intro e; exact hz e.symm)]
    · rw [if_pos (by rw [bnot_true]; exact h4)]
      simp only [error_ne_ok, false_iff]
      rintro ⟨_, _, _, h⟩
      apply h4
      rw [usedIdx_all]
      intro i hi hne
      rw [beq_iff_eq]
      exact ((prod_eq_iff _ _ _).1 (h i hi hne)).1
  · rw [if_pos (by simp [h2])]
    simp [Pre_mttkrp, h2]

theorem validate_mttkrp_ok_iff (a : MttkrpArgs) : validate_mttkrp a = .ok () ↔ Pre_mttkrp a := by
  unfold validate_mttkrp
  cases hr : a.rep with
  | dense => exact validate_mttkrp_dense_ok_iff a
  | sparse => exact validate_mttkrp_sparse_ok_iff a
  | ktensor => exact validate_mttkrp_ktensor_ok_iff a
  | ttensor => exact validate_mttkrp_ttensor_ok_iff a _ (by simp)
  | sumtensor =>
    dsimp only
    cases hd : validate_mttkrp_dense a with
    | error e =>
      simp only [error_ne_ok, false_iff]
      intro h
      have := (validate_mttkrp_dense_ok_iff a).2 h
      rw [hd] at this; cases this
    | ok u => exact validate_mttkrp_ktensor_ok_iff a

/-! ### shape comparisons -/

theorem validate_sameShape_ok_iff (sa sb : List Nat) : validate_sameShape sa sb = .ok () ↔ Pre_sameShape sa sb := by
  simp [validate_sameShape, Pre_sameShape]

theorem validate_tenmatAdd_ok_iff (sa sb : List Nat) : validate_tenmatAdd sa sb = .ok () ↔ Pre_tenmatAdd sa sb := by
  simp [validate_tenmatAdd, Pre_tenmatAdd]

theorem validate_tenmatMul_ok_iff (a b : MatS) : validate_tenmatMul a b = .ok () ↔ Pre_tenmatMul a b := by
  simp [validate_tenmatMul, Pre_tenmatMul]

/-! ### contract, collapse, scale -/

theorem validate_contract_ok_iff (shape : List Nat) (i j : Int) :
    validate_contract shape i j = .ok () ↔ Pre_contract shape i j := by
  unfold validate_contract Pre_contract
  by_cases h1 : IsMode shape.length i ∧ IsMode shape.length j
  · have hc : (decide (0 ≤ i) && decide (i < (shape.length : Int)) && decide (0 ≤ j) && decide (j < (shape.length : Int))) = true := by
      have := (isMode_dec _ _).2 h1.1
      have := (isMode_dec _ _).2 h1.2
      simp_all
    rw [if_neg (by rw [not_bnot_true]; exact hc)]
    by_cases h2 : shape.getD i.toNat 0 = shape.getD j.toNat 0
    · rw [if_neg (by rw [bne_iff_ne, ne_eq, not_not]; exact h2), rejectIf_ok, beq_eq_false_iff_ne]
      simp only [h1.1, h1.2, h2, true_and, and_true]
    · rw [if_pos (by rw [bne_iff_ne]; exact h2)]
      simp only [error_ne_ok, false_iff]
      rintro ⟨_, _, _, h⟩; exact h2 h
  · have hc : (decide (0 ≤ i) && decide (i < (shape.length : Int)) && decide (0 ≤ j) && decide (j < (shape.length : Int))) = false := by
      rw [← Bool.not_eq_true]
      intro hc
      apply h1
      simp only [Bool.and_eq_true, decide_eq_true_eq] at hc
      exact ⟨⟨hc.1.1.1, hc.1.1.2⟩, ⟨hc.1.2, hc.2⟩⟩
    rw [if_pos (by rw [hc]; rfl)]
    simp only [error_ne_ok, false_iff]
    rintro ⟨a, b, _⟩; exact h1 ⟨a, b⟩

theorem validate_collapse_ok_iff (shape : List Nat) (dims : Option (List Int)) :
    validate_collapse shape dims = .ok () ↔ Pre_collapse shape dims := by
  unfold validate_collapse Pre_collapse
  rw [validate_dimscheck_ok_iff]
  simp [Pre_dimscheck, optAll]

theorem validate_scale_ok_iff (a : ScaleArgs) : validate_scale a = .ok () ↔ Pre_scale a := by
  unfold validate_scale Pre_scale
  cases hd : dimscheck19 a.shape.length none (some a.dims) none with
  | error e =>
    simp only [error_ne_ok, false_iff]
    rintro ⟨hm, _⟩
    have := (dimscheck19_ok_iff a.shape.length none (some a.dims) none _).2 ⟨by simp [Pre_dimscheck, optAll, hm], rfl⟩
    rw [hd] at this; cases this
  | ok r =>
    obtain ⟨hp, rfl⟩ := (dimscheck19_ok_iff _ _ _ _ _).1 hd
    have hm : ModesOK a.shape.length a.dims := by simpa [Pre_dimscheck, optAll] using hp
    simp only [selModes, hm, true_and]
    by_cases hk : a.rep = Rep.sparse ∧ a.fkind = FactorKind.array
    · rw [if_pos hk, rejectIf_ok, Bool.or_eq_false_iff, bne_eq_false_iff_eq, bne_eq_false_iff_eq, length_sortedModes]
      simp only [hk, and_self, forall_const]
      constructor
      · rintro ⟨h1, h2⟩
        refine ⟨?_, h1⟩
        rw [h2, sortedModes_singleton _ h1]; rfl
      · rintro ⟨h2, h1⟩
        refine ⟨h1, ?_⟩
        rw [h2, sortedModes_singleton _ h1]; rfl
    · rw [if_neg hk, rejectIf_ok, bne_eq_false_iff_eq]
      constructor
      · intro h; exact ⟨h, fun h' => absurd h' hk⟩
      · intro h; exact h.1

/-! ### permute, reshape -/

theorem validate_permute_ok_iff (shape : List Nat) (order : List Int) :
    validate_permute shape order = .ok () ↔ Pre_permute shape order := by
  unfold validate_permute Pre_permute
  rw [rejectIf_ok, Bool.not_eq_false', isPermOfI_iff]

theorem validate_reshape_ok_iff (shape target : List Nat) (old : Option (List Int)) :
    validate_reshape shape target old = .ok () ↔ Pre_reshape shape target old := by
  unfold validate_reshape Pre_reshape
  cases old with
  | none =>
    simp only [optAll, true_and, rejectIf_ok, bne_eq_false_iff_eq, Option.getD_none, List.map_map]
    have : (List.range shape.length).map ((fun d : Int => shape.getD d.toNat 0) ∘ Int.ofNat) = shape := by
      apply List.ext_getElem
      · simp
      · intro i h1 h2
        simp only [List.length_map, List.length_range] at h1
        simp only [List.getElem_map, List.getElem_range, Function.comp]
        exact getD_of_lt _ _ _ h2
    rw [this]
    exact eq_comm
  | some om =>
    simp only [optAll, Option.getD_some]
    cases hd : dimscheck19 shape.length none (some om) none with
    | error e =>
      simp only [error_ne_ok, false_iff]
      rintro ⟨hm, _⟩
      have := (dimscheck19_ok_iff shape.length none (some om) none _).2 ⟨by simp [Pre_dimscheck, optAll, hm], rfl⟩
      rw [hd] at this; cases this
    | ok r =>
      obtain ⟨hp, _⟩ := (dimscheck19_ok_iff _ _ _ _ _).1 hd
      have hm : ModesOK shape.length om := by simpa [Pre_dimscheck, optAll] using hp
      simp only [rejectIf_ok, bne_eq_false_iff_eq, hm, true_and]

/-! ### matricization requests -/

theorem validate_toSptenmat_ok_iff (n : Nat) (rdims cdims : Option (List Int)) (cyc : Option Cyclic) :
    validate_toSptenmat n rdims cdims cyc = .ok () ↔ Pre_toMat n rdims cdims cyc := by
  unfold validate_toSptenmat Pre_toMat
  cases wrapDimsI n rdims cdims cyc with
  | none => simp
  | some rc => simp [isPermOfI_iff]

/-- every mode the caller listed is still listed after the conventions have been applied -/
theorem wrapDimsI_keeps (n : Nat) (rdims cdims : Option (List Int)) (cyc : Option Cyclic) (r c : List Int)
    (h : wrapDimsI n rdims cdims cyc = some (r, c)) :
    (∀ x ∈ rdims.getD [], x ∈ r ++ c) ∧ (∀ x ∈ cdims.getD [], x ∈ r ++ c) := by
  cases rdims with
  | none =>
    cases cdims with
    | none => simp [wrapDimsI] at h
    | some c' =>
      simp only [wrapDimsI, Option.some.injEq, Prod.mk.injEq] at h
      obtain ⟨rfl, rfl⟩ := h
      exact ⟨by simp, fun x hx => List.mem_append_right _ hx⟩
  | some r' =>
    cases cdims with
    | some c' =>
      simp only [wrapDimsI, Option.some.injEq, Prod.mk.injEq] at h
      obtain ⟨rfl, rfl⟩ := h
      exact ⟨fun x hx => List.mem_append_left _ hx, fun x hx => List.mem_append_right _ hx⟩
    | none =>
      refine ⟨?_, by simp⟩
      simp only [Option.getD_some]
      have key : (r = r' ∧ True) ∨ (c = r') := by
        match r', cyc, h with
        | [], _, h => simp only [wrapDimsI, Option.some.injEq, Prod.mk.injEq] at h; exact Or.inl ⟨h.1.symm, trivial⟩
        | [r0], none, h => simp only [wrapDimsI, Option.some.injEq, Prod.mk.injEq] at h; exact Or.inl ⟨h.1.symm, trivial⟩
        | [r0], some .t, h => simp only [wrapDimsI, Option.some.injEq, Prod.mk.injEq] at h; exact Or.inr h.2.symm
        | [r0], some .fc, h => simp only [wrapDimsI, Option.some.injEq, Prod.mk.injEq] at h; exact Or.inl ⟨h.1.symm, trivial⟩
        | [r0], some .bc, h => simp only [wrapDimsI, Option.some.injEq, Prod.mk.injEq] at h; exact Or.inl ⟨h.1.symm, trivial⟩
        | _ :: _ :: _, _, h => simp only [wrapDimsI, Option.some.injEq, Prod.mk.injEq] at h; exact Or.inl ⟨h.1.symm, trivial⟩
      rcases key with ⟨rfl, _⟩ | rfl
      · intro x hx; exact List.mem_append_left _ hx
      · intro x hx; exact List.mem_append_right _ hx

theorem wrapDimsI_none_iff (n : Nat) (rdims cdims : Option (List Int)) (cyc : Option Cyclic) :
    wrapDimsI n rdims cdims cyc = none ↔ rdims = none ∧ cdims = none := by
  cases rdims with
  | none => cases cdims <;> simp [wrapDimsI]
  | some r' =>
    cases cdims with
    | some c' => simp [wrapDimsI]
    | none =>
      simp only [reduceCtorEq, false_and, iff_false]
      match r', cyc with
      | [], _ => simp [wrapDimsI]
      | [r0], none => simp [wrapDimsI]
      | [r0], some .t => simp [wrapDimsI]
      | [r0], some .fc => simp [wrapDimsI]
      | [r0], some .bc => simp [wrapDimsI]
      | _ :: _ :: _, _ => simp [wrapDimsI]

theorem optInRange_of_perm (n : Nat) (o : Option (List Int)) (p : List Int) (hp : IsPermI p n)
    (hk : ∀ x ∈ o.getD [], x ∈ p) : optInRange n o = true := by
  cases o with
  | none => rfl
  | some r =>
    show allInRange n r = true
    rw [allInRange_iff]
    intro m hm
    exact hp.modesOK.1 m (hk m (by simpa using hm))

theorem validate_toTenmat_ok_iff (n : Nat) (rdims cdims : Option (List Int)) (cyc : Option Cyclic) :
    validate_toTenmat n rdims cdims cyc = .ok () ↔ Pre_toMat n rdims cdims cyc := by
  unfold validate_toTenmat Pre_toMat
  cases hw : wrapDimsI n rdims cdims cyc with
  | none =>
    obtain ⟨rfl, rfl⟩ := (wrapDimsI_none_iff _ _ _ _).1 hw
    simp
  | some rc =>
    obtain ⟨r, c⟩ := rc
    have hnn : ¬ (rdims = none ∧ cdims = none) := by
      rw [← wrapDimsI_none_iff n rdims cdims cyc, hw]; simp
    have h1 : (rdims.isNone && cdims.isNone) = false := by
      cases rdims <;> cases cdims <;> simp_all
    rw [if_neg (by rw [h1]; simp)]
    obtain ⟨hkr, hkc⟩ := wrapDimsI_keeps _ _ _ _ _ _ hw
    show (if (!optInRange n rdims) = true then _ else if (!optInRange n cdims) = true then _ else rejectIf (!isPermOfI (r ++ c) n)) = _ ↔ IsPermI (r ++ c) n
    by_cases hp : IsPermI (r ++ c) n
    · rw [if_neg (by rw [not_bnot_true]; exact optInRange_of_perm n rdims _ hp hkr),
        if_neg (by rw [not_bnot_true]; exact optInRange_of_perm n cdims _ hp hkc)]
      simp [isPermOfI_iff, hp]
    · simp only [hp, iff_false]
      by_cases ha : (!optInRange n rdims) = true
      · rw [if_pos ha]; simp
      · rw [if_neg ha]
        by_cases hb : (!optInRange n cdims) = true
        · rw [if_pos hb]; simp
        · rw [if_neg hb, rejectIf_ok, Bool.not_eq_false', isPermOfI_iff]
          exact hp

/-- the permutation property as a rearrangement of `0 .. n-1` -/
theorem isPermI_iff_perm (p : List Int) (n : Nat) : IsPermI p n ↔ ((List.range n).map Int.ofNat).Perm p := by
  constructor
  · exact IsPermI.perm
  · intro h
    refine ⟨by simpa using h.length_eq.symm, fun m hm => ?_⟩
    exact h.mem_iff.1 (List.mem_map.2 ⟨m, List.mem_range.2 hm, rfl⟩)

/-- the complement followed by the listed modes is a permutation iff the listed modes are
modes, each listed once -/
theorem complI_append_perm (n : Nat) (d : List Int) : IsPermI (complI n d ++ d) n ↔ ModesOK n d := by
  constructor
  · intro h
    have hm := h.modesOK
    exact ⟨fun m hmem => hm.1 m (List.mem_append_right _ hmem), (List.nodup_append.1 hm.2).2.1⟩
  · intro h
    rw [isPermI_iff_perm]
    have h1 : ((List.range n).map Int.ofNat).Perm
        (((List.range n).map Int.ofNat).filter (fun k => !d.contains k) ++ ((List.range n).map Int.ofNat).filter (fun k => !!d.contains k)) :=
      (List.filter_append_perm _ _).symm
    have h2 : (((List.range n).map Int.ofNat).filter (fun k => !!d.contains k)).Perm d := by
      apply (List.perm_ext_iff_of_nodup ((nodup_range_ofNat n).filter _) h.2).2
      intro x
      simp only [List.mem_filter, Bool.not_not, List.contains_eq_mem, decide_eq_true_eq]
      constructor
      · exact fun hx => hx.2
      · intro hx
        obtain ⟨h0, hlt⟩ := h.1 x hx
        refine ⟨List.mem_map.2 ⟨x.toNat, List.mem_range.2 (by omega), ?_⟩, hx⟩
        show Int.ofNat x.toNat = x
        simp [Int.toNat_of_nonneg h0]
    exact h1.trans (List.Perm.append_left _ h2)

theorem append_complI_perm (n : Nat) (d : List Int) : IsPermI (d ++ complI n d) n ↔ ModesOK n d := by
  rw [← complI_append_perm, isPermI_iff_perm, isPermI_iff_perm]
  exact ⟨fun h => h.trans List.perm_append_comm, fun h => h.trans List.perm_append_comm⟩

theorem pyGet_of_mode (l : List Nat) (k : Int) (h : IsMode l.length k) : pyGet l k = some (l.getD k.toNat 0) := by
  unfold pyGet
  rw [if_pos h.1]
  have : k.toNat < l.length := by have := h.1; have := h.2; omega
  rw [List.getElem?_eq_getElem this, getD_of_lt _ _ _ this]

theorem pyGather_of_modes (l : List Nat) (ks : List Int) (h : ∀ k ∈ ks, IsMode l.length k) :
    pyGather l ks = .ok (ks.map (fun k => l.getD k.toNat 0)) := by
  unfold pyGather
  induction ks with
  | nil => rfl
  | cons k rest ih =>
    rw [List.mapM_cons, pyGet_of_mode l k (h k (List.mem_cons_self ..))]
    have := ih (fun k' hk' => h k' (List.mem_cons_of_mem _ hk'))
    simp only [bind, Except.bind, this, List.map_cons, pure, Except.pure]

theorem map_eq_map_iff_getD (xd yd : List Int) (f g : Int → Nat) :
    xd.map f = yd.map g ↔ xd.length = yd.length ∧ ∀ k, k < xd.length → f (xd.getD k 0) = g (yd.getD k 0) := by
  constructor
  · intro h
    have hl : xd.length = yd.length := by simpa using congrArg List.length h
    refine ⟨hl, fun k hk => ?_⟩
    have := congrArg (fun l => l[k]?) h
    simp only [List.getElem?_map] at this
    rw [List.getElem?_eq_getElem hk, List.getElem?_eq_getElem (hl ▸ hk)] at this
    simp only [Option.map_some, Option.some.injEq] at this
    rw [getD_of_lt _ _ _ hk, getD_of_lt _ _ _ (hl ▸ hk)]
    exact this
  · rintro ⟨hl, h⟩
    apply List.ext_getElem (by simpa using hl)
    intro i h1 h2
    simp only [List.length_map] at h1 h2
    have := h i h1
    rw [getD_of_lt _ _ _ h1, getD_of_lt _ _ _ h2] at this
    simpa using this

theorem validate_ttt_ok_iff (a : TttArgs) : validate_ttt a = .ok () ↔ Pre_ttt a := by
  have hx : validate_toTenmat a.sa.length none (some a.xd) none = .ok () ↔ ModesOK a.sa.length a.xd := by
    rw [validate_toTenmat_ok_iff]; exact complI_append_perm _ _
  have hy : validate_toTenmat a.sb.length (some a.yd) none none = .ok () ↔ ModesOK a.sb.length a.yd := by
    rw [validate_toTenmat_ok_iff]
    have : wrapDimsI a.sb.length (some a.yd) none none = some (a.yd, complI a.sb.length a.yd) := by
      unfold wrapDimsI; split <;> simp_all
    unfold Pre_toMat
    rw [this]
    exact append_complI_perm _ _
  unfold Pre_ttt
  by_cases hmx : ModesOK a.sa.length a.xd
  · by_cases hmy : ModesOK a.sb.length a.yd
    · unfold validate_ttt
      rw [pyGather_of_modes _ _ hmx.1, pyGather_of_modes _ _ hmy.1]
      simp only [hmx, hmy, true_and]
      by_cases he : a.xd.map (fun k => a.sa.getD k.toNat 0) = a.yd.map (fun k => a.sb.getD k.toNat 0)
      · rw [if_neg (by rw [bne_iff_ne, ne_eq, not_not]; exact he), hx.2 hmx, hy.2 hmy]
        simp only [true_iff]
        exact (map_eq_map_iff_getD _ _ _ _).1 he
      · rw [if_pos (by rw [bne_iff_ne]; exact he)]
        simp only [error_ne_ok, false_iff]
        intro h; exact he ((map_eq_map_iff_getD _ _ _ _).2 h)
    · simp only [hmy, false_and, and_false, iff_false]
      intro h
      unfold validate_ttt at h
      split at h
      · split at h
        · cases h
        · cases hv : validate_toTenmat a.sa.length none (some a.xd) none with
          | ok u => rw [hv] at h; exact hmy (hy.1 h)
          | error e => rw [hv] at h; cases h
      · cases h
  · simp only [hmx, false_and, iff_false]
    intro h
    unfold validate_ttt at h
    split at h
    · split at h
      · cases h
      · cases hv : validate_toTenmat a.sa.length none (some a.xd) none with
        | ok u => exact hmx (hx.1 (by rw [hv]))
        | error e => rw [hv] at h; cases h
    · cases h

/-! ### constructors -/

theorem validate_tensor_ok_iff (dshape shape : List Nat) (hs : shape ≠ []) :
    validate_tensor dshape shape = .ok () ↔ Pre_tensor dshape shape := by
  unfold validate_tensor Pre_tensor
  rw [if_neg (by simpa using hs), rejectIf_ok, bne_eq_false_iff_eq]
  exact eq_comm

theorem all_rowInShape (shape : List Nat) (subs : List (List Int)) :
    subs.all (rowInShape shape) = true ↔ ∀ row ∈ subs, RowInShape shape row := by
  rw [List.all_eq_true]
  exact ⟨fun h row hr => (rowInShape_iff _ _).1 (h row hr), fun h row hr => (rowInShape_iff _ _).2 (h row hr)⟩

theorem validate_sptensor_ok_iff (a : SubsArgs) : validate_sptensor a = .ok () ↔ Pre_subs a := by
  unfold validate_sptensor Pre_subs
  by_cases he : a.subs = []
  · rw [if_pos (by simp [he]), rejectIf_ok]
    simp [he]
  · rw [if_neg (by simpa using he)]
    by_cases h1 : a.nvals = a.subs.length
    · rw [if_neg (by simp [h1])]
      by_cases h2 : a.width = a.shape.length
      · rw [if_neg (by simp [h2]), rejectIf_ok, Bool.not_eq_false', all_rowInShape]
        simp [he, h1, h2]
      · rw [if_pos (by simp [h2])]
        simp [he, h2]
    · rw [if_pos (by simp [h1])]
      simp [h1]

theorem validate_extract_ok_iff (a : SubsArgs) : validate_extract a = .ok () ↔ Pre_extract a := by
  unfold validate_extract Pre_extract
  by_cases h2 : a.width = a.shape.length
  · rw [if_neg (by simp [h2]), rejectIf_ok, Bool.not_eq_false', all_rowInShape]
    simp [h2]
  · rw [if_pos (by simp [h2])]
    simp [h2]

/-- a row inside the shape has no negative entry among its first `N` columns; `from_aggregator`
tests the sign of every entry, which for an array with one column per mode is the same -/
theorem validate_fromAggregator_ok_iff (a : SubsArgs) (hw : ∀ row ∈ a.subs, row.length = a.width) :
    validate_fromAggregator a = .ok () ↔ Pre_subs a := by
  unfold validate_fromAggregator Pre_subs
  by_cases he : a.subs = []
  · simp only [he, List.all_nil, Bool.not_true, Bool.false_eq_true, if_false, List.length_nil, List.isEmpty_nil,
      Bool.false_and, ne_eq, not_true_eq_false, false_implies, List.not_mem_nil, true_and, implies_true]
    by_cases h1 : a.nvals = 0
    · simp [h1, rejectIf]
    · simp [h1]
  · by_cases h0 : a.subs.all (fun row => row.all (fun x => decide (0 ≤ x))) = true
    · rw [if_neg (by rw [not_bnot_true]; exact h0)]
      by_cases h1 : a.nvals = a.subs.length
      · rw [if_neg (by simp [h1])]
        by_cases h2 : a.width = a.shape.length
        · rw [if_neg (by simp [h2]), if_neg (by simp [h2]), rejectIf_ok, Bool.not_eq_false', all_rowInShape]
          simp [he, h1, h2]
        · by_cases h3 : a.width > a.shape.length
          · rw [if_pos (by simp [he, h3])]
            simp [he, h2]
          · rw [if_neg (by simp [he, h3]), if_pos (by simp [he]; omega)]
            simp [he, h2]
      · rw [if_pos (by simp [h1])]
        simp [h1]
    · rw [if_pos (by rw [bnot_true]; exact h0)]
      simp only [error_ne_ok, false_iff]
      rintro ⟨hwid, hrows, _⟩
      apply h0
      rw [List.all_eq_true]
      intro row hr
      rw [List.all_eq_true]
      intro x hx
      obtain ⟨k, hk, rfl⟩ := List.mem_iff_getElem.1 hx
      have hlen := hw row hr
      have := (hrows row hr) k (by rw [← hwid he, ← hlen]; exact hk)
      rw [getD_of_lt _ _ _ hk] at this
      simpa using this.1

theorem validate_ktensor_ok_iff (fs : List MatS) (nw : Option Nat) :
    validate_ktensor fs nw = .ok () ↔ Pre_ktensor fs nw := by
  unfold validate_ktensor Pre_ktensor
  cases fs with
  | nil => simp
  | cons f0 rest =>
    simp only [ne_eq, reduceCtorEq, not_false_eq_true, List.getD_cons_zero, true_and]
    by_cases h : (f0 :: rest).all (fun f => f.2 == f0.2) = true
    · rw [if_neg (by rw [not_bnot_true]; exact h)]
      have h' : ∀ f ∈ f0 :: rest, f.2 = f0.2 := by simpa [List.all_eq_true] using h
      cases nw with
      | none =>
        simp only [optAll, and_true, true_iff]
        exact fun f hf => h' f hf
      | some w =>
        simp only [optAll, rejectIf_ok, bne_eq_false_iff_eq]
        exact ⟨fun hw => ⟨fun f hf => h' f hf, hw⟩, fun hw => hw.2⟩
    · rw [if_pos (by rw [bnot_true]; exact h)]
      simp only [error_ne_ok, false_iff]
      rintro ⟨h', _⟩
      apply h
      simpa [List.all_eq_true] using h'

theorem validate_ttensor_ok_iff (core : List Nat) (fs : List MatS) :
    validate_ttensor core fs = .ok () ↔ Pre_ttensor core fs := by
  unfold validate_ttensor Pre_ttensor
  by_cases h : core.length = fs.length
  · rw [if_neg (by simp [h]), rejectIf_ok, Bool.not_eq_false', List.all_eq_true]
    simp only [List.mem_range, beq_iff_eq, h, true_and]
  · rw [if_pos (by simp [h])]
    simp only [error_ne_ok, false_iff]
    rintro ⟨h', _⟩; exact h h'.symm

theorem validate_sumtensor_ok_iff (shapes : List (List Nat)) :
    validate_sumtensor shapes = .ok () ↔ Pre_sumtensor shapes := by
  unfold validate_sumtensor Pre_sumtensor
  rw [rejectIf_ok, Bool.not_eq_false', List.all_eq_true]
  cases shapes with
  | nil => simp
  | cons s0 rest =>
    simp only [List.drop_one, List.tail_cons, List.getD_cons_zero, beq_iff_eq, List.mem_cons, forall_eq_or_imp, true_and]
    exact ⟨fun h s hs => (h s hs).symm, fun h s hs => (h s hs).symm⟩

theorem validate_fromVector_ok_iff (shape : List Nat) (n : Nat) (cw : Bool) :
    validate_fromVector shape n cw = .ok () ↔ Pre_fromVector shape n cw := by
  unfold validate_fromVector Pre_fromVector
  by_cases h : shape.sum + (if cw = true then 1 else 0) = 0
  · rw [if_pos (by simp [h])]
    simp [h]
  · rw [if_neg (by simpa using h), rejectIf_ok, bne_eq_false_iff_eq]
    constructor
    · intro h'; exact ⟨h', by omega⟩
    · intro h'; exact h'.1

/-- the cells of the row modes times the cells of the column modes are the cells of the
tensor when the two lists together are a permutation of the modes -/
theorem numel_split (tshape : List Nat) (r c : List Int) (h : IsPermI (r ++ c) tshape.length) :
    numel (r.map (fun k => tshape.getD k.toNat 0)) * numel (c.map (fun k => tshape.getD k.toNat 0)) = numel tshape := by
  rw [← numel_append, ← List.map_append]
  have hp := (h.perm.map (fun k : Int => tshape.getD k.toNat 0)).symm
  rw [numel_perm hp, List.map_map]
  have : (List.range tshape.length).map ((fun k : Int => tshape.getD k.toNat 0) ∘ Int.ofNat) = tshape := by
    have h0 := Pyttb.map_getD_range tshape
    calc (List.range tshape.length).map ((fun k : Int => tshape.getD k.toNat 0) ∘ Int.ofNat)
        = (List.range tshape.length).map (fun k => tshape.getD k 0) := by
          apply List.map_congr_left
          intro k _
          rfl
      _ = tshape := h0
  rw [this]

theorem validate_tenmat_tail_ok (dd mm : MatS) (b : Bool)
    (h : (if dd != mm then (.error .reject : Except Reject Unit) else rejectIf b) = .ok ()) :
    dd = mm ∧ b = false := by
  by_cases hd : dd = mm
  · have : (dd != mm) = false := by simp [hd]
    rw [this] at h
    simp only [Bool.false_eq_true, if_false] at h
    exact ⟨hd, (rejectIf_ok b).1 h⟩
  · have : (dd != mm) = true := by simp [hd]
    rw [this] at h
    simp only [if_true] at h
    cases h

theorem validate_tenmat_ok_iff (a : TenmatArgs) : validate_tenmat a = .ok () ↔ Pre_tenmat a := by
  unfold validate_tenmat Pre_tenmat
  by_cases h1 : a.dshape.1 * a.dshape.2 = numel a.tshape
  · rw [if_neg (by simp [h1])]
    cases hw : wrapDimsI a.tshape.length a.rdims a.cdims none with
    | none => simp [h1]
    | some rc =>
      obtain ⟨r, c⟩ := rc
      simp only [h1, true_and]
      by_cases hp : IsPermI (r ++ c) a.tshape.length
      · have hm := hp.modesOK
        rw [pyGather_of_modes _ _ (fun k hk => hm.1 k (List.mem_append_left _ hk)),
          pyGather_of_modes _ _ (fun k hk => hm.1 k (List.mem_append_right _ hk))]
        have hsplit := numel_split a.tshape r c hp
        have hperm : rejectIf (!isPermOfI (r ++ c) a.tshape.length) = .ok () := by
          rw [rejectIf_ok, Bool.not_eq_false', isPermOfI_iff]; exact hp
        have hpf : (!isPermOfI (r ++ c) a.tshape.length) = false := (rejectIf_ok _).1 hperm
        unfold sideSize
        dsimp only
        constructor
        · intro h
          refine ⟨hp, ?_⟩
          intro hv
          have := (validate_tenmat_tail_ok _ _ _ h).1
          rw [hv] at this
          simp only [Bool.false_and, Bool.false_eq_true, if_false] at this
          exact this
        · rintro ⟨_, hsh⟩
          cases hv : a.vec with
          | true =>
            rw [if_neg (by rw [hsplit]; simp)]
            exact hperm
          | false =>
            have hd := hsh hv
            rw [if_neg (by rw [← hd]; simp)]
            exact hperm
      · simp only [hp, false_and, iff_false]
        intro h
        split at h
        · have := (validate_tenmat_tail_ok _ _ _ h).2
          rw [Bool.not_eq_false', isPermOfI_iff] at this
          exact hp this
        · cases h
  · rw [if_pos (by simp [h1])]
    simp [h1]

theorem validate_sptenmat_ok_iff (a : SptenmatArgs) : validate_sptenmat a = .ok () ↔ Pre_sptenmat a := by
  unfold validate_sptenmat Pre_sptenmat
  cases hw : wrapDimsI a.tshape.length a.rdims a.cdims none with
  | none => simp
  | some rc =>
    obtain ⟨r, c⟩ := rc
    simp only
    unfold sptenmatTail
    by_cases hp : IsPermI (r ++ c) a.tshape.length
    · rw [if_neg (by rw [not_bnot_true, isPermOfI_iff]; exact hp)]
      by_cases h2 : a.subs ≠ [] → a.width = 2
      · rw [if_neg (by
          intro hc
          simp only [Bool.and_eq_true, Bool.not_eq_true', List.isEmpty_eq_false_iff, bne_iff_ne] at hc
          exact hc.2 (h2 hc.1))]
        by_cases h3 : a.subs.all (fun row => decide (0 ≤ row.getD 0 0) && decide (0 ≤ row.getD 1 0)) = true
        · rw [if_neg (by rw [not_bnot_true]; exact h3)]
          by_cases h4 : a.subs.all (fun row => decide (row.getD 0 0 < (sideSize a.tshape r : Int))) = true
          · rw [if_neg (by rw [not_bnot_true]; exact h4)]
            by_cases h5 : a.subs.all (fun row => decide (row.getD 1 0 < (sideSize a.tshape c : Int))) = true
            · rw [if_neg (by rw [not_bnot_true]; exact h5), rejectIf_ok, bne_eq_false_iff_eq]
              simp only [List.all_eq_true, Bool.and_eq_true, decide_eq_true_eq] at h3 h4 h5
              simp only [hp, true_and]
              constructor
              · intro hn; exact ⟨h2, fun row hr => ⟨(h3 row hr).1, h4 row hr, (h3 row hr).2, h5 row hr⟩, hn⟩
              · intro hn; exact hn.2.2
            · rw [if_pos (by rw [bnot_true]; exact h5)]
              simp only [error_ne_ok, false_iff]
              rintro ⟨_, _, hr, _⟩
              apply h5
              simp only [List.all_eq_true, decide_eq_true_eq]
              exact fun row hrow => (hr row hrow).2.2.2
          · rw [if_pos (by rw [bnot_true]; exact h4)]
            simp only [error_ne_ok, false_iff]
            rintro ⟨_, _, hr, _⟩
            apply h4
            simp only [List.all_eq_true, decide_eq_true_eq]
            exact fun row hrow => (hr row hrow).2.1
        · rw [if_pos (by rw [bnot_true]; exact h3)]
          simp only [error_ne_ok, false_iff]
          rintro ⟨_, _, hr, _⟩
          apply h3
          simp only [List.all_eq_true, Bool.and_eq_true, decide_eq_true_eq]
          exact fun row hrow => ⟨(hr row hrow).1, (hr row hrow).2.2.1⟩
      · rw [if_pos (by
          simp only [Bool.and_eq_true, Bool.not_eq_true', List.isEmpty_eq_false_iff, bne_iff_ne]
          exact ⟨fun e => h2 (fun hne => absurd e hne), fun e => h2 (fun _ => e)⟩)]
        simp only [error_ne_ok, false_iff]
        rintro ⟨_, h, _⟩; exact h2 h
    · rw [if_pos (by rw [bnot_true, isPermOfI_iff]; exact hp)]
      simp [hp]

/-! ### Kruskal mode arguments, masks, Khatri-Rao -/

theorem validate_kmode_ok_iff (N : Nat) (m : Int) : validate_kmode N m = .ok () ↔ Pre_kmode N m := by
  unfold validate_kmode Pre_kmode
  rw [rejectIf_ok, Bool.not_eq_false', isMode_dec]

theorem validate_karrange_ok_iff (R : Nat) (p : List Int) : validate_karrange R p = .ok () ↔ Pre_karrange R p := by
  unfold validate_karrange Pre_karrange
  rw [rejectIf_ok, Bool.not_eq_false', isPermOfI_iff]

theorem validate_kextract_ok_iff (R : Nat) (idx : List Int) : validate_kextract R idx = .ok () ↔ Pre_kextract R idx := by
  unfold validate_kextract Pre_kextract
  by_cases h : idx.length = 0 ∨ idx.length > R
  · rw [if_pos (by simpa using h)]
    simp only [error_ne_ok, false_iff]
    rintro ⟨_, _, _⟩; omega
  · rw [if_neg (by simpa using h), rejectIf_ok, Bool.not_eq_false', allInRange_iff]
    constructor
    · intro h'; exact ⟨by omega, by omega, h'⟩
    · intro h'; exact h'.2.2

theorem validate_mask_ok_iff (shape wshape : List Nat) : validate_mask shape wshape = .ok () ↔ Pre_mask shape wshape := by
  unfold validate_mask Pre_mask
  by_cases h : wshape.length = shape.length
  · rw [if_neg (by simp [h]), rejectIf_ok, List.any_eq_false]
    simp only [h, true_and, List.mem_range, decide_eq_true_eq, Nat.not_lt]
  · rw [if_pos (by simp [h])]
    simp [h]

theorem validate_khatrirao_ok_iff (ms : List MatS) (rev : Bool) :
    validate_khatrirao ms rev = .ok () ↔ Pre_khatrirao ms := by
  unfold validate_khatrirao Pre_khatrirao
  rw [map_unit_ok]
  have key : ∀ g : List MatS, (∃ c, krCols g = .ok c) ↔ g ≠ [] ∧ ∀ m ∈ g, ∀ m' ∈ g, m.2 = m'.2 := by
    intro g
    constructor
    · rintro ⟨c, hc⟩
      obtain ⟨hne, _, hall⟩ := (krCols_ok_iff g c).1 hc
      rw [List.all_eq_true] at hall
      refine ⟨hne, fun m hm m' hm' => ?_⟩
      rw [beq_iff_eq.1 (hall m hm), beq_iff_eq.1 (hall m' hm')]
    · rintro ⟨hne, h⟩
      refine ⟨_, (krCols_ok_iff g _).2 ⟨hne, rfl, ?_⟩⟩
      rw [List.all_eq_true]
      intro x hx
      rw [beq_iff_eq]
      apply h x hx
      cases g with
      | nil => exact absurd rfl hne
      | cons y ys => simp
  rw [key]
  cases rev with
  | false => simp
  | true =>
    simp only [if_true, ne_eq, List.reverse_eq_nil_iff, List.mem_reverse]

/-! ### in-place operations -/

theorem inPlace_reject {σ : Type} (v : Except Reject Unit) (step : σ → σ) (s : σ) (h : v = .error .reject) :
    inPlace v step s = (s, .error .reject) := by
  subst h; rfl

/-! ### algorithm options -/

theorem optPerm_iff (N : Nat) (o : Option (List Int)) : optPerm N o = true ↔ optAll o (fun p => IsPermI p N) := by
  cases o with
  | none => simp [optPerm, optAll]
  | some p => simp [optPerm, optAll, isPermOfI_iff]

theorem optModes_iff (N : Nat) (o : Option (List Int)) : optModes N o = true ↔ optAll o (ModesOK N) := by
  cases o with
  | none => simp [optModes, optAll]
  | some d =>
    simp only [optModes, optAll, Bool.and_eq_true, allInRange_iff, Bool.not_eq_true', hasDupI_false, ModesOK]

theorem shapeEq_iff (s shape : List Nat) : shapeEq s shape = true ↔ s = shape := by
  unfold shapeEq
  rw [Bool.and_eq_true, List.all_eq_true, beq_iff_eq]
  constructor
  · rintro ⟨hl, h⟩
    apply List.ext_getElem hl
    intro i h1 h2
    have := beq_iff_eq.1 (h i (List.mem_range.2 h2))
    rwa [getD_of_lt _ _ _ h1, getD_of_lt _ _ _ h2] at this
  · rintro rfl
    exact ⟨rfl, fun k _ => beq_self_eq_true _⟩

theorem initCpAls_iff (i : InitSpec) (shape : List Nat) (rank : Int) :
    initCpAls i shape rank = true ↔ i.fitsCp shape rank true := by
  unfold initCpAls InitSpec.fitsCp
  cases i <;> simp [shapeEq_iff]

theorem optEmpty_iff (N : Nat) (o : Option (List Int)) (h : optAll o (ModesOK N)) :
    optEmpty o = false ↔ optAll o (fun d => ModesOK N d ∧ d ≠ []) := by
  cases o with
  | none => simp [optEmpty, optAll]
  | some d =>
    simp only [optAll] at h
    simp [optEmpty, optAll, h]

theorem validate_cpAls_ok_iff (a : CpAlsArgs) : validate_cpAls a = .ok () ↔ Pre_cpAls a := by
  unfold validate_cpAls Pre_cpAls
  rw [← initCpAls_iff, ← optPerm_iff]
  by_cases h2 : optModes a.shape.length a.optdims = true
  · have h2' := (optModes_iff _ _).1 h2
    rw [← optEmpty_iff _ _ h2']
    by_cases hN : a.shape.length = 0
    · cases h1 : optPerm a.shape.length a.dimorder <;> cases h3 : decide (0 < a.rank) <;>
        cases h4 : initCpAls a.init a.shape a.rank <;> cases h5 : optEmpty a.optdims <;> simp_all [rejectIf]
    · have hN' : 0 < a.shape.length := by omega
      cases h1 : optPerm a.shape.length a.dimorder <;> cases h3 : decide (0 < a.rank) <;>
        cases h4 : initCpAls a.init a.shape a.rank <;> cases h5 : optEmpty a.optdims <;> simp_all [rejectIf]
  · have : ¬ optAll a.optdims (fun d => ModesOK a.shape.length d ∧ d ≠ []) := by
      intro h
      apply h2
      rw [optModes_iff]
      cases ho : a.optdims with
      | none => trivial
      | some d => rw [ho] at h; exact h.1
    cases h1 : optPerm a.shape.length a.dimorder <;> simp_all

theorem initCpApr_iff (i : InitSpec) (shape : List Nat) (rank : Int) :
    initCpApr i shape rank = true ↔ i.fitsApr shape rank := by
  unfold initCpApr InitSpec.fitsApr
  cases i <;> simp [shapeEq_iff, and_assoc]

theorem validate_cpApr_ok_iff (a : CpAprArgs) : validate_cpApr a = .ok () ↔ Pre_cpApr a := by
  unfold validate_cpApr Pre_cpApr
  rw [← initCpApr_iff]
  cases h1 : decide (0 < a.rank) <;> cases h2 : a.dataNonneg <;> cases h3 : initCpApr a.init a.shape a.rank <;>
    cases h4 : a.algorithm <;> simp_all [rejectIf]

theorem ranksWithin_iff (shape : List Nat) (ranks : List Int) (lo : Int) :
    ranksWithin shape ranks lo = true ↔ RanksWithin shape ranks lo := by
  simp [ranksWithin, RanksWithin, List.all_eq_true]

theorem validate_hosvd_ok_iff (shape : List Nat) (ranks : Option (List Int)) (dimorder : Option (List Int)) :
    validate_hosvd shape ranks dimorder = .ok () ↔ Pre_hosvd shape ranks dimorder := by
  unfold validate_hosvd Pre_hosvd
  have hr : optRanks shape ranks = true ↔ optAll ranks (fun r => RanksWithin shape r 0) := by
    cases ranks with
    | none => simp [optRanks, optAll]
    | some r => simp only [optRanks, optAll]; exact ranksWithin_iff _ _ _
  by_cases h1 : optRanks shape ranks = true
  · rw [if_neg (by rw [not_bnot_true]; exact h1), rejectIf_ok, Bool.not_eq_false', optPerm_iff]
    simp [hr.1 h1]
  · rw [if_pos (by rw [bnot_true]; exact h1)]
    simp only [error_ne_ok, false_iff]
    rintro ⟨h, _⟩; exact h1 (hr.2 h)

theorem initTucker_iff (i : InitSpec) (shape : List Nat) (rank order : List Int) :
    initTucker i shape rank order = true ↔ i.fitsTucker shape rank order := by
  unfold initTucker InitSpec.fitsTucker
  cases i <;> simp [List.all_eq_true]

theorem validate_tucker_ok_iff (a : TuckerArgs) : validate_tucker a = .ok () ↔ Pre_tucker a := by
  unfold validate_tucker Pre_tucker
  rw [← initTucker_iff, ← optPerm_iff, ← ranksWithin_iff]
  by_cases hN : a.shape.length = 0
  · cases h1 : a.maxitersNonneg <;> cases h2 : ranksWithin a.shape (expandRank a.shape.length a.rank) 1 <;>
      cases h3 : optPerm a.shape.length a.dimorder <;>
      cases h4 : initTucker a.init a.shape a.rank (a.dimorder.getD ((List.range a.shape.length).map Int.ofNat)) <;>
      simp_all [rejectIf]
  · have hN' : 0 < a.shape.length := by omega
    cases h1 : a.maxitersNonneg <;> cases h2 : ranksWithin a.shape (expandRank a.shape.length a.rank) 1 <;>
      cases h3 : optPerm a.shape.length a.dimorder <;>
      cases h4 : initTucker a.init a.shape a.rank (a.dimorder.getD ((List.range a.shape.length).map Int.ofNat)) <;>
      simp_all [rejectIf]

theorem initGcp_iff (i : InitSpec) (shape : List Nat) (rank : Int) :
    initGcp i shape rank = true ↔ i.fitsGcp shape rank := by
  unfold initGcp InitSpec.fitsGcp
  cases i with
  | ktensor s R nf nw => simp
  | mats ms =>
    simp only [Bool.and_eq_true, Bool.not_eq_true', List.isEmpty_eq_false_iff, List.all_eq_true, beq_iff_eq,
      decide_eq_true_eq, ne_eq]
    constructor
    · rintro ⟨⟨⟨hne, hall⟩, hs⟩, hr⟩
      refine ⟨hne, fun m hm => ?_, hs⟩
      rw [hall m hm]; exact hr
    · rintro ⟨hne, hall, hs⟩
      have h0 : ms.getD 0 (0, 0) ∈ ms := by
        cases ms with
        | nil => exact absurd rfl hne
        | cons x xs => simp
      have hr := hall _ h0
      refine ⟨⟨⟨hne, fun m hm => ?_⟩, hs⟩, hr⟩
      have := hall m hm
      omega
  | random => simp
  | nvecs => simp
  | other => simp

theorem validate_gcp_ok_iff (a : GcpArgs) : validate_gcp a = .ok () ↔ Pre_gcp a := by
  unfold validate_gcp Pre_gcp
  rw [← initGcp_iff]
  cases hm : a.mask with
  | none =>
    cases hsp : a.sparse <;> cases ho : a.objectiveOk <;> cases hi : initGcp a.init a.shape a.rank <;>
      by_cases hs0 : a.solver = 0 <;> by_cases hs1 : a.solver = 1 <;>
      simp_all [maskFits, optAll, rejectIf]
  | some m =>
    cases hsp : a.sparse <;> cases ho : a.objectiveOk <;> cases hi : initGcp a.init a.shape a.rank <;>
      by_cases hs0 : a.solver = 0 <;> by_cases hs1 : a.solver = 1 <;> by_cases hms : m = a.shape <;>
      simp_all [maskFits, optAll, rejectIf]

/-! ### importer -/

theorem eq_map_iff_getD (fs : List MatS) (s : List Nat) (R : Nat) :
    fs = s.map (fun e => (e, R)) ↔ fs.length = s.length ∧ ∀ k, k < s.length → fs.getD k (0, 0) = (s.getD k 0, R) := by
  constructor
  · rintro rfl
    refine ⟨by simp, fun k hk => ?_⟩
    rw [getD_of_lt _ _ _ (by simpa using hk), getD_of_lt _ _ _ hk]; simp
  · rintro ⟨hl, h⟩
    apply List.ext_getElem (by simpa using hl)
    intro i h1 h2
    have hi : i < s.length := by simpa using h2
    have := h i hi
    rw [getD_of_lt _ _ _ h1, getD_of_lt _ _ _ hi] at this
    simpa using this

theorem validate_import_ok_iff (a : ImportArgs) : validate_import a = .ok () ↔ Pre_import a := by
  cases a with
  | tensor h s n =>
    rw [validate_import, Pre_import]
    by_cases h1 : s.length = h
    · subst h1
      rw [if_neg (by simp), rejectIf_ok]
      simp
    · rw [if_pos (by simp [h1])]
      simp only [error_ne_ok, false_iff]
      rintro ⟨h', _⟩; exact h1 h'.symm
  | sptensor h s nnz lines =>
    rw [validate_import, Pre_import]
    by_cases h1 : s.length = h
    · subst h1
      rw [if_neg (by simp)]
      by_cases h2 : lines.length < nnz
      · rw [if_pos (by simpa using h2)]
        simp only [error_ne_ok, false_iff]
        rintro ⟨_, h', _⟩; omega
      · rw [if_neg (by simpa using h2)]
        by_cases h3 : (lines.take nnz).all (fun ln => ln.length == s.length) = true
        · rw [if_neg (by rw [not_bnot_true]; exact h3), rejectIf_ok, Bool.not_eq_false', List.all_eq_true]
          rw [List.all_eq_true] at h3
          simp only [true_and, show nnz ≤ lines.length by omega]
          constructor
          · intro h' ln hl; exact ⟨beq_iff_eq.1 (h3 ln hl), (rowInShape_iff _ _).1 (h' ln hl)⟩
          · intro h' ln hl; exact (rowInShape_iff _ _).2 (h' ln hl).2
        · rw [if_pos (by rw [bnot_true]; exact h3)]
          simp only [error_ne_ok, false_iff]
          rintro ⟨_, _, h'⟩
          apply h3
          rw [List.all_eq_true]
          intro ln hl
          rw [beq_iff_eq]
          exact (h' ln hl).1
    · rw [if_pos (by simp [h1])]
      simp only [error_ne_ok, false_iff]
      rintro ⟨h', _⟩; exact h1 h'.symm
  | ktensor h s R nw fs =>
    rw [validate_import, Pre_import]
    rw [eq_map_iff_getD]
    by_cases h1 : s.length = h
    · subst h1
      rw [if_neg (by simp)]
      by_cases h2 : fs.length < s.length
      · rw [if_pos (by simpa using h2)]
        simp only [error_ne_ok, false_iff]
        rintro ⟨_, _, ⟨h', _⟩, _⟩; omega
      · rw [if_neg (by simpa using h2)]
        by_cases h3 : (List.range s.length).all (fun k => fs.getD k (0, 0) == (s.getD k 0, R)) = true
        · rw [if_neg (by rw [not_bnot_true]; exact h3)]
          have h3' : ∀ k, k < s.length → fs.getD k (0, 0) = (s.getD k 0, R) := by
            simpa [List.all_eq_true] using h3
          by_cases h4 : fs.length = s.length
          · rw [if_neg (by simp [h4])]
            by_cases h5 : nw < R
            · rw [if_pos (by simpa using h5)]
              simp only [error_ne_ok, false_iff]
              rintro ⟨_, h', _⟩; omega
            · rw [if_neg (by simpa using h5), rejectIf_ok]
              simp only [h4, true_and, show R ≤ nw by omega, List.isEmpty_eq_false_iff, ne_eq]
              exact ⟨fun hs => ⟨h3', hs⟩, fun hs => hs.2⟩
          · rw [if_pos (by simp [h4])]
            simp only [error_ne_ok, false_iff]
            rintro ⟨_, _, ⟨h', _⟩, _⟩; exact h4 h'
        · rw [if_pos (by rw [bnot_true]; exact h3)]
          simp only [error_ne_ok, false_iff]
          rintro ⟨_, _, ⟨_, h'⟩, _⟩
          apply h3
          rw [List.all_eq_true]
          intro k hk
          rw [beq_iff_eq]
          exact h' k (List.mem_range.1 hk)
    · rw [if_pos (by simp [h1])]
      simp only [error_ne_ok, false_iff]
      rintro ⟨h', _⟩; exact h1 h'.symm
  | unknown => simp [validate_import, Pre_import]
  | missing => simp [validate_import, Pre_import]

/-! ### the remaining public operations -/

theorem validate_mttkrps_ok_iff (shape : List Nat) (U : List MatS) :
    validate_mttkrps shape U = .ok () ↔ Pre_mttkrps shape U := by
  unfold validate_mttkrps Pre_mttkrps
  by_cases h1 : U.length = shape.length
  · rw [if_neg (by simp [h1])]
    by_cases h2 : (List.range shape.length).all (fun i => U.getD i (0, 0) == (shape.getD i 0, (U.getD 0 (0, 0)).2)) = true
    · rw [if_neg (by rw [not_bnot_true]; exact h2), rejectIf_ok]
      have h2' : ∀ i, i < shape.length → U.getD i (0, 0) = (shape.getD i 0, (U.getD 0 (0, 0)).2) := by
        intro i hi
        exact beq_iff_eq.1 ((List.all_eq_true.1 h2) i (List.mem_range.2 hi))
      simp only [decide_eq_false_iff_not, Nat.not_lt, h1, true_and]
      exact ⟨fun h => ⟨h, h2'⟩, fun h => h.1⟩
    · rw [if_pos (by rw [bnot_true]; exact h2)]
      simp only [error_ne_ok, false_iff]
      rintro ⟨_, _, h⟩
      apply h2
      rw [List.all_eq_true]
      intro i hi
      rw [beq_iff_eq]
      exact h i (List.mem_range.1 hi)
  · rw [if_pos (by simp [h1])]
    simp [h1]

theorem optMode_iff (N : Nat) (o : Option Int) : optMode N o = true ↔ optAll o (IsMode N) := by
  cases o <;> simp [optMode, optAll, IsMode]

theorem validate_ttsvDirect_ok_iff (a : TtsvArgs) : validate_ttsvDirect a = .ok () ↔ a.directOK := by
  unfold validate_ttsvDirect TtsvArgs.directOK
  by_cases he : a.shape = []
  · simp [he]
  · rw [if_neg (by simpa using he)]
    by_cases h2 : a.shape.any (fun e => e != a.shape.getD 0 0) = true
    · rw [if_pos h2]
      simp only [error_ne_ok, false_iff]
      rintro ⟨_, h, _⟩
      obtain ⟨e, he', hne⟩ := List.any_eq_true.1 h2
      exact (bne_iff_ne.1 hne) (h e he')
    · rw [if_neg h2, rejectIf_ok]
      have h2' : ∀ e ∈ a.shape, e = a.shape.getD 0 0 := by
        intro e he'
        apply Decidable.byContradiction
        intro hne
        exact h2 (List.any_eq_true.2 ⟨e, he', bne_iff_ne.2 hne⟩)
      simp only [Bool.and_eq_false_imp, decide_eq_true_eq, bne_eq_false_iff_eq, ne_eq, he, not_false_eq_true, true_and]
      exact ⟨fun h => ⟨h2', h⟩, fun h => h.2⟩

theorem validate_ttsv_ok_iff (a : TtsvArgs) : validate_ttsv a = .ok () ↔ Pre_ttsv a := by
  unfold validate_ttsv Pre_ttsv
  rw [← optMode_iff]
  by_cases h1 : optMode a.shape.length a.skip = true
  · rw [if_neg (by rw [not_bnot_true]; exact h1)]
    simp only [h1, true_and]
    cases a.version with
    | v1 => exact validate_ttv_ok_iff _
    | v2 => exact validate_ttsvDirect_ok_iff a
    | default => exact validate_ttsvDirect_ok_iff a
    | other => simp
  · rw [if_pos (by rw [bnot_true]; exact h1)]
    simp [h1]

theorem groupsValid_iff (N : Nat) (G : List (List Int)) : groupsValid N G = true ↔ ∀ g ∈ G, ModesOK N g := by
  unfold groupsValid
  rw [List.all_eq_true]
  constructor
  · intro h g hg
    have := h g hg
    rw [Bool.and_eq_true, allInRange_iff, Bool.not_eq_true', hasDupI_false] at this
    exact this
  · intro h g hg
    rw [Bool.and_eq_true, allInRange_iff, Bool.not_eq_true', hasDupI_false]
    exact h g hg

theorem sameExt_iff (shape : List Nat) (g : List Int) : sameExt shape g = true ↔ SameExtents shape g := by
  simp [sameExt, SameExtents, List.all_eq_true]

theorem overlaps_false_iff (g h : List Int) : overlaps g h = false ↔ GroupsDisjoint g h := by
  simp [overlaps, GroupsDisjoint, List.any_eq_false]

theorem any_overlaps_false_iff (g : List Int) (rest : List (List Int)) :
    rest.any (overlaps g) = false ↔ ∀ h ∈ rest, GroupsDisjoint g h := by
  rw [List.any_eq_false]
  exact ⟨fun hh h hm => (overlaps_false_iff g h).1 (by simpa using hh h hm),
         fun hh h hm => by rw [(overlaps_false_iff g h).2 (hh h hm)]; simp⟩

theorem symNewGo_ok_iff (shape : List Nat) (G : List (List Int)) :
    symNewGo shape G = .ok () ↔ (∀ g ∈ G, SameExtents shape g) ∧ G.Pairwise GroupsDisjoint := by
  induction G with
  | nil => simp [symNewGo]
  | cons g rest ih =>
    unfold symNewGo
    by_cases h1 : sameExt shape g = true
    · rw [if_neg (by rw [not_bnot_true]; exact h1)]
      by_cases h2 : rest.any (overlaps g) = true
      · rw [if_pos h2]
        simp only [error_ne_ok, false_iff]
        rintro ⟨_, hp⟩
        rw [List.pairwise_cons] at hp
        have := (any_overlaps_false_iff g rest).2 hp.1
        rw [this] at h2; cases h2
      · rw [if_neg h2, ih]
        have h2' := (any_overlaps_false_iff g rest).1 (by simpa using h2)
        simp only [List.mem_cons, forall_eq_or_imp, List.pairwise_cons, (sameExt_iff shape g).1 h1, true_and]
        exact ⟨fun h => ⟨h.1, h2', h.2⟩, fun h => ⟨h.1, h.2.2⟩⟩
    · rw [if_pos (by rw [bnot_true]; exact h1)]
      simp only [error_ne_ok, false_iff]
      rintro ⟨h, _⟩
      exact h1 ((sameExt_iff shape g).2 (h g (List.mem_cons_self ..)))

theorem overlapAny_false_iff (G : List (List Int)) : overlapAny G = false ↔ G.Pairwise GroupsDisjoint := by
  induction G with
  | nil => simp [overlapAny]
  | cons g rest ih =>
    unfold overlapAny
    rw [Bool.or_eq_false_iff, any_overlaps_false_iff, ih, List.pairwise_cons]

theorem validate_symmetrize_ok_iff (shape : List Nat) (grps : Option (List (List Int))) (old : Bool) :
    validate_symmetrize shape grps old = .ok () ↔ Pre_symmetrize shape grps := by
  unfold validate_symmetrize Pre_symmetrize
  by_cases h1 : groupsValid shape.length (symGroups shape.length grps) = true
  · rw [if_neg (by rw [not_bnot_true]; exact h1)]
    have h1' := (groupsValid_iff _ _).1 h1
    refine Iff.trans ?_ (⟨fun h => ⟨h1', h⟩, fun h => h.2⟩ :
      ((∀ g ∈ symGroups shape.length grps, SameExtents shape g) ∧ (symGroups shape.length grps).Pairwise GroupsDisjoint) ↔ _)
    cases old with
    | false => simp only [Bool.false_eq_true, if_false]; exact symNewGo_ok_iff _ _
    | true =>
      simp only [if_true]
      by_cases h2 : (symGroups shape.length grps).all (sameExt shape) = true
      · rw [if_neg (by rw [not_bnot_true]; exact h2), rejectIf_ok, overlapAny_false_iff]
        have : ∀ g ∈ symGroups shape.length grps, SameExtents shape g := fun g hg =>
          (sameExt_iff shape g).1 ((List.all_eq_true.1 h2) g hg)
        exact ⟨fun h => ⟨this, h⟩, fun h => h.2⟩
      · rw [if_pos (by rw [bnot_true]; exact h2)]
        simp only [error_ne_ok, false_iff]
        rintro ⟨h, _⟩
        apply h2
        rw [List.all_eq_true]
        exact fun g hg => (sameExt_iff shape g).2 (h g hg)
  · rw [if_pos (by rw [bnot_true]; exact h1)]
    simp only [error_ne_ok, false_iff]
    rintro ⟨h, _⟩
    exact h1 ((groupsValid_iff _ _).2 h)

theorem validate_issymmetric_ok_iff (shape : List Nat) (grps : Option (List (List Int))) :
    validate_issymmetric shape grps = .ok () ↔ Pre_issymmetric shape grps := by
  unfold validate_issymmetric Pre_issymmetric
  rw [rejectIf_ok, Bool.not_eq_false', groupsValid_iff]

theorem validate_ksymmetrize_ok_iff (shape : List Nat) : validate_ksymmetrize shape = .ok () ↔ Pre_ksymmetrize shape := by
  unfold validate_ksymmetrize Pre_ksymmetrize
  by_cases he : shape = []
  · simp [he]
  · rw [if_neg (by simpa using he), rejectIf_ok, Bool.not_eq_false', List.all_eq_true]
    simp only [beq_iff_eq, ne_eq, he, not_false_eq_true, true_and]

theorem validate_kmatch_ok_iff (sa sb : List Nat) (ra rb : Nat) :
    validate_kmatch sa sb ra rb = .ok () ↔ Pre_kmatch sa sb ra rb := by
  unfold validate_kmatch Pre_kmatch
  by_cases h : sa = sb
  · rw [if_neg (by simp [h]), rejectIf_ok]
    simp [h]
  · rw [if_pos (by simpa using h)]
    simp [h]

theorem validate_update_ok_iff (a : UpdateArgs) : validate_update a = .ok () ↔ Pre_update a := by
  unfold validate_update Pre_update
  by_cases h1 : (List.range (a.modes.length - 1)).all (fun i => decide (a.modes.getD i 0 < a.modes.getD (i + 1) 0)) = true
  · rw [if_neg (by rw [not_bnot_true]; exact h1)]
    have h1' : ∀ i, i < a.modes.length - 1 → a.modes.getD i 0 < a.modes.getD (i + 1) 0 := by
      intro i hi
      simpa using (List.all_eq_true.1 h1) i (List.mem_range.2 hi)
    by_cases h2 : a.modes.any (fun k => decide (k < -1) || decide ((a.shape.length : Int) ≤ k)) = true
    · rw [if_pos h2]
      simp only [error_ne_ok, false_iff]
      rintro ⟨_, h, _⟩
      obtain ⟨k, hk, hb⟩ := List.any_eq_true.1 h2
      have := h k hk
      simp only [Bool.or_eq_true, decide_eq_true_eq] at hb
      omega
    · rw [if_neg h2, rejectIf_ok]
      have h2' : ∀ k ∈ a.modes, -1 ≤ k ∧ k < (a.shape.length : Int) := by
        intro k hk
        have : ¬ ((decide (k < -1) || decide ((a.shape.length : Int) ≤ k)) = true) := fun hb =>
          h2 (List.any_eq_true.2 ⟨k, hk, hb⟩)
        simp only [Bool.or_eq_true, decide_eq_true_eq, not_or] at this
        omega
      simp only [decide_eq_false_iff_not, Nat.not_lt]
      exact ⟨fun h => ⟨h1', h2', h⟩, fun h => h.2.2⟩
  · rw [if_pos (by rw [bnot_true]; exact h1)]
    simp only [error_ne_ok, false_iff]
    rintro ⟨h, _⟩
    apply h1
    rw [List.all_eq_true]
    intro i hi
    simpa using h i (List.mem_range.1 hi)

theorem fitsB_iff (s : SampleS) (e : Nat) : s.fitsB e = true ↔ s.fits e := by
  cases s <;> simp [SampleS.fitsB, SampleS.fits]

theorem validate_reconstruct_ok_iff (shape : List Nat) (samples : Option (List SampleS)) (modes : Option (List Int)) :
    validate_reconstruct shape samples modes = .ok () ↔ Pre_reconstruct shape samples modes := by
  unfold validate_reconstruct Pre_reconstruct
  cases samples with
  | none => cases modes <;> simp
  | some ss =>
    simp only
    by_cases h1 : (allInRange shape.length (modes.getD ((List.range shape.length).map Int.ofNat)) &&
        !hasDupI (modes.getD ((List.range shape.length).map Int.ofNat))) = true
    · rw [if_neg (by rw [not_bnot_true]; exact h1)]
      have h1' : ModesOK shape.length (modes.getD ((List.range shape.length).map Int.ofNat)) := by
        rw [Bool.and_eq_true, allInRange_iff, Bool.not_eq_true', hasDupI_false] at h1
        exact h1
      by_cases h2 : ss ≠ [] → ss.length = (modes.getD ((List.range shape.length).map Int.ofNat)).length
      · rw [if_neg (by
          intro hc
          simp only [Bool.and_eq_true, decide_eq_true_eq, bne_iff_ne] at hc
          exact hc.2 (h2 (by intro e; rw [e] at hc; simp at hc)))]
        rw [rejectIf_ok, Bool.not_eq_false', List.all_eq_true]
        simp only [h1', true_and]
        exact ⟨fun h => ⟨h2, fun p hp => (fitsB_iff _ _).1 (h p hp)⟩, fun h p hp => (fitsB_iff _ _).2 (h.2 p hp)⟩
      · rw [if_pos (by
          simp only [Bool.and_eq_true, decide_eq_true_eq, bne_iff_ne]
          refine ⟨?_, fun e => h2 (fun _ => e)⟩
          cases ss with
          | nil => exact absurd (fun hne => absurd rfl hne) h2
          | cons x xs => simp)]
        simp only [error_ne_ok, false_iff]
        rintro ⟨_, h, _⟩; exact h2 h
    · rw [if_pos (by rw [bnot_true]; exact h1)]
      simp only [error_ne_ok, false_iff]
      rintro ⟨h, _⟩
      apply h1
      rw [Bool.and_eq_true, allInRange_iff, Bool.not_eq_true', hasDupI_false]
      exact h

theorem validate_kfromFunction_ok_iff (shape : List Nat) (R : Nat) (returned : List MatS) :
    validate_kfromFunction shape R returned = .ok () ↔ Pre_kfromFunction shape R returned := by
  simp [validate_kfromFunction, Pre_kfromFunction]

theorem validate_sptenmatSet_ok_iff (a : SpSetArgs) : validate_sptenmatSet a = .ok () ↔ Pre_sptenmatSet a := by
  unfold validate_sptenmatSet Pre_sptenmatSet
  have key : ∀ (l : List Int) (n : Nat), l.any (fun r => decide (r < 0) || decide ((n : Int) ≤ r)) = false ↔
      ∀ r ∈ l, 0 ≤ r ∧ r < (n : Int) := by
    intro l n
    rw [List.any_eq_false]
    constructor
    · intro h r hr
      have := h r hr
      simp only [Bool.or_eq_true, decide_eq_true_eq, not_or] at this
      omega
    · intro h r hr
      have := h r hr
      simp only [Bool.or_eq_true, decide_eq_true_eq, not_or]
      omega
  by_cases h1 : (a.rsubs.any (fun r => decide (r < 0) || decide ((a.mshape.1 : Int) ≤ r)) ||
      a.csubs.any (fun c => decide (c < 0) || decide ((a.mshape.2 : Int) ≤ c))) = true
  · rw [if_pos h1]
    simp only [error_ne_ok, false_iff]
    rintro ⟨hr, hc, _⟩
    rw [(key _ _).2 hr, (key _ _).2 hc] at h1
    cases h1
  · rw [if_neg h1]
    have h1' := by simpa [Bool.or_eq_false_iff] using h1
    have hr := (key a.rsubs a.mshape.1).1 (by simpa using h1'.1)
    have hc := (key a.csubs a.mshape.2).1 (by simpa using h1'.2)
    cases hn : a.nvals with
    | none => simp only [optAll, and_true, true_iff]; exact ⟨hr, hc⟩
    | some n =>
      simp only [rejectIf_ok, bne_eq_false_iff_eq, optAll]
      exact ⟨fun h => ⟨hr, hc, h⟩, fun h => h.2.2⟩

theorem validate_tenmatIndex_ok_iff (mshape : MatS) (i j : Int) :
    validate_tenmatIndex mshape i j = .ok () ↔ Pre_tenmatIndex mshape i j := by
  simp [validate_tenmatIndex, Pre_tenmatIndex, and_assoc]

theorem validate_nvecs_ok_iff (shape : List Nat) (n r : Int) : validate_nvecs shape n r = .ok () ↔ Pre_nvecs shape n r := by
  simp [validate_nvecs, Pre_nvecs, IsMode, and_assoc]

theorem validate_tenfunUnary_ok_iff (shape : List Nat) (others : List (List Nat)) :
    validate_tenfunUnary shape others = .ok () ↔ Pre_tenfunUnary shape others := by
  simp [validate_tenfunUnary, Pre_tenfunUnary, List.any_eq_false]

theorem validate_viz_ok_iff (N : Nat) (lens : List Nat) : validate_viz N lens = .ok () ↔ Pre_viz N lens := by
  simp [validate_viz, Pre_viz, List.any_eq_false]

theorem validate_spmatrix_ok_iff (shape : List Nat) : validate_spmatrix shape = .ok () ↔ Pre_spmatrix shape := by
  simp [validate_spmatrix, Pre_spmatrix]

theorem validate_spFromFunction_ok_iff (shape : List Nat) (nz : Int) (b : Bool) :
    validate_spFromFunction shape nz b = .ok () ↔ Pre_spFromFunction shape nz b := by
  unfold validate_spFromFunction Pre_spFromFunction
  by_cases h : nz < 0 ∨ (numel shape : Int) < nz
  · rw [if_pos (by simpa using h)]
    simp only [error_ne_ok, false_iff]
    rintro ⟨_, _, _⟩; omega
  · rw [if_neg (by simpa using h), rejectIf_ok, Bool.not_eq_false']
    exact ⟨fun hb => ⟨by omega, by omega, hb⟩, fun hb => hb.2.2⟩

theorem validate_fromArray_ok_iff (ashape : MatS) (rdims cdims : Option (List Int)) (tshape : List Nat) :
    validate_fromArray ashape rdims cdims tshape = .ok () ↔ Pre_fromArray ashape rdims cdims tshape := by
  unfold validate_fromArray Pre_fromArray
  cases hw : wrapDimsI tshape.length rdims cdims none with
  | none => simp
  | some rc =>
    obtain ⟨r, c⟩ := rc
    simp only
    by_cases hp : IsPermI (r ++ c) tshape.length
    · rw [if_neg (by rw [not_bnot_true, isPermOfI_iff]; exact hp), rejectIf_ok]
      simp only [hp, true_and, Bool.and_eq_false_imp, Bool.and_eq_true, decide_eq_true_eq, Bool.or_eq_false_iff,
        decide_eq_false_iff_not, Nat.not_lt]
    · rw [if_pos (by rw [bnot_true, isPermOfI_iff]; exact hp)]
      simp [hp]

/-! ### input classes added after the mutation study -/

theorem any_nonpos_false_iff (l : List Int) : l.any (fun e => decide (e ≤ 0)) = false ↔ ∀ e ∈ l, 0 < e := by
  rw [List.any_eq_false]
  constructor
  · intro h e he
    have := h e he
    simp only [decide_eq_true_eq] at this
    omega
  · intro h e he
    have := h e he
    simp only [decide_eq_true_eq]
    omega

/-- once the extents are positive, the checks of `from_aggregator` are those of the natural-number model -/
theorem validate_fromAggregatorI_eq (a : SubsArgsI) (hpos : a.shape.any (fun e => decide (e ≤ 0)) = false) :
    validate_fromAggregatorI a = validate_fromAggregator a.toNat := by
  unfold validate_fromAggregatorI validate_fromAggregator
  simp only [SubsArgsI.toNat, hpos]
  by_cases h0 : (a.subs.all fun row => row.all (fun x => decide (0 ≤ x))) = true
  · by_cases h1 : a.nvals = a.subs.length
    · simp [h0, h1]
    · simp [h0, h1]
  · simp [h0]

theorem validate_fromAggregatorI_ok_iff (a : SubsArgsI) (hw : ∀ row ∈ a.subs, row.length = a.width) :
    validate_fromAggregatorI a = .ok () ↔ Pre_subsI a := by
  unfold Pre_subsI
  by_cases hpos : a.shape.any (fun e => decide (e ≤ 0)) = false
  · rw [validate_fromAggregatorI_eq a hpos, validate_fromAggregator_ok_iff a.toNat hw]
    exact ⟨fun h => ⟨(any_nonpos_false_iff _).1 hpos, h⟩, fun h => h.2⟩
  · have hneg : ¬ ∀ e ∈ a.shape, 0 < e := fun h => hpos ((any_nonpos_false_iff _).2 h)
    have hp : a.shape.any (fun e => decide (e ≤ 0)) = true := by
      cases h : a.shape.any (fun e => decide (e ≤ 0)) with
      | true => rfl
      | false => exact absurd h hpos
    have : validate_fromAggregatorI a = .error .reject := by
      unfold validate_fromAggregatorI
      rw [hp]
      by_cases h0 : (a.subs.all fun row => row.all (fun x => decide (0 ≤ x))) = true
      · by_cases h1 : a.nvals = a.subs.length
        · simp [h0, h1]
        · simp [h0, h1]
      · simp [h0]
    rw [this]
    simp only [error_ne_ok, false_iff]
    exact fun h => hneg h.1

/-- a subscript row inside a shape shows that every extent is positive -/
theorem pos_of_rowInShape (shape : List Int) (row : List Int) (h : RowInShape (shape.map Int.toNat) row) :
    ∀ e ∈ shape, 0 < e := by
  intro e he
  obtain ⟨k, hk, rfl⟩ := List.mem_iff_getElem.1 he
  have := h k (by simpa using hk)
  rw [getD_of_lt (shape.map Int.toNat) k 0 (by simpa using hk)] at this
  simp only [List.getElem_map] at this
  omega

/-- the plain constructor (after eaa8284): the size check, then the natural-number model -/
theorem validate_sptensorI_ok_iff (a : SubsArgsI) : validate_sptensorI a = .ok () ↔ Pre_subsI a := by
  unfold validate_sptensorI Pre_subsI
  by_cases hpos : a.shape.any (fun e => decide (e ≤ 0)) = false
  · rw [hpos]
    simp only [Bool.false_eq_true, if_false]
    rw [validate_sptensor_ok_iff]
    exact ⟨fun h => ⟨(any_nonpos_false_iff _).1 hpos, h⟩, fun h => h.2⟩
  · have hp : a.shape.any (fun e => decide (e ≤ 0)) = true := by
      cases h : a.shape.any (fun e => decide (e ≤ 0)) with
      | true => rfl
      | false => exact absurd h hpos
    rw [hp]
    simp only [if_true, error_ne_ok, false_iff]
    exact fun h => hpos ((any_nonpos_false_iff _).2 h.1)

/-- the constructor as it was before eaa8284, with at least one entry: the range test of the
entries implies positive extents -/
theorem pinned_sptensorI_ok_iff (a : SubsArgsI) (hne : a.subs ≠ []) :
    Pinned.sptensorI a = .ok () ↔ Pre_subsI a := by
  unfold Pinned.sptensorI Pre_subsI
  rw [validate_sptensor_ok_iff]
  refine ⟨fun h => ⟨?_, h⟩, fun h => h.2⟩
  obtain ⟨row, rest, hr⟩ := List.exists_cons_of_ne_nil hne
  have hrow : RowInShape (a.shape.map Int.toNat) row := h.2.1 row (by
    show row ∈ a.subs
    rw [hr]; exact List.mem_cons_self)
  exact pos_of_rowInShape a.shape row hrow

theorem parseOneD_eq (vshape : List Nat) (isList : Bool) :
    parseOneD vshape isList = match vectorShape vshape isList with | some s => .ok s | none => .error .reject := by
  unfold parseOneD vectorShape
  cases isList
  · by_cases h : (vshape.filter (fun e => e != 1)).length ≤ 1
    · simp [h]
    · simp [h]
  · simp

theorem validate_ttsvM_ok_iff (a : TtsvArgs) (vshape : List Nat) (isList : Bool) :
    validate_ttsvM a vshape isList = .ok () ↔ (vectorShape vshape isList).isSome = true ∧ Pre_ttsvM a vshape isList := by
  unfold validate_ttsvM Pre_ttsvM
  rw [parseOneD_eq]
  cases h : vectorShape vshape isList with
  | none => simp
  | some s => simp [validate_ttsv_ok_iff]

theorem getD_zero_le_sum (l : List Nat) : l.getD 0 0 ≤ l.sum := by
  cases l with
  | nil => simp
  | cons x xs => simp [List.sum_cons]

theorem validate_ttensorGiven_ok_iff (core factors : Bool) :
    validate_ttensorGiven core factors = .ok () ↔ Pre_ttensorGiven core factors := by
  cases core <;> cases factors <;> simp [validate_ttensorGiven, Pre_ttensorGiven, rejectIf]

theorem validate_ktensorTyped_ok_iff (fs : List MatS) (nw : Option Nat) (ff wf : Bool) :
    validate_ktensorTyped fs nw ff wf = .ok () ↔ Pre_ktensorTyped fs nw ff wf := by
  unfold validate_ktensorTyped Pre_ktensorTyped
  cases ff
  · simp
  · cases hnw : nw.isSome <;> cases wf <;> simp [validate_ktensor_ok_iff]

theorem validate_subdims_ok_iff (N len : Nat) : validate_subdims N len = .ok () ↔ Pre_subdims N len := by
  simp [validate_subdims, Pre_subdims]

theorem forall_lt_cons {β : Type} (x : β) (l : List β) (d : β) (P : β → Nat → Prop) :
    (∀ j, j < (x :: l).length → P ((x :: l).getD j d) j) ↔ P x 0 ∧ ∀ j, j < l.length → P (l.getD j d) (j + 1) := by
  constructor
  · intro h
    refine ⟨by simpa using h 0 (by simp), fun j hj => ?_⟩
    have := h (j + 1) (by simpa using hj)
    simpa using this
  · rintro ⟨h0, h⟩ j hj
    cases j with
    | zero => simpa using h0
    | succ j => simpa using h j (by simpa using hj)

theorem spAssignGo_ok_iff (rhs : List Nat) (ks : List KeyEntry) (m : Nat) :
    spAssignGo rhs ks m = .ok () ↔
      ∀ j, j < (keyModes ks).length → ((keyModes ks).getD j KeyEntry.int).fits rhs (m + j) := by
  induction ks generalizing m with
  | nil => simp [spAssignGo, keyModes]
  | cons k ks ih =>
    cases k with
    | int =>
      have : keyModes (KeyEntry.int :: ks) = keyModes ks := by simp [keyModes]
      rw [this]
      simp only [spAssignGo]
      exact ih m
    | slice stop =>
      have hk : keyModes (KeyEntry.slice stop :: ks) = KeyEntry.slice stop :: keyModes ks := by simp [keyModes]
      rw [hk, forall_lt_cons (KeyEntry.slice stop) (keyModes ks) KeyEntry.int (fun e j => e.fits rhs (m + j))]
      simp only [spAssignGo]
      have ih' := ih (m + 1)
      have hshift : (∀ j, j < (keyModes ks).length → ((keyModes ks).getD j KeyEntry.int).fits rhs (m + 1 + j)) ↔
          (∀ j, j < (keyModes ks).length → ((keyModes ks).getD j KeyEntry.int).fits rhs (m + (j + 1))) := by
        constructor <;> intro h j hj <;> have := h j hj <;> (rw [show m + 1 + j = m + (j + 1) by omega] at *) <;> exact this
      cases stop with
      | true =>
        simp only [Bool.not_true, Bool.false_and, Bool.false_eq_true, if_false]
        rw [ih', hshift]
        simp [KeyEntry.fits]
      | false =>
        by_cases hm : rhs.length ≤ m
        · simp only [Bool.not_false, Bool.true_and, decide_eq_true_eq, hm, if_true, error_ne_ok, false_iff]
          rintro ⟨h0, _⟩
          simp only [KeyEntry.fits, Nat.add_zero] at h0
          omega
        · simp only [Bool.not_false, Bool.true_and, decide_eq_true_eq, hm, if_false]
          rw [ih', hshift]
          simp only [KeyEntry.fits, Nat.add_zero]
          exact ⟨fun h => ⟨by omega, h⟩, fun h => h.2⟩
    | list len =>
      have hk : keyModes (KeyEntry.list len :: ks) = KeyEntry.list len :: keyModes ks := by simp [keyModes]
      rw [hk, forall_lt_cons (KeyEntry.list len) (keyModes ks) KeyEntry.int (fun e j => e.fits rhs (m + j))]
      simp only [spAssignGo]
      have ih' := ih (m + 1)
      have hshift : (∀ j, j < (keyModes ks).length → ((keyModes ks).getD j KeyEntry.int).fits rhs (m + 1 + j)) ↔
          (∀ j, j < (keyModes ks).length → ((keyModes ks).getD j KeyEntry.int).fits rhs (m + (j + 1))) := by
        constructor <;> intro h j hj <;> have := h j hj <;> (rw [show m + 1 + j = m + (j + 1) by omega] at *) <;> exact this
      by_cases hm : rhs.length ≤ m
      · simp only [decide_eq_true_eq, hm, if_true, error_ne_ok, false_iff]
        rintro ⟨h0, _⟩
        simp only [KeyEntry.fits, Nat.add_zero] at h0
        omega
      · simp only [decide_eq_true_eq, hm, if_false]
        by_cases hl : len = rhs.getD m 0
        · rw [if_neg (by simp [hl]), ih', hshift]
          simp only [KeyEntry.fits, Nat.add_zero]
          exact ⟨fun h => ⟨⟨by omega, hl⟩, h⟩, fun h => h.2⟩
        · rw [if_pos (by simpa using hl)]
          simp only [error_ne_ok, false_iff]
          rintro ⟨h0, _⟩
          simp only [KeyEntry.fits, Nat.add_zero] at h0
          exact hl h0.2

theorem validate_spAssign_ok_iff (key : List KeyEntry) (rhs : List Nat) :
    validate_spAssign key rhs = .ok () ↔ Pre_spAssign key rhs := by
  unfold validate_spAssign Pre_spAssign
  rw [spAssignGo_ok_iff]
  simp

/-! ### argument forms (second mutation study) -/

theorem validate_ttvM_ok_iff (a : TtvMArgs) : validate_ttvM a = .ok () ↔ Pre_ttvM a := by
  unfold validate_ttvM Pre_ttvM
  cases hd : dimscheck19 a.shape.length (some a.vshapes.length) a.dims a.excl with
  | error e =>
    simp only [error_ne_ok, false_iff]
    rintro ⟨hp, _⟩
    have := (dimscheck19_ok_iff _ _ _ _ _).2 ⟨hp, rfl⟩
    rw [hd] at this; cases this
  | ok r =>
    obtain ⟨hp, rfl⟩ := (dimscheck19_ok_iff _ _ _ _ _).1 hd
    simp only [rejectIf_ok, Bool.not_eq_false', Option.map_some, all_pairs_iff, beq_iff_eq, hp, true_and]

theorem validate_khatriraoND_ok_iff (shapes : List (List Nat)) (rev : Bool) :
    validate_khatriraoND shapes rev = .ok () ↔ Pre_khatriraoND shapes := by
  unfold validate_khatriraoND Pre_khatriraoND
  have hall : ((if rev then shapes.reverse else shapes).all fun s => s.length == 2) = true ↔
      ∀ s ∈ shapes, s.length = 2 := by
    cases rev <;> simp [List.all_eq_true]
  by_cases h : ∀ s ∈ shapes, s.length = 2
  · rw [if_neg (by rw [hall.2 h]; simp), validate_khatrirao_ok_iff]
    exact ⟨fun hk => ⟨h, hk⟩, fun hk => hk.2⟩
  · have hf : ((if rev then shapes.reverse else shapes).all fun s => s.length == 2) = false := by
      rw [Bool.eq_false_iff]; exact fun hh => h (hall.1 hh)
    rw [if_pos (by rw [hf]; rfl)]
    simp only [error_ne_ok, false_iff]
    exact fun hk => h hk.1

theorem validate_sptensorGiven_ok_iff (subs vals : Bool) :
    validate_sptensorGiven subs vals = .ok () ↔ Pre_sptensorGiven subs vals := by
  cases subs <;> cases vals <;> simp [validate_sptensorGiven, Pre_sptensorGiven, rejectIf]

theorem validate_sptenmatGiven_ok_iff (subs vals dims : Bool) :
    validate_sptenmatGiven subs vals dims = .ok () ↔ Pre_sptenmatGiven subs vals dims := by
  cases subs <;> cases vals <;> cases dims <;> simp [validate_sptenmatGiven, Pre_sptenmatGiven, rejectIf]

theorem validate_isVector_ok_iff (s : List Nat) : validate_isVector s = .ok () ↔ Pre_isVector s := by
  unfold validate_isVector Pre_isVector
  simp only [rejectIf_ok, Bool.not_eq_false', Bool.or_eq_true, Bool.and_eq_true, beq_iff_eq]

theorem validate_shapeArray_ok_iff (s : List Nat) : validate_shapeArray s = .ok () ↔ Pre_shapeArray s := by
  unfold validate_shapeArray Pre_shapeArray
  simp


theorem validate_tenfunArity_ok_iff (nargs others : Nat) :
    validate_tenfunArity nargs others = .ok () ↔ Pre_tenfunArity nargs others := by
  unfold validate_tenfunArity Pre_tenfunArity
  by_cases h : others = 1 ∧ nargs = 2
  · rw [if_pos (by simp [h.1, h.2])]
    simp [h.1, h.2]
  · rw [if_neg (by simpa using h)]
    simp only [rejectIf_ok, bne_eq_false_iff_eq]
    constructor
    · exact fun h1 => Or.inl h1
    · rintro (h1 | ⟨h2, h3⟩)
      · exact h1
      · exact absurd ⟨h3, h2⟩ h

theorem validate_setSubsWidth_ok_iff (N width : Nat) :
    validate_setSubsWidth N width = .ok () ↔ Pre_setSubsWidth N width := by
  unfold validate_setSubsWidth Pre_setSubsWidth
  simp


end V19
end Pyttb
