/-
Proofs for property C19: the validation prefix of every operation (Ops/Validate.lean)
accepts exactly the requests that satisfy the precondition (Spec/Preconditions.lean).
-/
import PyttbModel.Ops.Validate
import PyttbModel.Lemmas.Dims
import PyttbModel.Lemmas.Perm
import PyttbModel.Lemmas.KhatriRao
namespace Pyttb

/-! ### outcomes -/

theorem ok_or_reject (v : Except Reject Unit) : v = .ok () ∨ v = .error .reject := by
  cases v with
  | ok u => left; rfl
  | error e => right; cases e; rfl

theorem reject_of_not_ok {v : Except Reject Unit} (h : v ≠ .ok ()) : v = .error .reject :=
  (ok_or_reject v).resolve_left h

theorem rejects_of_guard {v : Except Reject Unit} {P : Prop} (h : v = .ok () ↔ P) (hn : ¬ P) :
    v = .error .reject := reject_of_not_ok (fun hv => hn (h.1 hv))

@[simp] theorem rejectIf_ok (c : Bool) : rejectIf c = .ok () ↔ c = false := by
  cases c <;> simp [rejectIf]

@[simp] theorem error_ne_ok (e : Reject) : (Except.error e : Except Reject Unit) = .ok () ↔ False := by simp

theorem map_unit_ok {β : Type} (x : Except Reject β) : x.map (fun _ => ()) = .ok () ↔ ∃ b, x = .ok b := by
  cases x <;> simp [Except.map]

/-! ### reflections of the elementary tests -/

theorem hasDupI_false (l : List Int) : hasDupI l = false ↔ l.Nodup := by
  induction l with
  | nil => simp [hasDupI]
  | cons x xs ih => simp [hasDupI, ih, List.nodup_cons]

theorem allInRange_iff (n : Nat) (l : List Int) : allInRange n l = true ↔ ∀ m ∈ l, IsMode n m := by
  simp [allInRange, List.all_eq_true, IsMode]

theorem isPermOfI_iff (p : List Int) (n : Nat) : isPermOfI p n = true ↔ IsPermI p n := by
  simp [isPermOfI, IsPermI, List.all_eq_true]

theorem rowInShape_iff (s : List Nat) (row : List Int) : rowInShape s row = true ↔ RowInShape s row := by
  simp [rowInShape, RowInShape, List.all_eq_true]

theorem nodup_range_ofNat (n : Nat) : ((List.range n).map Int.ofNat).Nodup :=
  List.Pairwise.map Int.ofNat (fun _ _ h e => h (Int.ofNat.inj e)) List.nodup_range

/-- a permutation of the modes is a rearrangement of `0 .. n-1` -/
theorem IsPermI.perm {p : List Int} {n : Nat} (h : IsPermI p n) : ((List.range n).map Int.ofNat).Perm p := by
  obtain ⟨hl, hm⟩ := h
  have hsub : ((List.range n).map Int.ofNat).Subperm p := by
    apply List.subperm_of_subset (nodup_range_ofNat n)
    intro x hx
    obtain ⟨m, hm', rfl⟩ := List.mem_map.1 hx
    exact hm m (List.mem_range.1 hm')
  exact hsub.perm_of_length_le (by simp [hl])

/-- a permutation of the modes lists modes only, each once -/
theorem IsPermI.modesOK {p : List Int} {n : Nat} (h : IsPermI p n) : ModesOK n p := by
  have hperm := h.perm
  refine ⟨fun m hmem => ?_, hperm.nodup_iff.1 (nodup_range_ofNat n)⟩
  obtain ⟨k, hk, rfl⟩ := List.mem_map.1 (hperm.mem_iff.2 hmem)
  have := List.mem_range.1 hk
  exact ⟨Int.natCast_nonneg k, Int.ofNat_lt.2 this⟩

/-! ### `tt_dimscheck` -/

theorem any_neg_false_iff (l : List Int) : l.any (· < 0) = false ↔ ∀ x ∈ l, 0 ≤ x := by
  simp [List.any_eq_false]

theorem any_ge_false_iff (N : Nat) (l : List Int) :
    l.any (fun x => decide ((N : Int) ≤ x)) = false ↔ ∀ x ∈ l, x < (N : Int) := by
  simp [List.any_eq_false]

/-- distinct modes of an order-`N` tensor are at most `N` -/
theorem ModesOK.length_le {N : Nat} {l : List Int} (h : ModesOK N l) : l.length ≤ N := by
  have hsub : l.Subperm ((List.range N).map Int.ofNat) := by
    apply List.subperm_of_subset h.2
    intro x hx
    obtain ⟨h0, h1⟩ := h.1 x hx
    refine List.mem_map.2 ⟨x.toNat, List.mem_range.2 (by omega), ?_⟩
    show Int.ofNat x.toNat = x
    simp [Int.toNat_of_nonneg h0]
  simpa using hsub.length_le

/-- what `dimsTail` answers, and when -/
theorem dimsTail_ok_iff (N : Nat) (M : Option Nat) (arr : List Int) (dupE : Bool) (r : DimsCheck) :
    dimsTail N M arr dupE = .ok r ↔
      ModesOK N arr ∧ dupE = false ∧ optAll M (fun m => m = N ∨ m = arr.length) ∧
      r = ⟨sortedModes arr, M.map (fun m => if arr.length = m then argsortInt arr else sortedModes arr)⟩ := by
  unfold dimsTail
  by_cases h1 : arr.any (· < 0) = true
  · simp only [h1, if_true]
    constructor
    · intro h; cases h
    · rintro ⟨⟨hm, _⟩, _⟩
      have := (any_neg_false_iff arr).2 (fun x hx => (hm x hx).1)
      simp [this] at h1
  have h1' := (any_neg_false_iff arr).1 (by simpa using h1)
  by_cases h2 : arr.any (fun x => decide ((N : Int) ≤ x)) = true
  · simp only [h1, h2, if_true, Bool.false_eq_true, if_false]
    constructor
    · intro h; cases h
    · rintro ⟨⟨hm, _⟩, _⟩
      have := (any_ge_false_iff N arr).2 (fun x hx => (hm x hx).2)
      simp [this] at h2
  have h2' := (any_ge_false_iff N arr).1 (by simpa using h2)
  by_cases h3 : (hasDupI arr || dupE) = true
  · simp only [h1, h2, h3, if_true, Bool.false_eq_true, if_false]
    constructor
    · intro h; cases h
    · rintro ⟨⟨_, hn⟩, hd, _⟩
      have := (hasDupI_false arr).2 hn
      simp [this, hd] at h3
  have h3' : hasDupI arr = false ∧ dupE = false := by simpa using h3
  have hmodes : ModesOK N arr := ⟨fun x hx => ⟨h1' x hx, h2' x hx⟩, (hasDupI_false arr).1 h3'.1⟩
  have hle := hmodes.length_le
  rw [if_neg h1, if_neg h2, if_neg h3]
  have hpre : (ModesOK N arr ∧ dupE = false ∧ optAll M (fun m => m = N ∨ m = arr.length) ∧
      r = ⟨sortedModes arr, M.map (fun m => if arr.length = m then argsortInt arr else sortedModes arr)⟩) ↔
      (optAll M (fun m => m = N ∨ m = arr.length) ∧
      r = ⟨sortedModes arr, M.map (fun m => if arr.length = m then argsortInt arr else sortedModes arr)⟩) :=
    ⟨fun h => h.2.2, fun h => ⟨hmodes, h3'.2, h⟩⟩
  rw [hpre]
  cases M with
  | none =>
    show Except.ok _ = Except.ok r ↔ _
    simp only [optAll, Option.map_none, true_and, sortedModes, Except.ok.injEq]
    exact eq_comm
  | some m =>
    show (if m > N then _ else if m ≠ N ∧ m ≠ arr.length then _ else if arr.length = m then _ else _) = Except.ok r ↔ _
    simp only [optAll, Option.map_some]
    by_cases hm1 : m > N
    · rw [if_pos hm1]
      constructor
      · intro h; cases h
      · rintro ⟨h | h, _⟩ <;> omega
    rw [if_neg hm1]
    by_cases hm2 : m ≠ N ∧ m ≠ arr.length
    · rw [if_pos hm2]
      constructor
      · intro h; cases h
      · rintro ⟨h | h, _⟩ <;> omega
    rw [if_neg hm2]
    have hm2' : m = N ∨ m = arr.length := by omega
    by_cases hm3 : arr.length = m
    · rw [if_pos hm3, if_pos hm3]
      simp only [Except.ok.injEq, sortedModes, hm2', true_and]
      exact eq_comm
    · rw [if_neg hm3, if_neg hm3]
      simp only [Except.ok.injEq, sortedModes, hm2', true_and]
      exact eq_comm

theorem complement_modesOK (N : Nat) (e : List Int) :
    ModesOK N (((List.range N).filter (fun (k : Nat) => !e.contains (Int.ofNat k))).map (fun (k : Nat) => Int.ofNat k)) := by
  constructor
  · intro m hm
    obtain ⟨k, hk, rfl⟩ := List.mem_map.1 hm
    have := List.mem_range.1 (List.mem_filter.1 hk).1
    exact ⟨Int.natCast_nonneg k, Int.ofNat_lt.2 this⟩
  · exact List.Pairwise.map _ (fun a b h e' => h (Int.ofNat.inj e')) (List.nodup_range.filter _)

theorem range_modesOK (N : Nat) : ModesOK N ((List.range N).map (fun (k : Nat) => Int.ofNat k)) := by
  constructor
  · intro m hm
    obtain ⟨k, hk, rfl⟩ := List.mem_map.1 hm
    exact ⟨Int.natCast_nonneg k, Int.ofNat_lt.2 (List.mem_range.1 hk)⟩
  · exact nodup_range_ofNat N

/-- `tt_dimscheck` answers exactly the well-formed requests, with the sorted selection and the
index of the multiplicands -/
theorem dimscheck19_ok_iff (N : Nat) (M : Option Nat) (dims excl : Option (List Int)) (r : DimsCheck) :
    dimscheck19 N M dims excl = .ok r ↔
      Pre_dimscheck N M dims excl ∧
      r = ⟨sortedModes (selModes N dims excl),
           M.map (fun m => if (selModes N dims excl).length = m then argsortInt (selModes N dims excl)
                           else sortedModes (selModes N dims excl))⟩ := by
  cases dims with
  | some d =>
    cases excl with
    | some e => simp [dimscheck19, Pre_dimscheck]
    | none =>
      simp only [dimscheck19, dimsTail_ok_iff, Pre_dimscheck, selModes, optAll, Option.isSome_none, Option.isSome_some]
      constructor
      · rintro ⟨h1, _, h3, h4⟩; exact ⟨⟨by simp, h1, trivial, h3⟩, h4⟩
      · rintro ⟨⟨_, h1, _, h3⟩, h4⟩; exact ⟨h1, trivial, h3, h4⟩
  | none =>
    cases excl with
    | none =>
      simp only [dimscheck19, dimsTail_ok_iff, Pre_dimscheck, selModes, optAll, Option.isSome_none]
      constructor
      · rintro ⟨_, _, h3, h4⟩; exact ⟨⟨by simp, trivial, trivial, h3⟩, h4⟩
      · rintro ⟨⟨_, _, _, h3⟩, h4⟩; exact ⟨range_modesOK N, trivial, h3, h4⟩
    | some e =>
      simp only [dimscheck19, Pre_dimscheck, selModes, optAll, Option.isSome_none, Option.isSome_some]
      by_cases hall : e.all (fun x => decide (0 ≤ x) && decide (x < (N : Int))) = true
      · have hall' : ∀ m ∈ e, IsMode N m := by
          simpa [List.all_eq_true, IsMode] using hall
        simp only [hall, if_true, dimsTail_ok_iff, hasDupI_false]
        constructor
        · rintro ⟨_, h2, h3, h4⟩; exact ⟨⟨by simp, trivial, ⟨hall', h2⟩, h3⟩, h4⟩
        · rintro ⟨⟨_, _, ⟨_, h2⟩, h3⟩, h4⟩; exact ⟨complement_modesOK N e, h2, h3, h4⟩
      · simp only [hall, Bool.false_eq_true, if_false]
        constructor
        · intro h; cases h
        · rintro ⟨⟨_, _, ⟨h2, _⟩, _⟩, _⟩
          exact absurd (by simpa [List.all_eq_true, IsMode] using h2) hall

theorem validate_dimscheck_ok_iff (N : Nat) (M : Option Nat) (dims excl : Option (List Int)) :
    validate_dimscheck N M dims excl = .ok () ↔ Pre_dimscheck N M dims excl := by
  unfold validate_dimscheck
  rw [map_unit_ok]
  constructor
  · rintro ⟨r, hr⟩; exact ((dimscheck19_ok_iff N M dims excl r).1 hr).1
  · intro h; exact ⟨_, (dimscheck19_ok_iff N M dims excl _).2 ⟨h, rfl⟩⟩

/-- when the repaired check answers, the check modelled in Core/Dims (C17) gives the same answer -/
theorem dimsTail_refines (N : Nat) (M : Option Nat) (arr : List Int) (dupE : Bool) (r : DimsCheck)
    (h : dimsTail N M arr dupE = .ok r) :
    (if arr.any (· < 0) then (.error .reject : Except Reject DimsCheck) else
      match M with
      | none => .ok ⟨(argsortInt arr).map (fun k => (arr.getD k 0).toNat), none⟩
      | some m =>
        if m > N then .error .reject
        else if m ≠ N ∧ m ≠ arr.length then .error .reject
        else if arr.length = m then .ok ⟨(argsortInt arr).map (fun k => (arr.getD k 0).toNat), some (argsortInt arr)⟩
        else .ok ⟨(argsortInt arr).map (fun k => (arr.getD k 0).toNat),
                  some ((argsortInt arr).map (fun k => (arr.getD k 0).toNat))⟩) = .ok r := by
  unfold dimsTail at h
  by_cases h1 : arr.any (· < 0) = true
  · rw [if_pos h1] at h; cases h
  rw [if_neg h1] at h
  rw [if_neg h1]
  by_cases h2 : arr.any (fun x => decide ((N : Int) ≤ x)) = true
  · rw [if_pos h2] at h; cases h
  rw [if_neg h2] at h
  by_cases h3 : (hasDupI arr || dupE) = true
  · rw [if_pos h3] at h; cases h
  rw [if_neg h3] at h
  cases M <;> exact h

/-! ### which multiplicand meets which mode -/

theorem zip_map_self {β γ : Type} (l : List β) (f : β → γ) : l.zip (l.map f) = l.map (fun k => (k, f k)) := by
  induction l with
  | nil => rfl
  | cons x xs ih => simp [ih]

theorem zip_self {β : Type} (l : List β) : l.zip l = l.map (fun k => (k, k)) := by
  induction l with
  | nil => rfl
  | cons x xs ih => simp [ih]

/-- the pairs the code loops over are, up to order, the pairs the specification names -/
theorem pairs_perm (sel : List Int) (m : Nat) :
    (DimsCheck.pairs ⟨sortedModes sel, some (if sel.length = m then argsortInt sel else sortedModes sel)⟩).Perm
      (pairing m sel) := by
  unfold DimsCheck.pairs pairing
  by_cases h : sel.length = m
  · simp only [h, if_true, Option.getD_some, sortedModes]
    rw [zip_map_self]
    have := (argsortInt_perm sel).map (fun k => (k, (sel.getD k 0).toNat))
    rw [h] at this
    exact this
  · have h' : ¬ m = sel.length := fun e => h e.symm
    simp only [h, if_false, Option.getD_some]
    rw [if_neg h', zip_self]
    have := (gather_perm sel Int.toNat).map (fun d => (d, d))
    rw [List.map_map, List.map_map] at this
    rw [sortedModes, List.map_map]
    exact this

theorem all_pairs_iff (sel : List Int) (m : Nat) (q : Nat × Nat → Bool) :
    (DimsCheck.pairs ⟨sortedModes sel, some (if sel.length = m then argsortInt sel else sortedModes sel)⟩).all q = true ↔
      ∀ p ∈ pairing m sel, q p = true := by
  rw [List.all_eq_true]
  exact ⟨fun h p hp => h p ((pairs_perm sel m).mem_iff.2 hp), fun h p hp => h p ((pairs_perm sel m).mem_iff.1 hp)⟩

/-! ### ttv -/

theorem validate_ttv_ok_iff (a : TtvArgs) : validate_ttv a = .ok () ↔ Pre_ttv a := by
  unfold validate_ttv Pre_ttv
  cases hd : dimscheck19 a.shape.length (some a.vecs.length) a.dims a.excl with
  | error e =>
    simp only [error_ne_ok, false_iff]
    rintro ⟨hp, _⟩
    have := (dimscheck19_ok_iff _ _ _ _ _).2 ⟨hp, rfl⟩
    rw [hd] at this; cases this
  | ok r =>
    obtain ⟨hp, rfl⟩ := (dimscheck19_ok_iff _ _ _ _ _).1 hd
    simp only [rejectIf_ok, Bool.not_eq_false', Option.map_some, all_pairs_iff, beq_iff_eq, hp, true_and]

/-! ### ttm -/

theorem validate_ttm_tucker_ok_iff (a : TtmArgs) :
    validate_ttm_tucker a = .ok () ↔
      Pre_dimscheck a.shape.length (some a.mats.length) a.dims a.excl ∧
      ∀ p ∈ pairing a.mats.length (selModes a.shape.length a.dims a.excl),
        (a.mats.getD p.1 (0, 0)).inner a.tr = a.shape.getD p.2 0 := by
  unfold validate_ttm_tucker
  cases hd : dimscheck19 a.shape.length (some a.mats.length) a.dims a.excl with
  | error e =>
    simp only [error_ne_ok, false_iff]
    rintro ⟨hp, _⟩
    have := (dimscheck19_ok_iff _ _ _ _ _).2 ⟨hp, rfl⟩
    rw [hd] at this; cases this
  | ok r =>
    obtain ⟨hp, rfl⟩ := (dimscheck19_ok_iff _ _ _ _ _).1 hd
    simp only [rejectIf_ok, Bool.not_eq_false', Option.map_some, all_pairs_iff, beq_iff_eq, hp, true_and]

theorem getD_set_ne (l : List Nat) (i j v : Nat) (h : i ≠ j) : (l.set i v).getD j 0 = l.getD j 0 := by
  simp [List.getD_eq_getElem?_getD, List.getElem?_set_ne h]

theorem ttmStep_ok (tr : Bool) (mats : List MatS) (sh : List Nat) (p : Nat × Nat) (hp : p.2 < sh.length)
    (hfit : (mats.getD p.1 (0, 0)).inner tr = sh.getD p.2 0) :
    ttmStep tr mats sh p = .ok (sh.set p.2 ((mats.getD p.1 (0, 0)).outer tr)) := by
  unfold ttmStep
  rw [if_neg (by omega), if_neg (by rw [bne_iff_ne, ne_eq, not_not]; exact hfit)]

theorem ttmStep_reject (tr : Bool) (mats : List MatS) (sh : List Nat) (p : Nat × Nat) (hp : p.2 < sh.length)
    (hfit : ¬ (mats.getD p.1 (0, 0)).inner tr = sh.getD p.2 0) :
    ttmStep tr mats sh p = .error .reject := by
  unfold ttmStep
  rw [if_neg (by omega), if_pos (by rw [bne_iff_ne]; exact hfit)]

theorem ttmStep_ok_iff (tr : Bool) (mats : List MatS) (sh : List Nat) (p : Nat × Nat) (hp : p.2 < sh.length) :
    (∃ b, ttmStep tr mats sh p = .ok b) ↔ (mats.getD p.1 (0, 0)).inner tr = sh.getD p.2 0 := by
  by_cases hfit : (mats.getD p.1 (0, 0)).inner tr = sh.getD p.2 0
  · rw [ttmStep_ok tr mats sh p hp hfit]; exact ⟨fun _ => hfit, fun _ => ⟨_, rfl⟩⟩
  · rw [ttmStep_reject tr mats sh p hp hfit]
    constructor
    · rintro ⟨_, h⟩; cases h
    · intro h; exact absurd h hfit

/-- applying the matrices one after the other succeeds iff each matrix fits the ORIGINAL
extent of its mode, because no mode is used twice -/
theorem foldlM_ttmStep (tr : Bool) (mats : List MatS) :
    ∀ (L : List (Nat × Nat)) (sh : List Nat), (L.map (·.2)).Nodup → (∀ p ∈ L, p.2 < sh.length) →
      ((∃ s', L.foldlM (ttmStep tr mats) sh = .ok s') ↔
        ∀ p ∈ L, (mats.getD p.1 (0, 0)).inner tr = sh.getD p.2 0) := by
  intro L
  induction L with
  | nil => intro sh _ _; simp [List.foldlM, pure, Except.pure]
  | cons p rest ih =>
    intro sh hnd hlt
    have hp : p.2 < sh.length := hlt p (List.mem_cons_self ..)
    rw [List.map_cons, List.nodup_cons] at hnd
    simp only [List.foldlM_cons, List.mem_cons, forall_eq_or_imp]
    by_cases hfit : (mats.getD p.1 (0, 0)).inner tr = sh.getD p.2 0
    · rw [ttmStep_ok tr mats sh p hp hfit]
      show (∃ s', rest.foldlM (ttmStep tr mats) (sh.set p.2 _) = .ok s') ↔ _
      rw [ih _ hnd.2 (by intro q hq; simpa using hlt q (List.mem_cons_of_mem _ hq))]
      simp only [hfit, true_and]
      constructor
      · intro h q hq
        rw [h q hq, getD_set_ne]
        intro e; exact hnd.1 (List.mem_map.2 ⟨q, hq, e.symm⟩)
      · intro h q hq
        rw [h q hq, getD_set_ne]
        intro e; exact hnd.1 (List.mem_map.2 ⟨q, hq, e.symm⟩)
    · rw [ttmStep_reject tr mats sh p hp hfit]
      constructor
      · rintro ⟨s', h⟩; cases h
      · rintro ⟨h, _⟩; exact absurd h hfit

theorem map_getD_range_int (sel : List Int) :
    (List.range sel.length).map (fun j => (sel.getD j 0).toNat) = sel.map Int.toNat := by
  apply List.ext_getElem
  · simp
  · intro i h1 h2
    simp at h1
    simp [List.getD_eq_getElem?_getD, List.getElem?_eq_getElem h1]

/-- in either convention the modes that are multiplied are the selected ones -/
theorem pairing_modes (m : Nat) (sel : List Int) : (pairing m sel).map (·.2) = sel.map Int.toNat := by
  unfold pairing
  by_cases h : m = sel.length
  · rw [if_pos h, List.map_map, h]
    exact map_getD_range_int sel
  · rw [if_neg h, List.map_map]; rfl

theorem toNat_nodup {N : Nat} {sel : List Int} (h : ModesOK N sel) : (sel.map Int.toNat).Nodup := by
  unfold List.Nodup
  rw [List.pairwise_map]
  refine List.Pairwise.imp_of_mem ?_ h.2
  intro x y hx hy hne e
  have := (h.1 x hx).1
  have := (h.1 y hy).1
  omega

theorem Pre_dimscheck.sel_modesOK {N : Nat} {M : Option Nat} {dims excl : Option (List Int)}
    (h : Pre_dimscheck N M dims excl) : ModesOK N (selModes N dims excl) := by
  obtain ⟨h0, h1, h2, _⟩ := h
  cases dims with
  | some d => exact h1
  | none =>
    cases excl with
    | some e => exact complement_modesOK N e
    | none => exact range_modesOK N

theorem sortedModes_singleton (sel : List Int) (h : sel.length = 1) :
    sortedModes sel = [(sel.getD 0 0).toNat] := by
  match sel, h with
  | [x], _ =>
    have : argsortInt [x] = List.range 1 := argsortInt_of_sorted [x] (by simp)
    simp [sortedModes, this]

theorem length_sortedModes (sel : List Int) : (sortedModes sel).length = sel.length := by
  simp [sortedModes, (argsortInt_perm sel).length_eq]

theorem validate_ttm_seq_ok_iff (a : TtmArgs) :
    validate_ttm_seq a = .ok () ↔
      (if a.single = true then
        Pre_dimscheck a.shape.length none a.dims a.excl ∧ (selModes a.shape.length a.dims a.excl).length = 1 ∧
          a.mats.length = 1 ∧
          (a.mats.getD 0 (0, 0)).inner a.tr = a.shape.getD ((selModes a.shape.length a.dims a.excl).getD 0 0).toNat 0
       else
        Pre_dimscheck a.shape.length (some a.mats.length) a.dims a.excl ∧
          pairing a.mats.length (selModes a.shape.length a.dims a.excl) ≠ [] ∧
          ∀ p ∈ pairing a.mats.length (selModes a.shape.length a.dims a.excl),
            (a.mats.getD p.1 (0, 0)).inner a.tr = a.shape.getD p.2 0) := by
  unfold validate_ttm_seq
  by_cases hs : a.single = true
  · rw [if_pos hs, if_pos hs]
    cases hd : dimscheck19 a.shape.length none a.dims a.excl with
    | error e =>
      simp only [error_ne_ok, false_iff]
      rintro ⟨hp, _⟩
      have := (dimscheck19_ok_iff _ _ _ _ _).2 ⟨hp, rfl⟩
      rw [hd] at this; cases this
    | ok r =>
      obtain ⟨hp, rfl⟩ := (dimscheck19_ok_iff _ _ _ _ _).1 hd
      simp only [hp, true_and, length_sortedModes]
      by_cases h1 : (selModes a.shape.length a.dims a.excl).length = 1
      · rw [if_neg (by simp [h1])]
        by_cases h2 : a.mats.length = 1
        · rw [if_neg (by simp [h2]), map_unit_ok, sortedModes_singleton _ h1]
          simp only [h1, h2, true_and, List.getD_cons_zero]
          have hm := hp.sel_modesOK
          have hlt : ((selModes a.shape.length a.dims a.excl).getD 0 0).toNat < a.shape.length := by
            have hmem : (selModes a.shape.length a.dims a.excl).getD 0 0 ∈ selModes a.shape.length a.dims a.excl := by
              rw [List.getD_eq_getElem?_getD, List.getElem?_eq_getElem (by omega)]
              exact List.getElem_mem _
            have := hm.1 _ hmem
            unfold IsMode at this
            omega
          exact ttmStep_ok_iff a.tr a.mats a.shape (0, ((selModes a.shape.length a.dims a.excl).getD 0 0).toNat) hlt
        · rw [if_pos (by simp [h2])]
          simp [h2]
      · rw [if_pos (by simp [h1])]
        simp [h1]
  · have hs' : a.single = false := by simpa using hs
    rw [if_neg (by simp [hs']), if_neg hs]
    cases hd : dimscheck19 a.shape.length (some a.mats.length) a.dims a.excl with
    | error e =>
      simp only [error_ne_ok, false_iff]
      rintro ⟨hp, _⟩
      have := (dimscheck19_ok_iff _ _ _ _ _).2 ⟨hp, rfl⟩
      rw [hd] at this; cases this
    | ok r =>
      obtain ⟨hp, rfl⟩ := (dimscheck19_ok_iff _ _ _ _ _).1 hd
      simp only [hp, true_and, Option.map_some]
      have hperm := pairs_perm (selModes a.shape.length a.dims a.excl) a.mats.length
      have hm := hp.sel_modesOK
      have hnd : ((DimsCheck.pairs ⟨sortedModes (selModes a.shape.length a.dims a.excl),
          some (if (selModes a.shape.length a.dims a.excl).length = a.mats.length then argsortInt (selModes a.shape.length a.dims a.excl)
                else sortedModes (selModes a.shape.length a.dims a.excl))⟩).map (·.2)).Nodup := by
        rw [(hperm.map (·.2)).nodup_iff, pairing_modes]
        exact toNat_nodup hm
      have hlt : ∀ p ∈ DimsCheck.pairs ⟨sortedModes (selModes a.shape.length a.dims a.excl),
          some (if (selModes a.shape.length a.dims a.excl).length = a.mats.length then argsortInt (selModes a.shape.length a.dims a.excl)
                else sortedModes (selModes a.shape.length a.dims a.excl))⟩, p.2 < a.shape.length := by
        intro p hp'
        have : p.2 ∈ (pairing a.mats.length (selModes a.shape.length a.dims a.excl)).map (·.2) :=
          List.mem_map.2 ⟨p, hperm.mem_iff.1 hp', rfl⟩
        rw [pairing_modes] at this
        obtain ⟨x, hx, hxe⟩ := List.mem_map.1 this
        have := hm.1 x hx
        unfold IsMode at this
        omega
      have hfold := foldlM_ttmStep a.tr a.mats _ a.shape hnd hlt
      by_cases hempty : (DimsCheck.pairs ⟨sortedModes (selModes a.shape.length a.dims a.excl),
          some (if (selModes a.shape.length a.dims a.excl).length = a.mats.length then argsortInt (selModes a.shape.length a.dims a.excl)
                else sortedModes (selModes a.shape.length a.dims a.excl))⟩) = []
      · have : pairing a.mats.length (selModes a.shape.length a.dims a.excl) = [] := by
          have := hperm.length_eq
          rw [hempty] at this
          exact List.eq_nil_of_length_eq_zero this.symm
        rw [if_pos (by simp [hempty])]
        simp [this]
      · have hne : pairing a.mats.length (selModes a.shape.length a.dims a.excl) ≠ [] := by
          intro e
          have := hperm.length_eq
          rw [e] at this
          exact hempty (List.eq_nil_of_length_eq_zero this)
        rw [if_neg (by simpa using hempty), map_unit_ok, hfold]
        simp only [hne, ne_eq, not_false_eq_true, true_and]
        exact ⟨fun h p hp' => h p (hperm.mem_iff.2 hp'), fun h p hp' => h p (hperm.mem_iff.1 hp')⟩

end Pyttb
