/-
Proofs for property C19: the validation prefix of every operation (Ops/Validate.lean)
accepts exactly the requests that satisfy the precondition (Spec/Preconditions.lean).
-/
import PyttbModel.Ops.Validate
import PyttbModel.Lemmas.Dims
import PyttbModel.Lemmas.Perm
import PyttbModel.Lemmas.KhatriRao
namespace Pyttb

/-! ### outcomes -/

theorem ok_or_reject (v : Except Reject Unit) : v = .ok () ∨ v = .error .reject := by
  cases v with
  | ok u => left; rfl
  | error e => right; cases e; rfl

theorem reject_of_not_ok {v : Except Reject Unit} (h : v ≠ .ok ()) : v = .error .reject :=
  (ok_or_reject v).resolve_left h

theorem rejects_of_guard {v : Except Reject Unit} {P : Prop} (h : v = .ok () ↔ P) (hn : ¬ P) :
    v = .error .reject := reject_of_not_ok (fun hv => hn (h.1 hv))

@[simp] theorem rejectIf_ok (c : Bool) : rejectIf c = .ok () ↔ c = false := by
  cases c <;> simp [rejectIf]

@[simp] theorem error_ne_ok (e : Reject) : (Except.error e : Except Reject Unit) = .ok () ↔ False := by simp

theorem map_unit_ok {β : Type} (x : Except Reject β) : x.map (fun _ => ()) = .ok () ↔ ∃ b, x = .ok b := by
  cases x <;> simp [Except.map]

/-! ### reflections of the elementary tests -/

theorem hasDupI_false (l : List Int) : hasDupI l = false ↔ l.Nodup := by
  induction l with
  | nil => simp [hasDupI]
  | cons x xs ih => simp [hasDupI, ih, List.nodup_cons]

theorem allInRange_iff (n : Nat) (l : List Int) : allInRange n l = true ↔ ∀ m ∈ l, IsMode n m := by
  simp [allInRange, List.all_eq_true, IsMode]

theorem isPermOfI_iff (p : List Int) (n : Nat) : isPermOfI p n = true ↔ IsPermI p n := by
  simp [isPermOfI, IsPermI, List.all_eq_true]

theorem rowInShape_iff (s : List Nat) (row : List Int) : rowInShape s row = true ↔ RowInShape s row := by
  simp [rowInShape, RowInShape, List.all_eq_true]

theorem nodup_range_ofNat (n : Nat) : ((List.range n).map Int.ofNat).Nodup :=
  List.Pairwise.map Int.ofNat (fun a b h e => h (Int.ofNat.inj e)) List.nodup_range

/-- a permutation of the modes is a rearrangement of `0 .. n-1` -/
theorem IsPermI.perm {p : List Int} {n : Nat} (h : IsPermI p n) : ((List.range n).map Int.ofNat).Perm p := by
  obtain ⟨hl, hm⟩ := h
  have hsub : ((List.range n).map Int.ofNat).Subperm p := by
    apply List.subperm_of_subset (nodup_range_ofNat n)
    intro x hx
    obtain ⟨m, hm', rfl⟩ := List.mem_map.1 hx
    exact hm m (List.mem_range.1 hm')
  exact hsub.perm_of_length_le (by simp [hl])

/-- a permutation of the modes lists modes only, each once -/
theorem IsPermI.modesOK {p : List Int} {n : Nat} (h : IsPermI p n) : ModesOK n p := by
  have hperm := h.perm
  refine ⟨fun m hmem => ?_, hperm.nodup_iff.1 (nodup_range_ofNat n)⟩
  obtain ⟨k, hk, rfl⟩ := List.mem_map.1 (hperm.mem_iff.2 hmem)
  have := List.mem_range.1 hk
  exact ⟨Int.natCast_nonneg k, Int.ofNat_lt.2 this⟩

/-! ### `tt_dimscheck` -/

theorem any_neg_false_iff (l : List Int) : l.any (· < 0) = false ↔ ∀ x ∈ l, 0 ≤ x := by
  simp [List.any_eq_false]

theorem any_ge_false_iff (N : Nat) (l : List Int) :
    l.any (fun x => decide ((N : Int) ≤ x)) = false ↔ ∀ x ∈ l, x < (N : Int) := by
  simp [List.any_eq_false]

/-- distinct modes of an order-`N` tensor are at most `N` -/
theorem ModesOK.length_le {N : Nat} {l : List Int} (h : ModesOK N l) : l.length ≤ N := by
  have hsub : l.Subperm ((List.range N).map Int.ofNat) := by
    apply List.subperm_of_subset h.2
    intro x hx
    obtain ⟨h0, h1⟩ := h.1 x hx
    refine List.mem_map.2 ⟨x.toNat, List.mem_range.2 (by omega), ?_⟩
    show Int.ofNat x.toNat = x
    simp [Int.toNat_of_nonneg h0]
  simpa using hsub.length_le

/-- what `dimsTail` answers, and when -/
theorem dimsTail_ok_iff (N : Nat) (M : Option Nat) (arr : List Int) (dupE : Bool) (r : DimsCheck) :
    dimsTail N M arr dupE = .ok r ↔
      ModesOK N arr ∧ dupE = false ∧ optAll M (fun m => m = N ∨ m = arr.length) ∧
      r = ⟨sortedModes arr, M.map (fun m => if arr.length = m then argsortInt arr else sortedModes arr)⟩ := by
  unfold dimsTail
  by_cases h1 : arr.any (· < 0) = true
  · simp only [h1, if_true]
    constructor
    · intro h; cases h
    · rintro ⟨⟨hm, _⟩, _⟩
      have := (any_neg_false_iff arr).2 (fun x hx => (hm x hx).1)
      simp [this] at h1
  have h1' := (any_neg_false_iff arr).1 (by simpa using h1)
  by_cases h2 : arr.any (fun x => decide ((N : Int) ≤ x)) = true
  · simp only [h1, h2, if_true, Bool.false_eq_true, if_false]
    constructor
    · intro h; cases h
    · rintro ⟨⟨hm, _⟩, _⟩
      have := (any_ge_false_iff N arr).2 (fun x hx => (hm x hx).2)
      simp [this] at h2
  have h2' := (any_ge_false_iff N arr).1 (by simpa using h2)
  by_cases h3 : (hasDupI arr || dupE) = true
  · simp only [h1, h2, h3, if_true, Bool.false_eq_true, if_false]
    constructor
    · intro h; cases h
    · rintro ⟨⟨_, hn⟩, hd, _⟩
      have := (hasDupI_false arr).2 hn
      simp [this, hd] at h3
  have h3' : hasDupI arr = false ∧ dupE = false := by simpa using h3
  have hmodes : ModesOK N arr := ⟨fun x hx => ⟨h1' x hx, h2' x hx⟩, (hasDupI_false arr).1 h3'.1⟩
  have hle := hmodes.length_le
  simp only [h1, h2, h3, Bool.false_eq_true, if_false]
  cases M with
  | none =>
    simp only [optAll, Option.map_none, true_and, hmodes, h3'.2, sortedModes]
    constructor
    · intro h; cases h; rfl
    · intro h; rw [h]
  | some m =>
    simp only [optAll, Option.map_some, hmodes, h3'.2, true_and, sortedModes]
    by_cases hm1 : m > N
    · simp only [hm1, if_true]
      constructor
      · intro h; cases h
      · rintro ⟨h | h, _⟩ <;> omega
    by_cases hm2 : m ≠ N ∧ m ≠ arr.length
    · simp only [hm1, hm2, if_false]
      constructor
      · intro h; simp at h
      · rintro ⟨h | h, _⟩ <;> omega
    have hm2' : m = N ∨ m = arr.length := by omega
    by_cases hm3 : arr.length = m
    · simp only [hm1, hm2, hm3, if_false, if_true]
      constructor
      · intro h; cases h; exact ⟨hm2'.imp id (fun _ => hm3.symm ▸ rfl), rfl⟩
      · rintro ⟨_, h⟩; rw [h]
    · simp only [hm1, hm2, hm3, if_false]
      constructor
      · intro h; cases h; exact ⟨hm2', rfl⟩
      · rintro ⟨_, h⟩; rw [h]

theorem complement_modesOK (N : Nat) (e : List Int) :
    ModesOK N (((List.range N).filter (fun (k : Nat) => !e.contains (Int.ofNat k))).map (fun (k : Nat) => Int.ofNat k)) := by
  constructor
  · intro m hm
    obtain ⟨k, hk, rfl⟩ := List.mem_map.1 hm
    have := List.mem_range.1 (List.mem_filter.1 hk).1
    exact ⟨Int.natCast_nonneg k, Int.ofNat_lt.2 this⟩
  · exact List.Pairwise.map _ (fun a b h e' => h (Int.ofNat.inj e')) (List.nodup_range.filter _)

theorem range_modesOK (N : Nat) : ModesOK N ((List.range N).map (fun (k : Nat) => Int.ofNat k)) := by
  constructor
  · intro m hm
    obtain ⟨k, hk, rfl⟩ := List.mem_map.1 hm
    exact ⟨Int.natCast_nonneg k, Int.ofNat_lt.2 (List.mem_range.1 hk)⟩
  · exact nodup_range_ofNat N

/-- `tt_dimscheck` answers exactly the well-formed requests, with the sorted selection and the
index of the multiplicands -/
theorem dimscheck19_ok_iff (N : Nat) (M : Option Nat) (dims excl : Option (List Int)) (r : DimsCheck) :
    dimscheck19 N M dims excl = .ok r ↔
      Pre_dimscheck N M dims excl ∧
      r = ⟨sortedModes (selModes N dims excl),
           M.map (fun m => if (selModes N dims excl).length = m then argsortInt (selModes N dims excl)
                           else sortedModes (selModes N dims excl))⟩ := by
  cases dims with
  | some d =>
    cases excl with
    | some e => simp [dimscheck19, Pre_dimscheck]
    | none =>
      simp only [dimscheck19, dimsTail_ok_iff, Pre_dimscheck, selModes, optAll, Option.isSome_none, Option.isSome_some]
      constructor
      · rintro ⟨h1, _, h3, h4⟩; exact ⟨⟨by simp, h1, trivial, h3⟩, h4⟩
      · rintro ⟨⟨_, h1, _, h3⟩, h4⟩; exact ⟨h1, rfl, h3, h4⟩
  | none =>
    cases excl with
    | none =>
      simp only [dimscheck19, dimsTail_ok_iff, Pre_dimscheck, selModes, optAll, Option.isSome_none]
      constructor
      · rintro ⟨_, _, h3, h4⟩; exact ⟨⟨by simp, trivial, trivial, h3⟩, h4⟩
      · rintro ⟨⟨_, _, _, h3⟩, h4⟩; exact ⟨range_modesOK N, rfl, h3, h4⟩
    | some e =>
      simp only [dimscheck19, Pre_dimscheck, selModes, optAll, Option.isSome_none, Option.isSome_some]
      by_cases hall : e.all (fun x => decide (0 ≤ x) && decide (x < (N : Int))) = true
      · have hall' : ∀ m ∈ e, IsMode N m := by
          simpa [List.all_eq_true, IsMode] using hall
        simp only [hall, if_true, dimsTail_ok_iff, hasDupI_false]
        constructor
        · rintro ⟨_, h2, h3, h4⟩; exact ⟨⟨by simp, trivial, ⟨hall', h2⟩, h3⟩, h4⟩
        · rintro ⟨⟨_, _, ⟨_, h2⟩, h3⟩, h4⟩; exact ⟨complement_modesOK N e, h2, h3, h4⟩
      · simp only [hall, Bool.false_eq_true, if_false]
        constructor
        · intro h; cases h
        · rintro ⟨⟨_, _, ⟨h2, _⟩, _⟩, _⟩
          exact absurd (by simpa [List.all_eq_true, IsMode] using h2) hall

theorem validate_dimscheck_ok_iff (N : Nat) (M : Option Nat) (dims excl : Option (List Int)) :
    validate_dimscheck N M dims excl = .ok () ↔ Pre_dimscheck N M dims excl := by
  unfold validate_dimscheck
  rw [map_unit_ok]
  constructor
  · rintro ⟨r, hr⟩; exact ((dimscheck19_ok_iff N M dims excl r).1 hr).1
  · intro h; exact ⟨_, (dimscheck19_ok_iff N M dims excl _).2 ⟨h, rfl⟩⟩

/-- when the repaired check answers, the check modelled in Core/Dims (C17) gives the same answer -/
theorem dimsTail_refines (N : Nat) (M : Option Nat) (arr : List Int) (dupE : Bool) (r : DimsCheck)
    (h : dimsTail N M arr dupE = .ok r) :
    (if arr.any (· < 0) then (.error .reject : Except Reject DimsCheck) else
      match M with
      | none => .ok ⟨(argsortInt arr).map (fun k => (arr.getD k 0).toNat), none⟩
      | some m =>
        if m > N then .error .reject
        else if m ≠ N ∧ m ≠ arr.length then .error .reject
        else if arr.length = m then .ok ⟨(argsortInt arr).map (fun k => (arr.getD k 0).toNat), some (argsortInt arr)⟩
        else .ok ⟨(argsortInt arr).map (fun k => (arr.getD k 0).toNat),
                  some ((argsortInt arr).map (fun k => (arr.getD k 0).toNat))⟩) = .ok r := by
  unfold dimsTail at h
  split at h
  · cases h
  · rename_i h1
    simp only [h1, Bool.false_eq_true, if_false]
    split at h
    · cases h
    · split at h
      · cases h
      · exact h

end Pyttb
