/-
Proofs for property C19: the validation prefix of every operation (Ops/Validate.lean)
accepts exactly the requests that satisfy the precondition (Spec/Preconditions.lean).
-/
import PyttbModel.Ops.Validate
import PyttbModel.Lemmas.Dims
import PyttbModel.Lemmas.Perm
import PyttbModel.Lemmas.KhatriRao
namespace Pyttb

/-! ### outcomes -/

theorem ok_or_reject (v : Except Reject Unit) : v = .ok () ∨ v = .error .reject := by
  cases v with
  | ok u => left; rfl
  | error e => right; cases e; rfl

theorem reject_of_not_ok {v : Except Reject Unit} (h : v ≠ .ok ()) : v = .error .reject :=
  (ok_or_reject v).resolve_left h

theorem rejects_of_guard {v : Except Reject Unit} {P : Prop} (h : v = .ok () ↔ P) (hn : ¬ P) :
    v = .error .reject := reject_of_not_ok (fun hv => hn (h.1 hv))

@[simp] theorem rejectIf_ok (c : Bool) : rejectIf c = .ok () ↔ c = false := by
  cases c <;> simp [rejectIf]

@[simp] theorem error_ne_ok (e : Reject) : (Except.error e : Except Reject Unit) = .ok () ↔ False := by simp

theorem map_unit_ok {β : Type} (x : Except Reject β) : x.map (fun _ => ()) = .ok () ↔ ∃ b, x = .ok b := by
  cases x <;> simp [Except.map]

/-! ### reflections of the elementary tests -/

theorem hasDupI_false (l : List Int) : hasDupI l = false ↔ l.Nodup := by
  induction l with
  | nil => simp [hasDupI]
  | cons x xs ih => simp [hasDupI, ih, List.nodup_cons]

theorem allInRange_iff (n : Nat) (l : List Int) : allInRange n l = true ↔ ∀ m ∈ l, IsMode n m := by
  simp [allInRange, List.all_eq_true, IsMode]

theorem isPermOfI_iff (p : List Int) (n : Nat) : isPermOfI p n = true ↔ IsPermI p n := by
  simp [isPermOfI, IsPermI, List.all_eq_true]

theorem rowInShape_iff (s : List Nat) (row : List Int) : rowInShape s row = true ↔ RowInShape s row := by
  simp [rowInShape, RowInShape, List.all_eq_true]

theorem nodup_range_ofNat (n : Nat) : ((List.range n).map Int.ofNat).Nodup :=
  List.Pairwise.map Int.ofNat (fun a b h => by simpa using h) List.nodup_range

/-- a permutation of the modes is a rearrangement of `0 .. n-1` -/
theorem IsPermI.perm {p : List Int} {n : Nat} (h : IsPermI p n) : ((List.range n).map Int.ofNat).Perm p := by
  obtain ⟨hl, hm⟩ := h
  have hsub : ((List.range n).map Int.ofNat).Subperm p := by
    apply List.subperm_of_subset (nodup_range_ofNat n)
    intro x hx
    obtain ⟨m, hm', rfl⟩ := List.mem_map.1 hx
    exact hm m (List.mem_range.1 hm')
  exact hsub.perm_of_length_le (by simp [hl])

/-- a permutation of the modes lists modes only, each once -/
theorem IsPermI.modesOK {p : List Int} {n : Nat} (h : IsPermI p n) : ModesOK n p := by
  have hperm := h.perm
  refine ⟨fun m hmem => ?_, hperm.nodup_iff.1 (nodup_range_ofNat n)⟩
  obtain ⟨k, hk, rfl⟩ := List.mem_map.1 (hperm.mem_iff.2 hmem)
  have := List.mem_range.1 hk
  exact ⟨Int.natCast_nonneg k, by exact_mod_cast this⟩

end Pyttb
