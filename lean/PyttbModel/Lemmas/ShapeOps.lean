/-
Proofs for property C07: permute / reshape / squeeze of dense, sparse and Kruskal tensors are
exact index maps.  General permutation facts are in Lemmas/Perm.lean.
-/
import PyttbModel.Ops.Dense
import PyttbModel.Ops.Sparse
import PyttbModel.Ops.Kruskal
import PyttbModel.Lemmas.Idx
import PyttbModel.Lemmas.Arr
import PyttbModel.Lemmas.Perm
import PyttbModel.Lemmas.EraseDups
import Mathlib.Algebra.Ring.Defs
namespace Pyttb

variable {α : Type}

/-! ### dense permute -/

namespace Dense

theorem transpose_shape [Zero α] (T : Dense α) (p : List Nat) :
    (T.transpose p).shape = gather T.shape p := rfl

theorem transpose_WF [Zero α] (T : Dense α) (p : List Nat) : (T.transpose p).WF := ofFn_WF _ _

theorem transpose_get [Zero α] (T : Dense α) (p : List Nat) {j : List Nat}
    (hj : InBounds (gather T.shape p) j) :
    (T.transpose p).get j = T.get (gather j (invPerm p)) := ofFn_get _ _ hj

/-- transposing by the identity order changes nothing. -/
theorem transpose_range [Zero α] (T : Dense α) (hT : T.WF) :
    T.transpose (List.range T.shape.length) = T := by
  apply ext_get (transpose_WF _ _) hT
  · rw [transpose_shape, gather_range]
  · intro i hi
    rw [transpose_shape] at hi
    rw [transpose_get _ _ hi, invPerm_range]
    rw [gather_range] at hi
    rw [gather_range_of_length hi.length_eq]

/-- for a well-formed tensor and a permutation, `permute` is the transposition (also for the
empty order, where the code copies). -/
theorem permute_eq_transpose [Zero α] (T : Dense α) (p : List Nat) (hT : T.WF)
    (hp : isPermOf p T.shape.length = true) : T.permute p = .ok (T.transpose p) := by
  have hl := isPermOf_length_eq hp
  by_cases hne : p = []
  · subst hne
    have h0 : T.shape.length = 0 := by simpa using hl.symm
    have : T.transpose [] = T := by
      have := transpose_range T hT
      rwa [h0] at this
    rw [this]
    simp [permute, permuteG, h0]
  · have h1 : (T.shape.length != p.length) = false := by simp [hl]
    have h2 : p.isEmpty = false := by simpa using hne
    simp [permute, permuteG, h1, h2, hp]

end Dense

theorem permute_at_dense [Zero α] (T : Dense α) (p : List Nat) (hT : T.WF)
    (hp : isPermOf p T.shape.length = true) (j : List Nat) (hj : InBounds (gather T.shape p) j) :
    ∃ P, T.permute p = .ok P ∧ P.shape = gather T.shape p ∧ P.WF ∧
      P.get j = T.get (gather j (invPerm p)) :=
  ⟨T.transpose p, Dense.permute_eq_transpose T p hT hp, rfl, Dense.transpose_WF T p,
    Dense.transpose_get T p hj⟩

theorem permute_inverse_dense [Zero α] (T : Dense α) (p : List Nat) (hT : T.WF)
    (hp : isPermOf p T.shape.length = true) :
    ∃ P, T.permute p = .ok P ∧ P.permute (invPerm p) = .ok T := by
  have hl := isPermOf_length_eq hp
  refine ⟨T.transpose p, Dense.permute_eq_transpose T p hT hp, ?_⟩
  have hq : isPermOf (invPerm p) (T.transpose p).shape.length = true := by
    rw [Dense.transpose_shape, length_gather, hl]; exact isPermOf_invPerm hp
  rw [Dense.permute_eq_transpose _ _ (Dense.transpose_WF T p) hq]
  congr 1
  have hs : ((T.transpose p).transpose (invPerm p)).shape = T.shape := by
    rw [Dense.transpose_shape, Dense.transpose_shape, gather_gather_invPerm hp rfl]
  apply Dense.ext_get (Dense.transpose_WF _ _) hT hs
  intro i hi
  have hi' : InBounds T.shape i := by rwa [hs] at hi
  rw [Dense.transpose_get _ _ (by rwa [Dense.transpose_shape] at hi), invPerm_invPerm hp,
    Dense.transpose_get _ _ (hi'.gather (fun k hk => isPermOf_lt_of_mem hp hk)),
    gather_gather_invPerm hp hi'.length_eq]

theorem permute_id_dense [Zero α] (T : Dense α) (hT : T.WF) :
    T.permute (List.range T.shape.length) = .ok T := by
  rw [Dense.permute_eq_transpose T _ hT (isPermOf_range _), Dense.transpose_range T hT]

theorem permute_rejects_dense [Zero α] (T : Dense α) (p : List Nat)
    (hp : isPermOf p T.shape.length = false) : T.permute p = .error .reject := by
  unfold Dense.permute Dense.permuteG
  by_cases hl : T.shape.length = p.length
  · have hne : p.isEmpty = false := by
      cases p with
      | nil =>
        rw [hl] at hp
        have := (isPermOf_nil_iff 0).2 rfl
        simp [this] at hp
      | cons a p => rfl
    have h1 : (T.shape.length != p.length) = false := by simp [hl]
    simp [h1, hne, hp]
  · simp [hl]

/-! ### dense reshape -/

theorem reshape_at_dense [Zero α] (T : Dense α) (s' : List Nat) (hT : T.WF)
    (hn : numel s' = numel T.shape) (j : List Nat) (hj : InBounds s' j) :
    ∃ P, T.reshape s' = .ok P ∧ P.shape = s' ∧ P.WF ∧
      P.get j = T.get (ind2sub T.shape (sub2ind s' j)) := by
  refine ⟨⟨s', T.data⟩, by simp [Dense.reshape, hn], rfl, ?_, ?_⟩
  · simp only [Dense.WF, hn]; exact hT
  · have hlt : sub2ind s' j < numel T.shape := by rw [← hn]; exact sub2ind_lt hj
    simp only [Dense.get, sub2ind_ind2sub hlt]

theorem reshape_back_dense (T : Dense α) (s' : List Nat) (hn : numel s' = numel T.shape) :
    ∃ P, T.reshape s' = .ok P ∧ P.reshape T.shape = .ok T :=
  ⟨⟨s', T.data⟩, by simp [Dense.reshape, hn], by simp [Dense.reshape, hn]⟩

theorem reshape_rejects (T : Dense α) (S : Sparse α) (s' : List Nat) :
    (numel s' ≠ numel T.shape → T.reshape s' = .error .reject) ∧
    (numel s' ≠ numel S.shape → S.reshape s' none = .error .reject) := by
  constructor
  · intro h
    have : numel T.shape ≠ numel s' := fun e => h e.symm
    simp [Dense.reshape, this]
  · intro h
    have : numel s' ≠ numel (gather S.shape (List.range S.shape.length)) := by
      rw [gather_range]; exact h
    simp [Sparse.reshape, this]

/-! ### singleton modes -/

theorem filter_gt_one_of_all {s : List Nat} (h : s.all (· > 1) = true) : s.filter (· > 1) = s := by
  rw [List.filter_eq_self]
  intro a ha
  exact List.all_eq_true.1 h a ha

theorem dropSingletons_cons (a b : Nat) (s i : List Nat) :
    dropSingletons (a :: s) (b :: i) =
      if a > 1 then b :: dropSingletons s i else dropSingletons s i := by
  by_cases h : a > 1 <;> simp [dropSingletons, h]

/-- without singleton modes nothing is dropped. -/
theorem dropSingletons_of_all {s i : List Nat} (h : s.all (· > 1) = true)
    (hl : i.length = s.length) : dropSingletons s i = i := by
  induction s generalizing i with
  | nil => cases i with
    | nil => rfl
    | cons b i => simp at hl
  | cons a s ih =>
    cases i with
    | nil => simp at hl
    | cons b i =>
      simp only [List.all_cons, Bool.and_eq_true, decide_eq_true_eq] at h
      simp only [List.length_cons, Nat.add_right_cancel_iff] at hl
      rw [dropSingletons_cons, if_pos h.1, ih h.2 hl]

/-- the cells of the squeezed shape have the same linear index. -/
theorem sub2ind_dropSingletons {s i : List Nat} (h : InBounds s i) :
    sub2ind (s.filter (· > 1)) (dropSingletons s i) = sub2ind s i := by
  induction s generalizing i with
  | nil => cases i <;> simp_all [InBounds, dropSingletons, sub2ind]
  | cons a s ih =>
    cases i with
    | nil => simp [InBounds] at h
    | cons b i =>
      simp only [InBounds] at h
      rw [dropSingletons_cons]
      by_cases ha : a > 1
      · rw [if_pos ha, List.filter_cons_of_pos (by simpa using ha)]
        simp only [sub2ind, ih h.2]
      · rw [if_neg ha, List.filter_cons_of_neg (by simpa using ha)]
        have ha1 : a = 1 := by omega
        have hb : b = 0 := by omega
        simp only [sub2ind, ih h.2, ha1, hb]
        omega

theorem numel_filter_gt_one {s : List Nat} (hpos : ∀ e ∈ s, 1 ≤ e) :
    numel (s.filter (· > 1)) = numel s := by
  induction s with
  | nil => rfl
  | cons a s ih =>
    have h1 := hpos a (by simp)
    have ih' := ih (fun e he => hpos e (by simp [he]))
    by_cases ha : a > 1
    · rw [List.filter_cons_of_pos (by simpa using ha)]; simp [ih']
    · rw [List.filter_cons_of_neg (by simpa using ha)]
      have ha1 : a = 1 := by omega
      simp [ih', ha1]

theorem sub2ind_zeros (s : List Nat) : sub2ind s (s.map (fun _ => 0)) = 0 := by
  induction s with
  | nil => rfl
  | cons a s ih => simp [sub2ind, ih]

theorem all_one_of_filter_nil {s : List Nat} (hpos : ∀ e ∈ s, 1 ≤ e)
    (h : s.filter (· > 1) = []) : ∀ e ∈ s, e = 1 := by
  intro e he
  have h1 := hpos e he
  have h2 := List.filter_eq_nil_iff.1 h e he
  simp at h2
  omega

/-- in a shape of singleton modes the only subscript is all zeros. -/
theorem eq_zeros_of_all_one {s i : List Nat} (h1 : ∀ e ∈ s, e = 1) (h : InBounds s i) :
    i = s.map (fun _ => 0) := by
  induction s generalizing i with
  | nil => cases i <;> simp_all [InBounds]
  | cons a s ih =>
    cases i with
    | nil => simp [InBounds] at h
    | cons b i =>
      simp only [InBounds] at h
      have ha := h1 a (by simp)
      have hb : b = 0 := by omega
      rw [List.map_cons, hb, ih (fun e he => h1 e (by simp [he])) h.2]

/-- dropping the singleton coordinates loses no information about an in-bounds subscript. -/
theorem dropSingletons_inj {s r i : List Nat} (hr : InBounds s r) (hi : InBounds s i)
    (h : dropSingletons s r = dropSingletons s i) : r = i := by
  induction s generalizing r i with
  | nil => cases r <;> cases i <;> simp_all [InBounds]
  | cons a s ih =>
    cases r with
    | nil => simp [InBounds] at hr
    | cons b r =>
      cases i with
      | nil => simp [InBounds] at hi
      | cons c i =>
        simp only [InBounds] at hr hi
        rw [dropSingletons_cons, dropSingletons_cons] at h
        by_cases ha : a > 1
        · rw [if_pos ha, if_pos ha] at h
          simp only [List.cons.injEq] at h
          rw [h.1, ih hr.2 hi.2 h.2]
        · rw [if_neg ha, if_neg ha] at h
          have hb : b = 0 := by omega
          have hc : c = 0 := by omega
          rw [hb, hc, ih hr.2 hi.2 h]

/-- gathering by the positions of the non-singleton modes is `dropSingletons`. -/
theorem gather_nonsingleton_idx (s i : List Nat) (hl : i.length = s.length) :
    gather i ((List.range s.length).filter (fun k => s.getD k 0 > 1)) = dropSingletons s i := by
  induction s generalizing i with
  | nil => cases i with
    | nil => rfl
    | cons b i => simp at hl
  | cons a s ih =>
    cases i with
    | nil => simp at hl
    | cons b i =>
      simp only [List.length_cons, Nat.add_right_cancel_iff] at hl
      rw [dropSingletons_cons, List.length_cons, List.range_succ_eq_map, List.filter_cons,
        List.filter_map]
      have hcomp : ((fun k => decide ((a :: s).getD k 0 > 1)) ∘ Nat.succ) =
          (fun k => decide (s.getD k 0 > 1)) := by
        funext k; simp
      have hg : gather (b :: i) (List.map Nat.succ
          (List.filter (fun k => decide (s.getD k 0 > 1)) (List.range s.length))) =
          dropSingletons s i := by
        rw [← ih i hl]
        unfold gather
        rw [List.map_map]
        apply List.map_congr_left
        intro k _; simp
      rw [hcomp]
      by_cases ha : a > 1
      · have : decide ((a :: s).getD 0 0 > 1) = true := by simpa using ha
        rw [if_pos this, if_pos ha, gather_cons, hg]; simp
      · have : ¬ (decide ((a :: s).getD 0 0 > 1) = true) := by simpa using ha
        rw [if_neg this, if_neg ha, hg]

theorem dropSingletons_self (s : List Nat) : dropSingletons s s = s.filter (· > 1) := by
  induction s with
  | nil => rfl
  | cons a s ih =>
    rw [dropSingletons_cons, ih]
    by_cases ha : a > 1
    · rw [if_pos ha, List.filter_cons_of_pos (by simpa using ha)]
    · rw [if_neg ha, List.filter_cons_of_neg (by simpa using ha)]

/-! ### dense squeeze -/

theorem squeeze_at_dense [Zero α] (T : Dense α) (hT : T.WF) (hpos : ∀ e ∈ T.shape, 1 ≤ e) :
    match T.squeeze with
    | .scalar v => (∀ e ∈ T.shape, e = 1) ∧ v = T.get (T.shape.map (fun _ => 0))
    | .obj P => P.shape = T.shape.filter (· > 1) ∧ P.WF ∧ (T.shape ≠ [] → P.shape ≠ []) ∧
        ∀ i, InBounds T.shape i → P.get (dropSingletons T.shape i) = T.get i := by
  by_cases hall : T.shape.all (· > 1) = true
  · have hsq : T.squeeze = .obj T := by simp only [Dense.squeeze, hall, if_true]
    rw [hsq]
    refine ⟨(filter_gt_one_of_all hall).symm, hT, fun h => h, ?_⟩
    intro i hi
    rw [dropSingletons_of_all hall hi.length_eq]
  · by_cases hk : T.shape.filter (· > 1) = []
    · have hsq : T.squeeze = .scalar (T.data.getD 0 0) := by
        simp only [Dense.squeeze, hall, hk]; simp
      rw [hsq]
      refine ⟨all_one_of_filter_nil hpos hk, ?_⟩
      simp only [Dense.get, sub2ind_zeros]
    · have hsq : T.squeeze = .obj ⟨T.shape.filter (· > 1), T.data⟩ := by
        simp only [Dense.squeeze, hall]; simp [hk]
      rw [hsq]
      refine ⟨rfl, ?_, fun _ => hk, ?_⟩
      · simp only [Dense.WF, numel_filter_gt_one hpos]; exact hT
      · intro i hi
        simp only [Dense.get, sub2ind_dropSingletons hi]

/-! ### sparse denotation under a map of the stored subscripts -/

namespace Sparse

/-- If the subscript map `g` sends exactly the rows equal to `i` onto `j`, the mapped tensor
has at `j` the entry the original has at `i`. -/
theorem get_map_subs [Add α] [Zero α] (S : Sparse α) (sh : List Nat) (g : List Nat → List Nat)
    (j i : List Nat) (h : ∀ r ∈ S.subs, g r = j ↔ r = i) :
    (⟨sh, S.subs.map g, S.vals⟩ : Sparse α).get j = S.get i := by
  simp only [get, entries]
  congr 1
  have hz : (S.subs.map g).zip S.vals = (S.subs.zip S.vals).map (fun e => (g e.1, e.2)) := by
    rw [List.zip_map_left]; rfl
  rw [hz, List.filter_map, List.map_map]
  show List.map (fun e : List Nat × α => e.2) (List.filter ((fun e : List Nat × α => e.1 == j) ∘
    fun e : List Nat × α => (g e.1, e.2)) (S.subs.zip S.vals)) = _
  congr 1
  apply List.filter_congr
  intro e he
  have hmem : e.1 ∈ S.subs := (List.of_mem_zip he).1
  have := h e.1 hmem
  simp only [Function.comp]
  by_cases hc : e.1 = i
  · have hg : g e.1 = j := this.2 hc
    rw [beq_iff_eq.2 hg, beq_iff_eq.2 hc]
  · have hg : ¬ g e.1 = j := fun hg => hc (this.1 hg)
    rw [beq_eq_false_iff_ne.2 hg, beq_eq_false_iff_ne.2 hc]

end Sparse

/-! ### sparse permute -/

theorem permute_at_sparse [Add α] [Zero α] (S : Sparse α) (p : List Nat)
    (hp : isPermOf p S.shape.length = true) (hS : ∀ r ∈ S.subs, r.length = S.shape.length)
    (j : List Nat) (hj : j.length = S.shape.length) :
    ∃ P, S.permute p = .ok P ∧ P.shape = gather S.shape p ∧ P.vals = S.vals ∧
      P.subs = S.subs.map (fun r => gather r p) ∧
      P.get j = S.get (gather j (invPerm p)) := by
  refine ⟨⟨gather S.shape p, S.subs.map (fun r => gather r p), S.vals⟩, by simp [Sparse.permute, hp],
    rfl, rfl, rfl, ?_⟩
  apply Sparse.get_map_subs
  intro r hr
  exact gather_eq_iff hp (hS r hr) hj

theorem permute_wf_sparse [Zero α] [BEq α] (S : Sparse α) (p : List Nat) (hS : S.WF)
    (hp : isPermOf p S.shape.length = true) :
    ∃ P, S.permute p = .ok P ∧ P.WF := by
  refine ⟨⟨gather S.shape p, S.subs.map (fun r => gather r p), S.vals⟩, by simp [Sparse.permute, hp],
    ?_⟩
  refine ⟨by simpa using hS.len, ?_, ?_, hS.nz⟩
  · intro i hi
    simp only [List.mem_map] at hi
    obtain ⟨r, hr, rfl⟩ := hi
    exact (hS.inb r hr).gather (fun k hk => isPermOf_lt_of_mem hp hk)
  · show (S.subs.map (fun r => gather r p)).Nodup
    rw [List.Nodup, List.pairwise_map]
    refine List.Pairwise.imp_of_mem ?_ hS.nodup
    intro a b ha hb hab hg
    exact hab (gather_perm_inj hp (hS.inb a ha).length_eq (hS.inb b hb).length_eq hg)

theorem permute_rejects_others [Zero α] (S : Sparse α) (K : Ktensor α) (T : Ttensor α) (p : List Nat) :
    (isPermOf p S.shape.length = false → S.permute p = .error .reject) ∧
    (isPermOf p K.factors.length = false → K.permute p = .error .reject) ∧
    (isPermOf p T.factors.length = false → T.permute p = .error .reject) := by
  refine ⟨?_, ?_, ?_⟩
  · intro h; simp [Sparse.permute, h]
  · intro h; simp [Ktensor.permute, h]
  · intro h; simp [Ttensor.permute, h]

/-! ### sparse reshape -/

theorem sub2ind_inj {s a b : List Nat} (ha : InBounds s a) (hb : InBounds s b)
    (h : sub2ind s a = sub2ind s b) : a = b := by
  rw [← ind2sub_sub2ind ha, h, ind2sub_sub2ind hb]

theorem ind2sub_inj {s : List Nat} {x y : Nat} (hx : x < numel s) (hy : y < numel s)
    (h : ind2sub s x = ind2sub s y) : x = y := by
  rw [← sub2ind_ind2sub hx, h, sub2ind_ind2sub hy]

theorem reshape_at_sparse [Add α] [Zero α] [BEq α] (S : Sparse α) (s' : List Nat) (hS : S.WF)
    (hn : numel s' = numel S.shape) (j : List Nat) (hj : InBounds s' j) :
    ∃ P, S.reshape s' none = .ok P ∧ P.shape = s' ∧ P.vals = S.vals ∧
      P.get j = S.get (ind2sub S.shape (sub2ind s' j)) := by
  let g : List Nat → List Nat := fun r =>
    gather r [] ++ ind2sub s' (sub2ind (gather S.shape (List.range S.shape.length))
      (gather r (List.range S.shape.length)))
  refine ⟨⟨s', S.subs.map g, S.vals⟩, ?_, rfl, rfl, ?_⟩
  · have h1 : (List.range S.shape.length).any (fun x => decide (x ≥ S.shape.length)) = false := by
      rw [List.any_eq_false]; intro x hx; simpa using List.mem_range.1 hx
    have h2 := eraseDups_length_bne_false (List.range S.shape.length) List.nodup_range
    simp only [Sparse.reshape, Option.getD_none, gather_range, hn, bne_self_eq_false,
      Bool.false_eq_true, if_false, h1, h2, gather_nil, List.nil_append, g]
  · apply Sparse.get_map_subs
    intro r hr
    have hrb := hS.inb r hr
    have hlt : sub2ind S.shape r < numel s' := by rw [hn]; exact sub2ind_lt hrb
    have hlt' : sub2ind s' j < numel S.shape := by rw [← hn]; exact sub2ind_lt hj
    simp only [g, gather_nil, List.nil_append, gather_range,
      gather_range_of_length hrb.length_eq]
    constructor
    · intro h
      rw [← h, sub2ind_ind2sub hlt, ind2sub_sub2ind hrb]
    · intro h
      rw [h, sub2ind_ind2sub hlt', ind2sub_sub2ind hj]

theorem mem_complDims {n : Nat} {om : List Nat} {k : Nat} :
    k ∈ complDims n om ↔ k < n ∧ k ∉ om := by
  simp [complDims]

theorem getD_eq_of_gather_eq {r i idx : List Nat} (h : gather r idx = gather i idx) {k : Nat}
    (hk : k ∈ idx) : r.getD k 0 = i.getD k 0 := by
  unfold gather at h
  exact List.map_inj_left.1 h k hk

theorem sp_reshape_partial [Add α] [Zero α] [BEq α] (S : Sparse α) (s' om : List Nat) (hS : S.WF)
    (hom : om.Nodup ∧ ∀ m ∈ om, m < S.shape.length)
    (hn : numel s' = numel (gather S.shape om)) (i : List Nat) (hi : InBounds S.shape i) :
    ∃ P, S.reshape s' (some om) = .ok P ∧
      P.shape = gather S.shape (complDims S.shape.length om) ++ s' ∧ P.vals = S.vals ∧
      P.get (gather i (complDims S.shape.length om) ++
             ind2sub s' (sub2ind (gather S.shape om) (gather i om))) = S.get i := by
  let keep := complDims S.shape.length om
  let g : List Nat → List Nat := fun r =>
    gather r keep ++ ind2sub s' (sub2ind (gather S.shape om) (gather r om))
  refine ⟨⟨gather S.shape keep ++ s', S.subs.map g, S.vals⟩, ?_, rfl, rfl, ?_⟩
  · have h1 : om.any (fun x => decide (x ≥ S.shape.length)) = false := by
      rw [List.any_eq_false]; intro x hx; simpa using hom.2 x hx
    have h2 := eraseDups_length_bne_false om hom.1
    simp only [Sparse.reshape, Option.getD_some, hn, bne_self_eq_false, Bool.false_eq_true,
      if_false, h1, h2, g, keep]
  · apply Sparse.get_map_subs
    intro r hr
    have hrb := hS.inb r hr
    have hro := hrb.gather hom.2
    have hio := hi.gather hom.2
    constructor
    · intro h
      have hlen : (gather r keep).length = (gather i keep).length := by simp
      obtain ⟨hk, ho⟩ := List.append_inj h hlen
      have ho2 := ind2sub_inj (by rw [hn]; exact sub2ind_lt hro) (by rw [hn]; exact sub2ind_lt hio) ho
      have ho3 := sub2ind_inj hro hio ho2
      apply ext_getD (by rw [hrb.length_eq, hi.length_eq])
      intro k hk'
      rw [hrb.length_eq] at hk'
      by_cases hmem : k ∈ om
      · exact getD_eq_of_gather_eq ho3 hmem
      · exact getD_eq_of_gather_eq hk (mem_complDims.2 ⟨hk', hmem⟩)
    · intro h; rw [h]

/-! ### sparse squeeze -/

theorem squeeze_at_sparse [AddMonoid α] [BEq α] (S : Sparse α) (hS : S.WF)
    (hpos : ∀ e ∈ S.shape, 1 ≤ e) :
    match S.squeeze with
    | .ok (.scalar v) => (∀ e ∈ S.shape, e = 1) ∧ v = S.get (S.shape.map (fun _ => 0))
    | .ok (.obj P) => P.shape = S.shape.filter (· > 1) ∧ P.vals = S.vals ∧
        ∀ i, InBounds S.shape i → P.get (dropSingletons S.shape i) = S.get i
    | .error _ => False := by
  by_cases hall : S.shape.all (· > 1) = true
  · have hsq : S.squeeze = .ok (.obj S) := by simp only [Sparse.squeeze, Sparse.squeezeG, hall, if_true]
    rw [hsq]
    refine ⟨(filter_gt_one_of_all hall).symm, rfl, ?_⟩
    intro i hi
    rw [dropSingletons_of_all hall hi.length_eq]
  · have hidx : gather S.shape ((List.range S.shape.length).filter (fun k => S.shape.getD k 0 > 1)) =
        S.shape.filter (· > 1) := by
      rw [gather_nonsingleton_idx S.shape S.shape rfl, dropSingletons_self]
    by_cases hk : ((List.range S.shape.length).filter (fun k => S.shape.getD k 0 > 1)) = []
    · -- every mode is a singleton: at most one entry can be stored
      have hf : S.shape.filter (· > 1) = [] := by rw [← hidx, hk]; rfl
      have h1 := all_one_of_filter_nil hpos hf
      have hz : ∀ r ∈ S.subs, r = S.shape.map (fun _ => 0) :=
        fun r hr => eq_zeros_of_all_one h1 (hS.inb r hr)
      rcases hsv : S.vals with _ | ⟨v, _ | ⟨w, vs⟩⟩
      · have hsq : S.squeeze = .ok (.scalar 0) := by
          simp only [Sparse.squeeze, Sparse.squeezeG, hall, hk, hsv]; simp
        rw [hsq]
        refine ⟨h1, ?_⟩
        simp [Sparse.get, Sparse.entries, hsv]
      · have hsq : S.squeeze = .ok (.scalar v) := by
          simp only [Sparse.squeeze, Sparse.squeezeG, hall, hk, hsv]; simp
        rw [hsq]
        refine ⟨h1, ?_⟩
        have hlen := hS.len
        rw [hsv] at hlen
        obtain ⟨r, hr⟩ : ∃ r, S.subs = [r] := by
          rcases hss : S.subs with _ | ⟨r, _ | ⟨r2, rs⟩⟩ <;> simp [hss] at hlen
          exact ⟨r, rfl⟩
        have hr0 := hz r (by simp [hr])
        simp [Sparse.get, Sparse.entries, hsv, hr, hr0]
      · exfalso
        have hlen := hS.len
        rw [hsv] at hlen
        rcases hss : S.subs with _ | ⟨r, _ | ⟨r2, rs⟩⟩
        · simp [hss] at hlen
        · simp [hss] at hlen
        · have ha := hz r (by simp [hss])
          have hb := hz r2 (by simp [hss])
          have hnd := hS.nodup
          rw [hss, ha, hb] at hnd
          simp at hnd
    · have hsq : S.squeeze = .ok (.obj ⟨gather S.shape ((List.range S.shape.length).filter
          (fun k => S.shape.getD k 0 > 1)), S.subs.map (fun r => gather r ((List.range
          S.shape.length).filter (fun k => S.shape.getD k 0 > 1))), S.vals⟩) := by
        have hk' : ((List.range S.shape.length).filter (fun k => S.shape.getD k 0 > 1)).isEmpty
            = false := by simpa using hk
        simp only [Sparse.squeeze, Sparse.squeezeG, hall, hk', Bool.false_eq_true, if_false]
      rw [hsq]
      refine ⟨hidx, rfl, ?_⟩
      intro i hi
      apply Sparse.get_map_subs
      intro r hr
      have hrb := hS.inb r hr
      rw [gather_nonsingleton_idx S.shape r hrb.length_eq]
      constructor
      · intro h; exact dropSingletons_inj hrb hi h
      · intro h; rw [h]

/-! ### Kruskal permute -/

theorem prod_perm [CommSemiring α] {l₁ l₂ : List α} (h : l₁.Perm l₂) : l₁.prod = l₂.prod := by
  induction h with
  | nil => rfl
  | cons a _ ih => simp [List.prod_cons, ih]
  | swap a b l => simp only [List.prod_cons]; rw [← mul_assoc, ← mul_assoc, mul_comm b a]
  | trans _ _ ih1 ih2 => rw [ih1, ih2]

/-- `zipWith` over two lists of length `n`, position by position. -/
theorem zipWith_eq_map_range_getD {β γ δ : Type} (f : β → γ → δ) (A : List β) (B : List γ) (n : Nat)
    (dA : β) (dB : γ) (hA : A.length = n) (hB : B.length = n) :
    List.zipWith f A B = (List.range n).map (fun k => f (A.getD k dA) (B.getD k dB)) := by
  apply List.ext_getElem
  · simp [hA, hB]
  · intro k h1 h2
    simp only [List.length_zipWith, hA, hB, Nat.min_self] at h1
    simp [List.getD_eq_getElem?_getD, hA, hB, h1]

theorem map_getD_range_eq (p : List Nat) : (List.range p.length).map (fun k => p.getD k 0) = p :=
  gather_range p

theorem permute_at_ktensor [CommSemiring α] (K : Ktensor α) (p : List Nat)
    (hp : isPermOf p K.factors.length = true) (j : List Nat) (hj : j.length = K.factors.length) :
    ∃ P, K.permute p = .ok P ∧ P.shape = gather K.shape p ∧ P.weights = K.weights ∧
      P.get j = K.get (gather j (invPerm p)) := by
  have hl := isPermOf_length_eq hp
  refine ⟨⟨K.weights, gatherD K.factors p []⟩, by simp [Ktensor.permute, hp], ?_, rfl, ?_⟩
  · simp only [Ktensor.shape, gatherD, gather, List.map_map]
    apply List.map_congr_left
    intro k _
    simp only [Function.comp, List.getD_eq_getElem?_getD, List.getElem?_map]
    cases K.factors[k]? <;> rfl
  · simp only [Ktensor.get, Ktensor.ncomp]
    congr 1
    apply List.map_congr_left
    intro r _
    congr 1
    simp only [Ktensor.comp]
    -- the two products range over the same factors, in a different order
    let G : Nat → α := fun m => Mat.get (K.factors.getD m []) (j.getD ((invPerm p).getD m 0) 0) r
    have h1 : List.zipWith (fun A ik => Mat.get A ik r) (gatherD K.factors p []) j = p.map G := by
      rw [zipWith_eq_map_range_getD _ _ _ K.factors.length [] 0 (by simp [gatherD, hl]) hj]
      conv => rhs; rw [← map_getD_range_eq p, List.map_map, hl]
      apply List.map_congr_left
      intro k hk
      have hk' := List.mem_range.1 hk
      simp only [Function.comp, G, invPerm_getD_getD hp hk']
      congr 1
      simp [gatherD, List.getD_eq_getElem?_getD, hl, hk']
    have h2 : List.zipWith (fun A ik => Mat.get A ik r) K.factors (gather j (invPerm p)) =
        (List.range K.factors.length).map G := by
      rw [zipWith_eq_map_range_getD _ _ _ K.factors.length [] 0 rfl (by simp [hl])]
      apply List.map_congr_left
      intro m hm
      have hm' := List.mem_range.1 hm
      simp only [G]
      rw [getD_gather _ _ _ (by simpa [hl] using hm')]
    rw [h1, h2]
    exact prod_perm ((isPermOf_perm hp).symm.map G)

end Pyttb
