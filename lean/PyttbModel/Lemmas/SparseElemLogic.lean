/-
C03: refinement lemmas for `logical_and / or / xor`, `==`, `!=` of Ops/SparseElem.
-/
import PyttbModel.Lemmas.SparseElemArith
import Mathlib.Data.List.Count
namespace Pyttb
open SpElem
variable {α : Type}

/-- the numbers the logical operations and comparisons return. -/
theorem b2n_true [Zero α] [One α] : (b2n true : α) = 1 := rfl
theorem b2n_false [Zero α] [One α] : (b2n false : α) = 0 := rfl

section base
variable [AddMonoid α] [One α] [DecidableEq α]

/-- a 0/1 tensor whose stored subscripts are exactly the in-bounds cells satisfying `P`. -/
theorem ofSubs_char (s : List Nat) (U : List (List Nat)) (hU : U.Nodup) (h1 : (1 : α) ≠ 0)
    (P : List Nat → Prop) [DecidablePred P] (hmem : ∀ i, i ∈ U ↔ InBounds s i ∧ P i) :
    (ofSubs s U : Sparse α).WF ∧ (ofSubs s U : Sparse α).shape = s ∧
    ∀ i, InBounds s i → (ofSubs s U : Sparse α).get i = if P i then 1 else 0 := by
  obtain ⟨w, sh, g⟩ := ofSubs_spec (α := α) s U hU (fun u hu => ((hmem u).1 hu).1) h1
  refine ⟨w, sh, fun i hi => ?_⟩
  rw [g i]
  simp only [hmem i, hi, true_and]

theorem groupVals_length (subs : List (List Nat)) (vals : List α) (hl : vals.length = subs.length)
    (i : List Nat) : (groupVals subs vals i).length = subs.count i := by
  unfold groupVals
  rw [List.length_map, ← List.countP_eq_length_filter]
  have h : subs = (subs.zip vals).map (·.1) := (List.map_fst_zip (by omega)).symm
  conv => rhs; rw [h]
  rw [List.count, List.countP_map]
  rfl

theorem count_nodup {l : List (List Nat)} (h : l.Nodup) (i : List Nat) :
    l.count i = if i ∈ l then 1 else 0 := by
  split
  · next hm => exact List.count_eq_one_of_mem h hm
  · next hm => exact List.count_eq_zero.2 hm

/-- the aggregator on the concatenated subscripts of two well-formed tensors with a reducer
that looks only at how many values fall on a subscript. -/
theorem fromAgg_count (A B : Sparse α) (hA : A.WF) (hB : B.WF) (hs : A.shape = B.shape)
    (hN : A.shape ≠ []) (hpos : ∀ e ∈ A.shape, 0 < e) (t : Nat → Bool) (h1 : (1 : α) ≠ 0) (ht0 : t 0 = false) :
    ∃ R, fromAgg (fun x => (b2n (t x.length) : α)) (A.subs ++ B.subs) (onesCol (A.nnz + B.nnz)) A.shape = .ok R ∧
      R.WF ∧ R.shape = A.shape ∧
      ∀ i, R.get i = b2n (t ((if A.get i = 0 then 0 else 1) + (if B.get i = 0 then 0 else 1))) := by
  have hcount : ∀ i, (A.subs ++ B.subs).count i =
      (if A.get i = 0 then 0 else 1) + (if B.get i = 0 then 0 else 1) := by
    intro i
    rw [List.count_append, count_nodup hA.nodup, count_nodup hB.nodup]
    congr 1
    · by_cases h : i ∈ A.subs
      · simp [h, A.get_ne_zero_of_mem hA i h]
      · simp [h, A.get_of_not_mem i h]
    · by_cases h : i ∈ B.subs
      · simp [h, B.get_ne_zero_of_mem hB i h]
      · simp [h, B.get_of_not_mem i h]
  by_cases hne : A.subs ++ B.subs = []
  · have hA0 : A.subs = [] := (List.append_eq_nil_iff.1 hne).1
    have hB0 : B.subs = [] := (List.append_eq_nil_iff.1 hne).2
    have e : fromAgg (fun x => (b2n (t x.length) : α)) (A.subs ++ B.subs) (onesCol (A.nnz + B.nnz)) A.shape
        = .ok ⟨A.shape, [], []⟩ := by
      unfold fromAgg
      rw [hne]
      exact fromAggregator_empty _ _ _ hpos
    refine ⟨_, e, ⟨rfl, by simp, by simp, by simp⟩, rfl, fun i => ?_⟩
    have ha : A.get i = 0 := A.get_of_not_mem i (by rw [hA0]; simp)
    have hb : B.get i = 0 := B.get_of_not_mem i (by rw [hB0]; simp)
    rw [Sparse.get_of_not_mem _ i (by simp), ha, hb]
    simp [ht0, b2n_false]
  · have hin : ∀ i ∈ A.subs ++ B.subs, InBounds A.shape i := by
      intro i hi
      rcases List.mem_append.1 hi with h | h
      · exact hA.inb i h
      · rw [hs]; exact hB.inb i h
    have hl : (onesCol (A.nnz + B.nnz) : List α).length = (A.subs ++ B.subs).length := by
      simp [onesCol, Sparse.nnz]
    obtain ⟨S, e, sh, w, _, g⟩ := fromAggregator_spec (A.subs ++ B.subs) (onesCol (A.nnz + B.nnz) : List α)
      A.shape (fun x => (b2n (t x.length) : α)) hne hN hin hl
    refine ⟨S, e, w, sh, fun i => ?_⟩
    rw [g i, groupVals_length _ _ hl, hcount]
    split
    · rfl
    · next hm =>
      have : (A.subs ++ B.subs).count i = 0 := List.count_eq_zero.2 hm
      rw [hcount] at this
      rw [this, ht0, b2n_false]

end base

/-! ### logical operations -/

section logic
variable [AddMonoid α] [One α] [DecidableEq α]

theorem and_sparse_spec (A B : Sparse α) (hA : A.WF) (hB : B.WF) (hs : A.shape = B.shape)
    (hN : A.shape ≠ []) (hpos : ∀ e ∈ A.shape, 0 < e) (h1 : (1 : α) ≠ 0) :
    ∃ R, andSp A B = .ok R ∧ R.WF ∧ R.shape = A.shape ∧
      ∀ i, R.get i = if A.get i ≠ 0 ∧ B.get i ≠ 0 then 1 else 0 := by
  obtain ⟨R, e, w, sh, g⟩ := fromAgg_count A B hA hB hs hN hpos (fun n => n == 2) h1 rfl
  refine ⟨R, ?_, w, sh, fun i => ?_⟩
  · unfold andSp
    simp only [hs, bne_self_eq_false, Bool.false_eq_true, ↓reduceIte]
    rw [← hs]; exact e
  · rw [g i]
    by_cases ha : A.get i = 0 <;> by_cases hb : B.get i = 0 <;> simp [ha, hb, b2n]

theorem or_sparse_spec (A B : Sparse α) (hA : A.WF) (hB : B.WF) (hs : A.shape = B.shape)
    (hN : A.shape ≠ []) (hpos : ∀ e ∈ A.shape, 0 < e) (h1 : (1 : α) ≠ 0) :
    ∃ R, logicalOr A (.sparse B) = .ok (.sp R) ∧ R.WF ∧ R.shape = A.shape ∧
      ∀ i, R.get i = if A.get i ≠ 0 ∨ B.get i ≠ 0 then 1 else 0 := by
  obtain ⟨R, e, w, sh, g⟩ := fromAgg_count A B hA hB hs hN hpos (fun n => decide (n ≥ 1)) h1 rfl
  refine ⟨R, ?_, w, sh, fun i => ?_⟩
  · unfold logicalOr
    simp only [hs, bne_self_eq_false, Bool.false_eq_true, ↓reduceIte]
    rw [← hs, e]; rfl
  · rw [g i]
    by_cases ha : A.get i = 0 <;> by_cases hb : B.get i = 0 <;> simp [ha, hb, b2n]

theorem xor_sparse_spec (A B : Sparse α) (hA : A.WF) (hB : B.WF) (hs : A.shape = B.shape)
    (hN : A.shape ≠ []) (hpos : ∀ e ∈ A.shape, 0 < e) (h1 : (1 : α) ≠ 0) :
    ∃ R, logicalXor A (.sparse B) = .ok (.sp R) ∧ R.WF ∧ R.shape = A.shape ∧
      ∀ i, R.get i = if (A.get i ≠ 0) ≠ (B.get i ≠ 0) then 1 else 0 := by
  obtain ⟨R, e, w, sh, g⟩ := fromAgg_count A B hA hB hs hN hpos (fun n => n == 1) h1 rfl
  refine ⟨R, ?_, w, sh, fun i => ?_⟩
  · unfold logicalXor
    simp only [hs, bne_self_eq_false, Bool.false_eq_true, ↓reduceIte]
    rw [← hs, e]; rfl
  · rw [g i]
    by_cases ha : A.get i = 0 <;> by_cases hb : B.get i = 0 <;> simp [ha, hb, b2n]

theorem and_scalar_spec (A : Sparse α) (hA : A.WF) (c : α) (h1 : (1 : α) ≠ 0) :
    ∃ R, logicalAnd A (.scalar c) = .ok R ∧ R.WF ∧ R.shape = A.shape ∧
      ∀ i, R.get i = if A.get i ≠ 0 ∧ c ≠ 0 then 1 else 0 := by
  unfold logicalAnd
  by_cases hc : c = 0
  · obtain ⟨w, sh, g⟩ := empty_spec (α := α) A.shape
    refine ⟨_, by simp [hc], w, sh, fun i => ?_⟩
    rw [g i]; simp [hc]
  · obtain ⟨w, sh, g⟩ := ones_spec A hA h1
    refine ⟨ones A, by simp [hc, ones], w, sh, fun i => ?_⟩
    rw [g i]
    by_cases ha : A.get i = 0 <;> simp [ha, hc]

theorem and_dense_spec (A : Sparse α) (hA : A.WF) (D : Dense α) (hD : D.WF) (hs : A.shape = D.shape)
    (hN : A.shape ≠ []) (hpos : ∀ e ∈ A.shape, 0 < e) (h1 : (1 : α) ≠ 0) :
    ∃ R, logicalAnd A (.dense D) = .ok R ∧ R.WF ∧ R.shape = A.shape ∧
      ∀ i, InBounds A.shape i → R.get i = if A.get i ≠ 0 ∧ D.get i ≠ 0 then 1 else 0 := by
  obtain ⟨tw, tsh⟩ := toSparse_wf D hD
  obtain ⟨R, e, w, sh, g⟩ := and_sparse_spec A D.toSparse hA tw (hs.trans tsh.symm) hN hpos h1
  refine ⟨R, e, w, sh, fun i hi => ?_⟩
  rw [g i, toSparse_get D hD i (hs ▸ hi)]

/-- `logical_or` / `logical_xor` with a scalar or a dense operand go through the dense tensor. -/
theorem denseLogic_scalar_spec (g : Bool → Bool → Bool) (A : Sparse α) (hA : A.WF) (c : α) :
    ∃ R, denseLogic g A.full (.scalar c) = .ok (.dn R) ∧ R.WF ∧ R.shape = A.shape ∧
      ∀ i, InBounds A.shape i → R.get i = b2n (g (!(A.get i == 0)) (!(c == 0))) := by
  refine ⟨_, rfl, mapData_wf _ _ (full_wf A), rfl, fun i hi => ?_⟩
  obtain ⟨gg, sh, w⟩ := sp_full_at A hA i hi
  rw [mapData_get _ _ w (by rw [sh]; exact hi), gg]

theorem denseLogic_dense_spec (g : Bool → Bool → Bool) (A : Sparse α) (hA : A.WF) (D : Dense α) (hD : D.WF)
    (hs : A.shape = D.shape) :
    ∃ R, denseLogic g A.full (.dense D) = .ok (.dn R) ∧ R.WF ∧ R.shape = A.shape ∧
      ∀ i, InBounds A.shape i → R.get i = b2n (g (!(A.get i == 0)) (!(D.get i == 0))) := by
  obtain ⟨Z, h1, h2, h3, h4⟩ := zipData_spec (fun x y => (b2n (g (!(x == 0)) (!(y == 0))) : α)) A.full D
    (full_wf A) hD hs
  refine ⟨Z, by simp only [denseLogic, h1]; rfl, h3, h2, fun i hi => ?_⟩
  rw [h4 i hi, (sp_full_at A hA i hi).1]

end logic

end Pyttb
