/-
C02 — `mttkrp` with a Kruskal operand for every representation and for sum tensors: every kernel
consumes the operand through `get_mttkrp_factors`, so it equals the factor-list call with the weights
absorbed, whose specification is the one with the weights as the extra factor `λ_r`.
-/
import PyttbModel.Lemmas.MLSum
namespace Pyttb
namespace MLK
open ML

variable {α : Type}

/-- What `get_mttkrp_factors` hands on for a Kruskal operand with `N ≥ 2` factors. -/
theorem foldlM_congr_mem {β γ : Type} (l : List β) (f g : γ → β → Except Reject γ)
    (h : ∀ q ∈ l, ∀ a, f a q = g a q) (a : γ) : l.foldlM f a = l.foldlM g a := by
  induction l generalizing a with
  | nil => rfl
  | cons q qs ih =>
    rw [List.foldlM_cons, List.foldlM_cons, h q (List.mem_cons_self ..) a]
    cases g a q with
    | error e => rfl
    | ok v => exact ih (fun x hx => h x (List.mem_cons_of_mem _ hx)) v

theorem getMttkrpFactors_kruskal_absorb [Mul α] (K : Ktensor α) (n N : Nat) (hlen : K.factors.length = N) (hN2 : 2 ≤ N) :
    getMttkrpFactors (.kruskal K) n N = .ok (absorbWeights K.weights K.factors n) ∧
    getMttkrpFactors (.list (absorbWeights K.weights K.factors n)) n N =
      .ok (absorbWeights K.weights K.factors n) := by
  have hl : (absorbWeights K.weights K.factors n).length = N := by simp [absorbWeights, hlen]
  have h2 : ((absorbWeights K.weights K.factors n).length != N) = false := by rw [hl]; exact bne_self_eq_false _
  have h1 : ¬ ((if n == 0 then 1 else 0) ≥ K.factors.length) := by rw [hlen]; split <;> omega
  constructor
  · unfold getMttkrpFactors
    simp only [h1, if_false, h2, Bool.false_eq_true]
  · unfold getMttkrpFactors
    simp only [h2, Bool.false_eq_true, if_false]

/-- Every representation's `mttkrp` with a Kruskal operand is its `mttkrp` with the absorbed list. -/
theorem part_mttkrp_kruskal_eq_list [Add α] [Mul α] [Zero α] [BEq α] (p : ML.Part α) (K : Ktensor α) (n : Nat)
    (hlen : K.factors.length = p.shape.length) (hN2 : 2 ≤ p.shape.length) :
    p.mttkrp (.kruskal K) n = p.mttkrp (.list (absorbWeights K.weights K.factors n)) n := by
  cases p with
  | dense t =>
    obtain ⟨h1, h2⟩ := getMttkrpFactors_kruskal_absorb K n t.shape.length hlen hN2
    show t.mttkrp _ n = t.mttkrp _ n
    unfold Dense.mttkrp
    rw [h1, h2]
  | sparse s =>
    obtain ⟨h1, h2⟩ := getMttkrpFactors_kruskal_absorb K n s.shape.length hlen hN2
    show s.mttkrp _ n = s.mttkrp _ n
    unfold Sparse.mttkrp
    simp only [h1, h2]
  | kruskal k =>
    have hl : k.factors.length = (ML.Part.kruskal k).shape.length := by simp [ML.Part.shape, Ktensor.shape]
    obtain ⟨h1, h2⟩ := getMttkrpFactors_kruskal_absorb K n k.factors.length (hlen.trans hl.symm) (hl ▸ hN2)
    show k.mttkrp _ n = k.mttkrp _ n
    unfold Ktensor.mttkrp
    simp only [h1, h2]
  | tucker t =>
    have hl : t.factors.length = (ML.Part.tucker t).shape.length := by simp [ML.Part.shape, Ttensor.shape]
    obtain ⟨h1, h2⟩ := getMttkrpFactors_kruskal_absorb K n t.factors.length (hlen.trans hl.symm) (hl ▸ hN2)
    show t.mttkrp _ n = t.mttkrp _ n
    unfold Ttensor.mttkrp
    simp only [h1, h2]

/-- The specification for the absorbed factor list is the specification with the weights. -/
theorem spec_mttkrp_absorbWeights [CommSemiring α] (X : Den α) (K : Ktensor α) (n i r : Nat)
    (hlen : K.factors.length = X.shape.length) (hN2 : 2 ≤ X.shape.length) :
    Spec.mttkrp X (fun m x c => ((absorbWeights K.weights K.factors n).getD m []).get x c) (fun _ => 1) n i r =
      Spec.mttkrp X (fun m x c => (K.factors.getD m []).get x c) (fun r => K.weights.getD r 0) n i r := by
  set mm := (if n == 0 then 1 else 0) with hmm
  have hmmN : mm < X.shape.length := by rw [hmm]; split <;> omega
  have hmmn : mm ≠ n := by
    rw [hmm]
    by_cases h0 : n = 0
    · subst h0; simp
    · have : (n == 0) = false := by simpa using h0
      rw [this]; simp only [Bool.false_eq_true, if_false]; exact fun h => h0 h.symm
  rw [← spec_mttkrp_absorb X (fun m x c => (K.factors.getD m []).get x c) (fun r => K.weights.getD r 0)
    n mm i r hmmN hmmn]
  unfold Spec.mttkrp Spec.sumOver
  congr 1
  apply sum_congr
  intro k _
  congr 2
  apply List.map_congr_left
  intro m hm
  have hm' : m < K.factors.length := by rw [hlen]; exact List.mem_range.1 (List.mem_filter.1 hm).1
  simp only
  rw [absorbWeights_getD K.weights K.factors n m hm']
  by_cases h : m = mm
  · rw [if_pos h, if_pos h, get_scaled_rows]
  · rw [if_neg h, if_neg h]

/-- **`sumtensor.mttkrp(K, n)` with a Kruskal operand**, parts of any representations. -/
theorem sum_mttkrp_kruskal [CommSemiring α] [DecidableEq α] (p0 : ML.Part α) (ps : List (ML.Part α))
    (hwf : ∀ p ∈ p0 :: ps, PartWF p) (hpp : ∀ p ∈ p0 :: ps, PartPos p) (hsh : ∀ p ∈ ps, p.shape = p0.shape)
    (K : Ktensor α) (n R : Nat)
    (hN2 : 2 ≤ p0.shape.length) (hn : n < p0.shape.length) (hlen : K.factors.length = p0.shape.length)
    (hw : K.weights.length = R)
    (hrows : ∀ m, m < p0.shape.length → m ≠ n → (K.factors.getD m []).length = p0.shape.getD m 0)
    (hcols : ∀ m, m < p0.shape.length → m ≠ n → ∀ row ∈ K.factors.getD m [], row.length = R)
    (hpos : ∀ e ∈ p0.shape, 0 < e) :
    ∃ W, ML.Sumtensor.mttkrp (p0 :: ps) (.kruskal K) n = .ok W ∧ MatShape W (p0.shape.getD n 0) R ∧
      ∀ i r, i < p0.shape.getD n 0 → r < R →
        W.get i r = Spec.mttkrp (sumDen p0.shape (p0 :: ps)) (fun m x c => (K.factors.getD m []).get x c)
          (fun r => K.weights.getD r 0) n i r := by
  set U' := absorbWeights K.weights K.factors n with hU'
  have hU'len : U'.length = p0.shape.length := by simp [hU', absorbWeights, hlen]
  set mm := (if n == 0 then 1 else 0) with hmm
  have hget : ∀ m, m < p0.shape.length → U'.getD m [] =
      if m = mm then (K.factors.getD m []).map (fun row => List.zipWith (· * ·) row K.weights)
      else K.factors.getD m [] := fun m hm => absorbWeights_getD K.weights K.factors n m (by rw [hlen]; exact hm)
  obtain ⟨W, e, ms, g⟩ := sum_mttkrp_full p0 ps hwf hpp hsh U' n R hN2 hn hU'len
    (by
      intro m hm hmn
      rw [hget m hm]
      by_cases h : m = mm
      · rw [if_pos h, List.length_map]; exact hrows m hm hmn
      · rw [if_neg h]; exact hrows m hm hmn)
    (by
      intro m hm hmn row hrow
      rw [hget m hm] at hrow
      by_cases h : m = mm
      · rw [if_pos h] at hrow
        obtain ⟨row', hr', rfl⟩ := List.mem_map.1 hrow
        rw [List.length_zipWith, hcols m hm hmn row' hr', hw, Nat.min_self]
      · rw [if_neg h] at hrow; exact hcols m hm hmn row hrow)
    hpos
  have hparts : ∀ q ∈ p0 :: ps, q.mttkrp (.kruskal K) n = q.mttkrp (.list U') n := by
    intro q hq
    have hqs : q.shape = p0.shape := by
      rcases List.mem_cons.1 hq with rfl | h
      · rfl
      · exact hsh q h
    exact part_mttkrp_kruskal_eq_list q K n (by rw [hqs]; exact hlen) (by rw [hqs]; exact hN2)
  have heq : ML.Sumtensor.mttkrp (p0 :: ps) (.kruskal K) n = ML.Sumtensor.mttkrp (p0 :: ps) (.list U') n := by
    unfold ML.Sumtensor.mttkrp
    dsimp only
    rw [hparts p0 (List.mem_cons_self ..)]
    cases p0.mttkrp (.list U') n with
    | error e => rfl
    | ok r0 =>
      simp only
      apply foldlM_congr_mem
      intro q hq a
      rw [hparts q (List.mem_cons_of_mem _ hq)]
  refine ⟨W, by rw [heq]; exact e, ms, ?_⟩
  intro i r hi hr
  rw [g i r hi hr]
  exact spec_mttkrp_absorbWeights (sumDen p0.shape (p0 :: ps)) K n i r hlen hN2

end MLK
end Pyttb
