/-
Lemmas for C11 (CP-APR), part 7: descent.  A step accepted by the projected line search
(sufficient-decrease test, or a last trial that is not worse) does not increase the row
objective; the only other outcome is the multiplicative fall-back.
-/
import PyttbModel.Lemmas.CpAprLoops
set_option linter.unusedSectionVars false
set_option linter.unusedVariables false
namespace Pyttb.CpApr
open Pyttb.CpApr.Gen

variable {α : Type} [Field α] [LinearOrder α] [IsStrictOrderedRing α]
variable (log : α → α)

/-- A recorded objective value is the objective of the recorded row. -/
def LSGood (sparse : Bool) (x : List α) (Pi : Mat α) (R : Nat) (acc : LS α) : Prop :=
  ∀ f, acc.fNew = some f → f = rowNegLL (NumOps.ofField log) sparse x Pi acc.mNew R

theorem lsLoop_descent (c : Consts α) (hc : 0 ≤ c.suffDecr) (sparse : Bool) (dir grad mOld x : List α)
    (Pi : Mat α) (R : Nat) (fOld : α) :
    ∀ (fuel count : Nat) (step : α) (acc : LS α), acc.count = count → LSGood log sparse x Pi R acc →
      LSGood log sparse x Pi R
        (lsLoop (NumOps.ofField log) c sparse dir grad mOld x Pi R fOld fuel count step acc) ∧
      ((lsLoop (NumOps.ofField log) c sparse dir grad mOld x Pi R fOld fuel count step acc).count = count + fuel ∨
       ∃ f, (lsLoop (NumOps.ofField log) c sparse dir grad mOld x Pi R fOld fuel count step acc).fNew = some f ∧
         f ≤ fOld) := by
  intro fuel
  induction fuel with
  | zero =>
    intro count step acc hcnt hg
    exact ⟨hg, Or.inl (by simp only [lsLoop]; omega)⟩
  | succ fuel ih =>
    intro count step acc hcnt hg
    simp only [lsLoop]
    split
    · refine ⟨(ih (count + 1) _ _ rfl ?_).1, (ih (count + 1) _ _ rfl ?_).2.imp (fun e => Eq.trans e (by omega)) id⟩ <;>
        (intro f hf; cases hf)
    · next hdesc =>
      split
      · next harm =>
        constructor
        · intro f hf
          simp only [Option.some.injEq] at hf
          subst hf
          rfl
        refine Or.inr ⟨_, rfl, ?_⟩
        -- not (0 < gDotd): the step is a descent direction; Armijo bound below f_old
        simp only [Bool.or_eq_true, not_or] at hdesc
        have h1 : ¬ _ := fun h => hdesc.1 (decide_eq_true h)
        have h2 := of_decide_eq_true harm
        unfold armijoBound at h2
        have h3 := mul_nonpos_of_nonneg_of_nonpos hc (not_lt.mp h1)
        linarith
      · refine ⟨(ih (count + 1) _ _ rfl ?_).1, (ih (count + 1) _ _ rfl ?_).2.imp (fun e => Eq.trans e (by omega)) id⟩ <;>
          (intro f hf; simp only [Option.some.injEq] at hf; subst hf; rfl)

/-- Either the fall-back (projected multiplicative step) is returned, or the new row is at
least as likely as the old one: `-loglik_row(new) ≤ -loglik_row(old)`. -/
theorem lineSearch_descent (c : Consts α) (hc : 0 ≤ c.suffDecr) (sparse : Bool)
    (dir grad mOld x : List α) (Pi : Mat α) (phi : List α) (R : Nat) :
    lineSearch (NumOps.ofField log) c sparse dir grad mOld x Pi phi R =
        ((List.range R).map fun k =>
          project (NumOps.ofField log).gt0 (lsFallback (vget mOld k) (vget phi k))) ∨
    rowNegLL (NumOps.ofField log) sparse x Pi
        (lineSearch (NumOps.ofField log) c sparse dir grad mOld x Pi phi R) R ≤
      rowNegLL (NumOps.ofField log) sparse x Pi mOld R := by
  have key := lsLoop_descent log c hc sparse dir grad mOld x Pi R
    (rowNegLL (NumOps.ofField log) sparse x Pi mOld R) c.maxSteps 1 c.stepLen
    ⟨(List.range R).map fun r => project (NumOps.ofField log).gt0 (vget mOld r), none, 1⟩ rfl
    (by intro f hf; cases hf)
  unfold lineSearch
  simp only
  generalize lsLoop (NumOps.ofField log) c sparse dir grad mOld x Pi R
    (rowNegLL (NumOps.ofField log) sparse x Pi mOld R) c.maxSteps 1 c.stepLen
    ⟨(List.range R).map fun r => project (NumOps.ofField log).gt0 (vget mOld r), none, 1⟩ = r at key ⊢
  by_cases hcond : ((decide (c.maxSteps ≤ r.count) &&
      lsWorse (NumOps.ofField log) (rowNegLL (NumOps.ofField log) sparse x Pi mOld R) r.fNew) ||
      (NumOps.ofField log).lt (sumOver R fun k => vget r.mNew k) c.smallStepTol) = true
  · left; rw [if_pos hcond]
  · right
    rw [if_neg hcond]
    simp only [Bool.or_eq_true, Bool.and_eq_true, decide_eq_true_eq, not_or, not_and] at hcond
    rcases key.2 with hcount | ⟨f, hf, hle⟩
    · have hw := hcond.1 (by omega)
      cases hfn : r.fNew with
      | none => rw [hfn] at hw; simp [lsWorse, NumOps.ofField] at hw
      | some f =>
        rw [hfn] at hw
        have : ¬ rowNegLL (NumOps.ofField log) sparse x Pi mOld R < f := by
          simpa [lsWorse, NumOps.ofField] using hw
        rw [← key.1 f hfn]
        exact not_lt.mp this
    · rw [← key.1 f hf]; exact hle

end Pyttb.CpApr
