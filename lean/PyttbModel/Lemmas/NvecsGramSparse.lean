/-
C14: the Gram matrix formed by `sptensor.nvecs` (through `to_sptenmat(rdims=[n]).double()`).
Uses the sparse matricization lemmas of C01 (Lemmas/ConvertSptenmat.lean).
-/
import PyttbModel.Lemmas.NvecsGram
import PyttbModel.Lemmas.ConvertSptenmat
namespace Pyttb

open Finset

variable {α : Type}

/-! ### sparse -/

theorem inBounds_insAt {s j : List Nat} {n a : Nat} (hn : n < s.length) (hj : InBounds (s.eraseIdx n) j)
    (ha : a < s.getD n 0) : InBounds s (insAt j n a) := by
  induction s generalizing n j with
  | nil => simp at hn
  | cons e s ih =>
    cases n with
    | zero =>
      rw [insAt_zero]
      simp only [List.eraseIdx_cons_zero] at hj
      exact ⟨by simpa using ha, hj⟩
    | succ n =>
      simp only [List.length_cons, Nat.add_lt_add_iff_right] at hn
      rw [List.eraseIdx_cons_succ] at hj
      cases j with
      | nil => simp [InBounds] at hj
      | cons x j =>
        rw [insAt_cons_succ]
        exact ⟨hj.1, ih hn hj.2 (by simpa using ha)⟩

/-- the Gram entry depends only on the denoted array. -/
theorem gramSpec_congr [Add α] [Mul α] [Zero α] (g1 g2 : List Nat → α) (shape : List Nat) (n a b : Nat)
    (h : ∀ i, InBounds shape i → g1 i = g2 i) (hn : n < shape.length) (ha : a < shape.getD n 0)
    (hb : b < shape.getD n 0) : gramSpec g1 shape n a b = gramSpec g2 shape n a b := by
  unfold gramSpec
  congr 1
  apply List.map_congr_left
  intro j hj
  have hjb := mem_allSubs.1 hj
  rw [h _ (inBounds_insAt hn hjb ha), h _ (inBounds_insAt hn hjb hb)]

theorem toSptenmat_rowmode [Add α] [Zero α] [BEq α] (S : Sparse α) (n : Nat) :
    S.toSptenmat (some [n]) none none = S.toSptenmat (some [n]) (some (complDims S.shape.length [n])) none := by
  simp [Sparse.toSptenmat, gatherWrapDims]

theorem gram_sparse [Semiring α] [DecidableEq α] (S : Sparse α) (hS : S.WF) (n : Nat) (hn : n < S.shape.length)
    (hns : S.shape.all (· == 1) = false) :
    ∃ Y, S.nvecsGram n = .ok Y ∧ Y.length = S.shape.getD n 0 ∧ (∀ row ∈ Y, row.length = S.shape.getD n 0) ∧
      ∀ a b, a < S.shape.getD n 0 → b < S.shape.getD n 0 → Y.get a b = gramSpec S.get S.shape n a b := by
  have hp := isPermOf_modeFirst S.shape.length n hn
  have hrest := gather_complDims S.shape n hn
  -- the matricization and its entries
  have hentry : ∀ i, InBounds S.shape i → ∃ M, S.toSptenmat (some [n]) none none = .ok M ∧
      M.tshape = S.shape ∧ M.rdims = [n] ∧ M.cdims = complDims S.shape.length [n] ∧
      M.get (sub2ind (gather S.shape [n]) (gather i [n]))
        (sub2ind (gather S.shape (complDims S.shape.length [n])) (gather i (complDims S.shape.length [n]))) = S.get i := by
    intro i hi
    obtain ⟨M, h1, h2, h3, h4, _, h6⟩ := sptenmat_entry S [n] (complDims S.shape.length [n]) hS hp i hi
    exact ⟨M, by rw [toSptenmat_rowmode]; exact h1, h2, h3, h4, h6⟩
  -- existence of the matricization does not need a subscript
  obtain ⟨M, hM, hMt, hMr, hMc⟩ : ∃ M, S.toSptenmat (some [n]) none none = .ok M ∧ M.tshape = S.shape ∧
      M.rdims = [n] ∧ M.cdims = complDims S.shape.length [n] := by
    refine ⟨_, by rw [toSptenmat_rowmode]; exact toSptenmat_ok S [n] _ hS hp, rfl, rfl, rfl⟩
  have hI : numel (gather M.tshape M.rdims) = S.shape.getD n 0 := by rw [hMt, hMr]; simp [numel]
  have hP : numel (gather M.tshape M.cdims) = numel (S.shape.eraseIdx n) := by rw [hMt, hMc, hrest]
  have hY : S.nvecsGram n = .ok (matMulT M.toMat M.toMat) := by
    unfold Sparse.nvecsGram
    have : ¬ (n ≥ S.shape.length) := by omega
    simp only [hns, this, if_false, Bool.false_eq_true, hM]
  have hlen : M.toMat.length = S.shape.getD n 0 := by simp [Sptenmat.toMat, hI]
  have hrows : ∀ row ∈ M.toMat, row.length = numel (S.shape.eraseIdx n) := by
    intro row h
    simp only [Sptenmat.toMat, List.mem_map] at h
    obtain ⟨a, _, rfl⟩ := h
    simp [hP]
  have hget : ∀ a c, a < S.shape.getD n 0 → c < numel (S.shape.eraseIdx n) →
      M.toMat.get a c = S.get (insAt (ind2sub (S.shape.eraseIdx n) c) n a) := by
    intro a c ha hc
    have hjb : InBounds (S.shape.eraseIdx n) (ind2sub (S.shape.eraseIdx n) c) := ind2sub_inBounds hc
    have hib := inBounds_insAt hn hjb ha
    obtain ⟨M', hM', _, _, _, h6⟩ := hentry _ hib
    have : M' = M := by rw [hM] at hM'; injection hM' with h; exact h.symm
    subst this
    have hnj : n ≤ (ind2sub (S.shape.eraseIdx n) c).length := by
      rw [length_ind2sub, List.length_eraseIdx]; simp [hn]; omega
    have hl : (insAt (ind2sub (S.shape.eraseIdx n) c) n a).length = S.shape.length := hib.length_eq
    have hg := gather_complDims (insAt (ind2sub (S.shape.eraseIdx n) c) n a) n (by omega)
    rw [hl, eraseIdx_insAt _ n a hnj] at hg
    rw [hg, hrest, sub2ind_ind2sub hc] at h6
    simp only [gather_cons, gather_nil, getD_insAt_self _ n a hnj, sub2ind, Nat.mul_zero, Nat.add_zero] at h6
    rw [← h6]
    unfold Sptenmat.toMat Mat.get
    rw [getD_map_range _ _ _ _ (by rw [hI]; exact ha), getD_map_range _ _ _ _ (by rw [hP]; exact hc)]
    rfl
  refine ⟨_, hY, ?_, ?_, ?_⟩
  · rw [length_matMulT, hlen]
  · intro row h; rw [rows_matMulT _ _ row h, hlen]
  · intro a b ha hb
    rw [get_matMulT_sum M.toMat M.toMat (numel (S.shape.eraseIdx n)) a b hrows hrows
      (by rw [hlen]; exact ha) (by rw [hlen]; exact hb)]
    unfold gramSpec
    rw [sum_map_allSubs]
    apply Finset.sum_congr rfl
    intro c hc
    rw [hget a c ha (Finset.mem_range.1 hc), hget b c hb (Finset.mem_range.1 hc)]

/-- an `sptensor` whose extents are all 1 is refused (documented `ValueError`). -/
theorem gram_sparse_refuses [Add α] [Mul α] [Zero α] [BEq α] (S : Sparse α) (n : Nat)
    (h : S.shape.all (· == 1) = true) : S.nvecsGram n = .error .reject := by
  simp [Sparse.nvecsGram, h]

end Pyttb
