/-
C02 — dense `mttkrp`: the three branches (first / last / middle mode) against
`Σ_{k, k_n = i} X[k] ∏_{m ≠ n} U_m[k_m, r]`.
-/
import PyttbModel.Lemmas.MLDenseTtv
import PyttbModel.Lemmas.ConvertKruskal
namespace Pyttb
namespace ML

variable {α : Type}

/-- Column-`r` product of the factor entries selected by `j`. -/
def facProd [Mul α] [One α] [Zero α] (Ms : List (Mat α)) (j : List Nat) (r : Nat) : α :=
  (List.zipWith (fun (M : Mat α) ik => M.get ik r) Ms j).prod

/-- Entries of a Khatri-Rao product (reverse order) once it is known to exist. -/
theorem kr_entry [CommSemiring α] (Ms : List (Mat α)) (R : Nat) (K : Mat α) (hK : khatrirao Ms true = .ok K)
    (hne : Ms ≠ []) (hR : ∀ M ∈ Ms, ∀ row ∈ M, row.length = R) (i : List Nat)
    (hi : InBounds (Ms.map List.length) i) (r : Nat) (hr : r < R) :
    K.get (sub2ind (Ms.map List.length) i) r = facProd Ms i r := by
  obtain ⟨K', hK', _, h⟩ := khatrirao_rev_spec Ms R i hne hR hi
  have : K' = K := by
    have : (Except.ok K' : Except Reject (Mat α)) = .ok K := by rw [← hK', ← hK]
    exact Except.ok.inj this
  subst this
  exact h r hr

/-- The all-zero subscript is in bounds of a shape with positive extents. -/
theorem zeros_inBounds (s : List Nat) (hpos : ∀ e ∈ s, 0 < e) : InBounds s (s.map fun _ => 0) := by
  induction s with
  | nil => trivial
  | cons a s ih =>
    exact ⟨hpos a (List.mem_cons_self ..), ih (fun e he => hpos e (List.mem_cons_of_mem _ he))⟩

theorem kr_exists [CommSemiring α] (Ms : List (Mat α)) (R : Nat) (hne : Ms ≠ [])
    (hR : ∀ M ∈ Ms, ∀ row ∈ M, row.length = R) (hpos : ∀ M ∈ Ms, 0 < M.length) :
    ∃ K, khatrirao Ms true = .ok K ∧ K.length = numel (Ms.map List.length) := by
  have hi : InBounds (Ms.map List.length) ((Ms.map List.length).map fun _ => 0) := by
    apply zeros_inBounds
    intro e he
    obtain ⟨M, hM, rfl⟩ := List.mem_map.1 he
    exact hpos M hM
  obtain ⟨K, hK, hl, _⟩ := khatrirao_rev_spec Ms R _ hne hR hi
  exact ⟨K, hK, hl⟩

/-- Cells of `a ++ [sn] ++ b` whose coordinate `n = |a|` is `i`. -/
theorem sum_mode_fixed [AddCommMonoid α] (a b : List Nat) (sn i : Nat) (hi : i < sn) (G : List Nat → α) :
    (((allSubs (a ++ sn :: b)).filter fun k => k.getD a.length 0 == i).map G).sum =
      ((allSubs b).map fun jb => ((allSubs a).map fun ja => G (ja ++ i :: jb)).sum).sum := by
  rw [sum_filter, sum_allSubs_append]
  rw [sum_allSubs_cons]
  apply sum_congr
  intro jb _
  have h1 : ∀ x, ((allSubs a).map fun ja => if ((ja ++ x :: jb).getD a.length 0 == i) = true then G (ja ++ x :: jb) else 0).sum
      = if x = i then ((allSubs a).map fun ja => G (ja ++ x :: jb)).sum else 0 := by
    intro x
    by_cases hx : x = i
    · rw [if_pos hx]
      apply sum_congr
      intro ja hja
      have hl := (mem_allSubs.1 hja).length_eq
      have : (ja ++ x :: jb).getD a.length 0 = x := by
        rw [← hl, List.getD_eq_getElem?_getD, List.getElem?_append_right (Nat.le_refl _)]
        simp
      rw [this]; simp [hx]
    · rw [if_neg hx]
      apply List.sum_eq_zero
      intro v hv
      obtain ⟨ja, hja, rfl⟩ := List.mem_map.1 hv
      have hl := (mem_allSubs.1 hja).length_eq
      have : (ja ++ x :: jb).getD a.length 0 = x := by
        rw [← hl, List.getD_eq_getElem?_getD, List.getElem?_append_right (Nat.le_refl _)]
        simp
      rw [this]; simp [hx]
  rw [List.map_congr_left (fun x _ => h1 x)]
  exact sum_single' (List.range sn) List.nodup_range i
    (fun x => ((allSubs a).map fun ja => G (ja ++ x :: jb)).sum) (List.mem_range.2 hi)


theorem facProd_eq_range [CommSemiring α] (Ms : List (Mat α)) (j : List Nat) (r L : Nat)
    (h1 : Ms.length = L) (h2 : j.length = L) :
    facProd Ms j r = ((List.range L).map fun m => (Ms.getD m []).get (j.getD m 0) r).prod := by
  unfold facProd
  congr 1
  apply List.ext_getElem
  · simp [h1, h2]
  · intro k hk1 hk2
    simp only [List.length_map, List.length_range] at hk2
    simp [List.getD_eq_getElem?_getD, List.getElem?_eq_getElem (h1 ▸ hk2), List.getElem?_eq_getElem (h2 ▸ hk2)]

theorem range_filter_ne (N n : Nat) (hn : n < N) :
    (List.range N).filter (· != n) = List.range n ++ (List.range (N - n - 1)).map (· + (n + 1)) := by
  obtain ⟨c, rfl⟩ : ∃ c, N = n + 1 + c := ⟨N - n - 1, by omega⟩
  rw [show n + 1 + c - n - 1 = c by omega, List.range_add, List.range_succ, List.filter_append, List.filter_append]
  have h1 : (List.range n).filter (· != n) = List.range n := by
    rw [List.filter_eq_self]; intro k hk; have := List.mem_range.1 hk; simp; omega
  have h2 : ([n] : List Nat).filter (· != n) = [] := by simp
  have h3 : ((List.range c).map (n + 1 + ·)).filter (· != n) = (List.range c).map (· + (n + 1)) := by
    rw [List.filter_eq_self.2]
    · apply List.map_congr_left; intro k _; omega
    · intro k hk
      obtain ⟨m, _, rfl⟩ := List.mem_map.1 hk
      simp; omega
  rw [h1, h2, h3, List.append_nil]

/-- What `mttkrp` is specified to return, written over the two blocks of modes around `n`. -/
theorem spec_mttkrp_blocks [CommSemiring α] (T : Dense α) (U : List (Mat α)) (n i r : Nat)
    (a b : List Nat) (sn : Nat) (hs : T.shape = a ++ sn :: b) (hna : a.length = n) (hi : i < sn)
    (hlen : U.length = T.shape.length) :
    Spec.mttkrp T.den (fun m x c => (U.getD m []).get x c) (fun _ => 1) n i r =
      ((allSubs b).map fun jb => ((allSubs a).map fun ja =>
        T.data.getD (sub2ind a ja + numel a * (i + sn * sub2ind b jb)) 0 *
          (facProd (U.take n) ja r * facProd (U.drop (n + 1)) jb r)).sum).sum := by
  have hN : T.shape.length = n + 1 + b.length := by rw [hs]; simp [hna]; omega
  unfold Spec.mttkrp Spec.sumOver
  rw [one_mul]
  show (((allSubs T.shape).filter fun k => k.getD n 0 == i).map _).sum = _
  rw [hs, ← hna, sum_mode_fixed a b sn i hi]
  apply sum_congr
  intro jb hjb
  apply sum_congr
  intro ja hja
  have hjal := (mem_allSubs.1 hja).length_eq
  have hjbl := (mem_allSubs.1 hjb).length_eq
  congr 1
  · show T.data.getD (sub2ind T.shape (ja ++ i :: jb)) 0 = _
    rw [hs, sub2ind_append _ _ _ _ hjal]
    rfl
  · show (((List.range T.shape.length).filter (· != a.length)).map _).prod = _
    rw [hN, hna, range_filter_ne _ n (by omega), List.map_append, List.prod_append]
    have hUt : (U.take n).length = n := by rw [List.length_take]; omega
    have hUd : (U.drop (n + 1)).length = b.length := by rw [List.length_drop]; omega
    rw [facProd_eq_range (U.take n) ja r n hUt (by rw [hjal, hna]),
      facProd_eq_range (U.drop (n + 1)) jb r b.length hUd hjbl]
    congr 1
    · congr 1
      apply List.map_congr_left
      intro m hm
      have hm' := List.mem_range.1 hm
      have h1 : (ja ++ i :: jb).getD m 0 = ja.getD m 0 := by
        rw [List.getD_eq_getElem?_getD, List.getElem?_append_left (by omega), ← List.getD_eq_getElem?_getD]
      have h2 : (U.take n).getD m [] = U.getD m [] := by
        simp [List.getD_eq_getElem?_getD, List.getElem?_take, hm']
      rw [h1, h2]
    · rw [show n + 1 + b.length - n - 1 = b.length by omega, List.map_map]
      congr 1
      apply List.map_congr_left
      intro m _
      have h1 : (ja ++ i :: jb).getD (m + (n + 1)) 0 = jb.getD m 0 := by
        rw [List.getD_eq_getElem?_getD, List.getElem?_append_right (by omega), hjal, hna]
        rw [show m + (n + 1) - n = m + 1 by omega]
        simp [List.getD_eq_getElem?_getD]
      have h2 : (U.drop (n + 1)).getD m [] = U.getD (m + (n + 1)) [] := by
        simp [List.getD_eq_getElem?_getD, List.getElem?_drop, Nat.add_comm]
      simp only [Function.comp_apply]
      rw [h1, h2]


theorem foldl_kr2_rows [Mul α] (rest : List (Mat α)) (P : Mat α) (R : Nat) (hP : ∀ row ∈ P, row.length = R)
    (hrest : ∀ M ∈ rest, ∀ row ∈ M, row.length = R) : ∀ row ∈ rest.foldl kr2 P, row.length = R := by
  induction rest generalizing P with
  | nil => exact hP
  | cons M rest ih =>
    exact ih (kr2 P M) (kr2_rows P M R hP (hrest M (List.mem_cons_self ..)))
      (fun M' hM' => hrest M' (List.mem_cons_of_mem _ hM'))

theorem kr_rows [Mul α] (Ms : List (Mat α)) (R : Nat) (K : Mat α) (hK : khatrirao Ms true = .ok K)
    (hR : ∀ M ∈ Ms, ∀ row ∈ M, row.length = R) : ∀ row ∈ K, row.length = R := by
  unfold khatrirao at hK
  simp only [if_true] at hK
  cases hrev : Ms.reverse with
  | nil => rw [hrev] at hK; cases hK
  | cons M0 rest =>
    rw [hrev] at hK
    simp only at hK
    split at hK
    · injection hK with hK
      subst hK
      have hmem : ∀ M ∈ M0 :: rest, ∀ row ∈ M, row.length = R := by
        intro M hM
        exact hR M (List.mem_reverse.1 (hrev ▸ hM))
      exact foldl_kr2_rows rest M0 R (hmem M0 (List.mem_cons_self ..))
        (fun M hM => hmem M (List.mem_cons_of_mem _ hM))
    · cases hK

theorem allSubs_nil : allSubs ([] : List Nat) = [[]] := by decide

theorem numel_pos (s : List Nat) (h : ∀ e ∈ s, 0 < e) : 0 < numel s := by
  induction s with
  | nil => simp
  | cons a s ih =>
    rw [numel_cons]
    exact Nat.mul_pos (h a (List.mem_cons_self ..)) (ih (fun e he => h e (List.mem_cons_of_mem _ he)))

/-- **Dense `mttkrp`**, all three branches (mode first / last / in the middle): entry `[i, r]` is
`Σ_{k, k_n = i} X[k] ∏_{m ≠ n} U_m[k_m, r]`. -/
theorem dense_mttkrpCore_spec [CommSemiring α] (T : Dense α) (U : List (Mat α)) (n R : Nat)
    (hT : T.WF) (hN2 : 2 ≤ T.shape.length) (hn : n < T.shape.length) (hlen : U.length = T.shape.length)
    (hrows : ∀ m, m < T.shape.length → m ≠ n → (U.getD m []).length = T.shape.getD m 0)
    (hcols : ∀ m, m < T.shape.length → m ≠ n → ∀ row ∈ U.getD m [], row.length = R)
    (hpos : ∀ e ∈ T.shape, 0 < e) :
    ∃ V, T.mttkrpCore U n = .ok V ∧
      ∀ i r, i < T.shape.getD n 0 → r < R →
        V.get i r = Spec.mttkrp T.den (fun m x c => (U.getD m []).get x c) (fun _ => 1) n i r := by
  set N := T.shape.length with hN
  set a := T.shape.take n with ha
  set b := T.shape.drop (n + 1) with hb
  set sn := T.shape.getD n 0 with hsn
  have hs : T.shape = a ++ sn :: b := by
    rw [ha, hb, hsn, List.getD_eq_getElem?_getD, List.getElem?_eq_getElem hn]
    simp
  have hna : a.length = n := by rw [ha, List.length_take]; omega
  have hbl : b.length = N - n - 1 := by rw [hb, List.length_drop]; omega
  have hposm : ∀ m, m < N → 0 < T.shape.getD m 0 := by
    intro m hm
    apply hpos
    rw [List.getD_eq_getElem?_getD, List.getElem?_eq_getElem hm]
    exact List.getElem_mem _
  -- facts about sub-lists of factors
  have hgetU : ∀ m, m < N → U.getD m [] ∈ U := by
    intro m hm
    rw [List.getD_eq_getElem?_getD, List.getElem?_eq_getElem (hlen ▸ hm)]
    exact List.getElem_mem _
  have htake : ∀ M ∈ U.take n, ∃ m, m < n ∧ M = U.getD m [] := by
    intro M hM
    obtain ⟨m, hm, rfl⟩ := List.getElem_of_mem hM
    rw [List.length_take] at hm
    refine ⟨m, by omega, ?_⟩
    rw [List.getElem_take, List.getD_eq_getElem?_getD, List.getElem?_eq_getElem (by omega)]
    rfl
  have hdrop : ∀ M ∈ U.drop (n + 1), ∃ m, n < m ∧ m < N ∧ M = U.getD m [] := by
    intro M hM
    obtain ⟨m, hm, rfl⟩ := List.getElem_of_mem hM
    rw [List.length_drop] at hm
    refine ⟨n + 1 + m, by omega, by omega, ?_⟩
    rw [List.getElem_drop, List.getD_eq_getElem?_getD, List.getElem?_eq_getElem (by omega)]
    rfl
  have hRt : ∀ M ∈ U.take n, ∀ row ∈ M, row.length = R := by
    intro M hM
    obtain ⟨m, hm, rfl⟩ := htake M hM
    exact hcols m (by omega) (by omega)
  have hRd : ∀ M ∈ U.drop (n + 1), ∀ row ∈ M, row.length = R := by
    intro M hM
    obtain ⟨m, hm1, hm2, rfl⟩ := hdrop M hM
    exact hcols m hm2 (by omega)
  have hpt : ∀ M ∈ U.take n, 0 < M.length := by
    intro M hM
    obtain ⟨m, hm, rfl⟩ := htake M hM
    rw [hrows m (by omega) (by omega)]; exact hposm m (by omega)
  have hpd : ∀ M ∈ U.drop (n + 1), 0 < M.length := by
    intro M hM
    obtain ⟨m, hm1, hm2, rfl⟩ := hdrop M hM
    rw [hrows m hm2 (by omega)]; exact hposm m hm2
  have hmapt : (U.take n).map List.length = a := by
    apply List.ext_getElem
    · simp [hna, hlen]; omega
    · intro m h1 h2
      have hm : m < n := by rw [hna] at h2; exact h2
      simp only [List.getElem_map, List.getElem_take, ha]
      have := hrows m (by omega) (by omega)
      rw [List.getD_eq_getElem?_getD, List.getElem?_eq_getElem (by omega), List.getD_eq_getElem?_getD,
        List.getElem?_eq_getElem (by omega)] at this
      exact this
  have hmapd : (U.drop (n + 1)).map List.length = b := by
    apply List.ext_getElem
    · simp only [List.length_map, List.length_drop, hbl, hlen]; omega
    · intro m h1 h2
      have hm : m < N - n - 1 := by rw [hbl] at h2; exact h2
      simp only [List.getElem_map, List.getElem_drop, hb]
      have := hrows (n + 1 + m) (by omega) (by omega)
      rw [List.getD_eq_getElem?_getD, List.getElem?_eq_getElem (by omega), List.getD_eq_getElem?_getD,
        List.getElem?_eq_getElem (by omega)] at this
      exact this
  -- guards
  have g1 : ¬ (N < 2) := by omega
  have g2 : (U.length != N) = false := by rw [hlen]; exact bne_self_eq_false _
  have g3 : ((List.range N).any fun i => i != n && (U.getD i []).length != T.shape.getD i 0) = false := by
    rw [List.any_eq_false]
    intro m hm
    have hm' := List.mem_range.1 hm
    by_cases hmn : m = n
    · simp [hmn]
    · have := hrows m hm' hmn
      rw [this]
      simp
  have hRval : (if (n == 0) = true then (U.getD 1 []).ncols else (U.getD 0 []).ncols) = R := by
    by_cases h0 : n = 0
    · subst h0
      simp only [beq_self_eq_true, if_true]
      exact ncols_eq _ R (hcols 1 (by omega) (by omega)) (by rw [hrows 1 (by omega) (by omega)]; exact hposm 1 (by omega))
    · have : (n == 0) = false := by simpa using h0
      rw [this]
      simp only [Bool.false_eq_true, if_false]
      exact ncols_eq _ R (hcols 0 (by omega) (by omega)) (by rw [hrows 0 (by omega) (by omega)]; exact hposm 0 (by omega))
  have hszl : numel (T.shape.take n) = numel a := rfl
  have hszr : numel (T.shape.drop (n + 1)) = numel b := rfl
  have htarget := fun i r (hi : i < sn) => spec_mttkrp_blocks T U n i r a b sn hs hna hi hlen
  unfold Dense.mttkrpCore
  simp only [← hN, g1, g2, g3, if_false, Bool.false_eq_true, hRval, ← hsn, hszl, hszr]
  by_cases h0 : n = 0
  · -- first mode
    subst h0
    have ha0 : a = [] := by rw [ha]; rfl
    have hne : U.drop 1 ≠ [] := by
      intro h; have := congrArg List.length h; rw [List.length_drop, hlen] at this; simp at this; omega
    obtain ⟨K, hK, _⟩ := kr_exists (U.drop 1) R hne hRd hpd
    simp only [beq_self_eq_true, if_true, hK]
    refine ⟨_, rfl, ?_⟩
    intro i r hi hr
    rw [htarget i r hi, mulD_get _ _ _ _ _ _ _ hi hr, ha0, allSubs_nil]
    unfold sumRange
    rw [sum_range_allSubs b]
    apply sum_congr
    intro jb hjb
    have hjbb := mem_allSubs.1 hjb
    have hlt : sub2ind b jb < numel b := sub2ind_lt hjbb
    rw [reshape2_get _ _ _ _ _ hi hlt]
    have hke := kr_entry (U.drop 1) R K hK hne hRd jb (by rw [hmapd]; exact hjbb) r hr
    rw [hmapd] at hke
    rw [hke]
    simp [facProd, sub2ind]
  · have hn0 : (n == 0) = false := by simpa using h0
    simp only [hn0, Bool.false_eq_true, if_false]
    by_cases hlast : n = N - 1
    · -- last mode
      have hl : (n == N - 1) = true := by simpa using hlast
      simp only [hl, if_true]
      have hb0 : b = [] := by
        apply List.length_eq_zero_iff.1; rw [hbl]; omega
      have htk : U.take (N - 1) = U.take n := by rw [hlast]
      have hne : U.take n ≠ [] := by
        intro h; have := congrArg List.length h; rw [List.length_take, hlen] at this; simp at this; omega
      obtain ⟨K, hK, _⟩ := kr_exists (U.take n) R hne hRt hpt
      rw [htk, hK]
      refine ⟨_, rfl, ?_⟩
      intro i r hi hr
      rw [htarget i r hi, mulD_get _ _ _ _ _ _ _ hi hr, hb0, allSubs_nil]
      simp only [List.map_cons, List.map_nil, List.sum_cons, List.sum_nil, add_zero]
      unfold sumRange
      rw [sum_range_allSubs a]
      apply sum_congr
      intro ja hja
      have hjab := mem_allSubs.1 hja
      have hlt : sub2ind a ja < numel a := sub2ind_lt hjab
      rw [tr_get _ _ _ _ _ hlt hi, reshape2_get _ _ _ _ _ hlt hi]
      have hke := kr_entry (U.take n) R K hK hne hRt ja (by rw [hmapt]; exact hjab) r hr
      rw [hmapt] at hke
      rw [hke]
      simp [facProd, sub2ind]
    · -- a mode in the middle
      have hl : (n == N - 1) = false := by simpa using hlast
      simp only [hl, Bool.false_eq_true, if_false]
      have hne1 : U.drop (n + 1) ≠ [] := by
        intro h; have := congrArg List.length h; rw [List.length_drop, hlen] at this; simp at this; omega
      have hne2 : U.take n ≠ [] := by
        intro h; have := congrArg List.length h; rw [List.length_take, hlen] at this; simp at this; omega
      obtain ⟨Kr, hKr, hKrl⟩ := kr_exists (U.drop (n + 1)) R hne1 hRd hpd
      obtain ⟨Kl, hKl, hKll⟩ := kr_exists (U.take n) R hne2 hRt hpt
      rw [hKr, hKl]
      have hposb : ∀ e ∈ b, 0 < e := fun e he => hpos e (by rw [hs]; simp [he])
      have hposa : ∀ e ∈ a, 0 < e := fun e he => hpos e (by rw [hs]; simp [he])
      have hKrpos : 0 < Kr.length := by rw [hKrl, hmapd]; exact numel_pos b hposb
      have hKlpos : 0 < Kl.length := by rw [hKll, hmapt]; exact numel_pos a hposa
      have hc1 : Kr.ncols = R := ncols_eq Kr R (kr_rows _ R Kr hKr hRd) hKrpos
      have hc2 : Kl.ncols = R := ncols_eq Kl R (kr_rows _ R Kl hKl hRt) hKlpos
      simp only [hc1, hc2, bne_self_eq_false, Bool.or_self, Bool.false_eq_true, if_false]
      refine ⟨_, rfl, ?_⟩
      intro i r hi hr
      rw [htarget i r hi, get_tab _ _ _ _ _ hi hr]
      unfold sumRange
      rw [sum_range_allSubs a, sum_comm]
      apply sum_congr
      intro ja hja
      have hjab := mem_allSubs.1 hja
      have hlt : sub2ind a ja < numel a := sub2ind_lt hjab
      have hp : sub2ind a ja + numel a * i < numel a * sn := by
        calc sub2ind a ja + numel a * i < numel a + numel a * i := by omega
          _ = numel a * (i + 1) := by rw [Nat.mul_succ]; omega
          _ ≤ numel a * sn := Nat.mul_le_mul_left _ hi
      rw [mulD_get _ _ _ _ _ _ _ hp hr]
      unfold sumRange
      rw [sum_range_allSubs b, ← List.sum_map_mul_right]
      apply sum_congr
      intro jb hjb
      have hjbb := mem_allSubs.1 hjb
      have hltb : sub2ind b jb < numel b := sub2ind_lt hjbb
      rw [reshape2_get _ _ _ _ _ hp hltb]
      have hke1 := kr_entry (U.drop (n + 1)) R Kr hKr hne1 hRd jb (by rw [hmapd]; exact hjbb) r hr
      have hke2 := kr_entry (U.take n) R Kl hKl hne2 hRt ja (by rw [hmapt]; exact hjab) r hr
      rw [hmapd] at hke1
      rw [hmapt] at hke2
      rw [hke1, hke2]
      have hidx : sub2ind a ja + numel a * i + numel a * sn * sub2ind b jb =
          sub2ind a ja + numel a * (i + sn * sub2ind b jb) := by
        rw [Nat.mul_add, Nat.mul_assoc, Nat.add_assoc]
      rw [hidx]
      ring

end ML
end Pyttb
