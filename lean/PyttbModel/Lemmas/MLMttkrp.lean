/-
C02 — dense `mttkrp`: the three branches (first / last / middle mode) against
`Σ_{k, k_n = i} X[k] ∏_{m ≠ n} U_m[k_m, r]`.
-/
import PyttbModel.Lemmas.MLDenseTtv
import PyttbModel.Lemmas.ConvertKruskal
namespace Pyttb
namespace ML

variable {α : Type}

/-- Column-`r` product of the factor entries selected by `j`. -/
def facProd [Mul α] [One α] [Zero α] (Ms : List (Mat α)) (j : List Nat) (r : Nat) : α :=
  (List.zipWith (fun (M : Mat α) ik => M.get ik r) Ms j).prod

/-- Entries of a Khatri-Rao product (reverse order) once it is known to exist. -/
theorem kr_entry [CommSemiring α] (Ms : List (Mat α)) (R : Nat) (K : Mat α) (hK : khatrirao Ms true = .ok K)
    (hne : Ms ≠ []) (hR : ∀ M ∈ Ms, ∀ row ∈ M, row.length = R) (i : List Nat)
    (hi : InBounds (Ms.map List.length) i) (r : Nat) (hr : r < R) :
    K.get (sub2ind (Ms.map List.length) i) r = facProd Ms i r := by
  obtain ⟨K', hK', _, h⟩ := khatrirao_rev_spec Ms R i hne hR hi
  have : K' = K := by
    have : (Except.ok K' : Except Reject (Mat α)) = .ok K := by rw [← hK', ← hK]
    exact Except.ok.inj this
  subst this
  exact h r hr

/-- The all-zero subscript is in bounds of a shape with positive extents. -/
theorem zeros_inBounds (s : List Nat) (hpos : ∀ e ∈ s, 0 < e) : InBounds s (s.map fun _ => 0) := by
  induction s with
  | nil => trivial
  | cons a s ih =>
    exact ⟨hpos a (List.mem_cons_self ..), ih (fun e he => hpos e (List.mem_cons_of_mem _ he))⟩

theorem kr_exists [CommSemiring α] (Ms : List (Mat α)) (R : Nat) (hne : Ms ≠ [])
    (hR : ∀ M ∈ Ms, ∀ row ∈ M, row.length = R) (hpos : ∀ M ∈ Ms, 0 < M.length) :
    ∃ K, khatrirao Ms true = .ok K ∧ K.length = numel (Ms.map List.length) := by
  have hi : InBounds (Ms.map List.length) ((Ms.map List.length).map fun _ => 0) := by
    apply zeros_inBounds
    intro e he
    obtain ⟨M, hM, rfl⟩ := List.mem_map.1 he
    exact hpos M hM
  obtain ⟨K, hK, hl, _⟩ := khatrirao_rev_spec Ms R _ hne hR hi
  exact ⟨K, hK, hl⟩

/-- Cells of `a ++ [sn] ++ b` whose coordinate `n = |a|` is `i`. -/
theorem sum_mode_fixed [AddCommMonoid α] (a b : List Nat) (sn i : Nat) (hi : i < sn) (G : List Nat → α) :
    (((allSubs (a ++ sn :: b)).filter fun k => k.getD a.length 0 == i).map G).sum =
      ((allSubs b).map fun jb => ((allSubs a).map fun ja => G (ja ++ i :: jb)).sum).sum := by
  rw [sum_filter, sum_allSubs_append]
  rw [sum_allSubs_cons]
  apply sum_congr
  intro jb _
  have h1 : ∀ x, ((allSubs a).map fun ja => if ((ja ++ x :: jb).getD a.length 0 == i) = true then G (ja ++ x :: jb) else 0).sum
      = if x = i then ((allSubs a).map fun ja => G (ja ++ x :: jb)).sum else 0 := by
    intro x
    by_cases hx : x = i
    · rw [if_pos hx]
      apply sum_congr
      intro ja hja
      have hl := (mem_allSubs.1 hja).length_eq
      have : (ja ++ x :: jb).getD a.length 0 = x := by
        rw [← hl, List.getD_eq_getElem?_getD, List.getElem?_append_right (Nat.le_refl _)]
        simp
      rw [this]; simp [hx]
    · rw [if_neg hx]
      apply List.sum_eq_zero
      intro v hv
      obtain ⟨ja, hja, rfl⟩ := List.mem_map.1 hv
      have hl := (mem_allSubs.1 hja).length_eq
      have : (ja ++ x :: jb).getD a.length 0 = x := by
        rw [← hl, List.getD_eq_getElem?_getD, List.getElem?_append_right (Nat.le_refl _)]
        simp
      rw [this]; simp [hx]
  rw [List.map_congr_left (fun x _ => h1 x)]
  exact sum_single' (List.range sn) List.nodup_range i
    (fun x => ((allSubs a).map fun ja => G (ja ++ x :: jb)).sum) (List.mem_range.2 hi)

end ML
end Pyttb
