/-
C06: the denotation of a sparse tensor does not depend on the order in which its entries are
stored, reordering preserves well-formedness, and every operation that is a function of the
operands' denotations gives the same result for reordered operands.  Also: well-formedness of
`reshape` / `squeeze` results and the count of stored entries.
-/
import PyttbModel.Lemmas.SparseElemOrder
import PyttbModel.Lemmas.ShapeOps
import Mathlib.Data.List.Perm.Lattice
namespace Pyttb
open SpElem
variable {α : Type}

/-- `S'` stores the same (subscript, value) pairs as `S`, in some other order. -/
def Reorder (S' S : Sparse α) : Prop :=
  S'.shape = S.shape ∧ S'.subs.length = S'.vals.length ∧ S'.entries.Perm S.entries

theorem Reorder.refl (S : Sparse α) (h : S.subs.length = S.vals.length) : Reorder S S :=
  ⟨rfl, h, List.Perm.refl _⟩

/-- permuting the stored entries does not change the denoted array. -/
theorem denote_perm [AddCommMonoid α] {S' S : Sparse α} (h : Reorder S' S) (i : List Nat) :
    S'.get i = S.get i := kvSum_perm h.2.2 i

/-- … and keeps the tensor well-formed. -/
theorem wf_perm [Zero α] [BEq α] {S' S : Sparse α} (h : Reorder S' S) (hS : S.WF) : S'.WF := by
  obtain ⟨hsh, hl, hp⟩ := h
  have hk' : S'.entries.map (·.1) = S'.subs := S'.entries_keys hl
  have hk : S.entries.map (·.1) = S.subs := S.entries_keys hS.len
  have hv' : S'.entries.map (·.2) = S'.vals := List.map_snd_zip (Nat.le_of_eq hl.symm)
  have hv : S.entries.map (·.2) = S.vals := List.map_snd_zip (Nat.le_of_eq hS.len.symm)
  have ps : S'.subs.Perm S.subs := by rw [← hk', ← hk]; exact hp.map _
  have pv : S'.vals.Perm S.vals := by rw [← hv', ← hv]; exact hp.map _
  refine ⟨hl, ?_, ps.nodup_iff.2 hS.nodup, ?_⟩
  · intro i hi; rw [hsh]; exact hS.inb i (ps.mem_iff.1 hi)
  · intro v hv; exact hS.nz v (pv.mem_iff.1 hv)

theorem Reorder.vals_mem [Zero α] [BEq α] {S' S : Sparse α} (h : Reorder S' S) (hS : S.WF) (v : α) :
    v ∈ S'.vals ↔ v ∈ S.vals := by
  obtain ⟨_, hl, hp⟩ := h
  have hv' : S'.entries.map (·.2) = S'.vals := List.map_snd_zip (Nat.le_of_eq hl.symm)
  have hv : S.entries.map (·.2) = S.vals := List.map_snd_zip (Nat.le_of_eq hS.len.symm)
  rw [← hv', ← hv]
  exact (hp.map _).mem_iff

/-- An operation whose result is, cell by cell, a function of the two operands' entries gives
the same array for reordered operands (`Q` collects side conditions on the shape). -/
theorem perm_binary [AddCommMonoid α] [DecidableEq α] {ρ : Type} (getR : ρ → List Nat → α)
    (op : Sparse α → Sparse α → Except Reject ρ) (f : α → α → α) (Q : List Nat → Prop)
    (hspec : ∀ A B : Sparse α, A.WF → B.WF → A.shape = B.shape → Q A.shape →
      ∃ R, op A B = .ok R ∧ ∀ i, InBounds A.shape i → getR R i = f (A.get i) (B.get i))
    (A A' B B' : Sparse α) (hA : A.WF) (hB : B.WF) (hs : A.shape = B.shape) (hQ : Q A.shape)
    (rA : Reorder A' A) (rB : Reorder B' B) :
    ∃ R R', op A B = .ok R ∧ op A' B' = .ok R' ∧ ∀ i, InBounds A.shape i → getR R' i = getR R i := by
  obtain ⟨R, e, g⟩ := hspec A B hA hB hs hQ
  obtain ⟨R', e', g'⟩ := hspec A' B' (wf_perm rA hA) (wf_perm rB hB) (by rw [rA.1, rB.1, hs]) (by rw [rA.1]; exact hQ)
  refine ⟨R, R', e, e', fun i hi => ?_⟩
  rw [g i hi, g' i (by rw [rA.1]; exact hi), denote_perm rA, denote_perm rB]

/-- the same for an operation of one sparse operand. -/
theorem perm_unary [AddCommMonoid α] [DecidableEq α] {ρ : Type} (getR : ρ → List Nat → α)
    (op : Sparse α → Except Reject ρ) (f : List Nat → α → α) (Q : List Nat → Prop)
    (hspec : ∀ A : Sparse α, A.WF → Q A.shape →
      ∃ R, op A = .ok R ∧ ∀ i, InBounds A.shape i → getR R i = f i (A.get i))
    (A A' : Sparse α) (hA : A.WF) (hQ : Q A.shape) (rA : Reorder A' A) :
    ∃ R R', op A = .ok R ∧ op A' = .ok R' ∧ ∀ i, InBounds A.shape i → getR R' i = getR R i := by
  obtain ⟨R, e, g⟩ := hspec A hA hQ
  obtain ⟨R', e', g'⟩ := hspec A' (wf_perm rA hA) (by rw [rA.1]; exact hQ)
  refine ⟨R, R', e, e', fun i hi => ?_⟩
  rw [g i hi, g' i (by rw [rA.1]; exact hi), denote_perm rA]

/-! ### the reported number of nonzeros -/

theorem nnz_reports [AddMonoid α] [DecidableEq α] (S : Sparse α) (hS : S.WF) :
    S.nnz = S.subs.length ∧ S.nnz = S.vals.length ∧
    S.nnz = ((allSubs S.shape).filter (fun i => !(S.get i == 0))).length := by
  refine ⟨rfl, hS.len, ?_⟩
  have hn : ((allSubs S.shape).filter (fun i => !(S.get i == 0))).Nodup :=
    List.Nodup.filter _ (allSubs_nodup _)
  have hp : S.subs.Perm ((allSubs S.shape).filter (fun i => !(S.get i == 0))) := by
    rw [List.perm_ext_iff_of_nodup hS.nodup hn]
    intro i
    rw [List.mem_filter, mem_allSubs]
    simp only [Bool.not_eq_true', beq_eq_false_iff_ne, ne_eq]
    constructor
    · intro h; exact ⟨hS.inb i h, S.get_ne_zero_of_mem hS i h⟩
    · rintro ⟨_, h⟩; exact (S.get_ne_zero_iff hS i).1 h
  exact hp.length_eq

/-! ### results whose subscripts are re-keyed by an injective map -/

theorem wf_map_subs [Zero α] [BEq α] (S : Sparse α) (hS : S.WF) (sh : List Nat) (g : List Nat → List Nat)
    (hin : ∀ r ∈ S.subs, InBounds sh (g r)) (hinj : ∀ a ∈ S.subs, ∀ b ∈ S.subs, g a = g b → a = b) :
    (⟨sh, S.subs.map g, S.vals⟩ : Sparse α).WF := by
  refine ⟨by simpa using hS.len, ?_, List.Nodup.map_on hinj hS.nodup, hS.nz⟩
  intro i hi
  simp only [List.mem_map] at hi
  obtain ⟨r, hr, rfl⟩ := hi
  exact hin r hr

theorem reshape_wf_sparse [Add α] [Zero α] [BEq α] (S : Sparse α) (s' : List Nat) (hS : S.WF)
    (hn : numel s' = numel S.shape) : ∃ P, S.reshape s' none = .ok P ∧ P.WF := by
  let g : List Nat → List Nat := fun r =>
    gather r [] ++ ind2sub s' (sub2ind (gather S.shape (List.range S.shape.length))
      (gather r (List.range S.shape.length)))
  refine ⟨⟨s', S.subs.map g, S.vals⟩, ?_, ?_⟩
  · have h1 : (List.range S.shape.length).any (fun x => decide (x ≥ S.shape.length)) = false := by
      rw [List.any_eq_false]; intro x hx; simpa using List.mem_range.1 hx
    have h2 := eraseDups_length_bne_false (List.range S.shape.length) List.nodup_range
    simp only [Sparse.reshape, Option.getD_none, gather_range, hn, bne_self_eq_false,
      Bool.false_eq_true, if_false, h1, h2, gather_nil, List.nil_append, g]
  · apply wf_map_subs S hS
    · intro r hr
      have hrb := hS.inb r hr
      have hlt : sub2ind S.shape r < numel s' := by rw [hn]; exact sub2ind_lt hrb
      simp only [g, gather_nil, List.nil_append, gather_range, gather_range_of_length hrb.length_eq]
      exact ind2sub_inBounds hlt
    · intro a ha b hb hab
      have hab' := hS.inb a ha
      have hbb := hS.inb b hb
      have hla : sub2ind S.shape a < numel s' := by rw [hn]; exact sub2ind_lt hab'
      have hlb : sub2ind S.shape b < numel s' := by rw [hn]; exact sub2ind_lt hbb
      simp only [g, gather_nil, List.nil_append, gather_range, gather_range_of_length hab'.length_eq,
        gather_range_of_length hbb.length_eq] at hab
      exact sub2ind_inj hab' hbb (ind2sub_inj hla hlb hab)

theorem inBounds_dropSingletons {s i : List Nat} (h : InBounds s i) :
    InBounds (s.filter (· > 1)) (dropSingletons s i) := by
  induction s generalizing i with
  | nil => cases i <;> simp_all [InBounds, dropSingletons]
  | cons a s ih =>
    cases i with
    | nil => simp [InBounds] at h
    | cons b i =>
      simp only [InBounds] at h
      rw [dropSingletons_cons, List.filter_cons]
      by_cases ha : a > 1
      · simp only [ha, decide_true, if_true, InBounds]
        exact ⟨h.1, ih h.2⟩
      · simp only [ha, decide_false, if_false, Bool.false_eq_true]
        exact ih h.2

/-- `sptensor.squeeze()` returns a well-formed tensor whenever it returns a tensor. -/
theorem squeeze_wf_sparse [Zero α] [BEq α] (S : Sparse α) (hS : S.WF) :
    match S.squeeze with
    | .ok (.obj P) => P.WF
    | _ => True := by
  by_cases hall : S.shape.all (· > 1) = true
  · have hsq : S.squeeze = .ok (.obj S) := by simp only [Sparse.squeeze, Sparse.squeezeG, hall, if_true]
    rw [hsq]; exact hS
  · have hidx : gather S.shape ((List.range S.shape.length).filter (fun k => S.shape.getD k 0 > 1)) =
        S.shape.filter (· > 1) := by
      rw [gather_nonsingleton_idx S.shape S.shape rfl, dropSingletons_self]
    by_cases hk : ((List.range S.shape.length).filter (fun k => S.shape.getD k 0 > 1)) = []
    · rcases hsv : S.vals with _ | ⟨v, _ | ⟨w, vs⟩⟩ <;>
        simp only [Sparse.squeeze, Sparse.squeezeG, hall, hk, hsv] <;> simp
    · have hsq : S.squeeze = .ok (.obj ⟨gather S.shape ((List.range S.shape.length).filter
          (fun k => S.shape.getD k 0 > 1)), S.subs.map (fun r => gather r ((List.range
          S.shape.length).filter (fun k => S.shape.getD k 0 > 1))), S.vals⟩) := by
        have hk' : ((List.range S.shape.length).filter (fun k => S.shape.getD k 0 > 1)).isEmpty
            = false := by simpa using hk
        simp only [Sparse.squeeze, Sparse.squeezeG, hall, hk', Bool.false_eq_true, if_false]
      rw [hsq]
      simp only
      apply wf_map_subs S hS
      · intro r hr
        have hrb := hS.inb r hr
        rw [gather_nonsingleton_idx S.shape r hrb.length_eq, hidx]
        exact inBounds_dropSingletons hrb
      · intro a ha b hb hab
        have hab' := hS.inb a ha
        have hbb := hS.inb b hb
        rw [gather_nonsingleton_idx S.shape a hab'.length_eq,
          gather_nonsingleton_idx S.shape b hbb.length_eq] at hab
        exact dropSingletons_inj hab' hbb hab

theorem inBounds_zeros {s : List Nat} (hpos : ∀ e ∈ s, 0 < e) : InBounds s (s.map (fun _ => 0)) := by
  induction s with
  | nil => trivial
  | cons a s ih =>
    simp only [List.map_cons, InBounds]
    exact ⟨hpos a (by simp), ih (fun e he => hpos e (by simp [he]))⟩

end Pyttb
