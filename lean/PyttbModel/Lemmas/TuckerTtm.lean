/-
C10 — algebra of the mode-n product over ℝ: entries, commutation of products in distinct
modes, norms through one-mode fibres, orthonormal columns (Bessel, isometry, adjointness).
-/
import PyttbModel.Alg.TuckerAls
import PyttbModel.Lemmas.TuckerSum
namespace Pyttb
namespace Tk
open Finset

/-- Coefficient of a mode product: the factor multiplying entry `a` of the contracted mode
in output index `c` (`U[a,c]` for `transpose=True`, `U[c,a]` otherwise). -/
def coef (U : Mat ℝ) (tr : Bool) (a c : Nat) : ℝ := if tr then U.get a c else U.get c a

/-- Extent of the multiplied mode after the product. -/
def outDim (U : Mat ℝ) (tr : Bool) : Nat := if tr then U.ncols else U.nrows

theorem set_getD_self (l : List Nat) (k : Nat) : l.set k (l.getD k 0) = l := by
  apply List.ext_getElem (by simp)
  intro i h1 h2
  simp only [List.getElem_set]
  split
  · subst_vars; simp [List.getD_eq_getElem?_getD, List.getElem?_eq_getElem (by simpa using h2)]
  · rfl

theorem ttmT_eq (T : Dense ℝ) (U : Mat ℝ) (n : Nat) (tr : Bool) :
    ttmT T U n tr = Dense.ofFn (T.shape.set n (outDim U tr))
      (fun j => ∑ a ∈ range (T.shape.getD n 0), coef U tr a (j.getD n 0) * T.get (j.set n a)) := by
  simp only [ttmT, outDim, coef, list_sum_range]

@[simp] theorem ttmT_shape (T : Dense ℝ) (U : Mat ℝ) (n : Nat) (tr : Bool) :
    (ttmT T U n tr).shape = T.shape.set n (outDim U tr) := by rw [ttmT_eq]; rfl

theorem ttmT_WF (T : Dense ℝ) (U : Mat ℝ) (n : Nat) (tr : Bool) : (ttmT T U n tr).WF := by
  rw [ttmT_eq]; exact Dense.ofFn_WF _ _

theorem ttmT_get (T : Dense ℝ) (U : Mat ℝ) (n : Nat) (tr : Bool) {j : List Nat}
    (hj : InBounds (T.shape.set n (outDim U tr)) j) :
    (ttmT T U n tr).get j = ∑ a ∈ range (T.shape.getD n 0), coef U tr a (j.getD n 0) * T.get (j.set n a) := by
  rw [ttmT_eq, Dense.ofFn_get _ _ hj]

/-- Mode products in distinct modes commute. -/
theorem ttmT_comm (T : Dense ℝ) (A B : Mat ℝ) (m n : Nat) (hmn : m ≠ n) (ta tb : Bool) :
    ttmT (ttmT T A m ta) B n tb = ttmT (ttmT T B n tb) A m ta := by
  rw [ttmT_eq (ttmT T A m ta), ttmT_eq (ttmT T B n tb)]
  simp only [ttmT_shape]
  rw [List.set_comm _ _ (Ne.symm hmn)]
  apply ofFn_congr
  intro j hj
  rw [getD_set_ne hmn, getD_set_ne (Ne.symm hmn)]
  have hA : InBounds ((T.shape.set m (outDim A ta)).set n (outDim B tb)) j := hj
  have hB : InBounds ((T.shape.set n (outDim B tb)).set m (outDim A ta)) j := by
    rw [List.set_comm _ _ (Ne.symm hmn)]; exact hj
  have e1 : ∀ b ∈ range (T.shape.getD n 0), (ttmT T A m ta).get (j.set n b) =
      ∑ a ∈ range (T.shape.getD m 0), coef A ta a (j.getD m 0) * T.get ((j.set n b).set m a) := by
    intro b hb
    have hb' : b < (T.shape.set m (outDim A ta)).getD n 0 := by
      rw [getD_set_ne hmn]; exact Finset.mem_range.1 hb
    have := inBounds_set hA hb'
    rw [set_getD_self] at this
    rw [ttmT_get T A m ta this, getD_set_ne (Ne.symm hmn)]
  have e2 : ∀ a ∈ range (T.shape.getD m 0), (ttmT T B n tb).get (j.set m a) =
      ∑ b ∈ range (T.shape.getD n 0), coef B tb b (j.getD n 0) * T.get ((j.set m a).set n b) := by
    intro a ha
    have ha' : a < (T.shape.set n (outDim B tb)).getD m 0 := by
      rw [getD_set_ne (Ne.symm hmn)]; exact Finset.mem_range.1 ha
    have := inBounds_set hB ha'
    rw [set_getD_self] at this
    rw [ttmT_get T B n tb this, getD_set_ne hmn]
  have L : ∑ b ∈ range (T.shape.getD n 0), coef B tb b (j.getD n 0) * (ttmT T A m ta).get (j.set n b) =
      ∑ b ∈ range (T.shape.getD n 0), ∑ a ∈ range (T.shape.getD m 0),
        coef B tb b (j.getD n 0) * (coef A ta a (j.getD m 0) * T.get ((j.set n b).set m a)) := by
    apply Finset.sum_congr rfl
    intro b hb
    rw [e1 b hb, Finset.mul_sum]
  have R : ∑ a ∈ range (T.shape.getD m 0), coef A ta a (j.getD m 0) * (ttmT T B n tb).get (j.set m a) =
      ∑ a ∈ range (T.shape.getD m 0), ∑ b ∈ range (T.shape.getD n 0),
        coef A ta a (j.getD m 0) * (coef B tb b (j.getD n 0) * T.get ((j.set m a).set n b)) := by
    apply Finset.sum_congr rfl
    intro a ha
    rw [e2 a ha, Finset.mul_sum]
  rw [L, R, Finset.sum_comm]
  apply Finset.sum_congr rfl
  intro a _
  apply Finset.sum_congr rfl
  intro b _
  rw [List.set_comm _ _ (Ne.symm hmn)]
  ring

/-! ### norms -/

theorem normSq_eq (T : Dense ℝ) (h : T.WF) : normSq T = sumSubs T.shape (fun j => T.get j * T.get j) := by
  rw [normSq]
  conv_lhs => rw [Dense.data_eq_map_get T h]
  rw [List.map_map]
  exact sum_allSubs _ _

theorem normSq_nonneg (T : Dense ℝ) (h : T.WF) : 0 ≤ normSq T := by
  rw [normSq_eq T h]; exact sumSubs_nonneg fun j => mul_self_nonneg _

/-- The squared norm through the mode-`k` fibres. -/
theorem normSq_split (T : Dense ℝ) (h : T.WF) (k : Nat) (hk : k < T.shape.length) :
    normSq T = sumSubs (T.shape.set k 1)
      (fun j0 => ∑ a ∈ range (T.shape.getD k 0), T.get (j0.set k a) ^ 2) := by
  rw [normSq_eq T h, sumSubs_split _ k hk]
  simp only [pow_two]

theorem getD_set_list {j0 : List Nat} {s : List Nat} {k c x : Nat} (h : InBounds (s.set k x) j0) (hk : k < s.length) :
    (j0.set k c).getD k 0 = c := by
  have hl := h.length_eq
  simp only [List.length_set] at hl
  exact getD_set_self (by omega)

/-- The squared norm of a mode product through the mode-`k` fibres of the operand. -/
theorem normSq_ttmT (T : Dense ℝ) (U : Mat ℝ) (k : Nat) (tr : Bool) (hk : k < T.shape.length) :
    normSq (ttmT T U k tr) = sumSubs (T.shape.set k 1) (fun j0 => ∑ c ∈ range (outDim U tr),
      (∑ a ∈ range (T.shape.getD k 0), coef U tr a c * T.get (j0.set k a)) ^ 2) := by
  have hk' : k < (ttmT T U k tr).shape.length := by simpa using hk
  rw [normSq_split _ (ttmT_WF T U k tr) k hk']
  simp only [ttmT_shape, List.set_set, getD_set_self hk]
  apply sumSubs_congr
  intro j0 hj0
  apply Finset.sum_congr rfl
  intro c hc
  have hin : InBounds (T.shape.set k (outDim U tr)) (j0.set k c) := inBounds_set hj0 (Finset.mem_range.1 hc)
  rw [ttmT_get T U k tr hin, getD_set_list hj0 hk]
  simp only [List.set_set]

/-! ### matrices with orthonormal columns -/

/-- `U` is an `m × p` matrix with orthonormal columns. -/
structure OrthoCols (U : Mat ℝ) (m p : Nat) : Prop where
  rows : U.length = m
  cols : ∀ row ∈ U, row.length = p
  orth : ∀ c < p, ∀ c' < p, ∑ a ∈ range m, U.get a c * U.get a c' = if c = c' then 1 else 0

theorem OrthoCols.nrows {U : Mat ℝ} {m p : Nat} (h : OrthoCols U m p) : U.nrows = m := h.rows

theorem OrthoCols.ncols {U : Mat ℝ} {m p : Nat} (h : OrthoCols U m p) : U.ncols = p := by
  unfold Mat.ncols
  cases U with
  | nil =>
    have hm : m = 0 := by simpa using h.rows.symm
    subst hm
    by_contra hp
    have hp' : 0 < p := by
      rcases Nat.eq_zero_or_pos p with h0 | h0
      · exact absurd (by simp [h0]) hp
      · exact h0
    have := h.orth 0 hp' 0 hp'
    simp at this
  | cons r U => simpa using h.cols r (by simp)

/-- Isometry: `Σ_a (Σ_c U[a,c] y_c)² = Σ_c y_c²`. -/
theorem OrthoCols.isometry {U : Mat ℝ} {m p : Nat} (h : OrthoCols U m p) (y : Nat → ℝ) :
    ∑ a ∈ range m, (∑ c ∈ range p, U.get a c * y c) ^ 2 = ∑ c ∈ range p, y c ^ 2 := by
  have e : ∀ a, (∑ c ∈ range p, U.get a c * y c) ^ 2 =
      ∑ c ∈ range p, ∑ c' ∈ range p, (U.get a c * U.get a c') * (y c * y c') := by
    intro a
    rw [pow_two, Finset.sum_mul_sum]
    apply Finset.sum_congr rfl; intro c _
    apply Finset.sum_congr rfl; intro c' _
    ring
  simp only [e]
  rw [Finset.sum_comm]
  apply Finset.sum_congr rfl
  intro c hc
  rw [Finset.sum_comm]
  have : ∀ c' ∈ range p, ∑ a ∈ range m, U.get a c * U.get a c' * (y c * y c') =
      (if c = c' then 1 else 0) * (y c * y c') := by
    intro c' hc'
    rw [← Finset.sum_mul, h.orth c (Finset.mem_range.1 hc) c' (Finset.mem_range.1 hc')]
  rw [Finset.sum_congr rfl this]
  simp only [ite_mul, one_mul, zero_mul]
  rw [Finset.sum_ite_eq]
  simp only [hc, if_true]
  ring

/-- Bessel: `Σ_c (Σ_a U[a,c] x_a)² ≤ Σ_a x_a²`. -/
theorem OrthoCols.bessel {U : Mat ℝ} {m p : Nat} (h : OrthoCols U m p) (x : Nat → ℝ) :
    ∑ c ∈ range p, (∑ a ∈ range m, U.get a c * x a) ^ 2 ≤ ∑ a ∈ range m, x a ^ 2 := by
  set y : Nat → ℝ := fun c => ∑ a ∈ range m, U.get a c * x a with hy
  have hz := h.isometry y
  have cross : ∑ a ∈ range m, x a * (∑ c ∈ range p, U.get a c * y c) = ∑ c ∈ range p, y c ^ 2 := by
    simp only [Finset.mul_sum]
    rw [Finset.sum_comm]
    apply Finset.sum_congr rfl
    intro c _
    have : ∑ a ∈ range m, x a * (U.get a c * y c) = (∑ a ∈ range m, U.get a c * x a) * y c := by
      rw [Finset.sum_mul]; apply Finset.sum_congr rfl; intro a _; ring
    rw [this, pow_two]
  have nn : 0 ≤ ∑ a ∈ range m, (x a - ∑ c ∈ range p, U.get a c * y c) ^ 2 :=
    Finset.sum_nonneg fun a _ => sq_nonneg _
  have ex : ∑ a ∈ range m, (x a - ∑ c ∈ range p, U.get a c * y c) ^ 2 =
      ∑ a ∈ range m, x a ^ 2 - 2 * ∑ a ∈ range m, x a * (∑ c ∈ range p, U.get a c * y c)
        + ∑ a ∈ range m, (∑ c ∈ range p, U.get a c * y c) ^ 2 := by
    rw [Finset.mul_sum, ← Finset.sum_sub_distrib, ← Finset.sum_add_distrib]
    apply Finset.sum_congr rfl; intro a _; ring
  rw [ex, cross, hz] at nn
  linarith

/-! ### one mode: contraction, isometry, adjointness -/

/-- Multiplying a mode by the transpose of a matrix with orthonormal columns does not
increase the norm. -/
theorem normSq_ttmT_le (T : Dense ℝ) (hT : T.WF) (U : Mat ℝ) (k p : Nat) (hk : k < T.shape.length)
    (hU : OrthoCols U (T.shape.getD k 0) p) : normSq (ttmT T U k true) ≤ normSq T := by
  rw [normSq_ttmT T U k true hk, normSq_split T hT k hk]
  apply sumSubs_le
  intro j0 _
  have : outDim U true = p := by simp [outDim, hU.ncols]
  rw [this]
  simpa [coef] using hU.bessel (fun a => T.get (j0.set k a))

/-- Multiplying a mode (of extent `p`) by a matrix with `p` orthonormal columns keeps the norm. -/
theorem normSq_ttmT_iso (T : Dense ℝ) (hT : T.WF) (U : Mat ℝ) (k m : Nat) (hk : k < T.shape.length)
    (hU : OrthoCols U m (T.shape.getD k 0)) : normSq (ttmT T U k false) = normSq T := by
  rw [normSq_ttmT T U k false hk, normSq_split T hT k hk]
  apply sumSubs_congr
  intro j0 _
  have : outDim U false = m := by simp [outDim, hU.nrows]
  rw [this]
  simpa [coef] using hU.isometry (fun a => T.get (j0.set k a))

/-- Inner product of two tensors over the subscripts of shape `s`. -/
def ipS (s : List Nat) (A B : Dense ℝ) : ℝ := sumSubs s (fun j => A.get j * B.get j)

theorem ipS_self (T : Dense ℝ) (hT : T.WF) : ipS T.shape T T = normSq T := (normSq_eq T hT).symm

/-- Adjointness in one mode: `⟨A, B ×ₖ U⟩ = ⟨A ×ₖ Uᵀ, B⟩`. -/
theorem ipS_adjoint (A B : Dense ℝ) (U : Mat ℝ) (k : Nat) (hk : k < A.shape.length)
    (hrows : U.nrows = A.shape.getD k 0) (hB : B.shape = A.shape.set k U.ncols) :
    ipS A.shape A (ttmT B U k false) = ipS (A.shape.set k U.ncols) (ttmT A U k true) B := by
  have hkB : k < (A.shape.set k U.ncols).length := by simpa using hk
  unfold ipS
  rw [sumSubs_split _ k hk, sumSubs_split _ k hkB]
  simp only [List.set_set, getD_set_self hk]
  apply sumSubs_congr
  intro j0 hj0
  have eL : ∀ a ∈ range (A.shape.getD k 0), (ttmT B U k false).get (j0.set k a) =
      ∑ c ∈ range U.ncols, U.get a c * B.get (j0.set k c) := by
    intro a ha
    have hin : InBounds (B.shape.set k (outDim U false)) (j0.set k a) := by
      rw [hB, List.set_set]
      simp only [outDim, hrows, Bool.false_eq_true, if_false]
      exact inBounds_set hj0 (Finset.mem_range.1 ha)
    rw [ttmT_get B U k false hin, getD_set_list hj0 hk, hB, getD_set_self hk]
    simp only [coef, List.set_set, Bool.false_eq_true, if_false]
  have eR : ∀ c ∈ range U.ncols, (ttmT A U k true).get (j0.set k c) =
      ∑ a ∈ range (A.shape.getD k 0), U.get a c * A.get (j0.set k a) := by
    intro c hc
    have hin : InBounds (A.shape.set k (outDim U true)) (j0.set k c) := by
      simp only [outDim, if_true]
      exact inBounds_set hj0 (Finset.mem_range.1 hc)
    rw [ttmT_get A U k true hin, getD_set_list hj0 hk]
    simp only [coef, List.set_set, if_true]
  have L : ∑ a ∈ range (A.shape.getD k 0), A.get (j0.set k a) * (ttmT B U k false).get (j0.set k a) =
      ∑ a ∈ range (A.shape.getD k 0), ∑ c ∈ range U.ncols,
        A.get (j0.set k a) * (U.get a c * B.get (j0.set k c)) := by
    apply Finset.sum_congr rfl
    intro a ha
    rw [eL a ha, Finset.mul_sum]
  have R : ∑ c ∈ range U.ncols, (ttmT A U k true).get (j0.set k c) * B.get (j0.set k c) =
      ∑ c ∈ range U.ncols, ∑ a ∈ range (A.shape.getD k 0),
        (U.get a c * A.get (j0.set k a)) * B.get (j0.set k c) := by
    apply Finset.sum_congr rfl
    intro c hc
    rw [eR c hc, Finset.sum_mul]
  rw [L, R, Finset.sum_comm]
  apply Finset.sum_congr rfl; intro c _
  apply Finset.sum_congr rfl; intro a _
  ring

/-! ### differences -/

theorem dsub_ok {A B : Dense ℝ} (h : A.shape = B.shape) :
    dsub A B = .ok ⟨A.shape, List.zipWith (· - ·) A.data B.data⟩ := by
  simp [dsub, h]

theorem dsub_get {A B E : Dense ℝ} (hA : A.WF) (hB : B.WF) (h : dsub A B = .ok E) :
    E.shape = A.shape ∧ E.WF ∧ ∀ j, InBounds A.shape j → E.get j = A.get j - B.get j := by
  unfold dsub at h
  split at h
  · rename_i hs
    have hs' : A.shape = B.shape := by simpa using hs
    injection h with h
    subst h
    refine ⟨rfl, ?_, ?_⟩
    · simp only [Dense.WF, List.length_zipWith]
      have hB' : B.data.length = numel A.shape := by rw [hs']; exact hB
      have hA' : A.data.length = numel A.shape := hA
      rw [hA', hB']; simp
    · intro j hj
      have hlt : sub2ind A.shape j < numel A.shape := sub2ind_lt hj
      simp only [Dense.get]
      have h1 : sub2ind A.shape j < A.data.length := by rw [hA]; exact hlt
      have h2 : sub2ind A.shape j < B.data.length := by rw [hB, ← hs']; exact hlt
      rw [← hs']
      simp [List.getD_eq_getElem?_getD, List.getElem?_zipWith, List.getElem?_eq_getElem h1,
        List.getElem?_eq_getElem h2]
  · exact absurd h (by simp)

/-- `‖A − B‖² = ‖A‖² − 2⟨A,B⟩ + ‖B‖²`. -/
theorem normSq_dsub {A B E : Dense ℝ} (hA : A.WF) (hB : B.WF) (hs : A.shape = B.shape) (h : dsub A B = .ok E) :
    normSq E = normSq A - 2 * ipS A.shape A B + normSq B := by
  obtain ⟨hE, hEw, hg⟩ := dsub_get hA hB h
  rw [normSq_eq E hEw, normSq_eq A hA, normSq_eq B hB, hE, ← hs]
  unfold ipS
  rw [← sumSubs_mul_left, ← sumSubs_sub, ← sumSubs_add]
  apply sumSubs_congr
  intro j hj
  rw [hg j hj]
  ring

end Tk
end Pyttb
