/-
C02 — dense `ttm` for one mode: permute the mode first, reshape, matmul, reshape, permute back.
-/
import PyttbModel.Lemmas.MLDenseTtv
namespace Pyttb
namespace ML

variable {α : Type}

/-- The modes other than `n`, increasing. -/
def others (N n : Nat) : List Nat := (List.range N).filter (· != n)

theorem others_eq_compl (N n : Nat) : others N n = complDims N [n] := by
  unfold others complDims
  apply List.filter_congr
  intro k _
  by_cases h : k = n <;> simp [h]

theorem isPermOf_mode_first (N n : Nat) (hn : n < N) : isPermOf (n :: others N n) N = true := by
  have h := isPermOf_compl_append N [n] (by simp) (by simpa using hn)
  rw [← others_eq_compl] at h
  rw [isPermOf_iff_perm] at h ⊢
  exact h.trans (List.perm_append_singleton n (others N n))

theorem getD_set_eq' (l : List Nat) (n x : Nat) (h : n < l.length) : (l.set n x).getD n 0 = x := by
  simp [List.getD_eq_getElem?_getD, h]

theorem getD_set_ne' (l : List Nat) (n m x : Nat) (h : n ≠ m) : (l.set n x).getD m 0 = l.getD m 0 := by
  simp [List.getD_eq_getElem?_getD, List.getElem?_set_ne h]

/-- Gathering a list with one entry replaced, mode `n` first. -/
theorem gather_set_mode_first (l : List Nat) (N n x : Nat) (hn : n < l.length) :
    gather (l.set n x) (n :: others N n) = x :: gather l (others N n) := by
  rw [gather_cons, getD_set_eq' l n x hn]
  congr 1
  apply gather_congr
  intro k hk
  have : k ≠ n := by
    have := (List.mem_filter.1 hk).2
    simpa using this
  exact getD_set_ne' l n k x (fun h => this h.symm)

theorem gather_self_mode_first (l : List Nat) (N n : Nat) :
    gather l (n :: others N n) = l.getD n 0 :: gather l (others N n) := rfl

/-- Un-permuting `x :: i[others]` puts `x` at position `n`. -/
theorem unperm_mode_first (l : List Nat) (N n x : Nat) (hl : l.length = N) (hn : n < N) :
    gather (x :: gather l (others N n)) (invPerm (n :: others N n)) = l.set n x := by
  rw [← gather_set_mode_first l N n x (by omega)]
  exact gather_gather_invPerm (isPermOf_mode_first N n hn) (by simp [hl])

theorem inBounds_set {s i : List Nat} (h : InBounds s i) (n p x : Nat) (hx : x < p) :
    InBounds (s.set n p) (i.set n x) := by
  induction s generalizing i n with
  | nil => cases i <;> simp_all [InBounds]
  | cons a s ih =>
    cases i with
    | nil => simp [InBounds] at h
    | cons b i =>
      cases n with
      | zero => simp only [List.set_cons_zero, InBounds] at h ⊢; exact ⟨hx, h.2⟩
      | succ n => simp only [List.set_cons_succ, InBounds] at h ⊢; exact ⟨h.1, ih h.2 n⟩

theorem set_getD_self (l : List Nat) (n : Nat) : l.set n (l.getD n 0) = l := by
  apply List.ext_getElem
  · simp
  · intro k h1 h2
    by_cases h : n = k
    · subst h; simp [List.getD_eq_getElem?_getD, List.getElem?_eq_getElem (by simpa using h1)]
    · simp [List.getElem_set_ne h]

theorem set_set (l : List Nat) (n x y : Nat) : (l.set n x).set n y = l.set n y := by
  simp [List.set_set]

/-- **Dense single-mode `ttm`**: `Y[i] = Σ_k M_eff[i_n, k] · X[i with i_n ↦ k]`, the mode-`n`
extent replaced by the number of rows of the effective matrix (`Mᵀ` when the flag is set). -/
theorem dense_ttmMode_spec [CommSemiring α] (T : Dense α) (hT : T.WF) (M : Mat α) (p q n : Nat) (tr : Bool)
    (hn : n < T.shape.length) (hsz : (if tr then p else q) = T.shape.getD n 0) :
    ∃ Y, T.ttmMode M p q n tr = .ok Y ∧ Y.WF ∧ Y.shape = T.shape.set n (if tr then q else p) ∧
      ∀ i, InBounds Y.shape i → Y.get i = sumRange (T.shape.getD n 0) fun k =>
        (if tr then M.get k (i.getD n 0) else M.get (i.getD n 0) k) * T.get (i.set n k) := by
  set N := T.shape.length with hN
  set sn := T.shape.getD n 0 with hsn
  set order := n :: others N n with hord
  set pp := (if tr then q else p) with hpp
  have hperm : isPermOf order N = true := isPermOf_mode_first N n hn
  have hpermute : T.permute order = .ok (T.transpose order) := Dense.permute_ok T hT order hperm
  set oshape := gather T.shape (others N n) with hos
  set rest := numel oshape with hrest
  set P := T.transpose order with hP
  have hPshape : P.shape = sn :: oshape := rfl
  set X := reshape2 P.data sn rest with hX
  set Y : Mat α := (if tr then (M.tr p q).mulD X q sn rest else M.mulD X p sn rest) with hY
  set newshape := pp :: oshape with hns
  set Yd : Dense α := ⟨newshape, Y.flatF pp rest⟩ with hYd
  have hres : T.ttmMode M p q n tr = .ok (Yd.transpose (invPerm order)) := by
    unfold Dense.ttmMode
    have g0 : ¬ (n ≥ N) := by omega
    have g1 : ((if tr then p else q) != sn) = false := by rw [hsz]; exact bne_self_eq_false _
    simp only [← hN, g0, if_false, ← hsn]
    have hpermute' : T.permute (n :: List.filter (fun x => x != n) (List.range N)) = .ok P := hpermute
    rw [hpermute']
    simp only [g1, Bool.false_eq_true, if_false]
    rfl
  have hshape : gather newshape (invPerm order) = T.shape.set n pp := by
    have h1 : gather (T.shape.set n pp) order = newshape := gather_set_mode_first T.shape N n pp hn
    rw [← h1]
    exact gather_gather_invPerm hperm (by simp [hN])
  have hinv : isPermOf (invPerm order) N = true := isPermOf_invPerm hperm
  refine ⟨_, hres, Dense.transpose_WF_c01 _ _, hshape, ?_⟩
  intro i hi
  rw [Dense.transpose_shape_c01] at hi
  have hi2 : InBounds (T.shape.set n pp) i := hshape ▸ hi
  have hil : i.length = N := by rw [hi2.length_eq]; simp [hN]
  have hin : i.getD n 0 < pp := by
    have := hi2.getD_lt (k := n) (by simpa using hn)
    rwa [getD_set_eq' T.shape n pp hn] at this
  have hio : InBounds oshape (gather i (others N n)) := by
    have h1 := hi2.gather (idx := others N n) (by
      intro k hk
      simp only [List.length_set]
      exact List.mem_range.1 (List.mem_filter.1 hk).1)
    have h2 : gather (T.shape.set n pp) (others N n) = oshape := by
      apply gather_congr
      intro k hk
      have : k ≠ n := by simpa using (List.mem_filter.1 hk).2
      exact getD_set_ne' T.shape n k pp (fun h => this h.symm)
    rwa [h2] at h1
  set b := sub2ind oshape (gather i (others N n)) with hb
  have hbl : b < rest := sub2ind_lt hio
  rw [Dense.transpose_get_c01 _ _ _ hi, invPerm_invPerm hperm, gather_self_mode_first]
  -- entry of the F-reshaped product
  have hYdget : Yd.get (i.getD n 0 :: gather i (others N n)) = Y.get (i.getD n 0) b := by
    show (Y.flatF pp rest).getD (sub2ind (pp :: oshape) (i.getD n 0 :: gather i (others N n))) 0 = _
    simp only [sub2ind]
    exact flatF_getD Y pp rest _ _ hin hbl
  rw [hYdget]
  -- entry of the reshaped, permuted operand
  have hXget : ∀ c, c < sn → X.get c b = T.get (i.set n c) := by
    intro c hc
    rw [hX, reshape2_get _ _ _ _ _ hc hbl]
    have h1 : P.data.getD (c + sn * b) 0 = P.get (c :: gather i (others N n)) := by
      show _ = P.data.getD (sub2ind P.shape (c :: gather i (others N n))) 0
      rw [hPshape]; rfl
    rw [h1, hP, Dense.transpose_get_c01 T order _ (by
      show InBounds (gather T.shape order) (c :: gather i (others N n))
      rw [gather_self_mode_first]
      exact ⟨hc, hio⟩)]
    rw [unperm_mode_first i N n c hil hn]
  cases tr with
  | true =>
    have hin' : i.getD n 0 < q := hin
    have hsz' : p = sn := hsz
    show ((M.tr p q).mulD X q sn rest).get (i.getD n 0) b = _
    rw [mulD_get _ _ _ _ _ _ _ hin' hbl]
    apply sumRange_congr
    intro c hc
    rw [hXget c hc, tr_get M p q c (i.getD n 0) (by omega) hin']
    rfl
  | false =>
    have hin' : i.getD n 0 < p := hin
    show (M.mulD X p sn rest).get (i.getD n 0) b = _
    rw [mulD_get _ _ _ _ _ _ _ hin' hbl]
    apply sumRange_congr
    intro c hc
    rw [hXget c hc]
    rfl

end ML
end Pyttb
