/-
C15, dense helpers: entries of a transposed tensor, of element-wise sums / quotients / maxima,
a tensor invariant under an order is its own transpose, and what the argument checks of
`symmetrize` / `issymmetric` accept.
-/
import PyttbModel.Lemmas.SymSpec
namespace Pyttb
namespace Sym
open List

variable {α : Type}

/-! ### transposition -/

theorem transpose_get' [Zero α] (T : Dense α) (p : List Nat) {j : List Nat}
    (hj : InBounds (gather T.shape p) j) : (T.transpose p).get j = permutedAt T p j :=
  Dense.ofFn_get _ _ hj

theorem transpose_WF' [Zero α] (T : Dense α) (p : List Nat) : (T.transpose p).WF := Dense.ofFn_WF _ _

theorem transpose_range' [Zero α] (T : Dense α) (hT : T.WF) :
    T.transpose (List.range T.shape.length) = T := by
  apply Dense.ext_get (transpose_WF' _ _) hT
  · show gather T.shape (List.range T.shape.length) = T.shape
    rw [gather_range]
  · intro i hi
    rw [transpose_get' _ _ hi]
    unfold permutedAt
    have hi' : InBounds T.shape i := by
      have : (T.transpose (List.range T.shape.length)).shape = T.shape := gather_range _
      rwa [this] at hi
    rw [invPerm_range, gather_range_of_length hi'.length_eq]

/-- for a well-formed tensor and a permutation, `permute` is the transposition. -/
theorem permute_eq_transpose' [Zero α] (T : Dense α) (p : List Nat) (hT : T.WF)
    (hp : isPermOf p T.shape.length = true) : T.permute p = .ok (T.transpose p) := by
  have hl := isPermOf_length_eq hp
  by_cases hne : p = []
  · subst hne
    have h0 : T.shape.length = 0 := by simpa using hl.symm
    have : T.transpose [] = T := by
      have := transpose_range' T hT
      rwa [h0] at this
    rw [this]
    simp [Dense.permute, Dense.permuteG, h0]
  · have h1 : (T.shape.length != p.length) = false := by simp [hl]
    have h2 : p.isEmpty = false := by simpa using hne
    simp [Dense.permute, Dense.permuteG, h1, h2, hp]

/-- a tensor is its own transpose under an order iff the order keeps shape and entries. -/
theorem transpose_eq_self_iff [Zero α] (T : Dense α) (hT : T.WF) (p : List Nat) :
    T.transpose p = T ↔
      gather T.shape p = T.shape ∧ ∀ j, InBounds T.shape j → permutedAt T p j = T.get j := by
  constructor
  · intro h
    have hs : gather T.shape p = T.shape := by
      have := congrArg Dense.shape h
      exact this
    refine ⟨hs, ?_⟩
    intro j hj
    have hj' : InBounds (gather T.shape p) j := by rw [hs]; exact hj
    rw [← transpose_get' T p hj', h]
  · rintro ⟨hs, he⟩
    apply Dense.ext_get (transpose_WF' _ _) hT hs
    intro j hj
    rw [transpose_get' T p hj]
    apply he
    have : (T.transpose p).shape = T.shape := hs
    rwa [this] at hj

theorem isSym_iff_transpose [Zero α] (T : Dense α) (hT : T.WF) (grps : List (List Nat)) :
    IsSym T grps ↔ ∀ p, GroupPerm grps T.shape.length p → T.transpose p = T := by
  unfold IsSym
  constructor
  · intro h p hp; exact (transpose_eq_self_iff T hT p).2 (h p hp)
  · intro h p hp; exact (transpose_eq_self_iff T hT p).1 (h p hp)

/-! ### element-wise operations -/

theorem getD_zipWith' {β γ δ : Type} (f : β → γ → δ) (a : List β) (b : List γ) (k : Nat) (da : β) (db : γ)
    (dd : δ) (ha : k < a.length) (hb : k < b.length) :
    (List.zipWith f a b).getD k dd = f (a.getD k da) (b.getD k db) := by
  simp [List.getD_eq_getElem?_getD, List.getElem?_zipWith, ha, hb]

theorem idx_lt_of_WF {T : Dense α} (hT : T.WF) {j : List Nat} (hj : InBounds T.shape j) :
    sub2ind T.shape j < T.data.length := by
  rw [hT]; exact sub2ind_lt hj

theorem zerosD_WF [Zero α] (s : List Nat) : (zerosD s : Dense α).WF := by
  simp [Dense.WF, zerosD]

theorem zerosD_get [Zero α] (s j : List Nat) : (zerosD s : Dense α).get j = 0 := by
  simp only [Dense.get, zerosD, List.getD_eq_getElem?_getD]
  cases h : (replicate (numel s) (0 : α))[sub2ind s j]? with
  | none => rfl
  | some v =>
    have := List.mem_of_getElem? h
    simp only [mem_replicate] at this
    simp [this.2]

theorem addD_WF [Add α] {A B : Dense α} (hA : A.WF) (hB : B.WF) (hs : A.shape = B.shape) : (addD A B).WF := by
  simp only [Dense.WF, addD, length_zipWith] at *
  rw [hA, hB, hs]; simp

theorem addD_get [Add α] [Zero α] {A B : Dense α} (hA : A.WF) (hB : B.WF) (hs : A.shape = B.shape)
    {j : List Nat} (hj : InBounds A.shape j) : (addD A B).get j = A.get j + B.get j := by
  have hjB : InBounds B.shape j := by rw [← hs]; exact hj
  have h2 := idx_lt_of_WF hB hjB
  simp only [Dense.get, addD]
  rw [← hs] at h2 ⊢
  exact getD_zipWith' _ _ _ _ 0 0 0 (idx_lt_of_WF hA hj) h2

theorem maxD_self [LinearOrder α] (A : Dense α) : maxD A A = A := by
  cases A with
  | mk s d =>
    simp only [maxD]
    congr 1
    induction d with
    | nil => rfl
    | cons x xs ih => simp

theorem divNatD_WF [Div α] [NatCast α] {A : Dense α} (hA : A.WF) (k : Nat) : (divNatD A k).WF := by
  simpa [Dense.WF, divNatD] using hA

theorem divNatD_get [Div α] [NatCast α] [Zero α] {A : Dense α} (hA : A.WF) (k : Nat)
    {j : List Nat} (hj : InBounds A.shape j) : (divNatD A k).get j = A.get j / (k : α) := by
  have hlt := idx_lt_of_WF hA hj
  simp [Dense.get, divNatD, List.getD_eq_getElem?_getD, hlt]

/-! ### what the argument checks accept -/

/-- every listed mode exists. -/
def InRangeAll (n : Nat) (grps : List (List Nat)) : Prop := ∀ g ∈ grps, ∀ m ∈ g, m < n

/-- no two groups share a mode. -/
def NoOverlap (grps : List (List Nat)) : Prop := grps.Pairwise (fun g h => ∀ m, m ∈ g → ¬ m ∈ h)

theorem inRange_all_iff (n : Nat) (grps : List (List Nat)) :
    grps.all (inRange n) = true ↔ InRangeAll n grps := by
  simp [InRangeAll, inRange, List.all_eq_true]

theorem sameSizes_iff (s g : List Nat) :
    sameSizes s g = true ↔ ∀ a ∈ g, ∀ b ∈ g, s.getD a 0 = s.getD b 0 := by
  simp only [sameSizes, List.all_eq_true, beq_iff_eq]
  constructor
  · intro h a ha b hb; rw [h a ha, h b hb]
  · intro h m hm
    cases g with
    | nil => simp at hm
    | cons x xs => exact h m hm x mem_cons_self

theorem sameSizes_all_iff (s : List Nat) (grps : List (List Nat)) :
    grps.all (sameSizes s) = true ↔ SizesOK s grps := by
  simp only [List.all_eq_true, sameSizes_iff, SizesOK]

theorem overlapping_eq_false_iff (grps : List (List Nat)) : overlapping grps = false ↔ NoOverlap grps := by
  induction grps with
  | nil => simp [overlapping, NoOverlap]
  | cons g gs ih =>
    simp only [overlapping, Bool.or_eq_false_iff, NoOverlap, pairwise_cons]
    rw [ih]
    simp only [NoOverlap]
    constructor
    · rintro ⟨h1, h2⟩
      refine ⟨?_, h2⟩
      intro h hh m hm hmh
      have : gs.any (fun h => h.any g.contains) = true := by
        rw [List.any_eq_true]
        exact ⟨h, hh, by rw [List.any_eq_true]; exact ⟨m, hmh, by simpa using hm⟩⟩
      rw [h1] at this; exact Bool.false_ne_true this
    · rintro ⟨h1, h2⟩
      refine ⟨?_, h2⟩
      rw [List.any_eq_false]
      intro h hh
      rw [Bool.not_eq_true, List.any_eq_false]
      intro m hm
      simp only [List.contains_iff_mem]
      exact fun hmg => h1 h hh m hmg hm

theorem rest_overlap_false_iff (g : List Nat) (gs : List (List Nat)) :
    gs.any (fun h => h.any g.contains) = false ↔ ∀ h ∈ gs, ∀ m, m ∈ g → ¬ m ∈ h := by
  constructor
  · intro h1 h hh m hm hmh
    have : gs.any (fun h => h.any g.contains) = true := by
      rw [List.any_eq_true]
      exact ⟨h, hh, by rw [List.any_eq_true]; exact ⟨m, hmh, by simpa using hm⟩⟩
    rw [h1] at this; exact Bool.false_ne_true this
  · intro h1
    rw [List.any_eq_false]
    intro h hh
    rw [Bool.not_eq_true, List.any_eq_false]
    intro m hm
    simp only [List.contains_iff_mem]
    exact fun hmg => h1 h hh m hmg hm

theorem distinct_iff (g : List Nat) : distinct g = true ↔ g.Nodup := by
  induction g with
  | nil => simp [distinct]
  | cons a l ih => simp [distinct, ih]

/-- the argument check made before anything else: every group lists distinct modes of the tensor. -/
theorem groupsCheck_iff (n : Nat) (grps : List (List Nat)) :
    groupsCheck n grps = true ↔ ∀ g ∈ grps, g.Nodup ∧ ∀ m ∈ g, m < n := by
  simp only [groupsCheck, List.all_eq_true, Bool.and_eq_true, distinct_iff, inRange, decide_eq_true_eq]
  constructor
  · intro h g hg; exact ⟨(h g hg).2, (h g hg).1⟩
  · intro h g hg; exact ⟨(h g hg).2, (h g hg).1⟩

theorem ValidGroups.groupsCheck {n : Nat} {grps : List (List Nat)} (V : ValidGroups n grps) :
    groupsCheck n grps = true := (groupsCheck_iff n grps).2 V.1

theorem symmetrize_of_check [Add α] [Zero α] [One α] [Div α] [NatCast α] [Max α] [BEq α] (T : Dense α)
    (grps : List (List Nat)) (v : Bool) (h : groupsCheck T.shape.length grps = true) :
    Sym.symmetrize T (some grps) v = if v = true then symmetrizeOld T grps else symmetrizeNewGo T grps := by
  simp only [Sym.symmetrize, Option.getD_some, h, Bool.not_true, Bool.false_eq_true, if_false]

theorem symmetrize_reject_of_check [Add α] [Zero α] [One α] [Div α] [NatCast α] [Max α] [BEq α] (T : Dense α)
    (grps : List (List Nat)) (v : Bool) (h : groupsCheck T.shape.length grps = false) :
    Sym.symmetrize T (some grps) v = .error .reject := by
  simp only [Sym.symmetrize, Option.getD_some, h, Bool.not_false, if_true]

theorem issymmetric_new_of_check [Sub α] [Neg α] [LT α] [DecidableLT α] [Zero α] [Max α] [BEq α] (T : Dense α)
    (grps : List (List Nat)) (v d : Bool) (h : groupsCheck T.shape.length grps = true)
    (hnew : (!v && !d) = true) {b : Bool} (hb : issymmetricNewGo T grps = .ok b) :
    Sym.issymmetric T (some grps) v d = .ok (.plain b) := by
  simp only [Sym.issymmetric, Option.getD_some, h, Bool.not_true, Bool.false_eq_true, if_false, hnew,
    if_true, hb]

theorem issymmetric_old_of_check [Sub α] [Neg α] [LT α] [DecidableLT α] [Zero α] [Max α] [BEq α] (T : Dense α)
    (grps : List (List Nat)) (v d : Bool) (h : groupsCheck T.shape.length grps = true)
    (hnew : ¬ (!v && !d) = true) :
    Sym.issymmetric T (some grps) v d = issymmetricOld T grps d := by
  simp only [Sym.issymmetric, Option.getD_some, h, Bool.not_true, Bool.false_eq_true, if_false, hnew]

theorem issymmetric_reject_of_check [Sub α] [Neg α] [LT α] [DecidableLT α] [Zero α] [Max α] [BEq α]
    (T : Dense α) (grps : List (List Nat)) (v d : Bool) (h : groupsCheck T.shape.length grps = false) :
    Sym.issymmetric T (some grps) v d = .error .reject := by
  simp only [Sym.issymmetric, Option.getD_some, h, Bool.not_false, if_true]

theorem ValidGroups.inRangeAll {n : Nat} {grps : List (List Nat)} (V : ValidGroups n grps) :
    InRangeAll n grps := fun g hg => (V.1 g hg).2

theorem ValidGroups.noOverlap {n : Nat} {grps : List (List Nat)} (V : ValidGroups n grps) :
    NoOverlap grps := V.2

/-! ### invariance forces equal extents inside the groups -/

/-- the order that exchanges the modes `a` and `b`. -/
def swapOrder (n a b : Nat) : List Nat :=
  (List.range n).map fun k => if k = a then b else if k = b then a else k

theorem getD_swapOrder (n a b k : Nat) (hk : k < n) :
    (swapOrder n a b).getD k 0 = if k = a then b else if k = b then a else k := by
  simp [swapOrder, List.getD_eq_getElem?_getD, hk]

theorem groupPerm_swap {grps : List (List Nat)} {n : Nat} {g : List Nat} {a b : Nat} (hg : g ∈ grps)
    (ha : a ∈ g) (hb : b ∈ g) (han : a < n) (hbn : b < n) : GroupPerm grps n (swapOrder n a b) := by
  refine ⟨?_, ?_⟩
  · rw [isPermOf_iff]
    refine ⟨by simp [swapOrder], ?_⟩
    intro m hm
    -- `m` sits at the position obtained by swapping once more
    have hpos : (if m = a then b else if m = b then a else m) < n := by
      by_cases h1 : m = a
      · simp [h1, hbn]
      · by_cases h2 : m = b
        · subst h2; simp [h1, han]
        · simp [h1, h2, hm]
    have hval := getD_swapOrder n a b _ hpos
    have : (swapOrder n a b).getD (if m = a then b else if m = b then a else m) 0 = m := by
      rw [hval]
      by_cases h1 : m = a
      · subst h1
        by_cases h3 : b = m
        · simp [h3]
        · simp [h3]
      · by_cases h2 : m = b
        · subst h2; simp [h1]
        · simp [h1, h2]
    rw [← this]
    exact getD0_mem _ _ (by simpa [swapOrder] using hpos)
  · intro k hk
    have hk' : k < n := by simpa [swapOrder] using hk
    rw [getD_swapOrder n a b k hk']
    by_cases h1 : k = a
    · subst h1; simp only [if_true]; exact Or.inr ⟨g, hg, ha, hb⟩
    · by_cases h2 : k = b
      · subst h2; simp only [h1, if_false, if_true]; exact Or.inr ⟨g, hg, hb, ha⟩
      · simp [h1, h2]

/-- a tensor invariant under the permutations inside the groups has equal extents inside every group. -/
theorem IsSym.sizesOK [Zero α] {T : Dense α} {grps : List (List Nat)} (hr : InRangeAll T.shape.length grps)
    (h : IsSym T grps) : SizesOK T.shape grps := by
  intro g hg a ha b hb
  have han := hr g hg a ha
  have hbn := hr g hg b hb
  have hp := groupPerm_swap hg ha hb han hbn
  have hsh := (h _ hp).1
  have := congrArg (fun l => l.getD a 0) hsh
  rw [getD_gather _ _ _ (by simpa [swapOrder] using han), getD_swapOrder _ _ _ _ han] at this
  simpa using this.symm

end Sym
end Pyttb
