/-
C01, dense <-> sparse: `tensor.to_sptensor()` / `sptensor.full()` keep the denoted array.
Also the generic facts about the denotation `Sparse.get` used by the sparse matricization.
-/
import PyttbModel.Lemmas.Arr
import PyttbModel.Ops.Sparse
import Mathlib.Algebra.Ring.Defs
namespace Pyttb

variable {α : Type}

/-! ### sums over key/value lists -/

/-- sum of the values stored under key `i`. -/
def kvSum [Add α] [Zero α] (es : List (List Nat × α)) (i : List Nat) : α :=
  ((es.filter (fun e => e.1 == i)).map (·.2)).sum

theorem Sparse.get_eq_kvSum [Add α] [Zero α] (S : Sparse α) (i : List Nat) :
    S.get i = kvSum S.entries i := rfl

theorem kvSum_nil [Add α] [Zero α] (i : List Nat) : kvSum ([] : List (List Nat × α)) i = 0 := rfl

theorem kvSum_cons_ne [Add α] [Zero α] (e : List Nat × α) (es : List (List Nat × α)) (i : List Nat)
    (h : e.1 ≠ i) : kvSum (e :: es) i = kvSum es i := by
  have : (e.1 == i) = false := by simpa using h
  simp [kvSum, this]

theorem kvSum_cons_eq [Add α] [Zero α] (v : α) (es : List (List Nat × α)) (i : List Nat) :
    kvSum ((i, v) :: es) i = v + kvSum es i := by
  simp [kvSum]

theorem kvSum_of_not_mem [Add α] [Zero α] (es : List (List Nat × α)) (i : List Nat)
    (h : i ∉ es.map (·.1)) : kvSum es i = 0 := by
  induction es with
  | nil => rfl
  | cons e es ih =>
    simp only [List.map_cons, List.mem_cons, not_or] at h
    rw [kvSum_cons_ne e es i (fun h' => h.1 h'.symm), ih h.2]

theorem kvSum_of_mem [AddMonoid α] (es : List (List Nat × α)) (i : List Nat) (v : α)
    (hn : (es.map (·.1)).Nodup) (h : (i, v) ∈ es) : kvSum es i = v := by
  induction es with
  | nil => cases h
  | cons e es ih =>
    simp only [List.map_cons, List.nodup_cons] at hn
    rcases List.mem_cons.1 h with rfl | h'
    · rw [kvSum_cons_eq, kvSum_of_not_mem es i hn.1, add_zero]
    · have hne : e.1 ≠ i := by
        intro he
        apply hn.1
        rw [he]
        exact List.mem_map.2 ⟨(i, v), h', rfl⟩
      rw [kvSum_cons_ne e es i hne, ih hn.2 h']

/-- key/value list tabulated from its keys. -/
theorem kvSum_map [AddMonoid α] (U : List (List Nat)) (f : List Nat → α) (i : List Nat)
    (hn : U.Nodup) : kvSum (U.map fun u => (u, f u)) i = if i ∈ U then f i else 0 := by
  have hk : (U.map fun u => (u, f u)).map (·.1) = U := by
    rw [List.map_map]
    exact List.map_id U
  split
  · next h =>
    apply kvSum_of_mem
    · rw [hk]; exact hn
    · exact List.mem_map.2 ⟨i, h, rfl⟩
  · next h =>
    apply kvSum_of_not_mem
    rw [hk]; exact h

/-- last stored value under key `i` (what `B[subs] = vals` leaves), zero if none. -/
def kvLast [Zero α] (es : List (List Nat × α)) (i : List Nat) : α :=
  match es.reverse.find? (fun e => e.1 == i) with
  | some e => e.2
  | none => 0

theorem kvLast_of_not_mem [Zero α] (es : List (List Nat × α)) (i : List Nat)
    (h : i ∉ es.map (·.1)) : kvLast es i = 0 := by
  have : es.reverse.find? (fun e => e.1 == i) = none := by
    rw [List.find?_eq_none]
    intro e he hei
    apply h
    simp only [beq_iff_eq] at hei
    exact List.mem_map.2 ⟨e, List.mem_reverse.1 he, hei⟩
  simp [kvLast, this]

theorem nodup_keys_unique {es : List (List Nat × α)} (hn : (es.map (·.1)).Nodup)
    {i : List Nat} {v w : α} (h1 : (i, v) ∈ es) (h2 : (i, w) ∈ es) : v = w := by
  induction es with
  | nil => cases h1
  | cons e es ih =>
    simp only [List.map_cons, List.nodup_cons] at hn
    rcases List.mem_cons.1 h1 with rfl | h1' <;> rcases List.mem_cons.1 h2 with h2' | h2'
    · exact (Prod.mk.inj h2').2.symm
    · exact absurd (List.mem_map.2 ⟨(i, w), h2', rfl⟩) hn.1
    · subst h2'; exact absurd (List.mem_map.2 ⟨(i, v), h1', rfl⟩) hn.1
    · exact ih hn.2 h1' h2'

theorem kvLast_of_mem [Zero α] (es : List (List Nat × α)) (i : List Nat) (v : α)
    (hn : (es.map (·.1)).Nodup) (h : (i, v) ∈ es) : kvLast es i = v := by
  unfold kvLast
  cases hf : es.reverse.find? (fun e => e.1 == i) with
  | none =>
    rw [List.find?_eq_none] at hf
    exact absurd (by simp) (hf (i, v) (List.mem_reverse.2 h))
  | some e =>
    have h1 := List.find?_some hf
    have h2 := List.mem_reverse.1 (List.mem_of_find?_eq_some hf)
    simp only [beq_iff_eq] at h1
    obtain ⟨a, b⟩ := e
    simp only at h1
    subst h1
    exact nodup_keys_unique hn h2 h

/-- for duplicate-free keys, last-write-wins and summation agree. -/
theorem kvLast_eq_kvSum [AddMonoid α] (es : List (List Nat × α)) (i : List Nat)
    (hn : (es.map (·.1)).Nodup) : kvLast es i = kvSum es i := by
  by_cases h : i ∈ es.map (·.1)
  · obtain ⟨e, he, rfl⟩ := List.mem_map.1 h
    rw [kvLast_of_mem es e.1 e.2 hn he, kvSum_of_mem es e.1 e.2 hn he]
  · rw [kvLast_of_not_mem es i h, kvSum_of_not_mem es i h]

/-! ### entries of a sparse tensor -/

theorem Sparse.entries_keys (S : Sparse α) (h : S.subs.length = S.vals.length) :
    S.entries.map (·.1) = S.subs := List.map_fst_zip (Nat.le_of_eq h)

theorem Sparse.entries_keys_sub (S : Sparse α) (i : List Nat) (h : i ∈ S.entries.map (·.1)) :
    i ∈ S.subs := by
  obtain ⟨e, he, rfl⟩ := List.mem_map.1 h
  exact (List.of_mem_zip (a := e.1) (b := e.2) he).1

theorem Sparse.get_of_not_mem [Add α] [Zero α] (S : Sparse α) (i : List Nat) (h : i ∉ S.subs) :
    S.get i = 0 :=
  kvSum_of_not_mem _ _ (fun h' => h (S.entries_keys_sub i h'))

theorem Sparse.get_of_not_inBounds [Zero α] [Add α] [BEq α] (S : Sparse α) (hS : S.WF) (i : List Nat)
    (h : ¬ InBounds S.shape i) : S.get i = 0 :=
  S.get_of_not_mem i (fun h' => h (hS.inb i h'))

/-- entries of a tensor whose values are tabulated from its subscripts. -/
theorem zip_map_map {β γ δ : Type} (l : List β) (f : β → γ) (g : β → δ) :
    (l.map f).zip (l.map g) = l.map (fun k => (f k, g k)) := by
  induction l with
  | nil => rfl
  | cons a l ih => simp [ih]

/-! ### `find` / `to_sptensor` -/

/-- the positions `find` keeps. -/
def nzIdx [Zero α] [BEq α] (T : Dense α) : List Nat :=
  (List.range T.data.length).filter (fun k => !(T.data.getD k 0 == 0))

theorem Sparse.full_eq [Zero α] (S : Sparse α) : S.full = Dense.ofFn S.shape (kvLast S.entries) := rfl

section toSparse
variable [AddMonoid α] [DecidableEq α]

theorem toSparse_eq (T : Dense α) :
    T.toSparse = ⟨T.shape, (nzIdx T).map (ind2sub T.shape), (nzIdx T).map (fun k => T.data.getD k 0)⟩ := rfl

theorem nzIdx_nodup (T : Dense α) : (nzIdx T).Nodup :=
  List.Nodup.sublist List.filter_sublist List.nodup_range

theorem mem_nzIdx (T : Dense α) (k : Nat) :
    k ∈ nzIdx T ↔ k < T.data.length ∧ T.data.getD k 0 ≠ 0 := by
  simp [nzIdx]

theorem toSparse_subs_nodup (T : Dense α) (hT : T.WF) :
    ((nzIdx T).map (ind2sub T.shape)).Nodup := by
  have hn := nzIdx_nodup T
  unfold List.Nodup at *
  rw [List.pairwise_map]
  apply List.Pairwise.imp_of_mem _ hn
  intro a b ha hb hab he
  apply hab
  have ha' : a < numel T.shape := by rw [← hT]; exact ((mem_nzIdx T a).1 ha).1
  have hb' : b < numel T.shape := by rw [← hT]; exact ((mem_nzIdx T b).1 hb).1
  rw [← sub2ind_ind2sub ha', he, sub2ind_ind2sub hb']

theorem toSparse_entries (T : Dense α) :
    T.toSparse.entries = (nzIdx T).map (fun k => (ind2sub T.shape k, T.data.getD k 0)) := by
  rw [toSparse_eq]
  exact zip_map_map _ _ _

theorem toSparse_get (T : Dense α) (hT : T.WF) (i : List Nat)
    (hi : InBounds T.shape i) : T.toSparse.get i = T.get i := by
  have hkeys : (T.toSparse.entries.map (·.1)).Nodup := by
    rw [toSparse_entries, List.map_map]
    exact toSparse_subs_nodup T hT
  have hlt : sub2ind T.shape i < T.data.length := by rw [hT]; exact sub2ind_lt hi
  rw [Sparse.get_eq_kvSum]
  by_cases hz : T.get i = 0
  · rw [hz]
    apply kvSum_of_not_mem
    rw [toSparse_entries, List.map_map]
    intro hmem
    obtain ⟨k, hk, hki⟩ := List.mem_map.1 hmem
    simp only [Function.comp] at hki
    have hk' := (mem_nzIdx T k).1 hk
    have : k = sub2ind T.shape i := by
      rw [← hki, sub2ind_ind2sub (by rw [← hT]; exact hk'.1)]
    subst this
    exact hk'.2 hz
  · apply kvSum_of_mem _ _ _ hkeys
    rw [toSparse_entries]
    refine List.mem_map.2 ⟨sub2ind T.shape i, (mem_nzIdx T _).2 ⟨hlt, hz⟩, ?_⟩
    rw [ind2sub_sub2ind hi]
    rfl

theorem toSparse_wf (T : Dense α) (hT : T.WF) :
    T.toSparse.WF ∧ T.toSparse.shape = T.shape := by
  refine ⟨⟨?_, ?_, ?_, ?_⟩, rfl⟩
  · simp [toSparse_eq]
  · intro i hi
    rw [toSparse_eq] at hi
    obtain ⟨k, hk, rfl⟩ := List.mem_map.1 hi
    show InBounds T.shape (ind2sub T.shape k)
    exact ind2sub_inBounds (by rw [← hT]; exact ((mem_nzIdx T k).1 hk).1)
  · exact toSparse_subs_nodup T hT
  · intro v hv
    rw [toSparse_eq] at hv
    obtain ⟨k, hk, rfl⟩ := List.mem_map.1 hv
    simpa using ((mem_nzIdx T k).1 hk).2

theorem length_filter_range_getD {β : Type} (l : List β) (d : β) (p : β → Bool) :
    ((List.range l.length).filter (fun k => p (l.getD k d))).length = (l.filter p).length := by
  have hl : l = (List.range l.length).map (fun k => l.getD k d) := by
    apply List.ext_getElem (by simp)
    intro n h1 h2
    simp [List.getD_eq_getElem?_getD, h1]
  conv => rhs; rw [hl, List.filter_map, List.length_map]
  rfl

theorem toSparse_nnz (T : Dense α) (hT : T.WF) :
    T.toSparse.nnz = T.nnz ∧
    T.nnz = ((allSubs T.shape).filter (fun i => !(T.get i == 0))).length := by
  constructor
  · show ((nzIdx T).map (ind2sub T.shape)).length = _
    rw [List.length_map]
    exact length_filter_range_getD T.data 0 (fun v => !(v == 0))
  · unfold Dense.nnz
    conv => lhs; rw [Dense.data_eq_map_get T hT, List.filter_map, List.length_map]
    rfl

/-! ### `sptensor.full` -/

theorem sp_full_at (S : Sparse α) (hS : S.WF) (i : List Nat)
    (hi : InBounds S.shape i) : S.full.get i = S.get i ∧ S.full.shape = S.shape ∧ S.full.WF := by
  refine ⟨?_, rfl, Dense.ofFn_WF _ _⟩
  rw [Sparse.full_eq, Dense.ofFn_get _ _ hi, Sparse.get_eq_kvSum]
  apply kvLast_eq_kvSum
  rw [S.entries_keys hS.len]
  exact hS.nodup

theorem dense_sparse_dense (T : Dense α) (hT : T.WF) : T.toSparse.full = T := by
  have hw := (toSparse_wf T hT).1
  apply Dense.ext_get (Dense.ofFn_WF _ _) hT rfl
  intro i hi
  exact (sp_full_at T.toSparse hw i hi).1.trans (toSparse_get T hT i hi)

theorem sparse_dense_sparse (S : Sparse α) (hS : S.WF) (i : List Nat) :
    S.full.toSparse.get i = S.get i ∧ S.full.toSparse.WF := by
  have hF : S.full.WF := Dense.ofFn_WF _ _
  have hw := (toSparse_wf S.full hF).1
  refine ⟨?_, hw⟩
  by_cases hi : InBounds S.shape i
  · rw [toSparse_get S.full hF i hi]
    exact (sp_full_at S hS i hi).1
  · rw [Sparse.get_of_not_inBounds S hS i hi]
    exact Sparse.get_of_not_inBounds _ hw i hi

end toSparse

end Pyttb
