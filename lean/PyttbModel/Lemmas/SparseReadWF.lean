/-
C06: the sparse subtensor returned by a region read `S[key]` (`sptensor.__getitem__`, model
Ops/IndexSparse) is well-formed whenever `S` is — for every key the model accepts (integers,
slices with any bounds / step, index lists with or without repeated entries).  Also
`sptensor.copy()`.
-/
import PyttbModel.Lemmas.SparseOrderIndep
import PyttbModel.Lemmas.MutArraySparseRead
import PyttbModel.Ops.SptenmatOps
set_option linter.unusedSimpArgs false
set_option linter.unusedVariables false
set_option linter.unusedSectionVars false
namespace Pyttb
variable {α : Type}

/-! ### position of a coordinate in an index list (`tt_renumberdim`) -/

/-- for a coordinate that occurs in the index list, the new coordinate is a position of the
list that holds it. -/
theorem renumberCoord_mem (l : List Nat) (x : Nat) (hx : x ∈ l) :
    Sparse.renumberCoord l false x < l.length ∧ l.getD (Sparse.renumberCoord l false x) 0 = x := by
  unfold Sparse.renumberCoord
  simp only [Bool.false_eq_true, if_false]
  cases hf : (l.reverse).findIdx? (· == x) with
  | none =>
    rw [List.findIdx?_eq_none_iff] at hf
    have := hf x (by simpa using hx)
    simp at this
  | some j =>
    rw [List.findIdx?_eq_some_iff_getElem] at hf
    obtain ⟨hlt, hp, _⟩ := hf
    simp only [List.length_reverse] at hlt
    rw [List.getElem_reverse] at hp
    have he := eq_of_beq hp
    simp only
    have hpos : l.length - 1 - j < l.length := by omega
    refine ⟨hpos, ?_⟩
    rw [List.getD_eq_getElem?_getD, List.getElem?_eq_getElem hpos]
    simpa using he

theorem partIdx_int_mem {e : Nat} {i : Int} {l : List Nat} (h : Sparse.partIdx e (.int i) = .ok l)
    {x y : Nat} (hx : x ∈ l) (hy : y ∈ l) : x = y := by
  simp only [Sparse.partIdx, Except.ok.injEq] at h
  subst h
  split at hx
  · simp only [List.mem_singleton] at hx hy
    rw [if_pos (by assumption)] at hy
    simp only [List.mem_singleton] at hy
    rw [hx, hy]
  · simp at hx

/-! ### renumbering the stored subscripts of the region -/

theorem regionIdx_cons_inv {e : Nat} {es : List Nat} {p : RPart} {ps : List RPart} {idx : List (List Nat)}
    (h : Sparse.regionIdx (e :: es) (p :: ps) = .ok idx) :
    ∃ l ls, idx = l :: ls ∧ Sparse.partIdx e p = .ok l ∧ Sparse.regionIdx es ps = .ok ls := by
  simp only [Sparse.regionIdx, bind, Except.bind] at h
  cases h1 : Sparse.partIdx e p with
  | error _ => rw [h1] at h; cases h
  | ok l =>
    rw [h1] at h
    simp only at h
    cases h2 : Sparse.regionIdx es ps with
    | error _ => rw [h2] at h; cases h
    | ok ls =>
      rw [h2] at h
      simp only [Except.ok.injEq] at h
      exact ⟨l, ls, h.symm, rfl, rfl⟩

/-- a stored subscript of the region is renumbered to a subscript inside the result's shape. -/
theorem renumberRow_inBounds (sh : List Nat) (ps : List RPart) (idx : List (List Nat))
    (h : Sparse.regionIdx sh ps = .ok idx) (r : List Nat) (hr : InBounds sh r)
    (hreg : Sparse.inRegionB idx r = true) :
    InBounds (Sparse.keptShapeOf sh ps idx) (Sparse.renumberRow ps idx r) := by
  induction ps generalizing sh idx r with
  | nil =>
    cases sh with
    | nil =>
      simp only [Sparse.regionIdx, Except.ok.injEq] at h
      subst h
      cases r with
      | nil => simp [Sparse.keptShapeOf, Sparse.renumberRow, InBounds]
      | cons x r => simp [InBounds] at hr
    | cons e es => simp [Sparse.regionIdx] at h
  | cons p ps ih =>
    cases sh with
    | nil => simp [Sparse.regionIdx] at h
    | cons e es =>
      obtain ⟨l, ls, rfl, h1, h2⟩ := regionIdx_cons_inv h
      cases r with
      | nil => simp [InBounds] at hr
      | cons x r' =>
        simp only [InBounds] at hr
        simp only [Sparse.inRegionB, Bool.and_eq_true, List.contains_eq_mem, decide_eq_true_eq] at hreg
        have ih' := ih es ls h2 r' hr.2 hreg.2
        by_cases hp : p.isInt = true
        · simp only [Sparse.keptShapeOf, Sparse.renumberRow, hp, if_true]
          exact ih'
        · have hp' : p.isInt = false := by simpa using hp
          simp only [Sparse.keptShapeOf, Sparse.renumberRow, hp', Bool.false_eq_true, if_false, InBounds]
          refine ⟨?_, ih'⟩
          by_cases hf : p.isFullSlice = true
          · simp only [hf, if_true]; exact hr.1
          · have hf' : p.isFullSlice = false := by simpa using hf
            simp only [hf', Bool.false_eq_true, if_false]
            exact (renumberCoord_mem l x hreg.1).1

/-- renumbering is injective on the subscripts of the region. -/
theorem renumberRow_inj (sh : List Nat) (ps : List RPart) (idx : List (List Nat))
    (h : Sparse.regionIdx sh ps = .ok idx) (a b : List Nat)
    (ha : Sparse.inRegionB idx a = true) (hb : Sparse.inRegionB idx b = true)
    (hab : Sparse.renumberRow ps idx a = Sparse.renumberRow ps idx b) : a = b := by
  induction ps generalizing sh idx a b with
  | nil =>
    cases sh with
    | nil =>
      simp only [Sparse.regionIdx, Except.ok.injEq] at h
      subst h
      cases a with
      | nil => cases b with
        | nil => rfl
        | cons y b => simp [Sparse.inRegionB] at hb
      | cons x a => simp [Sparse.inRegionB] at ha
    | cons e es => simp [Sparse.regionIdx] at h
  | cons p ps ih =>
    cases sh with
    | nil => simp [Sparse.regionIdx] at h
    | cons e es =>
      obtain ⟨l, ls, rfl, h1, h2⟩ := regionIdx_cons_inv h
      cases a with
      | nil => simp [Sparse.inRegionB] at ha
      | cons x a' =>
        cases b with
        | nil => simp [Sparse.inRegionB] at hb
        | cons y b' =>
          simp only [Sparse.inRegionB, Bool.and_eq_true, List.contains_eq_mem, decide_eq_true_eq] at ha hb
          by_cases hp : p.isInt = true
          · simp only [Sparse.renumberRow, hp, if_true] at hab
            have hxy : x = y := by
              cases p with
              | int i => exact partIdx_int_mem h1 ha.1 hb.1
              | slice _ _ _ => simp [RPart.isInt] at hp
              | list _ => simp [RPart.isInt] at hp
            rw [hxy, ih es ls h2 a' b' ha.2 hb.2 hab]
          · have hp' : p.isInt = false := by simpa using hp
            simp only [Sparse.renumberRow, hp', Bool.false_eq_true, if_false, List.cons.injEq] at hab
            have hrest := ih es ls h2 a' b' ha.2 hb.2 hab.2
            have hxy : x = y := by
              by_cases hf : p.isFullSlice = true
              · simpa [hf] using hab.1
              · have hf' : p.isFullSlice = false := by simpa using hf
                simp only [hf', Bool.false_eq_true, if_false] at hab
                rw [← (renumberCoord_mem l x ha.1).2, ← (renumberCoord_mem l y hb.1).2, hab.1]
            rw [hxy, hrest]

/-! ### the stored entries of the region -/

/-- the entries `subdims` selects form a well-formed tensor (of the receiver's shape) whose
subscripts lie in the region. -/
theorem takeAt_region_wf [Zero α] [BEq α] {S : Sparse α} (hS : S.WF) (idx : List (List Nat)) :
    (S.takeAt (if S.subs.isEmpty then [] else S.subdims idx)).WF ∧
    ∀ r ∈ (S.takeAt (if S.subs.isEmpty then [] else S.subdims idx)).subs, Sparse.inRegionB idx r = true := by
  have hloc : (if S.subs.isEmpty then [] else S.subdims idx) =
      (List.range S.subs.length).filter fun k => Sparse.inRegionB idx (S.subs.getD k []) := by
    split
    · next he =>
      have : S.subs = [] := by simpa using he
      rw [this]; rfl
    · rfl
  simp only [hloc, Sparse.takeAt]
  have hnod : ((List.range S.subs.length).filter fun k => Sparse.inRegionB idx (S.subs.getD k [])).Nodup :=
    List.Nodup.sublist List.filter_sublist List.nodup_range
  have hlt : ∀ k ∈ (List.range S.subs.length).filter fun k => Sparse.inRegionB idx (S.subs.getD k []),
      k < S.subs.length := fun k hk => List.mem_range.1 (List.mem_filter.1 hk).1
  refine ⟨⟨by simp, ?_, ?_, ?_⟩, ?_⟩
  · intro r hr
    obtain ⟨k, hk, rfl⟩ := List.mem_map.1 hr
    rw [getD_eq_getElem_nil _ _ (hlt k hk)]
    exact hS.inb _ (List.getElem_mem _)
  · apply nodup_map_on _ hnod
    intro x hx y hy hxy
    rw [getD_eq_getElem_nil _ _ (hlt x hx), getD_eq_getElem_nil _ _ (hlt y hy)] at hxy
    exact (List.getElem_inj hS.nodup).1 hxy
  · intro v hv
    obtain ⟨k, hk, rfl⟩ := List.mem_map.1 hv
    have hkv : k < S.vals.length := by rw [← hS.len]; exact hlt k hk
    rw [List.getD_eq_getElem?_getD, List.getElem?_eq_getElem hkv]
    exact hS.nz _ (List.getElem_mem _)
  · intro r hr
    obtain ⟨k, hk, rfl⟩ := List.mem_map.1 hr
    exact (List.mem_filter.1 hk).2

/-- `regionRead`: a tensor result is well-formed. -/
theorem regionRead_wf [Zero α] [BEq α] (S : Sparse α) (hS : S.WF) (ps : List RPart) (idx : List (List Nat))
    (hidx : Sparse.regionIdx S.shape ps = .ok idx) (R : Sparse α)
    (h : S.regionRead ps idx = .ok (.tensor R)) : R.WF := by
  obtain ⟨wsel, hreg⟩ := takeAt_region_wf hS idx
  unfold Sparse.regionRead at h
  simp only at h
  generalize hsel : S.takeAt (if S.subs.isEmpty then [] else S.subdims idx) = sel at h wsel hreg
  have hselshape : sel.shape = S.shape := by rw [← hsel]; rfl
  split at h
  · cases h
  · split at h
    · split at h <;> cases h
    · split at h
      · split at h
        · cases h
        · simp only [Except.ok.injEq, SpReadOut.tensor.injEq] at h
          subst h
          exact ⟨rfl, by simp, by simp, by simp⟩
      · simp only [Except.ok.injEq, SpReadOut.tensor.injEq] at h
        subst h
        apply wf_map_subs sel wsel
        · intro r hr
          exact renumberRow_inBounds S.shape ps idx hidx r (hselshape ▸ wsel.inb r hr) (hreg r hr)
        · intro a ha b hb hab
          exact renumberRow_inj S.shape ps idx hidx a b (hreg a ha) (hreg b hb) hab

/-- `S[key]` for a region key (a tuple of integers / slices / index lists): whenever a sparse
tensor comes back it is well-formed. -/
theorem getItem_region_wf [Zero α] [BEq α] (S : Sparse α) (hS : S.WF) (parts : List RPart) (R : Sparse α)
    (h : S.getItem (.region parts) = .ok (.tensor R)) : R.WF := by
  unfold Sparse.getItem at h
  simp only at h
  split at h
  · cases h
  · simp only [bind, Except.bind] at h
    cases h1 : Sparse.rewriteNeg S.shape parts with
    | error _ => rw [h1] at h; cases h
    | ok ps =>
      rw [h1] at h
      simp only at h
      cases h2 : Sparse.regionIdx S.shape ps with
      | error _ => rw [h2] at h; cases h
      | ok idx =>
        rw [h2] at h
        simp only at h
        exact regionRead_wf S hS ps idx h2 R h

/-! ### `sptensor.copy()` -/

/-- `copy` of a well-formed tensor is accepted and stores the same rows and values. -/
theorem sparse_copy_wf [Zero α] [BEq α] (S : Sparse α) (hS : S.WF) : S.copy = .ok S := by
  unfold Sparse.copy
  exact ctor_keeps S.subs S.vals S.shape hS.len.symm hS.inb

end Pyttb
