/-
C02 — sum toolkit: sums over `allSubs`, re-indexing along bijections, splitting a shape,
filtered sums.  Everything the refinement proofs of the multilinear kernels share.
-/
import PyttbModel.Lemmas.Idx
import PyttbModel.Lemmas.Arr
import PyttbModel.Lemmas.Perm
import PyttbModel.Spec.Multilinear
import Mathlib.Algebra.BigOperators.Group.List.Basic
import Mathlib.Algebra.BigOperators.Ring.List
import Mathlib.Algebra.Ring.Defs
import Mathlib.Data.List.Nodup
namespace Pyttb
namespace ML

variable {α : Type} {β γ : Type}

/-! ### plain list sums -/

theorem sum_flatMap [AddCommMonoid α] (l : List β) (g : β → List γ) (f : γ → α) :
    ((l.flatMap g).map f).sum = (l.map fun x => ((g x).map f).sum).sum := by
  induction l with
  | nil => simp
  | cons a l ih => simp [List.flatMap_cons, List.sum_append, ih]

theorem sum_congr [AddCommMonoid α] (l : List β) (f g : β → α) (h : ∀ x ∈ l, f x = g x) :
    (l.map f).sum = (l.map g).sum := by
  rw [List.map_congr_left h]

theorem sum_comm [AddCommMonoid α] (l : List β) (m : List γ) (f : β → γ → α) :
    (l.map fun x => (m.map fun y => f x y).sum).sum = (m.map fun y => (l.map fun x => f x y).sum).sum := by
  induction l with
  | nil => simp
  | cons a l ih =>
    simp only [List.map_cons, List.sum_cons, ih]
    rw [← List.sum_map_add]

theorem sum_filter [AddCommMonoid α] (l : List β) (p : β → Bool) (f : β → α) :
    ((l.filter p).map f).sum = (l.map fun x => if p x then f x else 0).sum := by
  induction l with
  | nil => simp
  | cons a l ih =>
    by_cases h : p a
    · simp [List.filter_cons, h, ih]
    · simp [List.filter_cons, h, ih]

theorem sum_zero [AddCommMonoid α] (l : List β) : (l.map fun _ => (0 : α)).sum = 0 := by
  induction l with
  | nil => rfl
  | cons a l ih => simp [ih]

/-- A sum with a single possibly non-zero term. -/
theorem sum_single [AddCommMonoid α] [DecidableEq β] (l : List β) (hn : l.Nodup) (a : β) (f : β → α) :
    (l.map fun x => if x = a then f x else 0).sum = if a ∈ l then f a else 0 := by
  induction l with
  | nil => simp
  | cons b l ih =>
    have hb : b ∉ l := (List.nodup_cons.1 hn).1
    have hl := (List.nodup_cons.1 hn).2
    simp only [List.map_cons, List.sum_cons, ih hl, List.mem_cons]
    by_cases h : b = a
    · subst h
      simp [hb]
    · have h' : ¬ a = b := fun e => h e.symm
      simp [h, h']

theorem sum_single' [AddCommMonoid α] [DecidableEq β] (l : List β) (hn : l.Nodup) (a : β) (f : β → α) (ha : a ∈ l) :
    (l.map fun x => if x = a then f x else 0).sum = f a := by
  rw [sum_single l hn a f, if_pos ha]

/-- Sums over permuted lists agree. -/
theorem sum_perm [AddCommMonoid α] {l₁ l₂ : List β} (h : l₁.Perm l₂) (f : β → α) :
    (l₁.map f).sum = (l₂.map f).sum := (h.map f).sum_eq

/-- Re-indexing: if `φ` maps `l₁` bijectively onto `l₂`. -/
theorem sum_bij [AddCommMonoid α] [DecidableEq γ] (l₁ : List β) (l₂ : List γ) (φ : β → γ) (f : γ → α)
    (hn₁ : l₁.Nodup) (hn₂ : l₂.Nodup) (hinj : ∀ x ∈ l₁, ∀ y ∈ l₁, φ x = φ y → x = y)
    (hmem : ∀ y, y ∈ l₂ ↔ ∃ x ∈ l₁, φ x = y) :
    (l₁.map fun x => f (φ x)).sum = (l₂.map f).sum := by
  have hp : (l₁.map φ).Perm l₂ := by
    rw [List.perm_ext_iff_of_nodup (List.Nodup.map_on hinj hn₁) hn₂]
    intro y
    rw [hmem y, List.mem_map]
  rw [← sum_perm hp f, List.map_map]
  rfl

theorem perm_bij [DecidableEq γ] (l₁ : List β) (l₂ : List γ) (φ : β → γ)
    (hn₁ : l₁.Nodup) (hn₂ : l₂.Nodup) (hinj : ∀ x ∈ l₁, ∀ y ∈ l₁, φ x = φ y → x = y)
    (hmem : ∀ y, y ∈ l₂ ↔ ∃ x ∈ l₁, φ x = y) : (l₁.map φ).Perm l₂ := by
  rw [List.perm_ext_iff_of_nodup (List.Nodup.map_on hinj hn₁) hn₂]
  intro y
  rw [hmem y, List.mem_map]

/-! ### `allSubs` -/

theorem allSubs_nodup (s : List Nat) : (allSubs s).Nodup := by
  unfold allSubs
  refine List.Nodup.map_on ?_ List.nodup_range
  intro x hx y hy h
  rw [List.mem_range] at hx hy
  have := congrArg (sub2ind s) h
  rwa [sub2ind_ind2sub hx, sub2ind_ind2sub hy] at this

theorem sum_range_allSubs [AddCommMonoid α] (s : List Nat) (f : Nat → α) :
    ((List.range (numel s)).map f).sum = ((allSubs s).map fun j => f (sub2ind s j)).sum := by
  rw [← allSubs_map_sub2ind, List.map_map]
  rfl

/-- A sum over a product shape splits; the first block is the fast one. -/
theorem sum_allSubs_append [AddCommMonoid α] (s t : List Nat) (f : List Nat → α) :
    ((allSubs (s ++ t)).map f).sum =
      ((allSubs t).map fun b => ((allSubs s).map fun a => f (a ++ b)).sum).sum := by
  induction s generalizing f with
  | nil =>
    have : allSubs ([] : List Nat) = [[]] := by decide
    simp [this]
  | cons a s ih =>
    rw [List.cons_append, allSubs_cons, sum_flatMap]
    simp only [List.map_map, Function.comp_def]
    rw [ih (fun k => ((List.range a).map fun x => f (x :: k)).sum)]
    apply sum_congr
    intro b _
    rw [allSubs_cons, sum_flatMap]
    simp only [List.map_map, Function.comp_def, List.cons_append]

theorem sum_allSubs_cons [AddCommMonoid α] (a : Nat) (s : List Nat) (f : List Nat → α) :
    ((allSubs (a :: s)).map f).sum =
      ((allSubs s).map fun k => ((List.range a).map fun x => f (x :: k)).sum).sum := by
  rw [allSubs_cons, sum_flatMap]
  simp only [List.map_map, Function.comp_def]

theorem allSubs_singleton (L : Nat) : allSubs [L] = (List.range L).map fun b => [b] := by
  rw [allSubs_cons]
  have : allSubs ([] : List Nat) = [[]] := by decide
  simp [this]

theorem sum_allSubs_snoc [AddCommMonoid α] (s : List Nat) (L : Nat) (f : List Nat → α) :
    ((allSubs (s ++ [L])).map f).sum =
      ((List.range L).map fun b => ((allSubs s).map fun a => f (a ++ [b])).sum).sum := by
  rw [sum_allSubs_append, allSubs_singleton, List.map_map]
  rfl

/-- Re-indexing a sum over all cells by a permutation of the modes. -/
theorem sum_allSubs_perm [AddCommMonoid α] (s p : List Nat) (hp : isPermOf p s.length = true)
    (f : List Nat → α) :
    ((allSubs s).map f).sum = ((allSubs (gather s p)).map fun k' => f (gather k' (invPerm p))).sum := by
  symm
  apply sum_bij (allSubs (gather s p)) (allSubs s) (fun k' => gather k' (invPerm p)) f
    (allSubs_nodup _) (allSubs_nodup _)
  · intro x hx y hy h
    have hx' := (mem_allSubs.1 hx).length_eq
    have hy' := (mem_allSubs.1 hy).length_eq
    rw [length_gather] at hx' hy'
    have hpl := isPermOf_length_eq hp
    have : gather (gather x (invPerm p)) p = gather (gather y (invPerm p)) p := congrArg (fun z => gather z p) h
    rwa [gather_invPerm_gather hp (by omega), gather_invPerm_gather hp (by omega)] at this
  · intro y
    rw [mem_allSubs]
    constructor
    · intro hy
      refine ⟨gather y p, ?_, ?_⟩
      · rw [mem_allSubs]
        exact hy.gather (fun x hx => isPermOf_lt_of_mem hp hx)
      · exact gather_gather_invPerm hp hy.length_eq
    · rintro ⟨x, hx, rfl⟩
      exact inBounds_unperm hp (mem_allSubs.1 hx)

end ML
end Pyttb
