/-
C15, specification level: the average over the orders that permute inside the groups is
symmetric, idempotent and fixes symmetric tensors (group averaging), and `IsSym` for several
groups is `IsSym` for each group.
-/
import PyttbModel.Lemmas.SymPerms
import Mathlib.Algebra.Field.Basic
import Mathlib.Algebra.CharZero.Defs
import Mathlib.Algebra.BigOperators.Group.List.Basic
import Mathlib.Algebra.BigOperators.Ring.List
import Mathlib.Data.Nat.Cast.Basic
namespace Pyttb
namespace Sym
open List

variable {α : Type}

/-! ### list sums -/

theorem sum_flatMap' {ι : Type} [AddCommMonoid α] (l : List ι) (f : ι → List α) :
    (l.flatMap f).sum = (l.map fun x => (f x).sum).sum := by
  induction l with
  | nil => simp
  | cons a l ih => simp [flatMap_cons, sum_append, ih]

theorem sum_map_sum_comm {ι κ : Type} [AddCommMonoid α] (A : List ι) (B : List κ) (F : ι → κ → α) :
    (A.map fun r => (B.map fun q => F r q).sum).sum = (B.map fun q => (A.map fun r => F r q).sum).sum := by
  induction A with
  | nil => simp
  | cons a A ih => simp only [map_cons, sum_cons, ih, sum_map_add]

theorem sum_map_div' {ι : Type} [Field α] (l : List ι) (f : ι → α) (c : α) :
    (l.map fun x => f x / c).sum = (l.map f).sum / c := by
  simp only [div_eq_mul_inv, List.sum_map_mul_right]

/-! ### sums over the members -/

/-- summing over the inverse orders is summing over the orders. -/
theorem sum_permutedAt [AddCommMonoid α] (T : Dense α) (grps : List (List Nat)) (n : Nat) (j : List Nat) :
    ((groupPerms n grps).map fun p => permutedAt T p j).sum =
      ((groupPerms n grps).map fun p => T.get (gather j p)).sum := by
  have h : ((groupPerms n grps).map fun p => permutedAt T p j) =
      ((groupPerms n grps).map invPerm).map (fun p => T.get (gather j p)) := by
    rw [map_map]; rfl
  rw [h]
  exact ((groupPerms_map_inv grps n).map _).sum_eq

theorem sum_const_div [Field α] [CharZero α] (l : List (List Nat)) (hl : l ≠ []) (c : α) :
    (l.map fun _ => c).sum / (l.length : α) = c := by
  have hne : (l.length : α) ≠ 0 := Nat.cast_ne_zero.2 (by simpa using hl)
  rw [map_const', sum_replicate, nsmul_eq_mul, mul_div_cancel_left₀ _ hne]

/-- the entries of the specification. -/
theorem symSpec_get [Field α] (T : Dense α) (grps : List (List Nat)) {j : List Nat}
    (hj : InBounds T.shape j) :
    (symSpec T grps).get j =
      ((groupPerms T.shape.length grps).map fun p => T.get (gather j p)).sum /
        ((groupPerms T.shape.length grps).length : α) := by
  unfold symSpec
  rw [Dense.ofFn_get _ _ hj, sum_permutedAt]

@[simp] theorem symSpec_shape [Field α] (T : Dense α) (grps : List (List Nat)) :
    (symSpec T grps).shape = T.shape := rfl

theorem symSpec_WF [Field α] (T : Dense α) (grps : List (List Nat)) : (symSpec T grps).WF :=
  Dense.ofFn_WF _ _

/-! ### `IsSym` in terms of `gather j p` -/

theorem permutedAt_inv [Zero α] (T : Dense α) {p : List Nat} {n : Nat} (hp : isPermOf p n = true)
    (j : List Nat) : permutedAt T (invPerm p) j = T.get (gather j p) := by
  unfold permutedAt; rw [invPerm_invPerm hp]

theorem isSym_iff [Zero α] (T : Dense α) {grps : List (List Nat)} (hs : SizesOK T.shape grps) :
    IsSym T grps ↔ ∀ p, GroupPerm grps T.shape.length p → ∀ j, InBounds T.shape j →
      T.get (gather j p) = T.get j := by
  constructor
  · intro h p hp j hj
    have := (h (invPerm p) hp.inv).2 j hj
    rwa [permutedAt_inv T hp.1] at this
  · intro h p hp
    refine ⟨hp.gather_shape hs, ?_⟩
    intro j hj
    have := h (invPerm p) hp.inv j hj
    exact this

/-- invariance under the orders of a larger group list implies invariance under those of a part. -/
theorem IsSym.mono [Zero α] {T : Dense α} {G G' : List (List Nat)} (h : ∀ g ∈ G, g ∈ G')
    (hT : IsSym T G') : IsSym T G := fun p hp => hT p (hp.mono h)

theorem isSym_nil [Zero α] (T : Dense α) : IsSym T [] := by
  intro p hp
  rw [groupPerm_nil_iff] at hp
  subst hp
  refine ⟨gather_range _, ?_⟩
  intro j hj
  unfold permutedAt
  rw [invPerm_range, gather_range_of_length hj.length_eq]

/-- symmetric for `g :: gs` iff symmetric for `[g]` and for `gs`. -/
theorem isSym_cons [Zero α] (T : Dense α) {g : List Nat} {gs : List (List Nat)}
    (V : ValidGroups T.shape.length (g :: gs)) (hs : SizesOK T.shape (g :: gs)) :
    IsSym T (g :: gs) ↔ IsSym T [g] ∧ IsSym T gs := by
  have hs1 : SizesOK T.shape [g] := fun h hh => hs h (by simp only [mem_singleton] at hh; subst hh; exact mem_cons_self)
  have hs2 : SizesOK T.shape gs := fun h hh => hs h (mem_cons_of_mem _ hh)
  constructor
  · intro h
    exact ⟨h.mono (by intro h hh; simp only [mem_singleton] at hh; subst hh; exact mem_cons_self),
      h.mono (fun h hh => mem_cons_of_mem _ hh)⟩
  · rintro ⟨h1, h2⟩
    rw [isSym_iff T hs]
    rw [isSym_iff T hs1] at h1
    rw [isSym_iff T hs2] at h2
    intro p hp j hj
    obtain ⟨r, q, hr, hq, rfl⟩ := decomp_exists V hp
    rw [← comp_assoc hq.1 hr.1, h1 r hr _ (hq.inBounds hs2 hj), h2 q hq j hj]

/-- symmetric for a list of groups iff symmetric for every single group. -/
theorem isSym_iff_forall [Zero α] (T : Dense α) : ∀ {grps : List (List Nat)},
    ValidGroups T.shape.length grps → SizesOK T.shape grps →
    (IsSym T grps ↔ ∀ g ∈ grps, IsSym T [g]) := by
  intro grps
  induction grps with
  | nil => intro _ _; simp [isSym_nil]
  | cons g gs ih =>
    intro V hs
    rw [isSym_cons T V hs, ih V.tail (fun h hh => hs h (mem_cons_of_mem _ hh))]
    simp

/-! ### group averaging -/

theorem symSpec_invariant [Field α] (T : Dense α) {grps : List (List Nat)}
    (V : ValidGroups T.shape.length grps) (hs : SizesOK T.shape grps) {q : List Nat}
    (hq : GroupPerm grps T.shape.length q) {j : List Nat} (hj : InBounds T.shape j) :
    (symSpec T grps).get (gather j q) = (symSpec T grps).get j := by
  rw [symSpec_get T grps (hq.inBounds hs hj), symSpec_get T grps hj]
  congr 1
  have h : ((groupPerms T.shape.length grps).map fun p => T.get (gather (gather j q) p)) =
      ((groupPerms T.shape.length grps).map fun p => gather q p).map (fun p => T.get (gather j p)) := by
    rw [map_map]
    apply map_congr_left
    intro p hp
    simp only [Function.comp]
    rw [comp_assoc hq.1 (mem_groupPerms.1 hp).1]
  rw [h]
  exact ((groupPerms_map_comp_left V hq).map _).sum_eq

/-- the average is invariant under every permutation of the modes inside the groups. -/
theorem symSpec_isSym [Field α] (T : Dense α) {grps : List (List Nat)}
    (V : ValidGroups T.shape.length grps) (hs : SizesOK T.shape grps) : IsSym (symSpec T grps) grps := by
  rw [isSym_iff _ (by simpa using hs)]
  intro p hp j hj
  exact symSpec_invariant T V hs hp hj

/-- the average of a symmetric tensor is the tensor. -/
theorem symSpec_fixes [Field α] [CharZero α] (T : Dense α) (hT : T.WF) {grps : List (List Nat)}
    (hs : SizesOK T.shape grps) (hsym : IsSym T grps) : symSpec T grps = T := by
  apply Dense.ext_get (symSpec_WF T grps) hT rfl
  intro j hj
  simp only [symSpec_shape] at hj
  rw [symSpec_get T grps hj]
  rw [isSym_iff T hs] at hsym
  have h : ((groupPerms T.shape.length grps).map fun p => T.get (gather j p)) =
      ((groupPerms T.shape.length grps).map fun _ => T.get j) := by
    apply map_congr_left
    intro p hp
    exact hsym p (mem_groupPerms.1 hp) j hj
  rw [h, sum_const_div _ (groupPerms_ne_nil grps _)]

/-- averaging twice is averaging once. -/
theorem symSpec_idem [Field α] [CharZero α] (T : Dense α) {grps : List (List Nat)}
    (V : ValidGroups T.shape.length grps) (hs : SizesOK T.shape grps) :
    symSpec (symSpec T grps) grps = symSpec T grps :=
  symSpec_fixes _ (symSpec_WF T grps) (by simpa using hs) (symSpec_isSym T V hs)

/-! ### averaging group by group -/

theorem sizesOK_head {s g : List Nat} {gs : List (List Nat)} (hs : SizesOK s (g :: gs)) : SizesOK s [g] :=
  fun h hh => hs h (by simp only [mem_singleton] at hh; subst hh; exact mem_cons_self)

theorem sizesOK_tail {s g : List Nat} {gs : List (List Nat)} (hs : SizesOK s (g :: gs)) : SizesOK s gs :=
  fun h hh => hs h (mem_cons_of_mem _ hh)

/-- the average for `g :: gs` is the average for `gs` of the average for `[g]`. -/
theorem symSpec_cons [Field α] [CharZero α] (T : Dense α) {g : List Nat} {gs : List (List Nat)}
    (V : ValidGroups T.shape.length (g :: gs)) (hs : SizesOK T.shape (g :: gs)) :
    symSpec T (g :: gs) = symSpec (symSpec T [g]) gs := by
  have hs1 := sizesOK_head hs
  have hs2 := sizesOK_tail hs
  apply Dense.ext_get (symSpec_WF T (g :: gs)) (symSpec_WF (symSpec T [g]) gs) rfl
  intro j hj
  simp only [symSpec_shape] at hj
  rw [symSpec_get T _ hj, symSpec_get (symSpec T [g]) gs (by simpa using hj)]
  simp only [symSpec_shape]
  -- inner entries
  have hin : ((groupPerms T.shape.length gs).map fun q => (symSpec T [g]).get (gather j q)) =
      ((groupPerms T.shape.length gs).map fun q =>
        ((groupPerms T.shape.length [g]).map fun r => T.get (gather (gather j q) r)).sum /
          ((groupPerms T.shape.length [g]).length : α)) := by
    apply map_congr_left
    intro q hq
    exact symSpec_get T [g] ((mem_groupPerms.1 hq).inBounds hs2 hj)
  rw [hin]
  -- the sum over the members for `g :: gs`, factored
  have hsum : ((groupPerms T.shape.length (g :: gs)).map fun p => T.get (gather j p)).sum =
      ((groupPerms T.shape.length gs).map fun q =>
        ((groupPerms T.shape.length [g]).map fun r => T.get (gather (gather j q) r)).sum).sum := by
    rw [← ((groupPerms_cons_perm V).map _).sum_eq, map_flatMap, sum_flatMap']
    simp only [map_map, Function.comp_def]
    -- swap the two summations
    have e1 : ∀ r ∈ groupPerms T.shape.length [g], ∀ q ∈ groupPerms T.shape.length gs,
        T.get (gather j (gather q r)) = T.get (gather (gather j q) r) := by
      intro r hr q hq
      rw [comp_assoc (mem_groupPerms.1 hq).1 (mem_groupPerms.1 hr).1]
    have e2 : (map (fun r => (map (fun q => T.get (gather j (gather q r))) (groupPerms T.shape.length gs)).sum)
          (groupPerms T.shape.length [g])) =
        (map (fun r => (map (fun q => T.get (gather (gather j q) r)) (groupPerms T.shape.length gs)).sum)
          (groupPerms T.shape.length [g])) := by
      apply map_congr_left
      intro r hr
      congr 1
      apply map_congr_left
      intro q hq
      exact e1 r hr q hq
    rw [e2]
    exact sum_map_sum_comm _ _ _
  rw [hsum, length_groupPerms_cons V, Nat.cast_mul]
  have h1 : ((groupPerms T.shape.length [g]).length : α) ≠ 0 :=
    Nat.cast_ne_zero.2 (by have := length_groupPerms_pos [g] T.shape.length; omega)
  have h2 : ((groupPerms T.shape.length gs).length : α) ≠ 0 :=
    Nat.cast_ne_zero.2 (by have := length_groupPerms_pos gs T.shape.length; omega)
  rw [sum_map_div', div_div]

end Sym
end Pyttb
