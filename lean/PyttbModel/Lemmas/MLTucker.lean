/-
C02 — Tucker `full` (= `core.ttm(all factors)`), and the sum tensor `full`.
-/
import PyttbModel.Lemmas.MLDenseTtmList
import PyttbModel.Lemmas.MLModes
import PyttbModel.Ops.MultilinearKT
namespace Pyttb
namespace ML

variable {α : Type}

/-- Well-formed Tucker tensor: one factor per core mode, each with as many columns as the core
mode has entries. -/
structure TuckerWF (T : Ttensor α) : Prop where
  core : T.core.WF
  len : T.factors.length = T.core.shape.length
  cols : ∀ d, d < T.factors.length → (T.factors.getD d []).ncols = T.core.shape.getD d 0

theorem complDims_range (N : Nat) : complDims N (List.range N) = [] := by
  unfold complDims
  rw [List.filter_eq_nil_iff]
  intro k hk
  simpa using List.mem_range.1 hk

theorem zip_range_eq_map {β : Type} (l : List β) (dflt : β) :
    (List.range l.length).zip l = (List.range l.length).map fun k => (k, l.getD k dflt) := by
  apply List.ext_getElem
  · simp
  · intro k h1 h2
    simp only [List.length_zip, List.length_range, Nat.min_self] at h1
    simp [List.getD_eq_getElem?_getD, List.getElem?_eq_getElem h1]

theorem prod_zipWith_range [CommMonoid α] {β : Type} (fs : List β) (dflt : β) (g : β → Nat → Nat → α) (i j : List Nat)
    (hi : i.length = fs.length) (hj : j.length = fs.length) :
    (List.zipWith (fun U (p : Nat × Nat) => g U p.1 p.2) fs (i.zip j)).prod =
      ((List.range fs.length).map fun d => g (fs.getD d dflt) (i.getD d 0) (j.getD d 0)).prod := by
  congr 1
  apply List.ext_getElem
  · simp [hi, hj]
  · intro k h1 h2
    simp only [List.length_map, List.length_range] at h2
    simp [List.getD_eq_getElem?_getD, List.getElem?_eq_getElem h2, List.getElem?_eq_getElem (hi ▸ h2),
      List.getElem?_eq_getElem (hj ▸ h2)]

/-- **Tucker `full`**: `core.ttm(factors)` denotes `Σ_j G[j] ∏ₙ Uₙ[iₙ, jₙ]`. -/
theorem tucker_full_spec [CommSemiring α] (T : Ttensor α) (hT : TuckerWF T) (hN : 1 ≤ T.factors.length) :
    ∃ D, T.full = .ok D ∧ D.shape = T.shape ∧ D.WF ∧ ∀ i, InBounds D.shape i → D.get i = T.get i := by
  set N := T.core.shape.length with hNc
  have hlen := hT.len
  set Ms : List (Dense.MatArg α) := T.factors.map fun U => ⟨U, U.length, U.ncols⟩ with hMs
  have hMl : Ms.length = N := by rw [hMs, List.length_map, hlen]
  -- mode designation: nothing listed = every mode, matrix `d` for mode `d`
  obtain ⟨pairs, e, hs, hp⟩ := resolve_dims_P N Ms (List.range N) List.nodup_range
    (fun x hx => List.mem_range.1 hx) (by simp [hMl])
  have hsorted : (((List.range N).zip Ms).map (·.1)).Pairwise (· < ·) := by
    rw [List.map_fst_zip (by simp [hMl])]
    exact List.pairwise_lt_range
  have hpairs : pairs = (List.range N).zip Ms := pairs_unique hs hsorted hp
  subst hpairs
  have hres : resolveModes N Ms none none = .ok ((List.range N).zip Ms) := by rw [resolve_none, e]
  have hkeys : (((List.range N).zip Ms).map (·.1)) = List.range N := List.map_fst_zip (by simp [hMl])
  have hmem : ∀ p ∈ (List.range N).zip Ms, p.1 < N ∧ p.2 = ⟨T.factors.getD p.1 [], (T.factors.getD p.1 []).length,
      (T.factors.getD p.1 []).ncols⟩ := by
    intro p hp'
    rw [← hMl, zip_range_eq_map Ms ⟨[], 0, 0⟩] at hp'
    obtain ⟨k, hk, rfl⟩ := List.mem_map.1 hp'
    have hk' : k < T.factors.length := by simpa [hMs] using List.mem_range.1 hk
    refine ⟨by rw [← hMl]; exact List.mem_range.1 hk, ?_⟩
    simp [hMs, List.getD_eq_getElem?_getD, List.getElem?_eq_getElem hk']
  set Mf : Nat → Nat → Nat → α := fun d a b => (T.factors.getD d []).get a b with hMf
  obtain ⟨Y, e1, w1, l1, _, r1, g1⟩ := dense_ttmList_spec T.core hT.core false Mf ((List.range N).zip Ms)
    (by rw [hkeys]; exact List.nodup_range) (fun p hp' => (hmem p hp').1)
    (by
      intro p hp'
      obtain ⟨h1, h2⟩ := hmem p hp'
      simp only [Bool.false_eq_true, if_false]
      rw [h2]
      exact hT.cols p.1 (by rw [hlen]; exact h1))
    (by
      intro p hp' a b
      simp only [Bool.false_eq_true, if_false, hMf]
      rw [(hmem p hp').2])
  have hNpos : 1 ≤ N := by rw [hNc, ← hlen]; exact hN
  have hfull : T.full = .ok Y := by
    unfold Ttensor.full Dense.ttm
    rw [← hMs, ← hNc, hres]
    cases hz : (List.range N).zip Ms with
    | nil =>
      have : ((List.range N).zip Ms).length = N := by simp [hMl]
      rw [hz] at this; simp at this; omega
    | cons a l => simp only; rw [← hz]; exact e1
  have hshape : Y.shape = T.shape := by
    apply List.ext_getElem
    · rw [l1]; simp [Ttensor.shape, hlen]
    · intro d h1 h2
      have hd : d < N := by rw [l1] at h1; exact h1
      have hmemd : (d, Ms.getD d ⟨[], 0, 0⟩) ∈ (List.range N).zip Ms := by
        rw [← hMl, zip_range_eq_map Ms ⟨[], 0, 0⟩]
        exact List.mem_map.2 ⟨d, List.mem_range.2 (by rw [hMl]; exact hd), rfl⟩
      have := r1 _ hmemd
      simp only [Bool.false_eq_true, if_false] at this
      have h2 := (hmem _ hmemd).2
      simp only at h2
      rw [h2] at this
      simp only [Ttensor.shape, List.getElem_map]
      have hd' : d < T.factors.length := by rw [hlen]; exact hd
      rw [List.getD_eq_getElem?_getD, List.getElem?_eq_getElem h1] at this
      simp only [Option.getD_some] at this
      rw [this, List.getD_eq_getElem?_getD, List.getElem?_eq_getElem hd']
      rfl
  refine ⟨Y, hfull, hshape, w1, ?_⟩
  intro i hi
  rw [g1 i hi, hkeys]
  have hil : i.length = T.factors.length := by rw [hi.length_eq, hshape]; simp [Ttensor.shape]
  -- the fiber with nothing fixed is every cell of the core
  unfold Spec.ttm Ttensor.get Spec.sumOver
  have hrem : complDims T.core.den.shape.length (List.range N) = [] := complDims_range N
  simp only [hrem]
  have hf : Spec.fiber T.core.den.shape [] (gather i []) = allSubs T.core.shape := by
    show (allSubs T.core.shape).filter _ = _
    rw [List.filter_eq_self]; intro k _; rfl
  rw [hf]
  apply sum_congr
  intro j hj
  have hjl : j.length = T.factors.length := by rw [(mem_allSubs.1 hj).length_eq, hlen]
  show T.core.get j * _ = T.core.get j * _
  congr 1
  rw [prod_zipWith_range T.factors [] (fun U a b => Mat.get U a b) i j hil hjl, hlen]

end ML
end Pyttb
