/-
C06 for `sptensor.squash`: the result is well-formed and reordering the operand only reorders
the stored pairs of the result.
-/
import PyttbModel.Ops.SparseSquash
import PyttbModel.Lemmas.SparseOrderIndep
import PyttbModel.Lemmas.EraseDups
import PyttbModel.Lemmas.MLSparse
namespace Pyttb
open SpElem
variable {α : Type}

theorem mem_uniqueSorted (col : List Nat) (x : Nat) : x ∈ uniqueSorted col ↔ x ∈ col := by
  unfold uniqueSorted
  rw [ML.mem_eraseDups]
  exact (List.mergeSort_perm _ _).mem_iff

theorem uniqueSorted_length_le (col : List Nat) : (uniqueSorted col).length ≤ col.length := by
  unfold uniqueSorted
  calc _ ≤ (col.mergeSort (fun a b => decide (a ≤ b))).length := eraseDups_length_le _
    _ = col.length := List.length_mergeSort _

theorem uniqueSorted_perm {c c' : List Nat} (h : c'.Perm c) : uniqueSorted c' = uniqueSorted c := by
  unfold uniqueSorted
  congr 1
  have pw : ∀ l : List Nat, (l.mergeSort (fun a b => decide (a ≤ b))).Pairwise (· ≤ ·) := by
    intro l
    have := List.pairwise_mergeSort (le := fun (a b : Nat) => decide (a ≤ b))
      (fun a b c hab hbc => by simp only [decide_eq_true_eq] at *; omega)
      (fun a b => by simp only [Bool.or_eq_true, decide_eq_true_eq]; omega) l
    exact this.imp (fun h => by simpa using h)
  apply List.Perm.eq_of_pairwise (le := fun a b => a ≤ b) (fun a b _ _ h1 h2 => by omega) (pw c') (pw c)
  exact ((List.mergeSort_perm _ _).trans h).trans (List.mergeSort_perm _ _).symm

/-- the renumbering of one row. -/
def squashRow (maps : List (List Nat)) (N : Nat) (r : List Nat) : List Nat :=
  (List.range N).map fun n => (maps.getD n []).idxOf (r.getD n 0)

theorem squash_eq (S : Sparse α) (h : S.subs ≠ []) :
    squash S = .ok (⟨List.replicate S.shape.length S.subs.length,
      S.subs.map (squashRow ((List.range S.shape.length).map fun n => uniqueSorted (S.subs.map fun r => r.getD n 0))
        S.shape.length), S.vals⟩,
      (List.range S.shape.length).map fun n => uniqueSorted (S.subs.map fun r => r.getD n 0)) := by
  unfold squash squashRow
  have : S.subs.isEmpty = false := by
    cases hs : S.subs with
    | nil => exact absurd hs h
    | cons _ _ => rfl
  simp [this]

theorem inBounds_replicate_of {N k : Nat} {i : List Nat} (hl : i.length = N) (h : ∀ x ∈ i, x < k) :
    InBounds (List.replicate N k) i := by
  induction N generalizing i with
  | zero => cases i <;> simp_all [InBounds]
  | succ N ih =>
    cases i with
    | nil => simp at hl
    | cons a i =>
      simp only [List.replicate_succ, InBounds]
      exact ⟨h a (by simp), ih (by simpa using hl) (fun x hx => h x (by simp [hx]))⟩

theorem squash_wf [Zero α] [BEq α] (S : Sparse α) (hS : S.WF) (h : S.subs ≠ []) :
    ∃ R m, squash S = .ok (R, m) ∧ R.WF ∧ R.vals = S.vals ∧ R.nnz = S.nnz := by
  refine ⟨_, _, squash_eq S h, ?_, rfl, by simp [Sparse.nnz]⟩
  set maps := (List.range S.shape.length).map fun n => uniqueSorted (S.subs.map fun r => r.getD n 0) with hmaps
  have hget : ∀ n, n < S.shape.length → maps.getD n [] = uniqueSorted (S.subs.map fun r => r.getD n 0) := by
    intro n hn
    simp [hmaps, List.getD_eq_getElem?_getD, List.getElem?_map, List.getElem?_range hn]
  apply wf_map_subs S hS
  · intro r hr
    apply inBounds_replicate_of (by simp [squashRow])
    intro x hx
    simp only [squashRow, List.mem_map, List.mem_range] at hx
    obtain ⟨n, hn, rfl⟩ := hx
    rw [hget n hn]
    have hm : r.getD n 0 ∈ uniqueSorted (S.subs.map fun r => r.getD n 0) :=
      (mem_uniqueSorted _ _).2 (List.mem_map.2 ⟨r, hr, rfl⟩)
    calc _ < (uniqueSorted (S.subs.map fun r => r.getD n 0)).length := List.idxOf_lt_length_of_mem hm
      _ ≤ (S.subs.map fun r => r.getD n 0).length := uniqueSorted_length_le _
      _ = S.subs.length := by simp
  · intro a ha b hb hab
    have hla := (hS.inb a ha).length_eq
    have hlb := (hS.inb b hb).length_eq
    apply List.ext_getElem (by rw [hla, hlb])
    intro n h1 h2
    have hn : n < S.shape.length := by rw [← hla]; exact h1
    have hcomp : (squashRow maps S.shape.length a)[n]? = (squashRow maps S.shape.length b)[n]? := by rw [hab]
    simp only [squashRow, List.getElem?_map, List.getElem?_range hn, Option.map_some, Option.some.injEq,
      hget n hn] at hcomp
    have hma : a.getD n 0 ∈ uniqueSorted (S.subs.map fun r => r.getD n 0) :=
      (mem_uniqueSorted _ _).2 (List.mem_map.2 ⟨a, ha, rfl⟩)
    have hmb : b.getD n 0 ∈ uniqueSorted (S.subs.map fun r => r.getD n 0) :=
      (mem_uniqueSorted _ _).2 (List.mem_map.2 ⟨b, hb, rfl⟩)
    have := (List.idxOf_inj hma).1 hcomp
    simpa [List.getD_eq_getElem?_getD, List.getElem?_eq_getElem h1, List.getElem?_eq_getElem h2] using this

/-- reordering the operand reorders the stored pairs of the squashed tensor and leaves the
per-mode coordinate maps unchanged. -/
theorem squash_perm [Zero α] [BEq α] (S S' : Sparse α) (hS : S.WF) (rS : Reorder S' S) (h : S.subs ≠ []) :
    ∃ R R' m, squash S = .ok (R, m) ∧ squash S' = .ok (R', m) ∧ Reorder R' R := by
  have hS' := wf_perm rS hS
  obtain ⟨hsh, hl', hp⟩ := rS
  have ps : S'.subs.Perm S.subs := by
    rw [← S'.entries_keys hl', ← S.entries_keys hS.len]; exact hp.map _
  have h' : S'.subs ≠ [] := fun e => h (List.Perm.eq_nil (by rw [← e]; exact ps.symm))
  have hmaps : ((List.range S'.shape.length).map fun n => uniqueSorted (S'.subs.map fun r => r.getD n 0)) =
      (List.range S.shape.length).map fun n => uniqueSorted (S.subs.map fun r => r.getD n 0) := by
    rw [hsh]
    apply List.map_congr_left
    intro n _
    exact uniqueSorted_perm (ps.map _)
  have e' := squash_eq S' h'
  rw [hmaps, hsh, ps.length_eq] at e'
  refine ⟨_, _, _, squash_eq S h, e', rfl, by simpa using hl', ?_⟩
  set φ := squashRow ((List.range S.shape.length).map fun n => uniqueSorted (S.subs.map fun r => r.getD n 0))
    S.shape.length
  have e1 : ∀ (T : Sparse α), (T.subs.map φ).zip T.vals = T.entries.map (fun e => (φ e.1, e.2)) := by
    intro T
    unfold Sparse.entries
    rw [List.zip_map_left]; rfl
  show ((S'.subs.map φ).zip S'.vals).Perm ((S.subs.map φ).zip S.vals)
  rw [e1 S', e1 S]
  exact hp.map _
