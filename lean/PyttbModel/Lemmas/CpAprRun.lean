/-
Lemmas for C11 (CP-APR), part 4: what `validate` guarantees and the invariants of whole runs.
-/
import PyttbModel.Lemmas.CpAprShape
set_option linter.unusedSectionVars false
set_option linter.unusedVariables false
namespace Pyttb.CpApr
open Pyttb.CpApr.Gen

variable {α : Type} [Field α] [LinearOrder α] [IsStrictOrderedRing α]
variable (log : α → α)

theorem all_not_lt_nonneg {l : List α}
    (h : l.all (fun v => !(NumOps.ofField log).lt v 0) = true) : NonnegL l := by
  intro x hx
  rw [List.all_eq_true] at h
  have := h x hx
  simpa [NumOps.ofField] using this

/-- What the argument checks establish. -/
theorem validate_spec {c : Consts α} {cfg : Cfg α} {alg : Alg} {X : Data α} {init : Ktensor α}
    (h : validate (NumOps.ofField log) c cfg alg X init = true) :
    NonnegData X ∧ NonnegK init ∧ ShapeK X.shape cfg.rank init ∧ 0 < cfg.maxiters ∧ 0 < cfg.rank ∧
      0 < c.maxSteps ∧ 0 < X.shape.length := by
  unfold validate at h
  simp only [Bool.and_eq_true, decide_eq_true_eq, beq_iff_eq] at h
  obtain ⟨⟨⟨⟨⟨⟨⟨⟨⟨⟨⟨hrank, hdata⟩, _⟩, hN⟩, hR⟩, hshape⟩, hfac⟩, hw⟩, hmi⟩, _⟩, hms⟩, hNpos⟩ := h
  refine ⟨?_, ⟨all_not_lt_nonneg log hw, ?_⟩, ⟨hR, hshape, ?_⟩, hmi, hrank, hms, hNpos⟩
  · cases X with
    | dense T =>
      simp only [Bool.and_eq_true] at hdata
      exact all_not_lt_nonneg log hdata.1.2
    | sparse S =>
      simp only [Bool.and_eq_true] at hdata
      exact all_not_lt_nonneg log hdata.1.2
  · intro A hA row hrow
    rw [List.all_eq_true] at hfac
    have h1 := hfac A hA
    rw [List.all_eq_true] at h1
    have h2 := h1 row hrow
    simp only [Bool.and_eq_true] at h2
    exact all_not_lt_nonneg log h2.2
  · intro A hA row hrow
    rw [List.all_eq_true] at hfac
    have h1 := hfac A hA
    rw [List.all_eq_true] at h1
    have h2 := h1 row hrow
    simp only [Bool.and_eq_true, beq_iff_eq] at h2
    exact h2.1

/-- Every state of the MU outer loop satisfies the invariant. -/
theorem muStates_inv {cfg : Cfg α} (hk : 0 ≤ cfg.kappa) (heps : 0 < cfg.eps) {X : Data α}
    (hX : NonnegData X) {init : Ktensor α} (hi : NonnegK init) (k : Nat) (s : MuSt α)
    (h : muStates (NumOps.ofField log) cfg X init k = .ok s) : MuInv cfg s :=
  iterE_inv (MuInv cfg) _ (fun a a' ha hh => muOuter_inv log hk heps hX a a' ha hh) k _ _
    (muInit_inv log hi) h

theorem muStates_shape (o : NumOps α) (cfg : Cfg α) (X : Data α) {shape : List Nat} {R : Nat}
    {init : Ktensor α} (hi : ShapeK shape R init) (k : Nat) (s : MuSt α)
    (h : muStates o cfg X init k = .ok s) : ShapeK shape R s.M :=
  iterE_inv (fun a : MuSt α => ShapeK shape R a.M) _
    (fun a a' ha hh => muOuter_shape o cfg X a a' ha hh) k _ _ (normalize1_shape o hi) h

/-- Every state of the PDNR / PQNR outer loop satisfies the invariant, whatever `dir` is. -/
theorem nwStates_inv {c : Consts α} (hc : 0 ≤ c.zeroRowFill) (cfg : Cfg α) (alg : Alg) (dir : Dir α)
    (X : Data α) {init : Ktensor α} (hi : NonnegK init) (k : Nat) (s : NwSt α)
    (h : nwStates (NumOps.ofField log) c cfg alg dir X init k = .ok s) : NwInv cfg s :=
  iterE_inv (NwInv cfg) _ (fun a a' ha hh => nwOuter_inv log c cfg alg dir X a a' ha hh) k _ _
    (nwInit_inv log hc hi) h

theorem nwStates_shape (c : Consts α) (cfg : Cfg α) (alg : Alg) (dir : Dir α) (X : Data α)
    {shape : List Nat} {R : Nat} {init : Ktensor α} (hi : ShapeK shape R init) (k : Nat) (s : NwSt α)
    (h : nwStates (NumOps.ofField log) c cfg alg dir X init k = .ok s) : ShapeK shape R s.M :=
  iterE_inv (fun a : NwSt α => ShapeK shape R a.M) _
    (fun a a' ha hh => nwOuter_shape log c cfg alg dir X a a' ha hh) k _ _
    (normalize1_shape _ (zeroRowPatch_shape _ c hi)) h

/-- The loop state from which `cp_apr` builds its result: model, KKT list, inner-iteration
list, iteration count. -/
structure Final (α : Type) where
  M : Ktensor α
  kkt : List α
  nInner : List Nat
  iter : Nat

/-- A successful call of `cpApr` passed validation, ran its outer loop to a final state and
applied the common tail to it. -/
theorem cpApr_ok {c : Consts α} {cfg : Cfg α} {alg : Alg} {dir : Dir α} {sortPerm : List α → List Nat}
    {X : Data α} {init : Ktensor α} {out : Out α} (o : NumOps α)
    (h : cpApr o c cfg alg dir sortPerm X init = .ok out) :
    validate o c cfg alg X init = true ∧
    ∃ F : Final α,
      ((alg = .mu ∧ ∃ s, muStates o cfg X init cfg.maxiters = .ok s ∧
          F = ⟨s.M, s.kkt, s.nInner, s.iter⟩) ∨
       (alg ≠ .mu ∧ ∃ s, nwStates o c cfg alg dir X init cfg.maxiters = .ok s ∧
          F = ⟨s.M, s.kkt, s.nInner, s.iter⟩)) ∧
      out.M = (logLik o X (normalizeSort o sortPerm F.M)).1 ∧
      out.obj = (logLik o X (normalizeSort o sortPerm F.M)).2 ∧
      out.kkt = F.kkt ∧ out.nInner = F.nInner ∧ out.iters = F.iter := by
  unfold cpApr at h
  split at h
  · cases h
  · next hv =>
    refine ⟨by simpa using hv, ?_⟩
    cases alg with
    | mu =>
      simp only at h
      split at h
      · cases h
      · next s hs =>
        cases h
        exact ⟨⟨s.M, s.kkt, s.nInner, s.iter⟩, Or.inl ⟨rfl, s, hs, rfl⟩, rfl, rfl, rfl, rfl, rfl⟩
    | pdnr =>
      simp only at h
      split at h
      · cases h
      · next s hs =>
        cases h
        exact ⟨⟨s.M, s.kkt, s.nInner, s.iter⟩, Or.inr ⟨by decide, s, hs, rfl⟩, rfl, rfl, rfl, rfl, rfl⟩
    | pqnr =>
      simp only at h
      split at h
      · cases h
      · next s hs =>
        cases h
        exact ⟨⟨s.M, s.kkt, s.nInner, s.iter⟩, Or.inr ⟨by decide, s, hs, rfl⟩, rfl, rfl, rfl, rfl, rfl⟩

end Pyttb.CpApr
