/- Lemmas about the file-format model (`IO/Format.lean`) used by the C16 theorems. Core Lean only. -/
import PyttbModel.IO.Format
namespace Pyttb.Format
variable {α τ : Type}

/-! ### integers on a line, `import_shape` -/

theorem lineInts_map_int {β : Type} (l : List β) (f : β → Int) :
    lineInts (l.map fun x => (Token.int (f x) : Token τ)) = some (l.map f) := by
  induction l with
  | nil => rfl
  | cons x xs ih => simp [lineInts, tokInt, ih]

theorem importShape_sizeLines (shape : List Nat) (h : shape ≠ []) (rest : File τ) :
    importShape (sizeLines shape ++ rest) = .ok (shape, rest) := by
  cases shape with
  | nil => exact absurd rfl h
  | cons d ds =>
    have hl := lineInts_map_int (τ := τ) (d :: ds) (fun (k : Nat) => (k : Int))
    simp only [List.map_cons] at hl
    simp [importShape, sizeLines, readline, firstInt, tokInt, hl, Function.comp_def]

/-- an order line that disagrees with the number of extents is rejected (whatever follows). -/
theorem importShape_wrong_length (n : Int) (t : Token τ) (extents : Line τ) (junk : Line τ) (rest : File τ)
    (h : ((t :: extents).length : Int) ≠ n) :
    importShape ((.int n :: junk) :: (t :: extents) :: rest) = .error .reject := by
  simp only [importShape, readline, firstInt, tokInt]
  cases hl : lineInts (t :: extents) with
  | none => rfl
  | some sz =>
    have hlen : ∀ (l : Line τ) (sz : List Int), lineInts l = some sz → sz.length = l.length := by
      intro l
      induction l with
      | nil => intro sz h; simp [lineInts] at h; subst h; rfl
      | cons a as ih =>
        intro sz h
        simp only [lineInts] at h
        cases ha : tokInt a with
        | none => simp [ha] at h
        | some k =>
          cases hs : lineInts as with
          | none => simp [ha, hs] at h
          | some ks =>
            simp [ha, hs] at h; subst h
            simp [ih ks hs]
    have := hlen _ _ hl
    have hne : ¬ ((sz.length : Int) = n) := by rw [this]; exact h
    simp [hne]

/-! ### `np.fromfile` -/

theorem skipWs_nil : skipWs ([] : File τ) = [] := rfl
theorem skipWs_blank (f : File τ) : skipWs ([] :: f) = skipWs f := by simp [skipWs]
theorem skipWs_cons (t : Token τ) (l : Line τ) (f : File τ) : skipWs ((t :: l) :: f) = (t :: l) :: f := by
  simp [skipWs]

theorem skipWs_idem (f : File τ) : skipWs (skipWs f) = skipWs f := by
  induction f with
  | nil => rfl
  | cons l ls ih =>
    cases l with
    | nil => simpa [skipWs_blank] using ih
    | cons t l => simp [skipWs_cons]

theorem fromfile_skipWs (parse : τ → α) (ofInt : Int → α) (k : Nat) (f : File τ) :
    fromfile parse ofInt (k + 1) (skipWs f) = fromfile parse ofInt (k + 1) f := by
  simp only [fromfile, skipWs_idem]

section
variable (fmt : α → τ) (parse : τ → α) (ofInt : Int → α) (hp : ∀ v, parse (fmt v) = v)
include hp

theorem tokVal_tokV (v : α) : tokVal parse ofInt (tokV fmt v) = some v := by
  simp [tokVal, tokV, hp]

/-- Reading the numbers of (the rest of) one line, then going on. -/
theorem fromfile_line (vs : List α) (l' : Line τ) (rest : File τ) (n : Nat) :
    fromfile parse ofInt (vs.length + n) (skipWs ((vs.map (tokV fmt) ++ l') :: rest)) =
      (vs ++ (fromfile parse ofInt n (skipWs (l' :: rest))).1,
       (fromfile parse ofInt n (skipWs (l' :: rest))).2) := by
  induction vs with
  | nil => simp
  | cons v vs ih =>
    have hn : (v :: vs).length + n = (vs.length + n) + 1 := by simp; omega
    rw [hn]
    simp only [List.map_cons, List.cons_append, skipWs_cons, fromfile, tokVal_tokV fmt parse ofInt hp, ih]

/-- Reading all the numbers of consecutive lines, then going on: line ends are white space. -/
theorem fromfile_lines (ls : List (List α)) (rest : File τ) (n : Nat) :
    fromfile parse ofInt (ls.flatten.length + n) (skipWs (ls.map (fun l => l.map (tokV fmt)) ++ rest)) =
      (ls.flatten ++ (fromfile parse ofInt n (skipWs rest)).1,
       (fromfile parse ofInt n (skipWs rest)).2) := by
  induction ls generalizing n with
  | nil => simp
  | cons l ls ih =>
    have hn : (l :: ls).flatten.length + n = l.length + (ls.flatten.length + n) := by simp; omega
    have h := fromfile_line fmt parse ofInt hp l [] (ls.map (fun l => l.map (tokV fmt)) ++ rest)
      (ls.flatten.length + n)
    simp only [List.append_nil] at h
    rw [hn]
    simp only [List.map_cons, List.cons_append, h, skipWs_blank, ih]
    simp

/-- The numbers of a block of lines are read back, whatever their arrangement in lines. -/
theorem fromfile_block_fst (ls : List (List α)) (rest : File τ) :
    (fromfile parse ofInt ls.flatten.length (ls.map (fun l => l.map (tokV fmt)) ++ rest)).1 = ls.flatten := by
  cases hN : ls.flatten.length with
  | zero =>
    have : ls.flatten = [] := List.eq_nil_of_length_eq_zero hN
    simp [fromfile, this]
  | succ k =>
    rw [← fromfile_skipWs, ← hN]
    have h := fromfile_lines fmt parse ofInt hp ls rest 0
    simp only [Nat.add_zero] at h
    rw [h]; simp [fromfile]

/-- … and the reader is left at the start of what follows, when that is the end of the file
or a non-blank line, and the block has no blank lines without numbers. -/
theorem fromfile_block (ls : List (List α)) (rest : File τ) (h0 : ls.flatten = [] → ls = [])
    (hrest : skipWs rest = rest) :
    fromfile parse ofInt ls.flatten.length (ls.map (fun l => l.map (tokV fmt)) ++ rest) = (ls.flatten, rest) := by
  cases hN : ls.flatten.length with
  | zero =>
    have hf : ls.flatten = [] := List.eq_nil_of_length_eq_zero hN
    have : ls = [] := h0 hf
    subst this
    simp [fromfile]
  | succ k =>
    rw [← fromfile_skipWs, ← hN]
    have h := fromfile_lines fmt parse ofInt hp ls rest 0
    simp only [Nat.add_zero] at h
    rw [h]; simp [fromfile, hrest]

end

/-! ### `export_array`, rows of a factor -/

/-- The lines `export_array` writes, as lists of values. -/
def arrayRows (d : List α) : List (List α) := if d.isEmpty then [[]] else d.map fun v => [v]

theorem arrayRows_flatten (d : List α) : (arrayRows d).flatten = d := by
  unfold arrayRows
  cases d with
  | nil => rfl
  | cons v vs =>
    simp only [List.isEmpty_cons, Bool.false_eq_true, if_false]
    generalize v :: vs = l
    induction l with
    | nil => rfl
    | cons a as ih => simp [ih]

theorem arrayLines_eq (fmt : α → τ) (d : List α) :
    arrayLines (d.map (tokV fmt)) = (arrayRows d).map (fun l => l.map (tokV fmt)) := by
  unfold arrayLines arrayRows
  cases d with
  | nil => rfl
  | cons v vs => simp [Function.comp_def]

theorem chunk_flatten (c : Nat) : ∀ (r : Nat) (d : List α), d.length = r * c → (chunk c r d).flatten = d
  | 0, d, h => by
    have : d = [] := List.eq_nil_of_length_eq_zero (by simpa using h)
    simp [chunk, this]
  | r + 1, d, h => by
    have hd : (d.drop c).length = r * c := by
      rw [List.length_drop, h, Nat.succ_mul]; omega
    simp [chunk, chunk_flatten c r (d.drop c) hd]

/-! ### `import_sparse_array` and the constructor check -/

/-- Entry lines written with offset `b'` and read with offset `b`: every subscript comes back
shifted by `b' - b`; values and the order of the entries are kept. -/
theorem readEntries_shift (fmt : α → τ) (parse : τ → α) (ofInt : Int → α) (hp : ∀ v, parse (fmt v) = v)
    (b b' : Int) (n : Nat) (rest : File τ) :
    ∀ (subs : List (List Int)) (vals : List α), subs.length = vals.length → (∀ s ∈ subs, s.length = n) →
      readEntries parse ofInt b n subs.length (List.zipWith (entryLine fmt b') subs vals ++ rest) =
        .ok (subs.map (fun s => s.map fun i => i + b' - b), vals)
  | [], [], _, _ => rfl
  | [], _ :: _, h, _ => by simp at h
  | _ :: _, [], h, _ => by simp at h
  | s :: subs, v :: vals, h, hs => by
    have hlen : subs.length = vals.length := by simpa using h
    have ih := readEntries_shift fmt parse ofInt hp b b' n rest subs vals hlen
      (fun s' hs' => hs s' (List.mem_cons_of_mem _ hs'))
    have hsn : s.length = n := hs s (List.mem_cons_self ..)
    have hints := lineInts_map_int (τ := τ) s (fun i => i + b')
    simp [readEntries, readline, entryLine, List.zipWith, hints, assignRow, hsn, Function.comp_def,
      tokVal_tokV fmt parse ofInt hp, ih]

theorem readEntries_entryLines (fmt : α → τ) (parse : τ → α) (ofInt : Int → α) (hp : ∀ v, parse (fmt v) = v)
    (b : Int) (n : Nat) (rest : File τ) (subs : List (List Int)) (vals : List α)
    (hlen : subs.length = vals.length) (hs : ∀ s ∈ subs, s.length = n) :
    readEntries parse ofInt b n subs.length (List.zipWith (entryLine fmt b) subs vals ++ rest) = .ok (subs, vals) := by
  have h := readEntries_shift fmt parse ofInt hp b b n rest subs vals hlen hs
  have hid : (fun (s : List Int) => s.map fun i => i + b - b) = id := by
    funext s
    have : (fun (i : Int) => i + b - b) = id := by funext i; simp [Int.add_sub_cancel]
    rw [this]; simp
  rw [hid] at h
  simpa using h

theorem fits_of_below : ∀ (s : List Int) (shape : List Nat), Below s shape → fits shape s = true
  | [], [], _ => by simp [fits]
  | [], _ :: _, h => by simp [Below] at h
  | _ :: _, [], h => by simp [Below] at h
  | i :: is, d :: ds, h => by
    have ih := fits_of_below is ds h.2
    have h0 : 0 ≤ i := h.1.1
    have h1 : i + 1 ≤ (d : Int) := by have := h.1.2; omega
    simp only [fits, List.length_cons, List.zipWith_cons_cons, List.all_cons, Bool.and_eq_true, beq_iff_eq,
      decide_eq_true_eq, id] at ih ⊢
    exact ⟨by omega, ⟨h0, h1⟩, ih.2⟩

theorem below_of_fits : ∀ (s : List Int) (shape : List Nat), fits shape s = true → Below s shape
  | [], [], _ => trivial
  | [], _ :: _, h => by simp [fits] at h
  | _ :: _, [], h => by simp [fits] at h
  | i :: is, d :: ds, h => by
    simp only [fits, List.length_cons, List.zipWith_cons_cons, List.all_cons, Bool.and_eq_true, beq_iff_eq,
      decide_eq_true_eq, id] at h
    refine ⟨⟨h.2.1.1, by have := h.2.1.2; omega⟩, below_of_fits is ds ?_⟩
    simp only [fits, Bool.and_eq_true, beq_iff_eq]
    exact ⟨by omega, h.2.2⟩

theorem nonneg_of_below : ∀ (s : List Int) (shape : List Nat), Below s shape → ∀ i ∈ s, 0 ≤ i
  | [], _, _ => by simp
  | _ :: _, [], h => by simp [Below] at h
  | i :: is, d :: ds, h => by
    intro j hj
    rcases List.mem_cons.mp hj with rfl | hj
    · exact h.1.1
    · exact nonneg_of_below is ds h.2 j hj

/-! ### the factor blocks of a ktensor file -/

theorem skipWs_factorBlocks (fmt : α → τ) (fs : List (NdC α)) :
    skipWs (fs.flatMap (factorLines fmt)) = fs.flatMap (factorLines fmt) := by
  cases fs with
  | nil => rfl
  | cons F fs => simp [factorLines, skipWs_cons]

theorem readFactors_factorBlocks (fmt : α → τ) (parse : τ → α) (ofInt : Int → α) (hp : ∀ v, parse (fmt v) = v)
    (R : Nat) (hR : 0 < R) :
    ∀ (fs : List (NdC α)), (∀ F ∈ fs, FactorWF R F) →
      readFactors parse ofInt (R : Int) (fs.map fun F => F.shape.headD 0) (fs.flatMap (factorLines fmt)) = .ok fs
  | [], _ => rfl
  | F :: fs, h => by
    have ih := readFactors_factorBlocks fmt parse ofInt hp R hR fs (fun F' hF' => h F' (List.mem_cons_of_mem _ hF'))
    obtain ⟨r, hshape, hdata⟩ := h F (List.mem_cons_self ..)
    obtain ⟨shape, data⟩ := F
    simp only at hshape hdata
    subst hshape
    have hnum : numel [r, R] = data.length := by simp [numel, hdata]
    have hfl : (chunk R r data).flatten = data := chunk_flatten R r data hdata
    have h0 : (chunk R r data).flatten = [] → chunk R r data = [] := by
      intro he
      rw [hfl] at he
      have : r = 0 := by
        subst he
        simp at hdata
        rcases Nat.mul_eq_zero.mp hdata.symm with h | h
        · exact h
        · omega
      subst this; rfl
    have hb := fromfile_block fmt parse ofInt hp (chunk R r data) (fs.flatMap (factorLines fmt)) h0
      (skipWs_factorBlocks fmt fs)
    rw [hfl] at hb
    have hsz := importShape_sizeLines (τ := τ) [r, R] (by simp)
      ((chunk R r data).map (fun l => l.map (tokV fmt)) ++ fs.flatMap (factorLines fmt))
    simp only [List.map_cons, List.flatMap_cons, readFactors, factorLines, readline, List.cons_append,
      List.append_assoc, List.tail_cons, List.headD_cons, rowsOf]
    have hn1 : numel [R] = R := by simp [numel]
    rw [hn1, hsz]
    simp only [hnum, hb, ih, if_true, List.map_cons, List.map_nil]
    exact if_pos rfl

theorem ktensorOk_of_wf (w : List α) (fs : List (NdC α)) (hne : fs ≠ [])
    (h : ∀ F ∈ fs, FactorWF w.length F) : ktensorOk w fs = true := by
  cases fs with
  | nil => exact absurd rfl hne
  | cons F0 fs =>
    have hsh : ∀ F ∈ F0 :: fs, F.shape[1]? = some w.length := by
      intro F hF
      obtain ⟨r, hs, _⟩ := h F hF
      simp [hs]
    simp only [ktensorOk, hsh F0 (List.mem_cons_self ..)]
    simp only [Bool.and_eq_true, beq_iff_eq, List.all_eq_true, and_true]
    exact fun F hF => hsh F hF

/-! ### decode ∘ encode, with the subscript offset as a parameter -/
section
variable (fmt : α → τ) (parse : τ → α) (ofInt : Int → α) (hp : ∀ v, parse (fmt v) = v)
include hp

theorem roundtrip_dense (b : Int) (T : Dense α) (h : (Obj.dense T).WF) :
    decode parse ofInt b (encodeBase fmt b (.dense T)) = .ok (.dense T) := by
  obtain ⟨shape, data⟩ := T
  obtain ⟨hs, hd⟩ := h
  simp only at hs hd
  have hb := fromfile_block_fst fmt parse ofInt hp (arrayRows data) []
  rw [arrayRows_flatten] at hb
  simp only [decode, encodeBase, readline, if_true, decodeDense, importShape_sizeLines shape hs,
    arrayLines_eq]
  rw [← hd]
  simp only [List.append_nil] at hb
  simp [hb]

theorem roundtrip_matrix (b : Int) (A : NdC α) (h : (Obj.matrix A).WF) :
    decode parse ofInt b (encodeBase fmt b (.matrix A)) = .ok (.matrix A) := by
  obtain ⟨shape, data⟩ := A
  obtain ⟨hs, hd⟩ := h
  simp only at hs hd
  have hb := fromfile_block_fst fmt parse ofInt hp (arrayRows data) []
  rw [arrayRows_flatten] at hb
  simp only [decode, encodeBase, readline, decodeMatrix, importShape_sizeLines shape hs, arrayLines_eq]
  rw [← hd]
  simp only [List.append_nil] at hb
  simp [hb]

theorem roundtrip_sparse (b : Int) (shape : List Nat) (subs : List (List Int)) (vals : List α)
    (h : (Obj.sparse shape subs vals).WF) :
    decode parse ofInt b (encodeBase fmt b (.sparse shape subs vals)) = .ok (.sparse shape subs vals) := by
  obtain ⟨hs, hlen, hsub⟩ := h
  have hrow : ∀ s ∈ subs, s.length = shape.length := by
    intro s hs'
    have := fits_of_below s shape (hsub s hs')
    simp only [fits, Bool.and_eq_true, beq_iff_eq] at this
    exact this.1
  have hre := readEntries_entryLines fmt parse ofInt hp b shape.length [] subs vals hlen hrow
  simp only [List.append_nil] at hre
  have hfit : subs.all (fits shape) = true := by
    simp only [List.all_eq_true]
    exact fun s hs' => fits_of_below s shape (hsub s hs')
  have hsz := importShape_sizeLines (τ := τ) shape hs
    ([Token.int (subs.length : Int)] :: List.zipWith (entryLine fmt b) subs vals)
  simp only [decode, encodeBase, readline, decodeSparse, List.append_assoc, List.cons_append, List.nil_append]
  rw [hsz]
  simp [firstInt, tokInt, hre, hfit]

theorem roundtrip_ktensor (b : Int) (w : List α) (fs : List (NdC α)) (h : (Obj.ktensor w fs).WF) :
    decode parse ofInt b (encodeBase fmt b (.ktensor w fs)) = .ok (.ktensor w fs) := by
  obtain ⟨hR, hne, hF⟩ := h
  have hsz := importShape_sizeLines (τ := τ) (fs.map fun F => F.shape.headD 0) (by simpa using hne)
    ([Token.int (w.length : Int)] :: w.map (tokV fmt) :: fs.flatMap (factorLines fmt))
  have h0 : ([w] : List (List α)).flatten = [] → ([w] : List (List α)) = [] := by
    intro he
    have : w = [] := by simpa using he
    subst this
    simp at hR
  have hw := fromfile_block fmt parse ofInt hp [w] (fs.flatMap (factorLines fmt)) h0 (skipWs_factorBlocks fmt fs)
  simp only [List.flatten_cons, List.flatten_nil, List.append_nil, List.map_cons, List.map_nil,
    List.cons_append, List.nil_append] at hw
  have hrf := readFactors_factorBlocks fmt parse ofInt hp w.length hR fs hF
  have hok := ktensorOk_of_wf w fs hne hF
  simp only [decode, encodeBase, readline, decodeKtensor, List.append_assoc, List.cons_append, List.nil_append]
  rw [hsz]
  have hneg : ¬ ((w.length : Int) < 0) := by omega
  simp only [firstInt, tokInt, Int.toNat_natCast, hw, hrf, hok, hneg, if_true, if_false]
  simp

end

/-! ### a sparse file read with another base than it was written with -/

theorem decode_sparse_shift (fmt : α → τ) (parse : τ → α) (ofInt : Int → α) (hp : ∀ v, parse (fmt v) = v)
    (b b' : Int) (shape : List Nat) (subs : List (List Int)) (vals : List α)
    (hs : shape ≠ []) (hlen : subs.length = vals.length) (hrow : ∀ s ∈ subs, s.length = shape.length) :
    decode parse ofInt b (encodeBase fmt b' (.sparse shape subs vals)) =
      if (subs.map fun s => s.map fun i => i + b' - b).all (fits shape) then
        .ok (.sparse shape (subs.map fun s => s.map fun i => i + b' - b) vals)
      else .error .reject := by
  have hre := readEntries_shift fmt parse ofInt hp b b' shape.length [] subs vals hlen hrow
  simp only [List.append_nil] at hre
  have hsz := importShape_sizeLines (τ := τ) shape hs
    ([Token.int (subs.length : Int)] :: List.zipWith (entryLine fmt b') subs vals)
  have hneg : ¬ ((subs.length : Int) < 0) := by omega
  simp only [decode, encodeBase, readline, decodeSparse, List.append_assoc, List.cons_append, List.nil_append]
  rw [hsz]
  simp only [firstInt, tokInt, Int.toNat_natCast, hre, hneg, if_false]
  simp

theorem decode_sparse_negative_rejected (fmt : α → τ) (parse : τ → α) (ofInt : Int → α) (hp : ∀ v, parse (fmt v) = v)
    (b b' : Int) (shape : List Nat) (subs : List (List Int)) (vals : List α)
    (hs : shape ≠ []) (hlen : subs.length = vals.length) (hrow : ∀ s ∈ subs, s.length = shape.length)
    (hneg : ∃ s ∈ subs, ∃ i ∈ s, i + b' < b) :
    decode parse ofInt b (encodeBase fmt b' (.sparse shape subs vals)) = .error .reject := by
  rw [decode_sparse_shift fmt parse ofInt hp b b' shape subs vals hs hlen hrow]
  have hall : ¬ ((subs.map fun s => s.map fun i => i + b' - b).all (fits shape) = true) := by
    intro hall
    obtain ⟨s, hsm, i, hi, hlt⟩ := hneg
    simp only [List.all_eq_true, List.mem_map, forall_exists_index, and_imp, forall_apply_eq_imp_iff₂] at hall
    have hb := below_of_fits _ shape (hall s hsm)
    have := nonneg_of_below _ shape hb (i + b' - b) (List.mem_map.mpr ⟨i, hi, rfl⟩)
    omega
  simp [hall]

/-! ### a factor block that disagrees with the header of a ktensor file -/

theorem readFactors_header_mismatch (parse : τ → α) (ofInt : Int → α) (r : Int) (d : Nat) (ds : List Nat)
    (skipped : Line τ) (fshape : List Nat) (rest : File τ) (hne : fshape ≠ [])
    (hmis : fshape.map Int.ofNat ≠ [(d : Int), r]) :
    readFactors parse ofInt r (d :: ds) (skipped :: (sizeLines fshape ++ rest)) = .error .reject := by
  simp only [readFactors, readline, importShape_sizeLines fshape hne rest, if_neg hmis]
  split <;> rfl

theorem decode_ktensor_header_mismatch (fmt : α → τ) (parse : τ → α) (ofInt : Int → α) (hp : ∀ v, parse (fmt v) = v)
    (b : Int) (d : Nat) (ds : List Nat) (w : List α) (hw : 0 < w.length) (fshape : List Nat) (rest : File τ)
    (hne : fshape ≠ []) (hmis : fshape ≠ [d, w.length]) :
    decode parse ofInt b ([.word "ktensor"] :: (sizeLines (d :: ds) ++ [[.int w.length]] ++ [w.map (tokV fmt)] ++
      ([.word "matrix"] :: (sizeLines fshape ++ rest)))) = .error .reject := by
  have hsz := importShape_sizeLines (τ := τ) (d :: ds) (by simp)
    ([Token.int (w.length : Int)] :: w.map (tokV fmt) :: [Token.word "matrix"] :: (sizeLines fshape ++ rest))
  have h0 : ([w] : List (List α)).flatten = [] → ([w] : List (List α)) = [] := by
    intro he
    have : w = [] := by simpa using he
    subst this
    simp at hw
  have hwt := fromfile_block fmt parse ofInt hp [w] ([Token.word "matrix"] :: (sizeLines fshape ++ rest)) h0
    (skipWs_cons ..)
  simp only [List.flatten_cons, List.flatten_nil, List.append_nil, List.map_cons, List.map_nil,
    List.cons_append, List.nil_append] at hwt
  have hmis' : fshape.map Int.ofNat ≠ [(d : Int), (w.length : Int)] := by
    intro he
    apply hmis
    match fshape, he with
    | [a, c], he =>
      simp only [List.map_cons, List.map_nil, List.cons.injEq, and_true] at he
      have h1 : a = d := Int.ofNat.inj he.1
      have h2 : c = w.length := Int.ofNat.inj he.2
      rw [h1, h2]
  have hrf := readFactors_header_mismatch parse ofInt (w.length : Int) d ds [Token.word "matrix"] fshape rest hne hmis'
  have hneg : ¬ ((w.length : Int) < 0) := by omega
  simp only [decode, readline, decodeKtensor, List.append_assoc, List.cons_append, List.nil_append]
  rw [hsz]
  simp only [firstInt, tokInt, Int.toNat_natCast, hwt, hrf, hneg, if_false]
  simp

/-! ### the executable precondition -/

theorem wf_of_wfb : ∀ (o : Obj α), o.wfb = true → o.WF
  | .dense T, h => by
    simp only [Obj.wfb, Bool.and_eq_true, Bool.not_eq_true', beq_iff_eq] at h
    exact ⟨by intro he; simp [he] at h, h.2⟩
  | .matrix A, h => by
    simp only [Obj.wfb, Bool.and_eq_true, Bool.not_eq_true', beq_iff_eq] at h
    exact ⟨by intro he; simp [he] at h, h.2⟩
  | .sparse shape subs vals, h => by
    simp only [Obj.wfb, Bool.and_eq_true, Bool.not_eq_true', beq_iff_eq, List.all_eq_true] at h
    exact ⟨by intro he; simp [he] at h, h.1.2, fun s hs => below_of_fits s shape (h.2 s hs)⟩
  | .ktensor w fs, h => by
    simp only [Obj.wfb, Bool.and_eq_true, Bool.not_eq_true', beq_iff_eq, List.all_eq_true,
      decide_eq_true_eq] at h
    refine ⟨h.1.1, by intro he; simp [he] at h, ?_⟩
    intro F hF
    obtain ⟨⟨h2, h1⟩, hd⟩ := h.2 F hF
    obtain ⟨shape, data⟩ := F
    simp only at h2 h1 hd
    match shape, h2, h1, hd with
    | [a, c], _, h1, hd =>
      simp at h1
      subst h1
      exact ⟨a, rfl, by simpa using hd⟩

/-! ### matrices given by rows -/

theorem flatten_length_rows (R : Nat) : ∀ (M : Mat α), (∀ row ∈ M, row.length = R) → M.flatten.length = M.length * R
  | [], _ => by simp
  | row :: M, h => by
    have ih := flatten_length_rows R M (fun r hr => h r (List.mem_cons_of_mem _ hr))
    have h0 := h row (List.mem_cons_self ..)
    simp only [List.flatten_cons, List.length_append, List.length_cons, ih, h0, Nat.succ_mul]
    omega

theorem chunk_flatten_rows (R : Nat) : ∀ (M : Mat α), (∀ row ∈ M, row.length = R) → chunk R M.length M.flatten = M
  | [], _ => rfl
  | row :: M, h => by
    have ih := chunk_flatten_rows R M (fun r hr => h r (List.mem_cons_of_mem _ hr))
    have h0 := h row (List.mem_cons_self ..)
    simp only [List.flatten_cons, List.length_cons, chunk]
    rw [List.take_left' h0, List.drop_left' h0, ih]

theorem rowsOf_ofMat (R : Nat) (M : Mat α) (h : ∀ row ∈ M, row.length = R) : rowsOf (ofMat R M) = M := by
  simp [rowsOf, ofMat, numel, chunk_flatten_rows R M h]

theorem ofKtensor_wf (K : Ktensor α) (hR : 0 < K.weights.length) (hne : K.factors ≠ [])
    (hrows : ∀ M ∈ K.factors, ∀ row ∈ M, row.length = K.weights.length) : (ofKtensor K).WF := by
  refine ⟨hR, by simpa [ofKtensor] using hne, ?_⟩
  intro F hF
  simp only [List.mem_map] at hF
  obtain ⟨M, hM, rfl⟩ := hF
  exact ⟨M.length, rfl, flatten_length_rows _ M (hrows M hM)⟩

/-! ### 1-based subscripts -/

theorem one_based (fmt : α → τ) (shape : List Nat) (subs : List (List Int)) (vals : List α)
    (hlen : subs.length = vals.length) :
    (encode fmt (.sparse shape subs vals)).length = 4 + subs.length ∧
    ∀ (k : Nat) (hk : k < subs.length),
      ∃ line, (encode fmt (.sparse shape subs vals))[4 + k]? = some line ∧
        line.length = subs[k].length + 1 ∧
        (∀ (j : Nat) (hj : j < subs[k].length), line[j]? = some (Token.int (subs[k][j] + 1))) ∧
        line[subs[k].length]? = some (Token.val (fmt (vals[k]'(hlen ▸ hk)))) := by
  have henc : encode fmt (.sparse shape subs vals) =
      [[Token.word "sptensor"], [Token.int shape.length], shape.map (fun (d : Nat) => Token.int (d : Int)),
        [Token.int subs.length]] ++ List.zipWith (entryLine fmt 1) subs vals := by
    simp [encode, encodeBase, sizeLines]
  constructor
  · rw [henc]; simp [hlen]; omega
  · intro k hk
    have hk' : k < vals.length := hlen ▸ hk
    refine ⟨entryLine fmt 1 subs[k] vals[k], ?_, ?_, ?_, ?_⟩
    · rw [henc, List.getElem?_append_right (by simp)]
      simp [List.getElem?_zipWith, hk, hk']
    · simp [entryLine]
    · intro j hj
      simp [entryLine, List.getElem?_append_left, hj]
    · simp [entryLine, tokV]

/-! ### rejection -/

theorem decode_rejects (parse : τ → α) (ofInt : Int → α) (b : Int) :
    (∀ (w : String) (l : Line τ) (rest : File τ), w ∉ ["tensor", "sptensor", "matrix", "ktensor"] →
        decode parse ofInt b ((.word w :: l) :: rest) = .error .reject) ∧
    (∀ (n : Int) (l : Line τ) (rest : File τ), decode parse ofInt b ((.int n :: l) :: rest) = .error .reject) ∧
    (∀ (t : τ) (l : Line τ) (rest : File τ), decode parse ofInt b ((.val t :: l) :: rest) = .error .reject) ∧
    (∀ (rest : File τ), decode parse ofInt b ([] :: rest) = .error .reject) ∧
    decode parse ofInt b ([] : File τ) = .error .reject ∧
    (∀ (w : String) (junk0 junk : Line τ) (n : Int) (t : Token τ) (extents : Line τ) (rest : File τ),
        w ∈ ["tensor", "sptensor", "matrix", "ktensor"] → ((t :: extents).length : Int) ≠ n →
        decode parse ofInt b ((.word w :: junk0) :: (.int n :: junk) :: (t :: extents) :: rest) = .error .reject) ∧
    (∀ (w : String) (junk0 junk : Line τ) (n : Int) (rest : File τ),
        w ∈ ["tensor", "sptensor", "matrix", "ktensor"] →
        decode parse ofInt b ((.word w :: junk0) :: (.int n :: junk) :: [] :: rest) = .error .reject) := by
  refine ⟨?_, ?_, ?_, ?_, ?_, ?_, ?_⟩
  · intro w l rest hw
    simp only [List.mem_cons, List.not_mem_nil, or_false, not_or] at hw
    simp [decode, readline, hw.1, hw.2.1, hw.2.2.1, hw.2.2.2]
  · intro n l rest; simp [decode, readline]
  · intro t l rest; simp [decode, readline]
  · intro rest; simp [decode, readline]
  · simp [decode, readline]
  · intro w junk0 junk n t extents rest hw hn
    have hs := importShape_wrong_length n t extents junk rest hn
    simp only [List.mem_cons, List.not_mem_nil, or_false] at hw
    rcases hw with rfl | rfl | rfl | rfl <;>
      simp [decode, readline, decodeDense, decodeSparse, decodeMatrix, decodeKtensor, hs]
  · intro w junk0 junk n rest hw
    have hs : importShape ((Token.int n :: junk) :: [] :: rest) = .error .reject := by
      simp [importShape, readline, firstInt, tokInt]
    simp only [List.mem_cons, List.not_mem_nil, or_false] at hw
    rcases hw with rfl | rfl | rfl | rfl <;>
      simp [decode, readline, decodeDense, decodeSparse, decodeMatrix, decodeKtensor, hs]

end Pyttb.Format
