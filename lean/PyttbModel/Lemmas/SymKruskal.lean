/-
C15, Kruskal tensors: `ktensor.symmetrize` returns one factor matrix repeated for every mode, such a
tensor is invariant under every permutation of its modes and passes `ktensor.issymmetric`, which
answers whether all factor matrices are equal.
-/
import PyttbModel.Lemmas.SymPerms
import Mathlib.Algebra.Order.Field.Basic
import Mathlib.Algebra.Order.BigOperators.Group.List
namespace Pyttb
namespace Sym
open List

variable {α : Type}

/-- the result of the symmetrisation step has one factor matrix, once per mode. -/
theorem ksymmetrizeCore_factors [Add α] [Mul α] [Neg α] [Zero α] [Div α] [NatCast α] [LT α] [DecidableLT α]
    (Kn : Ktensor α) : ∃ V, (ksymmetrizeCore Kn).factors = List.replicate Kn.factors.length V := by
  unfold ksymmetrizeCore
  simp only
  split <;> exact ⟨_, rfl⟩

theorem zipWith_replicate_left' {β γ δ : Type} (f : β → γ → δ) (a : β) (l : List γ) :
    List.zipWith f (List.replicate l.length a) l = l.map (f a) := by
  induction l with
  | nil => rfl
  | cons x xs ih => simp [replicate_succ, ih]

/-- a Kruskal tensor whose factor matrices are all the same matrix is invariant under every
permutation of its modes. -/
theorem kget_symmetric [CommSemiring α] (K : Ktensor α) (V : Mat α) (n : Nat)
    (hK : K.factors = List.replicate n V) : SymAllModes n K.get := by
  intro p hp j hj
  have hl : (gather j p).length = n := by simp [isPermOf_length_eq hp]
  have hperm : (gather j p).Perm j := gather_perm_self (by rw [hj]; exact hp)
  simp only [Ktensor.get]
  congr 1
  apply map_congr_left
  intro r _
  congr 1
  simp only [Ktensor.comp, hK]
  have e1 : List.zipWith (fun A ik => Mat.get A ik r) (List.replicate n V) (gather j p) =
      (gather j p).map (fun ik => Mat.get V ik r) := by
    rw [← hl]; exact zipWith_replicate_left' _ V _
  have e2 : List.zipWith (fun A ik => Mat.get A ik r) (List.replicate n V) j =
      j.map (fun ik => Mat.get V ik r) := by
    rw [← hj]; exact zipWith_replicate_left' _ V _
  rw [e1, e2]
  exact (hperm.map _).prod_eq

/-- `ktensor.symmetrize` accepts exactly the cubic tensors. -/
theorem ksymmetrize_ok_iff [Add α] [Mul α] [Neg α] [Zero α] [Div α] [NatCast α] [LT α] [DecidableLT α]
    (norm : Ktensor α → Ktensor α) (K : Ktensor α) :
    (∃ R, ksymmetrize norm K = .ok R) ↔ (K.shape ≠ [] ∧ ∀ e ∈ K.shape, e = K.shape.headD 0) := by
  unfold ksymmetrize
  cases hsh : K.shape with
  | nil => simp
  | cons s0 rest =>
    by_cases hall : rest.all (· == s0) = true
    · simp only [hall, if_true]
      constructor
      · intro _
        refine ⟨by simp, ?_⟩
        intro e he
        rcases mem_cons.1 he with rfl | he
        · rfl
        · simpa using (List.all_eq_true.1 hall) e he
      · intro _; exact ⟨_, rfl⟩
    · simp only [hall, Bool.false_eq_true, if_false]
      constructor
      · rintro ⟨R, hR⟩; cases hR
      · rintro ⟨_, h⟩
        exfalso; apply hall
        rw [List.all_eq_true]
        intro e he
        simpa using h e (mem_cons_of_mem _ he)

theorem ksymmetrize_eq [Add α] [Mul α] [Neg α] [Zero α] [Div α] [NatCast α] [LT α] [DecidableLT α]
    (norm : Ktensor α → Ktensor α) (K R : Ktensor α) (h : ksymmetrize norm K = .ok R) :
    R = ksymmetrizeCore (norm K) := by
  unfold ksymmetrize at h
  cases hsh : K.shape with
  | nil => rw [hsh] at h; cases h
  | cons s0 rest =>
    rw [hsh] at h
    by_cases hall : rest.all (· == s0) = true
    · simp only [hall, if_true] at h; cases h; rfl
    · simp only [hall, Bool.false_eq_true, if_false] at h; cases h

/-! ### `ktensor.issymmetric` -/

theorem kdiff_self [Add α] [Mul α] [Sub α] [Zero α] [BEq α] [LawfulBEq α] (A : Mat α) :
    kdiff A A = .zero := by
  simp [kdiff]

theorem kissymmetric_iff_isZero [Add α] [Mul α] [Sub α] [Zero α] [BEq α] (K : Ktensor α) :
    (kissymmetric K).1 = true ↔ ∀ i, i < K.factors.length → ∀ j, i < j → j < K.factors.length →
      (kdiff (K.factors.getD i []) (K.factors.getD j [])).isZero = true := by
  simp only [kissymmetric, List.all_eq_true, mem_map, mem_range, forall_exists_index, and_imp,
    forall_apply_eq_imp_iff₂]
  constructor
  · intro h i hi j hij hj
    apply h i hi j
    rw [List.mem_drop_iff_getElem]
    refine ⟨j - (i + 1), ?_, ?_⟩
    · simp; omega
    · simp; omega
  · intro h i hi j hj
    rw [List.mem_drop_iff_getElem] at hj
    obtain ⟨k, hk, rfl⟩ := hj
    simp only [length_range] at hk
    simp only [getElem_range]
    exact h i hi _ (by omega) (by omega)

/-- equal factor matrices pass the test. -/
theorem kissymmetric_of_replicate [Add α] [Mul α] [Sub α] [Zero α] [BEq α] [LawfulBEq α] (K : Ktensor α)
    (V : Mat α) (n : Nat) (hK : K.factors = List.replicate n V) : (kissymmetric K).1 = true := by
  rw [kissymmetric_iff_isZero]
  intro i hi j hij hj
  have hn : K.factors.length = n := by simp [hK]
  have e : ∀ k, k < n → K.factors.getD k [] = V := by
    intro k hk
    simp [hK, List.getD_eq_getElem?_getD, hk]
  rw [e i (by omega), e j (by omega), kdiff_self]
  rfl

theorem sum_eq_zero_of_nonneg [Field α] [LinearOrder α] [IsStrictOrderedRing α] (l : List α)
    (hnn : ∀ x ∈ l, 0 ≤ x) (h : l.sum = 0) : ∀ x ∈ l, x = 0 := by
  induction l with
  | nil => simp
  | cons a l ih =>
    simp only [sum_cons] at h
    have ha : 0 ≤ a := hnn a mem_cons_self
    have hl : 0 ≤ l.sum := List.sum_nonneg (fun x hx => hnn x (mem_cons_of_mem _ hx))
    have h1 : a = 0 := by
      apply le_antisymm _ ha
      have : a = -l.sum := eq_neg_of_add_eq_zero_left h
      rw [this]; exact neg_nonpos.2 hl
    have h2 : l.sum = 0 := by rw [h1, zero_add] at h; exact h
    intro x hx
    rcases mem_cons.1 hx with rfl | hx
    · exact h1
    · exact ih (fun y hy => hnn y (mem_cons_of_mem _ hy)) h2 x hx

/-- for matrices with the same number of rows and rows of one common length the squared
Frobenius distance vanishes only when they are equal. -/
theorem frobSq_eq_zero [Field α] [LinearOrder α] [IsStrictOrderedRing α] (A B : Mat α) (R : Nat)
    (hl : A.length = B.length) (hA : ∀ row ∈ A, row.length = R) (hB : ∀ row ∈ B, row.length = R)
    (h : frobSq A B = 0) : A = B := by
  unfold frobSq at h
  have hrows := sum_eq_zero_of_nonneg _ (by
    intro x hx
    obtain ⟨k, hk, rfl⟩ := List.getElem_of_mem hx
    simp only [getElem_zipWith]
    apply List.sum_nonneg
    intro y hy
    obtain ⟨m, hm, rfl⟩ := List.getElem_of_mem hy
    simp only [getElem_zipWith]
    exact mul_self_nonneg _) h
  apply List.ext_getElem hl
  intro k h1 h2
  have hk : k < (List.zipWith (fun ra rb => (List.zipWith (fun x y => (x - y) * (x - y)) ra rb).sum) A B).length := by
    simp; omega
  have h0 := hrows _ (List.getElem_mem hk)
  simp only [getElem_zipWith] at h0
  have hcols := sum_eq_zero_of_nonneg _ (by
    intro y hy
    obtain ⟨m, hm, rfl⟩ := List.getElem_of_mem hy
    simp only [getElem_zipWith]
    exact mul_self_nonneg _) h0
  have hla : A[k].length = R := hA _ (List.getElem_mem h1)
  have hlb : B[k].length = R := hB _ (List.getElem_mem h2)
  apply List.ext_getElem (by rw [hla, hlb])
  intro m hm1 hm2
  have hm : m < (List.zipWith (fun x y => (x - y) * (x - y)) A[k] B[k]).length := by
    simp; omega
  have := hcols _ (List.getElem_mem hm)
  simp only [getElem_zipWith] at this
  exact sub_eq_zero.1 (mul_self_eq_zero.1 this)

/-- `ktensor.issymmetric` answers whether all factor matrices are equal (well-formed factors). -/
theorem kissymmetric_iff [Field α] [LinearOrder α] [IsStrictOrderedRing α] (K : Ktensor α) (hK : K.WF) :
    (kissymmetric K).1 = true ↔ ∀ i, i < K.factors.length → ∀ j, j < K.factors.length →
      K.factors.getD i [] = K.factors.getD j [] := by
  rw [kissymmetric_iff_isZero]
  have hrow : ∀ k, k < K.factors.length → ∀ row ∈ K.factors.getD k [], row.length = K.weights.length := by
    intro k hk row hrow
    have : K.factors.getD k [] ∈ K.factors := by
      rw [List.getD_eq_getElem?_getD, List.getElem?_eq_getElem hk]
      exact List.getElem_mem hk
    exact hK _ this row hrow
  constructor
  · intro h
    have key : ∀ i, i < K.factors.length → ∀ j, i < j → j < K.factors.length →
        K.factors.getD i [] = K.factors.getD j [] := by
      intro i hi j hij hj
      have hz := h i hi j hij hj
      unfold kdiff at hz
      by_cases hsh : ((K.factors.getD i []).length == (K.factors.getD j []).length &&
          (K.factors.getD i []).ncols == (K.factors.getD j []).ncols) = true
      · by_cases heq : (K.factors.getD i [] == K.factors.getD j []) = true
        · exact eq_of_beq heq
        · simp only [hsh, Bool.not_true, Bool.false_eq_true, if_false, heq, KDiff.isZero, beq_iff_eq] at hz
          simp only [Bool.and_eq_true, beq_iff_eq] at hsh
          exact frobSq_eq_zero _ _ _ hsh.1 (hrow i hi) (hrow j hj) hz
      · simp only [hsh, Bool.not_false, if_true, KDiff.isZero, Bool.false_eq_true] at hz
    intro i hi j hj
    rcases Nat.lt_trichotomy i j with hij | rfl | hij
    · exact key i hi j hij hj
    · rfl
    · exact (key j hj i hij hi).symm
  · intro h i hi j _ hj
    rw [h i hi j hj, kdiff_self]
    rfl

end Sym
end Pyttb
