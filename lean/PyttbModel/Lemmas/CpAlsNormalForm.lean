/-
Normal form of the model returned by CP-ALS: `ktensor.arrange()` (normalise every column to
2-norm one, make the weights non-negative, sort by decreasing weight) followed by the optional
`fixsigns()`.  C08-style lemmas proved locally for the model functions of `Alg/CpAls.lean`.
-/
import PyttbModel.Lemmas.CpAls

set_option linter.unusedSectionVars false
set_option linter.unusedSimpArgs false
set_option linter.unnecessarySeqFocus false
namespace Pyttb.CpAls
open Pyttb

section nf
variable {α : Type} [Field α] [LinearOrder α] [IsStrictOrderedRing α]

/-- Sum of squares of column `r`. -/
def colSq (A : Mat α) (r : Nat) : α := ((List.range A.length).map fun i => A.get i r * A.get i r).sum

theorem colNorm2_eq (o : NumOps α) (A : Mat α) (r : Nat) : colNorm2 o A r = o.sqrt (colSq A r) := by
  simp [colNorm2, colSq, col, sumL, List.map_map, Function.comp_def]

theorem NumOps.Lawful.sqrt_one {o : NumOps α} (ho : o.Lawful) : o.sqrt 1 = 1 := by
  have h1 := ho.sqrt_mul_self 1 zero_le_one
  have h0 := ho.sqrt_nonneg 1 zero_le_one
  have : (o.sqrt 1 - 1) * (o.sqrt 1 + 1) = 0 := by ring_nf; rw [pow_two, h1]; ring
  rcases mul_eq_zero.1 this with h | h
  · linarith
  · linarith

theorem sum_sq_eq_zero (l : List Nat) (a : Nat → α) (h : (l.map fun i => a i * a i).sum = 0) :
    ∀ i ∈ l, a i = 0 := by
  induction l with
  | nil => simp
  | cons x l ih =>
    simp only [List.map_cons, List.sum_cons] at h
    have h1 := mul_self_nonneg (a x)
    have h2 : 0 ≤ (l.map fun i => a i * a i).sum := List.sum_nonneg (by
      intro y hy; simp only [List.mem_map] at hy; obtain ⟨i, _, rfl⟩ := hy; exact mul_self_nonneg _)
    intro i hi
    rcases List.mem_cons.1 hi with rfl | hi
    · exact mul_self_eq_zero.1 (by linarith)
    · exact ih (by linarith) i hi

theorem sum_sq_scale (l : List Nat) (a : Nat → α) (c : α) :
    (l.map fun i => (c * a i) * (c * a i)).sum = c * c * (l.map fun i => a i * a i).sum := by
  induction l with
  | nil => simp
  | cons x l ih => simp only [List.map_cons, List.sum_cons, ih]; ring

/-- A column is in normal form: 2-norm one, or entirely zero. -/
def UnitOrZeroCol (o : NumOps α) (A : Mat α) (r : Nat) : Prop :=
  colNorm2 o A r = 1 ∨ ∀ i < A.length, A.get i r = 0

theorem colSq_tab (I R : Nat) (f : Nat → Nat → α) {r : Nat} (hr : r < R) :
    colSq (tab I R f) r = ((List.range I).map fun i => f i r * f i r).sum := by
  unfold colSq
  rw [length_tab]
  congr 1
  exact List.map_congr_left fun i hi => by rw [get_tab I R f (List.mem_range.1 hi) hr]

/-- After `normalizeMode … n` every column of factor `n` is in normal form. -/
theorem normalizeMode_col {o : NumOps α} (ho : o.Lawful) (K : Ktensor α) (n : Nat) (hn : n < K.factors.length)
    {r : Nat} (hr : r < K.weights.length) :
    UnitOrZeroCol o ((normalizeMode o K n).factors.getD n []) r := by
  have hfac : (normalizeMode o K n).factors.getD n [] =
      tab (K.factors.getD n []).length K.weights.length fun i r =>
        if o.lt 0 (((List.range K.weights.length).map fun r => colNorm2 o (K.factors.getD n []) r).getD r 0)
        then (o.ofNat 1 / ((List.range K.weights.length).map fun r => colNorm2 o (K.factors.getD n []) r).getD r 0)
              * (K.factors.getD n []).get i r
        else (K.factors.getD n []).get i r := by
    simp [normalizeMode, List.getD_eq_getElem?_getD, hn]
  rw [hfac]
  set A := K.factors.getD n [] with hA
  have ht : ((List.range K.weights.length).map fun r => colNorm2 o A r).getD r 0 = colNorm2 o A r := by
    simp [List.getD_eq_getElem?_getD, hr]
  have hS : 0 ≤ colSq A r := List.sum_nonneg (by
    intro y hy; simp only [List.mem_map] at hy; obtain ⟨i, _, rfl⟩ := hy; exact mul_self_nonneg _)
  have htt := ho.sqrt_mul_self _ hS
  have htn := ho.sqrt_nonneg _ hS
  by_cases hpos : 0 < colNorm2 o A r
  · left
    rw [colNorm2_eq, colSq_tab _ _ _ hr]
    simp only [ht, (ho.lt_iff _ _).2 hpos, if_true, ho.ofNat_eq, Nat.cast_one]
    rw [sum_sq_scale]
    rw [colNorm2_eq] at hpos ⊢
    have : 1 / o.sqrt (colSq A r) * (1 / o.sqrt (colSq A r)) * colSq A r = 1 := by
      have hne : o.sqrt (colSq A r) ≠ 0 := ne_of_gt hpos
      generalize o.sqrt (colSq A r) = t at htt hne
      rw [← htt]
      field_simp
    rw [show ((List.range A.length).map fun i => A.get i r * A.get i r).sum = colSq A r from rfl, this]
    exact ho.sqrt_one
  · right
    intro i hi
    rw [length_tab] at hi
    rw [get_tab _ _ _ hi hr]
    have hlt : o.lt 0 (colNorm2 o A r) = false := by
      rw [Bool.eq_false_iff]; intro h; exact hpos ((ho.lt_iff _ _).1 h)
    simp only [ht, hlt, Bool.false_eq_true, if_false]
    rw [colNorm2_eq] at hpos
    have hz : o.sqrt (colSq A r) = 0 := le_antisymm (not_lt.1 hpos) htn
    have hS0 : colSq A r = 0 := by rw [← htt, hz, mul_zero]
    exact sum_sq_eq_zero _ (fun i => A.get i r) hS0 i (List.mem_range.2 hi)


theorem unitOrZero_of_sign {o : NumOps α} {A A' : Mat α} {r r' : Nat} (hl : A'.length = A.length)
    (hs : ∀ i < A.length, A'.get i r' = A.get i r ∨ A'.get i r' = - A.get i r)
    (h : UnitOrZeroCol o A r) : UnitOrZeroCol o A' r' := by
  rcases h with h | h
  · left
    rw [colNorm2_eq] at h ⊢
    have : colSq A' r' = colSq A r := by
      unfold colSq
      rw [hl]
      congr 1
      refine List.map_congr_left fun i hi => ?_
      rcases hs i (List.mem_range.1 hi) with e | e <;> rw [e] <;> ring
    rw [this, h]
  · right
    intro i hi
    rw [hl] at hi
    rcases hs i hi with e | e <;> rw [e, h i hi] <;> simp

/-- every column of every factor is in normal form -/
def NormalCols (o : NumOps α) (K : Ktensor α) : Prop :=
  ∀ n < K.factors.length, ∀ r < K.weights.length, UnitOrZeroCol o (K.factors.getD n []) r

theorem normalizeMode_lengths (o : NumOps α) (K : Ktensor α) (n : Nat) :
    (normalizeMode o K n).factors.length = K.factors.length ∧
    (normalizeMode o K n).weights.length = K.weights.length := by
  simp [normalizeMode]

theorem normalizeMode_other (o : NumOps α) (K : Ktensor α) {n m : Nat} (h : n ≠ m) :
    (normalizeMode o K n).factors.getD m [] = K.factors.getD m [] := by
  simp [normalizeMode, List.getD_eq_getElem?_getD, List.getElem?_set, h]

theorem normalizeMode_rows (o : NumOps α) (K : Ktensor α) (n m : Nat) :
    ((normalizeMode o K n).factors.getD m []).length = (K.factors.getD m []).length := by
  by_cases h : n = m
  · subst h
    by_cases hn : n < K.factors.length
    · simp [normalizeMode, List.getD_eq_getElem?_getD, hn, length_tab]
    · simp only [normalizeMode]
      rw [getD_set_oob _ _ _ _ (Nat.le_of_not_lt hn)]
  · rw [normalizeMode_other o K h]

theorem normFold_spec {o : NumOps α} (ho : o.Lawful) (K : Ktensor α) (k : Nat) (hk : k ≤ K.factors.length) :
    let Kk := (List.range k).foldl (normalizeMode o) K
    Kk.factors.length = K.factors.length ∧ Kk.weights.length = K.weights.length ∧
    (∀ m, (Kk.factors.getD m []).length = (K.factors.getD m []).length) ∧
    ∀ m < k, ∀ r < K.weights.length, UnitOrZeroCol o (Kk.factors.getD m []) r := by
  induction k with
  | zero => simp
  | succ k ih =>
    have ih := ih (by omega)
    simp only [List.range_succ, List.foldl_append, List.foldl_cons, List.foldl_nil] at ih ⊢
    set Kk := (List.range k).foldl (normalizeMode o) K
    obtain ⟨h1, h2, h3, h4⟩ := ih
    have hl := normalizeMode_lengths o Kk k
    refine ⟨by rw [hl.1, h1], by rw [hl.2, h2], fun m => by rw [normalizeMode_rows, h3], fun m hm r hr => ?_⟩
    by_cases hmk : m = k
    · subst hmk
      exact normalizeMode_col ho Kk m (by rw [h1]; omega) (by rw [h2]; exact hr)
    · rw [normalizeMode_other o Kk (Ne.symm hmk)]
      exact h4 m (by omega) r hr

theorem normalize_spec {o : NumOps α} (ho : o.Lawful) (K : Ktensor α) :
    (normalize o K).factors.length = K.factors.length ∧ (normalize o K).weights.length = K.weights.length ∧
    (∀ m, ((normalize o K).factors.getD m []).length = (K.factors.getD m []).length) ∧
    NormalCols o (normalize o K) ∧ ∀ w ∈ (normalize o K).weights, 0 ≤ w := by
  obtain ⟨h1, h2, h3, h4⟩ := normFold_spec ho K K.factors.length le_rfl
  unfold normalize
  simp only at h1 h2 h3 h4 ⊢
  set K1 := (List.range K.factors.length).foldl (normalizeMode o) K
  refine ⟨by simp [h1], by simp [h2], fun m => ?_, fun n hn r hr => ?_, fun w hw => ?_⟩
  · by_cases hm0 : m = 0
    · subst hm0
      by_cases h0 : 0 < K1.factors.length
      · rw [getD_set_eq _ _ _ _ h0, length_tab, h3]
      · rw [getD_set_oob _ _ _ _ (Nat.le_of_not_lt h0), h3]
    · rw [getD_set_ne _ _ _ (Ne.symm hm0), h3]
  · simp only [List.length_set, List.length_map] at hn hr
    rw [h1] at hn
    rw [h2] at hr
    by_cases hn0 : n = 0
    · subst hn0
      have h0 : 0 < K1.factors.length := by rw [h1]; exact hn
      rw [getD_set_eq _ _ _ _ h0]
      refine unitOrZero_of_sign (length_tab _ _ _) (fun i hi => ?_) (h4 0 hn r hr)
      rw [get_tab _ _ _ hi (by rw [h2]; exact hr)]
      split
      · exact Or.inr rfl
      · exact Or.inl rfl
    · rw [getD_set_ne _ _ _ (Ne.symm hn0)]
      exact h4 n hn r hr
  · simp only [List.mem_map] at hw
    obtain ⟨v, _, rfl⟩ := hw
    split
    · rename_i h
      have := (ho.lt_iff _ _).1 h
      linarith
    · rename_i h
      have : ¬ v < 0 := fun hv => h ((ho.lt_iff _ _).2 hv)
      exact not_lt.1 this


/-! ### sorting by decreasing weight -/

/-- the sorted (index, weight) pairs behind `argsortDesc` -/
def sortedPairsW (o : NumOps α) (w : List α) : List (Nat × α) :=
  ((List.range w.length).zip w).mergeSort fun a b => !o.lt b.2 a.2

theorem argsortDesc_eq (o : NumOps α) (w : List α) :
    argsortDesc o w = (sortedPairsW o w).reverse.map (·.1) := rfl

theorem sortedPairsW_perm (o : NumOps α) (w : List α) :
    (sortedPairsW o w).Perm ((List.range w.length).zip w) := List.mergeSort_perm _ _

theorem sortedPairsW_pairwise {o : NumOps α} (ho : o.Lawful) (w : List α) :
    (sortedPairsW o w).Pairwise (fun a b => a.2 ≤ b.2) := by
  have hle : ∀ a b : Nat × α, (!o.lt b.2 a.2) = true ↔ a.2 ≤ b.2 := by
    intro a b
    rw [Bool.not_eq_true', Bool.eq_false_iff, Ne, ho.lt_iff, not_lt]
  have := List.pairwise_mergeSort (le := fun (a b : Nat × α) => !o.lt b.2 a.2)
    (fun a b c hab hbc => by rw [hle] at *; exact le_trans hab hbc)
    (fun a b => by rw [Bool.or_eq_true, hle, hle]; exact le_total _ _)
    ((List.range w.length).zip w)
  unfold sortedPairsW
  exact this.imp (fun h => (hle _ _).1 h)

theorem zip_range_getD' (w : List α) : ∀ p ∈ (List.range w.length).zip w, p.1 < w.length ∧ w.getD p.1 0 = p.2 := by
  intro p hp
  obtain ⟨i, hi, rfl⟩ := List.mem_iff_getElem.1 hp
  simp only [List.length_zip, List.length_range, Nat.min_self] at hi
  simp [List.getD_eq_getElem?_getD, List.getElem?_eq_getElem hi, hi]

theorem argsortDesc_spec {o : NumOps α} (ho : o.Lawful) (w : List α) :
    (argsortDesc o w).length = w.length ∧ (∀ x ∈ argsortDesc o w, x < w.length) ∧
    ((argsortDesc o w).map fun r => w.getD r 0).Pairwise (fun a b => b ≤ a) := by
  refine ⟨?_, ?_, ?_⟩
  · rw [argsortDesc_eq, List.length_map, List.length_reverse, (sortedPairsW_perm o w).length_eq]; simp
  · intro x hx
    rw [argsortDesc_eq, List.mem_map] at hx
    obtain ⟨p, hp, rfl⟩ := hx
    exact (zip_range_getD' w p ((sortedPairsW_perm o w).mem_iff.1 (List.mem_reverse.1 hp))).1
  · rw [argsortDesc_eq, List.map_map]
    have hval : (sortedPairsW o w).reverse.map ((fun r => w.getD r 0) ∘ fun p => p.1) =
        (sortedPairsW o w).reverse.map (·.2) := by
      refine List.map_congr_left fun p hp => ?_
      exact (zip_range_getD' w p ((sortedPairsW_perm o w).mem_iff.1 (List.mem_reverse.1 hp))).2
    rw [hval, List.pairwise_map, List.pairwise_reverse]
    exact sortedPairsW_pairwise ho w

/-! ### permuting components, fixing signs -/

theorem permuteComponents_spec {o : NumOps α} (K : Ktensor α) (p : List Nat) (hp : ∀ x ∈ p, x < K.weights.length)
    (hK : NormalCols o K) (hw : ∀ w ∈ K.weights, 0 ≤ w) :
    (permuteComponents K p).factors.length = K.factors.length ∧
    (permuteComponents K p).weights = p.map (fun r => K.weights.getD r 0) ∧
    (∀ m, ((permuteComponents K p).factors.getD m []).length = (K.factors.getD m []).length) ∧
    NormalCols o (permuteComponents K p) ∧ (∀ w ∈ (permuteComponents K p).weights, 0 ≤ w) ∧
    (∀ m < K.factors.length, ∀ row ∈ (permuteComponents K p).factors.getD m [], row.length = p.length) := by
  have hfac : ∀ m < K.factors.length, (permuteComponents K p).factors.getD m [] =
      tab (K.factors.getD m []).length p.length fun i r => (K.factors.getD m []).get i (p.getD r 0) := by
    intro m hm
    simp [permuteComponents, List.getD_eq_getElem?_getD, hm]
  refine ⟨by simp [permuteComponents], rfl, fun m => ?_, fun n hn r hr => ?_, fun w hw' => ?_,
    fun m hm => by rw [hfac m hm]; exact tab_row_length _ _ _⟩
  · by_cases hm : m < K.factors.length
    · rw [hfac m hm, length_tab]
    · simp [permuteComponents, List.getD_eq_getElem?_getD, List.getElem?_eq_none (Nat.le_of_not_lt hm)]
  · simp only [permuteComponents, List.length_map] at hn hr
    rw [hfac n hn]
    have hpr : p.getD r 0 < K.weights.length := by
      have : p.getD r 0 = p[r] := by simp [List.getD_eq_getElem?_getD, hr]
      rw [this]; exact hp _ (List.getElem_mem hr)
    refine unitOrZero_of_sign (length_tab _ _ _) (fun i hi => ?_) (hK n hn (p.getD r 0) hpr)
    rw [get_tab _ _ _ hi hr]
    exact Or.inl rfl
  · simp only [permuteComponents, List.mem_map] at hw'
    obtain ⟨r, hr, rfl⟩ := hw'
    have hr' := hp r hr
    have : K.weights.getD r 0 = K.weights[r] := by simp [List.getD_eq_getElem?_getD, hr']
    rw [this]; exact hw _ (List.getElem_mem hr')

theorem arrange_spec {o : NumOps α} (ho : o.Lawful) (K : Ktensor α) :
    (arrange o K).factors.length = K.factors.length ∧ (arrange o K).weights.length = K.weights.length ∧
    (∀ m, ((arrange o K).factors.getD m []).length = (K.factors.getD m []).length) ∧
    NormalCols o (arrange o K) ∧ (∀ w ∈ (arrange o K).weights, 0 ≤ w) ∧
    (arrange o K).weights.Pairwise (fun a b => b ≤ a) ∧
    (∀ m < K.factors.length, ∀ row ∈ (arrange o K).factors.getD m [], row.length = K.weights.length) := by
  obtain ⟨n1, n2, n3, n4, n5⟩ := normalize_spec ho K
  obtain ⟨s1, s2, s3⟩ := argsortDesc_spec ho (normalize o K).weights
  obtain ⟨p1, p2, p3, p4, p5, p6⟩ := permuteComponents_spec (o := o) (normalize o K) _ s2 n4 n5
  unfold arrange
  simp only
  refine ⟨by rw [p1, n1], by rw [p2, List.length_map, s1, n2], fun m => by rw [p3, n3], p4, p5, ?_,
    fun m hm row hrow => ?_⟩
  · rw [p2]; exact s3
  · rw [p6 m (by rw [n1]; exact hm) row hrow, s1, n2]

theorem fixsigns_spec {o : NumOps α} (K : Ktensor α) (hK : NormalCols o K) :
    (fixsigns o K).factors.length = K.factors.length ∧ (fixsigns o K).weights = K.weights ∧
    (∀ m, ((fixsigns o K).factors.getD m []).length = (K.factors.getD m []).length) ∧
    NormalCols o (fixsigns o K) ∧
    (∀ m < K.factors.length, ∀ row ∈ (fixsigns o K).factors.getD m [], row.length = K.weights.length) := by
  have hfac : ∀ m < K.factors.length, (fixsigns o K).factors.getD m [] =
      tab (K.factors.getD m []).length K.weights.length fun i r =>
        if (flippedModes o K r).contains m then - (K.factors.getD m []).get i r else (K.factors.getD m []).get i r := by
    intro m hm
    simp [fixsigns, List.getD_eq_getElem?_getD, hm]
  refine ⟨by simp [fixsigns], rfl, fun m => ?_, fun n hn r hr => ?_,
    fun m hm => by rw [hfac m hm]; exact tab_row_length _ _ _⟩
  · by_cases hm : m < K.factors.length
    · rw [hfac m hm, length_tab]
    · have hm' := Nat.le_of_not_lt hm
      simp [fixsigns, List.getD_eq_getElem?_getD, List.getElem?_eq_none hm',
        List.getElem?_eq_none (show (List.range K.factors.length).length ≤ m by simpa using hm')]
  · simp only [fixsigns, List.length_map, List.length_range] at hn hr
    rw [hfac n hn]
    refine unitOrZero_of_sign (length_tab _ _ _) (fun i hi => ?_) (hK n hn r hr)
    rw [get_tab _ _ _ hi hr]
    split
    · exact Or.inr rfl
    · exact Or.inl rfl

end nf
end Pyttb.CpAls
