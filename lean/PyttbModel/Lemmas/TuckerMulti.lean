/-
C10 — several modes: folds of mode products, invariance under the order of distinct modes,
projection on orthonormal factors (`core`) and reconstruction (`recon`), the identity
`‖X − recon(core X)‖² = ‖X‖² − ‖core X‖²`.
-/
import PyttbModel.Lemmas.TuckerTtm
namespace Pyttb
namespace Tk
open Finset

/-- Mode products applied one after the other: `(k, U)` multiplies mode `k` by `U`
(`transpose = tr`), the head of the list first. -/
def ttmFold (T : Dense ℝ) (l : List (Nat × Mat ℝ)) (tr : Bool) : Dense ℝ :=
  l.foldl (fun Y p => ttmT Y p.2 p.1 tr) T

@[simp] theorem ttmFold_nil (T : Dense ℝ) (tr : Bool) : ttmFold T [] tr = T := rfl

@[simp] theorem ttmFold_cons (T : Dense ℝ) (k : Nat) (U : Mat ℝ) (l : List (Nat × Mat ℝ)) (tr : Bool) :
    ttmFold T ((k, U) :: l) tr = ttmFold (ttmT T U k tr) l tr := rfl

theorem ttmFold_append (T : Dense ℝ) (l l' : List (Nat × Mat ℝ)) (tr : Bool) :
    ttmFold T (l ++ l') tr = ttmFold (ttmFold T l tr) l' tr := by
  simp [ttmFold, List.foldl_append]

theorem ttmFold_WF (T : Dense ℝ) (hT : T.WF) (l : List (Nat × Mat ℝ)) (tr : Bool) : (ttmFold T l tr).WF := by
  induction l generalizing T with
  | nil => exact hT
  | cons p l ih => exact ih _ (ttmT_WF _ _ _ _)

theorem ttmFold_shape_length (T : Dense ℝ) (l : List (Nat × Mat ℝ)) (tr : Bool) :
    (ttmFold T l tr).shape.length = T.shape.length := by
  induction l generalizing T with
  | nil => rfl
  | cons p l ih => obtain ⟨k, U⟩ := p; rw [ttmFold_cons, ih]; simp

/-- Products in pairwise distinct modes may be applied in any order. -/
theorem ttmFold_perm {l l' : List (Nat × Mat ℝ)} (hp : l.Perm l') (hn : (l.map Prod.fst).Nodup)
    (T : Dense ℝ) (tr : Bool) : ttmFold T l tr = ttmFold T l' tr := by
  unfold ttmFold
  apply hp.foldl_eq'
  intro x hx y hy z
  by_cases hxy : x = y
  · subst hxy; rfl
  · have hne : x.1 ≠ y.1 := by
      intro h
      apply hxy
      exact List.inj_on_of_nodup_map hn hx hy h
    exact ttmT_comm z x.2 y.2 x.1 y.1 hne tr tr

/-- Reconstruction: the head of the list is multiplied LAST (no transposition). -/
def recon : List (Nat × Mat ℝ) → Dense ℝ → Dense ℝ
  | [], B => B
  | (k, U) :: l, B => ttmT (recon l B) U k false

theorem recon_eq_fold (l : List (Nat × Mat ℝ)) (B : Dense ℝ) : recon l B = ttmFold B l.reverse false := by
  induction l with
  | nil => rfl
  | cons p l ih =>
    obtain ⟨k, U⟩ := p
    simp only [recon, List.reverse_cons, ttmFold_append, ← ih]
    rfl

/-- Every matrix of the list has orthonormal columns and as many rows as its mode has
entries when its turn comes. -/
def Adm : List (Nat × Mat ℝ) → List Nat → Prop
  | [], _ => True
  | (k, U) :: l, s => k < s.length ∧ OrthoCols U (s.getD k 0) U.ncols ∧ Adm l (s.set k U.ncols)

/-- Shape after projecting on every factor of the list. -/
def coreShape : List (Nat × Mat ℝ) → List Nat → List Nat
  | [], s => s
  | (k, U) :: l, s => coreShape l (s.set k U.ncols)

theorem ttmFold_shape (T : Dense ℝ) (l : List (Nat × Mat ℝ)) :
    (ttmFold T l true).shape = coreShape l T.shape := by
  induction l generalizing T with
  | nil => rfl
  | cons p l ih =>
    obtain ⟨k, U⟩ := p
    rw [ttmFold_cons, ih]
    simp [coreShape, outDim]

theorem recon_WF (l : List (Nat × Mat ℝ)) (B : Dense ℝ) (hB : B.WF) : (recon l B).WF := by
  cases l with
  | nil => exact hB
  | cons p l => obtain ⟨k, U⟩ := p; exact ttmT_WF _ _ _ _

theorem recon_shape (l : List (Nat × Mat ℝ)) (s : List Nat) (h : Adm l s) (B : Dense ℝ)
    (hB : B.shape = coreShape l s) : (recon l B).shape = s := by
  induction l generalizing s with
  | nil => exact hB
  | cons p l ih =>
    obtain ⟨k, U⟩ := p
    obtain ⟨_, hU, hl⟩ := h
    simp only [recon, ttmT_shape]
    rw [ih (s.set k U.ncols) hl hB]
    simp only [outDim, Bool.false_eq_true, if_false, List.set_set, hU.nrows]
    exact set_getD_self s k

/-- `⟨X, recon B⟩ = ⟨core X, B⟩`. -/
theorem recon_adjoint (l : List (Nat × Mat ℝ)) (X : Dense ℝ) (h : Adm l X.shape) (B : Dense ℝ)
    (hB : B.shape = coreShape l X.shape) :
    ipS X.shape X (recon l B) = ipS (coreShape l X.shape) (ttmFold X l true) B := by
  induction l generalizing X with
  | nil => rfl
  | cons p l ih =>
    obtain ⟨k, U⟩ := p
    obtain ⟨hk, hU, hl⟩ := h
    have hs : (recon l B).shape = X.shape.set k U.ncols := recon_shape l _ hl B hB
    simp only [recon]
    rw [ipS_adjoint X (recon l B) U k hk hU.nrows hs]
    have h1 : (ttmT X U k true).shape = X.shape.set k U.ncols := by simp [outDim]
    have := ih (ttmT X U k true) (by rw [h1]; exact hl) (by rw [h1]; exact hB)
    rw [h1] at this
    rw [this]
    rfl

/-- Reconstruction from orthonormal factors keeps the norm. -/
theorem recon_normSq (l : List (Nat × Mat ℝ)) (s : List Nat) (h : Adm l s) (B : Dense ℝ) (hBw : B.WF)
    (hB : B.shape = coreShape l s) : normSq (recon l B) = normSq B := by
  induction l generalizing s with
  | nil => rfl
  | cons p l ih =>
    obtain ⟨k, U⟩ := p
    obtain ⟨hk, hU, hl⟩ := h
    have hs : (recon l B).shape = s.set k U.ncols := recon_shape l _ hl B hB
    simp only [recon]
    have hk' : k < (recon l B).shape.length := by rw [hs]; simpa using hk
    have hU' : OrthoCols U (s.getD k 0) ((recon l B).shape.getD k 0) := by
      rw [hs, getD_set_self hk]; exact hU
    rw [normSq_ttmT_iso (recon l B) (recon_WF l B hBw) U k _ hk' hU']
    exact ih _ hl hB

/-- Projecting on orthonormal factors does not increase the norm. -/
theorem ttmFold_normSq_le (l : List (Nat × Mat ℝ)) (T : Dense ℝ) (hT : T.WF) (h : Adm l T.shape) :
    normSq (ttmFold T l true) ≤ normSq T := by
  induction l generalizing T with
  | nil => exact le_refl _
  | cons p l ih =>
    obtain ⟨k, U⟩ := p
    obtain ⟨hk, hU, hl⟩ := h
    rw [ttmFold_cons]
    have h1 : (ttmT T U k true).shape = T.shape.set k U.ncols := by simp [outDim]
    exact le_trans (ih _ (ttmT_WF _ _ _ _) (by rw [h1]; exact hl)) (normSq_ttmT_le T hT U k _ hk hU)

/-- The Tucker fit identity: for orthonormal factors, `‖X − recon(core X)‖² = ‖X‖² − ‖core X‖²`. -/
theorem fit_identity (l : List (Nat × Mat ℝ)) (X : Dense ℝ) (hX : X.WF) (h : Adm l X.shape) (E : Dense ℝ)
    (hE : dsub X (recon l (ttmFold X l true)) = .ok E) :
    normSq E = normSq X - normSq (ttmFold X l true) := by
  set G := ttmFold X l true with hG
  have hGw : G.WF := ttmFold_WF X hX l true
  have hGs : G.shape = coreShape l X.shape := ttmFold_shape X l
  have hRs : (recon l G).shape = X.shape := recon_shape l _ h G hGs
  rw [normSq_dsub hX (recon_WF l G hGw) hRs.symm hE, recon_adjoint l X h G hGs, recon_normSq l _ h G hGw hGs]
  rw [← hGs, ipS_self G hGw]
  ring

end Tk
end Pyttb
