/-
C02 — how the modes are designated: `tt_dimscheck` followed by `mults[vidx[k]]` pairs every
selected mode (in increasing order) with the multiplicand that belongs to it, under `dims`
(any order), `exclude_dims`, one multiplicand per selected mode or one per mode of the tensor.
-/
import PyttbModel.Lemmas.Dims
import PyttbModel.Ops.MultilinearDense
namespace Pyttb
namespace ML

variable {β : Type}

theorem mapM_ok {γ δ : Type} (l : List γ) (f : γ → Except Reject δ) (g : γ → δ)
    (h : ∀ x ∈ l, f x = .ok (g x)) : l.mapM f = .ok (l.map g) := by
  induction l with
  | nil => rfl
  | cons a l ih =>
    rw [List.mapM_cons, h a (List.mem_cons_self ..), ih (fun x hx => h x (List.mem_cons_of_mem _ hx))]
    rfl

theorem zip_self (l : List Nat) : l.zip l = l.map fun k => (k, k) := by
  induction l with
  | nil => rfl
  | cons a l ih => simp [ih]

/-- What `resolveModes` does once `tt_dimscheck` has answered. -/
theorem resolveModes_of_dimscheck (N : Nat) (mults : List β) (dims excl : Option (List Int))
    (sd vi : List Nat) (h : dimscheck N (some mults.length) dims excl = .ok ⟨sd, some vi⟩)
    (hl : sd.length = vi.length) (hsd : ∀ d ∈ sd, d < N) (hvi : ∀ k ∈ vi, k < mults.length)
    (dflt : β) :
    resolveModes N mults dims excl = .ok ((sd.zip vi).map fun p => (p.1, mults.getD p.2 dflt)) := by
  unfold resolveModes
  rw [h]
  simp only [hl, bne_self_eq_false, Bool.false_eq_true, if_false]
  apply mapM_ok
  intro p hp
  have h1 := hsd p.1 (List.of_mem_zip (a := p.1) (b := p.2) hp).1
  have h2 := hvi p.2 (List.of_mem_zip (a := p.1) (b := p.2) hp).2
  simp [List.getElem?_eq_getElem h2, h1, List.getD_eq_getElem?_getD]

/-- Pairs with strictly increasing modes are determined by their content. -/
theorem pairs_unique {p q : List (Nat × β)} (hp : (p.map (·.1)).Pairwise (· < ·))
    (hq : (q.map (·.1)).Pairwise (· < ·)) (h : p.Perm q) : p = q := by
  rw [List.pairwise_map] at hp hq
  exact List.Perm.eq_of_pairwise (le := fun a b => a.1 < b.1)
    (fun a b _ _ h1 h2 => absurd h1 (by omega)) hp hq h

/-- **One multiplicand per listed mode** (`len(mults) = len(dims)`): multiplicand `j` belongs to
`dims[j]`, whatever the order `dims` is listed in; the kernel sees the modes in increasing order. -/
theorem resolve_dims_P (N : Nat) (mults : List β) (d : List Nat) (hd : d.Nodup)
    (hN : ∀ x ∈ d, x < N) (hl : mults.length = d.length) :
    ∃ pairs, resolveModes N mults (some (d.map Int.ofNat)) none = .ok pairs ∧
      (pairs.map (·.1)).Pairwise (· < ·) ∧ pairs.Perm (d.zip mults) := by
  obtain ⟨sd, vi, h1, h2, h3, h4⟩ := dimscheck_vidx_P N d hd hN
  rw [← hl] at h1
  cases hm : mults with
  | nil =>
    have hd0 : d = [] := by rw [hm] at hl; exact List.length_eq_zero_iff.1 hl.symm
    subst hd0
    subst hm
    have hvi : vi = [] := by simpa using h2.length_eq
    subst hvi
    have hsd : sd = [] := by simpa using h3
    subst hsd
    refine ⟨[], ?_, by simp, by simp⟩
    unfold resolveModes
    rw [h1]; rfl
  | cons m0 ms =>
    rw [← hm]
    have hvi : ∀ k ∈ vi, k < mults.length := by
      intro k hk; rw [hl]; exact List.mem_range.1 (h2.subset hk)
    have hsdlt : ∀ x ∈ sd, x < N := by
      intro x hx
      rw [h3] at hx
      obtain ⟨k, hk, rfl⟩ := List.mem_map.1 hx
      have : k < d.length := List.mem_range.1 (h2.subset hk)
      apply hN
      rw [List.getD_eq_getElem?_getD, List.getElem?_eq_getElem this]
      exact List.getElem_mem _
    have hlen : sd.length = vi.length := by rw [h3]; simp
    refine ⟨_, resolveModes_of_dimscheck N mults _ none sd vi h1 hlen hsdlt hvi m0, ?_, ?_⟩
    · rw [List.map_map]
      have : ((sd.zip vi).map ((fun x => x.1) ∘ fun p => (p.1, mults.getD p.2 m0))) = sd := by
        rw [show ((fun x : Nat × β => x.1) ∘ fun p : Nat × Nat => (p.1, mults.getD p.2 m0)) = Prod.fst from rfl]
        exact List.map_fst_zip (Nat.le_of_eq hlen)
      rw [this]; exact h4
    · -- the pairs are `(d[k], mults[k])` for `k` running through the sorting permutation
      have hz : (sd.zip vi).map (fun p => (p.1, mults.getD p.2 m0)) =
          vi.map (fun k => (d.getD k 0, mults.getD k m0)) := by
        rw [h3, List.zip_map_left, List.map_map]
        rw [zip_self, List.map_map]
        rfl
      rw [hz]
      have hzip : d.zip mults = (List.range d.length).map (fun k => (d.getD k 0, mults.getD k m0)) := by
        apply List.ext_getElem
        · simp [hl]
        · intro k h1 h2
          simp only [List.length_zip, hl, Nat.min_self] at h1
          simp [List.getD_eq_getElem?_getD, List.getElem?_eq_getElem h1, List.getElem?_eq_getElem (hl ▸ h1)]
      rw [hzip]
      exact h2.map _

/-- **One multiplicand per mode of the tensor** (`len(mults) = N ≠ len(dims)`): mode `d` uses
`mults[d]`. -/
theorem resolve_dims_N (N : Nat) (mults : List β) (d : List Nat) (hd : d.Nodup)
    (hN : ∀ x ∈ d, x < N) (hl : mults.length = N) (hne : d.length ≠ N) :
    ∃ pairs, resolveModes N mults (some (d.map Int.ofNat)) none = .ok pairs ∧
      (pairs.map (·.1)).Pairwise (· < ·) ∧ (pairs.map (·.1)).Perm d ∧
      ∀ p ∈ pairs, mults[p.1]? = some p.2 := by
  obtain ⟨sd, h1', h2, h3⟩ := dimscheck_vidx_N N d hne hd hN
  have h1 : dimscheck N (some mults.length) (some (d.map Int.ofNat)) none = .ok ⟨sd, some sd⟩ := by
    rw [hl]; exact h1'
  have hsdlt : ∀ x ∈ sd, x < N := fun x hx => hN x (h3.subset hx)
  cases hm : mults with
  | nil =>
    subst hm
    have hN0 : N = 0 := by simpa using hl.symm
    have hd0 : d = [] := by
      cases d with
      | nil => rfl
      | cons a l => have := hN a (List.mem_cons_self ..); omega
    subst hd0; subst hN0
    simp at hne
  | cons m0 ms =>
    rw [← hm]
    refine ⟨_, resolveModes_of_dimscheck N mults _ none sd sd h1 rfl hsdlt
      (fun k hk => by rw [hl]; exact hsdlt k hk) m0, ?_, ?_, ?_⟩
    · rw [List.map_map]
      have : ((sd.zip sd).map ((fun x => x.1) ∘ fun p => (p.1, mults.getD p.2 m0))) = sd := by
        rw [show ((fun x : Nat × β => x.1) ∘ fun p : Nat × Nat => (p.1, mults.getD p.2 m0)) = Prod.fst from rfl]
        exact List.map_fst_zip (Nat.le_refl _)
      rw [this]; exact h2
    · rw [List.map_map]
      have : ((sd.zip sd).map ((fun x => x.1) ∘ fun p => (p.1, mults.getD p.2 m0))) = sd := by
        rw [show ((fun x : Nat × β => x.1) ∘ fun p : Nat × Nat => (p.1, mults.getD p.2 m0)) = Prod.fst from rfl]
        exact List.map_fst_zip (Nat.le_refl _)
      rw [this]; exact h3
    · intro p hp
      obtain ⟨q, hq, rfl⟩ := List.mem_map.1 hp
      have hqq : q.1 = q.2 := by
        rw [zip_self] at hq
        obtain ⟨k, _, rfl⟩ := List.mem_map.1 hq
        rfl
      have hlt : q.2 < mults.length := by
        rw [hl, ← hqq]; exact hsdlt _ (List.of_mem_zip (a := q.1) (b := q.2) hq).1
      simp only
      rw [hqq, List.getD_eq_getElem?_getD, List.getElem?_eq_getElem hlt]
      rfl

/-- **`exclude_dims` is the complement**: excluding `e` designates the same modes, with the same
multiplicands, as listing the modes not in `e`. -/
theorem resolve_exclude (N : Nat) (mults : List β) (e : List Nat) (he : ∀ x ∈ e, x < N) (hn : e.Nodup) :
    resolveModes N mults none (some (e.map Int.ofNat)) =
      resolveModes N mults (some ((complDims N e).map Int.ofNat)) none := by
  unfold resolveModes
  rw [dimscheck_none_excl]
  have hall : (e.map Int.ofNat).all (fun x => decide (0 ≤ x) && decide (x < (N : Int))) = true := by
    rw [List.all_eq_true]
    intro x hx
    obtain ⟨n, hn, rfl⟩ := List.mem_map.1 hx
    have := he n hn
    simp; omega
  rw [if_pos hall, dups_ofNat e hn]
  simp only [contains_map_ofNat, Bool.false_eq_true, if_false]
  rfl

/-- Nothing designated means every mode. -/
theorem resolve_none (N : Nat) (mults : List β) :
    resolveModes N mults none none = resolveModes N mults (some ((List.range N).map Int.ofNat)) none := by
  unfold resolveModes dimscheck
  rfl

/-- **The order in which `dims` is listed does not matter**: two designations that attach the same
multiplicand to the same mode resolve identically. -/
theorem resolve_any_order (N : Nat) (m₁ m₂ : List β) (d₁ d₂ : List Nat) (hd : d₁.Nodup)
    (hN : ∀ x ∈ d₁, x < N) (hl₁ : m₁.length = d₁.length) (hl₂ : m₂.length = d₂.length)
    (h : (d₁.zip m₁).Perm (d₂.zip m₂)) :
    resolveModes N m₁ (some (d₁.map Int.ofNat)) none = resolveModes N m₂ (some (d₂.map Int.ofNat)) none := by
  have hdp : d₁.Perm d₂ := by
    have := h.map Prod.fst
    rwa [List.map_fst_zip (Nat.le_of_eq hl₁.symm), List.map_fst_zip (Nat.le_of_eq hl₂.symm)] at this
  have hd2 : d₂.Nodup := hdp.nodup_iff.1 hd
  have hN2 : ∀ x ∈ d₂, x < N := fun x hx => hN x (hdp.symm.subset hx)
  obtain ⟨p₁, e₁, s₁, q₁⟩ := resolve_dims_P N m₁ d₁ hd hN hl₁
  obtain ⟨p₂, e₂, s₂, q₂⟩ := resolve_dims_P N m₂ d₂ hd2 hN2 hl₂
  rw [e₁, e₂, pairs_unique s₁ s₂ (q₁.trans (h.trans q₂.symm))]

end ML
end Pyttb
