/-
C05: what the specifications of the operation table mean on stores, and the proof that a
program that passes the static check of a specification has that meaning for every store and
every operand layout.  Core Lean only.
-/
import PyttbModel.Lemmas.HeapTable2
import PyttbModel.Lemmas.HeapContig
namespace Pyttb.Heap

variable {α : Type}

/-- The operands are arrays of the store: their buffers exist. -/
def ValidOps (st : Store α) (ops : List View) : Prop := ∀ o ∈ ops, o.buf < st.length

/-- Every buffer that existed before the operation has the same contents afterwards. -/
def Untouched (st st' : Store α) : Prop := ∀ b < st.length, st'[b]? = st[b]?

/-- Writing through `v` is not visible through `w` and vice versa, in store `st`. -/
def Invisible (st : Store α) (v w : View) : Prop :=
  ∀ x : α, read (writeAll st v x) w = read st w ∧ read (writeAll st w x) v = read st v

theorem invisible_of_disjoint (st : Store α) (v w : View) (h : v.overlaps w = false) :
    Invisible st v w := by
  intro x
  refine ⟨read_writeAll_disjoint st v w x h, read_writeAll_disjoint st w v x ?_⟩
  rcases (overlaps_false_iff v w).mp h with h1 | h1
  · exact (overlaps_false_iff w v).mpr (Or.inl (Ne.symm h1))
  · exact (overlaps_false_iff w v).mpr (Or.inr (fun a ha hv => h1 a hv ha))

theorem read_untouched {st st' : Store α} (h : Untouched st st') (o : View) (ho : o.buf < st.length) :
    read st' o = read st o := read_congr_buf st st' o (h o.buf ho)

/-- Meaning of `Spec.pureFresh`: operands bit-for-bit unchanged; no result array has a cell in
common with an operand; a later write through either side is invisible through the other. -/
def PureFreshSem (d : α) (st : Store α) (ops : List View) (B : Built) : Prop :=
  let S := exec d st ops B.prog
  Untouched st S.st ∧
  (∀ o ∈ ops, read S.st o = read st o) ∧
  (∀ q ∈ B.res, ∀ o ∈ ops, (S.reg q.2).overlaps o = false ∧ Invisible S.st (S.reg q.2) o)

/-- Meaning of `Spec.noCopy allowed` (documented no-copy parameter) and of `Spec.knownAlias`:
operands unchanged; a result array can share storage only with the operands listed. -/
def NoCopySem (d : α) (st : Store α) (ops : List View) (allowed : List Nat) (B : Built) : Prop :=
  let S := exec d st ops B.prog
  Untouched st S.st ∧
  (∀ o ∈ ops, read S.st o = read st o) ∧
  (∀ q ∈ B.res, ∀ o ∈ ops, (∀ k ∈ allowed, (ops.getD k default).buf ≠ o.buf) →
      (S.reg q.2).overlaps o = false ∧ Invisible S.st (S.reg q.2) o)

/-- Meaning of `Spec.inPlace recv`: every buffer other than the receiver's is unchanged, so
every operand that does not share a buffer with the receiver reads the same; the receiver's
arrays afterwards do not share storage with such an operand. -/
def InPlaceSem (d : α) (st : Store α) (ops : List View) (recv : List Nat) (B : Built) : Prop :=
  let S := exec d st ops B.prog
  (∀ b < st.length, (∀ k ∈ recv, (ops.getD k default).buf ≠ b) → S.st[b]? = st[b]?) ∧
  (∀ o ∈ ops, (∀ k ∈ recv, (ops.getD k default).buf ≠ o.buf) → read S.st o = read st o) ∧
  (∀ q ∈ B.res, ∀ o ∈ ops, (∀ k ∈ recv, (ops.getD k default).buf ≠ o.buf) →
      (S.reg q.2).overlaps o = false ∧ Invisible S.st (S.reg q.2) o)

def SpecSem (d : α) (st : Store α) (ops : List View) (B : Built) : Spec → Prop
  | .pureFresh => PureFreshSem d st ops B
  | .noCopy allowed => NoCopySem d st ops allowed B
  | .inPlace recv => InPlaceSem d st ops recv B
  | .knownAlias allowed => NoCopySem d st ops allowed B

theorem mem_res_map {B : Built} {q : String × Nat} (h : q ∈ B.res) : q.2 ∈ B.res.map (·.2) :=
  List.mem_map.mpr ⟨q, h, rfl⟩

theorem pureFresh_sem (d : α) (st : Store α) (ops : List View) (B : Built) (hv : ValidOps st ops)
    (h : specCheck .pureFresh ops.length B = true) : PureFreshSem d st ops B := by
  simp only [specCheck, Bool.and_eq_true] at h
  have hu : Untouched st (exec d st ops B.prog).st := pure_sound d st ops B.prog h.1
  refine ⟨hu, fun o ho => read_untouched hu o (hv o ho), ?_⟩
  intro q hq o ho
  have hb := freshResults_sound d st ops B.prog _ h.2 q.2 (mem_res_map hq)
  have hne : ((exec d st ops B.prog).reg q.2).buf ≠ o.buf := by have := hv o ho; omega
  have hov := overlaps_of_buf_ne _ _ hne
  exact ⟨hov, invisible_of_disjoint _ _ _ hov⟩

theorem noCopy_sem (d : α) (st : Store α) (ops : List View) (allowed : List Nat) (B : Built)
    (hv : ValidOps st ops)
    (h : (pureProg ops.length B.prog && resultsWithin ops.length allowed B.prog (B.res.map (·.2))) = true) :
    NoCopySem d st ops allowed B := by
  simp only [Bool.and_eq_true] at h
  have hu : Untouched st (exec d st ops B.prog).st := pure_sound d st ops B.prog h.1
  refine ⟨hu, fun o ho => read_untouched hu o (hv o ho), ?_⟩
  intro q hq o ho hdis
  have hne : ((exec d st ops B.prog).reg q.2).buf ≠ o.buf := by
    rcases resultsWithin_sound d st ops B.prog allowed _ h.2 q.2 (mem_res_map hq) with hb | ⟨k, hk, hb⟩
    · have := hv o ho; omega
    · rw [hb]; exact hdis k hk
  have hov := overlaps_of_buf_ne _ _ hne
  exact ⟨hov, invisible_of_disjoint _ _ _ hov⟩

theorem inPlace_sem (d : α) (st : Store α) (ops : List View) (recv : List Nat) (B : Built)
    (hv : ValidOps st ops) (h : specCheck (.inPlace recv) ops.length B = true) :
    InPlaceSem d st ops recv B := by
  simp only [specCheck, Bool.and_eq_true] at h
  have hw := writesWithin_sound d st ops B.prog recv h.1
  refine ⟨hw, ?_, ?_⟩
  · intro o ho hdis
    exact read_congr_buf _ _ o (hw o.buf (hv o ho) hdis)
  · intro q hq o ho hdis
    have hne : ((exec d st ops B.prog).reg q.2).buf ≠ o.buf := by
      rcases resultsWithin_sound d st ops B.prog recv _ h.2 q.2 (mem_res_map hq) with hb | ⟨k, hk, hb⟩
      · have := hv o ho; omega
      · rw [hb]; exact hdis k hk
    have hov := overlaps_of_buf_ne _ _ hne
    exact ⟨hov, invisible_of_disjoint _ _ _ hov⟩

/-- A program that passes the static check of a specification has the specification's meaning. -/
theorem spec_sem (d : α) (st : Store α) (ops : List View) (B : Built) (spec : Spec)
    (hv : ValidOps st ops) (h : specCheck spec ops.length B = true) : SpecSem d st ops B spec := by
  cases spec with
  | pureFresh => exact pureFresh_sem d st ops B hv h
  | noCopy allowed => exact noCopy_sem d st ops allowed B hv (by simpa [specCheck] using h)
  | inPlace recv => exact inPlace_sem d st ops recv B hv h
  | knownAlias allowed => exact noCopy_sem d st ops allowed B hv (by simpa [specCheck] using h)

/-- Every entry of the table has the meaning of its specification, for every case. -/
theorem entry_sem (d : α) (e : Entry) (he : e ∈ table) (p : Params) (st : Store α) (ops : List View)
    (hv : ValidOps st ops) (hpre : e.pre p ops.length = true) :
    SpecSem d st ops (e.build p ops) (e.spec p) := by
  have := table_sound e he p ops
  simp only [Entry.check, hpre, Bool.not_true, Bool.false_or] at this
  exact spec_sem d st ops _ _ hv this

/-! ### the flags the driver reports are consequences -/

theorem pure_wlog (d : α) (st0 : Store α) (ops : List View) (p : Prog)
    (h : pureProg ops.length p = true) : ∀ w ∈ (exec d st0 ops p).wlog, st0.length ≤ w.buf := by
  intro w hw
  have I := exec_inv d st0 ops p
  obtain ⟨ρ, hρ, hs⟩ := I.wsound w hw
  have : ρ = .fresh := by
    have := List.all_eq_true.mp h ρ hρ
    simpa using this
  subst this
  exact hs

/-- For an entry that passes the `pureFresh` check the executable outcome that the driver
sends to the harness is "nothing mutated, nothing shared" – on every store and layout. -/
theorem outcome_pureFresh (d : α) (st : Store α) (ops : List View) (B : Built) (hv : ValidOps st ops)
    (h : specCheck .pureFresh ops.length B = true) :
    outcome d st ops B.prog (B.res.map (·.2)) = ⟨[], []⟩ := by
  simp only [specCheck, Bool.and_eq_true] at h
  have hw := pure_wlog d st ops B.prog h.1
  have hr := freshResults_sound d st ops B.prog _ h.2
  have hop : ∀ k, k < ops.length → (ops.getD k default).buf < st.length := by
    intro k hk
    apply hv
    rw [List.getD_eq_getElem?_getD, List.getElem?_eq_getElem hk]
    exact List.getElem_mem hk
  unfold outcome
  simp only []
  congr 1
  · -- mutated
    rw [List.map_eq_nil_iff, List.filter_eq_nil_iff]
    intro o ho
    obtain ⟨k, hk, rfl⟩ := List.mem_map.mp ho
    have hk' : k < ops.length := List.mem_range.mp hk
    simp only [Bool.not_eq_true]
    apply Bool.eq_false_iff.mpr
    intro hc
    obtain ⟨w, hw1, hw2⟩ := List.any_eq_true.mp hc
    have := hw w hw1
    have h2 := hop k hk'
    have hne : w.buf ≠ (ops.getD k default).buf := by omega
    rw [overlaps_of_buf_ne _ _ hne] at hw2
    cases hw2
  · -- share
    rw [List.flatMap_eq_nil_iff]
    intro j hj
    rw [List.filterMap_eq_nil_iff]
    intro o ho
    obtain ⟨k, hk, rfl⟩ := List.mem_map.mp ho
    have hk' : k < ops.length := List.mem_range.mp hk
    have hj' : j < (B.res.map (·.2)).length := List.mem_range.mp hj
    have hmem : (B.res.map (·.2)).getD j 0 ∈ B.res.map (·.2) := by
      rw [List.getD_eq_getElem?_getD, List.getElem?_eq_getElem hj']
      exact List.getElem_mem hj'
    have := hr _ hmem
    have h2 := hop k hk'
    have hne : ((exec d st ops B.prog).reg ((B.res.map (·.2)).getD j 0)).buf ≠ (ops.getD k default).buf := by
      omega
    simp only [overlaps_of_buf_ne _ _ hne]
    rfl

end Pyttb.Heap
