/-
C02 — dense `collapse` and `scale` (both through a matricization).
-/
import PyttbModel.Lemmas.MLSparseOps
namespace Pyttb
namespace ML

variable {α : Type}

/-- A reducer that does not depend on the order of its arguments. -/
def PermInvariant {β : Type} (f : List α → β) : Prop := ∀ l l' : List α, l.Perm l' → f l = f l'

/-- **Dense `collapse`** of a non-empty proper subset of the modes (a tensor over the remaining
modes) or of all modes (a scalar), for any reducer that ignores the order of its arguments. -/
theorem dense_collapse_spec [AddMonoid α] (T : Dense α) (hT : T.WF)
    (dims : Option (List Nat)) (sel : List Nat)
    (hdims : match dims with
      | none => sel = List.range T.shape.length
      | some d => d.Nodup ∧ (∀ x ∈ d, x < T.shape.length) ∧ sel = sdimsOf d)
    (hne : sel ≠ []) (f : List α → α) (hf : PermInvariant f) :
    ∃ r, T.collapse (dims.map fun d => d.map Int.ofNat) f = .ok r ∧
      r.toRes.shape = gather T.shape (complDims T.shape.length sel) ∧
      ∀ i, InBounds r.toRes.shape i → r.toRes.get i = Spec.collapse T.den sel f i := by
  set N := T.shape.length with hN
  set rem := complDims N sel with hrem
  have hres : resolveDims N (dims.map fun d => d.map Int.ofNat) = .ok sel := by
    cases dims with
    | none => simp only [Option.map_none]; rw [hdims]; exact resolveDims_none N
    | some d =>
      obtain ⟨h1, h2, h3⟩ := hdims
      simp only [Option.map_some]; rw [h3]; exact resolveDims_some N d h1 h2
  have hselprops : sel.Nodup ∧ ∀ d ∈ sel, d < N := by
    cases dims with
    | none => rw [hdims]; exact ⟨List.nodup_range, fun d hd => List.mem_range.1 hd⟩
    | some d =>
      obtain ⟨h1, h2, h3⟩ := hdims
      rw [h3]
      exact ⟨(sdimsOf_perm d).nodup_iff.2 h1, fun x hx => h2 x ((sdimsOf_perm d).subset hx)⟩
  have hp : isPermOf (rem ++ sel) N = true := isPermOf_compl_append N sel hselprops.1 hselprops.2
  unfold Dense.collapse
  have hemp : sel.isEmpty = false := by simpa using hne
  simp only [← hN, hres, hemp, Bool.false_eq_true, if_false, ← hrem]
  by_cases hr0 : rem.isEmpty = true
  · rw [if_pos hr0]
    have hrem0 : rem = [] := List.isEmpty_iff.1 hr0
    refine ⟨_, rfl, by simp [ScalarOr.toRes, ML.Res.shape, hrem0], ?_⟩
    intro i hi
    have hi0 : i = [] := by
      simp only [ScalarOr.toRes, ML.Res.shape] at hi
      cases i <;> simp_all [InBounds]
    subst hi0
    simp only [ScalarOr.toRes, ML.Res.get]
    unfold Spec.collapse
    show _ = f ((Spec.fiber T.shape rem []).map T.get)
    have hf0 : Spec.fiber T.shape rem [] = allSubs T.shape := by
      unfold Spec.fiber
      rw [List.filter_eq_self]; intro k _; rw [hrem0]; rfl
    rw [hf0, ← Dense.data_eq_map_get T hT]
  · rw [if_neg hr0, toTenmat_ok T rem sel hT hp]
    simp only [List.getD_cons_zero, List.getD_cons_succ]
    set m := numel (gather T.shape rem) with hm
    set n := numel (gather T.shape sel) with hn'
    set C := T.transpose (rem ++ sel) with hC
    refine ⟨_, rfl, rfl, ?_⟩
    intro i hi
    simp only [ScalarOr.toRes, ML.Res.shape] at hi
    simp only [ScalarOr.toRes, ML.Res.get, Dense.get]
    have hlt : sub2ind (gather T.shape rem) i < m := sub2ind_lt hi
    have hrow : ((reshape2 C.data m n).map f).getD (sub2ind (gather T.shape rem) i) 0 =
        f ((List.range n).map fun b => C.data.getD (sub2ind (gather T.shape rem) i + m * b) 0) := by
      unfold reshape2
      rw [List.map_map, getD_map_range _ _ _ _ hlt]
      rfl
    rw [hrow]
    unfold Spec.collapse
    show _ = f ((Spec.fiber T.shape rem i).map T.get)
    apply hf
    have hrange : List.range n = (allSubs (gather T.shape sel)).map (sub2ind (gather T.shape sel)) :=
      (allSubs_map_sub2ind _).symm
    rw [hrange, List.map_map]
    have hcells : ((allSubs (gather T.shape sel)).map
        ((fun b => C.data.getD (sub2ind (gather T.shape rem) i + m * b) 0) ∘ sub2ind (gather T.shape sel))) =
        ((allSubs (gather T.shape sel)).map fun j => gather (i ++ j) (invPerm (rem ++ sel))).map T.get := by
      rw [List.map_map]
      apply List.map_congr_left
      intro j hj
      have hjb := mem_allSubs.1 hj
      have hij : InBounds (gather T.shape (rem ++ sel)) (i ++ j) := by
        rw [gather_append]; exact InBounds_append hi hjb
      simp only [Function.comp_apply]
      rw [← Dense.transpose_get_c01 T (rem ++ sel) (i ++ j) hij]
      show _ = C.data.getD (sub2ind (gather T.shape (rem ++ sel)) (i ++ j)) 0
      rw [gather_append, sub2ind_append _ _ _ _ hi.length_eq]
    rw [hcells]
    exact (fiber_perm T.shape rem sel i hp hi).map T.get

/-- Entry of a folded-back matricization. -/
theorem toTensor_get [Zero α] (s r c : List Nat) (data : List α)
    (hp : isPermOf (r ++ c) s.length = true) (i : List Nat) (hi : InBounds s i) :
    (Tenmat.toTensor ⟨s, r, c, ⟨[numel (gather s r), numel (gather s c)], data⟩⟩).get i =
      data.getD (sub2ind (gather s r) (gather i r) + numel (gather s r) * sub2ind (gather s c) (gather i c)) 0 := by
  unfold Tenmat.toTensor
  simp only
  have hidx : sub2ind (gather s (r ++ c)) (gather i (r ++ c)) =
      sub2ind (gather s r) (gather i r) + numel (gather s r) * sub2ind (gather s c) (gather i c) := by
    rw [gather_append, gather_append, sub2ind_append _ _ _ _ (by simp)]
  split
  · -- more than one mode: transpose back
    set D : Dense α := ⟨gather s (r ++ c), data⟩ with hD
    show (⟨s, (D.transpose (invPerm (r ++ c))).data⟩ : Dense α).get i = _
    have hshape : gather (gather s (r ++ c)) (invPerm (r ++ c)) = s := gather_gather_invPerm hp rfl
    have : (⟨s, (D.transpose (invPerm (r ++ c))).data⟩ : Dense α) = D.transpose (invPerm (r ++ c)) := by
      show _ = Dense.ofFn (gather D.shape (invPerm (r ++ c))) _
      unfold Dense.ofFn
      congr 1
      exact hshape.symm
    rw [this, Dense.transpose_get_c01 D _ i (by show InBounds (gather (gather s (r ++ c)) _) i; rw [hshape]; exact hi),
      invPerm_invPerm hp]
    show data.getD (sub2ind (gather s (r ++ c)) (gather i (r ++ c))) 0 = _
    rw [hidx]
  · next h =>
    have hl := isPermOf_length_eq hp
    have hrc : r ++ c = List.range s.length := isPermOf_le_one hp (by omega)
    show data.getD (sub2ind s i) 0 = _
    rw [← hidx, hrc, gather_range, gather_range_of_length hi.length_eq]

/-- **Dense `scale`** by a tensor / array over the selected modes (increasing order):
`Y[i] = X[i] · F[i[sel]]`. -/
theorem dense_scale_spec [CommSemiring α] (T F : Dense α) (hT : T.WF) (d : List Nat) (hd : d.Nodup)
    (hN : ∀ x ∈ d, x < T.shape.length) (hF : F.shape = gather T.shape (sdimsOf d)) :
    ∃ Y, T.scale F (d.map Int.ofNat) = .ok Y ∧ Y.shape = T.shape ∧
      ∀ i, InBounds T.shape i → Y.get i = Spec.scale T.den F.den (sdimsOf d) i := by
  set N := T.shape.length with hNdef
  set sd := sdimsOf d with hsd
  set rem := complDims N sd with hrem
  have hres := resolveDims_some N d hd hN
  have hsdnd : sd.Nodup := (sdimsOf_perm d).nodup_iff.2 hd
  have hsdlt : ∀ x ∈ sd, x < N := fun x hx => hN x ((sdimsOf_perm d).subset hx)
  have hp0 : isPermOf (rem ++ sd) N = true := isPermOf_compl_append N sd hsdnd hsdlt
  have hp : isPermOf (sd ++ rem) N = true := by
    rw [isPermOf_iff_perm] at hp0 ⊢
    exact hp0.trans List.perm_append_comm
  unfold Dense.scale
  have g : (F.shape != gather T.shape sd) = false := by rw [hF]; exact bne_self_eq_false _
  simp only [← hNdef, hres, ← hsd, ← hrem, g, Bool.false_eq_true, if_false, toTenmat_ok T sd rem hT hp,
    List.getD_cons_zero, List.getD_cons_succ]
  set m := numel (gather T.shape sd) with hm
  set n := numel (gather T.shape rem) with hn'
  set C := T.transpose (sd ++ rem) with hC
  refine ⟨_, rfl, ?_, ?_⟩
  · unfold Tenmat.toTensor; simp only; split <;> rfl
  · intro i hi
    rw [toTensor_get T.shape sd rem _ hp i hi]
    have ha : sub2ind (gather T.shape sd) (gather i sd) < m :=
      sub2ind_lt (hi.gather (fun k hk => hsdlt k hk))
    have hb : sub2ind (gather T.shape rem) (gather i rem) < n :=
      sub2ind_lt (hi.gather (fun k hk => (mem_complDims.1 hk).1))
    rw [flatF_getD _ m n _ _ ha hb, get_tab m n _ _ _ ha hb, reshape2_get _ _ _ _ _ ha hb]
    show _ = T.get i * F.get (gather i sd)
    congr 1
    · have := tenmat_data_get T sd rem hp i hi
      simp only [Dense.get, sub2ind, Nat.mul_zero, Nat.add_zero] at this
      exact this
    · show _ = F.data.getD (sub2ind F.shape (gather i sd)) 0
      rw [hF]

end ML
end Pyttb
