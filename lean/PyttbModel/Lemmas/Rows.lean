import PyttbModel.Core.Rows
import PyttbModel.Core.Dims
import PyttbModel.Core.Arr
/-!
Lemmas about the row-set helpers (`firstOccIdx`, `dedupRows`, `lastIdxOf`, `ismemberRows`,
`intersectRows`, `setdiffRows`, `unionRows`).  Core Lean only.
-/
namespace Pyttb

theorem getD_of_lt (A : List Row) (j : Nat) (h : j < A.length) : A.getD j [] = A[j] := by
  simp [List.getD_eq_getElem?_getD, List.getElem?_eq_getElem h]

theorem mem_take_iff_getD (A : List Row) (k : Nat) (hk : k < A.length) (r : Row) :
    r ∈ A.take k ↔ ∃ j, j < k ∧ A.getD j [] = r := by
  rw [List.mem_iff_getElem]
  constructor
  · rintro ⟨j, hj, rfl⟩
    have hj' : j < k := by simp at hj; omega
    refine ⟨j, hj', ?_⟩
    rw [getD_of_lt A j (by omega)]; simp
  · rintro ⟨j, hj, rfl⟩
    have hjl : j < A.length := by omega
    refine ⟨j, by simp; omega, ?_⟩
    rw [getD_of_lt A j hjl]; simp

theorem mem_firstOccIdx (A : List Row) (k : Nat) :
    k ∈ firstOccIdx A ↔ k < A.length ∧ ∀ j, j < k → A.getD j [] ≠ A.getD k [] := by
  unfold firstOccIdx
  simp only [List.mem_filter, List.mem_range, Bool.not_eq_true', List.contains_eq_mem,
    decide_eq_false_iff_not]
  constructor
  · rintro ⟨hk, h⟩
    refine ⟨hk, fun j hj he => h ?_⟩
    exact (mem_take_iff_getD A k hk _).2 ⟨j, hj, he⟩
  · rintro ⟨hk, h⟩
    refine ⟨hk, fun hm => ?_⟩
    obtain ⟨j, hj, he⟩ := (mem_take_iff_getD A k hk _).1 hm
    exact h j hj he

theorem firstOccIdx_pairwise (A : List Row) : (firstOccIdx A).Pairwise (· < ·) := by
  unfold firstOccIdx
  exact List.Pairwise.filter _ List.pairwise_lt_range

theorem firstOccIdx_spec (A : List Row) :
    (firstOccIdx A).Pairwise (· < ·) ∧
    ∀ k, k ∈ firstOccIdx A ↔ k < A.length ∧ ∀ j, j < k → A.getD j [] ≠ A.getD k [] :=
  ⟨firstOccIdx_pairwise A, mem_firstOccIdx A⟩

theorem lastIdxOf_eq_some {src : List Row} {r : Row} {j : Nat} (h : lastIdxOf src r = some j) :
    j < src.length ∧ src[j]? = some r ∧ ∀ j', j < j' → src[j']? ≠ some r := by
  unfold lastIdxOf at h
  simp only at h
  split at h
  · rename_i k hk
    rw [List.findIdx?_eq_some_iff_getElem] at hk
    obtain ⟨hlt, hp, hmin⟩ := hk
    simp only [List.length_reverse] at hlt
    injection h with h
    subst h
    refine ⟨by omega, ?_, ?_⟩
    · rw [List.getElem_reverse] at hp
      have := eq_of_beq hp
      rw [List.getElem?_eq_getElem (by omega), this]
    · intro j' hj' he
      have hj'l : j' < src.length := by
        rcases Nat.lt_or_ge j' src.length with h | h
        · exact h
        · rw [List.getElem?_eq_none h] at he; cases he
      have hlt2 : src.length - 1 - j' < k := by omega
      have := hmin (src.length - 1 - j') hlt2
      rw [List.getElem_reverse] at this
      apply this
      have e : src.length - 1 - (src.length - 1 - j') = j' := by omega
      rw [List.getElem?_eq_getElem hj'l] at he
      injection he with he
      simp only [e, he, beq_self_eq_true]
  · cases h

theorem lastIdxOf_eq_none {src : List Row} {r : Row} : lastIdxOf src r = none ↔ r ∉ src := by
  unfold lastIdxOf
  simp only
  constructor
  · intro h
    split at h
    · cases h
    · rename_i hk
      rw [List.findIdx?_eq_none_iff] at hk
      intro hm
      have := hk r (by simpa using hm)
      simp at this
  · intro h
    have : (src.reverse).findIdx? (· == r) = none := by
      rw [List.findIdx?_eq_none_iff]
      intro x hx
      have hx' : x ∈ src := by simpa using hx
      simp only [beq_eq_false_iff_ne, ne_eq]
      rintro rfl; exact h hx'
    rw [this]

theorem lastIdxOf_of_mem {src : List Row} {r : Row} (h : r ∈ src) : ∃ j, lastIdxOf src r = some j := by
  cases hl : lastIdxOf src r with
  | none => exact absurd h (lastIdxOf_eq_none.1 hl)
  | some j => exact ⟨j, rfl⟩

theorem ismember_spec (search source : List Row) (k : Nat) (hk : k < search.length) :
    ∃ p, (ismemberRows search source)[k]? = some p ∧
      (search[k] ∈ source → p.1 = true ∧ ∃ j : Nat, p.2 = (j : Int) ∧ source[j]? = some search[k] ∧
          ∀ j', j < j' → source[j']? ≠ some search[k]) ∧
      (search[k] ∉ source → p = (false, -1)) := by
  unfold ismemberRows
  rw [List.getElem?_map, List.getElem?_eq_getElem hk]
  simp only [Option.map_some]
  refine ⟨_, rfl, ?_, ?_⟩
  · intro hm
    obtain ⟨j, hj⟩ := lastIdxOf_of_mem hm
    rw [hj]
    obtain ⟨_, h2, h3⟩ := lastIdxOf_eq_some hj
    exact ⟨rfl, j, rfl, h2, h3⟩
  · intro hm
    rw [lastIdxOf_eq_none.2 hm]


theorem firstOccIdx_inj {A : List Row} {k1 k2 : Nat} (h1 : k1 ∈ firstOccIdx A) (h2 : k2 ∈ firstOccIdx A)
    (he : A.getD k1 [] = A.getD k2 []) : k1 = k2 := by
  rw [mem_firstOccIdx] at h1 h2
  rcases Nat.lt_trichotomy k1 k2 with h | h | h
  · exact absurd he (h2.2 k1 h)
  · exact h
  · exact absurd he.symm (h1.2 k2 h)

theorem exists_firstOcc (A : List Row) (k : Nat) (hk : k < A.length) :
    ∃ k', k' ∈ firstOccIdx A ∧ A.getD k' [] = A.getD k [] := by
  induction k using Nat.strongRecOn with
  | _ k ih =>
    by_cases h : ∀ j, j < k → A.getD j [] ≠ A.getD k []
    · exact ⟨k, (mem_firstOccIdx A k).2 ⟨hk, h⟩, rfl⟩
    · have : ∃ j, j < k ∧ A.getD j [] = A.getD k [] := by
        apply Classical.byContradiction
        intro hn
        apply h
        intro j hj he
        exact hn ⟨j, hj, he⟩
      obtain ⟨j, hj, he⟩ := this
      obtain ⟨k', hk', he'⟩ := ih j hj (by omega)
      exact ⟨k', hk', he'.trans he⟩

theorem mem_dedupRows (A : List Row) (r : Row) : r ∈ dedupRows A ↔ r ∈ A := by
  unfold dedupRows
  simp only [List.mem_map]
  constructor
  · rintro ⟨k, hk, rfl⟩
    have hlt := ((mem_firstOccIdx A k).1 hk).1
    rw [getD_of_lt A k hlt]; exact List.getElem_mem hlt
  · intro h
    obtain ⟨k, hk, rfl⟩ := List.mem_iff_getElem.1 h
    obtain ⟨k', hk', he⟩ := exists_firstOcc A k hk
    exact ⟨k', hk', by rw [he, getD_of_lt A k hk]⟩

theorem dedupRows_nodup (A : List Row) : (dedupRows A).Nodup := by
  unfold dedupRows List.Nodup
  rw [List.pairwise_map]
  refine List.Pairwise.imp_of_mem ?_ (firstOccIdx_pairwise A)
  intro a b ha hb hlt he
  have := firstOccIdx_inj ha hb he
  omega

theorem dedupRows_spec (A : List Row) :
    (dedupRows A).Nodup ∧ ∀ r, r ∈ dedupRows A ↔ r ∈ A := ⟨dedupRows_nodup A, mem_dedupRows A⟩

theorem length_dedupRows (A : List Row) : (dedupRows A).length = (firstOccIdx A).length := by
  simp [dedupRows]

theorem filterMap_map_eq_filter {α β : Type} (l : List α) (f : α → Option β) (g : β → α) (p : α → Bool)
    (h1 : ∀ x ∈ l, ∀ y, f x = some y → g y = x ∧ p x = true)
    (h2 : ∀ x ∈ l, f x = none → p x = false) :
    (l.filterMap f).map g = l.filter p := by
  induction l with
  | nil => rfl
  | cons a l ih =>
    have ih' := ih (fun x hx => h1 x (List.mem_cons_of_mem _ hx)) (fun x hx => h2 x (List.mem_cons_of_mem _ hx))
    cases hf : f a with
    | none =>
      rw [List.filterMap_cons_none hf, List.filter_cons_of_neg (by simp [h2 a List.mem_cons_self hf]), ih']
    | some y =>
      obtain ⟨hg, hp⟩ := h1 a List.mem_cons_self y hf
      rw [List.filterMap_cons_some hf, List.map_cons, List.filter_cons_of_pos hp, ih', hg]

/-- what `lastIdxOf (dedupRows A) r = some j` tells us. -/
theorem lastIdxOf_dedup {A : List Row} {r : Row} {j : Nat} (h : lastIdxOf (dedupRows A) r = some j) :
    j < (firstOccIdx A).length ∧ (firstOccIdx A).getD j 0 ∈ firstOccIdx A ∧
      A.getD ((firstOccIdx A).getD j 0) [] = r := by
  obtain ⟨hlt, hget, _⟩ := lastIdxOf_eq_some h
  rw [length_dedupRows] at hlt
  have e : (firstOccIdx A).getD j 0 = (firstOccIdx A)[j] := by
    simp [List.getD_eq_getElem?_getD, List.getElem?_eq_getElem hlt]
  refine ⟨hlt, by rw [e]; exact List.getElem_mem hlt, ?_⟩
  rw [e]
  unfold dedupRows at hget
  rw [List.getElem?_map, List.getElem?_eq_getElem hlt] at hget
  simpa using hget

theorem intersect_map (A B : List Row) :
    (intersectRows A B).map (fun k => A.getD k []) = (dedupRows B).filter (fun r => A.contains r) := by
  unfold intersectRows locValid
  rw [List.map_map]
  apply filterMap_map_eq_filter
  · intro r _ j hj
    obtain ⟨_, _, h3⟩ := lastIdxOf_dedup hj
    refine ⟨h3, ?_⟩
    have : r ∈ dedupRows A := by
      obtain ⟨_, hget, _⟩ := lastIdxOf_eq_some hj
      exact List.mem_of_getElem? hget
    simpa using (mem_dedupRows A r).1 this
  · intro r _ hn
    have := lastIdxOf_eq_none.1 hn
    rw [mem_dedupRows] at this
    simpa using this

theorem intersect_mem (A B : List Row) : ∀ k ∈ intersectRows A B, k ∈ firstOccIdx A := by
  intro k hk
  unfold intersectRows locValid at hk
  simp only [List.mem_map, List.mem_filterMap] at hk
  obtain ⟨j, ⟨r, _, hj⟩, rfl⟩ := hk
  exact (lastIdxOf_dedup hj).2.1

theorem intersect_spec (A B : List Row) :
    (intersectRows A B).map (fun k => A.getD k []) = (dedupRows B).filter (fun r => A.contains r) ∧
    ∀ k ∈ intersectRows A B, k ∈ firstOccIdx A := ⟨intersect_map A B, intersect_mem A B⟩


theorem eraseDups_of_nodup (l : List Nat) (h : l.Nodup) : l.eraseDups = l := by
  induction l with
  | nil => rfl
  | cons a l ih =>
    rw [List.nodup_cons] at h
    rw [List.eraseDups_cons]
    have : l.filter (fun b => !b == a) = l := by
      rw [List.filter_eq_self]
      intro b hb
      have : b ≠ a := by rintro rfl; exact h.1 hb
      simp [this]
    rw [this, ih h.2]

theorem setdiff1d_of_sorted (xs ys : List Nat) (h : xs.Pairwise (· < ·)) :
    setdiff1d xs ys = xs.filter (fun x => !ys.contains x) := by
  unfold setdiff1d
  have hf : (xs.filter (fun x => !ys.contains x)).Pairwise (· < ·) := List.Pairwise.filter _ h
  have hnd : (xs.filter (fun x => !ys.contains x)).Nodup :=
    List.Pairwise.imp (fun hab => Nat.ne_of_lt hab) hf
  rw [eraseDups_of_nodup _ hnd]
  apply List.mergeSort_of_pairwise
  exact List.Pairwise.imp (fun hab => by simpa using Nat.le_of_lt hab) hf

theorem mem_intersect_iff (A B : List Row) (k : Nat) (hk : k ∈ firstOccIdx A) :
    k ∈ intersectRows A B ↔ A.getD k [] ∈ B := by
  have hmap := intersect_map A B
  constructor
  · intro h
    have : A.getD k [] ∈ (intersectRows A B).map (fun k => A.getD k []) := List.mem_map_of_mem h
    rw [hmap, List.mem_filter, mem_dedupRows] at this
    exact this.1
  · intro h
    have hkA : A.getD k [] ∈ A := by
      have hlt := ((mem_firstOccIdx A k).1 hk).1
      rw [getD_of_lt A k hlt]; exact List.getElem_mem hlt
    have : A.getD k [] ∈ (dedupRows B).filter (fun r => A.contains r) := by
      rw [List.mem_filter, mem_dedupRows]; exact ⟨h, by simpa using hkA⟩
    rw [← hmap, List.mem_map] at this
    obtain ⟨k', hk', he⟩ := this
    have := firstOccIdx_inj (intersect_mem A B k' hk') hk he
    rw [← this]; exact hk'

theorem setdiff_spec (A B : List Row) :
    setdiffRows A B = (firstOccIdx A).filter (fun k => !B.contains (A.getD k [])) := by
  unfold setdiffRows
  rw [setdiff1d_of_sorted _ _ (firstOccIdx_pairwise A)]
  apply List.filter_congr
  intro k hk
  have := mem_intersect_iff A B k hk
  by_cases h : A.getD k [] ∈ B
  · simp [-List.getD_eq_getElem?_getD, h, this.2 h]
  · have h' : k ∉ intersectRows A B := fun hc => h (this.1 hc)
    simp [-List.getD_eq_getElem?_getD, h, h']

theorem union_spec (A B : List Row) :
    (unionRows A B).Nodup ∧ ∀ r, r ∈ unionRows A B ↔ r ∈ A ∨ r ∈ B := by
  unfold unionRows
  constructor
  · rw [List.nodup_append]
    refine ⟨List.Pairwise.filter _ (dedupRows_nodup B), dedupRows_nodup A, ?_⟩
    intro a ha b hb hab
    subst hab
    rw [List.mem_filter] at ha
    have := ha.2
    simp [hb] at this
  · intro r
    simp only [List.mem_append, List.mem_filter, mem_dedupRows, Bool.not_eq_true',
      List.contains_eq_mem, decide_eq_false_iff_not]
    constructor
    · rintro (⟨h, _⟩ | h)
      · exact Or.inr h
      · exact Or.inl h
    · rintro (h | h)
      · exact Or.inr h
      · by_cases hA : r ∈ A
        · exact Or.inr hA
        · exact Or.inl ⟨h, hA⟩

end Pyttb
