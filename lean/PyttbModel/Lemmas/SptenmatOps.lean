/-
C06 for the sparse matricized tensor: `copy` / `+M` / `-M`, `__setitem__`, `double`, `full`,
`norm`, `nnz`, `isequal`, `to_sptensor` return well-formed results and do not depend on the
stored order of the receiver (models: Ops/SptenmatOps).
-/
import PyttbModel.Lemmas.SparseOrderIndex
import PyttbModel.Lemmas.MLInner
import PyttbModel.Ops.SptenmatOps
set_option linter.unusedSimpArgs false
set_option linter.unusedVariables false
set_option linter.unusedSectionVars false
namespace Pyttb
namespace Sptenmat
variable {α : Type}

/-! ### list facts -/

theorem zipWith_zipWith_left {β γ : Type} (f g : β → γ → γ) (l : List β) (v : List γ) :
    List.zipWith g l (List.zipWith f l v) = List.zipWith (fun s x => g s (f s x)) l v := by
  induction l generalizing v with
  | nil => rfl
  | cons a l ih => cases v with
    | nil => rfl
    | cons b v => simp [ih]

theorem zipWith_congr_mem {β γ : Type} (f g : β → γ → γ) (l : List β) (v : List γ)
    (h : ∀ s ∈ l, ∀ x, f s x = g s x) : List.zipWith f l v = List.zipWith g l v := by
  induction l generalizing v with
  | nil => rfl
  | cons a l ih => cases v with
    | nil => rfl
    | cons b v =>
      simp only [List.zipWith_cons_cons]
      rw [h a (by simp) b, ih v (fun s hs => h s (by simp [hs]))]

theorem zipWith_snd_of_length {β γ : Type} (l : List β) (v : List γ) (h : l.length = v.length) :
    List.zipWith (fun _ x => x) l v = v := by
  induction l generalizing v with
  | nil => cases v with
    | nil => rfl
    | cons b v => simp at h
  | cons a l ih => cases v with
    | nil => simp at h
    | cons b v => simp [ih v (by simpa using h)]

theorem zip_zipWith_left {β γ : Type} (g : β → γ → γ) (l : List β) (v : List γ) :
    l.zip (List.zipWith g l v) = (l.zip v).map fun e => (e.1, g e.1 e.2) := by
  induction l generalizing v with
  | nil => rfl
  | cons a l ih => cases v with
    | nil => rfl
    | cons b v => simp [ih]

theorem zip_unzip_self {β γ : Type} (es : List (β × γ)) : (es.map (·.1)).zip (es.map (·.2)) = es := by
  induction es with
  | nil => rfl
  | cons e es ih => simp [ih]

/-! ### the loop of `__setitem__` -/

/-- value of a stored pair after the loop: every cell of the key that names it overwrites it,
in loop order. -/
def updVal (cvs : List (List Nat × α)) (s : List Nat) (x : α) : α :=
  cvs.foldl (fun x cv => if hits cv.1 s then cv.2 else x) x

theorem updVal_cons (cv : List Nat × α) (cvs : List (List Nat × α)) (s : List Nat) (x : α) :
    updVal (cv :: cvs) s x = updVal cvs s (if hits cv.1 s then cv.2 else x) := rfl

/-- the cells of the key that are not stored. -/
def freshOf (subs : List (List Nat)) (cvs : List (List Nat × α)) : List (List Nat × α) :=
  cvs.filter fun cv => !subs.any (hits cv.1)

/-- the pairs the loop appends: every cell that is not stored once, with the last value. -/
def newOf (subs : List (List Nat)) (cvs : List (List Nat × α)) : List (List Nat × α) :=
  (freshOf subs cvs).foldl addNew []

theorem setLoop_fold (subs : List (List Nat)) (cvs : List (List Nat × α)) (v0 : List α)
    (n0 : List (List Nat × α)) (hl : subs.length = v0.length) :
    cvs.foldl (setCell subs) (v0, n0) =
      (List.zipWith (updVal cvs) subs v0, (freshOf subs cvs).foldl addNew n0) := by
  induction cvs generalizing v0 n0 with
  | nil =>
    simp only [List.foldl_nil, freshOf, List.filter_nil]
    congr 1
    exact (zipWith_snd_of_length subs v0 hl).symm
  | cons cv cvs ih =>
    simp only [List.foldl_cons]
    by_cases hany : subs.any (hits cv.1) = true
    · have hs : setCell subs (v0, n0) cv =
          (List.zipWith (fun s x => if hits cv.1 s then cv.2 else x) subs v0, n0) := by
        simp [setCell, hany]
      rw [hs, ih _ _ (by simp [hl])]
      rw [zipWith_zipWith_left]
      simp only [freshOf, List.filter_cons, hany, Bool.not_true, Bool.false_eq_true, if_false]
      rfl
    · have hany' : subs.any (hits cv.1) = false := by simpa using hany
      have hs : setCell subs (v0, n0) cv = (v0, addNew n0 cv) := by
        simp [setCell, hany']
      rw [hs, ih _ _ hl]
      simp only [freshOf, List.filter_cons, hany', Bool.not_false, if_true, List.foldl_cons]
      congr 1
      apply zipWith_congr_mem
      intro s hs x
      have : hits cv.1 s = false := by
        rw [List.any_eq_false] at hany'
        simpa using hany' s hs
      rw [updVal_cons, this]
      simp

/-! ### the appended pairs -/

theorem addNew_keys (new : List (List Nat × α)) (cv : List Nat × α) :
    (addNew new cv).map (·.1) =
      if new.any (fun e => e.1 == cv.1) then new.map (·.1) else new.map (·.1) ++ [cv.1] := by
  unfold addNew
  split
  · rw [List.map_map]
    apply List.map_congr_left
    intro e _
    simp only [Function.comp]
    split <;> rfl
  · simp

theorem addNew_keys_nodup (new : List (List Nat × α)) (cv : List Nat × α) (h : (new.map (·.1)).Nodup) :
    ((addNew new cv).map (·.1)).Nodup := by
  rw [addNew_keys]
  split
  · exact h
  · next hn =>
    rw [List.nodup_append]
    refine ⟨h, by simp, ?_⟩
    intro a ha b hb hab
    simp only [List.mem_singleton] at hb
    rw [hab, hb] at ha
    apply hn
    obtain ⟨e, he, hk⟩ := List.mem_map.1 ha
    rw [List.any_eq_true]
    exact ⟨e, he, by simpa using hk⟩

theorem addNew_mem_keys (new : List (List Nat × α)) (cv : List Nat × α) (i : List Nat) :
    i ∈ (addNew new cv).map (·.1) ↔ i ∈ new.map (·.1) ∨ i = cv.1 := by
  rw [addNew_keys]
  split
  · next hy =>
    constructor
    · exact Or.inl
    · rintro (h | rfl)
      · exact h
      · rw [List.any_eq_true] at hy
        obtain ⟨e, he, hk⟩ := hy
        exact List.mem_map.2 ⟨e, he, by simpa using hk⟩
  · simp

theorem fold_addNew_keys_nodup (l acc : List (List Nat × α)) (h : (acc.map (·.1)).Nodup) :
    ((l.foldl addNew acc).map (·.1)).Nodup := by
  induction l generalizing acc with
  | nil => exact h
  | cons cv l ih => exact ih _ (addNew_keys_nodup acc cv h)

theorem fold_addNew_mem_keys (l acc : List (List Nat × α)) (i : List Nat) :
    i ∈ (l.foldl addNew acc).map (·.1) ↔ i ∈ acc.map (·.1) ∨ i ∈ l.map (·.1) := by
  induction l generalizing acc with
  | nil => simp
  | cons cv l ih =>
    rw [List.foldl_cons, ih, addNew_mem_keys]
    simp only [List.map_cons, List.mem_cons]
    constructor
    · rintro ((h | h) | h)
      · exact Or.inl h
      · exact Or.inr (Or.inl h)
      · exact Or.inr (Or.inr h)
    · rintro (h | h | h)
      · exact Or.inl (Or.inl h)
      · exact Or.inl (Or.inr h)
      · exact Or.inr h

theorem newOf_keys_nodup (subs : List (List Nat)) (cvs : List (List Nat × α)) :
    ((newOf subs cvs).map (·.1)).Nodup :=
  fold_addNew_keys_nodup _ [] (by simp)

theorem newOf_mem_keys (subs : List (List Nat)) (cvs : List (List Nat × α)) (i : List Nat) :
    i ∈ (newOf subs cvs).map (·.1) ↔ i ∈ (freshOf subs cvs).map (·.1) := by
  unfold newOf
  rw [fold_addNew_mem_keys]
  simp

theorem newOf_eq_nil_iff (subs : List (List Nat)) (cvs : List (List Nat × α)) :
    newOf subs cvs = [] ↔ freshOf subs cvs = [] := by
  constructor
  · intro h
    rw [List.eq_nil_iff_forall_not_mem]
    intro cv hcv
    have : cv.1 ∈ (newOf subs cvs).map (·.1) := (newOf_mem_keys subs cvs cv.1).2 (List.mem_map.2 ⟨cv, hcv, rfl⟩)
    rw [h] at this
    simp at this
  · intro h
    unfold newOf
    rw [h]
    rfl

/-- the unsorted result of the loop as one sparse matrix: the stored pairs with their
(possibly overwritten) values, then the appended pairs. -/
def loopResult (M : Sptenmat α) (cvs : List (List Nat × α)) : Sparse α :=
  ⟨M.mshape, M.subs ++ (newOf M.subs cvs).map (·.1),
    List.zipWith (updVal cvs) M.subs M.vals ++ (newOf M.subs cvs).map (·.2)⟩

theorem loopResult_entries (M : Sptenmat α) (cvs : List (List Nat × α)) (hl : M.subs.length = M.vals.length) :
    (loopResult M cvs).entries =
      (M.mat.entries.map fun e => (e.1, updVal cvs e.1 e.2)) ++ newOf M.subs cvs := by
  simp only [loopResult, Sparse.entries, mat]
  rw [List.zip_append (by simp [hl]), zip_zipWith_left, zip_unzip_self]

theorem loopResult_len (M : Sptenmat α) (cvs : List (List Nat × α)) (hl : M.subs.length = M.vals.length) :
    (loopResult M cvs).subs.length = (loopResult M cvs).vals.length := by
  simp [loopResult, hl]

/-- the loop result without the entries whose value is zero. -/
def finalResult [Zero α] [BEq α] (M : Sptenmat α) (cvs : List (List Nat × α)) : Sparse α :=
  ⟨M.mshape, ((loopResult M cvs).entries.filter fun e => !(e.2 == 0)).map (·.1),
    ((loopResult M cvs).entries.filter fun e => !(e.2 == 0)).map (·.2)⟩

theorem finalResult_entries [Zero α] [BEq α] (M : Sptenmat α) (cvs : List (List Nat × α)) :
    (finalResult M cvs).entries = (loopResult M cvs).entries.filter fun e => !(e.2 == 0) := by
  simp only [finalResult, Sparse.entries]
  exact zip_unzip_self _

theorem mshape_setApply [Zero α] [BEq α] (M : Sptenmat α) (cvs : List (List Nat × α)) :
    (M.setApply cvs).tshape = M.tshape ∧ (M.setApply cvs).rdims = M.rdims ∧
      (M.setApply cvs).cdims = M.cdims ∧ (M.setApply cvs).mshape = M.mshape := by
  unfold setApply
  simp [mshape]

/-- the stored result of `__setitem__` holds the entries of the loop result that are not zero,
sorted when something was appended. -/
theorem setApply_reorder [Zero α] [BEq α] (M : Sptenmat α) (cvs : List (List Nat × α))
    (hl : M.subs.length = M.vals.length) :
    Reorder (M.setApply cvs).mat (finalResult M cvs) := by
  have hm := (mshape_setApply M cvs).2.2.2
  refine ⟨hm, ?_, ?_⟩
  · unfold setApply
    simp [mat]
  · rw [finalResult_entries, loopResult_entries M cvs hl]
    unfold setApply
    simp only [mat, setLoop, setLoop_fold M.subs cvs M.vals [] hl, Sparse.entries, zip_unzip_self]
    apply List.Perm.filter
    split
    · next he =>
      have : newOf M.subs cvs = [] := by unfold newOf; simpa using he
      rw [this, List.append_nil, zip_zipWith_left]
    · simp only [sortEntries]
      rw [zip_zipWith_left]
      exact List.mergeSort_perm _ _

/-! ### order independence of `__setitem__` -/

theorem perm_subs_of_entries {S' S : Sparse α} (hl' : S'.subs.length = S'.vals.length)
    (hl : S.subs.length = S.vals.length) (hp : S'.entries.Perm S.entries) : S'.subs.Perm S.subs := by
  rw [← S'.entries_keys hl', ← S.entries_keys hl]
  exact hp.map _

theorem any_hits_perm {l' l : List (List Nat)} (h : l'.Perm l) (c : List Nat) :
    l'.any (hits c) = l.any (hits c) := by
  rw [Bool.eq_iff_iff, List.any_eq_true, List.any_eq_true]
  constructor
  · rintro ⟨x, hx, hh⟩; exact ⟨x, h.mem_iff.1 hx, hh⟩
  · rintro ⟨x, hx, hh⟩; exact ⟨x, h.mem_iff.2 hx, hh⟩

theorem freshOf_perm {l' l : List (List Nat)} (h : l'.Perm l) (cvs : List (List Nat × α)) :
    freshOf l' cvs = freshOf l cvs := by
  unfold freshOf
  apply List.filter_congr
  intro cv _
  rw [any_hits_perm h]

/-- the loop result for a reordered receiver holds the same pairs. -/
theorem loopResult_perm (M M' : Sptenmat α) (cvs : List (List Nat × α)) (hl : M.subs.length = M.vals.length)
    (r : Reorder M'.mat M.mat) : Reorder (loopResult M' cvs) (loopResult M cvs) := by
  obtain ⟨hsh, hl', hp⟩ := r
  have hps : M'.subs.Perm M.subs := perm_subs_of_entries (S' := M'.mat) (S := M.mat) hl' hl hp
  refine ⟨hsh, loopResult_len M' cvs hl', ?_⟩
  rw [loopResult_entries M' cvs hl', loopResult_entries M cvs hl]
  have hf : newOf M'.subs cvs = newOf M.subs cvs := by unfold newOf; rw [freshOf_perm hps]
  rw [hf]
  exact List.Perm.append_right _ (hp.map _)

theorem reorder_trans {A B C : Sparse α} (h1 : Reorder A B) (h2 : Reorder B C) : Reorder A C :=
  ⟨h1.1.trans h2.1, h1.2.1, h1.2.2.trans h2.2.2⟩

theorem reorder_symm {A B : Sparse α} (h : Reorder A B) (hl : B.subs.length = B.vals.length) : Reorder B A :=
  ⟨h.1.symm, hl, h.2.2.symm⟩

theorem finalResult_len [Zero α] [BEq α] (M : Sptenmat α) (cvs : List (List Nat × α)) :
    (finalResult M cvs).subs.length = (finalResult M cvs).vals.length := by
  simp [finalResult]

theorem finalResult_perm [Zero α] [BEq α] (M M' : Sptenmat α) (cvs : List (List Nat × α))
    (hl : M.subs.length = M.vals.length) (r : Reorder M'.mat M.mat) :
    Reorder (finalResult M' cvs) (finalResult M cvs) := by
  refine ⟨r.1, finalResult_len M' cvs, ?_⟩
  rw [finalResult_entries, finalResult_entries]
  exact (loopResult_perm M M' cvs hl r).2.2.filter _

/-- `__setitem__` on a reordered receiver stores the same pairs. -/
theorem setApply_perm [Zero α] [BEq α] (M M' : Sptenmat α) (cvs : List (List Nat × α))
    (hl : M.subs.length = M.vals.length)
    (r : Reorder M'.mat M.mat) : Reorder (M'.setApply cvs).mat (M.setApply cvs).mat := by
  have h1 := setApply_reorder M' cvs r.2.1
  have h2 := finalResult_perm M M' cvs hl r
  have h3 := setApply_reorder M cvs hl
  exact reorder_trans (reorder_trans h1 h2) (reorder_symm h3 (finalResult_len M cvs))

/-- the checks look at the key, the value and the matrix shape only. -/
theorem setCells_congr (M M' : Sptenmat α) (key : List KeyPart) (rhs : SetRhs α)
    (ht : M'.tshape = M.tshape) (hr : M'.rdims = M.rdims) (hc : M'.cdims = M.cdims) :
    M'.setCells key rhs = M.setCells key rhs := by
  unfold setCells mshape
  rw [ht, hr, hc]

/-! ### cells are (row, column) pairs -/

theorem hits_self (a : List Nat) : hits a a = true := by simp [hits]

theorem pair_of_inBounds {sh : List Nat} (hsh : sh.length = 2) {s : List Nat} (h : InBounds sh s) :
    ∃ x y, s = [x, y] := by
  have := h.length_eq
  rw [hsh] at this
  match s, this with
  | [x, y], _ => exact ⟨x, y, rfl⟩

theorem hits_pair (r c a b : Nat) : hits [r, c] [a, b] = ([r, c] == [a, b]) := by
  rw [Bool.eq_iff_iff]
  simp only [hits, List.getD_cons_zero, List.getD_cons_succ, Bool.and_eq_true, beq_iff_eq, List.cons.injEq,
    and_true]
  constructor <;> rintro ⟨h1, h2⟩ <;> exact ⟨h2.symm, h1.symm⟩

theorem hits_eq_beq {sh : List Nat} (hsh : sh.length = 2) {c s : List Nat} (hc : InBounds sh c)
    (hs : InBounds sh s) : hits c s = (c == s) := by
  obtain ⟨r, c', rfl⟩ := pair_of_inBounds hsh hc
  obtain ⟨a, b, rfl⟩ := pair_of_inBounds hsh hs
  exact hits_pair r c' a b

theorem mshape_length (M : Sptenmat α) : M.mshape.length = 2 := rfl

/-! ### what a stored value becomes -/

theorem updVal_cases (cvs : List (List Nat × α)) (s : List Nat) (x : α) :
    updVal cvs s x = x ∨ ∃ cv ∈ cvs, updVal cvs s x = cv.2 := by
  induction cvs generalizing x with
  | nil => exact Or.inl rfl
  | cons cv cvs ih =>
    rw [updVal_cons]
    rcases ih (if hits cv.1 s then cv.2 else x) with h | ⟨cw, hcw, h⟩
    · by_cases hh : hits cv.1 s = true
      · right
        exact ⟨cv, by simp, by rw [h, if_pos hh]⟩
      · left
        rw [h, if_neg hh]
    · exact Or.inr ⟨cw, by simp [hcw], h⟩

theorem updVal_eq [Zero α] (cvs : List (List Nat × α)) (s : List Nat) (x : α)
    (hh : ∀ cv ∈ cvs, hits cv.1 s = (cv.1 == s)) :
    updVal cvs s x = if s ∈ cvs.map (·.1) then kvLast cvs s else x := by
  induction cvs generalizing x with
  | nil => simp [updVal]
  | cons cv cvs ih =>
    rw [updVal_cons, ih _ (fun cw hcw => hh cw (by simp [hcw])), kvLast_cons, hh cv (by simp)]
    by_cases h1 : s ∈ cvs.map (·.1)
    · have : s ∈ (cv :: cvs).map (·.1) := by simp only [List.map_cons, List.mem_cons]; exact Or.inr h1
      rw [if_pos h1, if_pos this, if_pos h1]
    · rw [if_neg h1, if_neg h1]
      by_cases h2 : cv.1 = s
      · have : s ∈ (cv :: cvs).map (·.1) := by simp [h2.symm]
        rw [if_pos this, if_pos h2]
        simp [h2]
      · have : s ∉ (cv :: cvs).map (·.1) := by
          simp only [List.map_cons, List.mem_cons, not_or]
          exact ⟨fun e => h2 e.symm, h1⟩
        rw [if_neg this]
        simp [h2]

theorem mem_zipWith_exists {β γ δ : Type} (g : β → γ → δ) (l : List β) (w : List γ) (v : δ)
    (h : v ∈ List.zipWith g l w) : ∃ s ∈ l, ∃ x ∈ w, v = g s x := by
  induction l generalizing w with
  | nil => simp at h
  | cons a l ih => cases w with
    | nil => simp at h
    | cons b w =>
      simp only [List.zipWith_cons_cons, List.mem_cons] at h
      rcases h with rfl | h
      · exact ⟨a, by simp, b, by simp, rfl⟩
      · obtain ⟨s, hs, x, hx, e⟩ := ih w h
        exact ⟨s, by simp [hs], x, by simp [hx], e⟩

/-! ### well-formedness after `__setitem__` -/

theorem loopResult_keys_nodup [Zero α] [BEq α] (M : Sptenmat α) (cvs : List (List Nat × α)) (hM : M.mat.WF) :
    (loopResult M cvs).subs.Nodup := by
  simp only [loopResult]
  rw [List.nodup_append]
  refine ⟨hM.nodup, newOf_keys_nodup _ _, ?_⟩
  intro a ha b hb hab
  subst hab
  have hb' := (newOf_mem_keys M.subs cvs a).1 hb
  obtain ⟨cv, hcv, rfl⟩ := List.mem_map.1 hb'
  have := (List.mem_filter.1 hcv).2
  simp only [Bool.not_eq_true', List.any_eq_false] at this
  exact this cv.1 ha (hits_self _)

/-- For EVERY accepted key and value (cells named twice, zero values included) the stored
result of `__setitem__` on a well-formed receiver is well-formed. -/
theorem finalResult_wf [Zero α] [BEq α] (M : Sptenmat α) (cvs : List (List Nat × α)) (hM : M.mat.WF)
    (hin : ∀ cv ∈ cvs, InBounds M.mshape cv.1) : (finalResult M cvs).WF := by
  have hl : M.subs.length = M.vals.length := hM.len
  have hkeys : (loopResult M cvs).entries.map (·.1) = (loopResult M cvs).subs :=
    (loopResult M cvs).entries_keys (loopResult_len M cvs hl)
  have hsub : (((loopResult M cvs).entries.filter fun e => !(e.2 == 0)).map (·.1)).Sublist (loopResult M cvs).subs := by
    rw [← hkeys]
    exact List.Sublist.map _ List.filter_sublist
  refine ⟨finalResult_len M cvs, ?_, ?_, ?_⟩
  · intro i hi
    have hi' : i ∈ (loopResult M cvs).subs := hsub.subset hi
    simp only [loopResult, List.mem_append] at hi'
    rcases hi' with h | h
    · exact hM.inb i h
    · have := (newOf_mem_keys M.subs cvs i).1 h
      obtain ⟨cv, hcv, rfl⟩ := List.mem_map.1 this
      exact hin cv (List.mem_filter.1 hcv).1
  · exact List.Nodup.sublist hsub (loopResult_keys_nodup M cvs hM)
  · intro v hv
    simp only [finalResult, List.mem_map, List.mem_filter] at hv
    obtain ⟨e, ⟨_, hz⟩, rfl⟩ := hv
    simpa using hz

theorem setApply_wf [Zero α] [BEq α] (M : Sptenmat α) (cvs : List (List Nat × α)) (hM : M.mat.WF)
    (hin : ∀ cv ∈ cvs, InBounds M.mshape cv.1) : (M.setApply cvs).mat.WF :=
  wf_perm (setApply_reorder M cvs hM.len) (finalResult_wf M cvs hM hin)

/-! ### the matrix after `__setitem__` -/

section den
variable [AddCommMonoid α] [DecidableEq α]

theorem kvSum_map_same_key (l : List (List Nat × α)) (g : List Nat × α → List Nat × α) (i : List Nat)
    (hk : ∀ e ∈ l, (g e).1 = e.1) (hi : ∀ e ∈ l, e.1 = i → g e = e) : kvSum (l.map g) i = kvSum l i := by
  induction l with
  | nil => rfl
  | cons e l ih =>
    rw [List.map_cons]
    have ih' := ih (fun x hx => hk x (by simp [hx])) (fun x hx => hi x (by simp [hx]))
    by_cases he : e.1 = i
    · rw [hi e (by simp) he]
      obtain ⟨a, v⟩ := e
      simp only at he
      subst he
      rw [kvSum_cons_eq, kvSum_cons_eq, ih']
    · have : (g e).1 ≠ i := by rw [hk e (by simp)]; exact he
      rw [kvSum_cons_ne _ _ _ this, kvSum_cons_ne _ _ _ he, ih']

theorem addNew_kvSum (new : List (List Nat × α)) (cv : List Nat × α) (h : (new.map (·.1)).Nodup) (i : List Nat) :
    kvSum (addNew new cv) i = if cv.1 = i then cv.2 else kvSum new i := by
  by_cases hy : new.any (fun e => e.1 == cv.1) = true
  · have hnd := addNew_keys_nodup new cv h
    by_cases hi : cv.1 = i
    · rw [if_pos hi]
      rw [List.any_eq_true] at hy
      obtain ⟨e, he, hk⟩ := hy
      have hk' : e.1 = cv.1 := by simpa using hk
      apply kvSum_of_mem _ _ _ hnd
      unfold addNew
      rw [if_pos (by rw [List.any_eq_true]; exact ⟨e, he, hk⟩)]
      refine List.mem_map.2 ⟨e, he, ?_⟩
      rw [if_pos (by simpa using hk'), hk', hi]
    · rw [if_neg hi]
      unfold addNew
      rw [if_pos hy]
      apply kvSum_map_same_key
      · intro e _; split <;> rfl
      · intro e _ hei
        have : ¬ (e.1 == cv.1) = true := by
          simp only [beq_iff_eq]
          intro h'; exact hi (h'.symm.trans hei)
        rw [if_neg this]
  · have hy' : new.any (fun e => e.1 == cv.1) = false := by
      cases hq : new.any (fun e => e.1 == cv.1) with
      | true => exact absurd hq hy
      | false => rfl
    unfold addNew
    rw [if_neg hy, kvSum_append]
    by_cases hi : cv.1 = i
    · rw [if_pos hi]
      have h0 : kvSum new i = 0 := by
        apply kvSum_of_not_mem
        intro hm
        obtain ⟨e, he, hk⟩ := List.mem_map.1 hm
        rw [List.any_eq_false] at hy'
        have := hy' e he
        simp only [beq_iff_eq] at this
        exact this (hk.trans hi.symm)
      obtain ⟨c, v⟩ := cv
      simp only at hi
      subst hi
      rw [h0, zero_add, kvSum_cons_eq, kvSum_nil, add_zero]
    · rw [if_neg hi, kvSum_cons_ne _ _ _ hi, kvSum_nil, add_zero]

theorem fold_addNew_kvSum (l acc : List (List Nat × α)) (h : (acc.map (·.1)).Nodup) (i : List Nat) :
    kvSum (l.foldl addNew acc) i = if i ∈ l.map (·.1) then kvLast l i else kvSum acc i := by
  induction l generalizing acc with
  | nil => simp
  | cons cv l ih =>
    rw [List.foldl_cons, ih _ (addNew_keys_nodup acc cv h), kvLast_cons, addNew_kvSum acc cv h]
    by_cases h1 : i ∈ l.map (·.1)
    · have : i ∈ (cv :: l).map (·.1) := by simp only [List.map_cons, List.mem_cons]; exact Or.inr h1
      rw [if_pos h1, if_pos this, if_pos h1]
    · rw [if_neg h1, if_neg h1]
      by_cases h2 : cv.1 = i
      · have : i ∈ (cv :: l).map (·.1) := by simp [h2.symm]
        rw [if_pos this, if_pos h2, if_pos h2]
      · have : i ∉ (cv :: l).map (·.1) := by
          simp only [List.map_cons, List.mem_cons, not_or]
          exact ⟨fun e => h2 e.symm, h1⟩
        rw [if_neg this, if_neg h2]

/-- filtering by a condition on the key does not change the last value under a key that passes. -/
theorem kvLast_filter_key (l : List (List Nat × α)) (p : List Nat → Bool) (i : List Nat) (hp : p i = true) :
    kvLast (l.filter fun e => p e.1) i = kvLast l i ∧
      (i ∈ (l.filter fun e => p e.1).map (·.1) ↔ i ∈ l.map (·.1)) := by
  induction l with
  | nil => simp
  | cons e l ih =>
    obtain ⟨ih1, ih2⟩ := ih
    by_cases hpe : p e.1 = true
    · rw [List.filter_cons, if_pos hpe, kvLast_cons, kvLast_cons, ih1]
      refine ⟨?_, ?_⟩
      · by_cases h1 : i ∈ l.map (·.1)
        · rw [if_pos h1, if_pos (ih2.2 h1)]
        · rw [if_neg h1, if_neg (fun h => h1 (ih2.1 h))]
      · simp only [List.map_cons, List.mem_cons, ih2]
    · have hne : e.1 ≠ i := fun h => hpe (h ▸ hp)
      rw [List.filter_cons, if_neg hpe, kvLast_cons, ih1]
      refine ⟨?_, ?_⟩
      · by_cases h1 : i ∈ l.map (·.1)
        · rw [if_pos h1]
        · rw [if_neg h1, if_neg hne]
          exact kvLast_of_not_mem _ _ h1
      · rw [ih2]
        simp only [List.map_cons, List.mem_cons]
        constructor
        · exact Or.inr
        · rintro (h | h)
          · exact absurd h.symm hne
          · exact h

theorem loopResult_get (M : Sptenmat α) (cvs : List (List Nat × α)) (hM : M.mat.WF)
    (hin : ∀ cv ∈ cvs, InBounds M.mshape cv.1) (i : List Nat) :
    (loopResult M cvs).get i = if i ∈ cvs.map (·.1) then kvLast cvs i else M.mat.get i := by
  have hl : M.subs.length = M.vals.length := hM.len
  rw [Sparse.get_eq_kvSum, loopResult_entries M cvs hl, kvSum_append]
  have hkeys : M.mat.entries.map (·.1) = M.subs := M.mat.entries_keys hl
  have hkeys' : (M.mat.entries.map fun e => (e.1, updVal cvs e.1 e.2)).map (·.1) = M.subs := by
    rw [List.map_map]; exact hkeys
  have hnew : kvSum (newOf M.subs cvs) i =
      if i ∈ (freshOf M.subs cvs).map (·.1) then kvLast (freshOf M.subs cvs) i else 0 := by
    unfold newOf
    rw [fold_addNew_kvSum _ [] (by simp) i, kvSum_nil]
  -- pairs of the key and stored pairs are (row, column) pairs: `hits` is equality
  have hhit : ∀ cv ∈ cvs, ∀ s ∈ M.subs, hits cv.1 s = (cv.1 == s) := fun cv hcv s hs =>
    hits_eq_beq (mshape_length M) (hin cv hcv) (hM.inb s hs)
  by_cases hs : i ∈ M.subs
  · -- a stored pair: nothing is appended for it
    obtain ⟨e, he, hei⟩ : ∃ e ∈ M.mat.entries, e.1 = i := by
      rw [← hkeys] at hs
      obtain ⟨e, he, h⟩ := List.mem_map.1 hs
      exact ⟨e, he, h⟩
    have h1 : kvSum (M.mat.entries.map fun e => (e.1, updVal cvs e.1 e.2)) i = updVal cvs i e.2 := by
      apply kvSum_of_mem _ _ _ (by rw [hkeys']; exact hM.nodup)
      exact List.mem_map.2 ⟨e, he, by rw [hei]⟩
    have h2 : kvSum (newOf M.subs cvs) i = 0 := by
      rw [hnew, if_neg]
      intro hc
      obtain ⟨cv, hcv, rfl⟩ := List.mem_map.1 hc
      have := (List.mem_filter.1 hcv).2
      simp only [Bool.not_eq_true', List.any_eq_false] at this
      exact this cv.1 hs (hits_self _)
    rw [h1, h2, add_zero, updVal_eq cvs i e.2 (fun cv hcv => hhit cv hcv i hs)]
    split
    · rfl
    · have : (i, e.2) ∈ M.mat.entries := by rw [← hei]; exact he
      exact (kvSum_of_mem _ _ _ (by rw [hkeys]; exact hM.nodup) this).symm
  · -- not stored
    have h1 : kvSum (M.mat.entries.map fun e => (e.1, updVal cvs e.1 e.2)) i = 0 :=
      kvSum_of_not_mem _ _ (by rw [hkeys']; exact hs)
    have h0 : M.mat.get i = 0 := M.mat.get_of_not_mem i hs
    rw [h1, zero_add, h0, hnew]
    by_cases hc : i ∈ cvs.map (·.1)
    · obtain ⟨cv, hcv, hcvi⟩ := List.mem_map.1 hc
      have hp : (fun c : List Nat => !M.subs.any (hits c)) i = true := by
        simp only [Bool.not_eq_true', List.any_eq_false]
        intro s hs'
        rw [← hcvi, hhit cv hcv s hs']
        have : cv.1 ≠ s := fun e => hs (hcvi ▸ e ▸ hs')
        simpa using this
      obtain ⟨k1, k2⟩ := kvLast_filter_key cvs (fun c => !M.subs.any (hits c)) i hp
      have k2' : i ∈ (freshOf M.subs cvs).map (·.1) := k2.2 hc
      rw [if_pos hc, if_pos k2']
      exact k1
    · rw [if_neg hc, if_neg]
      intro hc'
      apply hc
      obtain ⟨cv, hcv, rfl⟩ := List.mem_map.1 hc'
      exact List.mem_map.2 ⟨cv, (List.mem_filter.1 hcv).1, rfl⟩

/-- After `M[key] = value` every cell named by the key holds its value (the last one given; an
assigned zero leaves the cell empty), every other cell what it held before. -/
theorem setApply_get (M : Sptenmat α) (cvs : List (List Nat × α)) (hM : M.mat.WF)
    (hin : ∀ cv ∈ cvs, InBounds M.mshape cv.1) (i : List Nat) :
    (M.setApply cvs).mat.get i = if i ∈ cvs.map (·.1) then kvLast cvs i else M.mat.get i := by
  rw [denote_perm (setApply_reorder M cvs hM.len) i, Sparse.get_eq_kvSum, finalResult_entries,
    ML.kvSum_filter_nz, ← Sparse.get_eq_kvSum]
  exact loopResult_get M cvs hM hin i

end den

/-! ### what the checks of `__setitem__` guarantee -/

/-- the key element names no index twice (always true for an integer and for a slice). -/
def KeyPart.NoRepeat : KeyPart → Prop
  | .list is => is.Nodup
  | _ => True

theorem mem_cellsOf {rs cs : List Nat} {t : List Nat} :
    t ∈ cellsOf rs cs ↔ ∃ r ∈ rs, ∃ c ∈ cs, t = [r, c] := by
  simp only [cellsOf, List.mem_flatMap, List.mem_map]
  constructor
  · rintro ⟨c, hc, r, hr, rfl⟩; exact ⟨r, hr, c, hc, rfl⟩
  · rintro ⟨r, hr, c, hc, rfl⟩; exact ⟨c, hc, r, hr, rfl⟩

theorem cellsOf_nodup {rs cs : List Nat} (hr : rs.Nodup) (hc : cs.Nodup) : (cellsOf rs cs).Nodup := by
  unfold cellsOf
  induction cs with
  | nil => simp
  | cons c cs ih =>
    rw [List.nodup_cons] at hc
    simp only [List.flatMap_cons]
    rw [List.nodup_append]
    refine ⟨?_, ih hc.2, ?_⟩
    · apply List.Nodup.map_on _ hr
      intro a _ b _ h
      simpa using h
    · intro a ha b hb hab
      subst hab
      obtain ⟨r, _, rfl⟩ := List.mem_map.1 ha
      obtain ⟨c', hc', hb'⟩ := List.mem_flatMap.1 hb
      obtain ⟨r', _, h⟩ := List.mem_map.1 hb'
      have : c' = c := by simpa using (List.cons.inj (List.cons.inj h).2).1
      exact hc.1 (this ▸ hc')

theorem resolve_nodup {ext : Nat} {p : KeyPart} {l : List Int} (h : p.resolve ext = .ok l)
    (hp : p.NoRepeat) : l.Nodup := by
  cases p with
  | int i => simp only [KeyPart.resolve, Except.ok.injEq] at h; subst h; simp
  | list is => simp only [KeyPart.resolve, Except.ok.injEq] at h; subst h; exact hp
  | slice a b c =>
    simp only [KeyPart.resolve] at h
    cases hs : pySlice ext a b c with
    | error e => rw [hs] at h; cases h
    | ok l0 =>
      rw [hs] at h
      simp only [Except.ok.injEq] at h
      subst h
      exact List.Nodup.map (fun x y hxy => Int.ofNat.inj hxy) (pySlice_nodup hs)

theorem toNat_nodup {l : List Int} (h : l.Nodup) (hnn : ∀ i ∈ l, 0 ≤ i) : (l.map Int.toNat).Nodup := by
  apply List.Nodup.map_on _ h
  intro a ha b hb hab
  have h1 := Int.toNat_of_nonneg (hnn a ha)
  have h2 := Int.toNat_of_nonneg (hnn b hb)
  rw [← h1, ← h2, hab]

/-- What an accepted key / value pair yields: the cells in loop order with one value each,
all inside the matrix; no cell twice when neither key element repeats an index. -/
theorem setCells_spec (M : Sptenmat α) (key : List KeyPart) (rhs : SetRhs α) (cvs : List (List Nat × α))
    (h : M.setCells key rhs = .ok cvs) :
    (∀ cv ∈ cvs, InBounds M.mshape cv.1) ∧
    (∃ rk ck, key = [rk, ck] ∧ (rk.NoRepeat → ck.NoRepeat → (cvs.map (·.1)).Nodup)) ∧
    (∀ v, rhs = .scalar v → ∀ cv ∈ cvs, cv.2 = v) ∧
    (∀ vs, rhs = .arr vs → cvs.map (·.2) = vs) := by
  unfold setCells at h
  match key, h with
  | [rk, ck], h =>
    simp only at h
    by_cases ht : M.tshape.isEmpty = true
    · simp [ht] at h
    simp only [ht, Bool.false_eq_true, if_false] at h
    cases hrs : rk.resolve (M.mshape.getD 0 0) with
    | error e => rw [hrs] at h; simp at h
    | ok rs =>
      cases hcs : ck.resolve (M.mshape.getD 1 0) with
      | error e => rw [hrs, hcs] at h; simp at h
      | ok cs =>
        rw [hrs, hcs] at h
        simp only at h
        split at h
        · cases h
        · next hrange =>
          simp only [Bool.or_eq_true, List.any_eq_true, decide_eq_true_eq, not_or, not_exists, not_and,
            Int.not_lt] at hrange
          obtain ⟨hr, hc⟩ := hrange
          have hr0 : ∀ i ∈ rs, 0 ≤ i ∧ i < (M.mshape.getD 0 0 : Int) := fun i hi => by
            have := hr i hi; omega
          have hc0 : ∀ i ∈ cs, 0 ≤ i ∧ i < (M.mshape.getD 1 0 : Int) := fun i hi => by
            have := hc i hi; omega
          have hcellsin : ∀ t ∈ cellsOf (rs.map Int.toNat) (cs.map Int.toNat), InBounds M.mshape t := by
            intro t ht'
            obtain ⟨r, hr', c, hc', rfl⟩ := mem_cellsOf.1 ht'
            obtain ⟨ri, hri, rfl⟩ := List.mem_map.1 hr'
            obtain ⟨ci, hci, rfl⟩ := List.mem_map.1 hc'
            have h1 := hr0 ri hri
            have h2 := hc0 ci hci
            show InBounds [_, _] [_, _]
            simp only [mshape, List.getD_cons_zero, List.getD_cons_succ] at h1 h2
            refine ⟨by omega, by omega, trivial⟩
          have hnd : rk.NoRepeat → ck.NoRepeat →
              (cellsOf (rs.map Int.toNat) (cs.map Int.toNat)).Nodup := fun h1 h2 =>
            cellsOf_nodup (toNat_nodup (resolve_nodup hrs h1) (fun i hi => (hr0 i hi).1))
              (toNat_nodup (resolve_nodup hcs h2) (fun i hi => (hc0 i hi).1))
          cases rhs with
          | scalar v =>
            simp only [Except.ok.injEq] at h
            subst h
            refine ⟨?_, ⟨rk, ck, rfl, ?_⟩, ?_, ?_⟩
            · intro cv hcv
              exact hcellsin _ (List.of_mem_zip (a := cv.1) (b := cv.2) hcv).1
            · intro h1 h2
              rw [List.map_fst_zip (by simp)]
              exact hnd h1 h2
            · intro v' hv' cv hcv
              cases hv'
              exact List.eq_of_mem_replicate (List.of_mem_zip (a := cv.1) (b := cv.2) hcv).2
            · intro vs hvs; cases hvs
          | arr vs =>
            dsimp only at h
            split at h
            · next hlen =>
              simp only [Except.ok.injEq] at h
              subst h
              refine ⟨?_, ⟨rk, ck, rfl, ?_⟩, ?_, ?_⟩
              · intro cv hcv
                exact hcellsin _ (List.of_mem_zip (a := cv.1) (b := cv.2) hcv).1
              · intro h1 h2
                rw [List.map_fst_zip (Nat.le_of_eq hlen.symm)]
                exact hnd h1 h2
              · intro v' hv'; cases hv'
              · intro vs' hvs'
                cases hvs'
                exact List.map_snd_zip (Nat.le_of_eq hlen)
            · cases h

/-! ### `copy` / `+M` / `-M` -/

/-- the stored triples of `M'` are those of `M` in another order (same mode split). -/
def SameUpToOrder (M' M : Sptenmat α) : Prop :=
  M'.tshape = M.tshape ∧ M'.rdims = M.rdims ∧ M'.cdims = M.cdims ∧ Reorder M'.mat M.mat

theorem SameUpToOrder.mshape {M' M : Sptenmat α} (h : SameUpToOrder M' M) : M'.mshape = M.mshape := by
  unfold Sptenmat.mshape; rw [h.1, h.2.1, h.2.2.1]

section copy
variable [AddMonoid α] [DecidableEq α]

/-- whatever `copy` returns is well-formed, has the receiver's mode split and denotes the
same matrix. -/
theorem copy_spec (M R : Sptenmat α) (h : M.copy = .ok R) :
    R.mat.WF ∧ R.tshape = M.tshape ∧ R.rdims = M.rdims ∧ R.cdims = M.cdims ∧
      ∀ i, R.mat.get i = M.mat.get i := by
  obtain ⟨w, g⟩ := mkCopy_wf M.subs M.vals M.rdims M.cdims M.tshape R h
  obtain ⟨t1, t2, t3, _⟩ := mkCopy_eq M.subs M.vals M.rdims M.cdims M.tshape R h
  exact ⟨w, t1, t2, t3, g⟩

/-- a well-formed receiver with a proper mode split is accepted. -/
theorem copy_ok (M : Sptenmat α) (hM : M.mat.WF) (hp : isPermOf (M.rdims ++ M.cdims) M.tshape.length = true) :
    ∃ R, M.copy = .ok R := by
  unfold copy Sptenmat.mkCopy
  have hpair : ∀ s ∈ M.subs, ∃ x y, s = [x, y] ∧ x < numel (gather M.tshape M.rdims) ∧
      y < numel (gather M.tshape M.cdims) := by
    intro s hs
    have hb : InBounds [numel (gather M.tshape M.rdims), numel (gather M.tshape M.cdims)] s := hM.inb s hs
    obtain ⟨x, y, rfl⟩ := pair_of_inBounds (sh := [_, _]) rfl hb
    exact ⟨x, y, rfl, hb.1, hb.2.1⟩
  have h2 : (M.subs.any fun r => r.length != 2) = false := by
    rw [List.any_eq_false]
    intro s hs
    obtain ⟨x, y, rfl, _⟩ := hpair s hs
    simp
  have h3 : (M.subs.length != M.vals.length) = false := by
    have : M.subs.length = M.vals.length := hM.len
    simp [this]
  have h4 : (M.subs.any fun r => decide (r.getD 0 0 ≥ numel (gather M.tshape M.rdims))) = false := by
    rw [List.any_eq_false]
    intro s hs
    obtain ⟨x, y, rfl, hx, _⟩ := hpair s hs
    simpa using hx
  have h5 : (M.subs.any fun r => decide (r.getD 1 0 ≥ numel (gather M.tshape M.cdims))) = false := by
    rw [List.any_eq_false]
    intro s hs
    obtain ⟨x, y, rfl, _, hy⟩ := hpair s hs
    simpa using hy
  simp only [hp, Bool.not_true, Bool.false_eq_true, if_false, h2, h3, h4, h5]
  exact ⟨_, rfl⟩

end copy

section copyperm
variable [AddCommMonoid α] [DecidableEq α]

/-- `copy` of a reordered receiver stores the same triples. -/
theorem copy_perm (M M' R R' : Sptenmat α) (hs : SameUpToOrder M' M) (h : M.copy = .ok R)
    (h' : M'.copy = .ok R') : SameUpToOrder R' R := by
  obtain ⟨_, t1, t2, t3, _⟩ := copy_spec M R h
  obtain ⟨_, t1', t2', t3', _⟩ := copy_spec M' R' h'
  refine ⟨by rw [t1, t1', hs.1], by rw [t2, t2', hs.2.1], by rw [t3, t3', hs.2.2.1], ?_⟩
  unfold copy at h h'
  rw [hs.1, hs.2.1, hs.2.2.1] at h'
  exact mkCopy_perm M.subs M'.subs M.vals M'.vals M.rdims M.cdims M.tshape R R' h h' hs.2.2.2.2.2

theorem sameUpToOrder_wf {M' M : Sptenmat α} (hs : SameUpToOrder M' M) (hM : M.mat.WF) : M'.mat.WF :=
  wf_perm hs.2.2.2 hM

end copyperm

section neg
variable [Ring α] [DecidableEq α]

theorem kvSum_neg (es : List (List Nat × α)) (i : List Nat) :
    kvSum (es.map fun e => (e.1, -e.2)) i = - kvSum es i := by
  induction es with
  | nil => simp [kvSum_nil]
  | cons e es ih =>
    rw [List.map_cons]
    by_cases he : e.1 = i
    · obtain ⟨a, v⟩ := e
      simp only at he
      subst he
      rw [kvSum_cons_eq, kvSum_cons_eq, ih, neg_add]
    · rw [kvSum_cons_ne (e.1, -e.2) _ i he, kvSum_cons_ne e es i he, ih]

theorem zip_map_right' {β γ δ : Type} (l : List β) (l' : List γ) (f : γ → δ) :
    l.zip (l'.map f) = (l.zip l').map fun e => (e.1, f e.2) := by
  induction l generalizing l' with
  | nil => rfl
  | cons a l ih => cases l' with
    | nil => rfl
    | cons b l' => simp [ih]

/-- `-M` is the copy with every value negated. -/
theorem neg_eq (M R' : Sptenmat α) (h : M.neg = .ok R') :
    ∃ R, M.copy = .ok R ∧ R' = { R with vals := R.vals.map fun v => -v } := by
  unfold neg at h
  cases hc : M.copy with
  | error e => rw [hc] at h; cases h
  | ok R =>
    rw [hc] at h
    simp only [Except.ok.injEq] at h
    exact ⟨R, rfl, h.symm⟩

theorem neg_ok_iff (M : Sptenmat α) : (∃ R, M.copy = .ok R) ↔ ∃ R', M.neg = .ok R' := by
  unfold neg
  cases M.copy with
  | error e => simp
  | ok R => simp

/-- whatever `-M` returns is well-formed and denotes the negated matrix. -/
theorem neg_spec (M R' : Sptenmat α) (h : M.neg = .ok R') :
    R'.mat.WF ∧ R'.tshape = M.tshape ∧ R'.rdims = M.rdims ∧ R'.cdims = M.cdims ∧
      ∀ i, R'.mat.get i = - M.mat.get i := by
  obtain ⟨R, hc, rfl⟩ := neg_eq M R' h
  obtain ⟨w, t1, t2, t3, g⟩ := copy_spec M R hc
  refine ⟨⟨?_, w.inb, w.nodup, ?_⟩, t1, t2, t3, ?_⟩
  · simpa [mat] using w.len
  · intro v hv
    simp only [mat, List.mem_map] at hv
    obtain ⟨x, hx, rfl⟩ := hv
    have := w.nz x hx
    simpa using this
  · intro i
    rw [← g i]
    show kvSum (R.subs.zip (R.vals.map fun v => -v)) i = - kvSum (R.subs.zip R.vals) i
    rw [zip_map_right', kvSum_neg]

/-- `-M` of a reordered receiver stores the same triples. -/
theorem neg_perm (M M' R R' : Sptenmat α) (hs : SameUpToOrder M' M) (h : M.neg = .ok R)
    (h' : M'.neg = .ok R') : SameUpToOrder R' R := by
  obtain ⟨C, hc, rfl⟩ := neg_eq M R h
  obtain ⟨C', hc', rfl⟩ := neg_eq M' R' h'
  obtain ⟨q1, q2, q3, q4, q5, q6⟩ := copy_perm M M' C C' hs hc hc'
  refine ⟨q1, q2, q3, ?_, ?_, ?_⟩
  · exact q4
  · simpa [mat] using q5
  · show (C'.subs.zip (C'.vals.map fun v => -v)).Perm (C.subs.zip (C.vals.map fun v => -v))
    rw [zip_map_right', zip_map_right']
    exact q6.map _

end neg

/-! ### `nnz`, `norm`, `double`, `full`, `isequal` -/

theorem perm_vals_of_entries {S' S : Sparse α} (hl' : S'.subs.length = S'.vals.length)
    (hl : S.subs.length = S.vals.length) (hp : S'.entries.Perm S.entries) : S'.vals.Perm S.vals := by
  have hv' : S'.entries.map (·.2) = S'.vals := List.map_snd_zip (Nat.le_of_eq hl'.symm)
  have hv : S.entries.map (·.2) = S.vals := List.map_snd_zip (Nat.le_of_eq hl.symm)
  rw [← hv', ← hv]
  exact hp.map _

theorem nnz_perm (M M' : Sptenmat α) (hl : M.subs.length = M.vals.length) (hs : SameUpToOrder M' M) :
    M'.nnz = M.nnz :=
  (perm_vals_of_entries (S' := M'.mat) (S := M.mat) hs.2.2.2.2.1 hl hs.2.2.2.2.2).length_eq

theorem normSq_perm [AddCommMonoid α] [Mul α] (M M' : Sptenmat α) (hl : M.subs.length = M.vals.length)
    (hs : SameUpToOrder M' M) : M'.normSq = M.normSq := by
  have hp := perm_vals_of_entries (S' := M'.mat) (S := M.mat) hs.2.2.2.2.1 hl hs.2.2.2.2.2
  exact (hp.map fun v => v * v).sum_eq

theorem double_perm [AddCommMonoid α] (M M' : Sptenmat α) (hs : SameUpToOrder M' M) :
    M'.double = M.double := by
  unfold double
  rw [hs.1, hs.mshape]
  split
  · rfl
  · congr 1
    unfold Dense.ofFn
    congr 1
    apply List.map_congr_left
    intro i _
    exact denote_perm hs.2.2.2 i

theorem double_spec [Add α] [Zero α] (M : Sptenmat α) (D : Dense α) (h : M.double = .ok D) :
    D.WF ∧ D.shape = M.mshape ∧ ∀ i, InBounds M.mshape i → D.get i = M.mat.get i := by
  unfold double at h
  split at h
  · cases h
  · simp only [Except.ok.injEq] at h
    subst h
    exact ⟨Dense.ofFn_WF _ _, rfl, fun i hi => Dense.ofFn_get _ _ hi⟩

theorem full_perm [AddCommMonoid α] [DecidableEq α] (M M' : Sptenmat α) (hM : M.mat.WF)
    (hs : SameUpToOrder M' M) : M'.full? = M.full? := by
  have hM' := sameUpToOrder_wf hs hM
  have hfull : M'.full = M.full := by
    unfold Sptenmat.full
    rw [hs.1, hs.2.1, hs.2.2.1]
    congr 1
    show Sparse.full M'.mat = Sparse.full M.mat
    apply Dense.ext_get (Dense.ofFn_WF _ _) (Dense.ofFn_WF _ _) hs.2.2.2.1
    intro i hi
    have hi' : InBounds M'.mat.shape i := hi
    have e1 := (sp_full_at M'.mat hM' i hi').1
    have e2 := (sp_full_at M.mat hM i (hs.2.2.2.1 ▸ hi')).1
    exact e1.trans ((denote_perm hs.2.2.2 i).trans e2.symm)
  unfold full?
  rw [hs.1, hfull]

theorem full_spec [AddMonoid α] [DecidableEq α] (M : Sptenmat α) (hM : M.mat.WF) (T : Tenmat α)
    (h : M.full? = .ok T) :
    T.tshape = M.tshape ∧ T.rdims = M.rdims ∧ T.cdims = M.cdims ∧ T.data.WF ∧ T.data.shape = M.mshape ∧
      ∀ i, InBounds M.mshape i → T.data.get i = M.mat.get i := by
  unfold full? at h
  split at h
  · cases h
  · simp only [Except.ok.injEq] at h
    subst h
    refine ⟨rfl, rfl, rfl, Dense.ofFn_WF _ _, rfl, fun i hi => ?_⟩
    exact (sp_full_at M.mat hM i hi).1

/-! ### `to_sptensor` -/

theorem toSparse_eq (M : Sptenmat α) :
    M.toSparse = ⟨M.tshape, M.subs.map (unmatSub M.tshape M.rdims M.cdims), M.vals⟩ := rfl

section tosp
variable [Zero α] [BEq α]

theorem unmatSub_inBounds {s r c : List Nat} (hp : isPermOf (r ++ c) s.length = true) {rc : List Nat}
    (h : InBounds [numel (gather s r), numel (gather s c)] rc) : InBounds s (unmatSub s r c rc) := by
  obtain ⟨a, b, rfl⟩ := pair_of_inBounds (sh := [_, _]) rfl h
  obtain ⟨j, hj, hjab⟩ := matSub_surj hp a b h.1 h.2.1
  rw [← hjab, unmatSub_matSub hp hj]
  exact hj

theorem unmatSub_inj {s r c : List Nat} (hp : isPermOf (r ++ c) s.length = true) {p q : List Nat}
    (hp' : InBounds [numel (gather s r), numel (gather s c)] p)
    (hq : InBounds [numel (gather s r), numel (gather s c)] q)
    (h : unmatSub s r c p = unmatSub s r c q) : p = q := by
  obtain ⟨a, b, rfl⟩ := pair_of_inBounds (sh := [_, _]) rfl hp'
  obtain ⟨a', b', rfl⟩ := pair_of_inBounds (sh := [_, _]) rfl hq
  obtain ⟨j, hj, hjab⟩ := matSub_surj hp a b hp'.1 hp'.2.1
  obtain ⟨j', hj', hjab'⟩ := matSub_surj hp a' b' hq.1 hq.2.1
  rw [← hjab, ← hjab', unmatSub_matSub hp hj, unmatSub_matSub hp hj'] at h
  rw [← hjab, ← hjab', h]

/-- `to_sptensor` of a well-formed matricized tensor: the constructor accepts the expanded
subscripts and the tensor is well-formed. -/
theorem toSptensor_wf (M : Sptenmat α) (hM : M.mat.WF)
    (hp : isPermOf (M.rdims ++ M.cdims) M.tshape.length = true) :
    M.toSptensor = .ok M.toSparse ∧ M.toSparse.WF ∧ M.toSparse.shape = M.tshape := by
  have hw : M.toSparse.WF := by
    rw [toSparse_eq]
    exact wf_map_subs M.mat hM M.tshape _ (fun r hr => unmatSub_inBounds hp (hM.inb r hr))
      (fun a ha b hb hab => unmatSub_inj hp (hM.inb a ha) (hM.inb b hb) hab)
  refine ⟨?_, hw, rfl⟩
  unfold toSptensor
  exact ctor_keeps _ _ _ hw.len.symm hw.inb

end tosp

/-- the tensor holds at `j` what the matrix holds at the cell of `j`. -/
theorem toSparse_get [Add α] [Zero α] [BEq α] (M : Sptenmat α) (hM : M.mat.WF)
    (hp : isPermOf (M.rdims ++ M.cdims) M.tshape.length = true) (j : List Nat) (hj : InBounds M.tshape j) :
    M.toSparse.get j = M.mat.get (matSub M.tshape M.rdims M.cdims j) := by
  rw [Sparse.get_eq_kvSum, Sparse.get_eq_kvSum, toSparse_eq]
  show kvSum ((M.subs.map (unmatSub M.tshape M.rdims M.cdims)).zip M.vals) j = kvSum (M.subs.zip M.vals) _
  rw [zip_map_left']
  conv => lhs; rw [← unmatSub_matSub hp hj]
  apply kvSum_map_key
  intro e he h
  have hin : e.1 ∈ M.subs := (List.of_mem_zip (a := e.1) (b := e.2) he).1
  have hcell : InBounds [numel (gather M.tshape M.rdims), numel (gather M.tshape M.cdims)]
      (matSub M.tshape M.rdims M.cdims j) := matSub_inBounds hp hj
  exact unmatSub_inj hp (hM.inb e.1 hin) hcell h

/-- `to_sptensor` of a reordered receiver stores the same (subscript, value) pairs. -/
theorem toSparse_perm (M M' : Sptenmat α) (hs : SameUpToOrder M' M) : Reorder M'.toSparse M.toSparse := by
  rw [toSparse_eq, toSparse_eq, hs.1, hs.2.1, hs.2.2.1]
  refine ⟨rfl, ?_, ?_⟩
  · simpa [mat] using hs.2.2.2.2.1
  · show ((M'.subs.map _).zip M'.vals).Perm ((M.subs.map _).zip M.vals)
    rw [zip_map_left', zip_map_left']
    exact hs.2.2.2.2.2.map _

/-- the square of `norm()` is the sum of the squares of the cells of the matrix. -/
theorem normSq_spec [CommSemiring α] [DecidableEq α] (M : Sptenmat α) (hM : M.mat.WF) :
    M.normSq = ((allSubs M.mshape).map fun k => M.mat.get k * M.mat.get k).sum :=
  ML.sparse_normSq_spec M.mat hM

end Sptenmat
end Pyttb
