/-
Basic lemmas for the Kruskal re-parameterisation proofs (C08): entries of scaled / gathered /
concatenated factor matrices, the component product under a change of one or of all modes,
and congruence of the Kruskal denotation.
-/
import PyttbModel.Ops.KruskalReparam
import PyttbModel.Lemmas.Perm
import Mathlib.Algebra.BigOperators.Group.List.Basic
import Mathlib.Algebra.BigOperators.Ring.List
import Mathlib.Algebra.Ring.Defs
import Mathlib.Tactic.Ring
namespace Pyttb

variable {α : Type}

/-! ### lists -/

theorem getD_zipWith_mul [MulZeroClass α] (a b : List α) (r : Nat) :
    (List.zipWith (· * ·) a b).getD r 0 = a.getD r 0 * b.getD r 0 := by
  induction a generalizing b r with
  | nil => simp
  | cons x a ih =>
    cases b with
    | nil => simp
    | cons y b =>
      cases r with
      | zero => simp
      | succ r => simpa using ih b r

theorem getD_map_range {β : Type} (f : Nat → β) (n r : Nat) (d : β) (h : r < n) :
    ((List.range n).map f).getD r d = f r := by
  simp [List.getD_eq_getElem?_getD, h]

theorem getD_map_of_lt {β γ : Type} (f : β → γ) (l : List β) (r : Nat) (d : β) (e : γ) (h : r < l.length) :
    (l.map f).getD r e = f (l.getD r d) := by
  simp [List.getD_eq_getElem?_getD, h]

theorem getD_ge {β : Type} (l : List β) (r : Nat) (d : β) (h : l.length ≤ r) : l.getD r d = d := by
  simp [List.getD_eq_getElem?_getD, h]

theorem inRange_iff (k : Int) (n : Nat) : inRange k n = true ↔ 0 ≤ k ∧ k < (n : Int) := by
  unfold inRange
  rw [Bool.and_eq_true]
  constructor
  · rintro ⟨a, b⟩; exact ⟨of_decide_eq_true a, of_decide_eq_true b⟩
  · rintro ⟨a, b⟩; exact ⟨decide_eq_true a, decide_eq_true b⟩

theorem inRange_toNat_lt {k : Int} {n : Nat} (h : inRange k n = true) : k.toNat < n := by
  obtain ⟨a, b⟩ := (inRange_iff k n).1 h
  omega

theorem wrapIdx_ofNat {x n : Nat} (h : x < n) : wrapIdx (Int.ofNat x) n = some x := by
  unfold wrapIdx
  rw [if_pos ⟨by simp, by simpa using h⟩]
  simp

theorem except_ok_bind {ε β γ : Type} (a : β) (f : β → Except ε γ) : (Except.ok a >>= f) = f a := rfl

/-! ### matrices -/

theorem Mat.get_eq_col [Zero α] (A : Mat α) (i r : Nat) : Mat.get A i r = (A.col r).getD i 0 := by
  unfold Mat.get Mat.col
  by_cases h : i < A.length
  · rw [getD_map_of_lt _ _ _ [] _ h]
  · have h' : A.length ≤ i := by omega
    rw [getD_ge A i [] h', getD_ge (A.map _) i 0 (by simpa using h')]
    simp

theorem Mat.get_map_rows [Zero α] (A : Mat α) (g : List α → List α) (hg : g [] = []) (i r : Nat) :
    Mat.get (A.map g) i r = (g (A.getD i [])).getD r 0 := by
  unfold Mat.get
  by_cases h : i < A.length
  · rw [getD_map_of_lt _ _ _ [] _ h]
  · have h' : A.length ≤ i := by omega
    rw [getD_ge (A.map g) i [] (by simpa using h'), getD_ge A i [] h', hg]

theorem Mat.get_scaleR [MulZeroClass α] (A : Mat α) (c : List α) (i r : Nat) :
    Mat.get (A.scaleR c) i r = Mat.get A i r * c.getD r 0 := by
  unfold Mat.scaleR
  rw [Mat.get_map_rows _ _ (by simp), getD_zipWith_mul]
  rfl

theorem Mat.get_scaleL [MulZeroClass α] (c : List α) (A : Mat α) (i r : Nat) :
    Mat.get (Mat.scaleL c A) i r = c.getD r 0 * Mat.get A i r := by
  unfold Mat.scaleL
  rw [Mat.get_map_rows _ _ (by simp), getD_zipWith_mul]
  rfl

theorem Mat.col_scaleL [MulZeroClass α] (c : List α) (A : Mat α) (r : Nat) :
    (Mat.scaleL c A).col r = (A.col r).map (c.getD r 0 * ·) := by
  unfold Mat.scaleL Mat.col
  rw [List.map_map, List.map_map]
  apply List.map_congr_left
  intro row _
  simp only [Function.comp]
  exact getD_zipWith_mul _ _ _

theorem Mat.col_scaleR [MulZeroClass α] (c : List α) (A : Mat α) (r : Nat) :
    (Mat.scaleR A c).col r = (A.col r).map (· * c.getD r 0) := by
  unfold Mat.scaleR Mat.col
  rw [List.map_map, List.map_map]
  apply List.map_congr_left
  intro row _
  simp only [Function.comp]
  exact getD_zipWith_mul _ _ _

theorem Mat.length_scaleL [Mul α] (c : List α) (A : Mat α) : (Mat.scaleL c A).length = A.length := by
  simp [Mat.scaleL]

theorem Mat.length_scaleR [Mul α] (c : List α) (A : Mat α) : (Mat.scaleR A c).length = A.length := by
  simp [Mat.scaleR]

theorem Mat.length_gatherCols [Zero α] (p : List Nat) (A : Mat α) : (A.gatherCols p).length = A.length := by
  simp [Mat.gatherCols]

theorem Mat.get_gatherCols [Zero α] (A : Mat α) (p : List Nat) (i k : Nat) (hk : k < p.length) :
    Mat.get (A.gatherCols p) i k = Mat.get A i (p.getD k 0) := by
  unfold Mat.gatherCols Mat.get
  by_cases h : i < A.length
  · rw [getD_map_of_lt _ _ _ [] _ h]
    unfold gatherD
    rw [getD_map_of_lt _ _ _ 0 _ hk]
  · have h' : A.length ≤ i := by omega
    rw [getD_ge (A.map _) i [] (by simpa using h'), getD_ge A i [] h']
    simp

theorem Mat.col_gatherCols [Zero α] (A : Mat α) (p : List Nat) (k : Nat) (hk : k < p.length) :
    (A.gatherCols p).col k = A.col (p.getD k 0) := by
  unfold Mat.gatherCols Mat.col gatherD
  simp only [List.map_map]
  apply List.map_congr_left
  intro row _
  simp only [Function.comp]
  rw [getD_map_of_lt _ _ _ 0 _ hk]

/-! ### the component product -/

section comp
variable [CommSemiring α]

theorem Ktensor.comp_def (K : Ktensor α) (r : Nat) (i : List Nat) :
    K.comp r i = (List.zipWith (fun A ik => Mat.get A ik r) K.factors i).prod := rfl

/-- the component product does not look at the weights -/
theorem Ktensor.comp_weights (w w' : List α) (fs : List (Mat α)) (r : Nat) (i : List Nat) :
    (⟨w, fs⟩ : Ktensor α).comp r i = (⟨w', fs⟩ : Ktensor α).comp r i := rfl

theorem prod_zipWith_set {β γ : Type} [CommMonoid β] (f : γ → Nat → β) (l : List γ) (i : List Nat) (n : Nat)
    (a' : γ) (d : γ) (c : β) (hn : n < l.length) (hi : n < i.length)
    (h : f a' (i.getD n 0) = f (l.getD n d) (i.getD n 0) * c) :
    (List.zipWith f (l.set n a') i).prod = (List.zipWith f l i).prod * c := by
  induction l generalizing n i with
  | nil => simp at hn
  | cons a l ih =>
    cases i with
    | nil => simp at hi
    | cons j i =>
      cases n with
      | zero =>
        simp only [List.set_cons_zero, List.zipWith_cons_cons, List.prod_cons]
        simp only [List.getD_cons_zero] at h
        rw [h]
        exact mul_right_comm _ _ _
      | succ n =>
        simp only [List.set_cons_succ, List.zipWith_cons_cons, List.prod_cons]
        rw [ih i n (by simpa using hn) (by simpa using hi) (by simpa using h), mul_assoc]

theorem prod_zipWith_eq_zero {γ : Type} (f : γ → Nat → α) (l : List γ) (i : List Nat) (n : Nat) (d : γ)
    (hn : n < l.length) (hi : n < i.length) (h : f (l.getD n d) (i.getD n 0) = 0) :
    (List.zipWith f l i).prod = 0 := by
  induction l generalizing n i with
  | nil => simp at hn
  | cons a l ih =>
    cases i with
    | nil => simp at hi
    | cons j i =>
      cases n with
      | zero =>
        simp only [List.zipWith_cons_cons, List.prod_cons]
        simp only [List.getD_cons_zero] at h
        rw [h, zero_mul]
      | succ n =>
        simp only [List.zipWith_cons_cons, List.prod_cons]
        rw [ih i n (by simpa using hn) (by simpa using hi) (by simpa using h), mul_zero]

theorem prod_zipWith_map_scale {γ : Type} (f : γ → Nat → α) (g : γ → γ) (c : α) (l : List γ) (i : List Nat)
    (h : ∀ a j, f (g a) j = f a j * c) :
    (List.zipWith f (l.map g) i).prod = (List.zipWith f l i).prod * c ^ (min l.length i.length) := by
  induction l generalizing i with
  | nil => simp
  | cons a l ih =>
    cases i with
    | nil => simp
    | cons j i =>
      simp only [List.map_cons, List.zipWith_cons_cons, List.prod_cons, List.length_cons]
      rw [ih i, h, Nat.succ_min_succ, pow_succ]
      ring

theorem zipWith_map_congr {β γ : Type} (f f' : γ → Nat → β) (g : γ → γ) (l : List γ) (i : List Nat)
    (h : ∀ a j, f' (g a) j = f a j) :
    List.zipWith f' (l.map g) i = List.zipWith f l i := by
  induction l generalizing i with
  | nil => simp
  | cons a l ih =>
    cases i with
    | nil => simp
    | cons j i => simp [h, ih]

/-- Changing mode `n` so that column `r` is multiplied by `c` multiplies component `r` by `c`. -/
theorem Ktensor.comp_set (K : Ktensor α) (w' : List α) (n : Nat) (A' : Mat α) (r : Nat) (c : α) (i : List Nat)
    (hn : n < K.factors.length) (hi : i.length = K.factors.length)
    (h : ∀ j, Mat.get A' j r = Mat.get (K.factors.getD n []) j r * c) :
    (⟨w', K.factors.set n A'⟩ : Ktensor α).comp r i = K.comp r i * c := by
  unfold Ktensor.comp
  exact prod_zipWith_set _ _ _ _ _ [] _ hn (by omega) (h _)

/-- A zero entry in one mode kills the component. -/
theorem Ktensor.comp_eq_zero (K : Ktensor α) (n r : Nat) (i : List Nat)
    (hn : n < K.factors.length) (hi : i.length = K.factors.length)
    (h : Mat.get (K.factors.getD n []) (i.getD n 0) r = 0) : K.comp r i = 0 := by
  unfold Ktensor.comp
  exact prod_zipWith_eq_zero _ _ _ n [] hn (by omega) h

end comp

/-! ### congruence of the denotation -/

theorem Ktensor.get_congr [Add α] [Mul α] [One α] [Zero α] {K K' : Ktensor α} (i : List Nat)
    (hR : K'.ncomp = K.ncomp)
    (h : ∀ r, r < K.ncomp → K'.weights.getD r 0 * K'.comp r i = K.weights.getD r 0 * K.comp r i) :
    K'.get i = K.get i := by
  unfold Ktensor.get
  rw [hR]
  congr 1
  apply List.map_congr_left
  intro r hr
  exact h r (List.mem_range.1 hr)

theorem Ktensor.get_eq_sum [Add α] [Mul α] [One α] [Zero α] (K : Ktensor α) (i : List Nat) :
    K.get i = ((List.range K.weights.length).map fun r => K.weights.getD r 0 * K.comp r i).sum := rfl

end Pyttb
