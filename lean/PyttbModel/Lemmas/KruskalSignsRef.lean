/-
C08 lemmas: the alignment normal form reached by `fixsigns(other)`.  For every component of the
reference, after the call at most one mode of the receiver is negatively correlated with the
reference's column, and then no other mode has a sign score of smaller magnitude (the sum of the
sign scores is the largest one that an even number of flips can reach).  A second call changes
nothing.
-/
import PyttbModel.Lemmas.KruskalSignsForm
import Mathlib.Data.List.Nodup
set_option linter.unusedSectionVars false
set_option linter.unusedSimpArgs false
set_option linter.unusedVariables false
namespace Pyttb
namespace Ktensor

variable {α : Type}

/-! ### lists -/

theorem lastFilter_spec (p : Nat → Bool) (n : Nat) :
    (∀ bp, ((List.range n).filter p).getLast? = some bp →
      bp < n ∧ p bp = true ∧ ∀ j, bp < j → j < n → p j = false) ∧
    (((List.range n).filter p).getLast? = none → ∀ j, j < n → p j = false) := by
  induction n with
  | zero => simp
  | succ n ih =>
    rw [List.range_succ, List.filter_append]
    by_cases hp : p n = true
    · have e : List.filter p [n] = [n] := by simp [hp]
      rw [e, List.getLast?_append]
      simp only [List.getLast?_singleton, Option.some_or]
      constructor
      · intro bp h
        injection h with h
        subst h
        exact ⟨Nat.lt_succ_self _, hp, fun j h1 h2 => by omega⟩
      · intro h; cases h
    · have e : List.filter p [n] = [] := by simp [hp]
      rw [e, List.append_nil]
      constructor
      · intro bp h
        obtain ⟨h1, h2, h3⟩ := ih.1 bp h
        refine ⟨by omega, h2, ?_⟩
        intro j hj1 hj2
        by_cases hjn : j = n
        · subst hjn; simpa using hp
        · exact h3 j hj1 (by omega)
      · intro h j hj
        by_cases hjn : j = n
        · subst hjn; simpa using hp
        · exact ih.2 h j (by omega)

theorem map_range_getD_eq_take (σ : List Nat) (e : Nat) (he : e ≤ σ.length) :
    (List.range e).map (fun i => σ.getD i 0) = σ.take e := by
  apply List.ext_getElem
  · simp; omega
  · intro k h1 h2
    simp only [List.length_map, List.length_range] at h1
    rw [List.getElem_map, List.getElem_range, List.getElem_take, getD0_of_lt σ k (by omega)]

/-- position of a value in a duplicate-free list: it is among the first `e` entries iff its
position is below `e` -/
theorem getD_mem_take_iff (σ : List Nat) (hnd : σ.Nodup) (e j : Nat) (hj : j < σ.length) :
    σ.getD j 0 ∈ σ.take e ↔ j < e := by
  constructor
  · intro h
    obtain ⟨k, hk, ek⟩ := List.getElem_of_mem h
    rw [List.length_take] at hk
    rw [List.getElem_take, getD0_of_lt σ j hj] at ek
    have := (List.Nodup.getElem_inj_iff hnd).1 ek
    omega
  · intro h
    rw [getD0_of_lt σ j hj]
    have : σ[j] = (σ.take e)[j]'(by rw [List.length_take]; omega) := by rw [List.getElem_take]
    rw [this]
    exact List.getElem_mem _

section field
variable [Field α] [LinearOrder α] [IsStrictOrderedRing α]

theorem sorted_getD_le (t : List α) (hs : t.Pairwise (· ≤ ·)) (i j : Nat) (hij : i ≤ j) (hj : j < t.length) :
    t.getD i 0 ≤ t.getD j 0 := by
  rw [List.getD_eq_getElem?_getD, List.getD_eq_getElem?_getD, List.getElem?_eq_getElem hj,
    List.getElem?_eq_getElem (by omega : i < t.length)]
  simp only [Option.getD_some]
  rcases Nat.lt_or_eq_of_le hij with h | h
  · exact List.pairwise_iff_getElem.1 hs i j (by omega) hj h
  · subst h; exact le_refl _

theorem dot_neg (v u : List α) : dot (v.map (-1 * ·)) u = - dot v u := by
  unfold dot
  induction v generalizing u with
  | nil => simp
  | cons x v ih =>
    cases u with
    | nil => simp
    | cons y u =>
      simp only [List.map_cons, List.zipWith_cons_cons, List.sum_cons]
      rw [ih u]
      ring

/-! ### how many of the sorted scores are flipped -/

/-- the sorted score at position `j` after flipping the first `e` -/
def flipped (t : List α) (e j : Nat) : α := if j < e then -(t.getD j 0) else t.getD j 0

/-- The repaired code never fails to pick an end point. -/
theorem fixsignsEndpt_ok (t : List α) (N RB : Nat) : ∃ o, fixsignsEndpt true t N RB = .ok o := by
  unfold fixsignsEndpt
  split
  · exact ⟨_, rfl⟩
  · split
    · exact ⟨_, rfl⟩
    · simp only [if_true]
      split <;> exact ⟨_, rfl⟩

theorem fixsignsEndpt_none (t : List α) (N RB : Nat) (h : fixsignsEndpt true t N RB = .ok none) :
    ∀ j, j < t.length → 0 ≤ t.getD j 0 := by
  unfold fixsignsEndpt at h
  split at h
  · rename_i hl
    intro j hj
    have := (lastFilter_spec (fun j => decide (t.getD j 0 < 0)) t.length).2 hl j hj
    simpa using this
  · split at h
    · cases h
    · simp only [if_true] at h
      split at h <;> cases h

/-- After flipping the first `e` sorted scores, a position that is still negative is the only one,
and every other position holds a score at least as large in magnitude. -/
theorem fixsignsEndpt_some (t : List α) (N RB e : Nat) (hlen : t.length = N) (hs : t.Pairwise (· ≤ ·))
    (h : fixsignsEndpt true t N RB = .ok (some e)) :
    e ≤ N ∧ ∀ j, j < N → flipped t e j < 0 → ∀ k, k < N → k ≠ j → -(flipped t e j) ≤ flipped t e k := by
  unfold fixsignsEndpt at h
  split at h
  · cases h
  · rename_i bp hl
    obtain ⟨hbp, hneg, hafter⟩ := (lastFilter_spec (fun j => decide (t.getD j 0 < 0)) t.length).1 bp hl
    simp only [decide_eq_true_eq] at hneg
    have hafter' : ∀ j, bp < j → j < N → 0 ≤ t.getD j 0 := by
      intro j h1 h2
      have := hafter j h1 (by omega)
      simpa using this
    have hbefore : ∀ j, j ≤ bp → t.getD j 0 ≤ t.getD bp 0 := fun j hj => sorted_getD_le t hs j bp hj hbp
    have hmono : ∀ i j, i ≤ j → j < N → t.getD i 0 ≤ t.getD j 0 :=
      fun i j hij hj => sorted_getD_le t hs i j hij (by omega)
    split at h
    · -- an even number of negative scores: all of them are flipped
      injection h with h; injection h with h
      subst h
      refine ⟨by omega, ?_⟩
      intro j hj hjneg
      exfalso
      unfold flipped at hjneg
      split at hjneg
      · have := hbefore j (by omega); linarith
      · have := hafter' j (by omega) hj; linarith
    · simp only [if_true] at h
      split at h
      · -- one more
        rename_i hc
        rw [Bool.and_eq_true, decide_eq_true_eq, decide_eq_true_eq] at hc
        injection h with h; injection h with h
        subst h
        refine ⟨by omega, ?_⟩
        have hnext : 0 ≤ t.getD (bp + 1) 0 := hafter' (bp + 1) (by omega) hc.1
        intro j hj hjneg k hk hkj
        unfold flipped at hjneg ⊢
        by_cases hj1 : j ≤ bp
        · exfalso
          rw [if_pos (by omega)] at hjneg
          have := hbefore j hj1; linarith
        · by_cases hj2 : j = bp + 1
          · subst hj2
            rw [if_pos (by omega), neg_neg]
            by_cases hk1 : k ≤ bp
            · rw [if_pos (by omega)]
              have := hbefore k hk1; linarith [hc.2]
            · rw [if_neg (by omega)]
              exact hmono (bp + 1) k (by omega) hk
          · exfalso
            rw [if_neg (by omega)] at hjneg
            have := hafter' j (by omega) hj; linarith
      · -- one fewer
        rename_i hc
        rw [Bool.and_eq_true, decide_eq_true_eq, decide_eq_true_eq, not_and, not_lt] at hc
        injection h with h; injection h with h
        subst h
        refine ⟨by omega, ?_⟩
        intro j hj hjneg k hk hkj
        unfold flipped at hjneg ⊢
        by_cases hj1 : j < bp
        · exfalso
          rw [if_pos hj1] at hjneg
          have := hbefore j (by omega); linarith
        · rw [if_neg hj1] at hjneg ⊢
          by_cases hj2 : j = bp
          · subst hj2
            by_cases hk1 : k < j
            · rw [if_pos hk1]
              have := hbefore k (by omega); linarith
            · rw [if_neg hk1]
              have h1 := hc (by omega)
              have h2 := hmono (j + 1) k (by omega) hk
              linarith
          · exfalso
            have := hafter' j (by omega) hj; linarith

/-- On sorted scores that are already aligned nothing is flipped. -/
theorem fixsignsEndpt_aligned (t : List α) (N RB : Nat) (hlen : t.length = N) (hs : t.Pairwise (· ≤ ·))
    (hal : ∀ j, j < N → t.getD j 0 < 0 → ∀ k, k < N → k ≠ j → -(t.getD j 0) ≤ t.getD k 0) :
    fixsignsEndpt true t N RB = .ok none ∨ fixsignsEndpt true t N RB = .ok (some 0) := by
  unfold fixsignsEndpt
  split
  · exact Or.inl rfl
  · rename_i bp hl
    right
    obtain ⟨hbp, hneg, hafter⟩ := (lastFilter_spec (fun j => decide (t.getD j 0 < 0)) t.length).1 bp hl
    simp only [decide_eq_true_eq] at hneg
    have hbp0 : bp = 0 := by
      by_contra hne
      have h0 : t.getD 0 0 ≤ t.getD bp 0 := sorted_getD_le t hs 0 bp (by omega) hbp
      have := hal bp (by omega) hneg 0 (by omega) (by omega)
      linarith
    subst hbp0
    have e1 : ((0 + 1) % 2 == 0) = false := by decide
    rw [e1]
    simp only [Bool.false_eq_true, if_false, if_true]
    rw [if_neg]
    intro hc
    rw [Bool.and_eq_true, decide_eq_true_eq, decide_eq_true_eq] at hc
    have := hal 0 (by omega) hneg 1 (by omega) (by omega)
    have h2 := hc.2
    simp only [Nat.zero_add] at h2
    linarith

/-! ### one component against the reference -/

/-- the sign score of mode `n` in component `r`: `A_n[:, r] · B_n[:, r]` -/
def refScore (A B : Ktensor α) (r n : Nat) : α :=
  dot ((A.factors.getD n []).col r) ((B.factors.getD n []).col r)

/-- Component `r` of `A` is aligned with the reference `B`: a mode that is negatively correlated
with the reference is the only one, and every other mode has a sign score at least as large in
magnitude. -/
def Aligned (A B : Ktensor α) (r : Nat) : Prop :=
  ∀ n, n < A.factors.length → refScore A B r n < 0 →
    ∀ m, m < A.factors.length → m ≠ n → -(refScore A B r n) ≤ refScore A B r m

theorem perm_pos {σ : List Nat} {N : Nat} (h : isPermOf σ N = true) {n : Nat} (hn : n < N) :
    ∃ j, j < N ∧ σ.getD j 0 = n := by
  obtain ⟨j, hj, e⟩ := List.getElem_of_mem (isPermOf_mem_of_lt h hn)
  refine ⟨j, by rw [← isPermOf_length_eq h]; exact hj, ?_⟩
  rw [getD0_of_lt σ j hj]; exact e

/-- the scores of component `r`, as `fixsignsRefComp` computes them -/
def scoreList (A B : Ktensor α) (r : Nat) : List α := (List.range A.ndims).map (refScore A B r)

/-- the per-component guard of the model (implied by the up-front check of the code) -/
def compGuard (B A : Ktensor α) : Bool :=
  (List.range A.ndims).all fun n => decide (n < B.ndims) &&
      (A.factors.getD n []).length == (B.factors.getD n []).length

theorem fixsignsRefComp_eq (S : Services α) (B A : Ktensor α) (r : Nat) :
    fixsignsRefComp S true B A r =
      if decide (A.ncomp ≤ r) then .error .reject
      else if !(compGuard B A) then .error .reject
      else
        match fixsignsEndpt true ((S.argsort (scoreList A B r)).map fun k => (scoreList A B r).getD k 0)
            A.ndims B.ncomp with
        | .error e => .error e
        | .ok none => .ok A
        | .ok (some endpt) =>
          .ok (((List.range endpt).map fun i => (S.argsort (scoreList A B r)).getD i 0).foldl
            (fun K n => negCol K n r) A) := rfl

/-- What one round of the reference loop does: it negates column `r` in the modes holding the
`e` smallest sign scores, where `e` is the end point chosen by `fixsignsEndpt` (nothing when
no score is negative). -/
theorem fixsignsRefComp_flips {S : Services α} (hS : S.Lawful) (B A : Ktensor α) (r : Nat) {A' : Ktensor α}
    (h : fixsignsRefComp S true B A r = .ok A') :
    r < A.ncomp ∧ compGuard B A = true ∧
    ∃ e, e ≤ A.factors.length ∧
      A' = ((S.argsort (scoreList A B r)).take e).foldl (fun K n => negCol K n r) A ∧
      (fixsignsEndpt true ((S.argsort (scoreList A B r)).map fun k => (scoreList A B r).getD k 0)
          A.ndims B.ncomp = .ok (some e) ∨
       (e = 0 ∧ fixsignsEndpt true ((S.argsort (scoreList A B r)).map fun k => (scoreList A B r).getD k 0)
          A.ndims B.ncomp = .ok none)) := by
  rw [fixsignsRefComp_eq] at h
  have hp := hS.argsort_perm (scoreList A B r)
  have hsl : (scoreList A B r).length = A.factors.length := by simp [scoreList, ndims]
  rw [hsl] at hp
  have hσlen := isPermOf_length_eq hp
  split at h
  · cases h
  · rename_i h1
    split at h
    · cases h
    · rename_i h2
      refine ⟨by simpa using h1, by simpa using h2, ?_⟩
      split at h
      · cases h
      · rename_i he
        injection h with h
        exact ⟨0, Nat.zero_le _, by simpa using h.symm, Or.inr ⟨rfl, he⟩⟩
      · rename_i e he
        injection h with h
        have hsorted := hS.argsort_sorted (scoreList A B r)
        have hle := (fixsignsEndpt_some _ A.ndims B.ncomp e (by simp [hσlen, ndims]) hsorted he).1
        rw [ndims_eq] at hle
        refine ⟨e, hle, ?_, Or.inl he⟩
        rw [← map_range_getD_eq_take _ _ (by omega)]
        exact h.symm

theorem refScore_congr (A A' B : Ktensor α) (r n : Nat)
    (h : (A'.factors.getD n []).col r = (A.factors.getD n []).col r) : refScore A' B r n = refScore A B r n := by
  unfold refScore; rw [h]

theorem Aligned.congr {A A' B : Ktensor α} {r : Nat} (hN : A'.factors.length = A.factors.length)
    (h : ∀ n, (A'.factors.getD n []).col r = (A.factors.getD n []).col r) (ha : Aligned A B r) :
    Aligned A' B r := by
  intro n hn hneg m hm hmn
  rw [refScore_congr A A' B r n (h n)] at hneg ⊢
  rw [refScore_congr A A' B r m (h m)]
  exact ha n (by omega) hneg m (by omega) hmn

/-- After the round for component `r`, that component is aligned with the reference; the other
components are untouched. -/
theorem fixsignsRefComp_spec {S : Services α} (hS : S.Lawful) (B A : Ktensor α) (r : Nat) {A' : Ktensor α}
    (h : fixsignsRefComp S true B A r = .ok A') :
    A'.factors.length = A.factors.length ∧ A'.ncomp = A.ncomp ∧ A'.shape = A.shape ∧ A'.weights = A.weights ∧
    Aligned A' B r ∧
    (∀ r', r' ≠ r → r' < A.ncomp → ∀ m, (A'.factors.getD m []).col r' = (A.factors.getD m []).col r') := by
  obtain ⟨hr, _, e, he, hA', hend⟩ := fixsignsRefComp_flips hS B A r h
  have hp := hS.argsort_perm (scoreList A B r)
  have hsl : (scoreList A B r).length = A.factors.length := by simp [scoreList, ndims]
  rw [hsl] at hp
  have hσlen := isPermOf_length_eq hp
  have hσnd := isPermOf_nodup hp
  have hms : ∀ n ∈ (S.argsort (scoreList A B r)).take e, n < A.factors.length :=
    fun n hn => isPermOf_lt_of_mem hp (List.mem_of_mem_take hn)
  have hmsnd : ((S.argsort (scoreList A B r)).take e).Nodup := hσnd.sublist (List.take_sublist _ _)
  obtain ⟨f1, f2, f3, _⟩ := foldl_negCol A _ r hms
  have hcol := foldl_negCol_col A _ r hms hmsnd
  rw [← hA'] at f1 f2 f3 hcol
  refine ⟨f2, by simp only [ncomp, f1], f3, f1, ?_, ?_⟩
  · -- the scores of the result, position by position of the sorted order
    have hsorted := hS.argsort_sorted (scoreList A B r)
    have htlen : ((S.argsort (scoreList A B r)).map fun k => (scoreList A B r).getD k 0).length
        = A.ndims := by simp [hσlen, ndims]
    have hsget : ∀ n, n < A.factors.length → (scoreList A B r).getD n 0 = refScore A B r n := by
      intro n hn
      unfold scoreList
      rw [getD_map_range _ _ _ _ (by simpa [ndims] using hn)]
    have htget : ∀ j, j < A.factors.length →
        ((S.argsort (scoreList A B r)).map fun k => (scoreList A B r).getD k 0).getD j 0
          = refScore A B r ((S.argsort (scoreList A B r)).getD j 0) := by
      intro j hj
      rw [getD_map_of_lt _ _ _ 0 _ (by omega), hsget _ (isPermOf_getD_lt hp hj)]
    have hnew : ∀ j, j < A.factors.length →
        refScore A' B r ((S.argsort (scoreList A B r)).getD j 0)
          = flipped ((S.argsort (scoreList A B r)).map fun k => (scoreList A B r).getD k 0) e j := by
      intro j hj
      unfold refScore flipped
      rw [hcol _ r hr, htget j hj]
      have := getD_mem_take_iff _ hσnd e j (by omega)
      by_cases hje : j < e
      · rw [if_pos ⟨this.2 hje, rfl⟩, if_pos hje, dot_neg]; rfl
      · rw [if_neg (fun hc => hje (this.1 hc.1)), if_neg hje]; rfl
    intro n hn hneg m hm hmn
    rw [f2] at hn hm
    obtain ⟨j, hj, rfl⟩ := perm_pos hp hn
    obtain ⟨k, hk, rfl⟩ := perm_pos hp hm
    have hkj : k ≠ j := fun e' => hmn (by rw [e'])
    rw [hnew j hj] at hneg ⊢
    rw [hnew k hk]
    rcases hend with hend | ⟨rfl, hend⟩
    · exact (fixsignsEndpt_some _ A.ndims B.ncomp e htlen hsorted hend).2 j (by simpa [ndims] using hj) hneg
        k (by simpa [ndims] using hk) hkj
    · exfalso
      have := fixsignsEndpt_none _ _ _ hend j (by rw [htlen]; simpa [ndims] using hj)
      unfold flipped at hneg
      rw [if_neg (Nat.not_lt_zero _)] at hneg
      linarith
  · intro r' hne hr' m
    rw [hcol m r' hr', if_neg (fun hc => hne hc.2)]

/-! ### the loop over the components of the reference -/

theorem foldlM_fixsignsRefComp_other {S : Services α} (hS : S.Lawful) (B A : Ktensor α) (rs : List Nat)
    {A' : Ktensor α} (h : rs.foldlM (fixsignsRefComp S true B) A = .ok A') :
    A'.factors.length = A.factors.length ∧ A'.ncomp = A.ncomp ∧ A'.shape = A.shape ∧ A'.weights = A.weights ∧
    ∀ r, r ∉ rs → r < A.ncomp → ∀ m, (A'.factors.getD m []).col r = (A.factors.getD m []).col r := by
  induction rs generalizing A with
  | nil =>
    simp only [List.foldlM_nil] at h
    injection h with h
    subst h
    exact ⟨rfl, rfl, rfl, rfl, fun _ _ _ _ => rfl⟩
  | cons r0 rs ih =>
    rw [List.foldlM_cons] at h
    cases h1 : fixsignsRefComp S true B A r0 with
    | error e => rw [h1] at h; cases h
    | ok A1 =>
      rw [h1] at h
      obtain ⟨g1, g2, g3, g4, _, g6⟩ := fixsignsRefComp_spec hS B A r0 h1
      obtain ⟨k1, k2, k3, k4, k5⟩ := ih A1 h
      refine ⟨k1.trans g1, k2.trans g2, k3.trans g3, k4.trans g4, ?_⟩
      intro r hr hrA m
      rw [List.mem_cons, not_or] at hr
      rw [k5 r hr.2 (by rw [g2]; exact hrA) m, g6 r hr.1 hrA m]

theorem foldlM_fixsignsRefComp_aligned {S : Services α} (hS : S.Lawful) (B A : Ktensor α) (rs : List Nat)
    (hnd : rs.Nodup) {A' : Ktensor α} (h : rs.foldlM (fixsignsRefComp S true B) A = .ok A') :
    ∀ r ∈ rs, Aligned A' B r := by
  induction rs generalizing A with
  | nil => intro r hr; cases hr
  | cons r0 rs ih =>
    rw [List.foldlM_cons] at h
    rw [List.nodup_cons] at hnd
    cases h1 : fixsignsRefComp S true B A r0 with
    | error e => rw [h1] at h; cases h
    | ok A1 =>
      rw [h1] at h
      intro r hr
      rcases List.mem_cons.1 hr with rfl | hr
      · obtain ⟨_, g2, _, _, g5, _⟩ := fixsignsRefComp_spec hS B A r h1
        obtain ⟨hr0, _⟩ := fixsignsRefComp_flips hS B A r h1
        obtain ⟨k1, _, _, _, k5⟩ := foldlM_fixsignsRefComp_other hS B A1 rs h
        exact Aligned.congr k1 (k5 r hnd.1 (by rw [g2]; exact hr0)) g5
      · exact ih A1 hnd.2 h r hr

/-! ### the normalised form is a fixed point of `normalize` -/

/-- What `normalize()` (all modes, no absorption, no sorting) establishes, and what makes a second
`normalize()` change nothing: non-negative weights; every column has unit norm or is a zero
column whose component has weight zero; no row is longer than the number of components. -/
structure NF (nrm : List α → α) (K : Ktensor α) : Prop where
  ndims_pos : 0 < K.factors.length
  nonneg : ∀ w ∈ K.weights, 0 ≤ w
  cols : ∀ m, m < K.factors.length → ∀ r, r < K.ncomp →
    nrm ((K.factors.getD m []).col r) = 1 ∨
      (nrm ((K.factors.getD m []).col r) = 0 ∧ K.weights.getD r 0 = 0)
  rows : ∀ m, m < K.factors.length → ∀ row ∈ K.factors.getD m [], row.length ≤ K.ncomp

theorem zipWith_ones_mul (cs row : List α) (hlen : row.length ≤ cs.length) (hc : ∀ k, k < row.length → cs.getD k 0 = 1) :
    List.zipWith (· * ·) cs row = row := by
  apply List.ext_getElem
  · simp; omega
  · intro k h1 h2
    rw [List.getElem_zipWith]
    have := hc k h2
    rw [List.getD_eq_getElem?_getD, List.getElem?_eq_getElem (by omega)] at this
    simp only [Option.getD_some] at this
    rw [this, one_mul]

theorem zipWith_mul_ones (w ts : List α) (hlen : w.length ≤ ts.length) (hc : ∀ k, k < w.length → w.getD k 0 * ts.getD k 0 = w.getD k 0) :
    List.zipWith (· * ·) w ts = w := by
  apply List.ext_getElem
  · simp; omega
  · intro k h1 h2
    rw [List.getElem_zipWith]
    have := hc k h2
    rw [List.getD_eq_getElem?_getD, List.getElem?_eq_getElem h2, List.getD_eq_getElem?_getD,
      List.getElem?_eq_getElem (by omega)] at this
    simpa using this

theorem set_getD_self {β : Type} (l : List β) (n : Nat) (d : β) (hn : n < l.length) : l.set n (l.getD n d) = l := by
  rw [List.getD_eq_getElem?_getD, List.getElem?_eq_getElem hn]
  simp

theorem normalizeMode_fixed {nrm : List α → α} (K : Ktensor α) (h : NF nrm K) (n : Nat) (hn : n < K.factors.length) :
    normalizeMode nrm K n = K := by
  unfold normalizeMode
  have hts : ∀ r, r < K.ncomp → ((List.range K.ncomp).map fun r => nrm ((K.factors.getD n []).col r)).getD r 0
      = nrm ((K.factors.getD n []).col r) := fun r hr => getD_map_range _ _ _ _ hr
  have hw : List.zipWith (· * ·) K.weights ((List.range K.ncomp).map fun r => nrm ((K.factors.getD n []).col r))
      = K.weights := by
    apply zipWith_mul_ones
    · simp [ncomp]
    · intro k hk
      rw [hts k hk]
      rcases h.cols n hn k hk with h1 | ⟨h1, h2⟩
      · rw [h1, mul_one]
      · rw [h2, zero_mul]
  have hA : (K.factors.getD n []).scaleL
      (((List.range K.ncomp).map fun r => nrm ((K.factors.getD n []).col r)).map fun t => if 0 < t then 1 / t else 1)
      = K.factors.getD n [] := by
    unfold Mat.scaleL
    conv_rhs => rw [← List.map_id (K.factors.getD n [])]
    apply List.map_congr_left
    intro row hrow
    simp only [id]
    apply zipWith_ones_mul
    · simp only [List.length_map, List.length_range]
      exact h.rows n hn row hrow
    · intro k hk
      have hkR : k < K.ncomp := lt_of_lt_of_le hk (h.rows n hn row hrow)
      rw [getD_map_of_lt _ _ _ 0 _ (by simpa using hkR), hts k hkR]
      rcases h.cols n hn k hkR with h1 | ⟨h1, _⟩
      · rw [h1]; simp
      · rw [h1]; simp
  simp only
  rw [hw, hA, set_getD_self _ _ _ hn]

theorem flipNegWeights_fixed {nrm : List α → α} (K : Ktensor α) (h : NF nrm K) : flipNegWeights K = K := by
  unfold flipNegWeights
  have hw : (K.weights.map fun w => if w < 0 then -w else w) = K.weights := by
    conv_rhs => rw [← List.map_id K.weights]
    apply List.map_congr_left
    intro w hw
    rw [if_neg (not_lt.2 (h.nonneg w hw))]; rfl
  have hA : (K.factors.getD 0 []).scaleL (K.weights.map fun w => if w < 0 then (-1 : α) else 1)
      = K.factors.getD 0 [] := by
    unfold Mat.scaleL
    conv_rhs => rw [← List.map_id (K.factors.getD 0 [])]
    apply List.map_congr_left
    intro row hrow
    simp only [id]
    apply zipWith_ones_mul
    · simp only [List.length_map]
      exact h.rows 0 h.ndims_pos row hrow
    · intro k hk
      have hkR : k < K.weights.length := lt_of_lt_of_le hk (h.rows 0 h.ndims_pos row hrow)
      rw [getD_map_of_lt _ _ _ 0 _ hkR]
      rw [if_neg]
      apply not_lt.2
      rw [List.getD_eq_getElem?_getD, List.getElem?_eq_getElem hkR]
      exact h.nonneg _ (List.getElem_mem hkR)
  rw [hw, hA, set_getD_self _ _ _ h.ndims_pos]

theorem foldl_normalizeMode_fixed {nrm : List α → α} (K : Ktensor α) (h : NF nrm K) (l : List Nat)
    (hl : ∀ n ∈ l, n < K.factors.length) : l.foldl (normalizeMode nrm) K = K := by
  induction l with
  | nil => rfl
  | cons n l ih =>
    simp only [List.foldl_cons]
    rw [normalizeMode_fixed K h n (hl n (List.mem_cons_self ..))]
    exact ih (fun m hm => hl m (List.mem_cons_of_mem _ hm))

/-- A tensor in normalised form is left as it is by `normalize()`. -/
theorem normalize_fixed (S : Services α) (nt : NormType) (K : Ktensor α) (h : NF (S.nrm nt) K) :
    normalize S K none false nt none = .ok K := by
  unfold normalize
  have e1 : (K.ndims == 0) = false := by
    rw [beq_eq_false_iff_ne, ndims_eq]
    exact Nat.pos_iff_ne_zero.1 h.ndims_pos
  have e2 : normalizeAllModes (S.nrm nt) K = K :=
    foldl_normalizeMode_fixed K h _ (fun n hn => by simpa [ndims] using hn)
  simp only [wfValid, Bool.not_true, Bool.false_eq_true, if_false, e1, e2, flipNegWeights_fixed K h,
    absorbWeights, sortComps, Bool.false_and]

/-! ### `normalize()` reaches the normalised form -/

/-- the condition on one column -/
def ColCond (nrm : List α → α) (K : Ktensor α) (m r : Nat) : Prop :=
  nrm ((K.factors.getD m []).col r) = 1 ∨
    (nrm ((K.factors.getD m []).col r) = 0 ∧ K.weights.getD r 0 = 0)

/-- the condition on the rows of one mode -/
def RowCond (K : Ktensor α) (m : Nat) : Prop := ∀ row ∈ K.factors.getD m [], row.length ≤ K.ncomp

theorem length_zipWith_le {β : Type} (f : β → β → β) (cs row : List β) : (List.zipWith f cs row).length ≤ cs.length := by
  simp

theorem scaleL_rows (cs : List α) (A : Mat α) : ∀ row ∈ Mat.scaleL cs A, row.length ≤ cs.length := by
  intro row hrow
  unfold Mat.scaleL at hrow
  obtain ⟨row0, _, rfl⟩ := List.mem_map.1 hrow
  exact length_zipWith_le _ _ _

theorem normalizeMode_colCond_self {nrm : List α → α} (L : NormLaws nrm) (K : Ktensor α) (n : Nat)
    (hn : n < K.factors.length) (r : Nat) (hr : r < K.ncomp) : ColCond nrm (normalizeMode nrm K n) n r := by
  unfold ColCond
  rw [normalizeMode_self nrm K n hn r hr, normalizeMode_weight nrm K n r hr, L.smul]
  unfold nmCoef
  split
  · rename_i ht
    left
    rw [abs_of_pos (by positivity)]
    field_simp
  · rename_i ht
    right
    have h0 : nrm ((K.factors.getD n []).col r) = 0 := le_antisymm (not_lt.1 ht) (L.nonneg _)
    rw [h0]
    simp

theorem normalizeMode_colCond_other {nrm : List α → α} (K : Ktensor α) (n m : Nat) (hnm : n ≠ m) (r : Nat)
    (hr : r < K.ncomp) (h : ColCond nrm K m r) : ColCond nrm (normalizeMode nrm K n) m r := by
  unfold ColCond at h ⊢
  rw [normalizeMode_other nrm K n m hnm, normalizeMode_weight nrm K n r hr]
  rcases h with h | ⟨h1, h2⟩
  · exact Or.inl h
  · exact Or.inr ⟨h1, by rw [h2, zero_mul]⟩

theorem normalizeMode_rowCond_self (nrm : List α → α) (K : Ktensor α) (n : Nat) (hn : n < K.factors.length) :
    RowCond (normalizeMode nrm K n) n := by
  unfold RowCond
  rw [normalizeMode_ncomp]
  unfold normalizeMode
  simp only [List.getD_eq_getElem?_getD, List.getElem?_set_self hn, Option.getD_some]
  intro row hrow
  have := scaleL_rows _ _ row hrow
  simpa using this

theorem normalizeMode_rowCond_other (nrm : List α → α) (K : Ktensor α) (n m : Nat) (hnm : n ≠ m)
    (h : RowCond K m) : RowCond (normalizeMode nrm K n) m := by
  unfold RowCond at h ⊢
  rw [normalizeMode_ncomp, normalizeMode_other nrm K n m hnm]
  exact h

theorem foldl_normalizeMode_nf {nrm : List α → α} (L : NormLaws nrm) (K : Ktensor α) (k : Nat)
    (hk : k ≤ K.factors.length) :
    ((List.range k).foldl (normalizeMode nrm) K).factors.length = K.factors.length ∧
    ((List.range k).foldl (normalizeMode nrm) K).ncomp = K.ncomp ∧
    ∀ m, m < k → (∀ r, r < K.ncomp → ColCond nrm ((List.range k).foldl (normalizeMode nrm) K) m r) ∧
      RowCond ((List.range k).foldl (normalizeMode nrm) K) m := by
  induction k with
  | zero => exact ⟨rfl, rfl, fun m hm => absurd hm (Nat.not_lt_zero _)⟩
  | succ k ih =>
    obtain ⟨h1, h2, h3⟩ := ih (by omega)
    rw [List.range_succ, List.foldl_append]
    simp only [List.foldl_cons, List.foldl_nil]
    have hk' : k < ((List.range k).foldl (normalizeMode nrm) K).factors.length := by rw [h1]; omega
    refine ⟨(normalizeMode_ndims _ _ _).trans h1, (normalizeMode_ncomp _ _ _).trans h2, ?_⟩
    intro m hm
    by_cases hmk : m = k
    · subst hmk
      exact ⟨fun r hr => normalizeMode_colCond_self L _ m hk' r (by rw [h2]; exact hr),
        normalizeMode_rowCond_self _ _ m hk'⟩
    · obtain ⟨g1, g2⟩ := h3 m (by omega)
      exact ⟨fun r hr => normalizeMode_colCond_other _ k m (Ne.symm hmk) r (by rw [h2]; exact hr) (g1 r hr),
        normalizeMode_rowCond_other _ _ k m (Ne.symm hmk) g2⟩

theorem flipNegWeights_ncomp (K : Ktensor α) : (flipNegWeights K).ncomp = K.ncomp := by
  simp [flipNegWeights, ncomp]

theorem flipNegWeights_ndims (K : Ktensor α) : (flipNegWeights K).factors.length = K.factors.length := by
  simp [flipNegWeights]

theorem flipNegWeights_colCond {nrm : List α → α} (L : NormLaws nrm) (K : Ktensor α) (m r : Nat)
    (hr : r < K.ncomp) (h : ColCond nrm K m r) : ColCond nrm (flipNegWeights K) m r := by
  have hw : (flipNegWeights K).weights.getD r 0
      = if K.weights.getD r 0 < 0 then - K.weights.getD r 0 else K.weights.getD r 0 := by
    unfold flipNegWeights
    simp only
    rw [getD_map_of_lt _ _ _ 0 _ hr]
  have hnrm : nrm (((flipNegWeights K).factors.getD m []).col r) = nrm ((K.factors.getD m []).col r) := by
    by_cases hm : m = 0
    · subst hm
      by_cases hN : 0 < K.factors.length
      · unfold flipNegWeights
        simp only [List.getD_eq_getElem?_getD, List.getElem?_set_self hN, Option.getD_some]
        rw [Mat.col_scaleL, L.smul, ← List.getD_eq_getElem?_getD, getD_map_of_lt _ _ _ 0 _ hr]
        split <;> simp [List.getD_eq_getElem?_getD]
      · have : K.factors = [] := List.eq_nil_of_length_eq_zero (by omega)
        simp [flipNegWeights, this]
    · have : (flipNegWeights K).factors.getD m [] = K.factors.getD m [] := by
        simp [flipNegWeights, List.getD_eq_getElem?_getD, List.getElem?_set_ne (Ne.symm hm)]
      rw [this]
  unfold ColCond at h ⊢
  rw [hnrm, hw]
  rcases h with h | ⟨h1, h2⟩
  · exact Or.inl h
  · exact Or.inr ⟨h1, by rw [h2]; simp⟩

theorem flipNegWeights_rowCond (K : Ktensor α) (m : Nat) (h : RowCond K m) : RowCond (flipNegWeights K) m := by
  unfold RowCond at h ⊢
  rw [flipNegWeights_ncomp]
  by_cases hm : m = 0
  · subst hm
    by_cases hN : 0 < K.factors.length
    · unfold flipNegWeights
      simp only [List.getD_eq_getElem?_getD, List.getElem?_set_self hN, Option.getD_some]
      intro row hrow
      have := scaleL_rows _ _ row hrow
      simpa [ncomp] using this
    · have : K.factors = [] := List.eq_nil_of_length_eq_zero (by omega)
      simp [flipNegWeights, this]
  · have : (flipNegWeights K).factors.getD m [] = K.factors.getD m [] := by
      simp [flipNegWeights, List.getD_eq_getElem?_getD, List.getElem?_set_ne (Ne.symm hm)]
    rw [this]
    exact h

/-- `normalize()` reaches the normalised form. -/
theorem normalize_nf {S : Services α} (hS : S.Lawful) (nt : NormType) (K : Ktensor α) {K' : Ktensor α}
    (h : normalize S K none false nt none = .ok K') : NF (S.nrm nt) K' := by
  obtain ⟨hN, e⟩ := normalize_none_eq S K none false nt h
  have e' : K' = flipNegWeights (normalizeAllModes (S.nrm nt) K) := by
    rw [e]; simp [sortComps, absorbWeights]
  obtain ⟨h1, h2, h3⟩ := foldl_normalizeMode_nf (hS.norm nt) K K.factors.length (le_refl _)
  have hall : normalizeAllModes (S.nrm nt) K = (List.range K.factors.length).foldl (normalizeMode (S.nrm nt)) K := rfl
  rw [← hall] at h1 h2 h3
  subst e'
  refine ⟨by rw [flipNegWeights_ndims, h1]; exact hN, flipNegWeights_nonneg _, ?_, ?_⟩
  · intro m hm r hr
    rw [flipNegWeights_ndims, h1] at hm
    rw [flipNegWeights_ncomp, h2] at hr
    exact flipNegWeights_colCond (hS.norm nt) _ m r (by rw [h2]; exact hr) ((h3 m hm).1 r hr)
  · intro m hm
    rw [flipNegWeights_ndims, h1] at hm
    exact flipNegWeights_rowCond _ m (h3 m hm).2

/-- `normalize()` is idempotent: a second call (same norm, nothing absorbed, nothing sorted)
returns the tensor it is given. -/
theorem normalize_idem {S : Services α} (hS : S.Lawful) (nt : NormType) (K : Ktensor α) {K' : Ktensor α}
    (h : normalize S K none false nt none = .ok K') : normalize S K' none false nt none = .ok K' :=
  normalize_fixed S nt K' (normalize_nf hS nt K h)

/-! ### sign flips keep the normalised form -/

theorem negCol_nf {nrm : List α → α} (L : NormLaws nrm) (K : Ktensor α) (h : NF nrm K) (n r : Nat)
    (hn : n < K.factors.length) : NF nrm (negCol K n r) := by
  refine ⟨by rw [negCol_ndims]; exact h.ndims_pos, h.nonneg, ?_, ?_⟩
  · intro m hm r' hr'
    rw [negCol_ndims] at hm
    rw [negCol_ncomp] at hr'
    rw [negCol_col K n r m r' hn hr', negCol_weights]
    split
    · rw [L.smul]
      simpa using h.cols m hm r' hr'
    · exact h.cols m hm r' hr'
  · intro m hm
    rw [negCol_ndims] at hm
    rw [negCol_ncomp]
    by_cases hmn : m = n
    · subst hmn
      unfold negCol
      simp only [List.getD_eq_getElem?_getD, List.getElem?_set_self hn, Option.getD_some]
      intro row hrow
      have := scaleL_rows _ _ row hrow
      simpa using this
    · have : (negCol K n r).factors.getD m [] = K.factors.getD m [] := by
        simp [negCol, List.getD_eq_getElem?_getD, List.getElem?_set_ne (Ne.symm hmn)]
      rw [this]
      exact h.rows m hm

theorem foldl_negCol_nf {nrm : List α → α} (L : NormLaws nrm) (K : Ktensor α) (h : NF nrm K) (ms : List Nat) (r : Nat)
    (hms : ∀ n ∈ ms, n < K.factors.length) : NF nrm (ms.foldl (fun K n => negCol K n r) K) := by
  induction ms generalizing K with
  | nil => exact h
  | cons n ms ih =>
    simp only [List.foldl_cons]
    apply ih _ (negCol_nf L K h n r (hms n (List.mem_cons_self ..)))
    intro x hx
    rw [negCol_ndims]
    exact hms x (List.mem_cons_of_mem _ hx)

theorem fixsignsRefComp_nf {S : Services α} (hS : S.Lawful) {nrm : List α → α} (L : NormLaws nrm) (B A : Ktensor α)
    (r : Nat) {A' : Ktensor α} (hnf : NF nrm A) (h : fixsignsRefComp S true B A r = .ok A') : NF nrm A' := by
  obtain ⟨_, _, e, he, hA', _⟩ := fixsignsRefComp_flips hS B A r h
  have hp := hS.argsort_perm (scoreList A B r)
  have hsl : (scoreList A B r).length = A.factors.length := by simp [scoreList, ndims]
  rw [hsl] at hp
  rw [hA']
  exact foldl_negCol_nf L A hnf _ r (fun n hn => isPermOf_lt_of_mem hp (List.mem_of_mem_take hn))

theorem foldlM_fixsignsRefComp_nf {S : Services α} (hS : S.Lawful) {nrm : List α → α} (L : NormLaws nrm)
    (B A : Ktensor α) (rs : List Nat) {A' : Ktensor α} (hnf : NF nrm A)
    (h : rs.foldlM (fixsignsRefComp S true B) A = .ok A') : NF nrm A' := by
  induction rs generalizing A with
  | nil =>
    simp only [List.foldlM_nil] at h
    injection h with h
    subst h
    exact hnf
  | cons r0 rs ih =>
    rw [List.foldlM_cons] at h
    cases h1 : fixsignsRefComp S true B A r0 with
    | error e => rw [h1] at h; cases h
    | ok A1 =>
      rw [h1] at h
      exact ih A1 (fixsignsRefComp_nf hS L B A r0 hnf h1) h

/-! ### the whole call -/

theorem compGuard_of_shape (B A : Ktensor α) (h : A.shape = B.shape) : compGuard B A = true := by
  unfold compGuard
  rw [List.all_eq_true]
  intro n hn
  have hn' : n < A.factors.length := by simpa [ndims] using hn
  have hlen : A.factors.length = B.factors.length := by
    have := congrArg List.length h
    simpa [Ktensor.shape] using this
  have h1 : (A.factors.getD n []).length = A.shape.getD n 0 := by
    unfold Ktensor.shape
    rw [getD_map_of_lt _ _ _ [] _ hn']
  have h2 : (B.factors.getD n []).length = B.shape.getD n 0 := by
    unfold Ktensor.shape
    rw [getD_map_of_lt _ _ _ [] _ (by omega)]
  rw [Bool.and_eq_true, decide_eq_true_eq, beq_iff_eq, h1, h2, h]
  exact ⟨by rw [ndims_eq]; omega, rfl⟩

theorem length_getD_eq_shape (K : Ktensor α) (n : Nat) : (K.factors.getD n []).length = K.shape.getD n 0 := by
  unfold Ktensor.shape
  by_cases hn : n < K.factors.length
  · rw [getD_map_of_lt _ _ _ [] _ hn]
  · rw [getD_ge _ _ _ (by omega), getD_ge _ _ _ (by simp; omega)]
    rfl

theorem compGuard_congr (B A A' : Ktensor α) (h : A'.shape = A.shape) : compGuard B A' = compGuard B A := by
  have hlen : A'.factors.length = A.factors.length := by
    have := congrArg List.length h
    simpa [Ktensor.shape] using this
  unfold compGuard
  rw [ndims_eq, ndims_eq, hlen]
  congr 1
  funext n
  rw [length_getD_eq_shape A' n, length_getD_eq_shape A n, h]

/-- The round for a component that is already aligned changes nothing. -/
theorem fixsignsRefComp_id {S : Services α} (hS : S.Lawful) (B A : Ktensor α) (r : Nat) (hr : r < A.ncomp)
    (hg : compGuard B A = true) (hal : Aligned A B r) : fixsignsRefComp S true B A r = .ok A := by
  rw [fixsignsRefComp_eq]
  have e1 : decide (A.ncomp ≤ r) = false := by rw [decide_eq_false_iff_not]; omega
  rw [e1, hg]
  simp only [Bool.false_eq_true, if_false, Bool.not_true]
  have hp := hS.argsort_perm (scoreList A B r)
  have hsl : (scoreList A B r).length = A.factors.length := by simp [scoreList, ndims]
  rw [hsl] at hp
  have hσlen := isPermOf_length_eq hp
  have hsorted := hS.argsort_sorted (scoreList A B r)
  have htlen : ((S.argsort (scoreList A B r)).map fun k => (scoreList A B r).getD k 0).length
      = A.ndims := by simp [hσlen, ndims]
  have hsget : ∀ n, n < A.factors.length → (scoreList A B r).getD n 0 = refScore A B r n := by
    intro n hn
    unfold scoreList
    rw [getD_map_range _ _ _ _ (by simpa [ndims] using hn)]
  have htget : ∀ j, j < A.factors.length →
      ((S.argsort (scoreList A B r)).map fun k => (scoreList A B r).getD k 0).getD j 0
        = refScore A B r ((S.argsort (scoreList A B r)).getD j 0) := by
    intro j hj
    rw [getD_map_of_lt _ _ _ 0 _ (by omega), hsget _ (isPermOf_getD_lt hp hj)]
  have hal' : ∀ j, j < A.ndims →
      ((S.argsort (scoreList A B r)).map fun k => (scoreList A B r).getD k 0).getD j 0 < 0 →
      ∀ k, k < A.ndims → k ≠ j →
        -(((S.argsort (scoreList A B r)).map fun k => (scoreList A B r).getD k 0).getD j 0)
          ≤ ((S.argsort (scoreList A B r)).map fun k => (scoreList A B r).getD k 0).getD k 0 := by
    intro j hj hneg k hk hkj
    rw [ndims_eq] at hj hk
    rw [htget j hj] at hneg ⊢
    rw [htget k hk]
    apply hal _ (isPermOf_getD_lt hp hj) hneg _ (isPermOf_getD_lt hp hk)
    intro e
    exact hkj (isPermOf_getD_inj hp hk hj e)
  rcases fixsignsEndpt_aligned _ A.ndims B.ncomp htlen hsorted hal' with h | h
  · rw [h]
  · rw [h]; rfl

theorem fixsignsRefComp_ok {S : Services α} (B A : Ktensor α) (r : Nat) (hr : r < A.ncomp)
    (hg : compGuard B A = true) : ∃ A', fixsignsRefComp S true B A r = .ok A' := by
  rw [fixsignsRefComp_eq]
  have e1 : decide (A.ncomp ≤ r) = false := by rw [decide_eq_false_iff_not]; omega
  rw [e1, hg]
  simp only [Bool.false_eq_true, if_false, Bool.not_true]
  obtain ⟨o, ho⟩ := fixsignsEndpt_ok ((S.argsort (scoreList A B r)).map fun k => (scoreList A B r).getD k 0)
    A.ndims B.ncomp
  rw [ho]
  cases o with
  | none => exact ⟨_, rfl⟩
  | some e => exact ⟨_, rfl⟩

theorem foldlM_fixsignsRefComp_ok {S : Services α} (hS : S.Lawful) (B A : Ktensor α) (rs : List Nat)
    (hrs : ∀ r ∈ rs, r < A.ncomp) (hg : compGuard B A = true) :
    ∃ A', rs.foldlM (fixsignsRefComp S true B) A = .ok A' := by
  induction rs generalizing A with
  | nil => exact ⟨A, rfl⟩
  | cons r0 rs ih =>
    obtain ⟨A1, h1⟩ := fixsignsRefComp_ok (S := S) B A r0 (hrs r0 (List.mem_cons_self ..)) hg
    obtain ⟨_, g2, g3, _⟩ := fixsignsRefComp_spec hS B A r0 h1
    obtain ⟨A', h2⟩ := ih A1 (fun r hr => by rw [g2]; exact hrs r (List.mem_cons_of_mem _ hr))
      (by rw [compGuard_congr B A A1 g3]; exact hg)
    exact ⟨A', by rw [List.foldlM_cons, h1]; exact h2⟩

theorem foldlM_id {β γ ε : Type} (f : γ → β → Except ε γ) (A : γ) (rs : List β) (h : ∀ r ∈ rs, f A r = .ok A) :
    rs.foldlM f A = .ok A := by
  induction rs with
  | nil => rfl
  | cons r rs ih =>
    rw [List.foldlM_cons, h r (List.mem_cons_self ..)]
    exact ih (fun x hx => h x (List.mem_cons_of_mem _ hx))

/-- the pieces of a successful `fixsigns(other)` -/
theorem fixsignsRef_eq (S : Services α) (K other : Ktensor α) {K' : Ktensor α}
    (h : fixsignsRef S K other = .ok K') :
    K.shape = other.shape ∧ other.ncomp ≤ K.ncomp ∧
    ∃ A B, normalize S K none false .two none = .ok A ∧ normalize S other none false .two none = .ok B ∧
      (List.range B.ncomp).foldlM (fixsignsRefComp S true B) A = .ok K' := by
  unfold fixsignsRef fixsignsRefG at h
  split at h
  · cases h
  · rename_i hc
    simp only [Bool.true_and, Bool.or_eq_true, bne_iff_ne, ne_eq, decide_eq_true_eq, not_or, not_not,
      not_lt] at hc
    split at h
    · rename_i A B hA hB
      exact ⟨hc.1, hc.2, A, B, hA, hB, h⟩
    · cases h

theorem fixsignsRef_of (S : Services α) (K other : Ktensor α) {A B : Ktensor α}
    (hs : K.shape = other.shape) (hR : other.ncomp ≤ K.ncomp)
    (hA : normalize S K none false .two none = .ok A) (hB : normalize S other none false .two none = .ok B) :
    fixsignsRef S K other = (List.range B.ncomp).foldlM (fixsignsRefComp S true B) A := by
  unfold fixsignsRef fixsignsRefG
  have : (true && (K.shape != other.shape || decide (K.ncomp < other.ncomp))) = false := by
    simp [hs]; omega
  rw [this]
  simp only [Bool.false_eq_true, if_false, hA, hB]

/-- Normal form of `fixsigns(other)`: every component of the (normalised) reference is aligned. -/
theorem fixsignsRef_aligned {S : Services α} (hS : S.Lawful) (K other : Ktensor α) {K' B : Ktensor α}
    (h : fixsignsRef S K other = .ok K') (hB : normalize S other none false .two none = .ok B) :
    ∀ r, r < other.ncomp → Aligned K' B r := by
  obtain ⟨_, _, A, B', hA, hB', hf⟩ := fixsignsRef_eq S K other h
  rw [hB] at hB'
  injection hB' with hB'
  subst hB'
  intro r hr
  have rB := normalize_reparam hS other none false .two none hB
  exact foldlM_fixsignsRefComp_aligned hS B A _ List.nodup_range hf r
    (List.mem_range.2 (by rw [rB.ncomp]; exact hr))

/-- `fixsigns(other)` is idempotent. -/
theorem fixsignsRef_idem {S : Services α} (hS : S.Lawful) (K other : Ktensor α) {K' : Ktensor α}
    (h : fixsignsRef S K other = .ok K') : fixsignsRef S K' other = .ok K' := by
  obtain ⟨hs, hR, A, B, hA, hB, hf⟩ := fixsignsRef_eq S K other h
  have rA := normalize_reparam hS K none false .two none hA
  have rB := normalize_reparam hS other none false .two none hB
  obtain ⟨k1, k2, k3, _, _⟩ := foldlM_fixsignsRefComp_other hS B A _ hf
  have hnf : NF (S.nrm .two) K' :=
    foldlM_fixsignsRefComp_nf hS (hS.norm .two) B A _ (normalize_nf hS .two K hA) hf
  have hshape : K'.shape = other.shape := by rw [k3, rA.shape, hs]
  have hncomp : other.ncomp ≤ K'.ncomp := by rw [k2, rA.ncomp]; exact hR
  rw [fixsignsRef_of S K' other hshape hncomp (normalize_fixed S .two K' hnf) hB]
  apply foldlM_id
  intro r hr
  have hr' := List.mem_range.1 hr
  apply fixsignsRefComp_id hS B K' r (by rw [rB.ncomp] at hr'; omega)
  · apply compGuard_of_shape
    rw [hshape, rB.shape]
  · exact foldlM_fixsignsRefComp_aligned hS B A _ List.nodup_range hf r hr

/-- `fixsigns(other)` accepts every reference of the receiver's shape with no more components. -/
theorem fixsignsRef_accepts {S : Services α} (hS : S.Lawful) (K other : Ktensor α) (hN : 0 < K.factors.length)
    (hs : K.shape = other.shape) (hR : other.ncomp ≤ K.ncomp) : ∃ K', fixsignsRef S K other = .ok K' := by
  have hNo : 0 < other.factors.length := by
    have := congrArg List.length hs
    simp only [Ktensor.shape, List.length_map] at this
    omega
  obtain ⟨A, hA⟩ := normalize_accepts S K none false .two none hN rfl (fun m hm => by cases hm)
  obtain ⟨B, hB⟩ := normalize_accepts S other none false .two none hNo rfl (fun m hm => by cases hm)
  have rA := normalize_reparam hS K none false .two none hA
  have rB := normalize_reparam hS other none false .two none hB
  rw [fixsignsRef_of S K other hs hR hA hB]
  apply foldlM_fixsignsRefComp_ok hS B A
  · intro r hr
    have := List.mem_range.1 hr
    rw [rA.ncomp]; rw [rB.ncomp] at this; omega
  · apply compGuard_of_shape
    rw [rA.shape, rB.shape, hs]

theorem fixsignsRef_rejects (S : Services α) (K other : Ktensor α)
    (h : K.shape ≠ other.shape ∨ K.ncomp < other.ncomp) : fixsignsRef S K other = .error .reject := by
  unfold fixsignsRef fixsignsRefG
  have : (true && (K.shape != other.shape || decide (K.ncomp < other.ncomp))) = true := by
    rcases h with h | h
    · simp [h]
    · simp [h]
  rw [this]
  rfl

/-! ### the executable form of the alignment predicate -/

theorem alignedComp_iff (A B : Ktensor α) (r : Nat) : alignedComp A B r = true ↔ Aligned A B r := by
  have hlen : (refScores A B r).length = A.factors.length := by simp [refScores, ndims]
  have hget : ∀ n, n < A.factors.length → (refScores A B r).getD n 0 = refScore A B r n := by
    intro n hn
    unfold refScores
    rw [getD_map_range _ _ _ _ (by simpa [ndims] using hn)]
    rfl
  unfold alignedComp Aligned
  simp only [hlen, List.all_eq_true, List.mem_range, Bool.or_eq_true, Bool.not_eq_true',
    decide_eq_false_iff_not, not_lt, beq_iff_eq]
  constructor
  · intro h n hn hneg m hm hmn
    rcases h n hn with h1 | h1
    · rw [hget n hn] at h1; linarith
    · rcases h1 m hm with h2 | h2
      · exact absurd h2 hmn
      · rw [hget n hn, hget m hm] at h2; exact h2
  · intro h n hn
    by_cases hneg : refScore A B r n < 0
    · right
      intro m hm
      by_cases hmn : m = n
      · exact Or.inl hmn
      · right
        rw [hget n hn, hget m hm]
        exact h n hn hneg m hm hmn
    · left
      rw [hget n hn]
      exact not_lt.1 hneg

/-- an aligned component has at most one negatively correlated mode -/
theorem Aligned.unique {A B : Ktensor α} {r : Nat} (h : Aligned A B r) {n m : Nat} (hn : n < A.factors.length)
    (hm : m < A.factors.length) (h1 : refScore A B r n < 0) (h2 : refScore A B r m < 0) : n = m := by
  by_contra hne
  have := h n hn h1 m hm (Ne.symm hne)
  linarith

/-! ### an even number of negatively correlated modes leaves none -/

theorem countP_neg_sorted (t : List α) (hs : t.Pairwise (· ≤ ·)) (bp : Nat) (hbp : bp < t.length)
    (hneg : t.getD bp 0 < 0) (hafter : ∀ j, bp < j → j < t.length → 0 ≤ t.getD j 0) :
    t.countP (fun x => decide (x < 0)) = bp + 1 := by
  conv_lhs => rw [← List.take_append_drop (bp + 1) t]
  rw [List.countP_append]
  have h1 : (t.take (bp + 1)).countP (fun x => decide (x < 0)) = (t.take (bp + 1)).length := by
    rw [List.countP_eq_length]
    intro x hx
    obtain ⟨i, hi, rfl⟩ := List.getElem_of_mem hx
    rw [List.length_take] at hi
    rw [List.getElem_take, decide_eq_true_eq]
    have := sorted_getD_le t hs i bp (by omega) hbp
    rw [List.getD_eq_getElem?_getD, List.getElem?_eq_getElem (by omega : i < t.length)] at this
    simp only [Option.getD_some] at this
    linarith
  have h2 : (t.drop (bp + 1)).countP (fun x => decide (x < 0)) = 0 := by
    rw [List.countP_eq_zero]
    intro x hx
    obtain ⟨i, hi, rfl⟩ := List.getElem_of_mem hx
    rw [List.length_drop] at hi
    rw [List.getElem_drop, decide_eq_true_eq, not_lt]
    have := hafter (bp + 1 + i) (by omega) (by omega)
    rw [List.getD_eq_getElem?_getD, List.getElem?_eq_getElem (by omega : bp + 1 + i < t.length)] at this
    simpa using this
  rw [h1, h2, List.length_take]
  omega

theorem fixsignsEndpt_even_count (t : List α) (N RB e : Nat) (hlen : t.length = N) (hs : t.Pairwise (· ≤ ·))
    (h : fixsignsEndpt true t N RB = .ok (some e)) (hev : t.countP (fun x => decide (x < 0)) % 2 = 0) :
    ∀ j, j < N → 0 ≤ flipped t e j := by
  unfold fixsignsEndpt at h
  split at h
  · cases h
  · rename_i bp hl
    obtain ⟨hbp, hneg, hafter⟩ := (lastFilter_spec (fun j => decide (t.getD j 0 < 0)) t.length).1 bp hl
    simp only [decide_eq_true_eq] at hneg
    have hafter' : ∀ j, bp < j → j < t.length → 0 ≤ t.getD j 0 := by
      intro j h1 h2
      have := hafter j h1 h2
      simpa using this
    have hcount := countP_neg_sorted t hs bp hbp hneg hafter'
    rw [hcount] at hev
    have e1 : ((bp + 1) % 2 == 0) = true := by rw [beq_iff_eq]; exact hev
    rw [e1] at h
    simp only [if_true] at h
    injection h with h; injection h with h
    subst h
    intro j hj
    unfold flipped
    split
    · have := sorted_getD_le t hs j bp (by omega) hbp; linarith
    · exact hafter' j (by omega) (by omega)

/-- the number of modes of component `r` that are negatively correlated with the reference -/
def negCount (A B : Ktensor α) (r : Nat) : Nat :=
  ((List.range A.factors.length).filter fun n => decide (refScore A B r n < 0)).length

theorem negCount_congr {A A' B : Ktensor α} {r : Nat} (hN : A'.factors.length = A.factors.length)
    (h : ∀ n, (A'.factors.getD n []).col r = (A.factors.getD n []).col r) : negCount A' B r = negCount A B r := by
  unfold negCount
  rw [hN]
  congr 1
  apply List.filter_congr
  intro n _
  rw [refScore_congr A A' B r n (h n)]

theorem map_range_getD_self (s : List α) : (List.range s.length).map (fun k => s.getD k 0) = s := by
  apply List.ext_getElem
  · simp
  · intro k h1 h2
    rw [List.getElem_map, List.getElem_range, List.getD_eq_getElem?_getD, List.getElem?_eq_getElem h2]
    rfl

theorem fixsignsRefComp_even {S : Services α} (hS : S.Lawful) (B A : Ktensor α) (r : Nat) {A' : Ktensor α}
    (h : fixsignsRefComp S true B A r = .ok A') (hev : negCount A B r % 2 = 0) :
    ∀ n, n < A.factors.length → 0 ≤ refScore A' B r n := by
  obtain ⟨hr, _, e, he, hA', hend⟩ := fixsignsRefComp_flips hS B A r h
  have hp := hS.argsort_perm (scoreList A B r)
  have hsl : (scoreList A B r).length = A.factors.length := by simp [scoreList, ndims]
  have hp' := hp
  rw [hsl] at hp
  have hσlen := isPermOf_length_eq hp
  have hσnd := isPermOf_nodup hp
  have hms : ∀ n ∈ (S.argsort (scoreList A B r)).take e, n < A.factors.length :=
    fun n hn => isPermOf_lt_of_mem hp (List.mem_of_mem_take hn)
  have hmsnd : ((S.argsort (scoreList A B r)).take e).Nodup := hσnd.sublist (List.take_sublist _ _)
  have hcol := foldl_negCol_col A _ r hms hmsnd
  rw [← hA'] at hcol
  have hsorted := hS.argsort_sorted (scoreList A B r)
  have htlen : ((S.argsort (scoreList A B r)).map fun k => (scoreList A B r).getD k 0).length
      = A.ndims := by simp [hσlen, ndims]
  have hsget : ∀ n, n < A.factors.length → (scoreList A B r).getD n 0 = refScore A B r n := by
    intro n hn
    unfold scoreList
    rw [getD_map_range _ _ _ _ (by simpa [ndims] using hn)]
  have htget : ∀ j, j < A.factors.length →
      ((S.argsort (scoreList A B r)).map fun k => (scoreList A B r).getD k 0).getD j 0
        = refScore A B r ((S.argsort (scoreList A B r)).getD j 0) := by
    intro j hj
    rw [getD_map_of_lt _ _ _ 0 _ (by omega), hsget _ (isPermOf_getD_lt hp hj)]
  have hnew : ∀ j, j < A.factors.length →
      refScore A' B r ((S.argsort (scoreList A B r)).getD j 0)
        = flipped ((S.argsort (scoreList A B r)).map fun k => (scoreList A B r).getD k 0) e j := by
    intro j hj
    unfold refScore flipped
    rw [hcol _ r hr, htget j hj]
    have := getD_mem_take_iff _ hσnd e j (by omega)
    by_cases hje : j < e
    · rw [if_pos ⟨this.2 hje, rfl⟩, if_pos hje, dot_neg]; rfl
    · rw [if_neg (fun hc => hje (this.1 hc.1)), if_neg hje]; rfl
  -- the sorted scores hold as many negatives as the modes do
  have hcount : ((S.argsort (scoreList A B r)).map fun k => (scoreList A B r).getD k 0).countP
      (fun x => decide (x < 0)) = negCount A B r := by
    have hperm : ((S.argsort (scoreList A B r)).map fun k => (scoreList A B r).getD k 0).Perm (scoreList A B r) := by
      have := ((isPermOf_perm hp').map fun k => (scoreList A B r).getD k 0).symm
      rwa [map_range_getD_self] at this
    rw [hperm.countP_eq]
    unfold negCount scoreList
    rw [List.countP_map, List.countP_eq_length_filter]
    rfl
  intro n hn
  obtain ⟨j, hj, rfl⟩ := perm_pos hp hn
  rw [hnew j hj]
  rcases hend with hend | ⟨rfl, hend⟩
  · exact fixsignsEndpt_even_count _ A.ndims B.ncomp e htlen hsorted hend (by rw [hcount]; exact hev) j
      (by simpa [ndims] using hj)
  · have := fixsignsEndpt_none _ _ _ hend j (by rw [htlen]; simpa [ndims] using hj)
    unfold flipped
    rw [if_neg (Nat.not_lt_zero _)]
    exact this

theorem foldlM_fixsignsRefComp_even {S : Services α} (hS : S.Lawful) (B A : Ktensor α) (rs : List Nat)
    (hnd : rs.Nodup) {A' : Ktensor α} (h : rs.foldlM (fixsignsRefComp S true B) A = .ok A') :
    ∀ r ∈ rs, negCount A B r % 2 = 0 → ∀ n, n < A.factors.length → 0 ≤ refScore A' B r n := by
  induction rs generalizing A with
  | nil => intro r hr; cases hr
  | cons r0 rs ih =>
    rw [List.foldlM_cons] at h
    rw [List.nodup_cons] at hnd
    cases h1 : fixsignsRefComp S true B A r0 with
    | error e => rw [h1] at h; cases h
    | ok A1 =>
      rw [h1] at h
      obtain ⟨g1, g2, _, _, _, g6⟩ := fixsignsRefComp_spec hS B A r0 h1
      obtain ⟨hr0, _⟩ := fixsignsRefComp_flips hS B A r0 h1
      obtain ⟨k1, _, _, _, k5⟩ := foldlM_fixsignsRefComp_other hS B A1 rs h
      intro r hr hev n hn
      rcases List.mem_cons.1 hr with rfl | hr
      · rw [refScore_congr A1 A' B r n (k5 r hnd.1 (by rw [g2]; exact hr0) n)]
        exact fixsignsRefComp_even hS B A r h1 hev n hn
      · have hne : r ≠ r0 := fun e => hnd.1 (e ▸ hr)
        have hrA : r < A.ncomp := by
          -- a later round for `r` succeeded, so `r` is a component
          by_contra hc
          obtain ⟨pre, suf, rfl⟩ := List.append_of_mem hr
          have h' : (pre ++ r :: suf).foldlM (fixsignsRefComp S true B) A1 = .ok A' := h
          rw [List.foldlM_append] at h'
          cases h2 : pre.foldlM (fixsignsRefComp S true B) A1 with
          | error e => rw [h2] at h'; cases h'
          | ok A2 =>
            rw [h2] at h'
            have h'' : (r :: suf).foldlM (fixsignsRefComp S true B) A2 = .ok A' := h'
            rw [List.foldlM_cons] at h''
            cases h3 : fixsignsRefComp S true B A2 r with
            | error e => rw [h3] at h''; cases h''
            | ok A3 =>
              obtain ⟨hr3, _⟩ := fixsignsRefComp_flips hS B A2 r h3
              obtain ⟨_, q2, _⟩ := foldlM_fixsignsRefComp_other hS B A1 pre h2
              rw [q2, g2] at hr3
              exact hc hr3
        have := ih A1 hnd.2 h r hr (by rw [negCount_congr g1 (g6 r hne hrA)]; exact hev) n (by rw [g1]; exact hn)
        exact this

theorem fixsignsRef_even {S : Services α} (hS : S.Lawful) (K other : Ktensor α) {K' A B : Ktensor α}
    (h : fixsignsRef S K other = .ok K') (hA : normalize S K none false .two none = .ok A)
    (hB : normalize S other none false .two none = .ok B) (r : Nat) (hr : r < other.ncomp)
    (hev : negCount A B r % 2 = 0) : ∀ n, n < K.factors.length → 0 ≤ refScore K' B r n := by
  obtain ⟨_, _, A0, B0, hA0, hB0, hf⟩ := fixsignsRef_eq S K other h
  rw [hA] at hA0; injection hA0 with hA0; subst hA0
  rw [hB] at hB0; injection hB0 with hB0; subst hB0
  have rA := normalize_reparam hS K none false .two none hA
  have rB := normalize_reparam hS other none false .two none hB
  intro n hn
  exact foldlM_fixsignsRefComp_even hS B A _ List.nodup_range hf r
    (List.mem_range.2 (by rw [rB.ncomp]; exact hr)) hev n (by rw [rA.ndims]; exact hn)

/-! ### the aligned form is optimal among the even sign changes -/

theorem sum_nonneg_of_all (l : List α) (h : ∀ x ∈ l, 0 ≤ x) : 0 ≤ l.sum := by
  induction l with
  | nil => simp
  | cons x l ih =>
    rw [List.sum_cons]
    exact add_nonneg (h x (List.mem_cons_self ..)) (ih fun y hy => h y (List.mem_cons_of_mem _ hy))

/-- In an aligned component the sign scores of any even number of distinct modes add up to a
non-negative number: negating an even set of columns cannot raise the sum of the scores. -/
theorem Aligned.sum_nonneg {A B : Ktensor α} {r : Nat} (h : Aligned A B r) (F : List Nat) (hnd : F.Nodup)
    (hF : ∀ n ∈ F, n < A.factors.length) (hev : F.length % 2 = 0) :
    0 ≤ (F.map (refScore A B r)).sum := by
  by_cases hneg : ∃ j ∈ F, refScore A B r j < 0
  · obtain ⟨j, hj, hjneg⟩ := hneg
    have hperm := List.perm_cons_erase hj
    rw [(hperm.map (refScore A B r)).sum_eq, List.map_cons, List.sum_cons]
    have hlen : (F.erase j).length = F.length - 1 := List.length_erase_of_mem hj
    have hpos : 0 < F.length := List.length_pos_of_mem hj
    have hother : ∀ x ∈ F.erase j, -(refScore A B r j) ≤ refScore A B r x := by
      intro x hx
      have hxF := List.mem_of_mem_erase hx
      have hxj : x ≠ j := by
        rintro rfl
        exact (List.Nodup.not_mem_erase hnd) hx
      exact h j (hF j hj) hjneg x (hF x hxF) hxj
    cases hE : F.erase j with
    | nil => rw [hE] at hlen; simp at hlen; omega
    | cons m rest =>
      rw [hE] at hother
      rw [List.map_cons, List.sum_cons]
      have h1 := hother m (List.mem_cons_self ..)
      have h2 : 0 ≤ (rest.map (refScore A B r)).sum := by
        apply sum_nonneg_of_all
        intro y hy
        obtain ⟨x, hx, rfl⟩ := List.mem_map.1 hy
        have := hother x (List.mem_cons_of_mem _ hx)
        linarith
      linarith
  · apply sum_nonneg_of_all
    intro y hy
    obtain ⟨x, hx, rfl⟩ := List.mem_map.1 hy
    by_contra hc
    exact hneg ⟨x, hx, not_le.1 hc⟩

end field
end Ktensor
end Pyttb
