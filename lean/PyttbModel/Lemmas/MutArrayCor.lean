/-
C04, consequences of the refinement: what one accepted write does to every cell (last
write wins, frame, zero-filled growth), removal of entries by zero, agreement of the two
classes.
-/
import PyttbModel.Lemmas.MutArraySparseHist
import PyttbModel.Lemmas.MutArrayDenseHist
set_option linter.unusedSimpArgs false
set_option linter.unusedVariables false
set_option linter.unusedSectionVars false

namespace Pyttb

variable {α : Type}

/-- The cells of the specification after a write, one by one. -/
theorem MArr.write_get [Zero α] (m : MArr α) (key : Key) (rhs : Rhs α) (m' : MArr α)
    (h : m.write key rhs = .ok m') :
    ∃ s' asg, MArr.resolveWrite m.shape key rhs = .ok (s', asg) ∧ m'.shape = s' ∧
      (∀ p ∈ asg, InBounds s' p.1) ∧
      ∀ i, InBounds s' i → m'.get i =
        if i ∈ asg.map (·.1) then kvLast asg i
        else if (i.drop m.shape.length).all (· == 0) then m.get (i.take m.shape.length) else 0 := by
  unfold MArr.write at h
  cases hr : MArr.resolveWrite m.shape key rhs with
  | error e => rw [hr] at h; cases h
  | ok r =>
    obtain ⟨s', asg⟩ := r
    rw [hr] at h
    simp only [bind, Except.bind] at h
    cases h
    refine ⟨s', asg, rfl, by simp [MArr.grow_shape], resolveWrite_inBounds hr, ?_⟩
    intro i hi
    rw [MArr.assignAll_get _ _ i (by rw [MArr.grow_shape]; exact hi), MArr.grow_get m s' i hi]

section cor
variable [AddMonoid α] [DecidableEq α]

theorem SRel.ofSparse (S : Sparse α) (hS : S.WF) : SRel S ⟨S.shape, S.get⟩ := by
  refine ⟨hS, rfl, ?_⟩
  intro i
  by_cases hb : InBounds S.shape i
  · exact (MArr.get_of_inBounds (⟨S.shape, S.get⟩ : MArr α) hb).symm
  · rw [MArr.get_of_not_inBounds (⟨S.shape, S.get⟩ : MArr α) hb]
    exact Sparse.get_of_not_inBounds S hS i hb

/-- In a well-formed sparse tensor a stored subscript denotes a non-zero cell. -/
theorem Sparse.get_ne_zero_of_mem {S : Sparse α} (hS : S.WF) {i : List Nat} (hi : i ∈ S.subs) : S.get i ≠ 0 := by
  obtain ⟨k, hk, rfl⟩ := List.mem_iff_getElem.1 hi
  have hk' : k < S.vals.length := hS.len ▸ hk
  have hmem : (S.subs[k], S.vals[k]) ∈ S.subs.zip S.vals := by
    rw [List.mem_iff_getElem?]
    exact ⟨k, by rw [List.getElem?_zip_eq_some]; exact ⟨List.getElem?_eq_getElem hk, List.getElem?_eq_getElem hk'⟩⟩
  have : S.get S.subs[k] = S.vals[k] := by
    apply kvSum_of_mem _ _ _ _ hmem
    rw [List.map_fst_zip (Nat.le_of_eq hS.len)]
    exact hS.nodup
  rw [this]
  have := hS.nz S.vals[k] (List.getElem_mem hk')
  simpa using this

/-- Along a history of accepted operations the stored tensor stays well formed after
every prefix. -/
theorem Sparse.run_wf_prefix {S : Sparse α} {m : MArr α} (h : SRel S m) (ops : List (IdxOp α))
    (hp : AcceptedHistS m ops) (k : Nat) : (S.run (ops.take k)).1.WF := by
  induction ops generalizing S m k with
  | nil => simpa [Sparse.run] using h.wf
  | cons op ops ih =>
    cases k with
    | zero => simpa [Sparse.run] using h.wf
    | succ k =>
      obtain ⟨hp1, hp2⟩ := hp
      have hs := Sparse.step_refines h op (by rw [h.shape]; exact hp1)
      simp only [List.take_succ_cons, Sparse.run]
      exact ih hs.1 hp2 k

end cor
end Pyttb
