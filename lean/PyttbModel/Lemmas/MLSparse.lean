/-
C02 — sparse kernels: aggregation primitives and `sptensor.ttv`.
-/
import PyttbModel.Lemmas.MLDenseTtv
import PyttbModel.Lemmas.ConvertSparse
import PyttbModel.Ops.MultilinearSparse
namespace Pyttb
namespace ML

variable {α : Type}

/-! ### `np.unique(axis=0)` -/

theorem mem_eraseDups {β : Type} [BEq β] [LawfulBEq β] (l : List β) (x : β) : x ∈ l.eraseDups ↔ x ∈ l := by
  generalize hn : l.length = n
  induction n using Nat.strongRecOn generalizing l with
  | _ n ih =>
    cases l with
    | nil => simp
    | cons a as =>
      rw [List.eraseDups_cons]
      have hlen : (as.filter fun b => !b == a).length < n := by
        subst hn
        exact Nat.lt_succ_of_le (List.length_filter_le ..)
      rw [List.mem_cons, ih _ hlen _ rfl, List.mem_cons, List.mem_filter]
      constructor
      · rintro (h | ⟨h, _⟩)
        · exact Or.inl h
        · exact Or.inr h
      · rintro (h | h)
        · exact Or.inl h
        · by_cases hx : x = a
          · exact Or.inl hx
          · exact Or.inr ⟨h, by simpa using hx⟩

theorem nodup_eraseDups {β : Type} [BEq β] [LawfulBEq β] (l : List β) : l.eraseDups.Nodup := by
  generalize hn : l.length = n
  induction n using Nat.strongRecOn generalizing l with
  | _ n ih =>
    cases l with
    | nil => simp
    | cons a as =>
      rw [List.eraseDups_cons]
      have hlen : (as.filter fun b => !b == a).length < n := by
        subst hn
        exact Nat.lt_succ_of_le (List.length_filter_le ..)
      rw [List.nodup_cons]
      refine ⟨?_, ih _ hlen _ rfl⟩
      rw [mem_eraseDups, List.mem_filter]
      simp

theorem mem_uniqueRowsSorted (subs : List (List Nat)) (r : List Nat) :
    r ∈ uniqueRowsSorted subs ↔ r ∈ subs := by
  unfold uniqueRowsSorted
  rw [mem_eraseDups]
  exact (List.mergeSort_perm _ _).mem_iff

theorem nodup_uniqueRowsSorted (subs : List (List Nat)) : (uniqueRowsSorted subs).Nodup :=
  nodup_eraseDups _

theorem zip_fst_snd {β γ : Type} (l : List (β × γ)) : (l.map (·.1)).zip (l.map (·.2)) = l := by
  induction l with
  | nil => rfl
  | cons a l ih => simp [ih]

/-! ### aggregation -/

/-- `from_aggregator(subs, vals, shape)` (sum) denotes, at every subscript, the sum of the
values filed under it. -/
theorem fromAggregator_get [AddMonoid α] [DecidableEq α] (subs : List (List Nat)) (vals : List α)
    (shape : List Nat) (i : List Nat) :
    (fromAggregator subs vals shape List.sum).get i = kvSum (subs.zip vals) i := by
  unfold fromAggregator
  simp only [Sparse.get, Sparse.entries, zip_fst_snd]
  show kvSum _ i = _
  -- dropping the zero results does not change the sum under a key
  have hdrop : ∀ (l : List (List Nat × α)), kvSum (l.filter fun e => !(e.2 == 0)) i = kvSum l i := by
    intro l
    induction l with
    | nil => rfl
    | cons e l ih =>
      by_cases hz : e.2 = 0
      · have : (!(e.2 == 0)) = false := by simp [hz]
        rw [List.filter_cons, this]
        simp only [Bool.false_eq_true, if_false]
        rw [ih]
        by_cases hk : e.1 = i
        · obtain ⟨k, v⟩ := e
          simp only at hk hz
          subst hk; subst hz
          rw [kvSum_cons_eq, zero_add]
        · rw [kvSum_cons_ne e l i hk]
      · have : (!(e.2 == 0)) = true := by simp [hz]
        rw [List.filter_cons, this]
        simp only [if_true]
        by_cases hk : e.1 = i
        · obtain ⟨k, v⟩ := e
          simp only at hk
          subst hk
          rw [kvSum_cons_eq, kvSum_cons_eq, ih]
        · rw [kvSum_cons_ne e _ i hk, kvSum_cons_ne e l i hk, ih]
  rw [hdrop, kvSum_map _ (fun r => (((subs.zip vals).filter fun e => e.1 == r).map (·.2)).sum) i
    (nodup_uniqueRowsSorted subs)]
  split
  · rfl
  · next h =>
    rw [mem_uniqueRowsSorted] at h
    symm
    apply kvSum_of_not_mem
    intro h'
    obtain ⟨e, he, rfl⟩ := List.mem_map.1 h'
    exact h (List.of_mem_zip (a := e.1) (b := e.2) he).1

theorem fromAggregator_shape [Zero α] [BEq α] (subs : List (List Nat)) (vals : List α)
    (shape : List Nat) (f : List α → α) : (fromAggregator subs vals shape f).shape = shape := rfl

/-- The stored subscripts of an aggregated tensor are distinct. -/
theorem fromAggregator_nodup [Zero α] [BEq α] (subs : List (List Nat)) (vals : List α)
    (shape : List Nat) (f : List α → α) : ((fromAggregator subs vals shape f).entries.map (·.1)).Nodup := by
  unfold fromAggregator
  simp only [Sparse.entries, zip_fst_snd]
  have : ∀ (l : List (List Nat × α)) (p : List Nat × α → Bool), (l.map (·.1)).Nodup → ((l.filter p).map (·.1)).Nodup := by
    intro l p h
    exact (List.Sublist.map _ (List.filter_sublist)).nodup h
  apply this
  rw [List.map_map]
  show (List.map (fun r => r) (uniqueRowsSorted subs)).Nodup
  rw [List.map_id']
  exact nodup_uniqueRowsSorted subs

/-- Expanding an aggregated tensor does not change what it denotes. -/
theorem fromAggregator_full_get [AddMonoid α] [DecidableEq α] (subs : List (List Nat)) (vals : List α)
    (shape : List Nat) (i : List Nat) (hi : InBounds shape i) :
    (fromAggregator subs vals shape List.sum).full.get i = kvSum (subs.zip vals) i := by
  rw [Sparse.full_eq, fromAggregator_shape, Dense.ofFn_get _ _ hi,
    kvLast_eq_kvSum _ _ (fromAggregator_nodup subs vals shape List.sum), ← Sparse.get_eq_kvSum,
    fromAggregator_get]

/-- `accumarray(idx, vals, size)` (sum): entry `k` is the sum of the values filed under `k`. -/
theorem accumarray_getD [AddMonoid α] (idx : List Nat) (vals : List α) (size k : Nat) (hk : k < size) :
    (accumarray idx vals size List.sum).getD k 0 =
      (((idx.zip vals).filter fun e => e.1 == k).map (·.2)).sum := by
  unfold accumarray
  rw [getD_map_range _ _ _ _ hk]
  show (if _ then _ else _) = _
  split
  · next h =>
    simp only [List.isEmpty_iff] at h
    rw [h]; rfl
  · rfl

end ML
end Pyttb

namespace Pyttb
namespace ML

variable {α : Type}

/-! ### `sptensor.ttv` -/

theorem kvSum_cons [AddMonoid α] (e : List Nat × α) (es : List (List Nat × α)) (i : List Nat) :
    kvSum (e :: es) i = (if e.1 = i then e.2 else 0) + kvSum es i := by
  by_cases h : e.1 = i
  · obtain ⟨k, v⟩ := e
    simp only at h; subst h
    rw [kvSum_cons_eq, if_pos rfl]
  · rw [kvSum_cons_ne e es i h, if_neg h, zero_add]

/-- `kvSum` of a mapped entry list as a filtered sum. -/
theorem kvSum_map_entries [AddMonoid α] {β : Type} (E : List β) (key : β → List Nat) (val : β → α) (i : List Nat) :
    kvSum (E.map fun e => (key e, val e)) i = ((E.filter fun e => key e == i).map val).sum := by
  induction E with
  | nil => rfl
  | cons e E ih =>
    rw [List.map_cons, kvSum_cons, ih, List.filter_cons]
    by_cases h : key e = i
    · simp [h]
    · have : (key e == i) = false := by simpa using h
      simp [h, this]

/-- Summing `S[k] · W(k)` over a fiber, entry by entry of the stored list. -/
theorem sparse_fiber_sum [CommSemiring α] (E : List (List Nat × α)) (s rem i : List Nat)
    (hinb : ∀ e ∈ E, InBounds s e.1) (W : List Nat → α) :
    ((Spec.fiber s rem i).map fun k => kvSum E k * W k).sum =
      kvSum (E.map fun e => (gather e.1 rem, e.2 * W e.1)) i := by
  induction E with
  | nil =>
    simp only [kvSum_nil, zero_mul, List.map_nil]
    exact sum_zero _
  | cons e E ih =>
    rw [List.map_cons, kvSum_cons, ← ih (fun x hx => hinb x (List.mem_cons_of_mem _ hx))]
    have hsplit : ∀ k, kvSum (e :: E) k * W k = (if k = e.1 then e.2 * W k else 0) + kvSum E k * W k := by
      intro k
      rw [kvSum_cons, add_mul]
      congr 1
      by_cases h : e.1 = k
      · rw [if_pos h, if_pos h.symm]
      · rw [if_neg h, if_neg (fun h' => h h'.symm), zero_mul]
    rw [List.map_congr_left (fun k _ => hsplit k), List.sum_map_add]
    congr 1
    rw [sum_single _ (fiber_nodup _ _ _) e.1 (fun k => e.2 * W k)]
    have he := hinb e (List.mem_cons_self ..)
    by_cases h : gather e.1 rem = i
    · rw [if_pos (mem_fiber.2 ⟨he, h⟩)]; simp [h]
    · rw [if_neg (fun h' => h (mem_fiber.1 h').2)]; simp [h]

theorem foldl_mul_eq [Monoid α] {β : Type} (l : List β) (g : β → α) (v : α) :
    l.foldl (fun acc p => acc * g p) v = v * (l.map g).prod := by
  induction l generalizing v with
  | nil => simp
  | cons a l ih => rw [List.foldl_cons, ih, List.map_cons, List.prod_cons, mul_assoc]

theorem selProd_pairs' [CommSemiring α] (pairs : List (Nat × List α)) (w : Nat → Nat → α)
    (hw : ∀ p ∈ pairs, ∀ k, w p.1 k = p.2.getD k 0) (k : List Nat) :
    (pairs.map fun p => p.2.getD (k.getD p.1 0) 0).prod = Spec.selProd (pairs.map (·.1)) w k := by
  unfold Spec.selProd
  rw [List.map_map]
  congr 1
  apply List.map_congr_left
  intro p hp
  exact (hw p hp _).symm

/-- `kvSum` over the singleton keys `[0], …, [n-1]` reads the value list. -/
theorem kvSum_range_singletons [AddCommMonoid α] (c : List α) (n k : Nat) (hc : c.length = n) (hk : k < n) :
    kvSum (((List.range n).map fun j => [j]).zip c) [k] = c.getD k 0 := by
  have hz : ((List.range n).map fun j => [j]).zip c = (List.range n).map fun j => ([j], c.getD j 0) := by
    apply List.ext_getElem
    · simp [hc]
    · intro j h1 h2
      simp only [List.length_map, List.length_range] at h2
      simp [List.getD_eq_getElem?_getD, List.getElem?_eq_getElem (hc ▸ h2)]
  rw [hz, kvSum_map_entries]
  have : (List.range n).filter (fun j => [j] == [k]) = (List.range n).filter (fun j => j == k) := by
    apply List.filter_congr
    intro j _
    simp
  rw [this, sum_filter]
  have := sum_single' (List.range n) List.nodup_range k (fun j => c.getD j 0) (List.mem_range.2 hk)
  rw [← this]
  apply sum_congr
  intro j _
  by_cases h : j = k <;> simp [h]


theorem length_one_beq (x k : Nat) : ([x] == [k]) = (x == k) := by
  by_cases h : x = k <;> simp [h]

/-- **Sparse `ttv`** on every branch (scalar, vector kept sparse / densified, multiway kept
sparse / densified, nothing stored): the result denotes the sum over the fiber. -/
theorem sparse_ttvCore_spec [CommSemiring α] [DecidableEq α] (S : Sparse α) (hS : S.WF)
    (pairs : List (Nat × List α))
    (hnd : (pairs.map (·.1)).Nodup) (hlt : ∀ p ∈ pairs, p.1 < S.shape.length)
    (hlen : ∀ p ∈ pairs, p.2.length = S.shape.getD p.1 0)
    (w : Nat → Nat → α) (hw : ∀ p ∈ pairs, ∀ k, w p.1 k = p.2.getD k 0) :
    ∃ r, S.ttvCore pairs = .ok r ∧ r.shape = Spec.ttvShape S.shape (pairs.map (·.1)) ∧
      ∀ i, InBounds r.shape i → r.get i = Spec.ttv S.den (pairs.map (·.1)) w i := by
  set sel := pairs.map (·.1) with hsel
  set N := S.shape.length with hN
  set rem := complDims N sel with hrem
  obtain ⟨g1, g2⟩ := ttv_guards S.shape pairs (fun d => S.shape.getD d 0) hnd hlen
  have g2' : (sel.eraseDups.length != sel.length) = false := g2
  set W : List Nat → α := fun k => Spec.selProd sel w k with hW
  -- the scaled entries, keyed by the remaining coordinates
  set E' : List (List Nat × α) := S.entries.map fun e => (gather e.1 rem, e.2 * W e.1) with hE'
  have hinb : ∀ e ∈ S.entries, InBounds S.shape e.1 := by
    intro e he
    exact hS.inb e.1 (List.of_mem_zip (a := e.1) (b := e.2) he).1
  have hspec : ∀ i, Spec.ttv S.den sel w i = kvSum E' i := by
    intro i
    rw [hE', ← sparse_fiber_sum S.entries S.shape rem i hinb W]
    rfl
  have hnewvals : ((S.subs.zip S.vals).map fun e =>
      pairs.foldl (fun v p => v * p.2.getD (e.1.getD p.1 0) 0) e.2) = S.entries.map fun e => e.2 * W e.1 := by
    apply List.map_congr_left
    intro e _
    rw [foldl_mul_eq pairs (fun p => p.2.getD (e.1.getD p.1 0) 0), selProd_pairs' pairs w hw]
  have hsubs : S.subs = S.entries.map (·.1) := (S.entries_keys hS.len).symm
  have hzip : (S.subs.map fun r => gather r rem).zip (S.entries.map fun e => e.2 * W e.1) = E' := by
    rw [hsubs, List.map_map]
    exact zip_map_map S.entries _ _
  unfold Sparse.ttvCore
  simp only [← hsel, ← hN, ← hrem, g1, g2', Bool.false_eq_true, if_false, hnewvals]
  by_cases hr0 : rem.isEmpty = true
  · -- all modes contracted: a scalar
    rw [if_pos hr0]
    have hrem0 : rem = [] := List.isEmpty_iff.1 hr0
    refine ⟨_, rfl, ?_, ?_⟩
    · simp [ML.Res.shape, Spec.ttvShape, ← hrem, ← hN, hrem0]
    · intro i hi
      have hi0 : i = [] := by
        simp only [ML.Res.shape] at hi
        cases i <;> simp_all [InBounds]
      subst hi0
      simp only [ML.Res.get]
      rw [hspec, hE', kvSum_map_entries]
      have : S.entries.filter (fun e => gather e.1 rem == []) = S.entries := by
        rw [List.filter_eq_self]; intro e _; rw [hrem0]; rfl
      rw [this]
  · rw [if_neg hr0]
    have hshape : gather S.shape rem = Spec.ttvShape S.shape sel := rfl
    by_cases hr1 : (rem.length == 1) = true
    · rw [if_pos hr1]
      have hrl : rem.length = 1 := by simpa using hr1
      obtain ⟨m0, hm0⟩ : ∃ m0, rem = [m0] := by
        match rem, hrl with
        | [m], _ => exact ⟨m, rfl⟩
      by_cases hev : (S.entries.map fun e => e.2 * W e.1).isEmpty = true
      · rw [if_pos hev]
        refine ⟨_, rfl, hshape, ?_⟩
        intro i _
        have hE0 : S.entries = [] := by simpa using hev
        rw [hspec, hE', hE0]
        rfl
      · rw [if_neg hev]
        set n0 := (gather S.shape rem).getD 0 0 with hn0
        have hns : gather S.shape rem = [n0] := by rw [hn0, hm0]; rfl
        set c := ML.accumarray ((S.subs.map fun r => gather r rem).map (·.getD 0 0))
          (S.entries.map fun e => e.2 * W e.1) n0 List.sum with hc
        have hclen : c.length = n0 := by simp [hc, ML.accumarray]
        have hcget : ∀ k, k < n0 → c.getD k 0 = kvSum E' [k] := by
          intro k hk
          rw [hc, accumarray_getD _ _ _ _ hk, hsubs, List.map_map, List.map_map, zip_map_map,
            List.filter_map, List.map_map, hE', kvSum_map_entries]
          congr 2
          apply List.filter_congr
          intro e _
          simp only [Function.comp_apply, hm0, gather_cons, gather_nil, List.getD_cons_zero]
          exact (length_one_beq _ _).symm
        have hiform : ∀ i, InBounds [n0] i → ∃ k, i = [k] ∧ k < n0 := by
          intro i hi
          match i, hi with
          | [k], hi => exact ⟨k, rfl, hi.1⟩
        by_cases hcnt : 2 * (c.filter fun v => !(v == 0)).length ≤ n0
        · rw [if_pos hcnt]
          refine ⟨_, rfl, hshape, ?_⟩
          intro i hi
          simp only [ML.Res.shape, fromAggregator_shape] at hi
          rw [hns] at hi
          obtain ⟨k, rfl, hk⟩ := hiform i hi
          simp only [ML.Res.get]
          rw [fromAggregator_get, kvSum_range_singletons c n0 k hclen hk, hcget k hk, hspec]
        · rw [if_neg hcnt]
          refine ⟨_, rfl, hshape, ?_⟩
          intro i hi
          simp only [ML.Res.shape] at hi
          rw [hns] at hi
          obtain ⟨k, rfl, hk⟩ := hiform i hi
          simp only [ML.Res.get, Dense.get]
          rw [hns]
          simp only [sub2ind, Nat.mul_zero, Nat.add_zero]
          rw [hcget k hk, hspec]
    · rw [if_neg hr1]
      by_cases hnnz : 2 * (ML.fromAggregator (S.subs.map fun r => gather r rem)
          (S.entries.map fun e => e.2 * W e.1) (gather S.shape rem) List.sum).nnz > numel (gather S.shape rem)
      · rw [if_pos hnnz]
        refine ⟨_, rfl, hshape, ?_⟩
        intro i hi
        simp only [ML.Res.shape] at hi
        have hi' : InBounds (gather S.shape rem) i := hi
        simp only [ML.Res.get]
        rw [fromAggregator_full_get _ _ _ _ hi', hzip, hspec]
      · rw [if_neg hnnz]
        refine ⟨_, rfl, hshape, ?_⟩
        intro i _
        simp only [ML.Res.get]
        rw [fromAggregator_get, hzip, hspec]

end ML
end Pyttb
