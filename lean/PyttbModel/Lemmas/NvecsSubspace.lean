/-
C14: equal symmetric matrices with a spectral gap have equal leading invariant subspaces.
Matrix-level argument over Mathlib's `Matrix (Fin m) (Fin n)`, then transported to matrices
stored as lists of rows.
-/
import PyttbModel.Lemmas.NvecsBasic
import Mathlib.LinearAlgebra.Matrix.NonsingularInverse
namespace Pyttb

open Matrix Finset

variable {R : Type} [Field R]

/-- a sum over `Fin m` whose terms vanish from position `r` on is the sum over `Fin r`. -/
theorem sum_fin_castLE {m r : ℕ} (hr : r ≤ m) (f : Fin m → R) (h0 : ∀ j : Fin m, r ≤ j.val → f j = 0) :
    ∑ j : Fin m, f j = ∑ j : Fin r, f (Fin.castLE hr j) := by
  let g : ℕ → R := fun n => if h : n < m then f ⟨n, h⟩ else 0
  have h1 : ∑ j : Fin m, f j = ∑ n ∈ range m, g n := by
    rw [← Fin.sum_univ_eq_sum_range g m]
    apply Finset.sum_congr rfl
    intro j _
    simp [g]
  have h2 : ∑ j : Fin r, f (Fin.castLE hr j) = ∑ n ∈ range r, g n := by
    rw [← Fin.sum_univ_eq_sum_range g r]
    apply Finset.sum_congr rfl
    intro j _
    have : (j : ℕ) < m := lt_of_lt_of_le j.isLt hr
    simp [g, this, Fin.castLE]
  rw [h1, h2]
  symm
  apply Finset.sum_subset (Finset.range_subset_range.2 hr)
  intro n hn hnr
  have hnm : n < m := Finset.mem_range.1 hn
  have : r ≤ n := by
    by_contra h
    exact hnr (Finset.mem_range.2 (not_le.1 h))
  simp only [g, hnm, dif_pos]
  exact h0 ⟨n, hnm⟩ this

/-- Let `Q` be a complete orthonormal eigenbasis of `G` with eigenvalues `q`, and let `U` hold `r`
orthonormal eigenvectors of `G` whose eigenvalues differ from every `q j` with `j ≥ r`.  Then
`U Uᵀ` is the orthogonal projector onto the span of the first `r` columns of `Q`. -/
theorem proj_eq_of_gap {m r : ℕ} (hr : r ≤ m) (G Q : Matrix (Fin m) (Fin m) R) (q : Fin m → R)
    (hQ : Qᵀ * Q = 1) (hGQ : G * Q = Q * diagonal q)
    (U : Matrix (Fin m) (Fin r) R) (a : Fin r → R) (hU : Uᵀ * U = 1) (hGU : G * U = U * diagonal a)
    (hsep : ∀ (j : Fin m) (k : Fin r), r ≤ j.val → q j ≠ a k) :
    U * Uᵀ = (Q.submatrix id (Fin.castLE hr)) * (Q.submatrix id (Fin.castLE hr))ᵀ := by
  have hQ' : Q * Qᵀ = 1 := mul_eq_one_comm.1 hQ
  have hG : G = Q * diagonal q * Qᵀ := by
    calc G = G * (Q * Qᵀ) := by rw [hQ', Matrix.mul_one]
      _ = (G * Q) * Qᵀ := by rw [Matrix.mul_assoc]
      _ = _ := by rw [hGQ]
  set C := Qᵀ * U with hC
  have hQC : Q * C = U := by rw [hC, ← Matrix.mul_assoc, hQ', Matrix.one_mul]
  have hDC : diagonal q * C = C * diagonal a := by
    calc diagonal q * C = (Qᵀ * Q) * diagonal q * (Qᵀ * U) := by rw [hQ, Matrix.one_mul]
      _ = Qᵀ * (Q * diagonal q * Qᵀ) * U := by simp only [Matrix.mul_assoc]
      _ = Qᵀ * (G * U) := by rw [← hG, Matrix.mul_assoc]
      _ = _ := by rw [hGU, ← Matrix.mul_assoc]
  have hC0 : ∀ (j : Fin m) (k : Fin r), r ≤ j.val → C j k = 0 := by
    intro j k hj
    have h := congrFun (congrFun hDC j) k
    rw [Matrix.diagonal_mul, Matrix.mul_diagonal] at h
    have h' : (q j - a k) * C j k = 0 := by rw [sub_mul, h]; ring
    rcases mul_eq_zero.1 h' with h1 | h1
    · exact absurd (sub_eq_zero.1 h1) (hsep j k hj)
    · exact h1
  set C1 : Matrix (Fin r) (Fin r) R := C.submatrix (Fin.castLE hr) id with hC1
  have hCC : Cᵀ * C = 1 := by
    calc Cᵀ * C = Uᵀ * (Q * Qᵀ) * U := by
          rw [hC, Matrix.transpose_mul, Matrix.transpose_transpose]; simp only [Matrix.mul_assoc]
      _ = 1 := by rw [hQ', Matrix.mul_one, hU]
  have hC1 : C1ᵀ * C1 = 1 := by
    rw [← hCC]
    ext k k'
    simp only [Matrix.mul_apply, Matrix.transpose_apply]
    symm
    exact sum_fin_castLE hr (fun j => C j k * C j k') (fun j hj => by simp [hC0 j k hj])
  have hC1' : C1 * C1ᵀ = 1 := mul_eq_one_comm.1 hC1
  have hU1 : U = (Q.submatrix id (Fin.castLE hr)) * C1 := by
    rw [← hQC]
    ext i k
    simp only [Matrix.mul_apply]
    exact sum_fin_castLE hr (fun j => Q i j * C j k) (fun j hj => by simp [hC0 j k hj])
  calc U * Uᵀ = (Q.submatrix id (Fin.castLE hr)) * (C1 * C1ᵀ) * (Q.submatrix id (Fin.castLE hr))ᵀ := by
        conv_lhs => rw [hU1]
        rw [Matrix.transpose_mul]
        simp only [Matrix.mul_assoc]
    _ = _ := by rw [hC1', Matrix.mul_one]

/-! ### transport to matrices stored as lists of rows -/

/-- an `m × n` window of a list-of-rows matrix as a Mathlib matrix. -/
def toMatrix (A : Mat R) (m n : ℕ) : Matrix (Fin m) (Fin n) R := fun i j => A.get i.val j.val

theorem toMatrix_orthonormal (V : Mat R) (m K : ℕ) (h : OrthonormalCols V m K) :
    (toMatrix V m K)ᵀ * toMatrix V m K = 1 := by
  ext j k
  simp only [Matrix.mul_apply, Matrix.transpose_apply, toMatrix, Matrix.one_apply]
  have := h j.val k.val j.isLt k.isLt
  unfold colDot at this
  rw [sum_map_range, ← Fin.sum_univ_eq_sum_range (fun i => V.get i j.val * V.get i k.val) m] at this
  rw [this]
  simp [Fin.ext_iff]

theorem toMatrix_eig (G V : Mat R) (m K : ℕ) (w : List R) (h : ∀ k, k < K → IsEigCol G V m k (w.getD k 0)) :
    toMatrix G m m * toMatrix V m K = toMatrix V m K * diagonal (fun k : Fin K => w.getD k.val 0) := by
  ext i k
  rw [Matrix.mul_diagonal]
  simp only [Matrix.mul_apply, toMatrix]
  have := h k.val k.isLt i.val i.isLt
  unfold mulCol at this
  rw [sum_map_range, ← Fin.sum_univ_eq_sum_range (fun l => G.get i.val l * V.get l k.val) m] at this
  rw [this, mul_comm]

/-- `(U Uᵀ)[i, l]` for the first `r` columns of a list-of-rows matrix. -/
def projEntry (U : Mat R) (r i l : ℕ) : R := ∑ k ∈ range r, U.get i k * U.get l k

theorem toMatrix_proj (U : Mat R) (m r : ℕ) (i l : Fin m) :
    (toMatrix U m r * (toMatrix U m r)ᵀ) i l = projEntry U r i.val l.val := by
  simp only [Matrix.mul_apply, Matrix.transpose_apply, toMatrix, projEntry]
  exact Fin.sum_univ_eq_sum_range (fun k => U.get i.val k * U.get l.val k) r

/-- list-level form of `proj_eq_of_gap`. -/
theorem projEntry_eq_of_gap (G Q U : Mat R) (q a : List R) (m r : ℕ) (hr : r ≤ m)
    (hQ : EigContract G m m q Q) (hU : EigContract G m r a U)
    (hsep : ∀ j k, r ≤ j → j < m → k < r → q.getD j 0 ≠ a.getD k 0) (i l : ℕ) (hi : i < m) (hl : l < m) :
    projEntry U r i l = projEntry Q r i l := by
  have h := proj_eq_of_gap hr (toMatrix G m m) (toMatrix Q m m) (fun j => q.getD j.val 0)
    (toMatrix_orthonormal Q m m hQ.ortho) (toMatrix_eig G Q m m q hQ.eig)
    (toMatrix U m r) (fun k => a.getD k.val 0) (toMatrix_orthonormal U m r hU.ortho)
    (toMatrix_eig G U m r a hU.eig) (fun j k hj => hsep j.val k.val hj j.isLt k.isLt)
  have h2 := congrFun (congrFun h ⟨i, hi⟩) ⟨l, hl⟩
  rw [toMatrix_proj U m r ⟨i, hi⟩ ⟨l, hl⟩] at h2
  rw [h2]
  simp only [Matrix.mul_apply, Matrix.transpose_apply, Matrix.submatrix_apply, id, toMatrix, projEntry, Fin.castLE]
  exact Fin.sum_univ_eq_sum_range (fun k => Q.get i k * Q.get l k) r

end Pyttb
