/-
C15, Kruskal tensors, from the un-normalised input: with the `normalize("all")` model of
Ops/KruskalReparam.lean (lawful column norm and N-th root) the normalised copy of a cubic Kruskal tensor in
which column `j` of every factor is a non-zero multiple of one vector passes `Sym.kaligned`; `normalize`
and the symmetrisation step preserve well-formedness; the result of `ktensor.symmetrize` is such a tensor
itself (all factors equal), hence symmetrising again keeps the array.
-/
import PyttbModel.Lemmas.SymKruskalValue
import PyttbModel.Lemmas.KruskalNormalize
set_option linter.unusedSectionVars false
set_option linter.unusedSimpArgs false
namespace Pyttb
namespace Sym
open List Ktensor

variable {α : Type} [Field α] [LinearOrder α] [IsStrictOrderedRing α]

/-! ### `normalize("all")` as three stages -/

theorem normAllOf_eq (S : Services α) (K : Ktensor α) (hN : 0 < K.factors.length) :
    normAllOf S K = absorbAll S (flipNegWeights (normalizeAllModes (S.nrm .two) K)) := by
  obtain ⟨K', hK'⟩ := normalize_accepts S K.copy (some .all) false .two none hN (by simp [wfValid])
    (by intro m hm; cases hm)
  have h2 := (normalize_none_eq S K.copy _ _ _ hK').2
  unfold normAllOf
  rw [hK']
  simp only
  rw [h2]
  simp [sortComps, absorbWeights, copy]

theorem normAllOf_of_order_zero (S : Services α) (K : Ktensor α) (hN : K.factors.length = 0) :
    normAllOf S K = K := by
  unfold normAllOf normalize
  simp [wfValid, ndims, copy, hN]

/-! ### well-formedness through the stages -/

/-- every row of the matrix has `R` entries -/
def RowsLen (R : Nat) (A : Mat α) : Prop := ∀ row ∈ A, row.length = R

theorem rows_scaleL (c : List α) (A : Mat α) (R : Nat) (hc : c.length = R) (hA : RowsLen R A) :
    RowsLen R (Mat.scaleL c A) := by
  intro row hrow
  unfold Mat.scaleL at hrow
  obtain ⟨r0, hr0, rfl⟩ := List.mem_map.1 hrow
  simp [hc, hA r0 hr0]

theorem rows_scaleR (c : List α) (A : Mat α) (R : Nat) (hc : c.length = R) (hA : RowsLen R A) :
    RowsLen R (Mat.scaleR A c) := by
  intro row hrow
  unfold Mat.scaleR at hrow
  obtain ⟨r0, hr0, rfl⟩ := List.mem_map.1 hrow
  simp [hc, hA r0 hr0]

theorem rows_getD (K : Ktensor α) (h : K.WF) (n : Nat) : RowsLen K.weights.length (K.factors.getD n []) := by
  by_cases hn : n < K.factors.length
  · rw [List.getD_eq_getElem?_getD, List.getElem?_eq_getElem hn]
    exact h _ (List.getElem_mem hn)
  · rw [getD_ge _ _ _ (by omega)]
    intro row hrow
    cases hrow

theorem WF_normalizeMode (nrm : List α → α) (K : Ktensor α) (n : Nat) (h : K.WF) :
    (normalizeMode nrm K n).WF := by
  have hw : (normalizeMode nrm K n).weights.length = K.weights.length := by
    simp [normalizeMode, ncomp]
  intro A hA
  rw [hw]
  unfold normalizeMode at hA
  simp only at hA
  rcases List.mem_or_eq_of_mem_set hA with hA | rfl
  · exact h A hA
  · exact rows_scaleL _ _ _ (by simp [ncomp]) (rows_getD K h n)

theorem WF_foldl_normalizeMode (nrm : List α → α) (l : List Nat) (K : Ktensor α) (h : K.WF) :
    (l.foldl (normalizeMode nrm) K).WF := by
  induction l generalizing K with
  | nil => exact h
  | cons n l ih => exact ih _ (WF_normalizeMode nrm K n h)

theorem WF_flipNegWeights (K : Ktensor α) (h : K.WF) : (flipNegWeights K).WF := by
  have hw : (flipNegWeights K).weights.length = K.weights.length := by simp [flipNegWeights]
  intro A hA
  rw [hw]
  unfold flipNegWeights at hA
  simp only at hA
  rcases List.mem_or_eq_of_mem_set hA with hA | rfl
  · exact h A hA
  · exact rows_scaleL _ _ _ (by simp) (rows_getD K h 0)

theorem WF_absorbAll (S : Services α) (K : Ktensor α) (h : K.WF) : (absorbAll S K).WF := by
  have hw : (absorbAll S K).weights.length = K.weights.length := by simp [absorbAll]
  intro A hA
  rw [hw]
  unfold absorbAll at hA
  simp only at hA
  obtain ⟨A', hA', rfl⟩ := List.mem_map.1 hA
  exact rows_scaleR _ _ _ (by simp) (h A' hA')

theorem WF_normAllOf (S : Services α) (K : Ktensor α) (h : K.WF) : (normAllOf S K).WF := by
  by_cases hN : 0 < K.factors.length
  · rw [normAllOf_eq S K hN]
    exact WF_absorbAll S _ (WF_flipNegWeights _ (WF_foldl_normalizeMode _ _ K h))
  · rw [normAllOf_of_order_zero S K (by omega)]
    exact h

theorem normAllOf_reparam {S : Services α} (hS : S.Lawful) (K : Ktensor α) (hN : 0 < K.factors.length) :
    Reparam K (normAllOf S K) := by
  obtain ⟨K', hK'⟩ := normalize_accepts S K.copy (some .all) false .two none hN (by simp [wfValid])
    (by intro m hm; cases hm)
  have := normalize_reparam hS K.copy _ _ _ _ hK'
  unfold normAllOf
  rw [hK']
  exact this

/-! ### the columns after the first stage -/

theorem nmCoef_congr (nrm : List α → α) (K K' : Ktensor α) (n r : Nat)
    (h : K'.factors.getD n [] = K.factors.getD n []) : nmCoef nrm K' n r = nmCoef nrm K n r := by
  unfold nmCoef
  rw [h]

theorem foldl_normalizeMode_col (nrm : List α → α) (K : Ktensor α) (k : Nat) (hk : k ≤ K.factors.length) :
    ((List.range k).foldl (normalizeMode nrm) K).ncomp = K.ncomp ∧
    ((List.range k).foldl (normalizeMode nrm) K).factors.length = K.factors.length ∧
    (∀ m, k ≤ m → ((List.range k).foldl (normalizeMode nrm) K).factors.getD m [] = K.factors.getD m []) ∧
    (∀ m, m < k → ∀ r, r < K.ncomp →
      (((List.range k).foldl (normalizeMode nrm) K).factors.getD m []).col r
        = ((K.factors.getD m []).col r).map (nmCoef nrm K m r * ·)) := by
  induction k with
  | zero => exact ⟨rfl, rfl, fun _ _ => rfl, fun m hm => absurd hm (Nat.not_lt_zero _)⟩
  | succ k ih =>
    obtain ⟨h1, h2, h3, h4⟩ := ih (by omega)
    rw [List.range_succ, List.foldl_append]
    simp only [List.foldl_cons, List.foldl_nil]
    refine ⟨by rw [normalizeMode_ncomp, h1], by rw [normalizeMode_ndims, h2], ?_, ?_⟩
    · intro m hm
      rw [normalizeMode_other _ _ _ _ (by omega : k ≠ m)]
      exact h3 m (by omega)
    · intro m hm r hr
      by_cases hmk : m = k
      · subst hmk
        rw [normalizeMode_self nrm _ m (by rw [h2]; omega) r (by rw [h1]; exact hr), h3 m (le_refl _),
          nmCoef_congr nrm K _ m r (h3 m (le_refl _))]
      · rw [normalizeMode_other _ _ _ _ (Ne.symm hmk)]
        exact h4 m (by omega) r hr

/-! ### columns that are ± one vector -/

/-- `c` is `u` or `-u` -/
def PMof (u c : List α) : Prop := c = u ∨ c = u.map (- ·)

theorem PMof_scale (u c : List α) (d : α) (h : PMof u c) : PMof (u.map (· * d)) (c.map (· * d)) := by
  rcases h with rfl | rfl
  · exact Or.inl rfl
  · right
    rw [List.map_map, List.map_map]
    apply List.map_congr_left
    intro x _
    simp [Function.comp]

theorem PMof_sign (u c : List α) (f : α) (hf : f = 1 ∨ f = -1) (h : PMof u c) : PMof u (c.map (f * ·)) := by
  rcases hf with rfl | rfl
  · simpa using h
  · rcases h with rfl | rfl
    · right
      apply List.map_congr_left
      intro x _
      ring
    · left
      rw [List.map_map]
      conv_rhs => rw [← List.map_id u]
      apply List.map_congr_left
      intro x _
      simp [Function.comp]

theorem colPM_of_PMof (A0 A : Mat α) (j : Nat) (u : List α) (h0 : PMof u (A0.col j)) (h : PMof u (A.col j)) :
    colPM A0 A j = true := by
  unfold colPM
  rw [Bool.or_eq_true, beq_iff_eq, beq_iff_eq]
  rcases h0 with h0 | h0 <;> rcases h with h | h
  · left; rw [h, h0]
  · right; rw [h, h0]
  · right
    rw [h, h0, List.map_map]
    conv_lhs => rw [← List.map_id u]
    apply List.map_congr_left
    intro x _
    simp [Function.comp]
  · left; rw [h, h0]

/-- normalising a non-zero multiple `c · v` of a vector gives `± v / ‖v‖` (and the zero vector when
`v = 0`). -/
theorem PMof_normalised {nrm : List α → α} (L : NormLaws nrm) (v : List α) (c : α) (hc : c ≠ 0) :
    PMof (v.map ((1 / nrm v) * ·))
      ((v.map (c * ·)).map ((if 0 < nrm (v.map (c * ·)) then 1 / nrm (v.map (c * ·)) else 1) * ·)) := by
  rw [L.smul, List.map_map]
  have hcpos : 0 < |c| := abs_pos.2 hc
  by_cases ht : 0 < nrm v
  · rw [if_pos (mul_pos hcpos ht)]
    have htne : nrm v ≠ 0 := ne_of_gt ht
    rcases lt_or_gt_of_ne hc with hneg | hpos
    · right
      rw [abs_of_neg hneg, List.map_map]
      apply List.map_congr_left
      intro x _
      simp only [Function.comp]
      field_simp
    · left
      rw [abs_of_pos hpos]
      apply List.map_congr_left
      intro x _
      simp only [Function.comp]
      field_simp
  · have h0 : nrm v = 0 := le_antisymm (not_lt.1 ht) (L.nonneg v)
    have hz := L.zero_of v h0
    left
    apply List.map_congr_left
    intro x hx
    simp only [Function.comp]
    rw [hz x hx]
    simp

/-! ### the columns after the second and third stage -/

theorem flipNegWeights_col (K : Ktensor α) (m r : Nat) (hr : r < K.ncomp) :
    ∃ f : α, (f = 1 ∨ f = -1) ∧
      ((flipNegWeights K).factors.getD m []).col r = ((K.factors.getD m []).col r).map (f * ·) := by
  by_cases hm : m = 0
  · subst hm
    by_cases hN : 0 < K.factors.length
    · refine ⟨if K.weights.getD r 0 < 0 then -1 else 1, by split <;> simp, ?_⟩
      unfold flipNegWeights
      simp only [List.getD_eq_getElem?_getD, List.getElem?_set_self hN, Option.getD_some]
      rw [Mat.col_scaleL, ← List.getD_eq_getElem?_getD, getD_map_of_lt _ _ _ 0 _ hr]
      simp only [List.getD_eq_getElem?_getD]
    · have : K.factors = [] := List.eq_nil_of_length_eq_zero (by omega)
      exact ⟨1, Or.inl rfl, by simp [flipNegWeights, this, Mat.col]⟩
  · refine ⟨1, Or.inl rfl, ?_⟩
    have : (flipNegWeights K).factors.getD m [] = K.factors.getD m [] := by
      simp [flipNegWeights, List.getD_eq_getElem?_getD, List.getElem?_set_ne (Ne.symm hm)]
    rw [this]
    simp

theorem absorbAll_col (S : Services α) (K : Ktensor α) (m r : Nat) (hm : m < K.factors.length) :
    ((absorbAll S K).factors.getD m []).col r
      = ((K.factors.getD m []).col r).map (· * (K.weights.map (S.root K.ndims)).getD r 0) := by
  unfold absorbAll
  simp only
  rw [getD_map_of_lt _ _ _ [] _ hm, Mat.col_scaleR]

/-! ### cubic, well-formed, parallel -/

theorem kcubicWF_iff (K : Ktensor α) :
    kcubicWF K = true ↔ (∀ A ∈ K.factors, A.length = (K.factors.getD 0 []).length) ∧ K.WF := by
  unfold kcubicWF Ktensor.WF
  simp only [List.all_eq_true, Bool.and_eq_true, beq_iff_eq]
  constructor
  · intro h
    exact ⟨fun A hA => (h A hA).1, fun A hA row hrow => (h A hA).2 row hrow⟩
  · rintro ⟨h1, h2⟩ A hA
    exact ⟨h1 A hA, fun row hrow => h2 A hA row hrow⟩

/-- Every component is a multiple of a symmetric rank-one term: column `j` of every factor is a non-zero
multiple of one vector `v j` (which may be the zero vector). -/
def Parallel (K : Ktensor α) : Prop :=
  ∀ j, j < K.weights.length → ∃ v : List α, ∀ A ∈ K.factors, ∃ c : α, c ≠ 0 ∧ A.col j = v.map (c * ·)

theorem getD_mem_of_lt {β : Type} (l : List β) (m : Nat) (d : β) (hm : m < l.length) : l.getD m d ∈ l := by
  rw [List.getD_eq_getElem?_getD, List.getElem?_eq_getElem hm]
  exact List.getElem_mem hm

/-- the columns of the normalised copy of a parallel tensor: all of them ± one vector. -/
theorem normAllOf_cols {S : Services α} (hS : S.Lawful) (K : Ktensor α) (hN : 0 < K.factors.length)
    (hp : Parallel K) (r : Nat) (hr : r < K.weights.length) :
    ∃ u : List α, ∀ m, m < K.factors.length → PMof u (((normAllOf S K).factors.getD m []).col r) := by
  rw [normAllOf_eq S K hN]
  obtain ⟨c1, c2, _, c4⟩ := foldl_normalizeMode_col (S.nrm .two) K K.factors.length (le_refl _)
  obtain ⟨v, hv⟩ := hp r hr
  have L := hS.norm .two
  have hK1 : normalizeAllModes (S.nrm .two) K = (List.range K.factors.length).foldl (normalizeMode (S.nrm .two)) K := rfl
  refine ⟨(v.map ((1 / S.nrm .two v) * ·)).map
    (· * ((flipNegWeights (normalizeAllModes (S.nrm .two) K)).weights.map
      (S.root (flipNegWeights (normalizeAllModes (S.nrm .two) K)).ndims)).getD r 0), ?_⟩
  intro m hm
  have hlen : (flipNegWeights (normalizeAllModes (S.nrm .two) K)).factors.length = K.factors.length := by
    rw [hK1]; simp [flipNegWeights, c2]
  rw [absorbAll_col S _ m r (by rw [hlen]; exact hm)]
  apply PMof_scale
  obtain ⟨f, hf, hcol⟩ := flipNegWeights_col (normalizeAllModes (S.nrm .two) K) m r (by rw [hK1, c1]; exact hr)
  rw [hcol]
  apply PMof_sign _ _ f hf
  rw [hK1, c4 m hm r hr]
  obtain ⟨c, hc, hcc⟩ := hv _ (getD_mem_of_lt K.factors m [] hm)
  unfold nmCoef
  rw [hcc]
  exact PMof_normalised L v c hc

/-- **From the un-normalised input.**  The normalised copy of a cubic, well-formed Kruskal tensor of order
>= 1 whose components are multiples of symmetric rank-one terms passes `kaligned`. -/
theorem kaligned_normAllOf {S : Services α} (hS : S.Lawful) (K : Ktensor α) (hN : 0 < K.factors.length)
    (hc : kcubicWF K = true) (hp : Parallel K) : kaligned (normAllOf S K) = true := by
  obtain ⟨hcub, hwf⟩ := (kcubicWF_iff K).1 hc
  have hrep := normAllOf_reparam hS K hN
  have hWF := WF_normAllOf S K hwf
  have hlen : (normAllOf S K).factors.length = K.factors.length := hrep.ndims
  have hR : (normAllOf S K).weights.length = K.weights.length := hrep.ncomp
  -- every factor of the copy has as many rows as the factors of `K`
  have hrows : ∀ A ∈ (normAllOf S K).factors, A.length = (K.factors.getD 0 []).length := by
    intro A hA
    have : A.length ∈ (normAllOf S K).shape := List.mem_map.2 ⟨A, hA, rfl⟩
    rw [hrep.shape] at this
    obtain ⟨B, hB, hBl⟩ := List.mem_map.1 this
    rw [← hBl]
    exact hcub B hB
  cases hf : (normAllOf S K).factors with
  | nil => rw [hf] at hlen; simp at hlen; omega
  | cons A0 rest =>
    apply kaligned_of_spec _ A0 rest hf
    have hA0 : A0 = (normAllOf S K).factors.getD 0 [] := by rw [hf]; rfl
    intro A hA
    rw [← hf] at hA
    refine ⟨?_, hWF A hA, ?_⟩
    · rw [hrows A hA, hrows A0 (by rw [hf]; exact List.mem_cons_self)]
    · intro j hj
      rw [hR] at hj
      obtain ⟨u, hu⟩ := normAllOf_cols hS K hN hp j hj
      obtain ⟨m, hm, rfl⟩ := List.getElem_of_mem hA
      have e : (normAllOf S K).factors[m] = (normAllOf S K).factors.getD m [] := by
        rw [List.getD_eq_getElem?_getD, List.getElem?_eq_getElem hm]; rfl
      rw [e, hA0]
      exact colPM_of_PMof _ _ j u (hu 0 hN) (hu m (by rw [← hlen]; exact hm))

/-! ### the result of the symmetrisation step is well-formed, cubic and parallel -/

theorem rows_matAdd (R : Nat) (V X : Mat α) (hV : RowsLen R V) (hX : RowsLen R X) : RowsLen R (matAdd V X) := by
  intro row hrow
  unfold matAdd at hrow
  obtain ⟨k, hk, rfl⟩ := List.getElem_of_mem hrow
  simp only [List.length_zipWith] at hk
  simp only [List.getElem_zipWith, List.length_zipWith]
  rw [hV _ (List.getElem_mem (by omega)), hX _ (List.getElem_mem (by omega))]
  simp

theorem rows_flipCols (R : Nat) (flips : List Bool) (A : Mat α) (hf : flips.length = R) (hA : RowsLen R A) :
    RowsLen R (flipCols flips A) := by
  intro row hrow
  unfold flipCols at hrow
  obtain ⟨r0, hr0, rfl⟩ := List.mem_map.1 hrow
  simp [hf, hA r0 hr0]

theorem ksymLoop_rows (fm0 : Mat α) (R : Nat) (rest : List (Mat α)) (hrest : ∀ A ∈ rest, RowsLen R A)
    (V : Mat α) (w : List α) (hV : RowsLen R V) (hw : w.length = R) :
    RowsLen R (ksymLoop fm0 R V w rest).1 ∧ (ksymLoop fm0 R V w rest).2.length = R := by
  induction rest generalizing V w with
  | nil => exact ⟨hV, hw⟩
  | cons A rest ih =>
    simp only [ksymLoop]
    apply ih (fun B hB => hrest B (List.mem_cons_of_mem _ hB))
    · exact rows_matAdd R V _ hV (rows_flipCols R _ A (by simp) (hrest A List.mem_cons_self))
    · exact flipVec_length R _ w hw

theorem mem_replicate_getD {β : Type} (n : Nat) (X A d : β) (hA : A ∈ List.replicate n X) :
    A = X ∧ (List.replicate n X).getD 0 d = X := by
  obtain ⟨hn, rfl⟩ := List.mem_replicate.1 hA
  obtain ⟨k, rfl⟩ := Nat.exists_eq_succ_of_ne_zero hn
  exact ⟨rfl, by simp [List.replicate_succ]⟩

/-- the symmetrisation step maps cubic well-formed tensors to cubic well-formed tensors. -/
theorem kcubicWF_ksymmetrizeCore (Kn : Ktensor α) (h : kcubicWF Kn = true) :
    kcubicWF (ksymmetrizeCore Kn) = true := by
  obtain ⟨_, hwf⟩ := (kcubicWF_iff Kn).1 h
  rw [kcubicWF_iff, ksymmetrizeCore_eq]
  refine ⟨?_, ?_⟩
  · intro A hA
    simp only at hA ⊢
    obtain ⟨e1, e2⟩ := mem_replicate_getD _ _ A [] hA
    rw [e1, e2]
  · intro A hA
    simp only at hA ⊢
    obtain ⟨rfl, _⟩ := mem_replicate_getD _ _ A [] hA
    by_cases hne : Kn.factors.getD 0 [] = []
    · simp only [hne, ksymLoop_nil_fst, List.map_nil, flipCols]
      intro row hrow
      cases hrow
    · have hR : (Kn.factors.getD 0 []).ncols = Kn.weights.length :=
        ncols_of_rows _ _ (rows_getD Kn hwf 0) hne
      rw [hR]
      obtain ⟨r1, r2⟩ := ksymLoop_rows (Kn.factors.getD 0 []) Kn.weights.length (Kn.factors.drop 1)
        (fun B hB => hwf B (List.mem_of_mem_drop hB)) (Kn.factors.getD 0 []) Kn.weights
        (rows_getD Kn hwf 0) rfl
      have hneg := oddNeg_length Kn.factors.length
        (ksymLoop (Kn.factors.getD 0 []) Kn.weights.length (Kn.factors.getD 0 []) Kn.weights (Kn.factors.drop 1)).2
      rw [flipVec_length' _ _ hneg, r2]
      apply rows_flipCols _ _ _ (by rw [hneg, r2])
      intro row hrow
      obtain ⟨r0, hr0, rfl⟩ := List.mem_map.1 hrow
      simp [r1 r0 hr0]

/-- a Kruskal tensor with one factor matrix repeated for every mode is parallel. -/
theorem parallel_of_replicate (K : Ktensor α) (n : Nat) (V : Mat α) (h : K.factors = List.replicate n V) :
    Parallel K := by
  intro j _
  refine ⟨V.col j, ?_⟩
  intro A hA
  rw [h] at hA
  obtain ⟨_, rfl⟩ := List.mem_replicate.1 hA
  exact ⟨1, one_ne_zero, by simp⟩

/-- acceptance by `ktensor.symmetrize` + well-formedness = `kcubicWF` and order >= 1 -/
theorem kcubicWF_of_accepted (K : Ktensor α) (hwf : K.WF)
    (hs : K.shape ≠ [] ∧ ∀ e ∈ K.shape, e = K.shape.headD 0) :
    0 < K.factors.length ∧ kcubicWF K = true := by
  obtain ⟨h1, h2⟩ := hs
  have hN : 0 < K.factors.length := by
    cases hf : K.factors with
    | nil => simp [Ktensor.shape, hf] at h1
    | cons A t => simp
  refine ⟨hN, (kcubicWF_iff K).2 ⟨?_, hwf⟩⟩
  intro A hA
  have := h2 A.length (List.mem_map.2 ⟨A, hA, rfl⟩)
  rw [this]
  cases hf : K.factors with
  | nil => rw [hf] at hN; simp at hN
  | cons A0 t => simp [Ktensor.shape, hf]

/-- `normalize("all")` maps cubic well-formed tensors of order >= 1 to cubic well-formed tensors. -/
theorem kcubicWF_normAllOf {S : Services α} (hS : S.Lawful) (K : Ktensor α) (hN : 0 < K.factors.length)
    (hc : kcubicWF K = true) : kcubicWF (normAllOf S K) = true := by
  obtain ⟨hcub, hwf⟩ := (kcubicWF_iff K).1 hc
  have hrep := normAllOf_reparam hS K hN
  have hrows : ∀ A ∈ (normAllOf S K).factors, A.length = (K.factors.getD 0 []).length := by
    intro A hA
    have : A.length ∈ (normAllOf S K).shape := List.mem_map.2 ⟨A, hA, rfl⟩
    rw [hrep.shape] at this
    obtain ⟨B, hB, hBl⟩ := List.mem_map.1 this
    rw [← hBl]
    exact hcub B hB
  refine (kcubicWF_iff _).2 ⟨?_, WF_normAllOf S K hwf⟩
  intro A hA
  rw [hrows A hA, hrows _ (getD_mem_of_lt _ 0 [] (by rw [hrep.ndims]; exact hN))]

end Sym
end Pyttb
