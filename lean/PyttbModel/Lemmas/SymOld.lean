/-
C15, the all-permutations version: `symmetrizeOld` computes the specification average (sum of
the permuted tensors over the rows of `sym_perms`, one division, the closing maximum loop does
nothing in exact arithmetic), and the permutation-based symmetry test answers `IsSym`.
-/
import PyttbModel.Lemmas.SymDense
import Mathlib.Algebra.Order.Field.Basic
import Mathlib.Algebra.Order.Ring.Abs
namespace Pyttb
namespace Sym
open List

variable {α : Type}

/-! ### `Y += self.permute(p)` over rows that permute inside the groups -/

theorem sumPermuted_spec [AddCommMonoid α] (T : Dense α) (hT : T.WF) {grps : List (List Nat)}
    (hs : SizesOK T.shape grps) :
    ∀ (rows : List (List Nat)) (Y : Dense α), (∀ p ∈ rows, GroupPerm grps T.shape.length p) →
      Y.WF → Y.shape = T.shape →
      ∃ Y', sumPermuted T Y rows = .ok Y' ∧ Y'.WF ∧ Y'.shape = T.shape ∧
        ∀ j, InBounds T.shape j → Y'.get j = Y.get j + (rows.map fun p => permutedAt T p j).sum := by
  intro rows
  induction rows with
  | nil =>
    intro Y _ hY hYs
    exact ⟨Y, rfl, hY, hYs, fun j _ => by simp⟩
  | cons p ps ih =>
    intro Y hrows hY hYs
    have hp := hrows p mem_cons_self
    have hZs : (T.transpose p).shape = T.shape := hp.gather_shape hs
    have hadd : (addD Y (T.transpose p)).WF := addD_WF hY (transpose_WF' T p) (by rw [hYs, hZs])
    obtain ⟨Y', h1, h2, h3, h4⟩ := ih (addD Y (T.transpose p))
      (fun q hq => hrows q (mem_cons_of_mem _ hq)) hadd hYs
    refine ⟨Y', ?_, h2, h3, ?_⟩
    · simp only [sumPermuted, permute_eq_transpose' T p hT hp.1]
      exact h1
    · intro j hj
      rw [h4 j hj, addD_get hY (transpose_WF' T p) (by rw [hYs, hZs]) (by rw [hYs]; exact hj),
        transpose_get' T p (by rw [hp.gather_shape hs]; exact hj)]
      simp [add_assoc]

/-- the closing loop `Y = maximum(Y, Y.permute(p))` leaves a symmetric tensor alone. -/
theorem maxFix_of_isSym [LinearOrder α] [Zero α] (Y : Dense α) (hY : Y.WF) {grps : List (List Nat)}
    (hsym : IsSym Y grps) :
    ∀ rows : List (List Nat), (∀ p ∈ rows, GroupPerm grps Y.shape.length p) → maxFix Y rows = .ok Y := by
  intro rows
  induction rows with
  | nil => intro _; rfl
  | cons p ps ih =>
    intro hrows
    have hp := hrows p mem_cons_self
    have ht : Y.transpose p = Y := (isSym_iff_transpose Y hY grps).1 hsym p hp
    simp only [maxFix, permute_eq_transpose' Y p hY hp.1, ht, maxD_self]
    exact ih (fun q hq => hrows q (mem_cons_of_mem _ hq))

theorem symmetrizeOld_checks {T : Dense α} {grps : List (List Nat)}
    (hr : InRangeAll T.shape.length grps) (hs : SizesOK T.shape grps) (hno : NoOverlap grps) :
    grps.all (inRange T.shape.length) = true ∧ grps.all (sameSizes T.shape) = true ∧
      overlapping grps = false :=
  ⟨(inRange_all_iff _ _).2 hr, (sameSizes_all_iff _ _).2 hs, (overlapping_eq_false_iff _).2 hno⟩

/-- the all-permutations version returns the specification average. -/
theorem symmetrizeOld_eq_spec [Field α] [CharZero α] [LinearOrder α] (T : Dense α) (hT : T.WF)
    {grps : List (List Nat)} (V : ValidGroups T.shape.length grps) (hs : SizesOK T.shape grps) :
    symmetrizeOld T grps = .ok (symSpec T grps) := by
  obtain ⟨c1, c2, c3⟩ := symmetrizeOld_checks (T := T) V.inRangeAll hs V.noOverlap
  have hperm := symPerms_perm V
  have hrows : ∀ p ∈ symPermsFrom (List.range T.shape.length) grps, GroupPerm grps T.shape.length p :=
    fun p hp => mem_groupPerms.1 (hperm.subset hp)
  obtain ⟨Y, h1, h2, h3, h4⟩ := sumPermuted_spec T hT hs _ (zerosD T.shape) hrows (zerosD_WF _) rfl
  have htot : (grps.map fun g => (permsLex g).length).foldl (· * ·) 1 =
      (groupPerms T.shape.length grps).length := by
    rw [← length_symPermsFrom grps (List.range T.shape.length), hperm.length_eq]
  have hY2 : divNatD Y ((grps.map fun g => (permsLex g).length).foldl (· * ·) 1) = symSpec T grps := by
    apply Dense.ext_get (divNatD_WF h2 _) (symSpec_WF T grps) h3
    intro j hj
    have hj' : InBounds T.shape j := by
      have : (divNatD Y ((grps.map fun g => (permsLex g).length).foldl (· * ·) 1)).shape = T.shape := h3
      rwa [this] at hj
    rw [divNatD_get h2 _ (by rw [h3]; exact hj'), h4 j hj', zerosD_get, zero_add, htot]
    unfold symSpec
    rw [Dense.ofFn_get _ _ hj']
    congr 1
    exact (hperm.map _).sum_eq
  simp only [symmetrizeOld, c1, c2, c3, h1, hY2]
  simp only [Bool.not_true, Bool.false_eq_true, if_false]
  exact maxFix_of_isSym _ (symSpec_WF T grps) (symSpec_isSym T V hs) _ hrows

/-- out of range, unequal extents inside a group, or two groups sharing a mode: rejected. -/
theorem symmetrizeOld_rejects [Add α] [Zero α] [Div α] [NatCast α] [Max α] (T : Dense α)
    (grps : List (List Nat))
    (h : ¬ (InRangeAll T.shape.length grps ∧ SizesOK T.shape grps ∧ NoOverlap grps)) :
    symmetrizeOld T grps = .error .reject := by
  unfold symmetrizeOld
  by_cases c1 : grps.all (inRange T.shape.length) = true
  · by_cases c2 : grps.all (sameSizes T.shape) = true
    · by_cases c3 : overlapping grps = false
      · exact absurd ⟨(inRange_all_iff _ _).1 c1, (sameSizes_all_iff _ _).1 c2,
          (overlapping_eq_false_iff _).1 c3⟩ h
      · simp [c1, c2, c3]
    · simp [c1, c2]
  · simp [c1]

/-! ### the permutation-based symmetry test -/

theorem sizeLoopGroup_ok (s : List Nat) (d0 : Nat) (js : List Nat) (hd : d0 < s.length)
    (hj : ∀ j ∈ js, j < s.length) :
    ∃ b, sizeLoopGroup s d0 js = .ok b ∧ (b = true ↔ ∀ j ∈ js, s.getD j 0 = s.getD d0 0) := by
  induction js with
  | nil => exact ⟨true, rfl, by simp⟩
  | cons j js ih =>
    have h1 := hj j mem_cons_self
    obtain ⟨b, hb1, hb2⟩ := ih (fun x hx => hj x (mem_cons_of_mem _ hx))
    have c1 : (decide (j ≥ s.length) || decide (d0 ≥ s.length)) = false := by simp; omega
    by_cases he : s.getD j 0 = s.getD d0 0
    · refine ⟨b, ?_, ?_⟩
      · unfold sizeLoopGroup
        rw [c1]
        have : (s.getD j 0 != s.getD d0 0) = false := by rw [he]; exact bne_self_eq_false _
        simp only [this, Bool.false_eq_true, if_false]
        exact hb1
      · rw [hb2]
        simp only [mem_cons, forall_eq_or_imp, he, true_and]
    · refine ⟨false, ?_, ?_⟩
      · unfold sizeLoopGroup
        rw [c1]
        have : (s.getD j 0 != s.getD d0 0) = true := bne_iff_ne.2 he
        simp only [this, Bool.false_eq_true, if_false, if_true]
      · simp only [Bool.false_eq_true, mem_cons, forall_eq_or_imp, he, false_and]

/-- with all modes in range the size loop answers whether the extents agree inside every group. -/
theorem sizeLoop_ok (s : List Nat) (grps : List (List Nat)) (hr : InRangeAll s.length grps) :
    ∃ b, sizeLoop s grps = .ok b ∧ (b = true ↔ SizesOK s grps) := by
  induction grps with
  | nil => exact ⟨true, rfl, by simp [SizesOK]⟩
  | cons g gs ih =>
    obtain ⟨b, hb1, hb2⟩ := ih (fun h hh => hr h (mem_cons_of_mem _ hh))
    have hg := hr g mem_cons_self
    have hsplit : SizesOK s (g :: gs) ↔ (∀ a ∈ g, ∀ b ∈ g, s.getD a 0 = s.getD b 0) ∧ SizesOK s gs := by
      simp only [SizesOK, mem_cons, forall_eq_or_imp]
    cases g with
    | nil =>
      refine ⟨b, ?_, ?_⟩
      · simp only [sizeLoop, List.headD_nil, List.tail_nil, sizeLoopGroup]
        exact hb1
      · rw [hb2, hsplit]; simp
    | cons d0 tl =>
      have hd : d0 < s.length := hg d0 mem_cons_self
      have ht : ∀ j ∈ tl, j < s.length := fun j hj => hg j (mem_cons_of_mem _ hj)
      obtain ⟨b0, h01, h02⟩ := sizeLoopGroup_ok s d0 tl hd ht
      have hgrp : (∀ a ∈ d0 :: tl, ∀ b ∈ d0 :: tl, s.getD a 0 = s.getD b 0) ↔
          ∀ j ∈ tl, s.getD j 0 = s.getD d0 0 := by
        constructor
        · intro h j hj; exact h j (mem_cons_of_mem _ hj) d0 mem_cons_self
        · intro h
          have key : ∀ a ∈ d0 :: tl, s.getD a 0 = s.getD d0 0 := by
            intro a ha
            rcases mem_cons.1 ha with rfl | ha
            · rfl
            · exact h a ha
          intro a ha b hb; rw [key a ha, key b hb]
      cases b0 with
      | true =>
        refine ⟨b, ?_, ?_⟩
        · simp only [sizeLoop, List.headD_cons, List.tail_cons, h01]
          exact hb1
        · rw [hb2, hsplit, hgrp, ← h02]; simp
      | false =>
        refine ⟨false, ?_, ?_⟩
        · simp only [sizeLoop, List.headD_cons, List.tail_cons, h01]
        · rw [hsplit, hgrp, ← h02]; simp

theorem absV_eq_zero [Field α] [LinearOrder α] (x : α) : absV x = 0 ↔ x = 0 := by
  unfold absV
  by_cases h : x < 0
  · simp [h]
  · simp [h]

theorem absV_nonneg [Field α] [LinearOrder α] [IsStrictOrderedRing α] (x : α) : 0 ≤ absV x := by
  unfold absV
  by_cases h : x < 0
  · simp only [h, if_true]; exact neg_nonneg.2 h.le
  · simp only [h, if_false]; exact not_lt.1 h

theorem le_foldl_max [LinearOrder α] (ds : List α) (d : α) : d ≤ ds.foldl max d ∧ ∀ x ∈ ds, x ≤ ds.foldl max d := by
  induction ds generalizing d with
  | nil => simp
  | cons y ys ih =>
    simp only [foldl_cons, mem_cons, forall_eq_or_imp]
    have := ih (max d y)
    exact ⟨le_trans (le_max_left d y) this.1, le_trans (le_max_right d y) this.1, this.2⟩

/-- the largest absolute difference vanishes only for equal data. -/
theorem maxAbsDiff_eq_zero [Field α] [LinearOrder α] [IsStrictOrderedRing α] (a b : List α)
    (hl : a.length = b.length) : maxAbsDiff a b = 0 ↔ a = b := by
  unfold maxAbsDiff
  constructor
  · intro h
    have hall : ∀ x ∈ List.zipWith (fun x y => absV (x - y)) a b, x = 0 := by
      cases hz : List.zipWith (fun x y => absV (x - y)) a b with
      | nil => simp
      | cons d ds =>
        rw [hz] at h
        simp only at h
        have hm := le_foldl_max ds d
        have hnn : ∀ x ∈ d :: ds, 0 ≤ x := by
          intro x hx
          rw [← hz] at hx
          obtain ⟨k, hk, rfl⟩ := List.getElem_of_mem hx
          simp only [getElem_zipWith]
          exact absV_nonneg _
        intro x hx
        rcases mem_cons.1 hx with rfl | hx'
        · exact le_antisymm (h ▸ hm.1) (hnn _ mem_cons_self)
        · exact le_antisymm (h ▸ hm.2 x hx') (hnn x hx)
    apply List.ext_getElem hl
    intro k h1 h2
    have hk : k < (List.zipWith (fun x y => absV (x - y)) a b).length := by simp; omega
    have := hall _ (List.getElem_mem hk)
    simp only [getElem_zipWith] at this
    exact sub_eq_zero.1 ((absV_eq_zero _).1 this)
  · rintro rfl
    cases hz : List.zipWith (fun x y => absV (x - y)) a a with
    | nil => rfl
    | cons d ds =>
      have hall : ∀ x ∈ d :: ds, x = 0 := by
        intro x hx
        rw [← hz] at hx
        obtain ⟨k, hk, rfl⟩ := List.getElem_of_mem hx
        simp [absV]
      simp only
      have hd : d = 0 := hall d mem_cons_self
      subst hd
      have : ∀ (l : List α), (∀ x ∈ l, x = 0) → l.foldl max (0 : α) = 0 := by
        intro l
        induction l with
        | nil => intro _; rfl
        | cons y ys ih =>
          intro hl
          have hy : y = 0 := hl y mem_cons_self
          subst hy
          simp only [foldl_cons, max_self]
          exact ih (fun x hx => hl x (mem_cons_of_mem _ hx))
      exact this ds (fun x hx => hall x (mem_cons_of_mem _ hx))

/-- one row of the test for an order that keeps the shape: the difference is `0` exactly when the
order leaves the tensor unchanged. -/
theorem symRowOld_spec [Field α] [LinearOrder α] [IsStrictOrderedRing α] (T : Dense α) (hT : T.WF)
    {g c : List Nat} (hgr : ∀ m ∈ g, m < T.shape.length)
    (hp : isPermOf (scatter (List.range T.shape.length) g c) T.shape.length = true)
    (hsh : gather T.shape (scatter (List.range T.shape.length) g c) = T.shape) :
    ∃ d, symRowOld T g c = .ok (d, scatter (List.range T.shape.length) g c) ∧
      (d = 0 ↔ T.transpose (scatter (List.range T.shape.length) g c) = T) := by
  have hir : inRange T.shape.length g = true := by simpa [inRange] using hgr
  simp only [symRowOld, hir, Bool.not_true, Bool.false_eq_true, if_false,
    permute_eq_transpose' T _ hT hp]
  refine ⟨_, rfl, ?_⟩
  generalize hY : T.transpose (scatter (List.range T.shape.length) g c) = Y
  have hYwf : Y.WF := by rw [← hY]; exact transpose_WF' _ _
  have hYs : Y.shape = T.shape := by rw [← hY]; exact hsh
  have heq : Y = T ↔ T.data = Y.data := by
    cases T; cases Y
    simp only [Dense.mk.injEq] at hYs ⊢
    constructor
    · intro h; exact h.2.symm
    · intro h; exact ⟨hYs, h.symm⟩
  have hl : T.data.length = Y.data.length := by rw [hT, hYwf, hYs]
  have hb : (T.shape == Y.shape) = true := by simp [hYs]
  rw [hb, Bool.true_and, heq]
  by_cases hd : T.data = Y.data
  · simp [hd]
  · have : (T.data == Y.data) = false := by simpa using hd
    simp only [this, Bool.false_eq_true, if_false, maxAbsDiff_eq_zero _ _ hl]

theorem ValidGroups.single {n : Nat} {grps : List (List Nat)} (V : ValidGroups n grps) {g : List Nat}
    (hg : g ∈ grps) : ValidGroups n [g] :=
  ⟨fun h hh => by simp only [mem_singleton] at hh; subst hh; exact V.1 h hg, by simp⟩

theorem symRowsOld_spec [Field α] [LinearOrder α] [IsStrictOrderedRing α] (T : Dense α) (hT : T.WF) :
    ∀ pairs : List (List Nat × List Nat),
      (∀ gc ∈ pairs, (∀ m ∈ gc.1, m < T.shape.length) ∧
        isPermOf (scatter (List.range T.shape.length) gc.1 gc.2) T.shape.length = true ∧
        gather T.shape (scatter (List.range T.shape.length) gc.1 gc.2) = T.shape) →
      ∃ rows, symRowsOld T pairs = .ok rows ∧
        rows.map (·.2) = pairs.map (fun gc => scatter (List.range T.shape.length) gc.1 gc.2) ∧
        ∀ r ∈ rows, (r.1 = 0 ↔ T.transpose r.2 = T) := by
  intro pairs
  induction pairs with
  | nil => intro _; exact ⟨[], rfl, rfl, by simp⟩
  | cons gc rest ih =>
    intro h
    obtain ⟨h1, h2, h3⟩ := h gc mem_cons_self
    obtain ⟨d, hd1, hd2⟩ := symRowOld_spec T hT h1 h2 h3
    obtain ⟨rows, hr1, hr2, hr3⟩ := ih (fun x hx => h x (mem_cons_of_mem _ hx))
    refine ⟨(d, scatter (List.range T.shape.length) gc.1 gc.2) :: rows, ?_, ?_, ?_⟩
    · simp only [symRowsOld, hd1, hr1]
    · simp only [map_cons, hr2]
    · intro r hr
      rcases mem_cons.1 hr with rfl | hr
      · exact hd2
      · exact hr3 r hr

/-- the permutation-based test: the answer is `IsSym`, the listed orders are, group by group, the
identity with each permutation of the group written into it, and a listed difference is zero
exactly when that order leaves the tensor unchanged. -/
theorem issymmetricOld_spec [Field α] [LinearOrder α] [IsStrictOrderedRing α] (T : Dense α) (hT : T.WF)
    {grps : List (List Nat)} (V : ValidGroups T.shape.length grps) (hs : SizesOK T.shape grps)
    (details : Bool) :
    ∃ (b : Bool) (diffs : List α) (perms : List (List Nat)),
      issymmetricOld T grps details = .ok (if details then .details b diffs perms else .plain b) ∧
      (b = true ↔ IsSym T grps) ∧
      perms = (grps.flatMap fun g => (permsLex g).map fun c => scatter (List.range T.shape.length) g c) ∧
      diffs.length = perms.length ∧
      ∀ k (h1 : k < diffs.length) (h2 : k < perms.length), (diffs[k] = 0 ↔ T.transpose perms[k] = T) := by
  obtain ⟨b0, hb01, hb02⟩ := sizeLoop_ok T.shape grps V.inRangeAll
  have hb0 : b0 = true := hb02.2 hs
  subst hb0
  have hpairs : ∀ gc ∈ (grps.flatMap fun g => (permsLex g).map fun c => (g, c)),
      (∀ m ∈ gc.1, m < T.shape.length) ∧
        isPermOf (scatter (List.range T.shape.length) gc.1 gc.2) T.shape.length = true ∧
        gather T.shape (scatter (List.range T.shape.length) gc.1 gc.2) = T.shape := by
    intro gc hgc
    simp only [mem_flatMap, mem_map] at hgc
    obtain ⟨g, hg, c, hc, rfl⟩ := hgc
    have hgv := V.1 g hg
    have hmem : GroupPerm [g] T.shape.length (scatter (List.range T.shape.length) g c) :=
      groupPerm_scatter hgv.1 hgv.2 (mem_permsLex.1 hc)
    exact ⟨hgv.2, hmem.1, hmem.gather_shape (fun h hh => hs h (by simp only [mem_singleton] at hh; subst hh; exact hg))⟩
  obtain ⟨rows, hr1, hr2, hr3⟩ := symRowsOld_spec T hT _ hpairs
  have hperms : rows.map (·.2) =
      (grps.flatMap fun g => (permsLex g).map fun c => scatter (List.range T.shape.length) g c) := by
    rw [hr2, map_flatMap]
    simp only [map_map, Function.comp_def]
  refine ⟨(rows.map (·.1)).all (· == 0), rows.map (·.1), rows.map (·.2), ?_, ?_, hperms, by simp, ?_⟩
  · simp only [issymmetricOld, hb01, hr1]
  · rw [isSym_iff_forall T V hs]
    simp only [all_eq_true, mem_map, beq_iff_eq, forall_exists_index, and_imp, forall_apply_eq_imp_iff₂]
    constructor
    · intro h g hg
      rw [isSym_iff_transpose T hT]
      intro p hp
      have hpm : p ∈ (permsLex g).map fun c => scatter (List.range T.shape.length) g c :=
        (perm_groupPerms_single (V.single hg)).symm.subset (mem_groupPerms.2 hp)
      have hp2 : p ∈ rows.map (·.2) := by
        rw [hperms, mem_flatMap]; exact ⟨g, hg, hpm⟩
      obtain ⟨r, hr, rfl⟩ := mem_map.1 hp2
      exact (hr3 r hr).1 (h r hr)
    · intro h r hr
      rw [hr3 r hr]
      have hr2' : r.2 ∈ rows.map (·.2) := mem_map.2 ⟨r, hr, rfl⟩
      rw [hperms, mem_flatMap] at hr2'
      obtain ⟨g, hg, hpm⟩ := hr2'
      have hp : GroupPerm [g] T.shape.length r.2 :=
        mem_groupPerms.1 ((perm_groupPerms_single (V.single hg)).subset hpm)
      exact (isSym_iff_transpose T hT [g]).1 (h g hg) r.2 hp
  · intro k h1 h2
    simp only [getElem_map]
    exact hr3 _ (getElem_mem _)

/-- a group with modes of different extents: the permutation-based test answers a bare `False`
(also when details were requested). -/
theorem issymmetricOld_unequal [Sub α] [Neg α] [LT α] [DecidableLT α] [Zero α] [Max α] [BEq α]
    (T : Dense α) {grps : List (List Nat)} (hr : InRangeAll T.shape.length grps)
    (hs : ¬ SizesOK T.shape grps) (details : Bool) :
    issymmetricOld T grps details = .ok (.plain false) := by
  obtain ⟨b0, hb01, hb02⟩ := sizeLoop_ok T.shape grps hr
  have : b0 = false := by
    cases b0 with
    | false => rfl
    | true => exact absurd (hb02.1 rfl) hs
  subst this
  simp only [issymmetricOld, hb01]

end Sym
end Pyttb
