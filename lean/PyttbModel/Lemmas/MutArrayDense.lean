/-
C04, dense class: `tensor.__setitem__` / `tensor.__getitem__` refine the mutable-array
specification for subscript arrays, linear keys and integer/slice regions.
-/
import PyttbModel.Lemmas.MutArray
namespace Pyttb

variable {α : Type}

/-! ### right-hand sides of position lists -/

theorem npValuesList_eq (rhs : Rhs α) (p : Nat) : npValuesList rhs p = MArr.listValues rhs p := by
  cases rhs with
  | scalar v => rfl
  | col vs =>
    cases vs with
    | nil => rfl
    | cons a t => cases t with
      | nil => rfl
      | cons b t => rfl
  | arr T => rfl
  | tensor T => rfl

theorem listValues_length {rhs : Rhs α} {p : Nat} {vals : List α} (h : MArr.listValues rhs p = .ok vals) :
    vals.length = p := by
  unfold MArr.listValues at h
  split at h
  · cases h; simp
  · cases h; simp
  · split at h
    · next hl => cases h; exact hl
    · cases h
  · cases h

/-! ### subscript arrays -/

/-- `_set_subscripts` computes the specification's new shape and assignments. -/
theorem Dense.setSubscripts_eq [Zero α] (T : Dense α) (rows : List (List Nat)) (rhs : Rhs α) :
    T.setSubscripts rows rhs =
      (MArr.resolveWrite T.shape (.subs rows) rhs).map fun r => (T.resize r.1).scatter r.2 := by
  cases rows with
  | nil => rfl
  | cons r0 rest =>
    simp only [Dense.setSubscripts, MArr.resolveWrite]
    split
    · rfl
    · rw [npValuesList_eq]
      cases hv : MArr.listValues rhs (r0 :: rest).length with
      | error e => rfl
      | ok vals =>
        simp only [Except.map, bind, Except.bind, pure, Except.pure]
        congr 2
        congr 1
        apply List.map_congr_left
        intro m hm
        simp only [List.mem_range] at hm
        have hb : ((List.range r0.length).map fun m => maxNat ((r0 :: rest).map fun r => r.getD m 0)).getD m 0
            = maxNat ((r0 :: rest).map fun r => r.getD m 0) := by
          simp [List.getD_eq_getElem?_getD, List.getElem?_map, List.getElem?_range hm]
        rw [hb]
        by_cases hmn : m < T.shape.length
        · simp [hmn]
        · have : T.shape.getD m 0 = 0 := by
            simp [List.getD_eq_getElem?_getD, List.getElem?_eq_none (Nat.le_of_not_lt hmn)]
          simp [hmn, this]

end Pyttb
