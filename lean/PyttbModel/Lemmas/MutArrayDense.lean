/-
C04, dense class: `tensor.__setitem__` / `tensor.__getitem__` refine the mutable-array
specification for subscript arrays, linear keys and integer/slice regions.
-/
import PyttbModel.Lemmas.MutArray
set_option linter.unusedSimpArgs false
set_option linter.unusedVariables false
set_option linter.unusedSectionVars false

namespace Pyttb

variable {α : Type}

/-! ### right-hand sides of position lists -/

theorem npValuesList_eq (rhs : Rhs α) (p : Nat) : npValuesList rhs p = MArr.listValues rhs p := by
  cases rhs with
  | scalar v => rfl
  | col vs =>
    cases vs with
    | nil => rfl
    | cons a t => cases t with
      | nil => rfl
      | cons b t => rfl
  | arr T => rfl
  | tensor T => rfl

theorem listValues_length {rhs : Rhs α} {p : Nat} {vals : List α} (h : MArr.listValues rhs p = .ok vals) :
    vals.length = p := by
  unfold MArr.listValues at h
  split at h
  · cases h; simp
  · cases h; simp
  · split at h
    · next hl => cases h; exact hl
    · cases h
  · cases h

/-! ### subscript arrays -/

/-- `_set_subscripts` computes the specification's new shape and assignments. -/
theorem Dense.setSubscripts_eq [Zero α] (T : Dense α) (rows : List (List Nat)) (rhs : Rhs α) :
    T.setSubscripts rows rhs =
      (MArr.resolveWrite T.shape (.subs rows) rhs).map fun r => (T.resize r.1).scatter r.2 := by
  cases rows with
  | nil => rfl
  | cons r0 rest =>
    simp only [Dense.setSubscripts, MArr.resolveWrite]
    split
    · rfl
    · rw [npValuesList_eq]
      cases hv : MArr.listValues rhs (r0 :: rest).length with
      | error e => rfl
      | ok vals =>
        simp only [Except.map, bind, Except.bind, pure, Except.pure]
        congr 2
        congr 1
        apply List.map_congr_left
        intro m hm
        simp only [List.mem_range] at hm
        have hb : ((List.range r0.length).map fun m => maxNat ((r0 :: rest).map fun r => r.getD m 0)).getD m 0
            = maxNat ((r0 :: rest).map fun r => r.getD m 0) := by
          simp [List.getD_eq_getElem?_getD, List.getElem?_map, List.getElem?_range hm]
        rw [hb]
        by_cases hmn : m < T.shape.length
        · simp [hmn]
        · have : T.shape.getD m 0 = 0 := by
            simp [List.getD_eq_getElem?_getD, List.getElem?_eq_none (Nat.le_of_not_lt hmn)]
          simp [hmn, this]

/-! ### refinement of a write -/

/-- Outcome of the same write on the model and on the specification: both reject, or
both accept with related results. -/
def RefW [Zero α] (a : Except Reject (Dense α)) (b : Except Reject (MArr α)) : Prop :=
  match a, b with
  | .ok T', .ok m' => DRel T' m'
  | .error _, .error _ => True
  | _, _ => False

/-- A write that computes the specification's new shape and assignments refines it. -/
theorem RefW.of_eq [Zero α] {T : Dense α} {m : MArr α} (h : DRel T m) (key : Key) (rhs : Rhs α)
    (a : Except Reject (Dense α))
    (ha : a = (MArr.resolveWrite T.shape key rhs).map fun r => (T.resize r.1).scatter r.2) :
    RefW a (m.write key rhs) := by
  subst ha
  unfold MArr.write
  rw [← h.shape]
  cases hr : MArr.resolveWrite T.shape key rhs with
  | error e => simp [RefW, Except.map, bind, Except.bind]
  | ok r =>
    obtain ⟨s', asg⟩ := r
    simp only [RefW, Except.map, bind, Except.bind]
    exact h.write s' asg (resolveWrite_inBounds hr)

/-! ### linear keys -/

theorem cells_eq_numel {s : List Nat} (hs : s ≠ []) : MArr.cells s = numel s := by
  unfold MArr.cells
  cases s with
  | nil => exact absurd rfl hs
  | cons a s => simp

theorem ttInd2sub_cons (s : List Nat) (i : Int) (idx : List Int) :
    ttInd2sub s (i :: idx) =
      (let j := if i < 0 then i + (numel s : Int) else i
       if 0 ≤ j ∧ j < (numel s : Int) then
         match ttInd2sub s idx with
         | .ok t => .ok (ind2sub s j.toNat :: t)
         | .error e => .error e
       else .error .reject) := by
  unfold ttInd2sub
  simp only [List.map_cons, List.all_cons]
  by_cases h1 : 0 ≤ (if i < 0 then i + (numel s : Int) else i) ∧ (if i < 0 then i + (numel s : Int) else i) < (numel s : Int)
  · have : (decide (0 ≤ (if i < 0 then i + (numel s : Int) else i)) &&
        decide ((if i < 0 then i + (numel s : Int) else i) < (numel s : Int))) = true := by
      simp [h1.1, h1.2]
    rw [if_pos h1]
    simp only [this, Bool.true_and]
    split <;> rfl
  · have : (decide (0 ≤ (if i < 0 then i + (numel s : Int) else i)) &&
        decide ((if i < 0 then i + (numel s : Int) else i) < (numel s : Int))) = false := by
      rw [Bool.and_eq_false_iff]
      by_cases h0 : 0 ≤ (if i < 0 then i + (numel s : Int) else i)
      · right
        have : ¬ (if i < 0 then i + (numel s : Int) else i) < (numel s : Int) := fun hc => h1 ⟨h0, hc⟩
        simpa using this
      · left; simp [h0]
    rw [if_neg h1]
    simp [this]

theorem ttInd2sub_eq_linTargets {s : List Nat} (hs : s ≠ []) (idx : List Int) :
    ttInd2sub s idx = MArr.linTargets s idx := by
  induction idx with
  | nil => simp [ttInd2sub, MArr.linTargets, List.mapM_nil, pure, Except.pure]
  | cons i idx ih =>
    rw [ttInd2sub_cons, ih]
    unfold MArr.linTargets
    rw [List.mapM_cons]
    simp only [MArr.linTarget, cells_eq_numel hs, bind, Except.bind, pure, Except.pure]
    split
    · next hneg =>
      by_cases hr : 0 ≤ i + (numel s : Int) ∧ i + (numel s : Int) < (numel s : Int)
      · rw [if_pos hr, if_pos hr]; cases List.mapM (MArr.linTarget s) idx <;> rfl
      · rw [if_neg hr, if_neg hr]
    · next hneg =>
      by_cases hr : 0 ≤ i ∧ i < (numel s : Int)
      · rw [if_pos hr, if_pos hr]; cases List.mapM (MArr.linTarget s) idx <;> rfl
      · rw [if_neg hr, if_neg hr]

theorem Dense.resize_self [Zero α] (T : Dense α) : T.resize T.shape = T := by
  simp [Dense.resize]

theorem mapM_error_of_mem {β γ : Type} (f : β → Except Reject γ) (l : List β) (x : β) (hx : x ∈ l)
    (hf : f x = .error .reject) : l.mapM f = .error .reject := by
  induction l with
  | nil => cases hx
  | cons a l ih =>
    rw [List.mapM_cons]
    simp only [bind, Except.bind, pure, Except.pure]
    cases ha : f a with
    | error e => cases e; rfl
    | ok v =>
      rcases List.mem_cons.1 hx with rfl | hx'
      · rw [hf] at ha; cases ha
      · rw [ih hx']

theorem linTarget_error_of_gt {s : List Nat} {i : Int} (h : i > (numel s : Int)) (hs : s ≠ []) :
    MArr.linTarget s i = .error .reject := by
  unfold MArr.linTarget
  simp only [cells_eq_numel hs]
  have hneg : ¬ i < 0 := by omega
  rw [if_neg hneg]
  have : ¬ (0 ≤ i ∧ i < (numel s : Int)) := by omega
  rw [if_neg this]

/-- `_set_linear` computes the specification's assignments (no resizing). -/
theorem Dense.setLinear_eq [Zero α] (T : Dense α) (hs : T.shape ≠ []) (key : Key) (rhs : Rhs α)
    (hk : ∀ rows, key ≠ .subs rows) (hk' : ∀ parts, key ≠ .region parts) :
    T.setLinear key rhs =
      (MArr.resolveWrite T.shape key rhs).map fun r => (T.resize r.1).scatter r.2 := by
  have tail : ∀ idx : List Int,
      (do let subs ← ttInd2sub T.shape idx
          let vals ← npValuesList rhs subs.length
          Except.ok (T.scatter (subs.zip vals))) =
      (do let targets ← MArr.linTargets T.shape idx
          let vals ← MArr.listValues rhs targets.length
          (Except.ok (T.shape, targets.zip vals) : Except Reject (List Nat × List (List Nat × α)))).map
        (fun (r : List Nat × List (List Nat × α)) => (T.resize r.1).scatter r.2) := by
    intro idx
    rw [ttInd2sub_eq_linTargets hs]
    cases MArr.linTargets T.shape idx with
    | error e => rfl
    | ok t =>
      simp only [bind, Except.bind, npValuesList_eq]
      cases MArr.listValues rhs t.length with
      | error e => rfl
      | ok vals => simp [Except.map, Dense.resize_self]
  cases key with
  | subs rows => exact absurd rfl (hk rows)
  | region parts => exact absurd rfl (hk' parts)
  | lin i =>
    simp only [Dense.setLinear, MArr.resolveWrite, MArr.linIdx]
    by_cases hi : i > (numel T.shape : Int)
    · have h1 : MArr.linTargets T.shape [i] = .error .reject :=
        mapM_error_of_mem _ _ i (by simp) (linTarget_error_of_gt hi hs)
      simp [hi, bind, Except.bind, pure, Except.pure, h1, Except.map]
    · simp only [hi, ↓reduceIte]
      exact tail [i]
  | linList is =>
    simp only [Dense.setLinear, MArr.resolveWrite, MArr.linIdx]
    by_cases hi : is.any (fun x => decide (x > (numel T.shape : Int))) = true
    · obtain ⟨x, hx, hgt⟩ := List.any_eq_true.1 hi
      have h1 : MArr.linTargets T.shape is = .error .reject :=
        mapM_error_of_mem _ _ x hx (linTarget_error_of_gt (by simpa using hgt) hs)
      simp [hi, bind, Except.bind, pure, Except.pure, h1, Except.map]
    · simp only [hi, Bool.false_eq_true, ↓reduceIte]
      exact tail is
  | linSlice a b c =>
    simp only [Dense.setLinear, MArr.resolveWrite, MArr.linIdx, cells_eq_numel hs]
    cases pySlice (numel T.shape) a b c with
    | error e => rfl
    | ok l => exact tail (l.map Int.ofNat)

/-! ### integer / slice regions -/

def RPart.simple : RPart → Bool
  | .list _ => false
  | _ => true

/-- A region mode of the specification as NumPy sees the key element. -/
def toNPart (r : Nat × List Nat × Bool) : NPart :=
  if r.2.2 then .slice r.2.1 else .int (r.2.1.headD 0)

theorem part_simple_int_none (i : Int) :
    (do let x ← Dense.newExtent none (.int i); let np ← npPart x (.int i); pure (x, np) : Except Reject (Nat × NPart)) =
    (MArr.regionPart 0 true true (.int i)).map (fun r => (r.1, toNPart r)) := by
  simp only [Dense.newExtent, Dense.sliceCheck, npPart, MArr.regionPart, bind, Except.bind, pure, Except.pure,
    Except.map]
  by_cases hi : 0 ≤ i
  · have h0 : ¬ (i + 1 < 0) := by omega
    have h1 : ¬ i < 0 := by omega
    have h2 : (0 ≤ i ∧ i < (((i + 1)).toNat : Int)) := by omega
    simp only [hi, h0, h1, if_true, if_false, h2, and_self, or_true, toNPart]
    simp
    omega
  · have h1 : i < 0 := by omega
    have h3 : ¬ (0 ≤ i + ((0 : Nat) : Int)) := by omega
    simp only [hi, if_false, h3]
    by_cases h0 : i + 1 < 0
    · simp [h0]
    · have hz : (i + 1).toNat = 0 := by omega
      have : ¬ (0 ≤ i + ((0 : Nat) : Int) ∧ i + ((0 : Nat) : Int) < ((0 : Nat) : Int)) := by omega
      simp [h0, hz, h1, hi]

theorem part_simple_slice_some (e : Nat) (a b c : Option Int) :
    (do let x ← Dense.newExtent (some e) (.slice a b c); let np ← npPart x (.slice a b c); pure (x, np) : Except Reject (Nat × NPart)) =
    (MArr.regionPart e false true (.slice a b c)).map (fun r => (r.1, toNPart r)) := by
  simp only [Dense.newExtent, Dense.sliceCheck, npPart, MArr.regionPart, MArr.sliceExtent, bind, Except.bind, pure,
    Except.pure, Except.map]
  cases b with
  | none =>
    have h0 : ¬ (max (e : Int) ((e : Int) - 1 + 1) < 0) := by omega
    have he : (max (e : Int) ((e : Int) - 1 + 1)).toNat = e := by omega
    simp only [h0, if_false, he, if_true]
    rcases hs : pySlice e a none c with _ | l <;> simp [hs, toNPart]
  | some b =>
    have h0 : ¬ (max (e : Int) (b - 1 + 1) < 0) := by omega
    simp only [h0, if_false, if_true]
    by_cases hb : 0 ≤ b
    · have he : (max (e : Int) (b - 1 + 1)).toNat = max e b.toNat := by omega
      simp only [hb, if_true, he]
      rcases hs : pySlice (max e b.toNat) a (some b) c with _ | l <;> simp [hs, toNPart]
    · have he : (max (e : Int) (b - 1 + 1)).toNat = e := by omega
      simp only [hb, if_false, he]
      rcases hs : pySlice e a (some b) c with _ | l <;> simp [hs, toNPart]

theorem part_simple_slice_none (a b c : Option Int) :
    (do let x ← Dense.newExtent none (.slice a b c); let np ← npPart x (.slice a b c); pure (x, np) : Except Reject (Nat × NPart)) =
    (MArr.regionPart 0 true true (.slice a b c)).map (fun r => (r.1, toNPart r)) := by
  simp only [Dense.newExtent, Dense.sliceCheck, npPart, MArr.regionPart, MArr.sliceExtent, bind, Except.bind, pure,
    Except.pure, Except.map]
  cases b with
  | none =>
    simp only [if_true]
    have : ¬ ((0 : Int) + 1 < 0) := by omega
    simp only [this, if_false]
    have h1 : ((0 : Int) + 1).toNat = 1 := by omega
    rw [h1]
    rcases hs : pySlice 1 a none c with _ | l <;> simp [hs, toNPart]
  | some b =>
    simp only [if_true]
    by_cases hb : 0 ≤ b
    · have h0 : ¬ (b - 1 + 1 < 0) := by omega
      have he : (b - 1 + 1).toNat = max 0 b.toNat := by omega
      simp only [h0, hb, if_true, if_false, he]
      rcases hs : pySlice (max 0 b.toNat) a (some b) c with _ | l <;> simp [hs, toNPart]
    · have h0 : (b - 1 + 1 < 0) := by omega
      have h1 : b < 0 := by omega
      simp [h1, hb]

theorem part_simple_int_some (e : Nat) (i : Int) :
    (do let x ← Dense.newExtent (some e) (.int i); let np ← npPart x (.int i); pure (x, np) : Except Reject (Nat × NPart)) =
    (MArr.regionPart e false true (.int i)).map (fun r => (r.1, toNPart r)) := by
  simp only [Dense.newExtent, Dense.sliceCheck, npPart, MArr.regionPart, bind, Except.bind, pure, Except.pure,
    Except.map]
  have hraw : ¬ (max (e : Int) (i + 1) < 0) := by omega
  rw [if_neg hraw]
  by_cases hi : 0 ≤ i
  · have h1 : ¬ i < 0 := by omega
    have h2 : (0 ≤ i ∧ i < ((max (e : Int) (i + 1)).toNat : Int)) := by omega
    simp only [hi, h1, if_true, if_false, h2, and_self, or_true, toNPart]
    simp
    omega
  · have h1 : i < 0 := by omega
    have he : (max (e : Int) (i + 1)).toNat = e := by omega
    simp only [hi, h1, if_true, if_false, he]
    by_cases h3 : 0 ≤ i + (e : Int)
    · have : 0 ≤ i + (e : Int) ∧ i + (e : Int) < (e : Int) := by omega
      simp [h3, this, toNPart]
    · have : ¬ (0 ≤ i + (e : Int) ∧ i + (e : Int) < (e : Int)) := by omega
      simp [h3]

/-- Per key element: the model's growth rule followed by NumPy's resolution of the element
against the new extent is the specification's reading of the element. -/
theorem part_simple (ext : Option Nat) (p : RPart) (hp : p.simple = true) :
    (do let x ← Dense.newExtent ext p; let np ← npPart x p; pure (x, np) : Except Reject (Nat × NPart)) =
    (MArr.regionPart (ext.getD 0) ext.isNone true p).map (fun r => (r.1, toNPart r)) := by
  cases p with
  | list is => simp [RPart.simple] at hp
  | int i => cases ext with
    | none => exact part_simple_int_none i
    | some e => exact part_simple_int_some e i
  | slice a b c => cases ext with
    | none => exact part_simple_slice_none a b c
    | some e => exact part_simple_slice_some e a b c


theorem except_bind_swap {A B C D E : Type} (a : Except Reject A) (b : Except Reject B)
    (c : A → Except Reject C) (d : B → Except Reject D) (k : A → B → C → D → E) :
    (do let x ← a; let y ← b; let z ← c x; let w ← d y; pure (k x y z w) : Except Reject E) =
    (do let xz ← (do let x ← a; let z ← c x; pure (x, z) : Except Reject (A × C))
        let yw ← (do let y ← b; let w ← d y; pure (y, w) : Except Reject (B × D))
        pure (k xz.1 yw.1 xz.2 yw.2)) := by
  rcases a with ⟨⟨⟩⟩ | x
  · rfl
  · rcases b with ⟨⟨⟩⟩ | y
    · simp only [bind, Except.bind, pure, Except.pure]
      rcases c x with ⟨⟨⟩⟩ | z <;> rfl
    · simp only [bind, Except.bind, pure, Except.pure]
      rcases c x with ⟨⟨⟩⟩ | z
      · rfl
      · rcases d y with ⟨⟨⟩⟩ | w <;> rfl

/-- Whole key: growth rule + NumPy resolution = the specification's reading of the region. -/
theorem region_simple (s : List Nat) (parts : List RPart) (hp : parts.all RPart.simple = true) :
    (do let s' ← Dense.newSizeParts s parts; let ps ← npParts s' parts; pure (s', ps) :
        Except Reject (List Nat × List NPart)) =
    (MArr.regionParts true s parts).map (fun rs => (rs.map (·.1), rs.map toNPart)) := by
  induction parts generalizing s with
  | nil =>
    cases s with
    | nil => rfl
    | cons e es => rfl
  | cons p ps ih =>
    simp only [List.all_cons, Bool.and_eq_true] at hp
    cases s with
    | nil =>
      have h1 := part_simple none p hp.1
      have h2 := ih [] hp.2
      simp only [Option.getD_none, Option.isNone_none] at h1
      have swap := except_bind_swap (Dense.newExtent none p) (Dense.newSizeParts [] ps)
        (fun x => npPart x p) (fun es => npParts es ps) (fun x es np nps => (x :: es, np :: nps))
      calc (do let s' ← Dense.newSizeParts [] (p :: ps); let qs ← npParts s' (p :: ps); pure (s', qs) :
              Except Reject (List Nat × List NPart))
          = (do let x ← Dense.newExtent none p; let es ← Dense.newSizeParts [] ps
                let np ← npPart x p; let nps ← npParts es ps; pure (x :: es, np :: nps)) := by
            simp only [Dense.newSizeParts, npParts, bind, Except.bind, pure, Except.pure]
            rcases Dense.newExtent none p with ⟨⟨⟩⟩ | x
            · rfl
            · rcases Dense.newSizeParts [] ps with ⟨⟨⟩⟩ | es
              · rfl
              · simp only [npParts, bind, Except.bind, pure, Except.pure]
                rcases npPart x p with ⟨⟨⟩⟩ | np
                · rfl
                · rcases npParts es ps with ⟨⟨⟩⟩ | nps <;> rfl
        _ = _ := by
            rw [swap, h1, h2]
            simp only [MArr.regionParts, Bool.not_true, Bool.false_eq_true, ↓reduceIte, bind, Except.bind, pure,
              Except.pure, Except.map]
            rcases MArr.regionPart 0 true true p with ⟨⟨⟩⟩ | r
            · rfl
            · rcases MArr.regionParts true [] ps with ⟨⟨⟩⟩ | rs <;> rfl
    | cons e es =>
      have h1 := part_simple (some e) p hp.1
      have h2 := ih es hp.2
      simp only [Option.getD_some, Option.isNone_some] at h1
      have swap := except_bind_swap (Dense.newExtent (some e) p) (Dense.newSizeParts es ps)
        (fun x => npPart x p) (fun es' => npParts es' ps) (fun x es' np nps => (x :: es', np :: nps))
      calc (do let s' ← Dense.newSizeParts (e :: es) (p :: ps); let qs ← npParts s' (p :: ps); pure (s', qs) :
              Except Reject (List Nat × List NPart))
          = (do let x ← Dense.newExtent (some e) p; let es' ← Dense.newSizeParts es ps
                let np ← npPart x p; let nps ← npParts es' ps; pure (x :: es', np :: nps)) := by
            simp only [Dense.newSizeParts, npParts, bind, Except.bind, pure, Except.pure]
            rcases Dense.newExtent (some e) p with ⟨⟨⟩⟩ | x
            · rfl
            · rcases Dense.newSizeParts es ps with ⟨⟨⟩⟩ | es'
              · rfl
              · simp only [npParts, bind, Except.bind, pure, Except.pure]
                rcases npPart x p with ⟨⟨⟩⟩ | np
                · rfl
                · rcases npParts es' ps with ⟨⟨⟩⟩ | nps <;> rfl
        _ = _ := by
            rw [swap, h1, h2]
            simp only [MArr.regionParts, bind, Except.bind, pure, Except.pure, Except.map]
            rcases MArr.regionPart e false true p with ⟨⟨⟩⟩ | r
            · rfl
            · rcases MArr.regionParts true es ps with ⟨⟨⟩⟩ | rs <;> rfl

/-- A mode that is dropped from the result (an integer) addresses exactly one index. -/
theorem regionPart_dropped {ext : Nat} {isNew grow : Bool} {p : RPart} {r : Nat × List Nat × Bool}
    (h : MArr.regionPart ext isNew grow p = .ok r) (hk : r.2.2 = false) : r.2.1 = [r.2.1.headD 0] := by
  cases p with
  | int i =>
    simp only [MArr.regionPart] at h
    split at h
    · split at h
      · cases h; rfl
      · cases h
    · split at h
      · cases h; rfl
      · cases h
  | list is =>
    simp only [MArr.regionPart] at h
    split at h
    · cases h
    · split at h
      · cases h; cases hk
      · cases h
  | slice a b c =>
    simp only [MArr.regionPart, bind, Except.bind] at h
    split at h
    · cases h
    · split at h
      · cases h
      · cases h; cases hk

theorem regionParts_dropped {grow : Bool} {s : List Nat} {parts : List RPart} {rs : List (Nat × List Nat × Bool)}
    (h : MArr.regionParts grow s parts = .ok rs) : ∀ r ∈ rs, r.2.2 = false → r.2.1 = [r.2.1.headD 0] := by
  induction parts generalizing s rs with
  | nil =>
    cases s with
    | nil => simp [MArr.regionParts] at h; subst h; simp
    | cons e es => simp [MArr.regionParts] at h
  | cons p ps ih =>
    cases s with
    | nil =>
      simp only [MArr.regionParts] at h
      cases grow with
      | false => simp [bind, Except.bind] at h
      | true =>
        simp only [Bool.not_true, Bool.false_eq_true, ↓reduceIte, bind, Except.bind, pure, Except.pure] at h
        cases h1 : MArr.regionPart 0 true true p with
        | error e => rw [h1] at h; cases h
        | ok r =>
          rw [h1] at h
          cases h2 : MArr.regionParts true [] ps with
          | error e => rw [h2] at h; cases h
          | ok rs' =>
            rw [h2] at h
            cases h
            intro r' hr'
            rcases List.mem_cons.1 hr' with rfl | hr''
            · exact regionPart_dropped h1
            · exact ih h2 r' hr''
    | cons e es =>
      simp only [MArr.regionParts, bind, Except.bind, pure, Except.pure] at h
      cases h1 : MArr.regionPart e false grow p with
      | error e' => rw [h1] at h; cases h
      | ok r =>
        rw [h1] at h
        cases h2 : MArr.regionParts grow es ps with
        | error e' => rw [h2] at h; cases h
        | ok rs' =>
          rw [h2] at h
          cases h
          intro r' hr'
          rcases List.mem_cons.1 hr' with rfl | hr''
          · exact regionPart_dropped h1
          · exact ih h2 r' hr''

theorem outerF_length (ls : List (List Nat)) : (outerF ls).length = numel (ls.map List.length) := by
  induction ls with
  | nil => rfl
  | cons l ls ih =>
    simp only [outerF, List.map_cons, numel_cons, List.length_flatMap, List.length_map]
    rw [← ih]
    generalize outerF ls = o
    induction o with
    | nil => simp
    | cons a o iho => simp [iho, Nat.mul_succ, Nat.add_comm]

theorem numel_keptShape (rs : List (Nat × List Nat × Bool))
    (hd : ∀ r ∈ rs, r.2.2 = false → r.2.1 = [r.2.1.headD 0]) :
    numel (MArr.keptShape rs) = numel ((rs.map (·.2.1)).map List.length) := by
  induction rs with
  | nil => rfl
  | cons r rs ih =>
    have ih' := ih (fun r' hr' => hd r' (by simp [hr']))
    unfold MArr.keptShape at *
    cases hk : r.2.2 with
    | true => simp [hk, ih']
    | false =>
      have h1 := hd r (by simp) hk
      have : r.2.1.length = 1 := by rw [h1]; rfl
      simp [hk, ih', this]

theorem npIndex_simple (rs : List (Nat × List Nat × Bool))
    (hd : ∀ r ∈ rs, r.2.2 = false → r.2.1 = [r.2.1.headD 0]) :
    npIndex (rs.map toNPart) = .ok (MArr.keptShape rs, outerF (rs.map (·.2.1))) := by
  have hnl : (rs.map toNPart).any NPart.isList = false := by
    rw [List.any_eq_false]
    intro q hq
    obtain ⟨r, _, rfl⟩ := List.mem_map.1 hq
    unfold toNPart
    split <;> simp [NPart.isList]
  unfold npIndex
  simp only [hnl, Bool.not_false, ↓reduceIte]
  congr 2
  · unfold MArr.keptShape
    induction rs with
    | nil => rfl
    | cons r rs ih =>
      have ih' := ih (fun r' hr' => hd r' (by simp [hr']))
        (by rw [List.any_eq_false] at *; intro q hq; exact hnl q (by simp [hq]))
      unfold sliceLens at ih' ⊢
      cases hk : r.2.2 <;>
        simp only [List.map_cons, toNPart, hk, Bool.false_eq_true, ↓reduceIte, List.filterMap_cons,
          NPart.sliceLen?, List.filter_cons, ih']
  · congr 1
    rw [List.map_map]
    apply List.map_congr_left
    intro r hr
    simp only [Function.comp, toNPart]
    cases hk : r.2.2 with
    | true => simp
    | false => simp only [Bool.false_eq_true, ↓reduceIte]; exact (hd r hr hk).symm

/-! ### right-hand sides of a region write -/

theorem broadcast_index_id (ks j : List Nat) (hj : InBounds ks j) :
    ((List.range ks.length).map fun d => if ks.getD d 0 == 1 then 0 else j.getD (0 + d) 0) = j := by
  have hl := hj.length_eq
  apply List.ext_getElem
  · simp [hl]
  · intro d h1 h2
    have hd : d < ks.length := by simpa using h1
    have hlt := hj.getD_lt' d hd
    simp only [List.getElem_map, List.getElem_range, Nat.zero_add]
    have hjd : j.getD d 0 = j[d] := by simp [List.getD_eq_getElem?_getD, List.getElem?_eq_getElem h2]
    rw [hjd] at hlt ⊢
    by_cases h1' : ks.getD d 0 = 1
    · simp only [h1', beq_self_eq_true, if_true]
      omega
    · have : (ks.getD d 0 == 1) = false := by simpa using h1'
      simp only [this, Bool.false_eq_true, if_false]

/-- An array (or tensor) whose shape is exactly the shape of the indexed result is
assigned cell by cell in F order: NumPy's broadcast is the identity. -/
theorem npBroadcast_go_exact [Zero α] (T : Dense α) (ks : List Nat) (hs : T.shape = ks) :
    (let extra := T.shape.length - ks.length
     let vs := if (T.shape.take extra).all (· == 1) then T.shape.drop extra else T.shape
     if vs.length > ks.length ∨ numel vs ≠ T.data.length then (Except.error Reject.reject : Except Reject (List α))
     else
       let pad := ks.length - vs.length
       if (List.range vs.length).any fun d => vs.getD d 0 != ks.getD (pad + d) 0 && vs.getD d 0 != 1 then
         .error .reject
       else
         let V : Dense α := ⟨vs, T.data⟩
         .ok ((allSubs ks).map fun j =>
           V.get ((List.range vs.length).map fun d => if vs.getD d 0 == 1 then 0 else j.getD (pad + d) 0))) =
    if T.data.length = numel ks then .ok T.data else .error .reject := by
  subst hs
  simp only [Nat.sub_self, List.take_zero, List.all_nil, if_true, List.drop_zero, Nat.lt_irrefl, false_or]
  by_cases hl : T.data.length = numel T.shape
  · have hne : ¬ numel T.shape ≠ T.data.length := fun h => h hl.symm
    rw [if_neg hne, if_pos hl]
    have hany : ((List.range T.shape.length).any fun d =>
        T.shape.getD d 0 != T.shape.getD (0 + d) 0 && T.shape.getD d 0 != 1) = false := by
      rw [List.any_eq_false]; intro d _; simp
    rw [if_neg (by rw [hany]; simp)]
    congr 1
    have hwf : (⟨T.shape, T.data⟩ : Dense α).WF := hl
    conv => rhs; rw [show T.data = (⟨T.shape, T.data⟩ : Dense α).data from rfl, Dense.data_eq_map_get _ hwf]
    apply List.map_congr_left
    intro j hj
    rw [broadcast_index_id T.shape j (mem_allSubs.1 hj)]
  · have hne : numel T.shape ≠ T.data.length := fun h => hl h.symm
    rw [if_pos hne, if_neg hl]

/-- the right-hand side of a region write is a scalar, or an array / tensor whose shape is
exactly the shape of the region (`ks`) -/
def Rhs.fitsRegion (rhs : Rhs α) (ks : List Nat) : Bool :=
  match rhs with
  | .scalar _ => true
  | .col _ => false
  | .arr T => decide (T.shape = ks)
  | .tensor T => decide (T.shape = ks)

theorem npBroadcast_fits [Zero α] (rhs : Rhs α) (ks : List Nat) (n : Nat) (hn : n = numel ks)
    (hf : rhs.fitsRegion ks = true) : npBroadcast rhs ks = MArr.regionValues rhs ks n := by
  subst hn
  cases rhs with
  | scalar v => rfl
  | col vs => simp [Rhs.fitsRegion] at hf
  | arr T =>
    have hs : T.shape = ks := by simpa [Rhs.fitsRegion] using hf
    simp only [npBroadcast, MArr.regionValues]
    rw [npBroadcast_go_exact T ks hs]
    by_cases hl : T.data.length = numel ks
    · simp [hs, hl]
    · simp [hl]
  | tensor T =>
    have hs : T.shape = ks := by simpa [Rhs.fitsRegion] using hf
    simp only [npBroadcast, MArr.regionValues]
    rw [npBroadcast_go_exact T ks hs]
    by_cases hl : T.data.length = numel ks
    · simp [hs, hl]
    · simp [hl]

/-- the right-hand side fits the region the key addresses (when the key resolves at all) -/
def rhsFits (s : List Nat) (parts : List RPart) (rhs : Rhs α) : Bool :=
  match MArr.regionParts true s parts with
  | .ok rs => rhs.fitsRegion (MArr.keptShape rs)
  | .error _ => true

/-- `_set_subtensor` with an integer/slice key computes the specification's new shape and
assignments, for a scalar and for an array / tensor of the region's shape. -/
theorem Dense.setSubtensor_eq [Zero α] (T : Dense α) (parts : List RPart) (rhs : Rhs α)
    (hp : parts.all RPart.simple = true) (hne : parts ≠ []) (hfit : rhsFits T.shape parts rhs = true) :
    T.setSubtensor parts rhs =
      (MArr.resolveWrite T.shape (.region parts) rhs).map fun r => (T.resize r.1).scatter r.2 := by
  have hreg := region_simple T.shape parts hp
  have hemp : parts.isEmpty = false := by cases parts <;> simp_all
  simp only [Dense.setSubtensor, MArr.resolveWrite, hemp, Bool.false_eq_true, ↓reduceIte]
  cases hr : MArr.regionParts true T.shape parts with
  | error e =>
    rw [hr] at hreg
    simp only [Except.map, bind, Except.bind, pure, Except.pure] at hreg ⊢
    rcases hn : Dense.newSizeParts T.shape parts with ⟨⟨⟩⟩ | s'
    · rfl
    · rw [hn] at hreg
      simp only [Dense.resize_shape] at hreg ⊢
      rcases hq : npParts s' parts with ⟨⟨⟩⟩ | ps
      · rfl
      · rw [hq] at hreg; cases hreg
  | ok rs =>
    rw [hr] at hreg
    simp only [Except.map, bind, Except.bind, pure, Except.pure] at hreg ⊢
    have hd := regionParts_dropped hr
    have hfit' : rhs.fitsRegion (MArr.keptShape rs) = true := by
      unfold rhsFits at hfit; rw [hr] at hfit; exact hfit
    rcases hn : Dense.newSizeParts T.shape parts with ⟨⟨⟩⟩ | s'
    · rw [hn] at hreg; cases hreg
    · rw [hn] at hreg
      simp only [Dense.resize_shape] at hreg ⊢
      rcases hq : npParts s' parts with ⟨⟨⟩⟩ | ps
      · rw [hq] at hreg; cases hreg
      · rw [hq] at hreg
        simp only [Except.ok.injEq, Prod.mk.injEq] at hreg
        obtain ⟨rfl, rfl⟩ := hreg
        simp only [npIndex_simple rs hd]
        rw [npBroadcast_fits rhs (MArr.keptShape rs) (outerF (rs.map (·.2.1))).length
          (by rw [outerF_length, numel_keptShape rs hd]) hfit']
        cases MArr.regionValues rhs (MArr.keptShape rs) (outerF (rs.map (·.2.1))).length <;> rfl

/-! ### reads -/

theorem subsubsref_eq_vecOut (vals : List α) : Dense.subsubsref vals = MArr.vecOut vals := by
  cases vals with
  | nil => rfl
  | cons a t => cases t <;> rfl

theorem DRel.map_get [Zero α] {T : Dense α} {m : MArr α} (h : DRel T m) (l : List (List Nat))
    (hl : ∀ x ∈ l, InBounds T.shape x) : l.map T.get = l.map m.get :=
  List.map_congr_left fun x hx => h.cell x (hl x hx)

/-- Reading an array of full subscripts. -/
theorem Dense.getItem_subs [Zero α] {T : Dense α} {m : MArr α} (h : DRel T m) (rows : List (List Nat)) :
    T.getItem (.subs rows) = m.read (.subs rows) := by
  cases rows with
  | nil => rfl
  | cons r0 rest =>
    simp only [Dense.getItem, MArr.read, List.isEmpty_cons, Bool.false_eq_true, false_or, ← h.shape]
    by_cases hb : ((r0 :: rest).any fun r => !inBounds T.shape r) = true
    · simp [hb]
    · simp only [hb, Bool.false_eq_true, ↓reduceIte, subsubsref_eq_vecOut]
      rw [h.map_get]
      intro x hx
      rw [Bool.not_eq_true, List.any_eq_false] at hb
      have := hb x hx
      rw [← inBounds_iff]
      simpa using this

/-- Reading through linear indices. -/
theorem Dense.getItem_linear [Zero α] {T : Dense α} {m : MArr α} (h : DRel T m) (hs : T.shape ≠ [])
    (key : Key) (hk : ∀ rows, key ≠ .subs rows) (hk' : ∀ parts, key ≠ .region parts) :
    T.getItem key = m.read key := by
  have tail : ∀ idx : List Int,
      (do let subs ← ttInd2sub T.shape idx
          Except.ok (Dense.subsubsref (subs.map T.get)) : Except Reject (ReadOut α)) =
      (do let targets ← MArr.linTargets T.shape idx
          Except.ok (MArr.vecOut (targets.map m.get))) := by
    intro idx
    rw [ttInd2sub_eq_linTargets hs]
    cases ht : MArr.linTargets T.shape idx with
    | error e => rfl
    | ok t =>
      simp only [bind, Except.bind, subsubsref_eq_vecOut]
      rw [h.map_get t (linTargets_inBounds ht)]
  cases key with
  | subs rows => exact absurd rfl (hk rows)
  | region parts => exact absurd rfl (hk' parts)
  | lin i =>
    simp only [Dense.getItem, MArr.read, MArr.linIdx, ← h.shape, bind, Except.bind, pure, Except.pure]
    exact tail [i]
  | linList is =>
    simp only [Dense.getItem, MArr.read, MArr.linIdx, ← h.shape, bind, Except.bind, pure, Except.pure]
    exact tail is
  | linSlice a b c =>
    simp only [Dense.getItem, MArr.read, MArr.linIdx, ← h.shape, cells_eq_numel hs]
    cases pySlice (numel T.shape) a b c with
    | error e => rfl
    | ok l => exact tail (l.map Int.ofNat)

theorem npPart_simple (e : Nat) (p : RPart) (hp : p.simple = true) :
    npPart e p = (MArr.regionPart e false false p).map toNPart := by
  cases p with
  | list is => simp [RPart.simple] at hp
  | int i =>
    simp only [npPart, MArr.regionPart, Except.map]
    by_cases hi : 0 ≤ i
    · have h1 : ¬ i < 0 := by omega
      simp only [hi, h1, if_true, if_false, Bool.false_eq_true, or_false]
      by_cases h2 : i.toNat < e
      · have : 0 ≤ i ∧ i < (e : Int) := by omega
        simp [h2, this, toNPart]
      · have : ¬ (True ∧ i < (e : Int)) := by omega
        rw [if_neg this]
        simp [h2]
    · have h1 : i < 0 := by omega
      simp only [hi, h1, if_true, if_false]
      by_cases h3 : 0 ≤ i + (e : Int)
      · have : 0 ≤ i + (e : Int) ∧ i + (e : Int) < (e : Int) := by omega
        simp [h3, this, toNPart]
      · have : ¬ (0 ≤ i + (e : Int) ∧ i + (e : Int) < (e : Int)) := by omega
        rw [if_neg this]
        simp [h3]
  | slice a b c =>
    simp only [npPart, MArr.regionPart, MArr.sliceExtent, Bool.false_eq_true, ↓reduceIte, bind, Except.bind,
      Except.map]
    rcases hs : pySlice e a b c with _ | l <;> simp [toNPart]

theorem npParts_simple (s : List Nat) (parts : List RPart) (hp : parts.all RPart.simple = true)
    (hl : parts.length = s.length) :
    npParts s parts = (MArr.regionParts false s parts).map (fun rs => rs.map toNPart) := by
  induction parts generalizing s with
  | nil =>
    cases s with
    | nil => rfl
    | cons e es => simp at hl
  | cons p ps ih =>
    simp only [List.all_cons, Bool.and_eq_true] at hp
    cases s with
    | nil => simp at hl
    | cons e es =>
      simp only [npParts, MArr.regionParts, npPart_simple e p hp.1, ih es hp.2 (by simpa using hl), bind,
        Except.bind, pure, Except.pure, Except.map]
      rcases MArr.regionPart e false false p with ⟨⟨⟩⟩ | r
      · rfl
      · rcases MArr.regionParts false es ps with ⟨⟨⟩⟩ | rs <;> rfl

theorem regionPart_read_extent {ext : Nat} {isNew : Bool} {p : RPart} {r : Nat × List Nat × Bool}
    (h : MArr.regionPart ext isNew false p = .ok r) : r.1 = ext := by
  cases p with
  | int i =>
    simp only [MArr.regionPart, Bool.false_eq_true, or_false] at h
    split at h
    · split at h
      · cases h; show max ext (i.toNat + 1) = ext; omega
      · cases h
    · split at h
      · cases h; rfl
      · cases h
  | list is =>
    simp only [MArr.regionPart, Bool.false_eq_true, or_false] at h
    split at h
    · cases h
    · split at h
      · cases h; show max ext (maxNat is + 1) = ext; omega
      · cases h
  | slice a b c =>
    simp only [MArr.regionPart, MArr.sliceExtent, Bool.false_eq_true, ↓reduceIte, bind, Except.bind] at h
    split at h
    · cases h
    · cases h; rfl

theorem regionParts_read_shape {s : List Nat} {parts : List RPart} {rs : List (Nat × List Nat × Bool)}
    (h : MArr.regionParts false s parts = .ok rs) : rs.map (·.1) = s := by
  induction parts generalizing s rs with
  | nil =>
    cases s with
    | nil => simp [MArr.regionParts] at h; subst h; rfl
    | cons e es => simp [MArr.regionParts] at h
  | cons p ps ih =>
    cases s with
    | nil => simp [MArr.regionParts, bind, Except.bind] at h
    | cons e es =>
      simp only [MArr.regionParts, bind, Except.bind, pure, Except.pure] at h
      cases h1 : MArr.regionPart e false false p with
      | error e' => rw [h1] at h; cases h
      | ok r =>
        rw [h1] at h
        cases h2 : MArr.regionParts false es ps with
        | error e' => rw [h2] at h; cases h
        | ok rs' =>
          rw [h2] at h
          cases h
          simp [regionPart_read_extent h1, ih h2]

/-- Reading an integer/slice region. -/
theorem Dense.getItem_region [Zero α] {T : Dense α} {m : MArr α} (h : DRel T m) (parts : List RPart)
    (hp : parts.all RPart.simple = true) (hne : parts ≠ []) :
    T.getItem (.region parts) = m.read (.region parts) := by
  have hemp : parts.isEmpty = false := by cases parts <;> simp_all
  simp only [Dense.getItem, MArr.read, hemp, Bool.false_eq_true, ↓reduceIte, ← h.shape]
  by_cases hl : parts.length = T.shape.length
  · simp only [hl, ne_eq, not_true_eq_false, ↓reduceIte, npParts_simple T.shape parts hp hl]
    cases hr : MArr.regionParts false T.shape parts with
    | error e => rfl
    | ok rs =>
      have hd := regionParts_dropped hr
      simp only [Except.map, bind, Except.bind, npIndex_simple rs hd]
      have hin : ∀ x ∈ outerF (rs.map (·.2.1)), InBounds T.shape x := by
        have := outerF_inBounds rs (regionParts_lt hr)
        rw [regionParts_read_shape hr] at this
        exact this
      rw [h.map_get _ hin]
      have hkeep : (rs.map toNPart).any NPart.keeps = !(MArr.keptShape rs).isEmpty := by
        unfold MArr.keptShape
        clear hin hd hr
        induction rs with
        | nil => rfl
        | cons r rs ih => cases hk : r.2.2 <;> simp [toNPart, NPart.keeps, hk, ih]
      rw [hkeep]
      cases hks : MArr.keptShape rs with
      | nil =>
        have hlen : (outerF (rs.map (·.2.1))).length = 1 := by
          rw [outerF_length, ← numel_keptShape rs hd, hks]; rfl
        simp only [List.isEmpty_nil, Bool.not_true, Bool.false_eq_true, ↓reduceIte]
        obtain ⟨x, ho⟩ : ∃ x, outerF (rs.map (·.2.1)) = [x] := by
          generalize outerF (rs.map (·.2.1)) = o at hlen
          match o, hlen with
          | [x], _ => exact ⟨x, rfl⟩
        rw [ho]
        simp
      | cons k ks => simp
  · have hne' : ¬ parts.length = T.shape.length := hl
    simp only [ne_eq, hne', not_false_eq_true, ↓reduceIte]
    cases hr : MArr.regionParts false T.shape parts with
    | error e => rfl
    | ok rs =>
      have h1 := regionParts_length hr
      have h2 := congrArg List.length (regionParts_read_shape hr)
      simp only [List.length_map] at h2
      omega

end Pyttb
