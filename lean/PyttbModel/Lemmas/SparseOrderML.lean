/-
C06 for the sparse multilinear kernels (`ttv`, `collapse`, `contract`, `scale`, `ttm` of
Ops/MultilinearSparse — property C02's models): results are well-formed, and reordering the
stored entries of the operand changes neither the array the result denotes nor, for a sparse
result, the set of stored (subscript, value) pairs.
-/
import PyttbModel.Lemmas.SparseOrderIndep
import PyttbModel.Lemmas.MLSparseCollapse
import PyttbModel.Lemmas.MLSparseTtm
import PyttbModel.Lemmas.MLTtvUser
namespace Pyttb
variable {α : Type}

/-! ### generic facts -/

theorem Reorder.den_eq [AddCommMonoid α] {S' S : Sparse α} (h : Reorder S' S) : S'.den = S.den := by
  unfold Sparse.den
  congr 1
  · exact h.1
  · funext i; exact denote_perm h i

/-- Two well-formed sparse tensors of one shape that denote the same array store the same
(subscript, value) pairs, possibly in another order. -/
theorem reorder_of_get_eq [AddMonoid α] [DecidableEq α] (R R' : Sparse α) (hR : R.WF) (hR' : R'.WF)
    (hsh : R'.shape = R.shape) (hg : ∀ i, InBounds R.shape i → R'.get i = R.get i) : Reorder R' R := by
  have hg' : ∀ i, R'.get i = R.get i := by
    intro i
    by_cases hi : InBounds R.shape i
    · exact hg i hi
    · rw [R.get_of_not_inBounds hR i hi, R'.get_of_not_inBounds hR' i (by rw [hsh]; exact hi)]
  refine ⟨hsh, hR'.len, ?_⟩
  rw [R'.entries_eq_map_get hR', R.entries_eq_map_get hR]
  have hp : R'.subs.Perm R.subs := by
    rw [List.perm_ext_iff_of_nodup hR'.nodup hR.nodup]
    intro i
    rw [← R'.get_ne_zero_iff hR' i, ← R.get_ne_zero_iff hR i, hg' i]
  have : R'.subs.map (fun j => (j, R'.get j)) = R'.subs.map (fun j => (j, R.get j)) := by
    apply List.map_congr_left
    intro j _
    rw [hg' j]
  rw [this]
  exact hp.map _

/-- well-formedness of a result of a kernel that may hand back a scalar, a vector, a dense or
a sparse tensor. -/
def ResWF [Zero α] [BEq α] : ML.Res α → Prop
  | .sparse s => s.WF
  | .dense t => t.WF
  | _ => True

/-- results of the same kernel for reordered operands: same shape, same entries, and for two
sparse results the same stored pairs. -/
def ResSame [Add α] [Zero α] (r' r : ML.Res α) : Prop :=
  r'.shape = r.shape ∧ (∀ i, InBounds r.shape i → r'.get i = r.get i) ∧
  match r', r with
  | .sparse s', .sparse s => Reorder s' s
  | _, _ => True

theorem resSame_of [AddMonoid α] [DecidableEq α] (r r' : ML.Res α) (hw : ResWF r) (hw' : ResWF r')
    (hsh : r'.shape = r.shape) (hg : ∀ i, InBounds r.shape i → r'.get i = r.get i) : ResSame r' r := by
  refine ⟨hsh, hg, ?_⟩
  cases r' <;> cases r <;> try trivial
  exact reorder_of_get_eq _ _ hw hw' hsh hg

/-! ### the aggregating primitive of the kernels -/

theorem mlAgg_wf [Zero α] [DecidableEq α] (subs : List (List Nat)) (vals : List α) (shape : List Nat)
    (f : List α → α) (hin : ∀ r ∈ subs, InBounds shape r) : (ML.fromAggregator subs vals shape f).WF := by
  have hnd := ML.fromAggregator_nodup subs vals shape f
  unfold ML.fromAggregator at hnd ⊢
  simp only [Sparse.entries, ML.zip_fst_snd] at hnd
  refine ⟨by simp, ?_, hnd, ?_⟩
  · intro i hi
    simp only [List.mem_map, List.mem_filter] at hi
    obtain ⟨e, ⟨he, _⟩, rfl⟩ := hi
    obtain ⟨r, hr, rfl⟩ := he
    exact hin r ((ML.mem_uniqueRowsSorted subs r).1 hr)
  · intro v hv
    simp only [List.mem_map, List.mem_filter] at hv
    obtain ⟨e, ⟨_, hz⟩, rfl⟩ := hv
    simpa using hz

theorem empty_wf [Zero α] [BEq α] (s : List Nat) : (⟨s, [], []⟩ : Sparse α).WF :=
  ⟨rfl, by simp, by simp, by simp⟩

theorem inBounds_gather_of_wf [Zero α] [BEq α] (S : Sparse α) (hS : S.WF) (sel : List Nat) :
    ∀ r ∈ S.subs.map (fun r => gather r (complDims S.shape.length sel)),
      InBounds (gather S.shape (complDims S.shape.length sel)) r := by
  intro r hr
  obtain ⟨j, hj, rfl⟩ := List.mem_map.1 hr
  apply (hS.inb j hj).gather
  intro k hk
  unfold complDims at hk
  exact List.mem_range.1 (List.mem_filter.1 hk).1

/-! ### `ttv` -/

section ttv
variable [CommSemiring α] [DecidableEq α]

theorem accumarray_length {α' : Type} [Zero α'] (idx : List Nat) (vals : List α') (n : Nat) (f : List α' → α') :
    (ML.accumarray idx vals n f).length = n := by
  simp [ML.accumarray]

/-- whatever `ttv` returns for a well-formed operand is well-formed. -/
theorem ttvCore_wf (S : Sparse α) (hS : S.WF) (pairs : List (Nat × List α)) (r : ML.Res α)
    (h : S.ttvCore pairs = .ok r) : ResWF r := by
  unfold Sparse.ttvCore at h
  simp only at h
  split at h
  · cases h
  · split at h
    · cases h
    · split at h
      · cases h; trivial
      · split at h
        · split at h
          · cases h; exact empty_wf _
          · split at h
            · cases h
              apply mlAgg_wf
              intro r hr
              obtain ⟨k, hk, rfl⟩ := List.mem_map.1 hr
              rename_i hlen1 _ _
              have hl : (gather S.shape (complDims S.shape.length (pairs.map (·.1)))).length = 1 := by
                simpa using hlen1
              obtain ⟨a, ha⟩ := List.length_eq_one_iff.1 hl
              rw [ha] at hk ⊢
              simp only [List.getD_cons_zero, List.mem_range] at hk
              simp [InBounds, hk]
            · cases h
              rename_i hlen1 _ _
              have hl : (gather S.shape (complDims S.shape.length (pairs.map (·.1)))).length = 1 := by
                simpa using hlen1
              obtain ⟨a, ha⟩ := List.length_eq_one_iff.1 hl
              show (ML.accumarray _ _ _ _).length = numel _
              rw [accumarray_length, ha]
              simp
        · split at h
          · cases h; exact full_wf _
          · cases h
            exact mlAgg_wf _ _ _ _ (inBounds_gather_of_wf S hS _)

end ttv

/-! ### `collapse`, `contract` -/

section cc
variable [CommSemiring α] [DecidableEq α]

theorem collapse_wf (S : Sparse α) (hS : S.WF) (dims : Option (List Int)) (f : List α → α) (r : ML.Res α)
    (h : S.collapse dims f = .ok r) : ResWF r := by
  unfold Sparse.collapse at h
  simp only at h
  split at h
  · cases h
  · split at h
    · cases h; trivial
    · split at h
      · split at h <;> (cases h; trivial)
      · split at h
        · cases h; exact empty_wf _
        · cases h
          exact mlAgg_wf _ _ _ _ (inBounds_gather_of_wf S hS _)

theorem contract_wf (S : Sparse α) (hS : S.WF) (a b : Nat) (r : ML.Res α)
    (h : S.contract a b = .ok r) : ResWF r := by
  unfold Sparse.contract at h
  simp only at h
  split at h
  · cases h
  · split at h
    · cases h
    · split at h
      · cases h
      · split at h
        · split at h
          · cases h; trivial
          · cases h; exact empty_wf _
        · split at h
          · cases h; trivial
          · have hin : ∀ r ∈ ((S.subs.zip S.vals).filter fun e => e.1.getD a 0 == e.1.getD b 0).map
                (fun e => gather e.1 (complDims S.shape.length [a, b])),
                InBounds (gather S.shape (complDims S.shape.length [a, b])) r := by
              intro r hr
              obtain ⟨e, he, rfl⟩ := List.mem_map.1 hr
              have hm : e.1 ∈ S.subs := (List.of_mem_zip (a := e.1) (b := e.2) (List.mem_filter.1 he).1).1
              apply (hS.inb e.1 hm).gather
              intro k hk
              unfold complDims at hk
              exact List.mem_range.1 (List.mem_filter.1 hk).1
            split at h
            · cases h; exact full_wf _
            · cases h; exact mlAgg_wf _ _ _ _ hin

/-! ### reordered operands -/

theorem ttvCore_perm (S S' : Sparse α) (hS : S.WF) (rS : Reorder S' S) (pairs : List (Nat × List α))
    (hnd : (pairs.map (·.1)).Nodup) (hlt : ∀ p ∈ pairs, p.1 < S.shape.length)
    (hlen : ∀ p ∈ pairs, p.2.length = S.shape.getD p.1 0) :
    ∃ r r', S.ttvCore pairs = .ok r ∧ S'.ttvCore pairs = .ok r' ∧ ResWF r ∧ ResWF r' ∧ ResSame r' r := by
  have hS' := wf_perm rS hS
  let w : Nat → Nat → α := fun d k => match pairs.find? (fun p => p.1 == d) with
    | some p => p.2.getD k 0
    | none => 0
  have hw : ∀ p ∈ pairs, ∀ k, w p.1 k = p.2.getD k 0 := by
    intro p hp k
    simp only [w]
    have : pairs.find? (fun q => q.1 == p.1) = some p := by
      clear hlt hlen w
      induction pairs with
      | nil => cases hp
      | cons q qs ih =>
        simp only [List.map_cons, List.nodup_cons] at hnd
        rcases List.mem_cons.1 hp with rfl | hp'
        · simp
        · have : q.1 ≠ p.1 := fun e => hnd.1 (e ▸ List.mem_map.2 ⟨p, hp', rfl⟩)
          have hb : (q.1 == p.1) = false := by simpa using this
          rw [List.find?_cons, hb]
          exact ih hnd.2 hp'
    rw [this]
  obtain ⟨r, e, sh, g⟩ := ML.sparse_ttvCore_spec S hS pairs hnd hlt hlen w hw
  obtain ⟨r', e', sh', g'⟩ := ML.sparse_ttvCore_spec S' hS' pairs hnd (by rw [rS.1]; exact hlt)
    (by rw [rS.1]; exact hlen) w hw
  have hsh : r'.shape = r.shape := by rw [sh, sh', rS.1]
  refine ⟨r, r', e, e', ttvCore_wf S hS pairs r e, ttvCore_wf S' hS' pairs r' e', ?_⟩
  apply resSame_of r r' (ttvCore_wf S hS pairs r e) (ttvCore_wf S' hS' pairs r' e') hsh
  intro i hi
  rw [g i hi, g' i (by rw [hsh]; exact hi), rS.den_eq]

theorem collapse_perm (S S' : Sparse α) (hS : S.WF) (rS : Reorder S' S)
    (dims : Option (List Nat)) (sel : List Nat)
    (hdims : match dims with
      | none => sel = List.range S.shape.length
      | some d => d.Nodup ∧ (∀ x ∈ d, x < S.shape.length) ∧ sel = sdimsOf d)
    (f : List α → α) (hf : ML.ZeroInsensitive f) (hf0 : f [] = 0) :
    ∃ r r', S.collapse (dims.map fun d => d.map Int.ofNat) f = .ok r ∧
      S'.collapse (dims.map fun d => d.map Int.ofNat) f = .ok r' ∧ ResWF r ∧ ResWF r' ∧ ResSame r' r := by
  have hS' := wf_perm rS hS
  obtain ⟨r, e, sh, g⟩ := ML.sparse_collapse_spec S hS dims sel hdims f hf hf0
  obtain ⟨r', e', sh', g'⟩ := ML.sparse_collapse_spec S' hS' dims sel (by rw [rS.1]; exact hdims) f hf hf0
  have hsh : r'.shape = r.shape := by rw [sh, sh', rS.1]
  refine ⟨r, r', e, e', collapse_wf S hS _ f r e, collapse_wf S' hS' _ f r' e', ?_⟩
  apply resSame_of r r' (collapse_wf S hS _ f r e) (collapse_wf S' hS' _ f r' e') hsh
  intro i hi
  rw [g i hi, g' i (by rw [hsh]; exact hi), rS.den_eq]

theorem contract_perm (S S' : Sparse α) (hS : S.WF) (rS : Reorder S' S) (a b : Nat)
    (ha : a < S.shape.length) (hb : b < S.shape.length) (hab : a ≠ b)
    (hsz : S.shape.getD a 0 = S.shape.getD b 0) :
    ∃ r r', S.contract a b = .ok r ∧ S'.contract a b = .ok r' ∧ ResWF r ∧ ResWF r' ∧ ResSame r' r := by
  have hS' := wf_perm rS hS
  obtain ⟨r, e, sh, g⟩ := ML.sparse_contract_spec S hS a b ha hb hab hsz
  obtain ⟨r', e', sh', g'⟩ := ML.sparse_contract_spec S' hS' a b (by rw [rS.1]; exact ha) (by rw [rS.1]; exact hb)
    hab (by rw [rS.1]; exact hsz)
  have hsh : r'.shape = r.shape := by rw [sh, sh', rS.1]
  refine ⟨r, r', e, e', contract_wf S hS a b r e, contract_wf S' hS' a b r' e', ?_⟩
  apply resSame_of r r' (contract_wf S hS a b r e) (contract_wf S' hS' a b r' e') hsh
  intro i hi
  rw [g i hi, g' i (by rw [hsh]; exact hi), rS.den_eq]

theorem scaleWith_perm (S S' : Sparse α) (hS : S.WF) (rS : Reorder S' S) (f : List Nat → α) :
    (S.scaleWith f).WF ∧ (S'.scaleWith f).WF ∧ Reorder (S'.scaleWith f) (S.scaleWith f) := by
  have hS' := wf_perm rS hS
  obtain ⟨sh, w, g⟩ := ML.sparse_scale_get S hS f
  obtain ⟨sh', w', g'⟩ := ML.sparse_scale_get S' hS' f
  refine ⟨w, w', reorder_of_get_eq _ _ w w' (by rw [sh, sh', rS.1]) (fun i _ => ?_)⟩
  rw [g i, g' i, denote_perm rS]

end cc

/-! ### `ttm` (always a dense result) -/

section ttm
variable [CommSemiring α] [DecidableEq α]

theorem full_perm (S S' : Sparse α) (hS : S.WF) (rS : Reorder S' S) : S'.full = S.full := by
  have hS' := wf_perm rS hS
  apply Dense.ext_get (full_wf S') (full_wf S) (by simp [Sparse.full_eq, rS.1])
  intro i hi
  have hi' : InBounds S.shape i := by
    have : S'.full.shape = S'.shape := rfl
    rw [this, rS.1] at hi; exact hi
  rw [(sp_full_at S' hS' i (by rw [rS.1]; exact hi')).1, (sp_full_at S hS i hi').1, denote_perm rS]

/-- `sptensor.ttm` gives literally the same answer (dense tensor or rejection) for a reordered
operand. -/
theorem ttm_perm (S S' : Sparse α) (hS : S.WF) (rS : Reorder S' S) (Ms : List (Dense.MatArg α))
    (dims excl : Option (List Int)) (tr : Bool) : S'.ttm Ms dims excl tr = S.ttm Ms dims excl tr := by
  rw [ML.sparse_ttm_eq_full S hS, ML.sparse_ttm_eq_full S' (wf_perm rS hS), full_perm S S' hS rS]

end ttm

/-! ### the operations as called by the user -/

section user
variable [CommSemiring α] [DecidableEq α]

theorem ttv_wf (S : Sparse α) (hS : S.WF) (vs : List (List α)) (dims excl : Option (List Int)) (r : ML.Res α)
    (h : S.ttv vs dims excl = .ok r) : ResWF r := by
  unfold Sparse.ttv at h
  split at h
  · cases h
  · exact ttvCore_wf S hS _ r h

theorem ttv_perm (S S' : Sparse α) (hS : S.WF) (rS : Reorder S' S) (d : List Nat) (vs : List (List α))
    (hd : d.Nodup) (hN : ∀ x ∈ d, x < S.shape.length) (hl : vs.length = d.length)
    (hsz : ∀ p ∈ d.zip vs, p.2.length = S.shape.getD p.1 0) :
    ∃ r r', S.ttv vs (some (d.map Int.ofNat)) none = .ok r ∧ S'.ttv vs (some (d.map Int.ofNat)) none = .ok r' ∧
      ResWF r ∧ ResWF r' ∧ ResSame r' r := by
  have hS' := wf_perm rS hS
  let w : Nat → Nat → α := fun m k => match (d.zip vs).find? (fun p => p.1 == m) with
    | some p => p.2.getD k 0
    | none => 0
  have hnd : ((d.zip vs).map (·.1)).Nodup := by
    rw [List.map_fst_zip (by omega)]; exact hd
  have hw : ∀ p ∈ d.zip vs, ∀ k, w p.1 k = p.2.getD k 0 := by
    intro p hp k
    simp only [w]
    have : (d.zip vs).find? (fun q => q.1 == p.1) = some p := by
      generalize d.zip vs = pairs at hnd hp
      induction pairs with
      | nil => cases hp
      | cons q qs ih =>
        simp only [List.map_cons, List.nodup_cons] at hnd
        rcases List.mem_cons.1 hp with rfl | hp'
        · simp
        · have : q.1 ≠ p.1 := fun e => hnd.1 (e ▸ List.mem_map.2 ⟨p, hp', rfl⟩)
          have hb : (q.1 == p.1) = false := by simpa using this
          rw [List.find?_cons, hb]
          exact ih hnd.2 hp'
    rw [this]
  obtain ⟨r, e, sh, g⟩ := ML.sparse_ttv_dims S hS d vs hd hN hl hsz w hw
  obtain ⟨r', e', sh', g'⟩ := ML.sparse_ttv_dims S' hS' d vs hd (by rw [rS.1]; exact hN) hl
    (by rw [rS.1]; exact hsz) w hw
  have hsh : r'.shape = r.shape := by rw [sh, sh', rS.1]
  have w1 := ttv_wf S hS _ _ _ r e
  have w2 := ttv_wf S' hS' _ _ _ r' e'
  refine ⟨r, r', e, e', w1, w2, resSame_of r r' w1 w2 hsh (fun i hi => ?_)⟩
  rw [g i hi, g' i (by rw [hsh]; exact hi), rS.den_eq]

theorem scale_wf_perm (S S' : Sparse α) (hS : S.WF) (rS : Reorder S' S) (F : Sparse.ScaleFactor α)
    (dims : List Int) (Y : Sparse α) (h : S.scale F dims = .ok Y) :
    ∃ Y', S'.scale F dims = .ok Y' ∧ Y.WF ∧ Y'.WF ∧ Reorder Y' Y := by
  cases hres : resolveDims S.shape.length (some dims) with
  | error e => simp [Sparse.scale, hres] at h
  | ok sdims =>
    cases F with
    | dense D =>
      simp only [Sparse.scale, hres, rS.1] at h ⊢
      by_cases hc : (D.shape != gather S.shape sdims) = true
      · simp [hc] at h
      · simp only [hc, Bool.false_eq_true, ↓reduceIte, Except.ok.injEq] at h ⊢
        subst h
        obtain ⟨a, b, c⟩ := scaleWith_perm S S' hS rS (fun k => D.get (gather k sdims))
        exact ⟨_, rfl, a, b, c⟩
    | sparse G =>
      simp only [Sparse.scale, hres, rS.1] at h ⊢
      by_cases hc : (G.shape != gather S.shape sdims) = true
      · simp [hc] at h
      · simp only [hc, Bool.false_eq_true, ↓reduceIte, Except.ok.injEq] at h ⊢
        subst h
        obtain ⟨a, b, c⟩ := scaleWith_perm S S' hS rS (fun k => G.lookup (gather k sdims))
        exact ⟨_, rfl, a, b, c⟩
    | array v =>
      simp only [Sparse.scale, hres, rS.1] at h ⊢
      by_cases hc1 : (sdims.length != 1) = true
      · simp [hc1] at h
      · by_cases hc2 : ([v.length] != gather S.shape sdims) = true
        · simp [hc1, hc2] at h
        · simp only [hc1, hc2, Bool.false_eq_true, ↓reduceIte, Except.ok.injEq] at h ⊢
          subst h
          obtain ⟨a, b, c⟩ := scaleWith_perm S S' hS rS (fun k => v.getD (k.getD (sdims.getD 0 0) 0) 0)
          exact ⟨_, rfl, a, b, c⟩

end user

end Pyttb
