/-
Least-squares optimality from the normal equations over `Matrix _ _ 𝕜` for a linear ordered
field `𝕜` (the core of ALS monotonicity), and the bridge from the list-of-rows matrices of the
model to `Matrix`.
-/
import PyttbModel.Lemmas.CpAls
import Mathlib.LinearAlgebra.Matrix.Trace
import Mathlib.Algebra.Order.BigOperators.Ring.Finset
import Mathlib.Algebra.BigOperators.Fin
import Mathlib.Tactic.Abel

set_option linter.unusedSectionVars false
open Matrix
namespace Pyttb.CpAls

variable {𝕜 : Type} [Field 𝕜] [LinearOrder 𝕜] [IsStrictOrderedRing 𝕜]
variable {ι κ ρ : Type} [Fintype ι] [Fintype κ] [Fintype ρ]

/-- squared Frobenius norm -/
def fro2 (M : Matrix ι κ 𝕜) : 𝕜 := trace (M * Mᵀ)

theorem fro2_eq_sum (M : Matrix ι κ 𝕜) : fro2 M = ∑ i, ∑ j, M i j * M i j := by
  simp [fro2, trace, mul_apply]

theorem fro2_nonneg (M : Matrix ι κ 𝕜) : 0 ≤ fro2 M := by
  rw [fro2_eq_sum]
  exact Finset.sum_nonneg fun i _ => Finset.sum_nonneg fun j _ => mul_self_nonneg _

theorem fro2_add (E F : Matrix ι κ 𝕜) : fro2 (E + F) = fro2 E + 2 * trace (E * Fᵀ) + fro2 F := by
  unfold fro2
  rw [transpose_add, Matrix.add_mul, Matrix.mul_add, Matrix.mul_add, trace_add, trace_add, trace_add]
  have h : trace (F * Eᵀ) = trace (E * Fᵀ) := by
    rw [← trace_transpose, transpose_mul, transpose_transpose]
  rw [h]; ring

/-- Least-squares optimality from the normal equations. -/
theorem ls_optimal (X : Matrix ι κ 𝕜) (Z : Matrix κ ρ 𝕜) (Astar A : Matrix ι ρ 𝕜)
    (hne : Astar * (Zᵀ * Z) = X * Z) :
    fro2 (X - Astar * Zᵀ) ≤ fro2 (X - A * Zᵀ) := by
  have hsplit : X - A * Zᵀ = (X - Astar * Zᵀ) + (Astar - A) * Zᵀ := by
    rw [Matrix.sub_mul]; abel
  have hcross : trace ((X - Astar * Zᵀ) * ((Astar - A) * Zᵀ)ᵀ) = 0 := by
    rw [transpose_mul, transpose_transpose, ← Matrix.mul_assoc, Matrix.sub_mul, Matrix.mul_assoc Astar, hne,
      sub_self, Matrix.zero_mul, trace_zero]
  rw [hsplit, fro2_add, hcross]
  have := fro2_nonneg ((Astar - A) * Zᵀ)
  linarith


/-- A list-of-rows matrix of the model as a `Matrix`. -/
def toMatrix (A : Mat 𝕜) (I R : Nat) : Matrix (Fin I) (Fin R) 𝕜 := fun i r => A.get i r.1

/-- Entry-wise product equations of the model are a matrix product. -/
theorem toMatrix_mul (A Y B : Mat 𝕜) (I K R : Nat)
    (h : ∀ i < I, ∀ r < R, sumRange K (fun a => A.get i a * Y.get a r) = B.get i r) :
    toMatrix A I K * toMatrix Y K R = toMatrix B I R := by
  ext i r
  rw [Matrix.mul_apply]
  simp only [toMatrix]
  rw [← h i i.2 r r.2, sumRange_eq, ← Fin.sum_univ_eq_sum_range (fun a => A.get i a * Y.get a r) K]

end Pyttb.CpAls
