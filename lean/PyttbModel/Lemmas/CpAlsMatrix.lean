/-
Least-squares optimality from the normal equations over `Matrix _ _ 𝕜` for a linear ordered
field `𝕜` (the core of ALS monotonicity), and the bridge from the list-of-rows matrices of the
model to `Matrix`.
-/
import PyttbModel.Lemmas.CpAls
import Mathlib.LinearAlgebra.Matrix.Trace
import Mathlib.Algebra.Order.BigOperators.Ring.Finset
import Mathlib.Algebra.BigOperators.Fin
import Mathlib.Tactic.Abel

set_option linter.unusedSectionVars false
open Matrix
namespace Pyttb.CpAls

variable {𝕜 : Type} [Field 𝕜] [LinearOrder 𝕜] [IsStrictOrderedRing 𝕜]
variable {ι κ ρ : Type} [Fintype ι] [Fintype κ] [Fintype ρ]

/-- squared Frobenius norm -/
def fro2 (M : Matrix ι κ 𝕜) : 𝕜 := trace (M * Mᵀ)

theorem fro2_eq_sum (M : Matrix ι κ 𝕜) : fro2 M = ∑ i, ∑ j, M i j * M i j := by
  simp [fro2, trace, mul_apply]

theorem fro2_nonneg (M : Matrix ι κ 𝕜) : 0 ≤ fro2 M := by
  rw [fro2_eq_sum]
  exact Finset.sum_nonneg fun i _ => Finset.sum_nonneg fun j _ => mul_self_nonneg _

theorem fro2_add (E F : Matrix ι κ 𝕜) : fro2 (E + F) = fro2 E + 2 * trace (E * Fᵀ) + fro2 F := by
  unfold fro2
  rw [transpose_add, Matrix.add_mul, Matrix.mul_add, Matrix.mul_add, trace_add, trace_add, trace_add]
  have h : trace (F * Eᵀ) = trace (E * Fᵀ) := by
    rw [← trace_transpose, transpose_mul, transpose_transpose]
  rw [h]; ring

/-- Least-squares optimality from the normal equations. -/
theorem ls_optimal (X : Matrix ι κ 𝕜) (Z : Matrix κ ρ 𝕜) (Astar A : Matrix ι ρ 𝕜)
    (hne : Astar * (Zᵀ * Z) = X * Z) :
    fro2 (X - Astar * Zᵀ) ≤ fro2 (X - A * Zᵀ) := by
  have hsplit : X - A * Zᵀ = (X - Astar * Zᵀ) + (Astar - A) * Zᵀ := by
    rw [Matrix.sub_mul]; abel
  have hcross : trace ((X - Astar * Zᵀ) * ((Astar - A) * Zᵀ)ᵀ) = 0 := by
    rw [transpose_mul, transpose_transpose, ← Matrix.mul_assoc, Matrix.sub_mul, Matrix.mul_assoc Astar, hne,
      sub_self, Matrix.zero_mul, trace_zero]
  rw [hsplit, fro2_add, hcross]
  have := fro2_nonneg ((Astar - A) * Zᵀ)
  linarith


/-- A list-of-rows matrix of the model as a `Matrix`. -/
def toMatrix (A : Mat 𝕜) (I R : Nat) : Matrix (Fin I) (Fin R) 𝕜 := fun i r => A.get i r.1

/-- Entry-wise product equations of the model are a matrix product. -/
theorem toMatrix_mul (A Y B : Mat 𝕜) (I K R : Nat)
    (h : ∀ i < I, ∀ r < R, sumRange K (fun a => A.get i a * Y.get a r) = B.get i r) :
    toMatrix A I K * toMatrix Y K R = toMatrix B I R := by
  ext i r
  rw [Matrix.mul_apply]
  simp only [toMatrix]
  rw [← h i i.2 r r.2, sumRange_eq, ← Fin.sum_univ_eq_sum_range (fun a => A.get i a * Y.get a r) K]

end Pyttb.CpAls

namespace Pyttb.CpAls
section bridge
variable {𝕜 : Type} [Field 𝕜] [LinearOrder 𝕜] [IsStrictOrderedRing 𝕜]

/-- The factor of mode `n` with the column weights multiplied back in: `U_n · diag(weights)`. -/
def scaledFactor (st : State 𝕜) (n I rank : Nat) : Mat 𝕜 :=
  tab I rank fun i a => (st.U.getD n []).get i a * st.weights.getD a 0

/-- The normal equations of a mode update with the coefficient matrix written in terms of the
factors after the update. -/
theorem modeUpdate_normal_eq_after {D : Data 𝕜} {S : Services 𝕜} {o : NumOps 𝕜} (ho : o.Lawful)
    (hS : SolveContract S) {rank it last n : Nat} {st st' : State 𝕜}
    (h : modeUpdate D S o rank it last n st = .ok st')
    (hU : ShapeOK D.shape rank st.U) (hG : GramOK rank st) (hn : n < D.shape.length)
    (hY : allZero o (coef st.UtU D.shape.length rank n) = false)
    (hw : ∀ r < rank, st'.weights.getD r 0 ≠ 0) :
    ∀ i < D.shape.getD n 0, ∀ r < rank,
      sumRange rank (fun a => ((st'.U.getD n []).get i a * st'.weights.getD a 0) *
        prodOver ((List.range D.shape.length).filter (· != n))
          fun m => (gram (st'.U.getD m []) rank).get a r) = (D.mttkrp st.U n).get i r := by
  intro i hi r hr
  rw [← modeUpdate_normal_eq ho hS h (by rw [hU.1]; exact hn) hY hw i hi r hr]
  unfold sumRange
  congr 1
  refine List.map_congr_left fun a ha => ?_
  rw [coef_get_after h hG hU.1 (List.mem_range.1 ha) hr]

/-- Matrix form of the normal equations. -/
theorem modeUpdate_normal_eq_matrix {D : Data 𝕜} {S : Services 𝕜} {o : NumOps 𝕜} (ho : o.Lawful)
    (hS : SolveContract S) {rank it last n : Nat} {st st' : State 𝕜}
    (h : modeUpdate D S o rank it last n st = .ok st')
    (hn : n < st.U.length)
    (hY : allZero o (coef st.UtU D.shape.length rank n) = false)
    (hw : ∀ r < rank, st'.weights.getD r 0 ≠ 0) :
    toMatrix (scaledFactor st' n (D.shape.getD n 0) rank) (D.shape.getD n 0) rank *
        toMatrix (coef st.UtU D.shape.length rank n) rank rank =
      toMatrix (D.mttkrp st.U n) (D.shape.getD n 0) rank := by
  apply toMatrix_mul
  intro i hi r hr
  rw [← modeUpdate_normal_eq ho hS h hn hY hw i hi r hr]
  unfold sumRange
  congr 1
  refine List.map_congr_left fun a ha => ?_
  rw [scaledFactor, get_tab _ _ _ hi (List.mem_range.1 ha)]

end bridge
end Pyttb.CpAls
