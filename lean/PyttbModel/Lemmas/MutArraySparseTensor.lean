/-
C04, sparse class: a region write whose right-hand side is a sparse tensor
(`_set_subtensor`, Case I(a), with `tt_irenumber`).
-/
import PyttbModel.Lemmas.MutArraySparseRead
set_option linter.unusedSimpArgs false
set_option linter.unusedVariables false
set_option linter.unusedSectionVars false

namespace Pyttb

variable {α : Type}

/-! ### `tt_irenumber` is the decoding of a value subscript -/

theorem mapM_ok_of_forall {β γ : Type} (f : β → Except Reject γ) (g : β → γ) (l : List β)
    (h : ∀ x ∈ l, f x = .ok (g x)) : l.mapM f = .ok (l.map g) := by
  induction l with
  | nil => rfl
  | cons a l ih =>
    rw [List.mapM_cons, h a (by simp), ih (fun x hx => h x (by simp [hx]))]
    rfl

theorem irenumberRow_eq_decode (ps : List RPart) (ls : List (List Nat)) (h : modesOk ps ls) (u : List Nat)
    (hu : InBounds (keptLens ps ls) u) :
    Sparse.irenumberRow (Sparse.tagIdx ps ls) u = .ok (decodeRow ps ls u) := by
  induction ps generalizing ls u with
  | nil =>
    cases ls with
    | nil =>
      cases u with
      | nil => rfl
      | cons x u => simp [keptLens, InBounds] at hu
    | cons l ls => exact absurd h (by simp [modesOk])
  | cons p ps ih =>
    cases ls with
    | nil => exact absurd h (by simp [modesOk])
    | cons l ls =>
      obtain ⟨h1, h2⟩ := h
      by_cases hp : p.isInt = true
      · simp only [keptLens, hp, if_true] at hu
        simp only [Sparse.tagIdx, hp, Sparse.irenumberRow, ih ls h2 u hu, bind, Except.bind, decodeRow, if_true]
      · have hp' : p.isInt = false := by simpa using hp
        simp only [keptLens, hp', Bool.false_eq_true, if_false] at hu
        cases u with
        | nil => simp [InBounds] at hu
        | cons x u' =>
          simp only [InBounds] at hu
          simp only [Sparse.tagIdx, hp', Sparse.irenumberRow, hu.1, if_true, ih ls h2 u' hu.2, bind, Except.bind,
            decodeRow, Bool.false_eq_true, if_false]

/-! ### values under renumbered keys (sums) -/

section tw
variable [AddMonoid α] [DecidableEq α]

theorem kvSum_renumbered_key (es : List (List Nat × α)) (f g : List Nat → List Nat)
    (hn : (es.map (·.1)).Nodup) (hgf : ∀ r ∈ es.map (·.1), g (f r) = r) (j : List Nat) (hfg : f (g j) = j) :
    kvSum (es.map fun e => (f e.1, e.2)) j = kvSum es (g j) := by
  have hkeys : (es.map fun e => (f e.1, e.2)).map (·.1) = (es.map (·.1)).map f := by
    rw [List.map_map, List.map_map]; rfl
  have hn' : ((es.map fun e => (f e.1, e.2)).map (·.1)).Nodup := by
    rw [hkeys]
    apply nodup_map_on _ hn
    intro x hx y hy hxy
    rw [← hgf x hx, ← hgf y hy, hxy]
  rw [← kvLast_eq_kvSum _ _ hn', ← kvLast_eq_kvSum _ _ hn]
  exact kvLast_map_key es f g hn hgf j hfg

theorem region_delete_notR (subs1 : List (List Nat)) (R : List Nat → Bool) (keep : List Nat)
    (hkeep : keep = setdiff1d (List.range subs1.length)
      ((List.range subs1.length).filter fun k => R (subs1.getD k []))) :
    ∀ x ∈ keep.map fun k => subs1.getD k [], R x = false := by
  intro x hx
  obtain ⟨k, hk, rfl⟩ := List.mem_map.1 hx
  rw [hkeep, setdiff1d_of_sorted _ _ List.pairwise_lt_range, List.mem_filter, List.mem_range] at hk
  obtain ⟨hk1, hk2⟩ := hk
  cases hR : R (subs1.getD k []) with
  | false => rfl
  | true =>
    have : k ∈ (List.range subs1.length).filter fun k => R (subs1.getD k []) := by
      rw [List.mem_filter]; exact ⟨List.mem_range.2 hk1, hR⟩
    rw [List.contains_eq_mem, decide_eq_true this] at hk2
    cases hk2

/-- The stored tensor after `_set_subtensor` with a sparse-tensor right-hand side: the
old entries of the region are gone, the value's entries sit at the decoded subscripts; it
represents the enlarged array with the cells of the region overwritten, in F order, by the
cells of the value. -/
theorem regionTensorApply_spec {S : Sparse α} {m : MArr α} (h : SRel S m) (s' : List Nat) (idx : List (List Nat))
    (ps : List RPart) (T : Dense α) (hT : T.WF) (hTs : T.shape = keptLens ps idx) (hm : modesOk2 ps idx)
    (hnw : S.shape.length ≤ s'.length)
    (h1 : ∀ k, k < S.shape.length → S.shape.getD k 0 ≤ s'.getD k 0)
    (h2 : ∀ k, S.shape.length ≤ k → k < s'.length → 1 ≤ s'.getD k 0)
    (hidx : ∀ t, Sparse.inRegionB idx t = true → InBounds s' t)
    (keep : List Nat)
    (hkeep : keep = setdiff1d (List.range (Sparse.padSubs S.subs s'.length).length)
      ((List.range (Sparse.padSubs S.subs s'.length).length).filter
        fun k => Sparse.inRegionB idx ((Sparse.padSubs S.subs s'.length).getD k []))) :
    SRel (⟨s', (keep.map fun k => (Sparse.padSubs S.subs s'.length).getD k []) ++
                T.toSparse.subs.map (decodeRow ps idx),
              (keep.map fun k => S.vals.getD k 0) ++ T.toSparse.vals⟩ : Sparse α)
      ((m.grow s').assignAll ((outerF idx).zip T.data)) := by
  have hlenS := Sparse.subs_length h.wf
  have hpn : (Sparse.padSubs S.subs s'.length).Nodup := padSubs_nodup S.subs _ _ hlenS h.wf.nodup
  have hpl : (Sparse.padSubs S.subs s'.length).length = S.vals.length := by simp [Sparse.padSubs, h.wf.len]
  have hpin : ∀ x ∈ Sparse.padSubs S.subs s'.length, InBounds s' x := by
    intro x hx
    unfold Sparse.padSubs at hx
    obtain ⟨r, hr, rfl⟩ := List.mem_map.1 hx
    rw [hlenS r hr]
    exact inBounds_pad (h.wf.inb r hr) s'.length rfl hnw h1 h2
  have hgrow := kvSum_pad_eq_grow h s'.length s' hnw rfl h1 h2
  obtain ⟨hVwf, hVshape⟩ := toSparse_wf T hT
  -- decoding / renumbering
  have hdec : ∀ j, InBounds (keptLens ps idx) j →
      Sparse.inRegionB idx (decodeRow ps idx j) = true ∧ Sparse.renumberRow ps idx (decodeRow ps idx j) = j :=
    fun j hj => decode_props ps idx hm j hj
  have hVin : ∀ u ∈ T.toSparse.subs, InBounds (keptLens ps idx) u := by
    intro u hu; have := hVwf.inb u hu; rw [hVshape, hTs] at this; exact this
  -- the assignments of the specification
  have hasg : (outerF idx).zip T.data =
      (allSubs (keptLens ps idx)).map fun j => (decodeRow ps idx j, T.get j) := by
    rw [outerF_eq_decode ps idx (modesOk_of_modesOk2 hm), Dense.data_eq_map_get T hT, hTs, zip_map_map]
  have hkeys : ((allSubs (keptLens ps idx)).map fun j => (decodeRow ps idx j, T.get j)).map (·.1) =
      (allSubs (keptLens ps idx)).map (decodeRow ps idx) := by rw [List.map_map]; rfl
  have hallnd : (allSubs (keptLens ps idx)).Nodup := by
    unfold allSubs
    apply nodup_map_on _ List.nodup_range
    intro x hx y hy hxy
    exact ind2sub_inj (List.mem_range.1 hx) (List.mem_range.1 hy) hxy
  have hknd : ((allSubs (keptLens ps idx)).map (decodeRow ps idx)).Nodup := by
    apply nodup_map_on _ hallnd
    intro x hx y hy hxy
    rw [← (hdec x (mem_allSubs.1 hx)).2, ← (hdec y (mem_allSubs.1 hy)).2, hxy]
  have hspec : ∀ i, ((m.grow s').assignAll ((outerF idx).zip T.data)).get i =
      if Sparse.inRegionB idx i = true then T.get (Sparse.renumberRow ps idx i) else (m.grow s').get i := by
    intro i
    by_cases hb : InBounds s' i
    · rw [MArr.assignAll_get _ _ i (by rw [MArr.grow_shape]; exact hb), hasg, hkeys]
      by_cases hR : Sparse.inRegionB idx i = true
      · have hmem : i ∈ outerF idx := (mem_outerF_iff idx i).2 hR
        rw [outerF_eq_decode ps idx (modesOk_of_modesOk2 hm)] at hmem
        obtain ⟨j, hj, rfl⟩ := List.mem_map.1 hmem
        rw [if_pos (List.mem_map.2 ⟨j, hj, rfl⟩), if_pos hR, (hdec j (mem_allSubs.1 hj)).2]
        apply kvLast_of_mem _ _ _ (by rw [hkeys]; exact hknd)
        exact List.mem_map.2 ⟨j, hj, rfl⟩
      · have : i ∉ (allSubs (keptLens ps idx)).map (decodeRow ps idx) := by
          rw [← outerF_eq_decode ps idx (modesOk_of_modesOk2 hm)]
          intro hc; exact hR ((mem_outerF_iff idx i).1 hc)
        rw [if_neg this, if_neg hR]
    · have hR : ¬ Sparse.inRegionB idx i = true := fun hc => hb (hidx i hc)
      rw [if_neg hR, MArr.get_of_not_inBounds (m.grow s') (by exact hb),
        MArr.get_of_not_inBounds _ (by rw [MArr.assignAll_shape, MArr.grow_shape]; exact hb)]
  -- the kept old entries
  obtain ⟨e1, e2, e3, e4, e5⟩ := region_delete (Sparse.padSubs S.subs s'.length) S.vals hpn hpl
    (Sparse.inRegionB idx) keep hkeep
  have e6 := region_delete_notR (Sparse.padSubs S.subs s'.length) (Sparse.inRegionB idx) keep hkeep
  -- the added entries
  have haddnd : (T.toSparse.subs.map (decodeRow ps idx)).Nodup := by
    apply nodup_map_on _ hVwf.nodup
    intro x hx y hy hxy
    rw [← (hdec x (hVin x hx)).2, ← (hdec y (hVin y hy)).2, hxy]
  have haddR : ∀ y ∈ T.toSparse.subs.map (decodeRow ps idx), Sparse.inRegionB idx y = true := by
    intro y hy
    obtain ⟨u, hu, rfl⟩ := List.mem_map.1 hy
    exact (hdec u (hVin u hu)).1
  refine ⟨⟨?_, ?_, ?_, ?_⟩, ?_, ?_⟩
  · show List.length (_ ++ _) = List.length (_ ++ _)
    simp [hVwf.len]
  · intro x hx
    show InBounds s' x
    rcases List.mem_append.1 hx with hc | hc
    · exact hpin x (e3 x hc)
    · exact hidx x (haddR x hc)
  · show List.Nodup (_ ++ _)
    rw [List.nodup_append]
    refine ⟨e2, haddnd, ?_⟩
    intro a ha b hb hab
    have := e6 a ha
    rw [hab, haddR b hb] at this
    cases this
  · intro v hv
    rcases List.mem_append.1 hv with hc | hc
    · exact h.wf.nz v (e4 v hc)
    · exact hVwf.nz v hc
  · show s' = _
    rw [MArr.assignAll_shape, MArr.grow_shape]
  · intro i
    rw [hspec i]
    show kvSum (((keep.map fun k => (Sparse.padSubs S.subs s'.length).getD k []) ++
        T.toSparse.subs.map (decodeRow ps idx)).zip ((keep.map fun k => S.vals.getD k 0) ++ T.toSparse.vals)) i = _
    rw [List.zip_append e1, kvSum_append, e5 i, zip_map_left']
    have hVkeys : (T.toSparse.subs.zip T.toSparse.vals).map (·.1) = T.toSparse.subs :=
      List.map_fst_zip (Nat.le_of_eq hVwf.len)
    by_cases hR : Sparse.inRegionB idx i = true
    · rw [if_pos hR, if_pos hR, zero_add]
      have hmem : i ∈ outerF idx := (mem_outerF_iff idx i).2 hR
      rw [outerF_eq_decode ps idx (modesOk_of_modesOk2 hm)] at hmem
      obtain ⟨j, hj, rfl⟩ := List.mem_map.1 hmem
      have hjb := mem_allSubs.1 hj
      rw [kvSum_renumbered_key (T.toSparse.subs.zip T.toSparse.vals) (decodeRow ps idx) (Sparse.renumberRow ps idx)
        (by rw [hVkeys]; exact hVwf.nodup)
        (by rw [hVkeys]; intro u hu; exact (hdec u (hVin u hu)).2)
        (decodeRow ps idx j) (by rw [(hdec j hjb).2])]
      rw [(hdec j hjb).2]
      exact toSparse_get T hT j (by rw [hTs]; exact hjb)
    · rw [if_neg hR, if_neg hR, hgrow i]
      have : kvSum ((T.toSparse.subs.zip T.toSparse.vals).map fun e => (decodeRow ps idx e.1, e.2)) i = 0 := by
        apply kvSum_of_not_mem
        rw [List.map_map]
        intro hc
        obtain ⟨e, he, hei⟩ := List.mem_map.1 hc
        apply hR
        simp only [Function.comp] at hei
        rw [← hei]
        apply haddR
        exact List.mem_map.2 ⟨e.1, (List.of_mem_zip (a := e.1) (b := e.2) he).1, rfl⟩
      rw [this, add_zero]

end tw

/-! ### resolving the key of a write with a sparse-tensor right-hand side -/

theorem pySlice_length_le {len : Nat} {a b c : Option Int} {l : List Nat} (h : pySlice len a b c = .ok l) :
    l.length ≤ len := by
  unfold pySlice at h
  simp only at h
  split at h
  · cases h
  · split at h
    · cases h
      exact Nat.le_trans (List.length_filter_le _ _) (by simp)
    · cases h
      rw [List.length_reverse]
      exact Nat.le_trans (List.length_filter_le _ _) (by simp)

/-- a key element that may address a NEW mode when the right-hand side is a sparse tensor:
an integer, an index list, a slice with stop ≥ 1, or an open slice that selects index 0 -/
def RPart.okNewT : RPart → Bool
  | .slice a none c =>
    match pySlice 1 a none c with
    | .ok [_] => true
    | _ => false
  | .slice _ (some b) _ => decide (1 ≤ b)
  | _ => true

/-- an index list without repeated entries -/
def RPart.listNodup : RPart → Bool
  | .list is => is.eraseDups.length == is.length
  | _ => true

/-- the key of a write with a tensor right-hand side: duplicate-free index lists, new modes
addressed by admissible elements -/
def tensorKeyOk : List Nat → List RPart → Bool
  | _, [] => true
  | [], p :: ps => p.okNewT && p.listNodup && tensorKeyOk [] ps
  | _ :: es, p :: ps => p.listNodup && tensorKeyOk es ps

theorem partT (ext : Option Nat) (p : RPart) (r : Nat × List Nat × Bool)
    (hr : MArr.regionPart (ext.getD 0) ext.isNone true p = .ok r) (hnd : p.listNodup = true)
    (hnew : ext = none → p.okNewT = true) (vm : Option Nat) (hvm : r.2.2 = true → vm = some r.2.1.length) :
    ∃ q, Sparse.rewriteNegPart ext p = .ok q ∧ Sparse.newExtSparse ext vm q = .ok (r.1, r.2.2) ∧
      Sparse.partIdx r.1 q = .ok r.2.1 ∧ q.isInt = !r.2.2 ∧ (q.isInt = true → ∃ x, r.2.1 = [x]) ∧
      (q.isInt = false → r.2.1.Nodup) ∧ (q.isFullSlice = true → r.2.1 = List.range r.2.1.length) := by
  cases p with
  | int i =>
    simp only [MArr.regionPart] at hr
    by_cases hi : 0 ≤ i
    · simp only [hi, if_true, or_true] at hr
      cases hr
      have hneg : ¬ i < 0 := by omega
      refine ⟨.int i, by simp [Sparse.rewriteNegPart, hneg], ?_, by simp [Sparse.partIdx, hi], rfl,
        fun _ => ⟨_, rfl⟩, fun hc => by simp [RPart.isInt] at hc, fun hc => by simp [RPart.isFullSlice] at hc⟩
      cases ext with
      | none => simp [Sparse.newExtSparse, hneg]
      | some e => simp [Sparse.newExtSparse, hneg]
    · simp only [hi, if_false] at hr
      split at hr
      · next h2 =>
        cases hr
        have hneg : i < 0 := by omega
        cases ext with
        | none => simp at h2; omega
        | some e =>
          simp only [Option.getD_some] at h2 ⊢
          have hq : ¬ ((e : Int) + i < 0) := by omega
          have hq' : (0 : Int) ≤ (e : Int) + i := by omega
          refine ⟨.int ((e : Int) + i), by simp [Sparse.rewriteNegPart, hneg], ?_, ?_, rfl,
            fun _ => ⟨_, rfl⟩, fun hc => by simp [RPart.isInt] at hc, fun hc => by simp [RPart.isFullSlice] at hc⟩
          · simp only [Sparse.newExtSparse, hq, if_false]
            congr 2
            omega
          · simp only [Sparse.partIdx, hq', if_true]
            congr 2
            omega
      · cases hr
  | list is =>
    simp only [MArr.regionPart] at hr
    split at hr
    · cases hr
    · next hemp =>
      simp only [or_true, if_true] at hr
      cases hr
      have hvm' := hvm rfl
      have hnod : is.Nodup := by
        have : (is.eraseDups.length == is.length) = true := hnd
        exact (eraseDups_length_eq_iff is).1 (by simpa using this)
      have hemp' : is.isEmpty = false := by simpa using hemp
      refine ⟨.list is, rfl, ?_, rfl, rfl, fun hc => by simp [RPart.isInt] at hc, fun _ => hnod,
        fun hc => by simp [RPart.isFullSlice] at hc⟩
      rw [hvm']
      cases ext with
      | none => simp [Sparse.newExtSparse, hemp']
      | some e => simp [Sparse.newExtSparse, hemp']
  | slice a b c =>
    simp only [MArr.regionPart, bind, Except.bind] at hr
    cases he : MArr.sliceExtent (ext.getD 0) ext.isNone true b with
    | error e => rw [he] at hr; cases hr
    | ok e' =>
      rw [he] at hr
      simp only at hr
      cases hs : pySlice e' a b c with
      | error err => rw [hs] at hr; cases hr
      | ok l =>
        rw [hs] at hr
        cases hr
        have hvm' := hvm rfl
        have hfull : (RPart.slice a b c).isFullSlice = true → l = List.range l.length := by
          intro hf
          cases a <;> cases b <;> cases c <;> simp [RPart.isFullSlice] at hf
          rw [pySlice_full] at hs
          cases hs
          simp
        refine ⟨.slice a b c, rfl, ?_, by simp [Sparse.partIdx, hs], rfl, fun hc => by simp [RPart.isInt] at hc,
          fun _ => pySlice_nodup hs, hfull⟩
        rw [hvm']
        unfold MArr.sliceExtent at he
        simp only [if_true] at he
        cases ext with
        | none =>
          have hok := hnew rfl
          cases b with
          | none =>
            simp only [Option.isNone_none, if_true] at he
            cases he
            simp only [RPart.okNewT] at hok
            rw [hs] at hok
            match l, hok with
            | [x], _ => simp [Sparse.newExtSparse]
          | some b =>
            have hb : 1 ≤ b := by simpa [RPart.okNewT] using hok
            have h0 : 0 ≤ b := by omega
            simp only [h0, if_true, Option.getD_none] at he
            cases he
            have hb' : 0 < b := by omega
            simp [Sparse.newExtSparse, hb']
        | some e =>
          cases b with
          | none =>
            simp only [Option.isNone_some, Bool.false_eq_true, if_false, Option.getD_some] at he
            cases he
            have := pySlice_length_le hs
            simp only [Sparse.newExtSparse]
            congr 2
            omega
          | some b =>
            simp only [Option.getD_some, Option.isNone_some, Bool.false_eq_true, if_false] at he
            by_cases hb : 0 ≤ b
            · simp only [hb, if_true] at he
              cases he
              simp only [Sparse.newExtSparse]
              congr 2
              split <;> omega
            · simp only [hb, if_false] at he
              cases he
              simp only [Sparse.newExtSparse]
              congr 2
              split <;> omega

theorem keptShape_cons (r : Nat × List Nat × Bool) (rs : List (Nat × List Nat × Bool)) :
    MArr.keptShape (r :: rs) = if r.2.2 = true then r.2.1.length :: MArr.keptShape rs else MArr.keptShape rs := by
  unfold MArr.keptShape
  cases hk : r.2.2 <;> simp [List.filter_cons, hk]

theorem resolveT_cons (ext : Option Nat) (s : List Nat) (hs : ∀ e, ext = some e → True)
    (p : RPart) (ps : List RPart) (r : Nat × List Nat × Bool) (rs' : List (Nat × List Nat × Bool))
    (h1 : MArr.regionPart (ext.getD 0) ext.isNone true p = .ok r)
    (hnd : p.listNodup = true) (hnew : ext = none → p.okNewT = true)
    (ih : ∃ qs, Sparse.rewriteNeg s ps = .ok qs ∧
      Sparse.newSizeSparse s qs (MArr.keptShape rs') = .ok (rs'.map (·.1)) ∧
      Sparse.regionIdx (rs'.map (·.1)) qs = .ok (rs'.map (·.2.1)) ∧ modesOk2 qs (rs'.map (·.2.1)) ∧
      keptLens qs (rs'.map (·.2.1)) = MArr.keptShape rs') :
    ∃ q qs, Sparse.rewriteNegPart ext p = .ok q ∧ Sparse.rewriteNeg s ps = .ok qs ∧
      (do let ec ← Sparse.newExtSparse ext (MArr.keptShape (r :: rs')).head? q
          let es ← Sparse.newSizeSparse s qs (if ec.2 then (MArr.keptShape (r :: rs')).tail else MArr.keptShape (r :: rs'))
          Except.ok (ec.1 :: es)) = .ok ((r :: rs').map (·.1)) ∧
      Sparse.regionIdx ((r :: rs').map (·.1)) (q :: qs) = .ok ((r :: rs').map (·.2.1)) ∧
      modesOk2 (q :: qs) ((r :: rs').map (·.2.1)) ∧
      keptLens (q :: qs) ((r :: rs').map (·.2.1)) = MArr.keptShape (r :: rs') := by
  obtain ⟨qs, i1, i2, i3, i4, i5⟩ := ih
  have hvm : r.2.2 = true → (MArr.keptShape (r :: rs')).head? = some r.2.1.length := by
    intro hk; rw [keptShape_cons, if_pos hk]; rfl
  obtain ⟨q, q1, q2, q3, q4, q5, q6, q7⟩ := partT ext p r h1 hnd hnew _ hvm
  refine ⟨q, qs, q1, i1, ?_, ?_, ?_, ?_⟩
  · rw [q2]
    simp only [bind, Except.bind]
    have : (if r.2.2 = true then (MArr.keptShape (r :: rs')).tail else MArr.keptShape (r :: rs')) = MArr.keptShape rs' := by
      rw [keptShape_cons]
      cases hk : r.2.2 <;> simp
    rw [this, i2]
    rfl
  · simp only [List.map_cons, Sparse.regionIdx, q3, i3, bind, Except.bind]
  · simp only [List.map_cons]
    exact ⟨q5, q6, q7, i4⟩
  · simp only [List.map_cons, keptLens, keptShape_cons, q4]
    cases hk : r.2.2 <;> simp [i5]

theorem write_resolveT (s : List Nat) (parts : List RPart) (rs : List (Nat × List Nat × Bool))
    (hr : MArr.regionParts true s parts = .ok rs) (hok : tensorKeyOk s parts = true) :
    ∃ ps, Sparse.rewriteNeg s parts = .ok ps ∧
      Sparse.newSizeSparse s ps (MArr.keptShape rs) = .ok (rs.map (·.1)) ∧
      Sparse.regionIdx (rs.map (·.1)) ps = .ok (rs.map (·.2.1)) ∧ modesOk2 ps (rs.map (·.2.1)) ∧
      keptLens ps (rs.map (·.2.1)) = MArr.keptShape rs := by
  induction parts generalizing s rs with
  | nil =>
    cases s with
    | nil =>
      simp [MArr.regionParts] at hr; subst hr
      exact ⟨[], rfl, rfl, rfl, trivial, rfl⟩
    | cons e es => simp [MArr.regionParts] at hr
  | cons p ps ih =>
    cases s with
    | nil =>
      simp only [tensorKeyOk, Bool.and_eq_true] at hok
      simp only [MArr.regionParts, Bool.not_true, Bool.false_eq_true, ↓reduceIte, bind, Except.bind, pure,
        Except.pure] at hr
      cases h1 : MArr.regionPart 0 true true p with
      | error e => rw [h1] at hr; cases hr
      | ok r =>
        rw [h1] at hr
        cases h2 : MArr.regionParts true [] ps with
        | error e => rw [h2] at hr; cases hr
        | ok rs' =>
          rw [h2] at hr
          cases hr
          obtain ⟨q, qs, c1, c2, c3, c4, c5, c6⟩ := resolveT_cons none [] (fun _ _ => trivial) p ps r rs' h1
            hok.1.2 (fun _ => hok.1.1) (ih [] rs' h2 hok.2)
          refine ⟨q :: qs, ?_, ?_, c4, c5, c6⟩
          · simp only [Sparse.rewriteNeg, c1, c2, bind, Except.bind]
          · simp only [Sparse.newSizeSparse]; exact c3
    | cons e es =>
      simp only [tensorKeyOk, Bool.and_eq_true] at hok
      simp only [MArr.regionParts, bind, Except.bind, pure, Except.pure] at hr
      cases h1 : MArr.regionPart e false true p with
      | error e' => rw [h1] at hr; cases hr
      | ok r =>
        rw [h1] at hr
        cases h2 : MArr.regionParts true es ps with
        | error e' => rw [h2] at hr; cases hr
        | ok rs' =>
          rw [h2] at hr
          cases hr
          obtain ⟨q, qs, c1, c2, c3, c4, c5, c6⟩ := resolveT_cons (some e) es (fun _ _ => trivial) p ps r rs' h1
            hok.1 (fun hc => by cases hc) (ih es rs' h2 hok.2)
          refine ⟨q :: qs, ?_, ?_, c4, c5, c6⟩
          · simp only [Sparse.rewriteNeg, c1, c2, bind, Except.bind]
          · simp only [Sparse.newSizeSparse]; exact c3

theorem regionPart_new_posT {p : RPart} {r : Nat × List Nat × Bool} (hok : p.okNewT = true)
    (h : MArr.regionPart 0 true true p = .ok r) : 1 ≤ r.1 := by
  cases p with
  | int i => exact regionPart_new_pos (by rfl) h
  | list is => exact regionPart_new_pos (by rfl) h
  | slice a b c =>
    cases b with
    | some b =>
      have hb : 1 ≤ b := by simpa [RPart.okNewT] using hok
      exact regionPart_new_pos (by simpa [RPart.okForNewMode] using hb) h
    | none =>
      simp only [MArr.regionPart, MArr.sliceExtent, if_true, bind, Except.bind] at h
      cases hs : pySlice 1 a none c with
      | error e' => rw [hs] at h; cases h
      | ok idx => rw [hs] at h; cases h; exact Nat.le_refl 1

theorem regionParts_grow_propsT {s : List Nat} {parts : List RPart} {rs : List (Nat × List Nat × Bool)}
    (h : MArr.regionParts true s parts = .ok rs) (hok : tensorKeyOk s parts = true) :
    s.length ≤ rs.length ∧
    (∀ k, k < s.length → s.getD k 0 ≤ (rs.map (·.1)).getD k 0) ∧
    (∀ k, s.length ≤ k → k < rs.length → 1 ≤ (rs.map (·.1)).getD k 0) := by
  induction parts generalizing s rs with
  | nil =>
    cases s with
    | nil => simp [MArr.regionParts] at h; subst h; simp
    | cons e es => simp [MArr.regionParts] at h
  | cons p ps ih =>
    cases s with
    | nil =>
      simp only [tensorKeyOk, Bool.and_eq_true] at hok
      simp only [MArr.regionParts, Bool.not_true, Bool.false_eq_true, ↓reduceIte, bind, Except.bind, pure,
        Except.pure] at h
      cases h1 : MArr.regionPart 0 true true p with
      | error e => rw [h1] at h; cases h
      | ok r =>
        rw [h1] at h
        cases h2 : MArr.regionParts true [] ps with
        | error e => rw [h2] at h; cases h
        | ok rs' =>
          rw [h2] at h
          cases h
          obtain ⟨_, _, i3⟩ := ih h2 hok.2
          refine ⟨by simp, by intro k hk; simp at hk, ?_⟩
          intro k _ hk
          cases k with
          | zero => simpa using regionPart_new_posT hok.1.1 h1
          | succ k => simpa using i3 k (by simp) (by simpa using hk)
    | cons e es =>
      simp only [tensorKeyOk, Bool.and_eq_true] at hok
      simp only [MArr.regionParts, bind, Except.bind, pure, Except.pure] at h
      cases h1 : MArr.regionPart e false true p with
      | error e' => rw [h1] at h; cases h
      | ok r =>
        rw [h1] at h
        cases h2 : MArr.regionParts true es ps with
        | error e' => rw [h2] at h; cases h
        | ok rs' =>
          rw [h2] at h
          cases h
          obtain ⟨i1, i2, i3⟩ := ih h2 hok.2
          refine ⟨by simpa using i1, ?_, ?_⟩
          · intro k hk
            cases k with
            | zero => simpa using regionPart_grow_ge h1
            | succ k => simpa using i2 k (by simpa using hk)
          · intro k hk hk'
            cases k with
            | zero => simp at hk
            | succ k => simpa using i3 k (by simpa using hk) (by simpa using hk')

/-! ### the write -/

/-- A region write with a sparse-tensor right-hand side is in the proved fragment when the
key is non-empty and resolves, its index lists are duplicate-free, every new mode is
addressed by an admissible element, and the value is a well-formed tensor whose shape is
exactly the shape of the region. -/
def spTensorOk (s : List Nat) (parts : List RPart) (T : Dense α) : Bool :=
  !parts.isEmpty && tensorKeyOk s parts && (T.data.length == numel T.shape) &&
  match MArr.regionParts true s parts with
  | .ok rs => decide (T.shape = MArr.keptShape rs)
  | .error _ => false

section tw2
variable [AddMonoid α] [DecidableEq α]

theorem Sparse.setItem_region_tensor (S : Sparse α) (parts : List RPart) (T : Dense α) :
    S.setItem (.region parts) (.tensor T) =
      (Sparse.rewriteNeg S.shape parts >>= fun parts' => Sparse.setSubtensorSparse S parts' T.toSparse) := by
  simp only [Sparse.setItem, Rhs.isEmptyValue, Bool.and_false, Bool.false_eq_true, ↓reduceIte]

/-- `S[region] = sparse tensor` refines the specification: the cells of the region are
overwritten, first index fastest, by the cells of the value. -/
theorem Sparse.setRegionTensor_refines {S : Sparse α} {m : MArr α} (h : SRel S m) (parts : List RPart)
    (T : Dense α) (hok : spTensorOk S.shape parts T = true) :
    RefWS (S.setItem (.region parts) (.tensor T)) (m.write (.region parts) (.tensor T)) := by
  simp only [spTensorOk, Bool.and_eq_true, Bool.not_eq_true', beq_iff_eq] at hok
  obtain ⟨⟨⟨hemp, hkey⟩, hTwf⟩, hfit⟩ := hok
  cases hr : MArr.regionParts true S.shape parts with
  | error e => rw [hr] at hfit; cases hfit
  | ok rs =>
    rw [hr] at hfit
    have hTs : T.shape = MArr.keptShape rs := by simpa using hfit
    obtain ⟨ps, r1, r2, r3, r4, r5⟩ := write_resolveT S.shape parts rs hr hkey
    obtain ⟨g1, g2, g3⟩ := regionParts_grow_propsT hr hkey
    have hT : T.WF := hTwf
    obtain ⟨hVwf, hVshape⟩ := toSparse_wf T hT
    have hTk : T.shape = keptLens ps (rs.map (·.2.1)) := by rw [r5]; exact hTs
    -- specification side
    have hspec : m.write (.region parts) (.tensor T) =
        .ok ((m.grow (rs.map (·.1))).assignAll ((outerF (rs.map (·.2.1))).zip T.data)) := by
      have hlen : T.data.length = (outerF (rs.map (·.2.1))).length := by
        rw [outerF_length, hTwf, hTs, ← r5]
        have := outerF_eq_decode ps (rs.map (·.2.1)) (modesOk_of_modesOk2 r4)
        have h2 := congrArg List.length this
        rw [outerF_length, List.length_map, length_allSubs] at h2
        exact h2.symm
      simp only [MArr.write, MArr.resolveWrite, hemp, Bool.false_eq_true, ↓reduceIte, ← h.shape, hr, bind,
        Except.bind, MArr.regionValues, hTs, hlen, true_and, and_self, if_true]
    rw [hspec]
    -- model side
    have hmap : T.toSparse.subs.mapM (Sparse.irenumberRow (Sparse.tagIdx ps (rs.map (·.2.1)))) =
        .ok (T.toSparse.subs.map (decodeRow ps (rs.map (·.2.1)))) := by
      apply mapM_ok_of_forall
      intro u hu
      apply irenumberRow_eq_decode ps _ (modesOk_of_modesOk2 r4)
      have := hVwf.inb u hu
      rw [hVshape, hTk] at this
      exact this
    have hsubs' : (if S.subs.isEmpty then S.subs else Sparse.padSubs S.subs (rs.map (·.1)).length) =
        Sparse.padSubs S.subs (rs.map (·.1)).length := by
      split
      · next he =>
        have : S.subs = [] := by simpa using he
        rw [this]; rfl
      · rfl
    have hrm : (if (Sparse.padSubs S.subs (rs.map (·.1)).length).isEmpty then []
        else Sparse.subdims (⟨rs.map (·.1), Sparse.padSubs S.subs (rs.map (·.1)).length, S.vals⟩ : Sparse α)
          (rs.map (·.2.1))) =
        (List.range (Sparse.padSubs S.subs (rs.map (·.1)).length).length).filter
          fun k => Sparse.inRegionB (rs.map (·.2.1)) ((Sparse.padSubs S.subs (rs.map (·.1)).length).getD k []) := by
      split
      · next he =>
        have : Sparse.padSubs S.subs (rs.map (·.1)).length = [] := by simpa using he
        rw [this]; rfl
      · rfl
    rw [Sparse.setItem_region_tensor]
    simp only [r1, bind, Except.bind, Sparse.setSubtensorSparse, hVshape, hTs, r2, r3, hsubs', hrm, hmap,
      Sparse.takeAt]
    show SRel _ _
    apply regionTensorApply_spec h (rs.map (·.1)) (rs.map (·.2.1)) ps T hT hTk r4
    · simpa using g1
    · exact g2
    · intro k hk hk'; exact g3 k hk (by simpa using hk')
    · intro t ht
      exact outerF_inBounds rs (regionParts_lt hr) t ((mem_outerF_iff _ t).2 ht)
    · rfl

end tw2

end Pyttb
