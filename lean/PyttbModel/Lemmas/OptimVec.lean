/-
`tovec(False)` followed by `update(all modes, ·)` gives the Kruskal tensor back (C13, L-BFGS-B
wrapper).
-/
import PyttbModel.Alg.Optim
import Mathlib.Data.List.Basic

namespace Pyttb
namespace Opt

variable {α : Type}

/-- Entry `n*j + i` of the concatenation of lists of common length `n`. -/
theorem getD_flatten_uniform {β : Type} (d : β) (n : Nat) :
    ∀ (L : List (List β)), (∀ l ∈ L, l.length = n) → ∀ j i, j < L.length → i < n →
      L.flatten.getD (i + n * j) d = (L.getD j []).getD i d := by
  intro L
  induction L with
  | nil => intro _ j i hj; simp at hj
  | cons l L ih =>
    intro hl j i hj hi
    have hlen : l.length = n := hl l (by simp)
    cases j with
    | zero =>
      simp only [List.flatten_cons, Nat.mul_zero, Nat.add_zero, List.getD_cons_zero,
        List.getD_eq_getElem?_getD]
      rw [List.getElem?_append_left (by omega)]
      simp
    | succ j =>
      simp only [List.flatten_cons, List.getD_cons_succ]
      have : i + n * (j + 1) = l.length + (i + n * j) := by rw [hlen, Nat.mul_succ]; omega
      have ih' := ih (fun l' hl' => hl l' (by simp [hl'])) j i (by simpa using hj) hi
      simp only [List.getD_eq_getElem?_getD] at ih' ⊢
      rw [this, List.getElem?_append_right (by omega)]
      simp only [Nat.add_sub_cancel_left]
      exact ih' -- (fun l' hl' => hl l' (by simp [hl'])) j i (by simpa using hj) hi

theorem length_flatten_uniform {β : Type} (n : Nat) :
    ∀ (L : List (List β)), (∀ l ∈ L, l.length = n) → L.flatten.length = L.length * n := by
  intro L
  induction L with
  | nil => simp
  | cons l L ih =>
    intro hl
    simp only [List.flatten_cons, List.length_append, List.length_cons, hl l (by simp),
      ih (fun l' hl' => hl l' (by simp [hl'])), Nat.succ_mul]
    omega

variable [Zero α]

/-- One block of `tovec`: the columns of a factor matrix one after the other. -/
theorem block_spec (A : Mat α) (R : Nat) (hA : ∀ row ∈ A, row.length = R) :
    ((Mat.transpose A).flatten).length = A.length * R ∧
    (List.range A.length).map (fun i => (List.range R).map fun j =>
      ((Mat.transpose A).flatten).getD (i + A.length * j) 0) = A := by
  by_cases hn : A.length = 0
  · have : A = [] := List.length_eq_zero_iff.mp hn
    subst this
    simp [Mat.transpose, Mat.ncols, Mat.nrows]
  have hn' : 0 < A.length := Nat.pos_of_ne_zero hn
  have hc : A.ncols = R := by
    unfold Mat.ncols
    cases A with
    | nil => simp at hn
    | cons r A => simpa using hA r (by simp)
  have hT : ∀ l ∈ Mat.transpose A, l.length = A.length := by
    intro l hl
    simp only [Mat.transpose, List.mem_map] at hl
    obtain ⟨j, _, rfl⟩ := hl
    simp [Mat.nrows]
  have hTl : (Mat.transpose A).length = R := by simp [Mat.transpose, hc]
  constructor
  · rw [length_flatten_uniform A.length _ hT, hTl, Nat.mul_comm]
  · apply List.ext_getElem
    · simp
    intro i h1 h2
    simp only [List.length_map, List.length_range] at h1
    simp only [List.getElem_map, List.getElem_range]
    apply List.ext_getElem
    · simp [hA A[i] (List.getElem_mem h1)]
    intro j h3 h4
    simp only [List.length_map, List.length_range] at h3
    simp only [List.getElem_map, List.getElem_range]
    rw [getD_flatten_uniform 0 A.length _ hT j i (by omega) h1]
    have hj : j < A.ncols := by omega
    simp [Mat.transpose, Mat.nrows, Mat.get, hj, h1, h4]

theorem go_flatMap (R : Nat) :
    ∀ (Fs : List (Mat α)), (∀ A ∈ Fs, ∀ row ∈ A, row.length = R) →
      updateF.go R Fs (Fs.flatMap fun A => (Mat.transpose A).flatten) = Fs := by
  intro Fs
  induction Fs with
  | nil => intro _; simp [updateF.go]
  | cons A Fs ih =>
    intro h
    obtain ⟨hlen, hblk⟩ := block_spec A R (h A (by simp))
    simp only [List.flatMap_cons, updateF.go]
    rw [List.take_append_of_le_length (by omega), List.take_of_length_le (by omega),
      List.drop_append_of_le_length (by omega), List.drop_of_length_le (by omega), List.nil_append,
      hblk, ih (fun B hB => h B (by simp [hB]))]

/-- Writing a Kruskal tensor's own vector back gives the tensor. -/
theorem updateF_tovecF (K : Ktensor α)
    (hwf : ∀ A ∈ K.factors, ∀ row ∈ A, row.length = K.weights.length) :
    updateF K (tovecF K) = K := by
  unfold updateF tovecF
  simp only
  rw [go_flatMap _ _ hwf]

/-! ### `update` overwrites: only the shape of the receiver matters -/

theorem go_congr (R : Nat) :
    ∀ (Fs Gs : List (Mat α)) (d : List α), Fs.map List.length = Gs.map List.length →
      updateF.go R Fs d = updateF.go R Gs d := by
  intro Fs
  induction Fs with
  | nil => intro Gs d h; cases Gs with
    | nil => rfl
    | cons B Gs => simp at h
  | cons A Fs ih =>
    intro Gs d h
    cases Gs with
    | nil => simp at h
    | cons B Gs =>
      simp only [List.map_cons, List.cons.injEq] at h
      simp only [updateF.go, h.1, ih Gs _ h.2]

theorem go_lengths (R : Nat) :
    ∀ (Fs : List (Mat α)) (d : List α), (updateF.go R Fs d).map List.length = Fs.map List.length := by
  intro Fs
  induction Fs with
  | nil => intro d; simp [updateF.go]
  | cons A Fs ih => intro d; simp [updateF.go, ih]

/-- Writing a vector into a tensor that was written before is writing it into the original. -/
theorem updateF_updateF (K : Ktensor α) (v w : List α) : updateF (updateF K v) w = updateF K w := by
  unfold updateF
  simp only
  rw [go_congr _ _ K.factors w (go_lengths _ _ _)]

theorem updateF_foldl (evals : List (List α)) :
    ∀ (K : Ktensor α) (w : List α), updateF (evals.foldl updateF K) w = updateF K w := by
  induction evals with
  | nil => intro K w; rfl
  | cons v vs ih => intro K w; rw [List.foldl_cons, ih, updateF_updateF]

end Opt
end Pyttb
