/-
C10 — `hosvd`: what one pass of the mode loop does under the contract of `eigh`, the loop
invariant, and the facts the property theorems are assembled from.
-/
import PyttbModel.Lemmas.TuckerFold
namespace Pyttb
namespace Tk
open Finset

/-- Contract of the `eigh` service: on every symmetric matrix it returns orthonormal
eigenpairs (whatever the call number). -/
def EighContract (eigh : Nat → Mat ℝ → List ℝ × Mat ℝ) : Prop :=
  ∀ c Z n, IsSymmSq Z n → EighOK Z n (eigh c Z).1 (eigh c Z).2

section step
variable (eigh : Nat → Mat ℝ → List ℝ × Mat ℝ)

/-- eigenvalues / eigenvectors / sorting permutation / sorted eigenvalues / kept columns of
the pass that processes mode `k` in state `st` -/
def stepD (st : HState ℝ) (k : Nat) : List ℝ := (eigh st.trace.length (gramMode st.Y k)).1
def stepV (st : HState ℝ) (k : Nat) : Mat ℝ := (eigh st.trace.length (gramMode st.Y k)).2
noncomputable def stepPi (st : HState ℝ) (k : Nat) : List Nat := argsortDesc realOps (stepD eigh st k)
noncomputable def stepEig (st : HState ℝ) (k : Nat) : List ℝ :=
  (stepPi eigh st k).map fun i => (stepD eigh st k).getD i 0
noncomputable def stepU (st : HState ℝ) (k r : Nat) : Mat ℝ := matCols (stepV eigh st k) ((stepPi eigh st k).take r)

theorem hosvdStep_ok {thresh : ℝ} {seq : Bool} {st st' : HState ℝ} {k : Nat}
    (h : hosvdStep realOps eigh thresh seq st k = .ok st') :
    ∃ r, chooseRank realOps thresh (stepEig eigh st k) (st.ranks.getD k 0) = some r ∧
      st'.factors = st.factors.set k (stepU eigh st k r) ∧ st'.ranks = st.ranks.set k r ∧
      st'.trace = st.trace ++ [⟨k, gramMode st.Y k, stepPi eigh st k, stepEig eigh st k, r, stepU eigh st k r⟩] ∧
      (seq = true → ttm st.Y (Mat.transpose (stepU eigh st k r)) k false = .ok st'.Y) ∧
      (seq = false → st'.Y = st.Y) := by
  unfold hosvdStep at h
  simp only [sliceBound_eq] at h
  cases hc : chooseRank realOps thresh (stepEig eigh st k) (st.ranks.getD k 0) with
  | none =>
    simp only [stepEig, stepPi, stepD] at hc
    rw [hc] at h
    cases h
  | some r =>
    refine ⟨r, rfl, ?_⟩
    simp only [stepEig, stepPi, stepD] at hc
    rw [hc] at h
    simp only at h
    cases seq with
    | true =>
      simp only [if_true] at h
      cases ht : ttm st.Y (Mat.transpose (matCols (eigh st.trace.length (gramMode st.Y k)).2
          ((argsortDesc realOps (eigh st.trace.length (gramMode st.Y k)).1).take r))) k false with
      | error e => rw [ht] at h; cases h
      | ok Y' =>
        rw [ht] at h
        cases h
        exact ⟨rfl, rfl, rfl, fun _ => ht, fun hf => by cases hf⟩
    | false =>
      simp only [Bool.false_eq_true, if_false] at h
      cases h
      exact ⟨rfl, rfl, rfl, fun hf => (by cases hf), fun _ => rfl⟩

/-! #### what the contract gives for one pass -/

variable {eigh}

theorem step_eigh (hE : EighContract eigh) (st : HState ℝ) (k : Nat) :
    EighOK (gramMode st.Y k) (st.Y.shape.getD k 0) (stepD eigh st k) (stepV eigh st k) :=
  hE _ _ _ (gramMode_symm st.Y k)

theorem stepPi_length (hE : EighContract eigh) (st : HState ℝ) (k : Nat) :
    (stepPi eigh st k).length = st.Y.shape.getD k 0 := by
  rw [stepPi, argsortDesc_length, (step_eigh hE st k).len]

theorem stepEig_length (hE : EighContract eigh) (st : HState ℝ) (k : Nat) :
    (stepEig eigh st k).length = st.Y.shape.getD k 0 := by
  rw [stepEig, List.length_map, stepPi_length hE]

theorem stepPi_lt (hE : EighContract eigh) (st : HState ℝ) (k : Nat) :
    ∀ i ∈ stepPi eigh st k, i < st.Y.shape.getD k 0 := by
  intro i hi
  have := argsortDesc_lt (stepD eigh st k) i hi
  rwa [(step_eigh hE st k).len] at this

theorem stepU_ortho (hE : EighContract eigh) (st : HState ℝ) (k r : Nat) :
    OrthoCols (stepU eigh st k r) (st.Y.shape.getD k 0) (min r (st.Y.shape.getD k 0)) := by
  have h := (step_eigh hE st k).ortho
  have := h.matCols ((stepPi eigh st k).take r)
    (fun c hc => stepPi_lt hE st k c (List.mem_of_mem_take hc))
    ((argsortDesc_nodup _).sublist (List.take_sublist _ _))
  rw [List.length_take, stepPi_length hE] at this
  exact this

theorem take_getD {β : Type} (l : List β) (r i : Nat) (d : β) (hi : i < r) : (l.take r).getD i d = l.getD i d := by
  simp [List.getD_eq_getElem?_getD, List.getElem?_take, hi]

theorem sum_take_eq (l : List ℝ) (r : Nat) :
    (l.take r).sum = ∑ i ∈ range (min r l.length), l.getD i 0 := by
  induction l generalizing r with
  | nil => simp
  | cons x l ih =>
    cases r with
    | zero => simp
    | succ r =>
      simp only [List.take_succ_cons, List.sum_cons, List.length_cons, Nat.add_min_add_right]
      rw [Finset.sum_range_succ', ih r]
      simp [add_comm]

/-- The energy kept in one pass is the sum of the leading sorted eigenvalues. -/
theorem step_kept (hE : EighContract eigh) (st : HState ℝ) (k r : Nat) (hk : k < st.Y.shape.length) :
    normSq (ttmT st.Y (stepU eigh st k r) k true) = ((stepEig eigh st k).take r).sum := by
  have hO := stepU_ortho hE st k r
  have hlen := stepPi_length hE st k
  rw [normSq_ttmT_eigcols st.Y k hk (stepD eigh st k) (stepV eigh st k) (stepU eigh st k r) (step_eigh hE st k)
    (fun i => (stepPi eigh st k).getD i 0)]
  · rw [sum_take_eq, stepEig_length hE, hO.ncols]
    apply Finset.sum_congr rfl
    intro i hi
    have hi' : i < (stepPi eigh st k).length := by
      rw [hlen]; exact lt_of_lt_of_le (Finset.mem_range.1 hi) (min_le_right _ _)
    simp [stepEig, List.getD_eq_getElem?_getD, List.getElem?_map, List.getElem?_eq_getElem hi']
  · intro i hi
    rw [hO.ncols] at hi
    have hi' : i < (stepPi eigh st k).length := by
      rw [hlen]; exact lt_of_lt_of_le hi (min_le_right _ _)
    apply stepPi_lt hE st k
    rw [List.getD_eq_getElem?_getD, List.getElem?_eq_getElem hi']
    simp
  · intro a ha i hi
    rw [hO.ncols] at hi
    have hV : a < (stepV eigh st k).length := by rw [(step_eigh hE st k).ortho.rows]; exact ha
    have hi' : i < ((stepPi eigh st k).take r).length := by
      rw [List.length_take, hlen]; exact hi
    rw [stepU, matCols_get _ _ a i hV hi', take_getD _ _ _ _ (lt_of_lt_of_le hi (min_le_left _ _))]

/-- The whole energy is the sum of the sorted eigenvalues. -/
theorem step_total (hE : EighContract eigh) (st : HState ℝ) (hY : st.Y.WF) (k : Nat) (hk : k < st.Y.shape.length) :
    normSq st.Y = (stepEig eigh st k).sum := by
  rw [normSq_eq_sum_eig st.Y hY k hk _ _ (step_eigh hE st k), stepEig, stepPi, sum_argsortDesc,
    (step_eigh hE st k).len]

/-- The discarded tail of one pass is the projection defect. -/
theorem step_tail (hE : EighContract eigh) (st : HState ℝ) (hY : st.Y.WF) (k r : Nat) (hk : k < st.Y.shape.length) :
    tail (stepEig eigh st k) r = defect st.Y (stepU eigh st k r) k := by
  rw [defect, step_kept hE st k r hk, step_total hE st hY k hk, tail]
  have := List.sum_take_add_sum_drop (stepEig eigh st k) r
  linarith

/-- Eigenvalues of a Gram matrix are non-negative. -/
theorem stepEig_nonneg (hE : EighContract eigh) (st : HState ℝ) (k : Nat) (hk : k < st.Y.shape.length) :
    ∀ x ∈ stepEig eigh st k, 0 ≤ x := by
  intro x hx
  simp only [stepEig, List.mem_map] at hx
  obtain ⟨c, hc, rfl⟩ := hx
  have hcn := stepPi_lt hE st k c hc
  have hV := (step_eigh hE st k).ortho
  have hO : OrthoCols (matCols (stepV eigh st k) [c]) (st.Y.shape.getD k 0) 1 := by
    simpa using hV.matCols [c] (by simpa using hcn) (by simp)
  have := normSq_ttmT_eigcols st.Y k hk (stepD eigh st k) (stepV eigh st k) (matCols (stepV eigh st k) [c])
    (step_eigh hE st k) (fun _ => c) (fun _ _ => hcn)
    (by
      intro a ha i hi
      rw [hO.ncols] at hi
      have hV' : a < (stepV eigh st k).length := by rw [hV.rows]; exact ha
      have : i = 0 := by omega
      subst this
      rw [matCols_get _ _ a 0 hV' (by simp)]
      simp)
  rw [hO.ncols] at this
  simp only [Finset.range_one, Finset.sum_singleton] at this
  rw [← this]
  exact normSq_nonneg _ (ttmT_WF _ _ _ _)

theorem stepEig_sorted (st : HState ℝ) (k : Nat) : (stepEig eigh st k).Pairwise (fun x y => y ≤ x) := by
  rw [stepEig, List.pairwise_map]
  exact argsortDesc_sorted _

end step

end Tk
end Pyttb
