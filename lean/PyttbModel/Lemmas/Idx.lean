import PyttbModel.Core.Idx
namespace Pyttb

theorem inBounds_iff (s i : List Nat) : inBounds s i = true ↔ InBounds s i := by
  induction s generalizing i with
  | nil => cases i <;> simp [inBounds, InBounds]
  | cons a s ih => cases i with
    | nil => simp [inBounds, InBounds]
    | cons b i => simp [inBounds, InBounds, ih]

instance (s i : List Nat) : Decidable (InBounds s i) :=
  decidable_of_iff _ (inBounds_iff s i)

theorem InBounds.length_eq {s i : List Nat} (h : InBounds s i) : i.length = s.length := by
  induction s generalizing i with
  | nil => cases i <;> simp_all [InBounds]
  | cons a s ih => cases i with
    | nil => simp [InBounds] at h
    | cons b i => simp [InBounds] at h; simp [ih h.2]

@[simp] theorem numel_nil : numel [] = 1 := rfl
@[simp] theorem numel_cons (a : Nat) (s : List Nat) : numel (a :: s) = a * numel s := rfl

theorem sub2ind_lt {s i : List Nat} (h : InBounds s i) : sub2ind s i < numel s := by
  induction s generalizing i with
  | nil => cases i <;> simp_all [InBounds, sub2ind]
  | cons a s ih => cases i with
    | nil => simp [InBounds] at h
    | cons b i =>
      simp only [InBounds] at h
      simp only [sub2ind, numel_cons]
      have h2 := ih h.2
      calc b + a * sub2ind s i < a + a * sub2ind s i := by omega
        _ = a * (sub2ind s i + 1) := by rw [Nat.mul_add]; omega
        _ ≤ a * numel s := Nat.mul_le_mul_left a h2

theorem ind2sub_sub2ind {s i : List Nat} (h : InBounds s i) : ind2sub s (sub2ind s i) = i := by
  induction s generalizing i with
  | nil => cases i <;> simp_all [InBounds, ind2sub]
  | cons a s ih => cases i with
    | nil => simp [InBounds] at h
    | cons b i =>
      simp only [InBounds] at h
      have ha : 0 < a := by omega
      simp only [sub2ind, ind2sub]
      rw [Nat.add_mul_mod_self_left, Nat.mod_eq_of_lt h.1,
          Nat.add_mul_div_left _ _ ha, Nat.div_eq_of_lt h.1, Nat.zero_add, ih h.2]

theorem ind2sub_inBounds {s : List Nat} {n : Nat} (h : n < numel s) : InBounds s (ind2sub s n) := by
  induction s generalizing n with
  | nil => simp [ind2sub, InBounds]
  | cons a s ih =>
    simp only [numel_cons] at h
    have ha : 0 < a := by
      rcases Nat.eq_zero_or_pos a with h0 | h0
      · subst h0; simp at h
      · exact h0
    simp only [ind2sub, InBounds]
    exact ⟨Nat.mod_lt _ ha, ih (Nat.div_lt_of_lt_mul h)⟩

theorem sub2ind_ind2sub {s : List Nat} {n : Nat} (h : n < numel s) : sub2ind s (ind2sub s n) = n := by
  induction s generalizing n with
  | nil => simp [numel] at h; simp [sub2ind, ind2sub, h]
  | cons a s ih =>
    simp only [numel_cons] at h
    simp only [ind2sub, sub2ind]
    rw [ih (Nat.div_lt_of_lt_mul h)]
    exact Nat.mod_add_div n a

end Pyttb

namespace Pyttb

theorem allSubs_map_sub2ind (s : List Nat) : (allSubs s).map (sub2ind s) = List.range (numel s) := by
  unfold allSubs
  rw [List.map_map]
  conv => rhs; rw [← List.map_id (List.range (numel s))]
  apply List.map_congr_left
  intro n hn
  simp only [List.mem_range] at hn
  simp [Function.comp, sub2ind_ind2sub hn]

theorem mem_allSubs {s i : List Nat} : i ∈ allSubs s ↔ InBounds s i := by
  unfold allSubs
  simp only [List.mem_map, List.mem_range]
  constructor
  · rintro ⟨n, hn, rfl⟩; exact ind2sub_inBounds hn
  · intro h; exact ⟨sub2ind s i, sub2ind_lt h, ind2sub_sub2ind h⟩

theorem length_allSubs (s : List Nat) : (allSubs s).length = numel s := by simp [allSubs]

theorem getElem_allSubs {s i : List Nat} (h : InBounds s i) :
    (allSubs s)[sub2ind s i]'(by rw [length_allSubs]; exact sub2ind_lt h) = i := by
  simp [allSubs, ind2sub_sub2ind h]

/-- `range (a*m)` enumerated as `r + a*q`, `q` slow and `r` fast. -/
theorem range_mul (a m : Nat) :
    List.range (a * m) = (List.range m).flatMap (fun q => (List.range a).map (fun r => r + a * q)) := by
  induction m with
  | zero => simp
  | succ m ih =>
    rw [Nat.mul_succ, List.range_add, ih, List.range_succ, List.flatMap_append]
    simp [Nat.add_comm]

theorem allSubs_cons (a : Nat) (s : List Nat) :
    allSubs (a :: s) = (allSubs s).flatMap (fun t => (List.range a).map (fun i => i :: t)) := by
  unfold allSubs
  rw [numel_cons, range_mul, List.map_flatMap, List.flatMap_map]
  congr 1
  funext q
  rw [List.map_map]
  apply List.map_congr_left
  intro r hr
  simp only [List.mem_range] at hr
  have ha : 0 < a := by omega
  simp [Function.comp, ind2sub, Nat.add_mul_mod_self_left, Nat.mod_eq_of_lt hr,
    Nat.add_mul_div_left _ _ ha, Nat.div_eq_of_lt hr]

theorem sub2ind_set_succ (s i : List Nat) (k : Nat) (hl : i.length = s.length) (hk : k < s.length) :
    sub2ind s (i.set k (i.getD k 0 + 1)) = sub2ind s i + stride s k := by
  induction s generalizing i k with
  | nil => simp at hk
  | cons a s ih =>
    cases i with
    | nil => simp at hl
    | cons b i =>
      cases k with
      | zero => simp [sub2ind, stride, numel]; omega
      | succ k =>
        simp only [List.length_cons, Nat.add_lt_add_iff_right, Nat.add_right_cancel_iff] at hk hl
        simp only [List.set_cons_succ, sub2ind, List.getD_cons_succ, stride, List.take_succ_cons, numel_cons]
        have := ih i k hl hk
        simp only [stride] at this
        rw [this, Nat.mul_add]; omega

theorem ttSub2ind_ok (s : List Nat) (subs : List (List Nat)) (h : ∀ i ∈ subs, InBounds s i) :
    ttSub2ind s subs = .ok (subs.map (sub2ind s)) := by
  unfold ttSub2ind
  have : subs.all (inBounds s) = true := by
    rw [List.all_eq_true]; intro i hi; exact (inBounds_iff s i).2 (h i hi)
  simp [this]

theorem ttSub2ind_rejects (s : List Nat) (subs : List (List Nat)) (i : List Nat) (hi : i ∈ subs)
    (h : ¬ InBounds s i) : ttSub2ind s subs = .error .reject := by
  unfold ttSub2ind
  have : subs.all (inBounds s) = false := by
    rw [List.all_eq_false]
    exact ⟨i, hi, by rw [inBounds_iff]; exact h⟩
  simp [this]

theorem ttInd2sub_ofNat (s : List Nat) (l : List Nat) (h : ∀ n ∈ l, n < numel s) :
    ttInd2sub s (l.map Int.ofNat) = .ok (l.map (ind2sub s)) := by
  unfold ttInd2sub
  have hw : (l.map Int.ofNat).map (fun k : Int => if k < 0 then k + (numel s : Int) else k) = l.map Int.ofNat := by
    rw [List.map_map]; apply List.map_congr_left; intro n _
    simp only [Function.comp]
    have : ¬ (Int.ofNat n < 0) := by simp
    rw [if_neg this]
  simp only [hw]
  have hall : (l.map Int.ofNat).all (fun k => decide (0 ≤ k) && decide (k < (numel s : Int))) = true := by
    rw [List.all_eq_true]; intro k hk
    simp only [List.mem_map] at hk
    obtain ⟨n, hn, rfl⟩ := hk
    have := h n hn
    simp; omega
  simp [hall, List.map_map, Function.comp]

theorem tt_roundtrip (s : List Nat) (subs : List (List Nat)) (h : ∀ i ∈ subs, InBounds s i) :
    ∃ l, ttSub2ind s subs = .ok l ∧ ttInd2sub s (l.map Int.ofNat) = .ok subs := by
  refine ⟨subs.map (sub2ind s), ttSub2ind_ok s subs h, ?_⟩
  rw [ttInd2sub_ofNat]
  · rw [List.map_map]
    conv => rhs; rw [← List.map_id subs]
    congr 1
    apply List.map_congr_left
    intro i hi; simp [Function.comp, ind2sub_sub2ind (h i hi)]
  · intro n hn
    simp only [List.mem_map] at hn
    obtain ⟨i, hi, rfl⟩ := hn
    exact sub2ind_lt (h i hi)

theorem ttInd2sub_neg (s : List Nat) (k : Nat) (h1 : 1 ≤ k) (h2 : k ≤ numel s) :
    ttInd2sub s [-(k : Int)] = .ok [ind2sub s (numel s - k)] := by
  unfold ttInd2sub
  have hneg : (-(k : Int)) < 0 := by omega
  simp only [List.map_cons, List.map_nil, hneg, if_true, List.all_cons, List.all_nil, Bool.and_true]
  have e : (-(k : Int) + (numel s : Int)) = ((numel s - k : Nat) : Int) := by omega
  rw [e]
  have : (decide (0 ≤ ((numel s - k : Nat) : Int)) && decide (((numel s - k : Nat) : Int) < (numel s : Int))) = true := by
    simp; omega
  simp [this]
  omega

end Pyttb
