/-
C05: a simple sufficient criterion for the static checks of Heap/Prog.lean that is easy to
establish for programs built from `List.map` segments of arbitrary length (Kruskal tensors with
any number of factor matrices, sum tensors with any number of parts):

  every step is an allocation, a direct view of an allowed operand, a write into a receiver
  operand, or a write into a register the program defined earlier.

`simpleOK_sound` shows that such a program passes `writesWithin` / `resultsWithin` (hence, with
no allowed operand, `pureProg` / `freshResults`).  Core Lean only.
-/
import PyttbModel.Lemmas.Heap
namespace Pyttb.Heap

def Step.isAlloc : Step → Bool
  | .copy _ | .fresh _ _ => true
  | _ => false

/-- source register of a view-like step -/
def Step.viewSrc : Step → Option Nat
  | .transpose r _ | .tr r | .reshapeF r _ | .asF r | .squeeze r | .slice r _ _ _
  | .select r _ _ | .newaxis r _ | .alias r => some r
  | _ => none

/-- the per-step condition; `d` = number of registers defined so far -/
def stepOK (b : Nat) (recv allowed : List Nat) (d : Nat) : Step → Bool
  | .write t _ => (decide (t < b) && recv.contains t) || (decide (b ≤ t) && decide (t < b + d))
  | .copy _ | .fresh _ _ => true
  | s => match s.viewSrc with
    | some r => decide (r < b) && allowed.contains r
    | none => false

def simpleOK (b : Nat) (recv allowed : List Nat) : Nat → Prog → Bool
  | _, [] => true
  | d, s :: ss => stepOK b recv allowed d s && simpleOK b recv allowed (if s.isWrite then d else d + 1) ss

/-- roots the criterion promises for new registers -/
def goodRoot (allowed : List Nat) : Root → Prop
  | .fresh => True
  | .op k => k ∈ allowed
  | .any => False

structure SInv (b : Nat) (recv allowed : List Nat) (d : Nat) (acc : List Root × List Root) : Prop where
  len : acc.1.length = b + d
  pre : ∀ r, r < b → acc.1.getD r .any = .op r
  new : ∀ r, b ≤ r → r < b + d → goodRoot allowed (acc.1.getD r .any)
  wr : ∀ ρ ∈ acc.2, goodRoot (recv ++ allowed) ρ

theorem goodRoot_mono {a c : List Nat} {ρ : Root} (h : goodRoot a ρ) (hs : ∀ k ∈ a, k ∈ c) :
    goodRoot c ρ := by
  cases ρ with
  | fresh => trivial
  | op k => exact hs k h
  | any => exact h

theorem sinv_push {b : Nat} {recv allowed : List Nat} {d : Nat} {acc : List Root × List Root}
    (I : SInv b recv allowed d acc) (ρ : Root) (hρ : goodRoot allowed ρ) :
    SInv b recv allowed (d + 1) (acc.1 ++ [ρ], acc.2) := by
  refine ⟨by simp [I.len]; omega, ?_, ?_, I.wr⟩
  · intro r hr
    show (acc.1 ++ [ρ]).getD r .any = .op r
    rw [getD_append_one]
    have : r < acc.1.length := by rw [I.len]; omega
    simp only [this, if_true]
    exact I.pre r hr
  · intro r h1 h2
    show goodRoot allowed ((acc.1 ++ [ρ]).getD r .any)
    rw [getD_append_one, I.len]
    split
    · rename_i h3; exact I.new r h1 h3
    · split
      · exact hρ
      · rename_i h3 h4; omega

theorem simple_step {b : Nat} {recv allowed : List Nat} {d : Nat} {acc : List Root × List Root}
    (I : SInv b recv allowed d acc) (s : Step) (h : stepOK b recv allowed d s = true) :
    SInv b recv allowed (if s.isWrite then d else d + 1) (staticStep acc s) := by
  have view : ∀ r, (decide (r < b) && allowed.contains r) = true →
      SInv b recv allowed (d + 1) (acc.1 ++ [acc.1.getD r .any], acc.2) := by
    intro r hr
    have h1 : r < b := by
      have := (Bool.and_eq_true _ _).mp hr; exact of_decide_eq_true this.1
    have h2 : r ∈ allowed := List.contains_iff_mem.mp ((Bool.and_eq_true _ _).mp hr).2
    apply sinv_push I
    rw [I.pre r h1]; exact h2
  cases s with
  | write t rs =>
    simp only [Step.isWrite, if_true]
    refine ⟨I.len, I.pre, I.new, ?_⟩
    intro ρ hρ
    have hρ' : ρ ∈ acc.2 ++ [acc.1.getD t .any] := hρ
    rcases List.mem_append.mp hρ' with h1 | h1
    · exact I.wr ρ h1
    · have : ρ = acc.1.getD t .any := List.mem_singleton.mp h1
      subst this
      simp only [stepOK, Bool.or_eq_true, Bool.and_eq_true, decide_eq_true_eq] at h
      rcases h with ⟨h2, h3⟩ | ⟨h2, h3⟩
      · rw [I.pre t h2]
        exact List.mem_append_left _ (List.contains_iff_mem.mp h3)
      · exact goodRoot_mono (I.new t h2 h3) (fun k hk => List.mem_append_right _ hk)
  | copy r => exact sinv_push I .fresh trivial
  | fresh sh rs => exact sinv_push I .fresh trivial
  | transpose r p => exact view r (by simpa [stepOK, Step.viewSrc] using h)
  | tr r => exact view r (by simpa [stepOK, Step.viewSrc] using h)
  | reshapeF r sh => exact view r (by simpa [stepOK, Step.viewSrc] using h)
  | asF r => exact view r (by simpa [stepOK, Step.viewSrc] using h)
  | squeeze r => exact view r (by simpa [stepOK, Step.viewSrc] using h)
  | slice r ax lo hi => exact view r (by simpa [stepOK, Step.viewSrc] using h)
  | select r ax i => exact view r (by simpa [stepOK, Step.viewSrc] using h)
  | newaxis r ax => exact view r (by simpa [stepOK, Step.viewSrc] using h)
  | alias r => exact view r (by simpa [stepOK, Step.viewSrc] using h)

theorem simple_fold {b : Nat} {recv allowed : List Nat} (p : Prog) {d : Nat}
    {acc : List Root × List Root} (I : SInv b recv allowed d acc)
    (h : simpleOK b recv allowed d p = true) :
    SInv b recv allowed (d + ndefs p) (p.foldl staticStep acc) := by
  induction p generalizing d acc with
  | nil => simpa [ndefs] using I
  | cons s ss ih =>
    simp only [simpleOK, Bool.and_eq_true] at h
    have I' := simple_step I s h.1
    have := ih I' h.2
    simp only [List.foldl_cons]
    have hn : d + ndefs (s :: ss) = (if s.isWrite then d else d + 1) + ndefs ss := by
      simp only [ndefs, List.countP_cons]
      cases s.isWrite <;> simp <;> omega
    rw [hn]; exact this

theorem sinv_init (b : Nat) (recv allowed : List Nat) :
    SInv b recv allowed 0 (initRoots b, []) := by
  refine ⟨by simp [initRoots], ?_, ?_, ?_⟩
  · intro r hr; rw [initRoots_getD]; simp [hr]
  · intro r h1 h2; omega
  · intro ρ h; cases h

/-- The criterion implies the static checks of the in-place / no-copy specifications. -/
theorem simpleOK_sound (b : Nat) (recv allowed : List Nat) (p : Prog) (res : List Nat)
    (h : simpleOK b recv allowed 0 p = true) (hres : ∀ r ∈ res, b ≤ r ∧ r < b + ndefs p) :
    writesWithin b (recv ++ allowed) p = true ∧ resultsWithin b allowed p res = true := by
  have I := simple_fold p (sinv_init b recv allowed) h
  simp only [Nat.zero_add] at I
  constructor
  · apply List.all_eq_true.mpr
    intro ρ hρ
    have := I.wr ρ hρ
    cases ρ with
    | fresh => rfl
    | op k => exact List.contains_iff_mem.mpr this
    | any => exact this.elim
  · apply List.all_eq_true.mpr
    intro r hr
    have := I.new r (hres r hr).1 (hres r hr).2
    show (match (static b p).1.getD r .any with
      | .fresh => true | .op k => allowed.contains k | .any => false) = true
    cases hρ : (static b p).1.getD r .any with
    | fresh => rfl
    | op k =>
      have h2 : goodRoot allowed (.op k) := by
        have h3 : (static b p).1 = (List.foldl staticStep (initRoots b, []) p).1 := rfl
        rw [← h3, hρ] at this; exact this
      exact List.contains_iff_mem.mpr h2
    | any =>
      have h3 : (static b p).1 = (List.foldl staticStep (initRoots b, []) p).1 := rfl
      rw [← h3, hρ] at this; exact this.elim

/-- With no receiver and no allowed operand: nothing is written, every result is fresh. -/
theorem simpleOK_pureFresh (b : Nat) (p : Prog) (res : List Nat)
    (h : simpleOK b [] [] 0 p = true) (hres : ∀ r ∈ res, b ≤ r ∧ r < b + ndefs p) :
    pureProg b p = true ∧ freshResults b p res = true := by
  obtain ⟨h1, h2⟩ := simpleOK_sound b [] [] p res h hres
  constructor
  · apply List.all_eq_true.mpr
    intro ρ hρ
    have := List.all_eq_true.mp h1 ρ hρ
    cases ρ with
    | fresh => rfl
    | op k => simp at this
    | any => simp at this
  · apply List.all_eq_true.mpr
    intro r hr
    have := List.all_eq_true.mp h2 r hr
    cases hρ : (roots b p).getD r .any with
    | fresh => rfl
    | op k => rw [hρ] at this; simp at this
    | any => rw [hρ] at this; simp at this

/-- A program without write steps is pure. -/
theorem pure_of_no_write (b : Nat) (p : Prog) (h : p.all (fun s => !s.isWrite) = true) :
    pureProg b p = true := by
  have key : ∀ (q : Prog) (acc : List Root × List Root), q.all (fun s => !s.isWrite) = true →
      (q.foldl staticStep acc).2 = acc.2 := by
    intro q
    induction q with
    | nil => intro acc _; rfl
    | cons s ss ih =>
      intro acc hq
      simp only [List.all_cons, Bool.and_eq_true] at hq
      simp only [List.foldl_cons]
      rw [ih _ hq.2]
      cases s <;> simp_all [staticStep, Step.isWrite]
  unfold pureProg writeRoots static
  rw [key p _ h]; rfl

/-- writes within `recv ++ recv` are writes within `recv` -/
theorem writesWithin_dup (b : Nat) (recv : List Nat) (p : Prog)
    (h : writesWithin b (recv ++ recv) p = true) : writesWithin b recv p = true := by
  apply List.all_eq_true.mpr
  intro ρ hρ
  have := List.all_eq_true.mp h ρ hρ
  cases ρ with
  | fresh => rfl
  | op k =>
    have hk : k ∈ recv ++ recv := List.contains_iff_mem.mp this
    exact List.contains_iff_mem.mpr ((List.mem_append.mp hk).elim id id)
  | any => exact this

/-! ### establishing the criterion for mapped segments -/

theorem simpleOK_append (b : Nat) (recv allowed : List Nat) (d : Nat) (p q : Prog) :
    simpleOK b recv allowed d (p ++ q) =
      (simpleOK b recv allowed d p && simpleOK b recv allowed (d + ndefs p) q) := by
  induction p generalizing d with
  | nil => simp [simpleOK, ndefs]
  | cons s ss ih =>
    have hn : (if s.isWrite then d else d + 1) + ndefs ss = d + ndefs (s :: ss) := by
      simp only [ndefs, List.countP_cons]
      cases s.isWrite <;> simp <;> omega
    simp only [List.cons_append, simpleOK, ih, Bool.and_assoc, hn]

theorem ndefs_append (p q : Prog) : ndefs (p ++ q) = ndefs p + ndefs q := by
  simp [ndefs, List.countP_append]

/-- a mapped segment of non-writing steps that are each fine -/
theorem simpleOK_map_defs {β : Type} (b : Nat) (recv allowed : List Nat) (d : Nat) (l : List β)
    (f : β → Step) (h : ∀ x ∈ l, (f x).isWrite = false ∧ stepOK b recv allowed 0 (f x) = true) :
    simpleOK b recv allowed d (l.map f) = true ∧ ndefs (l.map f) = l.length := by
  induction l generalizing d with
  | nil => simp [simpleOK, ndefs]
  | cons x xs ih =>
    have hx := h x (List.mem_cons_self)
    have ih' := ih (d + 1) (fun y hy => h y (List.mem_cons_of_mem _ hy))
    have hstep : stepOK b recv allowed d (f x) = true := by
      have := hx.2
      cases hfx : f x <;> simp_all [stepOK, Step.isWrite]
    constructor
    · simp only [List.map_cons, simpleOK, hstep, hx.1, Bool.true_and]
      exact ih'.1
    · have := ih'.2
      simp only [ndefs, List.map_cons, List.countP_cons, hx.1] at *
      simp [this]

/-- a mapped segment of writes into receiver operands -/
theorem simpleOK_map_writes {β : Type} (b : Nat) (recv allowed : List Nat) (d : Nat) (l : List β)
    (t : β → Nat) (g : β → List Nat) (h : ∀ x ∈ l, t x < b ∧ t x ∈ recv) :
    simpleOK b recv allowed d (l.map (fun x => Step.write (t x) (g x))) = true ∧
      ndefs (l.map (fun x => Step.write (t x) (g x))) = 0 := by
  induction l with
  | nil => simp [simpleOK, ndefs]
  | cons x xs ih =>
    have hx := h x (List.mem_cons_self)
    have ih' := ih (fun y hy => h y (List.mem_cons_of_mem _ hy))
    constructor
    · simp only [List.map_cons, simpleOK, stepOK, Step.isWrite, if_true, Bool.and_eq_true,
        Bool.or_eq_true, decide_eq_true_eq]
      exact ⟨Or.inl ⟨hx.1, List.contains_iff_mem.mpr hx.2⟩, ih'.1⟩
    · have := ih'.2
      simp only [ndefs, List.map_cons, List.countP_cons, Step.isWrite] at *
      simp [this]

end Pyttb.Heap
