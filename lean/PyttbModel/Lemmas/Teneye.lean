/-
Lemmas for `teneye` (property C20): closed form of the entries, symmetry.
-/
import PyttbModel.Lemmas.Generators
import Mathlib.Data.List.Permutation
namespace Pyttb
variable {α : Type}

theorem insertAll_eq {β : Type} (x : β) (l : List β) : insertAll x l = List.permutations'Aux x l := by
  induction l with
  | nil => rfl
  | cons y ys ih => simp [insertAll, List.permutations'Aux, ih]

theorem perms_eq {β : Type} (l : List β) : perms l = List.permutations' l := by
  induction l with
  | nil => rfl
  | cons x xs ih =>
    simp only [perms, List.permutations', ih]
    congr 1
    funext t
    exact insertAll_eq x t

theorem mem_perms {β : Type} {t l : List β} : t ∈ perms l ↔ t.Perm l := by
  rw [perms_eq]; exact List.mem_permutations'

theorem perms_perm {β : Type} {l₁ l₂ : List β} (h : l₁.Perm l₂) : (perms l₁).Perm (perms l₂) := by
  rw [perms_eq, perms_eq]; exact h.permutations'

theorem pairCount_perm (m : Nat) {l₁ l₂ : List Nat} (h : l₁.Perm l₂) : pairCount m l₁ = pairCount m l₂ := by
  unfold pairCount
  exact ((perms_perm h).filter _).length_eq

theorem inBounds_replicate_iff (m n : Nat) (t : List Nat) :
    InBounds (List.replicate m n) t ↔ t.length = m ∧ ∀ x ∈ t, x < n := by
  induction m generalizing t with
  | zero => cases t <;> simp [InBounds]
  | succ m ih =>
    cases t with
    | nil => simp [List.replicate_succ, InBounds]
    | cons a t => simp [List.replicate_succ, InBounds, ih]; tauto

theorem mem_combsFrom (n : Nat) (m lo : Nat) (c : List Nat) (hl : c.length = m)
    (hs : c.Pairwise (· ≤ ·)) (hb : ∀ x ∈ c, lo ≤ x ∧ x < n) : c ∈ combsFrom n lo m := by
  induction m generalizing lo c with
  | zero =>
    have : c = [] := List.length_eq_zero_iff.1 hl
    simp [combsFrom, this]
  | succ m ih =>
    cases c with
    | nil => simp at hl
    | cons a c =>
      rw [List.pairwise_cons] at hs
      simp only [combsFrom, List.mem_flatMap, List.mem_filter, List.mem_range, List.mem_map]
      have ha := hb a (List.mem_cons_self ..)
      refine ⟨a, ⟨ha.2, by simpa using ha.1⟩, c, ?_, rfl⟩
      apply ih a c (by simpa using hl) hs.2
      intro x hx
      exact ⟨hs.1 x hx, (hb x (List.mem_cons_of_mem _ hx)).2⟩

theorem combsFrom_sound (n : Nat) (m lo : Nat) (c : List Nat) (h : c ∈ combsFrom n lo m) :
    c.length = m ∧ ∀ x ∈ c, x < n := by
  induction m generalizing lo c with
  | zero => simp [combsFrom] at h; simp [h]
  | succ m ih =>
    simp only [combsFrom, List.mem_flatMap, List.mem_filter, List.mem_range, List.mem_map] at h
    obtain ⟨a, ⟨ha, _⟩, c', hc', rfl⟩ := h
    obtain ⟨h1, h2⟩ := ih a c' hc'
    refine ⟨by simp [h1], ?_⟩
    intro x hx
    rcases List.mem_cons.1 hx with rfl | hx
    · exact ha
    · exact h2 x hx

/-- Every in-bounds subscript has its sorted rearrangement among the index tuples visited. -/
theorem exists_comb (m n : Nat) (i : List Nat) (hi : InBounds (List.replicate m n) i) :
    ∃ c ∈ combsRepl n m, c.Perm i := by
  obtain ⟨hl, hb⟩ := (inBounds_replicate_iff m n i).1 hi
  refine ⟨i.mergeSort (fun a b => decide (a ≤ b)), ?_, List.mergeSort_perm _ _⟩
  apply mem_combsFrom
  · rw [List.length_mergeSort]; exact hl
  · have := List.pairwise_mergeSort (le := fun a b : Nat => decide (a ≤ b))
      (fun a b c h1 h2 => by simp at *; omega) (fun a b => by simp; omega) i
    simpa using this
  · intro x hx
    exact ⟨Nat.zero_le _, hb x ((List.mergeSort_perm _ _).mem_iff.1 hx)⟩

section fold
variable [Zero α]

/-- The loop body of `teneye` for one index tuple. -/
def eyeStep (m : Nat) (val : List Nat → α) (A : Dense α) (idx : List Nat) : Dense α :=
  A.setSubs (perms idx) (List.replicate (perms idx).length (val idx))

theorem eyeStep_spec (m n : Nat) (val : List Nat → α) (A : Dense α) (hA : A.WF)
    (hs : A.shape = List.replicate m n) (c : List Nat) (hc : c.length = m ∧ ∀ x ∈ c, x < n) :
    (eyeStep m val A c).WF ∧ (eyeStep m val A c).shape = List.replicate m n ∧
    ∀ i, InBounds (List.replicate m n) i →
      (eyeStep m val A c).get i = if c.Perm i then val c else A.get i := by
  have hin : ∀ r ∈ perms c, InBounds A.shape r := by
    intro r hr
    rw [hs, inBounds_replicate_iff]
    have hp := mem_perms.1 hr
    exact ⟨hp.length_eq.trans hc.1, fun x hx => hc.2 x (hp.mem_iff.1 hx)⟩
  refine ⟨Dense.setSubs_WF _ hA _ _, hs, ?_⟩
  intro i hi
  by_cases hp : c.Perm i
  · rw [if_pos hp]
    exact Dense.setSubs_get_const A hA (perms c) (val c) (hs ▸ hi) (mem_perms.2 hp.symm)
  · rw [if_neg hp]
    exact Dense.setSubs_get_of_not_mem A _ _ hin (hs ▸ hi) (fun h => hp (mem_perms.1 h).symm)

theorem eyeFold_spec (m n : Nat) (val : List Nat → α) (hval : ∀ c c' : List Nat, c.Perm c' → val c = val c')
    (L : List (List Nat)) (hL : ∀ c ∈ L, c.length = m ∧ ∀ x ∈ c, x < n)
    (A : Dense α) (hA : A.WF) (hs : A.shape = List.replicate m n) :
    (L.foldl (eyeStep m val) A).WF ∧ (L.foldl (eyeStep m val) A).shape = List.replicate m n ∧
    ∀ i, InBounds (List.replicate m n) i →
      (L.foldl (eyeStep m val) A).get i = if ∃ c ∈ L, c.Perm i then val i else A.get i := by
  induction L generalizing A with
  | nil => exact ⟨hA, hs, fun i _ => by simp⟩
  | cons c L ih =>
    obtain ⟨w, s, g⟩ := eyeStep_spec m n val A hA hs c (hL c (List.mem_cons_self ..))
    obtain ⟨w', s', g'⟩ := ih (fun c' hc' => hL c' (List.mem_cons_of_mem _ hc')) _ w s
    refine ⟨w', s', ?_⟩
    intro i hi
    rw [List.foldl_cons, g' i hi, g i hi]
    by_cases h1 : ∃ c' ∈ L, c'.Perm i
    · have : ∃ c' ∈ c :: L, c'.Perm i := by
        obtain ⟨c', h, hp⟩ := h1; exact ⟨c', List.mem_cons_of_mem _ h, hp⟩
      rw [if_pos h1, if_pos this]
    · rw [if_neg h1]
      by_cases h2 : c.Perm i
      · rw [if_pos h2, if_pos ⟨c, List.mem_cons_self .., h2⟩]
        exact hval _ _ h2
      · rw [if_neg h2, if_neg]
        rintro ⟨c', hc', hp⟩
        rcases List.mem_cons.1 hc' with rfl | h
        · exact h2 hp
        · exact h1 ⟨c', h, hp⟩

end fold

/-- Closed form of `teneye`: the entry at `i` is the share of the `m!` rearrangements of `i`
that pass the pairing test. -/
theorem teneye_entry [Zero α] [NatCast α] [Div α] (m n : Nat) (hm : m % 2 = 0) (hm0 : m ≠ 0) :
    ∃ E : Dense α, Dense.teneye m n = .ok E ∧ E.shape = List.replicate m n ∧ E.WF ∧
      ∀ i, InBounds (List.replicate m n) i → E.get i = (pairCount m i : α) / (fact m : α) := by
  have hne : List.replicate m n ≠ [] := by
    cases m with
    | zero => exact absurd rfl hm0
    | succ m => simp [List.replicate_succ]
  let val : List Nat → α := fun idx => (pairCount m idx : α) / (fact m : α)
  have hval : ∀ c c' : List Nat, c.Perm c' → val c = val c' := by
    intro c c' h; simp only [val, pairCount_perm m h]
  have hL : ∀ c ∈ combsRepl n m, c.length = m ∧ ∀ x ∈ c, x < n :=
    fun c hc => combsFrom_sound n m 0 c hc
  obtain ⟨w, s, g⟩ := eyeFold_spec m n val hval (combsRepl n m) hL
    (Dense.ofFn (List.replicate m n) fun _ => (0 : α)) (Dense.ofFn_WF _ _) rfl
  refine ⟨(combsRepl n m).foldl (eyeStep m val) (Dense.ofFn (List.replicate m n) fun _ => (0 : α)), ?_, s, w, ?_⟩
  · simp only [Dense.teneye, hm, Dense.tenzeros_ok _ hne]
    rfl
  · intro i hi
    rw [g i hi, if_pos (exists_comb m n i hi)]


/-- `teneye` is symmetric: permuting a subscript does not change the entry. -/
theorem teneye_sym [Zero α] [NatCast α] [Div α] (m n : Nat) (hm : m % 2 = 0) (hm0 : m ≠ 0)
    (p : List Nat) (hp : isPermOf p m = true) (i : List Nat) (hi : InBounds (List.replicate m n) i) :
    ∃ E : Dense α, Dense.teneye m n = .ok E ∧ InBounds E.shape (gather i p) ∧ E.get (gather i p) = E.get i := by
  obtain ⟨E, h1, h2, _, h4⟩ := teneye_entry (α := α) m n hm hm0
  obtain ⟨hl, hb⟩ := (inBounds_replicate_iff m n i).1 hi
  have hperm : (gather i p).Perm i := gather_perm_self (by rw [hl]; exact hp)
  have hi' : InBounds (List.replicate m n) (gather i p) := by
    rw [inBounds_replicate_iff]
    exact ⟨hperm.length_eq.trans hl, fun x hx => hb x (hperm.mem_iff.1 hx)⟩
  refine ⟨E, h1, h2 ▸ hi', ?_⟩
  rw [h4 _ hi', h4 _ hi, pairCount_perm m hperm]

theorem teneye_rejects [Zero α] [NatCast α] [Div α] (m n : Nat) :
    (m % 2 = 1 → Dense.teneye (α := α) m n = .error .reject) ∧
    (m = 0 → Dense.teneye (α := α) m n = .error .reject) := by
  constructor
  · intro h; simp [Dense.teneye, h]
  · rintro rfl; rfl

end Pyttb
