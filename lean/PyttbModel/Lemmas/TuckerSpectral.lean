/-
C10 — the Gram matrix of an unfolding, the contract of `eigh`, and what the contract gives:
the energy kept by a set of eigenvector columns is the sum of their eigenvalues, the whole
energy is the sum of all eigenvalues, eigenvalues are non-negative.
-/
import PyttbModel.Lemmas.TuckerMulti
import Mathlib.LinearAlgebra.Matrix.NonsingularInverse
namespace Pyttb
namespace Tk
open Finset

/-- `Z` is a symmetric `n × n` matrix. -/
structure IsSymmSq (Z : Mat ℝ) (n : Nat) : Prop where
  rows : Z.length = n
  cols : ∀ row ∈ Z, row.length = n
  symm : ∀ a < n, ∀ b < n, Z.get a b = Z.get b a

/-- Contract of `scipy.linalg.eigh` on an `n × n` matrix `Z`: `n` eigenvalues, an `n × n`
matrix with orthonormal columns, `Z V = V diag(D)`. -/
structure EighOK (Z : Mat ℝ) (n : Nat) (D : List ℝ) (V : Mat ℝ) : Prop where
  len : D.length = n
  ortho : OrthoCols V n n
  eig : ∀ a < n, ∀ c < n, ∑ b ∈ range n, Z.get a b * V.get b c = D.getD c 0 * V.get a c

theorem getD_map_range {β : Type} (n : Nat) (f : Nat → β) (d : β) {a : Nat} (ha : a < n) :
    ((List.range n).map f).getD a d = f a := by
  simp [List.getD_eq_getElem?_getD, List.getElem?_map, List.getElem?_range ha]

/-- Entries of the Gram matrix of the mode-`k` unfolding. -/
theorem gramMode_get (Y : Dense ℝ) (k : Nat) {a b : Nat} (ha : a < Y.shape.getD k 0) (hb : b < Y.shape.getD k 0) :
    (gramMode Y k).get a b = sumSubs (Y.shape.set k 1) (fun j0 => Y.get (j0.set k a) * Y.get (j0.set k b)) := by
  simp only [gramMode, Mat.get]
  rw [getD_map_range _ _ _ ha, getD_map_range _ _ _ hb]
  exact sum_allSubs _ _

theorem gramMode_symm (Y : Dense ℝ) (k : Nat) : IsSymmSq (gramMode Y k) (Y.shape.getD k 0) := by
  refine ⟨by simp [gramMode], ?_, ?_⟩
  · intro row hrow
    simp only [gramMode, List.mem_map, List.mem_range] at hrow
    obtain ⟨a, _, rfl⟩ := hrow
    simp
  · intro a ha b hb
    rw [gramMode_get Y k ha hb, gramMode_get Y k hb ha]
    apply sumSubs_congr
    intro j _
    ring

/-- The squared norm of `Y ×ₖ Uᵀ` as a quadratic form of the Gram matrix. -/
theorem normSq_ttmT_quad (Y : Dense ℝ) (U : Mat ℝ) (k : Nat) (hk : k < Y.shape.length) :
    normSq (ttmT Y U k true) = ∑ c ∈ range U.ncols, ∑ a ∈ range (Y.shape.getD k 0),
      ∑ b ∈ range (Y.shape.getD k 0), U.get a c * U.get b c * (gramMode Y k).get a b := by
  rw [normSq_ttmT Y U k true hk]
  simp only [outDim, coef, if_true]
  have e : ∀ j0 : List Nat, (∑ c ∈ range U.ncols,
      (∑ a ∈ range (Y.shape.getD k 0), U.get a c * Y.get (j0.set k a)) ^ 2) =
      ∑ c ∈ range U.ncols, ∑ a ∈ range (Y.shape.getD k 0), ∑ b ∈ range (Y.shape.getD k 0),
        (U.get a c * U.get b c) * (Y.get (j0.set k a) * Y.get (j0.set k b)) := by
    intro j0
    apply Finset.sum_congr rfl; intro c _
    rw [pow_two, Finset.sum_mul_sum]
    apply Finset.sum_congr rfl; intro a _
    apply Finset.sum_congr rfl; intro b _
    ring
  simp only [e]
  rw [sumSubs_finset_sum]
  apply Finset.sum_congr rfl; intro c _
  rw [sumSubs_finset_sum]
  apply Finset.sum_congr rfl; intro a ha
  rw [sumSubs_finset_sum]
  apply Finset.sum_congr rfl; intro b hb
  rw [sumSubs_mul_left, gramMode_get Y k (Finset.mem_range.1 ha) (Finset.mem_range.1 hb)]

/-- A square matrix with orthonormal columns has orthonormal rows. -/
theorem OrthoCols.rows_ortho {V : Mat ℝ} {n : Nat} (h : OrthoCols V n n) :
    ∀ a < n, ∀ a' < n, ∑ c ∈ range n, V.get a c * V.get a' c = if a = a' then 1 else 0 := by
  let M : Matrix (Fin n) (Fin n) ℝ := Matrix.of fun i j => V.get i j
  have h1 : M.transpose * M = 1 := by
    ext c c'
    rw [Matrix.mul_apply, Matrix.one_apply]
    simp only [Matrix.transpose_apply, M, Matrix.of_apply]
    rw [Fin.sum_univ_eq_sum_range (fun a => V.get a c * V.get a c') n, h.orth c c.2 c' c'.2]
    simp [Fin.ext_iff]
  have h2 : M * M.transpose = 1 := mul_eq_one_comm.mp h1
  intro a ha a' ha'
  have := congrFun (congrFun h2 ⟨a, ha⟩) ⟨a', ha'⟩
  rw [Matrix.mul_apply, Matrix.one_apply] at this
  simp only [Matrix.transpose_apply, M, Matrix.of_apply] at this
  rw [Fin.sum_univ_eq_sum_range (fun c => V.get a c * V.get a' c) n] at this
  rw [this]
  simp [Fin.ext_iff]

/-- Parseval for a square orthonormal matrix. -/
theorem OrthoCols.parseval {V : Mat ℝ} {n : Nat} (h : OrthoCols V n n) (x : Nat → ℝ) :
    ∑ c ∈ range n, (∑ a ∈ range n, V.get a c * x a) ^ 2 = ∑ a ∈ range n, x a ^ 2 := by
  have e : ∀ c, (∑ a ∈ range n, V.get a c * x a) ^ 2 =
      ∑ a ∈ range n, ∑ a' ∈ range n, (V.get a c * V.get a' c) * (x a * x a') := by
    intro c
    rw [pow_two, Finset.sum_mul_sum]
    apply Finset.sum_congr rfl; intro a _
    apply Finset.sum_congr rfl; intro a' _
    ring
  simp only [e]
  rw [Finset.sum_comm]
  apply Finset.sum_congr rfl
  intro a ha
  rw [Finset.sum_comm]
  have : ∀ a' ∈ range n, ∑ c ∈ range n, V.get a c * V.get a' c * (x a * x a') =
      (if a = a' then 1 else 0) * (x a * x a') := by
    intro a' ha'
    rw [← Finset.sum_mul, h.rows_ortho a (Finset.mem_range.1 ha) a' (Finset.mem_range.1 ha')]
  rw [Finset.sum_congr rfl this]
  simp only [ite_mul, one_mul, zero_mul]
  rw [Finset.sum_ite_eq]
  simp only [ha, if_true]
  ring

/-- Multiplying a mode by the transpose of a square orthonormal matrix keeps the norm. -/
theorem normSq_ttmT_orthogonal (T : Dense ℝ) (hT : T.WF) (V : Mat ℝ) (k : Nat) (hk : k < T.shape.length)
    (hV : OrthoCols V (T.shape.getD k 0) (T.shape.getD k 0)) : normSq (ttmT T V k true) = normSq T := by
  rw [normSq_ttmT T V k true hk, normSq_split T hT k hk]
  apply sumSubs_congr
  intro j0 _
  have : outDim V true = T.shape.getD k 0 := by simp [outDim, hV.ncols]
  rw [this]
  simpa [coef] using hV.parseval (fun a => T.get (j0.set k a))

/-- `vᵀ_c Z v_c' = λ_c' δ_cc'`. -/
theorem EighOK.quad {Z : Mat ℝ} {n : Nat} {D : List ℝ} {V : Mat ℝ} (h : EighOK Z n D V)
    {c c' : Nat} (hc : c < n) (hc' : c' < n) :
    ∑ a ∈ range n, ∑ b ∈ range n, V.get a c * V.get b c' * Z.get a b =
      if c = c' then D.getD c' 0 else 0 := by
  have e : ∀ a ∈ range n, ∑ b ∈ range n, V.get a c * V.get b c' * Z.get a b =
      D.getD c' 0 * (V.get a c * V.get a c') := by
    intro a ha
    have := h.eig a (Finset.mem_range.1 ha) c' hc'
    calc ∑ b ∈ range n, V.get a c * V.get b c' * Z.get a b
        = V.get a c * ∑ b ∈ range n, Z.get a b * V.get b c' := by
          rw [Finset.mul_sum]; apply Finset.sum_congr rfl; intro b _; ring
      _ = D.getD c' 0 * (V.get a c * V.get a c') := by rw [this]; ring
  rw [Finset.sum_congr rfl e, ← Finset.mul_sum, h.ortho.orth c hc c' hc']
  split <;> simp

/-- The energy kept by the columns `± V[:, σ 0], …, ± V[:, σ (p-1)]` is the sum of their eigenvalues. -/
theorem normSq_ttmT_eigcols_signed (Y : Dense ℝ) (k : Nat) (hk : k < Y.shape.length) (D : List ℝ) (V U : Mat ℝ)
    (h : EighOK (gramMode Y k) (Y.shape.getD k 0) D V) (σ : Nat → Nat) (ε : Nat → ℝ)
    (hε : ∀ i < U.ncols, ε i * ε i = 1)
    (hσ : ∀ i < U.ncols, σ i < Y.shape.getD k 0)
    (hU : ∀ a < Y.shape.getD k 0, ∀ i < U.ncols, U.get a i = ε i * V.get a (σ i)) :
    normSq (ttmT Y U k true) = ∑ i ∈ range U.ncols, D.getD (σ i) 0 := by
  rw [normSq_ttmT_quad Y U k hk]
  apply Finset.sum_congr rfl
  intro i hi
  have hi' := Finset.mem_range.1 hi
  have := h.quad (hσ i hi') (hσ i hi')
  simp only [if_true] at this
  rw [← this]
  apply Finset.sum_congr rfl; intro a ha
  apply Finset.sum_congr rfl; intro b hb
  rw [hU a (Finset.mem_range.1 ha) i hi', hU b (Finset.mem_range.1 hb) i hi']
  have e := hε i hi'
  calc ε i * V.get a (σ i) * (ε i * V.get b (σ i)) * (gramMode Y k).get a b
      = (ε i * ε i) * (V.get a (σ i) * V.get b (σ i) * (gramMode Y k).get a b) := by ring
    _ = V.get a (σ i) * V.get b (σ i) * (gramMode Y k).get a b := by rw [e, one_mul]

/-- The energy kept by the columns `σ 0, …, σ (p-1)` of `V` is the sum of their eigenvalues. -/
theorem normSq_ttmT_eigcols (Y : Dense ℝ) (k : Nat) (hk : k < Y.shape.length) (D : List ℝ) (V U : Mat ℝ)
    (h : EighOK (gramMode Y k) (Y.shape.getD k 0) D V) (σ : Nat → Nat)
    (hσ : ∀ i < U.ncols, σ i < Y.shape.getD k 0)
    (hU : ∀ a < Y.shape.getD k 0, ∀ i < U.ncols, U.get a i = V.get a (σ i)) :
    normSq (ttmT Y U k true) = ∑ i ∈ range U.ncols, D.getD (σ i) 0 :=
  normSq_ttmT_eigcols_signed Y k hk D V U h σ (fun _ => 1) (fun _ _ => by ring) hσ
    (fun a ha i hi => by rw [hU a ha i hi, one_mul])

/-- The whole energy is the sum of all eigenvalues. -/
theorem normSq_eq_sum_eig (Y : Dense ℝ) (hY : Y.WF) (k : Nat) (hk : k < Y.shape.length) (D : List ℝ) (V : Mat ℝ)
    (h : EighOK (gramMode Y k) (Y.shape.getD k 0) D V) :
    normSq Y = ∑ c ∈ range (Y.shape.getD k 0), D.getD c 0 := by
  rw [← normSq_ttmT_orthogonal Y hY V k hk h.ortho]
  have := normSq_ttmT_eigcols Y k hk D V V h id
  rw [h.ortho.ncols] at this
  exact this (fun i hi => hi) (fun a _ i _ => rfl)

theorem matCols_get (V : Mat ℝ) (idx : List Nat) (a i : Nat) (ha : a < V.length) (hi : i < idx.length) :
    (matCols V idx).get a i = V.get a (idx.getD i 0) := by
  simp only [matCols, Mat.get, List.getD_eq_getElem?_getD, List.getElem?_map, List.getElem?_eq_getElem ha,
    List.getElem?_eq_getElem hi, Option.map_some, Option.getD_some]

theorem matCols_ncols (V : Mat ℝ) (idx : List Nat) (hV : 0 < V.length) : (matCols V idx).ncols = idx.length := by
  cases V with
  | nil => simp at hV
  | cons r V => simp [matCols, Mat.ncols]

/-- Distinct columns of a matrix with orthonormal columns are orthonormal. -/
theorem OrthoCols.matCols {V : Mat ℝ} {n q : Nat} (h : OrthoCols V n q) (idx : List Nat)
    (hidx : ∀ c ∈ idx, c < q) (hnd : idx.Nodup) : OrthoCols (matCols V idx) n idx.length := by
  refine ⟨by simp [Tk.matCols, h.rows], ?_, ?_⟩
  · intro row hrow
    simp only [Tk.matCols, List.mem_map] at hrow
    obtain ⟨r, _, rfl⟩ := hrow
    simp
  · intro c hc c' hc'
    have e : ∀ a ∈ range n, (Tk.matCols V idx).get a c * (Tk.matCols V idx).get a c' =
        V.get a (idx.getD c 0) * V.get a (idx.getD c' 0) := by
      intro a ha
      have ha' : a < V.length := by rw [h.rows]; exact Finset.mem_range.1 ha
      rw [matCols_get V idx a c ha' hc, matCols_get V idx a c' ha' hc']
    rw [Finset.sum_congr rfl e]
    have m1 : idx.getD c 0 ∈ idx := by
      rw [List.getD_eq_getElem?_getD, List.getElem?_eq_getElem hc]; simp
    have m2 : idx.getD c' 0 ∈ idx := by
      rw [List.getD_eq_getElem?_getD, List.getElem?_eq_getElem hc']; simp
    rw [h.orth _ (hidx _ m1) _ (hidx _ m2)]
    have : idx.getD c 0 = idx.getD c' 0 ↔ c = c' := by
      constructor
      · intro he
        rw [List.getD_eq_getElem?_getD, List.getD_eq_getElem?_getD, List.getElem?_eq_getElem hc,
          List.getElem?_eq_getElem hc'] at he
        simp only [Option.getD_some] at he
        exact (List.Nodup.getElem_inj_iff hnd).1 he
      · intro he; rw [he]
    simp only [this]

end Tk
end Pyttb
