/-
C01 — conversions between tensor representations.  The lemmas behind Props/C01.lean:
* ConvertSparse: `toSparse_get`, `toSparse_wf`, `toSparse_nnz`, `sp_full_at`, `dense_sparse_dense`,
  `sparse_dense_sparse`
* ConvertTenmat: `tenmat_entry`, `tenmat_roundtrip`, `tenmat_rejects`, `wrap_conventions`
* ConvertKruskal: `kruskal_full`
* ConvertSptenmat: `sptenmat_entry`, `sptenmat_roundtrip`, `sptenmat_full`
-/
import PyttbModel.Lemmas.ConvertSparse
import PyttbModel.Lemmas.ConvertTenmat
import PyttbModel.Lemmas.ConvertKruskal
import PyttbModel.Lemmas.ConvertSptenmat
