/-
Lemmas about F-contiguity in the heap model (C05): canonical F strides are F-contiguous,
the identity transposition is the identity, a transposition of an F-contiguous array without
singleton / empty modes is F-contiguous only for the identity order, and the aliasing
behaviour of `asF` / `reshapeF`.  Core Lean only.
-/
import PyttbModel.Lemmas.Heap
namespace Pyttb.Heap

/-! ### canonical F strides -/

theorem fStridesFrom_length (acc : Nat) (s : List Nat) :
    (fStridesFrom acc s).length = s.length := by
  induction s generalizing acc with
  | nil => rfl
  | cons d ds ih => simp only [fStridesFrom, List.length_cons, ih]

theorem fStridesFrom_getD (acc : Nat) (s : List Nat) (k : Nat) (hk : k < s.length) :
    (fStridesFrom acc s).getD k 0 = acc * numel (s.take k) := by
  induction s generalizing acc k with
  | nil => simp at hk
  | cons d ds ih =>
    cases k with
    | zero => simp [fStridesFrom]
    | succ k =>
      simp only [List.length_cons, Nat.add_lt_add_iff_right] at hk
      simp only [fStridesFrom, List.getD_cons_succ, List.take_succ_cons, numel_cons]
      rw [ih (acc * d) k hk, Nat.mul_assoc]

theorem fStrides_getD (s : List Nat) (k : Nat) (hk : k < s.length) :
    (fStrides s).getD k 0 = stride s k := by
  unfold fStrides stride
  rw [fStridesFrom_getD 1 s k hk, Nat.one_mul]

theorem isFgo_fStridesFrom (acc : Nat) (s : List Nat) :
    View.isFgo acc s (fStridesFrom acc s) = true := by
  induction s generalizing acc with
  | nil => rfl
  | cons d ds ih =>
    simp only [fStridesFrom, View.isFgo]
    split
    · rename_i h
      have hd : d = 1 := eq_of_beq h
      subst hd
      have := ih (acc * 1)
      rw [Nat.mul_one] at this
      rw [Nat.mul_one]; exact this
    · simp [ih (acc * d)]

theorem isF_canonical (b off : Nat) (s : List Nat) :
    (⟨b, off, s, fStrides s⟩ : View).isF = true := by
  simp only [View.isF, fStrides, isFgo_fStridesFrom, Bool.or_true]

theorem isF_reF (v : View) (s : List Nat) : (v.reF s).isF = true := by
  simp only [View.reF, View.isF, fStrides, isFgo_fStridesFrom, Bool.or_true]

/-! ### the identity transposition -/

theorem gather_range (l : List Nat) : gather l (List.range l.length) = l := by
  unfold gather
  apply List.ext_getElem
  · simp
  · intro i h1 h2
    simp [List.getElem?_eq_getElem h2]

theorem transpose_identity (v : View) (h : v.strides.length = v.shape.length) :
    v.transpose (List.range v.shape.length) = v := by
  unfold View.transpose
  rw [gather_range]
  conv => lhs; rw [← h, gather_range]

/-! ### strides of a shape without singleton / empty modes are strictly increasing -/

theorem numel_take_succ (s : List Nat) (k : Nat) (hk : k < s.length) :
    numel (s.take (k + 1)) = numel (s.take k) * s.getD k 0 := by
  induction s generalizing k with
  | nil => simp at hk
  | cons d ds ih =>
    cases k with
    | zero => simp [Nat.mul_comm]
    | succ k =>
      simp only [List.length_cons, Nat.add_lt_add_iff_right] at hk
      simp only [List.take_succ_cons, numel_cons, List.getD_cons_succ]
      rw [ih k hk, Nat.mul_assoc]

theorem stride_succ (s : List Nat) (k : Nat) (hk : k < s.length) :
    stride s (k + 1) = stride s k * s.getD k 0 := numel_take_succ s k hk

theorem getD_mem (s : List Nat) (k : Nat) (hk : k < s.length) : s.getD k 0 ∈ s := by
  rw [List.getD_eq_getElem?_getD, List.getElem?_eq_getElem hk]
  exact List.getElem_mem hk

theorem numel_pos (s : List Nat) (hs : ∀ d ∈ s, 2 ≤ d) : 0 < numel s := by
  induction s with
  | nil => simp
  | cons d ds ih =>
    rw [numel_cons]
    have h1 : 2 ≤ d := hs d List.mem_cons_self
    have h2 := ih (fun x hx => hs x (List.mem_cons_of_mem _ hx))
    exact Nat.mul_pos (by omega) h2

theorem stride_pos (s : List Nat) (hs : ∀ d ∈ s, 2 ≤ d) (k : Nat) : 0 < stride s k :=
  numel_pos _ (fun d hd => hs d (List.mem_of_mem_take hd))

theorem stride_lt_succ (s : List Nat) (hs : ∀ d ∈ s, 2 ≤ d) (k : Nat) (hk : k < s.length) :
    stride s k < stride s (k + 1) := by
  rw [stride_succ s k hk]
  have h1 : 2 ≤ s.getD k 0 := hs _ (getD_mem s k hk)
  have h2 := stride_pos s hs k
  calc stride s k = stride s k * 1 := (Nat.mul_one _).symm
    _ < stride s k * s.getD k 0 := Nat.mul_lt_mul_of_pos_left (by omega) h2

theorem stride_le_succ (s : List Nat) (hs : ∀ d ∈ s, 2 ≤ d) (k : Nat) :
    stride s k ≤ stride s (k + 1) := by
  rcases Nat.lt_or_ge k s.length with h | h
  · exact Nat.le_of_lt (stride_lt_succ s hs k h)
  · unfold stride
    rw [List.take_of_length_le h, List.take_of_length_le (Nat.le_succ_of_le h)]
    exact Nat.le_refl _

theorem stride_mono (s : List Nat) (hs : ∀ d ∈ s, 2 ≤ d) {a b : Nat} (h : a ≤ b) :
    stride s a ≤ stride s b := by
  induction b with
  | zero =>
    have : a = 0 := by omega
    subst this; exact Nat.le_refl _
  | succ b ih =>
    rcases Nat.lt_or_ge a (b + 1) with h1 | h1
    · exact Nat.le_trans (ih (by omega)) (stride_le_succ s hs b)
    · have : a = b + 1 := by omega
      subst this; exact Nat.le_refl _

/-- A mode (in range) is determined by its stride. -/
theorem stride_inj (s : List Nat) (hs : ∀ d ∈ s, 2 ≤ d) {k m : Nat} (hk : k < s.length)
    (h : stride s k = stride s m) : k = m := by
  rcases Nat.lt_trichotomy k m with h1 | h1 | h1
  · have a := stride_lt_succ s hs k hk
    have b := stride_mono s hs (a := k + 1) (b := m) h1
    omega
  · exact h1
  · have hm : m < s.length := by omega
    have a := stride_lt_succ s hs m hm
    have b := stride_mono s hs (a := m + 1) (b := k) h1
    omega

/-- The core of `isF_transpose_iff`: if NumPy's walk succeeds from running stride
`stride s m` on the modes `l` of an F-ordered array of shape `s`, then `l` is `m, m+1, …`. -/
theorem isFgo_modes (s : List Nat) (hs : ∀ d ∈ s, 2 ≤ d) (l : List Nat) (m : Nat)
    (hl : ∀ k ∈ l, k < s.length)
    (h : View.isFgo (stride s m) (l.map (fun k => s.getD k 0)) (l.map (fun k => stride s k))
      = true) :
    l = List.range' m l.length := by
  induction l generalizing m with
  | nil => rfl
  | cons k l ih =>
    have hk : k < s.length := hl k List.mem_cons_self
    have hd : 2 ≤ s.getD k 0 := hs _ (getD_mem s k hk)
    have hne : (s.getD k 0 == 1) = false := by
      apply Bool.eq_false_iff.mpr
      intro hc
      have := eq_of_beq hc
      omega
    simp only [List.map_cons, View.isFgo, hne, Bool.false_eq_true, if_false, Bool.and_eq_true] at h
    have hkm : k = m := stride_inj s hs hk (eq_of_beq h.1)
    subst hkm
    have h2 := h.2
    rw [← stride_succ s k hk] at h2
    have := ih (k + 1) (fun x hx => hl x (List.mem_cons_of_mem _ hx)) h2
    simp only [List.length_cons, List.range'_succ]
    rw [← this]

theorem gather_no_zero (s p : List Nat) (hs : ∀ d ∈ s, 2 ≤ d) (hp : ∀ k ∈ p, k < s.length) :
    (gather s p).contains 0 = false := by
  apply Bool.eq_false_iff.mpr
  intro hc
  have hm : 0 ∈ gather s p := List.contains_iff_mem.mp hc
  unfold gather at hm
  obtain ⟨k, hk, he⟩ := List.mem_map.mp hm
  have := hs _ (getD_mem s k (hp k hk))
  omega

/-- An F-contiguous array without singleton / empty modes, transposed by the order `p`, is
F-contiguous exactly when `p` is the identity. -/
theorem isF_transpose_iff (b off : Nat) (s p : List Nat) (hs : ∀ d ∈ s, 2 ≤ d)
    (hp : ∀ k ∈ p, k < s.length) (hl : p.length = s.length) :
    ((⟨b, off, s, fStrides s⟩ : View).transpose p).isF = true ↔ p = List.range s.length := by
  constructor
  · intro h
    simp only [View.transpose, View.isF, gather_no_zero s p hs hp, Bool.false_or] at h
    have hst : gather (fStrides s) p = p.map (fun k => stride s k) := by
      unfold gather
      apply List.map_congr_left
      intro k hk
      exact fStrides_getD s k (hp k hk)
    rw [hst] at h
    have h0 : stride s 0 = 1 := rfl
    rw [← h0] at h
    have := isFgo_modes s hs p 0 hp h
    rw [hl] at this
    rw [this, List.range_eq_range']
  · intro h
    subst h
    have := transpose_identity (⟨b, off, s, fStrides s⟩ : View)
      (by simp only [fStrides, fStridesFrom_length])
    simp only at this
    rw [this]
    exact isF_canonical b off s

/-- Why `isF_transpose_iff` needs "no singleton mode": moving a mode of extent one keeps the
array F-contiguous. -/
example : ((⟨0, 0, [2,1,3], fStrides [2,1,3]⟩ : View).transpose [1,0,2]).isF = true := by decide

/-! ### `asfortranarray` and F-order `reshape` -/

theorem asF_view {α : Type} (d : α) (st : Store α) (v : View) (h : v.isF = true) :
    asF d st v = (st, v) := by
  unfold asF; rw [if_pos h]

theorem asF_copy {α : Type} (d : α) (st : Store α) (v : View) (h : v.isF = false) :
    asF d st v = copyF d st v := by
  unfold asF; rw [h]; rfl

theorem reshapeF_view {α : Type} (d : α) (st : Store α) (v : View) (s : List Nat)
    (h : v.isF = true) :
    (reshapeF d st v s).1 = st ∧ (reshapeF d st v s).2.buf = v.buf := by
  unfold reshapeF
  split
  · exact ⟨rfl, rfl⟩
  · exact ⟨rfl, rfl⟩

/-- "F-order reshape, then `asfortranarray`" of an array that is not F-contiguous ends in a
newly allocated buffer, whichever branch the reshape takes. -/
theorem asF_reshapeF_fresh {α : Type} (d : α) (st : Store α) (v : View) (s : List Nat)
    (h : v.isF = false) :
    (asF d (reshapeF d st v s).1 (reshapeF d st v s).2).2.buf = st.length := by
  unfold reshapeF
  split
  · rw [asF_copy d st v h]; exact (copyF_ext d st v).2.2
  · rw [h]
    simp only [Bool.false_eq_true, if_false]
    rw [asF_view d _ _ (isF_reF _ s)]
    show ((copyF d st v).2.reF s).buf = st.length
    simp only [View.reF]
    exact (copyF_ext d st v).2.2

end Pyttb.Heap

