/-
Facts about the *generated* GCP handle definitions (`Generated/Handles.lean`) that the
C12 theorems use: positivity of EPS, the closed forms of the Huber pair and its
derivative in the three regions, the specification side of the selection table, and an
explicit copy of the negative-binomial gradient as it was at the pinned commit.
-/
import PyttbModel.Lemmas.GcpExpr
import PyttbModel.Generated.Handles
set_option linter.unusedSimpArgs false
namespace Pyttb
open Handles Expr Filter Topology

theorem EPS_pos : (0 : ℝ) < ((EPS : ℚ) : ℝ) := by
  unfold EPS; norm_num

/-- closes the algebraic identity `evalR (D loss) = evalR grad` after `simp` -/
macro "gcp_close" : tactic =>
  `(tactic| first | ring1 | (field_simp; ring1) | (field_simp; done))

/-! ### specification side of the selection table -/

/-- the loss that belongs to an objective -/
def lossOf : Objective → Expr
  | .GAUSSIAN => gaussian | .BERNOULLI_ODDS => bernoulli_odds
  | .BERNOULLI_LOGIT => bernoulli_logit | .POISSON => poisson | .POISSON_LOG => poisson_log
  | .RAYLEIGH => rayleigh | .GAMMA => gamma | .HUBER => huber
  | .NEGATIVE_BINOMIAL => negative_binomial | .BETA => beta

/-- the gradient that belongs to an objective -/
def gradOf : Objective → Expr
  | .GAUSSIAN => gaussian_grad | .BERNOULLI_ODDS => bernoulli_odds_grad
  | .BERNOULLI_LOGIT => bernoulli_logit_grad | .POISSON => poisson_grad
  | .POISSON_LOG => poisson_log_grad | .RAYLEIGH => rayleigh_grad | .GAMMA => gamma_grad
  | .HUBER => huber_grad | .NEGATIVE_BINOMIAL => negative_binomial_grad | .BETA => beta_grad

/-- the infimum of the model values on which the loss is used: the losses with a
logarithm or a negative power of `m + EPS` need `m ≥ 0`, the others are total. -/
def lowerOf : Objective → Bound
  | .GAUSSIAN | .BERNOULLI_LOGIT | .POISSON_LOG | .HUBER => .negInf
  | .BERNOULLI_ODDS | .POISSON | .RAYLEIGH | .GAMMA | .NEGATIVE_BINOMIAL | .BETA => .fin 0

/-- `m` respects a lower bound -/
def Bound.holds : Bound → ℝ → Prop
  | .negInf, _ => True
  | .fin q, m => (q : ℝ) ≤ m

/-- admissible values of the extra parameter: Huber threshold `> 0`, beta `b ∉ {0, 1}`;
anything for the negative-binomial number of trials; the other losses ignore it. -/
def ParamOK : Objective → ℝ → Prop
  | .HUBER, t => 0 < t
  | .BETA, b => b ≠ 0 ∧ b ≠ 1
  | _, _ => True

/-- The negative-binomial pair as it was at the pinned commit (before the fix 782e982 in
/repo), written out by hand: loss `(num_trials + data) log(model + 1) - data log(model + EPS)`,
gradient `(num_trials + 1) / (1 + model) - data / (model + EPS)`. -/
def negbinLossPinned : Expr :=
  .sub (.mul (.add .param .data) (.log (.add .var (.const 1)))) (.mul .data (.log (.add .var (.const EPS))))

/-- `negative_binomial_grad` at the pinned commit (explicit copy, not generated). -/
def negbinGradPinned : Expr :=
  .sub (.div (.add .param (.const 1)) (.add (.const 1) .var)) (.div .data (.add .var (.const EPS)))

/-! ### Huber -/

/-- closed form of the generated Huber loss -/
theorem huber_closed (x t y : ℝ) :
    huber.evalR x t y = if |x - y| < t then (x - y) ^ 2 else 2 * t * |x - y| - t ^ 2 := by
  by_cases h : |x - y| < t <;> simp [huber, evalR, h, abs_sub_comm y x]

/-- closed form of the generated Huber gradient -/
theorem huber_grad_closed (x t y : ℝ) :
    huber_grad.evalR x t y = if |x - y| < t then -2 * (x - y) else -(2 * t * sgn (x - y)) := by
  by_cases h : |x - y| < t <;> simp [huber_grad, evalR, h, abs_sub_comm y x]

/-- Huber, open inner region `|x - m| < t` (by hand: the loss is `(x - m)²` near `m`). -/
theorem huber_deriv_inside (x t m : ℝ) (h : |x - m| < t) :
    HasDerivAt (fun m => huber.evalR x t m) (huber_grad.evalR x t m) m := by
  have hc : ContinuousAt (fun y : ℝ => |x - y|) m := by fun_prop
  have ev : ∀ᶠ y in 𝓝 m, |x - y| < t := hc.eventually_lt continuousAt_const h
  have hd : HasDerivAt (fun y : ℝ => (x - y) ^ 2) (-2 * (x - m)) m := by
    have := ((hasDerivAt_id' m).const_sub x).fun_pow 2
    refine this.congr_deriv ?_
    simp
  rw [huber_grad_closed, if_pos h]
  refine hd.congr_of_eventuallyEq ?_
  filter_upwards [ev] with y hy
  rw [huber_closed, if_pos hy]

/-- Huber, open outer region `t < |x - m|`. -/
theorem huber_deriv_outside (x t m : ℝ) (ht : 0 ≤ t) (h : t < |x - m|) :
    HasDerivAt (fun m => huber.evalR x t m) (huber_grad.evalR x t m) m := by
  have hc : ContinuousAt (fun y : ℝ => |x - y|) m := by fun_prop
  have ev : ∀ᶠ y in 𝓝 m, t < |x - y| := continuousAt_const.eventually_lt hc h
  have h0 : x - m ≠ 0 := by
    intro h0; rw [h0, abs_zero] at h; linarith
  have hd : HasDerivAt (fun y : ℝ => 2 * t * |x - y| - t ^ 2) (-(2 * t * sgn (x - m))) m := by
    have h1 : HasDerivAt (fun y : ℝ => x - y) (-1) m := by
      simpa using (hasDerivAt_id' m).const_sub x
    have h2 : HasDerivAt (fun y : ℝ => |x - y|) (sgn (x - m) * (-1)) m := by
      rcases lt_or_gt_of_ne h0 with hn | hp
      · have : ∀ᶠ y in 𝓝 m, x - y < 0 := h1.continuousAt.eventually_lt continuousAt_const hn
        rw [sgn_of_neg hn]
        refine (h1.neg.congr_deriv (by ring)).congr_of_eventuallyEq ?_
        filter_upwards [this] with y hy
        simp [abs_of_neg hy]
      · have : ∀ᶠ y in 𝓝 m, 0 < x - y := continuousAt_const.eventually_lt h1.continuousAt hp
        rw [sgn_of_pos hp]
        refine (h1.congr_deriv (by ring)).congr_of_eventuallyEq ?_
        filter_upwards [this] with y hy
        simp [abs_of_pos hy]
    refine ((h2.const_mul (2 * t)).sub_const (t ^ 2)).congr_deriv ?_
    ring
  rw [huber_grad_closed, if_neg (not_lt.2 h.le)]
  refine hd.congr_of_eventuallyEq ?_
  filter_upwards [ev] with y hy
  rw [huber_closed, if_neg (not_lt.2 hy.le)]

/-- Huber at the kink `|x - m| = t`: the quadratic and the linear piece meet with equal value
and equal one-sided derivatives. -/
theorem huber_deriv_kink (x t m : ℝ) (ht : 0 < t) (h : |x - m| = t) :
    HasDerivAt (fun m => huber.evalR x t m) (huber_grad.evalR x t m) m := by
  have hq : HasDerivAt (fun y : ℝ => (x - y) ^ 2) (-2 * (x - m)) m := by
    have := ((hasDerivAt_id' m).const_sub x).fun_pow 2
    refine this.congr_deriv ?_
    simp
  have hlin : ∀ c : ℝ, HasDerivAt (fun y : ℝ => 2 * t * (c * (x - y)) - t ^ 2) (-(2 * t * c)) m := by
    intro c
    have h1 : HasDerivAt (fun y : ℝ => x - y) (-1) m := by
      simpa using (hasDerivAt_id' m).const_sub x
    refine (((h1.const_mul c).const_mul (2 * t)).sub_const (t ^ 2)).congr_deriv ?_
    ring
  rw [huber_grad_closed, if_neg (by rw [h]; exact lt_irrefl t)]
  -- a neighbourhood of m of radius t
  have near : ∀ᶠ y in 𝓝 m, |y - m| < t := by
    have hc : ContinuousAt (fun y : ℝ => |y - m|) m := by fun_prop
    have := hc.eventually_lt (continuousAt_const (y := t)) (by simpa using ht)
    exact this
  rcases abs_eq ht.le |>.1 h with hp | hn
  · -- x - m = t : left of m is the linear region, right of m the quadratic one
    have hs : sgn (x - m) = 1 := sgn_of_pos (by linarith)
    rw [hs]
    refine hasDerivAt_of_left_right ((hlin 1).congr_deriv (by ring)) (hq.congr_deriv (by rw [hp]; ring)) ?_ ?_
    · filter_upwards [near] with y hy hle
      have : t ≤ x - y := by linarith
      rw [huber_closed, if_neg (not_lt.2 (le_trans this (le_abs_self _))), abs_of_nonneg (le_trans ht.le this)]
      ring
    · filter_upwards [near] with y hy hle
      have hy' := abs_lt.1 hy
      rcases eq_or_lt_of_le hle with he | hlt
      · subst he
        rw [huber_closed, if_neg (by rw [h]; exact lt_irrefl t), h, hp]; ring
      · rw [huber_closed, if_pos (abs_lt.2 ⟨by linarith, by linarith⟩)]
  · -- x - m = -t
    have hs : sgn (x - m) = -1 := sgn_of_neg (by linarith)
    rw [hs]
    refine hasDerivAt_of_left_right (hq.congr_deriv (by rw [hn]; ring)) ((hlin (-1)).congr_deriv (by ring)) ?_ ?_
    · filter_upwards [near] with y hy hle
      have hy' := abs_lt.1 hy
      rcases eq_or_lt_of_le hle with he | hlt
      · subst he
        rw [huber_closed, if_neg (by rw [h]; exact lt_irrefl t), h, hn]; ring
      · rw [huber_closed, if_pos (abs_lt.2 ⟨by linarith, by linarith⟩)]
    · filter_upwards [near] with y hy hle
      have : x - y ≤ -t := by linarith
      rw [huber_closed, if_neg (not_lt.2 (by rw [abs_of_nonpos (by linarith)]; linarith)),
        abs_of_nonpos (by linarith)]
      ring

end Pyttb
